import Blue.Proofs.TupleKey1Parse
/-! **C16** field-numbered format: the schema-free walk (`scan`: `TupleKeyParser::peek_next` +
    `parse_next` / `parse_next_with_key`, the loop of `Schema::schema_for_key_recurse`).

    * `unfieldNumber_tag`: `TupleKey::unfield_number` inverts `TupleKey::field_number`;
    * `scan_encTuple` / `scan_roundtrip`: the walk over an encoded key returns the tuple;
    * `scan_fuel_stable`: the answer does not depend on the fuel once it exceeds the buffer length;
    * `scan_append`: the walk over `encTuple t ++ rest` is `t` followed by the walk over `rest`;
    * `scan_no_overrun`: on arbitrary bytes the walk consumes a prefix of the input. -/
namespace Blue.TupleKey1

/-! ### `unfield_number` inverts `field_number` -/

theorem rotr1_rotl1 (b : Nat) (h : b < 256) : rotr1 (rotl1 b) = b := by unfold rotr1 rotl1; omega

theorem varint_lt : ∀ (fuel x : Nat), ∀ b ∈ varint fuel x, b < 256
  | 0, _ => by intro b hb; simp [varint] at hb
  | fuel + 1, x => by
    intro b hb
    rw [varint] at hb
    split at hb
    · simp only [List.mem_cons, List.not_mem_nil, or_false] at hb; omega
    · simp only [List.mem_cons] at hb
      rcases hb with rfl | hb
      · omega
      · exact varint_lt fuel _ b hb

theorem varint_length : ∀ (fuel x : Nat), (varint fuel x).length ≤ fuel
  | 0, _ => by simp [varint]
  | fuel + 1, x => by
    rw [varint]
    split
    · simp
    · have := varint_length fuel (x / 128)
      simp only [List.length_cons]; omega

theorem map_rotr1_rotl1 (l : List Nat) (h : ∀ b ∈ l, b < 256) : (l.map rotl1).map rotr1 = l := by
  rw [List.map_map]
  conv => rhs; rw [← List.map_id l]
  apply List.map_congr_left
  intro b hb
  exact rotr1_rotl1 b (h b hb)

theorem unvarint_cons_small {b : Nat} (h : b < 128) (i : Nat) (rest : List Nat) :
    unvarint i (b :: rest) = some (b * 2 ^ (7 * i) % 18446744073709551616) := by
  conv => lhs; rw [unvarint.eq_def]
  simp only [if_pos h]

theorem unvarint_cons_big {b : Nat} (h : ¬ b < 128) (i : Nat) (c : Nat) (rest : List Nat) :
    unvarint i (b :: c :: rest) = (unvarint (i + 1) (c :: rest)).map (· + (b - 128) * 2 ^ (7 * i)) := by
  conv => lhs; rw [unvarint.eq_def]
  simp only [if_neg h]

theorem unvarint_cons_big' {b : Nat} (h : ¬ b < 128) (i : Nat) {rest : List Nat} (hr : rest ≠ []) :
    unvarint i (b :: rest) = (unvarint (i + 1) rest).map (· + (b - 128) * 2 ^ (7 * i)) := by
  cases rest with
  | nil => exact absurd rfl hr
  | cons c r => exact unvarint_cons_big h i c r

/-- `v64::unpack` inverts `v64::pack` (below 2^64, shifted by `7 * i` bits) -/
theorem unvarint_varint : ∀ (fuel x i : Nat), 0 < fuel → x < 128 ^ fuel → x * 2 ^ (7 * i) < 18446744073709551616 →
    unvarint i (varint fuel x) = some (x * 2 ^ (7 * i))
  | 0, x, i, h0, _, _ => by omega
  | fuel + 1, x, i, _, hx, hb => by
    rw [varint]
    by_cases h : x < 128
    · rw [if_pos h, unvarint_cons_small h, Nat.mod_eq_of_lt hb]
    · rw [if_neg h]
      have hf : 0 < fuel := by
        cases fuel with
        | zero => simp at hx; omega
        | succ n => omega
      have hx' : x / 128 < 128 ^ fuel := by
        rw [Nat.pow_succ] at hx
        exact Nat.div_lt_of_lt_mul (by rw [Nat.mul_comm]; exact hx)
      have hpow : 2 ^ (7 * (i + 1)) = 128 * 2 ^ (7 * i) := by
        rw [Nat.mul_add, Nat.pow_add, Nat.mul_comm]
      have hsplit : x / 128 * 2 ^ (7 * (i + 1)) + x % 128 * 2 ^ (7 * i) = x * 2 ^ (7 * i) := by
        rw [hpow, ← Nat.mul_assoc, ← Nat.add_mul, Nat.mul_comm (x / 128) 128, Nat.div_add_mod]
      have hb' : x / 128 * 2 ^ (7 * (i + 1)) < 18446744073709551616 := by omega
      have ih := unvarint_varint fuel (x / 128) (i + 1) hf hx' hb'
      obtain ⟨n, hn⟩ : ∃ n, fuel = n + 1 := ⟨fuel - 1, by omega⟩
      subst hn
      have hne := varint_ne_nil n (x / 128)
      rewrite [unvarint_cons_big' (b := x % 128 + 128) (by omega) i hne, ih]
      simp only [Option.map_some]
      have h128 : x % 128 + 128 - 128 = x % 128 := by omega
      rewrite [h128, hsplit]
      rfl

theorem fromDiscriminant_discriminant (ty : Ty) (d : Dir) : fromDiscriminant (discriminant ty d) = some (ty, d) := by
  cases ty <;> cases d <;> rfl

/-- **C16** `TupleKey::unfield_number` inverts `TupleKey::field_number` on every field number
    `FieldNumber::new` accepts -/
theorem unfieldNumber_tag {f : Nat} (hf : validField f = true) (ty : Ty) (d : Dir) :
    unfieldNumber (tag f ty d) = some (f, ty, d) := by
  have hlt := validField_lt hf
  have hd := discriminant_lt ty d
  unfold unfieldNumber tag
  have hlen : ¬ ((varint 10 (f * 16 + discriminant ty d)).map rotl1).length > 10 := by
    rw [List.length_map]
    have := varint_length 10 (f * 16 + discriminant ty d)
    omega
  rw [if_neg hlen, map_rotr1_rotl1 _ (varint_lt 10 _)]
  have := unvarint_varint 10 (f * 16 + discriminant ty d) 0 (by omega) (by simp only [Nat.reducePow]; omega)
    (by simp only [Nat.mul_zero, Nat.pow_zero, Nat.mul_one]; omega)
  simp only [Nat.mul_zero, Nat.pow_zero, Nat.mul_one] at this
  rw [this]
  have h1 : (f * 16 + discriminant ty d) % 16 = discriminant ty d := by omega
  have h2 : (f * 16 + discriminant ty d) / 16 = f := by omega
  simp only [h1, h2, fromDiscriminant_discriminant]
  rw [if_neg (by omega), if_pos hf]

/-! ### one step of the walk (equation lemmas for `scan`) -/

theorem scan_zero (buf : List Nat) : scan 0 buf = ([], none) := by
  conv => lhs; rw [scan.eq_def]

theorem scan_succ_err {buf : List Nat} {e : Err} (h : peekNext buf = .error e) (fuel : Nat) :
    scan (fuel + 1) buf = ([], some e) := by
  conv => lhs; rw [scan.eq_def]
  simp only [h]

theorem scan_succ_end {buf : List Nat} (h : peekNext buf = .ok none) (fuel : Nat) :
    scan (fuel + 1) buf = ([], none) := by
  conv => lhs; rw [scan.eq_def]
  simp only [h]

theorem scan_succ_unit {buf : List Nat} {f : Nat} {d : Dir} (h : peekNext buf = .ok (some (f, .unit, d))) (fuel : Nat) :
    scan (fuel + 1) buf =
      match parseNext buf f d with
      | .error e => ([], some e)
      | .ok rest => ((f, d, .unit) :: (scan fuel rest).1, (scan fuel rest).2) := by
  conv => lhs; rw [scan.eq_def]
  simp only [h]
  cases parseNext buf f d with
  | error e => rfl
  | ok rest => rfl

theorem scan_succ_val {buf : List Nat} {f : Nat} {ty : Ty} {d : Dir} (h : peekNext buf = .ok (some (f, ty, d)))
    (hty : ty ≠ .unit) (fuel : Nat) :
    scan (fuel + 1) buf =
      match parseWithKey buf f ty d with
      | .error e => ([], some e)
      | .ok (v, rest) => ((f, d, v) :: (scan fuel rest).1, (scan fuel rest).2) := by
  conv => lhs; rw [scan.eq_def]
  simp only [h]
  cases ty with
  | unit => exact absurd rfl hty
  | _ =>
    cases parseWithKey buf f _ d with
    | error e => rfl
    | ok p => rfl

/-! ### what a successful parse step consumed (arbitrary buffers) -/

/-- `TupleKeyIterator::next` returns a slice of the buffer and leaves the rest: nothing is made up -/
theorem splitElem_eq : ∀ (buf : List Nat), (splitElem buf).1 ++ (splitElem buf).2 = buf
  | [] => rfl
  | b :: r => by
    by_cases h : b % 2 = 1
    · rw [splitElem_odd h]
      simp only [List.cons_append, splitElem_eq r]
    · rw [splitElem_even (by omega)]
      rfl

theorem splitElem_fst_ne_nil (b : Nat) (r : List Nat) : (splitElem (b :: r)).1 ≠ [] := by
  by_cases h : b % 2 = 1
  · rw [splitElem_odd h]; simp
  · rw [splitElem_even (by omega)]; simp

theorem tag_ne_nil (f : Nat) (ty : Ty) (d : Dir) : tag f ty d ≠ [] := by
  unfold tag
  intro h
  exact varint_ne_nil 9 _ (List.map_eq_nil_iff.mp h)

theorem parseTag_ok {buf : List Nat} {f : Nat} {ty : Ty} {d : Dir} {rest : List Nat}
    (h : parseTag buf f ty d = .ok rest) : (splitElem buf).1 = tag f ty d ∧ (splitElem buf).2 = rest := by
  unfold parseTag at h
  cases buf with
  | nil => cases h
  | cons b r =>
    simp only at h
    split at h
    · rename_i heq
      injection h with h
      exact ⟨heq, h⟩
    · cases h

theorem parseNext_ok {buf : List Nat} {f : Nat} {d : Dir} {rest : List Nat} (h : parseNext buf f d = .ok rest) :
    ∃ raw, buf = tag f .unit d ++ raw ++ rest ∧ splitElem buf = (tag f .unit d, raw ++ rest)
      ∧ splitElem (raw ++ rest) = (raw, rest) ∧ raw.length = 1 := by
  unfold parseNext at h
  cases hp : parseTag buf f .unit d with
  | error e => rw [hp] at h; cases h
  | ok mid =>
    rw [hp] at h
    obtain ⟨h1, h2⟩ := parseTag_ok hp
    cases mid with
    | nil => cases h
    | cons b r =>
      simp only at h
      split at h
      · rename_i hlen
        injection h with h
        refine ⟨(splitElem (b :: r)).1, ?_, ?_, ?_, hlen⟩
        · rw [← h, List.append_assoc, splitElem_eq, ← h1, ← h2, splitElem_eq]
        · rw [← h, splitElem_eq, ← h1, ← h2]
        · rw [← h, splitElem_eq]
      · cases h

theorem parseWithKey_ok {buf : List Nat} {f : Nat} {ty : Ty} {d : Dir} {v : Val} {rest : List Nat}
    (h : parseWithKey buf f ty d = .ok (v, rest)) :
    ∃ raw, buf = tag f ty d ++ raw ++ rest ∧ splitElem buf = (tag f ty d, raw ++ rest)
      ∧ splitElem (raw ++ rest) = (raw, rest) ∧ raw ≠ [] ∧ parseFrom ty (encDir d raw) = .ok v := by
  unfold parseWithKey at h
  cases hp : parseTag buf f ty d with
  | error e => rw [hp] at h; cases h
  | ok mid =>
    rw [hp] at h
    obtain ⟨h1, h2⟩ := parseTag_ok hp
    cases mid with
    | nil => cases h
    | cons b r =>
      simp only at h
      cases hq : parseFrom ty (encDir d (splitElem (b :: r)).1) with
      | error e => rw [hq] at h; cases h
      | ok w =>
        rw [hq] at h
        simp only at h
        injection h with h
        injection h with hv hr
        subst hv
        refine ⟨(splitElem (b :: r)).1, ?_, ?_, ?_, splitElem_fst_ne_nil b r, hq⟩
        · rw [← hr, List.append_assoc, splitElem_eq, ← h1, ← h2, splitElem_eq]
        · rw [← hr, splitElem_eq, ← h1, ← h2]
        · rw [← hr, splitElem_eq]

/-! ### the answer does not depend on the fuel -/

theorem parseNext_shorter {buf : List Nat} {f : Nat} {d : Dir} {rest : List Nat} (h : parseNext buf f d = .ok rest) :
    rest.length < buf.length := by
  obtain ⟨raw, hb, _, _, hl⟩ := parseNext_ok h
  rw [hb]; simp only [List.length_append]; omega

theorem parseWithKey_shorter {buf : List Nat} {f : Nat} {ty : Ty} {d : Dir} {v : Val} {rest : List Nat}
    (h : parseWithKey buf f ty d = .ok (v, rest)) : rest.length < buf.length := by
  obtain ⟨raw, hb, _, _, hne, _⟩ := parseWithKey_ok h
  have := List.length_pos_iff.mpr hne
  rw [hb]; simp only [List.length_append]; omega

/-- **C16** the schema-free walk gives the same answer for every fuel above the buffer length (the
    driver runs it with `buf.length + 1`): the theorems below are about the function that is run -/
theorem scan_fuel_stable : ∀ (fuel fuel' : Nat) (buf : List Nat), buf.length < fuel → buf.length < fuel' →
    scan fuel buf = scan fuel' buf
  | 0, _, _, h, _ => by omega
  | _, 0, _, _, h => by omega
  | fuel + 1, fuel' + 1, buf, h, h' => by
    cases hp : peekNext buf with
    | error e => rw [scan_succ_err hp, scan_succ_err hp]
    | ok o =>
      cases o with
      | none => rw [scan_succ_end hp, scan_succ_end hp]
      | some x =>
        obtain ⟨f, ty, d⟩ := x
        by_cases hty : ty = .unit
        · subst hty
          rw [scan_succ_unit hp, scan_succ_unit hp]
          cases hn : parseNext buf f d with
          | error e => rfl
          | ok rest =>
            have := parseNext_shorter hn
            simp only
            rw [scan_fuel_stable fuel fuel' rest (by omega) (by omega)]
        · rw [scan_succ_val hp hty, scan_succ_val hp hty]
          cases hn : parseWithKey buf f ty d with
          | error e => rfl
          | ok p =>
            obtain ⟨v, rest⟩ := p
            have := parseWithKey_shorter hn
            simp only
            rw [scan_fuel_stable fuel fuel' rest (by omega) (by omega)]

/-! ### the walk over an encoded key -/

theorem peekNext_encField {f : Nat} (hf : validField f = true) (d : Dir) (v : Val) (rest : List Nat) :
    peekNext (encField f d v ++ rest) = .ok (some (f, v.ty, d)) := by
  have hs := tag_shape hf v.ty d
  unfold peekNext encField
  rw [List.append_assoc]
  have hsplit := splitElem_shape hs (encDir d (encElem v) ++ rest)
  cases hc : tag f v.ty d ++ (encDir d (encElem v) ++ rest) with
  | nil => exact absurd (List.append_eq_nil_iff.mp hc).1 hs.ne_nil
  | cons b r =>
    simp only
    rw [← hc, hsplit]
    simp only [unfieldNumber_tag hf]

theorem parseNext_encField_unit {f : Nat} (hf : validField f = true) (d : Dir) (rest : List Nat) :
    parseNext (encField f d .unit ++ rest) f d = .ok rest := by
  unfold parseNext encField
  rw [List.append_assoc]
  simp only [Val.ty]
  rw [parseTag_tag hf]
  have h254 : reverse [0] = [254] := by decide
  cases d with
  | fwd =>
    simp only [encDir, encElem, List.cons_append, List.nil_append]
    rw [splitElem_even (by omega)]
    simp
  | rev =>
    simp only [encDir, encElem, h254, List.cons_append, List.nil_append]
    rw [splitElem_even (by omega)]
    simp

theorem scan_nil (fuel : Nat) : scan fuel [] = ([], none) := by
  cases fuel with
  | zero => exact scan_zero []
  | succ n => exact scan_succ_end rfl n

/-- **C16** the walk over an encoded tuple followed by anything: the tuple, then the walk over
    what follows (the iterator finds every element boundary from the continuation bits alone) -/
theorem scan_encTuple_append (t : List (Nat × Dir × Val)) (h : ∀ e ∈ t, ElemOk e) (rest : List Nat) (fuel : Nat) :
    scan (fuel + t.length) (encTuple t ++ rest) = (t ++ (scan fuel rest).1, (scan fuel rest).2) := by
  induction t with
  | nil => rfl
  | cons e t ih =>
    have he := h e (by simp)
    have ih' := ih (fun e he => h e (List.mem_cons_of_mem _ he))
    have hw := parseWithKey_encField e he (encTuple t ++ rest)
    obtain ⟨f, d, v⟩ := e
    have hf : validField f = true := he.1
    simp only [encTuple, List.append_assoc, List.length_cons] at hw ⊢
    have hp := peekNext_encField hf d v (encTuple t ++ rest)
    show scan ((fuel + t.length) + 1) _ = _
    by_cases hty : v.ty = .unit
    · have hv : v = .unit := by cases v <;> simp [Val.ty] at hty ⊢
      subst hv
      rw [scan_succ_unit hp, parseNext_encField_unit hf]
      simp only [ih', List.cons_append]
    · rw [scan_succ_val hp hty, hw]
      simp only [ih', List.cons_append]

theorem encTuple_length_ge (t : List (Nat × Dir × Val)) : t.length ≤ (encTuple t).length := by
  induction t with
  | nil => simp
  | cons e t ih =>
    obtain ⟨f, d, v⟩ := e
    have := List.length_pos_iff.mpr (encField_ne_nil f d v)
    simp only [encTuple, List.length_cons, List.length_append]
    omega

/-- **C16** round trip of the schema-free walk: with at least as much fuel as the tuple has
    elements, the walk over the key of `t` returns `t` — field numbers, directions, values — and
    no error -/
theorem scan_encTuple (t : List (Nat × Dir × Val)) (h : ∀ e ∈ t, ElemOk e) (fuel : Nat) (hf : t.length ≤ fuel) :
    scan fuel (encTuple t) = (t, none) := by
  have := scan_encTuple_append t h [] (fuel - t.length)
  rw [List.append_nil, scan_nil, Nat.sub_add_cancel hf] at this
  simpa using this

/-- **C16** round trip, as the driver runs the walk (`fuel = buf.length + 1`) -/
theorem scan_roundtrip (t : List (Nat × Dir × Val)) (h : ∀ e ∈ t, ElemOk e) :
    scan ((encTuple t).length + 1) (encTuple t) = (t, none) :=
  scan_encTuple t h _ (Nat.le_succ_of_le (encTuple_length_ge t))

/-- **C16** keys are concatenations of self-delimiting elements: the walk (as the driver runs it)
    over the key of `t` followed by ANY bytes is `t`, then the walk over those bytes -/
theorem scan_append (t : List (Nat × Dir × Val)) (h : ∀ e ∈ t, ElemOk e) (rest : List Nat) :
    scan ((encTuple t ++ rest).length + 1) (encTuple t ++ rest)
      = (t ++ (scan (rest.length + 1) rest).1, (scan (rest.length + 1) rest).2) := by
  have hl := encTuple_length_ge t
  have hfuel : (encTuple t ++ rest).length + 1 = ((encTuple t).length - t.length + rest.length + 1) + t.length := by
    simp only [List.length_append]; omega
  rw [hfuel, scan_encTuple_append t h rest,
    scan_fuel_stable _ (rest.length + 1) rest (by omega) (by omega)]

/-- two keys, concatenated, walk to the two tuples, concatenated -/
theorem scan_append_tuples (t u : List (Nat × Dir × Val)) (ht : ∀ e ∈ t, ElemOk e) (hu : ∀ e ∈ u, ElemOk e) :
    scan ((encTuple t ++ encTuple u).length + 1) (encTuple t ++ encTuple u)
      = ((scan ((encTuple t).length + 1) (encTuple t)).1 ++ (scan ((encTuple u).length + 1) (encTuple u)).1, none) := by
  rw [scan_append t ht, scan_roundtrip t ht, scan_roundtrip u hu]

/-- the first `t.length` results of a walk are determined by the key prefix `encTuple t` alone -/
theorem scan_prefix_determined (t : List (Nat × Dir × Val)) (h : ∀ e ∈ t, ElemOk e) (rest : List Nat) :
    (scan ((encTuple t ++ rest).length + 1) (encTuple t ++ rest)).1.take t.length = t := by
  rw [scan_append t h]
  simp

/-! ### arbitrary bytes: the walk consumes a prefix of the input and nothing else -/

theorem peekNext_valid {buf : List Nat} {f : Nat} {ty : Ty} {d : Dir} (h : peekNext buf = .ok (some (f, ty, d))) :
    validField f = true := by
  unfold peekNext at h
  cases buf with
  | nil => cases h
  | cons b r =>
    simp only at h
    cases hu : unfieldNumber (splitElem (b :: r)).1 with
    | none => rw [hu] at h; cases h
    | some x =>
      rw [hu] at h
      injection h with h
      injection h with h
      subst h
      unfold unfieldNumber at hu
      split at hu
      · cases hu
      · split at hu
        · cases hu
        · split at hu
          · cases hu
          · split at hu
            · cases hu
            · split at hu
              · rename_i hv
                injection hu with hu
                injection hu with hf _
                rw [← hf]; exact hv
              · cases hu

theorem parseFrom_ty {ty : Ty} {bs : List Nat} {v : Val} (h : parseFrom ty bs = .ok v) : v.ty = ty := by
  cases ty <;> simp only [parseFrom] at h <;> split at h <;> cases h <;> rfl

theorem encDir_length (d : Dir) (l : List Nat) : (encDir d l).length = l.length := by
  cases d <;> simp [encDir, reverse]

/-- `Consumed buf vs rest`: `buf` is, element by element, the tag `field_number` makes for each
    returned triple, cut by `TupleKeyIterator::next`, then a non-empty raw slice cut by the iterator
    that `parse_from` (after `reverse_encoding` for descending elements) turns into the returned
    value; `rest` is what remains behind the last of them -/
def Consumed : List Nat → List (Nat × Dir × Val) → List Nat → Prop
  | buf, [], rest => buf = rest
  | buf, (f, d, v) :: vs, rest =>
    ∃ raw buf', buf = tag f v.ty d ++ raw ++ buf' ∧ validField f = true
      ∧ splitElem buf = (tag f v.ty d, raw ++ buf') ∧ splitElem (raw ++ buf') = (raw, buf') ∧ raw ≠ []
      ∧ parseFrom v.ty (encDir d raw) = .ok v ∧ Consumed buf' vs rest

/-- what was consumed is a prefix of the buffer: two or more bytes per returned element -/
theorem Consumed.prefix : ∀ {buf : List Nat} {vs : List (Nat × Dir × Val)} {rest : List Nat}, Consumed buf vs rest →
    ∃ pre, buf = pre ++ rest ∧ 2 * vs.length ≤ pre.length
  | buf, [], rest, h => ⟨[], by simpa [Consumed] using h, by simp⟩
  | buf, (f, d, v) :: vs, rest, h => by
    obtain ⟨raw, buf', hb, _, _, _, hne, _, hc⟩ := h
    obtain ⟨pre, hp, hl⟩ := Consumed.prefix hc
    refine ⟨tag f v.ty d ++ raw ++ pre, by rw [hb, hp]; simp only [List.append_assoc], ?_⟩
    have h1 := List.length_pos_iff.mpr hne
    have h2 := List.length_pos_iff.mpr (tag_ne_nil f v.ty d)
    simp only [List.length_append, List.length_cons]
    omega

/-- one step of the walk on arbitrary bytes: either nothing is recognised, or one tagged element
    is cut off the front and the walk goes on behind it -/
theorem scan_succ_cases (fuel : Nat) (buf : List Nat) :
    (scan (fuel + 1) buf).1 = [] ∨
    ∃ f d v raw buf', buf = tag f v.ty d ++ raw ++ buf' ∧ validField f = true
      ∧ splitElem buf = (tag f v.ty d, raw ++ buf') ∧ splitElem (raw ++ buf') = (raw, buf') ∧ raw ≠ []
      ∧ parseFrom v.ty (encDir d raw) = .ok v
      ∧ scan (fuel + 1) buf = ((f, d, v) :: (scan fuel buf').1, (scan fuel buf').2) := by
  cases hp : peekNext buf with
  | error e => left; rw [scan_succ_err hp]
  | ok o =>
    cases o with
    | none => left; rw [scan_succ_end hp]
    | some x =>
      obtain ⟨f, ty, d⟩ := x
      have hf := peekNext_valid hp
      by_cases hty : ty = .unit
      · subst hty
        rw [scan_succ_unit hp]
        cases hn : parseNext buf f d with
        | error e => left; rfl
        | ok rest =>
          right
          obtain ⟨raw, hb, hs1, hs2, hl⟩ := parseNext_ok hn
          refine ⟨f, d, .unit, raw, rest, hb, hf, hs1, hs2, ?_, ?_, rfl⟩
          · intro h; rw [h] at hl; cases hl
          · simp only [Val.ty, parseFrom]
            rw [if_pos (by rw [encDir_length]; exact hl)]
      · rw [scan_succ_val hp hty]
        cases hn : parseWithKey buf f ty d with
        | error e => left; rfl
        | ok p =>
          right
          obtain ⟨v, rest⟩ := p
          obtain ⟨raw, hb, hs1, hs2, hne, hpf⟩ := parseWithKey_ok hn
          have hvt := parseFrom_ty hpf
          subst hvt
          exact ⟨f, d, v, raw, rest, hb, hf, hs1, hs2, hne, hpf, rfl⟩

/-- **C16** no overrun, any fuel: the walk over ARBITRARY bytes consumes a prefix of the input —
    exactly the tags and raw slices of the triples it returns (`Consumed`) — and its outcome
    (no error, or the error) is the outcome of one more look at what remains, where nothing more
    is recognised -/
theorem scan_consumed : ∀ (fuel : Nat) (buf : List Nat),
    ∃ rest, Consumed buf (scan fuel buf).1 rest
      ∧ scan (fuel - (scan fuel buf).1.length) rest = ([], (scan fuel buf).2)
  | 0, buf => ⟨buf, by rw [scan_zero]; rfl, by rw [scan_zero]; rfl⟩
  | fuel + 1, buf => by
    rcases scan_succ_cases fuel buf with h | ⟨f, d, v, raw, buf', hb, hf, hs1, hs2, hne, hpf, hsc⟩
    · refine ⟨buf, by rw [h]; rfl, ?_⟩
      rw [h]
      exact Prod.ext h rfl
    · obtain ⟨rest, hc, hr⟩ := scan_consumed fuel buf'
      refine ⟨rest, ?_, ?_⟩
      · rw [hsc]
        exact ⟨raw, buf', hb, hf, hs1, hs2, hne, hpf, hc⟩
      · rw [hsc]
        simp only [List.length_cons, Nat.add_sub_add_right]
        exact hr

/-- a step that recognises nothing does not look at the fuel -/
theorem scan_succ_nil_indep {k : Nat} {buf : List Nat} (h : (scan (k + 1) buf).1 = []) (k' : Nat) :
    scan (k' + 1) buf = scan (k + 1) buf := by
  cases hp : peekNext buf with
  | error e => rw [scan_succ_err hp, scan_succ_err hp]
  | ok o =>
    cases o with
    | none => rw [scan_succ_end hp, scan_succ_end hp]
    | some x =>
      obtain ⟨f, ty, d⟩ := x
      by_cases hty : ty = .unit
      · subst hty
        rw [scan_succ_unit hp] at h ⊢
        rw [scan_succ_unit hp]
        cases hn : parseNext buf f d with
        | error e => rfl
        | ok rest => rw [hn] at h; cases h
      · rw [scan_succ_val hp hty] at h ⊢
        rw [scan_succ_val hp hty]
        cases hn : parseWithKey buf f ty d with
        | error e => rfl
        | ok p => rw [hn] at h; cases h

/-- a step that recognises nothing and reports no error stands at the end of the buffer -/
theorem scan_succ_nil_none {k : Nat} {buf : List Nat} (h : scan (k + 1) buf = ([], none)) : buf = [] := by
  cases buf with
  | nil => rfl
  | cons b r =>
    exfalso
    cases hp : peekNext (b :: r) with
    | error e => rw [scan_succ_err hp] at h; cases h
    | ok o =>
      cases o with
      | none =>
        unfold peekNext at hp
        simp only at hp
        split at hp <;> cases hp
      | some x =>
        obtain ⟨f, ty, d⟩ := x
        by_cases hty : ty = .unit
        · subst hty
          rw [scan_succ_unit hp] at h
          cases hn : parseNext (b :: r) f d with
          | error e => rw [hn] at h; cases h
          | ok rest => rw [hn] at h; cases h
        · rw [scan_succ_val hp hty] at h
          cases hn : parseWithKey (b :: r) f ty d with
          | error e => rw [hn] at h; cases h
          | ok p => rw [hn] at h; cases h

/-- **C16** "decoding arbitrary bytes returns an error rather than panicking", the content it has
    on a total model, for the walk as the driver runs it: on ANY byte string the walk reads a
    prefix `pre` of the input only (`Consumed`: the canonical tags and the raw slices of exactly
    the triples it returns, each slice parsing to the value returned); it reports no error only
    if it consumed the whole input, and an error `e` only if bytes remain and `e` is what the
    first element of the remainder fails with (`scan 1 rest`: one peek + parse, nothing recognised) -/
theorem scan_total_no_overrun (buf : List Nat) :
    ∃ pre rest, buf = pre ++ rest ∧ Consumed buf (scan (buf.length + 1) buf).1 rest
      ∧ 2 * (scan (buf.length + 1) buf).1.length ≤ pre.length
      ∧ ((scan (buf.length + 1) buf).2 = none → rest = [])
      ∧ (∀ e, (scan (buf.length + 1) buf).2 = some e → rest ≠ [] ∧ scan 1 rest = ([], some e)) := by
  obtain ⟨rest, hc, hr⟩ := scan_consumed (buf.length + 1) buf
  obtain ⟨pre, hp, hl⟩ := hc.prefix
  have hlen : buf.length = pre.length + rest.length := by rw [hp]; simp
  obtain ⟨k, hk⟩ : ∃ k, buf.length + 1 - (scan (buf.length + 1) buf).1.length = k + 1 :=
    ⟨buf.length - (scan (buf.length + 1) buf).1.length, by omega⟩
  rw [hk] at hr
  refine ⟨pre, rest, hp, hc, hl, ?_, ?_⟩
  · intro hnone
    rw [hnone] at hr
    exact scan_succ_nil_none hr
  · intro e he
    rw [he] at hr
    refine ⟨?_, ?_⟩
    · intro hnil
      rw [hnil, scan_nil] at hr
      cases hr
    · rw [scan_succ_nil_indep (k := k) (by rw [hr]) 0, hr]

/-! ### what the walk returns from arbitrary bytes is a tuple a writer could have written -/

theorem byteOf_lt (l : List Nat) (hb : Bits l) (hl : l.length = 8) : byteOf l < 256 := by
  match l, hl with
  | [a, b, c, d, e, f, g, h], _ =>
    have ha := hb a (by simp)
    have hb' := hb b (by simp)
    have hc := hb c (by simp)
    have hd := hb d (by simp)
    have he := hb e (by simp)
    have hf := hb f (by simp)
    have hg := hb g (by simp)
    have hh := hb h (by simp)
    simp only [byteOf, List.foldl_cons, List.foldl_nil]
    omega

theorem group8_Bytes : ∀ (f : Nat) (l : List Nat), Bits l → Bytes (group8 f l)
  | 0, _, _ => by intro b hb; simp [group8] at hb
  | f + 1, l, hl => by
    intro b hb
    simp only [group8] at hb
    split at hb
    · rename_i h8
      simp only [List.mem_cons] at hb
      rcases hb with rfl | hb
      · exact byteOf_lt _ (fun x hx => hl x (List.mem_of_mem_take hx)) (by rw [List.length_take]; omega)
      · exact group8_Bytes f _ (fun x hx => hl x (List.mem_of_mem_drop hx)) b hb
    · simp at hb

theorem decBits_Bits (cs : List Nat) : Bits (decBits cs) := by
  intro b hb
  simp only [decBits, List.mem_flatMap, bits7, List.mem_cons, List.not_mem_nil, or_false] at hb
  obtain ⟨c, _, h⟩ := hb
  rcases h with rfl | rfl | rfl | rfl | rfl | rfl | rfl <;> omega

theorem decString_Bytes (bs : List Nat) : Bytes (decString bs) := by
  unfold decString
  split
  · intro b hb; simp at hb
  · exact group8_Bytes _ _ (decBits_Bits bs)

theorem decU32_lt {bs : List Nat} (hb : Bytes bs) {n : Nat} (h : decU32 bs = some n) : n < 4294967296 := by
  match bs, h with
  | [b0, b1, b2, b3, b4], h =>
    simp only [decU32, Option.some.injEq] at h
    have h0 := hb b0 (by simp)
    have h1 := hb b1 (by simp)
    have h2 := hb b2 (by simp)
    have h3 := hb b3 (by simp)
    have h4 := hb b4 (by simp)
    omega

theorem decU64_lt {bs : List Nat} (hb : Bytes bs) {n : Nat} (h : decU64 bs = some n) : n < 18446744073709551616 := by
  match bs, h with
  | [b0, b1, b2, b3, b4, b5, b6, b7, b8, b9], h =>
    simp only [decU64, Option.some.injEq] at h
    have h0 := hb b0 (by simp)
    have h1 := hb b1 (by simp)
    have h2 := hb b2 (by simp)
    have h3 := hb b3 (by simp)
    have h4 := hb b4 (by simp)
    have h5 := hb b5 (by simp)
    have h6 := hb b6 (by simp)
    have h7 := hb b7 (by simp)
    have h8 := hb b8 (by simp)
    have h9 := hb b9 (by simp)
    omega

/-- whatever `parse_from` accepts is a value of its Rust type (a `String` that is UTF-8) -/
theorem parseFrom_ok_range {ty : Ty} {bs : List Nat} (hb : Bytes bs) {v : Val} (h : parseFrom ty bs = .ok v) :
    v.InRange ∧ ∀ s, v = .str s → Blue.Utf8.valid s = true := by
  cases ty <;> simp only [parseFrom] at h
  · split at h <;> cases h
    exact ⟨trivial, fun s hs => by cases hs⟩
  · split at h <;> cases h
    rename_i n hn
    exact ⟨decU32_lt hb hn, fun s hs => by cases hs⟩
  · split at h <;> cases h
    rename_i n hn
    exact ⟨decU64_lt hb hn, fun s hs => by cases hs⟩
  · split at h <;> cases h
    rename_i z hz
    refine ⟨?_, fun s hs => by cases hs⟩
    unfold decI32 at hz
    cases hu : decU32 bs with
    | none => rw [hu] at hz; cases hz
    | some n =>
      rw [hu] at hz
      change some ((n : Int) - 2147483648) = some z at hz; injection hz with hz
      have := decU32_lt hb hu
      show -2147483648 ≤ z ∧ z < 2147483648
      omega
  · split at h <;> cases h
    rename_i z hz
    refine ⟨?_, fun s hs => by cases hs⟩
    unfold decI64 at hz
    cases hu : decU64 bs with
    | none => rw [hu] at hz; cases hz
    | some n =>
      rw [hu] at hz
      change some ((n : Int) - 9223372036854775808) = some z at hz; injection hz with hz
      have := decU64_lt hb hu
      show -9223372036854775808 ≤ z ∧ z < 9223372036854775808
      omega
  · split at h <;> cases h
    rename_i hv
    exact ⟨decString_Bytes bs, fun s hs => by cases hs; exact hv⟩

theorem encDir_Bytes (d : Dir) {l : List Nat} (h : Bytes l) : Bytes (encDir d l) := by
  cases d
  · exact h
  · intro b hb
    simp only [encDir, reverse, List.mem_map] at hb
    obtain ⟨c, _, rfl⟩ := hb
    unfold revByte; omega

theorem Consumed.elemOk : ∀ {buf : List Nat} {vs : List (Nat × Dir × Val)} {rest : List Nat}, Consumed buf vs rest →
    Bytes buf → ∀ e ∈ vs, ElemOk e
  | _, [], _, _, _ => by intro e he; cases he
  | buf, (f, d, v) :: vs, rest, h, hb => by
    obtain ⟨raw, buf', hbuf, hf, _, _, _, hpf, hc⟩ := h
    have hraw : Bytes raw := fun b hm => hb b (by rw [hbuf]; simp [hm])
    have hbuf' : Bytes buf' := fun b hm => hb b (by rw [hbuf]; simp [hm])
    intro e he
    simp only [List.mem_cons] at he
    rcases he with rfl | he
    · obtain ⟨h1, h2⟩ := parseFrom_ok_range (encDir_Bytes d hraw) hpf
      exact ⟨hf, h1, h2⟩
    · exact Consumed.elemOk hc hbuf' e he

/-- **C16** whatever the walk returns from ANY buffer of bytes is a tuple `extend_with_key`
    accepts: valid field numbers, values in the range of their Rust types, UTF-8 strings -/
theorem scan_values_ok (fuel : Nat) (buf : List Nat) (hb : Bytes buf) : ∀ e ∈ (scan fuel buf).1, ElemOk e := by
  obtain ⟨rest, hc, _⟩ := scan_consumed fuel buf
  exact hc.elemOk hb

/-- **C16** the walk normalises: the key written from what the walk returned (from ANY bytes)
    walks back to exactly that.  The raw input need not be that key: `parse_from` ignores pad bits
    (see the `decide`d examples in `Props/C16.lean`), only the tags are canonical (`Consumed`). -/
theorem scan_normalises (fuel : Nat) (buf : List Nat) (hb : Bytes buf) :
    scan ((encTuple (scan fuel buf).1).length + 1) (encTuple (scan fuel buf).1) = ((scan fuel buf).1, none) :=
  scan_roundtrip _ (scan_values_ok fuel buf hb)

/-- **C16** the canonical class, exactly: re-encoding what the walk returned gives the input back
    iff the input is a key a writer can produce (the image of `encTuple` on accepted tuples).
    Outside that image the walk may still succeed (pad bits `parse_from` ignores) and then
    re-encodes to a DIFFERENT, canonical key with the same walk (`scan_normalises`). -/
theorem scan_reencode_iff (buf : List Nat) (hb : Bytes buf) :
    encTuple (scan (buf.length + 1) buf).1 = buf ↔ ∃ t, (∀ e ∈ t, ElemOk e) ∧ buf = encTuple t := by
  constructor
  · intro h
    exact ⟨_, scan_values_ok _ buf hb, h.symm⟩
  · rintro ⟨t, ht, rfl⟩
    rw [scan_roundtrip t ht]

/-! ### the typed parser on arbitrary bytes -/

theorem parseRow_cons_err {buf : List Nat} {f : Nat} {ty : Ty} {d : Dir} {e : Err}
    (h : parseWithKey buf f ty d = .error e) (sch : List (Nat × Ty × Dir)) :
    parseRow ((f, ty, d) :: sch) buf = ([], .error e) := by
  simp only [parseRow, h]

theorem parseRow_cons_ok {buf : List Nat} {f : Nat} {ty : Ty} {d : Dir} {v : Val} {rest : List Nat}
    (h : parseWithKey buf f ty d = .ok (v, rest)) (sch : List (Nat × Ty × Dir)) :
    parseRow ((f, ty, d) :: sch) buf = (v :: (parseRow sch rest).1, (parseRow sch rest).2) := by
  simp only [parseRow, h]

/-- the (field number, direction, value) triples of the values a typed parse returned -/
def rowTriples : List (Nat × Ty × Dir) → List Val → List (Nat × Dir × Val)
  | (f, _, d) :: sch, v :: vs => (f, d, v) :: rowTriples sch vs
  | _, _ => []

/-- **C16** the typed parser (`parse_next_with_key` per expected element) on ARBITRARY bytes, any
    expected element sequence: it reads a prefix of the input only (`Consumed`, for exactly the
    values it returns, which have the expected types); it ends `ok` only behind the last expected
    element, handing over exactly what remains; it ends with an error only at an expected element
    and the error is what `parse_next_with_key` says for that element at what remains -/
theorem parseRow_total_no_overrun : ∀ (sch : List (Nat × Ty × Dir)) (buf : List Nat),
    (∀ s ∈ sch, validField s.1 = true) →
    ∃ rest, Consumed buf (rowTriples sch (parseRow sch buf).1) rest
      ∧ (parseRow sch buf).1.map Val.ty = (sch.take (parseRow sch buf).1.length).map (·.2.1)
      ∧ (∀ rem, (parseRow sch buf).2 = .ok rem → rem = rest ∧ (parseRow sch buf).1.length = sch.length)
      ∧ (∀ e, (parseRow sch buf).2 = .error e →
          ∃ f ty d, sch[(parseRow sch buf).1.length]? = some (f, ty, d) ∧ parseWithKey rest f ty d = .error e)
  | [], buf, _ => by
    refine ⟨buf, ?_, ?_, ?_, ?_⟩
    · show buf = buf
      rfl
    · rfl
    · intro rem h; cases h; exact ⟨rfl, rfl⟩
    · intro e h; cases h
  | (f, ty, d) :: sch, buf, hs => by
    have hf : validField f = true := hs (f, ty, d) (by simp)
    cases hw : parseWithKey buf f ty d with
    | error e =>
      rw [parseRow_cons_err hw]
      refine ⟨buf, ?_, ?_, ?_, ?_⟩
      · show buf = buf
        rfl
      · rfl
      · intro rem h; cases h
      · intro e' h
        cases h
        exact ⟨f, ty, d, rfl, hw⟩
    | ok p =>
      obtain ⟨v, rest1⟩ := p
      rw [parseRow_cons_ok hw]
      obtain ⟨raw, hb, hs1, hs2, hne, hpf⟩ := parseWithKey_ok hw
      have hvt := parseFrom_ty hpf
      subst hvt
      obtain ⟨rest, hc, hty, hok, herr⟩ := parseRow_total_no_overrun sch rest1
        (fun s hm => hs s (List.mem_cons_of_mem _ hm))
      refine ⟨rest, ⟨raw, rest1, hb, hf, hs1, hs2, hne, hpf, hc⟩, ?_, ?_, ?_⟩
      · simp only [List.map_cons, List.length_cons, List.take_succ_cons, hty]
      · intro rem h
        obtain ⟨h1, h2⟩ := hok rem h
        exact ⟨h1, by simp only [List.length_cons, h2]⟩
      · intro e h
        obtain ⟨f', ty', d', h1, h2⟩ := herr e h
        exact ⟨f', ty', d', by simpa only [List.length_cons, List.getElem?_cons_succ] using h1, h2⟩

/-- what the typed parser returns from ANY buffer of bytes are values `extend_with_key` accepts -/
theorem parseRow_values_ok (sch : List (Nat × Ty × Dir)) (buf : List Nat) (hs : ∀ s ∈ sch, validField s.1 = true)
    (hb : Bytes buf) : ∀ e ∈ rowTriples sch (parseRow sch buf).1, ElemOk e := by
  obtain ⟨rest, hc, _⟩ := parseRow_total_no_overrun sch buf hs
  exact hc.elemOk hb

end Blue.TupleKey1

#print axioms Blue.TupleKey1.unfieldNumber_tag
#print axioms Blue.TupleKey1.scan_fuel_stable
#print axioms Blue.TupleKey1.scan_roundtrip
#print axioms Blue.TupleKey1.scan_append
#print axioms Blue.TupleKey1.scan_total_no_overrun
#print axioms Blue.TupleKey1.scan_normalises
#print axioms Blue.TupleKey1.scan_reencode_iff
#print axioms Blue.TupleKey1.parseRow_total_no_overrun
#print axioms Blue.TupleKey1.parseRow_values_ok
