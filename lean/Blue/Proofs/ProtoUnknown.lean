import Blue.Proofs.ProtoMsg
import Blue.Proofs.Varint
/-! `unknown_fields_skipped` at full strength (property C15): a field the reader has no arm for
    may be inserted at ANY field boundary of ANY buffer — the bytes before it need only be what
    the field iterator reads as complete fields (whatever their payloads: malformed, non-canonical,
    unknown themselves), the bytes after it are arbitrary (also truncated or hostile) — and the
    struct unpacks to the same value or the same error.  The same inside a nested message, one level
    (`unpackMsg_unknown_nested`); `nested_frame_congr` composes, and `Blue/Proofs/ProtoDeep.lean`
    iterates it over a path of nested frames of any length. -/
namespace Blue.ProtoMsg
open Blue.Wire Blue.Varint

/-! ## a successful read does not depend on what follows the bytes it looked at -/

theorem decVarintAux_shape' : ∀ (f shl acc : Nat) (bs : List Nat) (v : Nat) (rest : List Nat),
    decVarintAux f shl acc bs = some (v, rest) →
    ∃ pre last, bs = pre ++ last :: rest ∧ (∀ b ∈ pre, 128 ≤ b) ∧ last < 128 ∧ pre.length < f
      ∧ v = (acc + lowSum pre shl + last * 2 ^ (shl + 7 * pre.length)) % U64
  | 0, _, _, _, _, _, h => by simp [decVarintAux] at h
  | _+1, _, _, [], _, _, h => by simp [decVarintAux] at h
  | f+1, shl, acc, b :: t, v, rest, h => by
    simp only [decVarintAux] at h
    by_cases hb : b < 128
    · simp only [hb, if_true, Option.some.injEq, Prod.mk.injEq] at h
      exact ⟨[], b, by simp [h.2], by simp, hb, by simp, by simp [lowSum, h.1]⟩
    · simp only [hb, if_false] at h
      obtain ⟨pre, last, e, hp, hl, hlen, hv⟩ := decVarintAux_shape' f _ _ t v rest h
      refine ⟨b :: pre, last, by simp [e], ?_, hl, by simp; omega, ?_⟩
      · intro x hx
        simp only [List.mem_cons] at hx
        rcases hx with rfl | hx
        · omega
        · exact hp x hx
      · have e2 : shl + 7 + 7 * pre.length = shl + 7 * (pre.length + 1) := by omega
        simp only [lowSum, List.length_cons]
        rw [hv, e2]
        congr 1; omega

theorem decVarintAux_append : ∀ (f shl acc : Nat) (bs : List Nat) (v : Nat) (rest x : List Nat),
    decVarintAux f shl acc bs = some (v, rest) → decVarintAux f shl acc (bs ++ x) = some (v, rest ++ x)
  | 0, _, _, _, _, _, _, h => by simp [decVarintAux] at h
  | _+1, _, _, [], _, _, _, h => by simp [decVarintAux] at h
  | f+1, shl, acc, b :: t, v, rest, x, h => by
    simp only [decVarintAux, List.cons_append] at h ⊢
    by_cases hb : b < 128
    · simp only [hb, if_true, Option.some.injEq, Prod.mk.injEq] at h ⊢
      exact ⟨h.1, by rw [h.2]⟩
    · simp only [hb, if_false] at h ⊢
      exact decVarintAux_append f _ _ t v rest x h

theorem decVarint_append (bs : List Nat) (v : Nat) (rest x : List Nat) (h : decVarint bs = some (v, rest)) :
    decVarint (bs ++ x) = some (v, rest ++ x) := decVarintAux_append 10 0 0 bs v rest x h

/-- what a varint read leaves is a suffix of the buffer -/
theorem decVarint_suffix (bs : List Nat) (v : Nat) (rest : List Nat) (h : decVarint bs = some (v, rest)) :
    ∃ p, bs = p ++ rest ∧ p ≠ [] := by
  obtain ⟨pre, last, e, _⟩ := decVarintAux_shape' 10 0 0 bs v rest h
  exact ⟨pre ++ [last], by simp [e], by simp⟩

/-- the canonical encoding of the value read is no longer than the bytes read -/
theorem decVarint_canonical_le (buf : List Nat) (hb : Bytes buf) (v : Nat) (rest : List Nat)
    (h : decVarint buf = some (v, rest)) : (encVarint v).length + rest.length ≤ buf.length := by
  obtain ⟨pre, last, e, hp, hl, hlen, hv⟩ := decVarintAux_shape' 10 0 0 buf v rest h
  subst e
  have hpb : ∀ b ∈ pre, b < 256 := fun b hb' => hb b (by simp [hb'])
  have hlow := lowSum_lt pre hpb
  have hle : v ≤ lowSum pre 0 + last * 2 ^ (7 * pre.length) := by
    rw [hv]; simp only [Nat.zero_add]; exact Nat.mod_le _ _
  have h1 : last * 2 ^ (7 * pre.length) ≤ 127 * 2 ^ (7 * pre.length) := Nat.mul_le_mul_right _ (by omega)
  have h2 : (128 : Nat) ^ (pre.length + 1) = 128 * 2 ^ (7 * pre.length) := by
    rw [Nat.pow_succ, Nat.mul_comm, Nat.pow_mul]
  have := encVarint_length_le pre.length v (by rw [h2]; omega)
  simp only [List.length_append, List.length_cons]
  omega

theorem decTagE_append (bs : List Nat) (t : Tag) (rest x : List Nat) (h : decTagE bs = .ok (t, rest)) :
    decTagE (bs ++ x) = .ok (t, rest ++ x) := by
  unfold decTagE at h ⊢
  cases hv : decVarint bs with
  | none => simp [hv] at h
  | some r =>
    obtain ⟨v, r'⟩ := r
    rw [hv] at h
    rw [decVarint_append bs v r' x hv]
    simp only at h ⊢
    by_cases h1 : v > U32MAX
    · simp [h1] at h
    · by_cases h2 : (!validFieldNumber (v / 8)) = true
      · simp [h1, h2] at h
      · cases hw : WT.ofBits (v % 8) with
        | none => simp [h1, h2, hw] at h
        | some wt =>
          simp only [h1, h2, hw, if_false, Bool.false_eq_true, Except.ok.injEq, Prod.mk.injEq] at h ⊢
          exact ⟨h.1, by rw [h.2]⟩

theorem decTagE_suffix (bs : List Nat) (t : Tag) (rest : List Nat) (h : decTagE bs = .ok (t, rest)) :
    ∃ p, bs = p ++ rest ∧ p ≠ [] := by
  unfold decTagE at h
  cases hv : decVarint bs with
  | none => simp [hv] at h
  | some r =>
    obtain ⟨v, r'⟩ := r
    rw [hv] at h
    simp only at h
    by_cases h1 : v > U32MAX
    · simp [h1] at h
    · by_cases h2 : (!validFieldNumber (v / 8)) = true
      · simp [h1, h2] at h
      · cases hw : WT.ofBits (v % 8) with
        | none => simp [h1, h2, hw] at h
        | some wt =>
          simp only [h1, h2, hw, if_false, Bool.false_eq_true, Except.ok.injEq, Prod.mk.injEq] at h
          rw [← h.2]; exact decVarint_suffix bs v r' hv

/-- **the field iterator reads a field from the bytes of the field alone** -/
theorem fieldStepE_append (bs : List Nat) (hb : Bytes bs) (fld : Tag × List Nat) (rest x : List Nat)
    (h : fieldStepE bs = .ok (fld, rest)) : fieldStepE (bs ++ x) = .ok (fld, rest ++ x) := by
  unfold fieldStepE at h ⊢
  cases hT : decTagE bs with
  | error e => simp [hT] at h
  | ok r =>
    obtain ⟨tag, buf⟩ := r
    rw [hT] at h
    rw [decTagE_append bs tag buf x hT]
    obtain ⟨p, hp, _⟩ := decTagE_suffix bs tag buf hT
    have hbuf : Bytes buf := fun b hb' => hb b (by rw [hp]; simp [hb'])
    simp only at h ⊢
    cases hw : tag.wt <;> simp only [hw] at h ⊢
    · -- varint
      cases hV : decVarint buf with
      | none => simp [hV] at h
      | some r =>
        obtain ⟨v, r'⟩ := r
        rw [hV] at h
        rw [decVarint_append buf v r' x hV]
        simp only [Except.ok.injEq, Prod.mk.injEq] at h ⊢
        have := decVarint_canonical_le buf hbuf v r' hV
        rw [List.take_append_of_le_length (by omega)]
        exact ⟨h.1, by rw [h.2]⟩
    · -- sixty-four
      by_cases hl : buf.length < 8
      · simp [hl] at h
      · have hl' : ¬ (buf ++ x).length < 8 := by simp; omega
        simp only [hl, hl', if_false, Except.ok.injEq, Prod.mk.injEq] at h ⊢
        rw [List.take_append_of_le_length (by omega), List.drop_append_of_le_length (by omega)]
        exact ⟨h.1, by rw [h.2]⟩
    · -- length-delimited
      cases hV : decVarint buf with
      | none => simp [hV] at h
      | some r =>
        obtain ⟨v, r'⟩ := r
        rw [hV] at h
        rw [decVarint_append buf v r' x hV]
        simp only at h ⊢
        by_cases hl : r'.length < v
        · simp [hl] at h
        · have hl' : ¬ (r' ++ x).length < v := by simp; omega
          simp only [hl, hl', if_false, Except.ok.injEq, Prod.mk.injEq] at h ⊢
          have := decVarint_canonical_le buf hbuf v r' hV
          rw [List.take_append_of_le_length (by omega), List.drop_append_of_le_length (by omega)]
          exact ⟨h.1, by rw [h.2]⟩
    · -- thirty-two
      by_cases hl : buf.length < 4
      · simp [hl] at h
      · have hl' : ¬ (buf ++ x).length < 4 := by simp; omega
        simp only [hl, hl', if_false, Except.ok.injEq, Prod.mk.injEq] at h ⊢
        rw [List.take_append_of_le_length (by omega), List.drop_append_of_le_length (by omega)]
        exact ⟨h.1, by rw [h.2]⟩

/-- a field takes at least its tag byte, and leaves a suffix -/
theorem fieldStepE_suffix (bs : List Nat) (fld : Tag × List Nat) (rest : List Nat)
    (h : fieldStepE bs = .ok (fld, rest)) : ∃ p, bs = p ++ rest ∧ p ≠ [] := by
  unfold fieldStepE at h
  cases hT : decTagE bs with
  | error e => simp [hT] at h
  | ok r =>
    obtain ⟨tag, buf⟩ := r
    rw [hT] at h
    obtain ⟨p, hp, hne⟩ := decTagE_suffix bs tag buf hT
    simp only at h
    cases hw : tag.wt <;> simp only [hw] at h
    · cases hV : decVarint buf with
      | none => simp [hV] at h
      | some r =>
        obtain ⟨v, r'⟩ := r
        rw [hV] at h
        simp only [Except.ok.injEq, Prod.mk.injEq] at h
        obtain ⟨q, hq, _⟩ := decVarint_suffix buf v r' hV
        exact ⟨p ++ q, by rw [hp, hq, ← h.2]; simp, by simp [hne]⟩
    · by_cases hl : buf.length < 8
      · simp [hl] at h
      · simp only [hl, if_false, Except.ok.injEq, Prod.mk.injEq] at h
        exact ⟨p ++ buf.take 8, by rw [← h.2, List.append_assoc, List.take_append_drop, hp], by simp [hne]⟩
    · cases hV : decVarint buf with
      | none => simp [hV] at h
      | some r =>
        obtain ⟨v, r'⟩ := r
        rw [hV] at h
        simp only at h
        by_cases hl : r'.length < v
        · simp [hl] at h
        · simp only [hl, if_false, Except.ok.injEq, Prod.mk.injEq] at h
          obtain ⟨q, hq, _⟩ := decVarint_suffix buf v r' hV
          exact ⟨p ++ q ++ r'.take v, by rw [← h.2, List.append_assoc, List.append_assoc, List.take_append_drop, ← hq, hp],
            by simp [hne]⟩
    · by_cases hl : buf.length < 4
      · simp [hl] at h
      · simp only [hl, if_false, Except.ok.injEq, Prod.mk.injEq] at h
        exact ⟨p ++ buf.take 4, by rw [← h.2, List.append_assoc, List.take_append_drop, hp], by simp [hne]⟩

/-! ## the whole iteration -/

theorem fieldsE_nil (n : Nat) : fieldsE (n + 1) [] = ([], none) := rfl

theorem fieldsE_step (n : Nat) (bs : List Nat) (hne : bs ≠ []) :
    fieldsE (n + 1) bs = match fieldStepE bs with
      | .error e => ([], some e)
      | .ok (fld, rest) => (fld :: (fieldsE n rest).1, (fieldsE n rest).2) := by
  cases bs with
  | nil => exact absurd rfl hne
  | cons b t => rfl

/-- more fuel than bytes changes nothing -/
theorem fieldsE_fuel : ∀ (n m : Nat) (bs : List Nat), bs.length < n → bs.length < m →
    fieldsE n bs = fieldsE m bs
  | 0, _, _, h, _ => by omega
  | _+1, 0, _, _, h => by omega
  | n+1, m+1, bs, hn, hm => by
    by_cases hne : bs = []
    · subst hne; rfl
    · rw [fieldsE_step n bs hne, fieldsE_step m bs hne]
      cases hS : fieldStepE bs with
      | error e => rfl
      | ok r =>
        obtain ⟨fld, rest⟩ := r
        obtain ⟨p, hp, hpne⟩ := fieldStepE_suffix bs fld rest hS
        have : rest.length < bs.length := by
          rw [hp]; have := List.length_pos_iff.mpr hpne; simp; omega
        simp only
        rw [fieldsE_fuel n m rest (by omega) (by omega)]

/-- the iteration over `bs ++ x`, when `bs` is read as complete fields: those fields, then the
    iteration over `x` -/
theorem fieldsE_append : ∀ (n : Nat) (bs : List Nat), bs.length < n → Bytes bs →
    (fieldsE n bs).2 = none → ∀ (x : List Nat) (m : Nat), (bs ++ x).length < m →
    fieldsE m (bs ++ x)
      = ((fieldsE n bs).1 ++ (fieldsE (x.length + 1) x).1, (fieldsE (x.length + 1) x).2)
  | 0, _, h, _, _, _, _, _ => by omega
  | n+1, bs, hn, hb, hclean, x, m, hm => by
    by_cases hne : bs = []
    · subst hne
      simp only [List.nil_append, fieldsE_nil, List.nil_append]
      rw [fieldsE_fuel m (x.length + 1) x (by simpa using hm) (by omega)]
    · rw [fieldsE_step n bs hne] at hclean ⊢
      cases hS : fieldStepE bs with
      | error e => rw [hS] at hclean; simp at hclean
      | ok r =>
        obtain ⟨fld, rest⟩ := r
        rw [hS] at hclean
        simp only at hclean ⊢
        obtain ⟨p, hp, hpne⟩ := fieldStepE_suffix bs fld rest hS
        have hlt : rest.length < bs.length := by
          rw [hp]; have := List.length_pos_iff.mpr hpne; simp; omega
        have hbr : Bytes rest := fun b hb' => hb b (by rw [hp]; simp [hb'])
        cases m with
        | zero => omega
        | succ m =>
          have hne' : bs ++ x ≠ [] := by simp [hne]
          rw [fieldsE_step m (bs ++ x) hne', fieldStepE_append bs hb fld rest x hS]
          simp only
          rw [fieldsE_append n rest (by omega) hbr hclean x m (by simp at hm ⊢; omega)]
          simp

/-! ## unknown fields, anywhere -/

/-- **C15** `unknown_fields_skipped`, full strength.  `pre` is any byte string the field iterator
    reads to its end as complete fields (no well-formedness of the payloads is asked), `ub` any
    byte string it reads as exactly one field whose (number, wire type) the struct has no arm for,
    `suf` ANY byte string.  The struct unpacks `pre ++ ub ++ suf` to what it unpacks `pre ++ suf`
    to — value or error. -/
theorem unpackFields_unknown_anywhere (rec : Msg → List Nat → R (Val × List Nat)) (fs : List Field)
    (dflts : List Val) (pre ub suf : List Nat) (t : Tag) (sl : List Nat)
    (hpre : Bytes pre) (hub : Bytes ub)
    (hclean : (fieldsE (pre.length + 1) pre).2 = none)
    (hu : fieldStepE ub = .ok ((t, sl), [])) (hunk : Unknown fs t) :
    unpackFields rec false fs dflts (pre ++ ub ++ suf) = unpackFields rec false fs dflts (pre ++ suf) := by
  have hune : ub ≠ [] := by
    obtain ⟨p, hp, hpne⟩ := fieldStepE_suffix ub _ _ hu
    rw [hp]; simp [hpne]
  have hstep : fieldStepE (ub ++ suf) = .ok ((t, sl), suf) := by
    have := fieldStepE_append ub hub (t, sl) [] suf hu
    simpa using this
  unfold unpackFields
  rw [List.append_assoc,
    fieldsE_append (pre.length + 1) pre (by omega) hpre hclean (ub ++ suf) _ (by omega),
    fieldsE_append (pre.length + 1) pre (by omega) hpre hclean suf _ (by omega),
    fieldsE_step _ (ub ++ suf) (by simp [hune]), hstep]
  simp only [List.foldl_append, List.foldl_cons]
  rw [mergeStep_unknown rec fs _ (t, sl) hunk]
  have hl : (ub ++ suf).length = suf.length + ub.length := by simp; omega
  rw [fieldsE_fuel (ub ++ suf).length (suf.length + 1) suf (by
    have := List.length_pos_iff.mpr hune; omega) (by omega)]

/-- the same for a whole struct message -/
theorem unpackMsg_unknown_anywhere (f : Nat) (fs : List Field) (pre ub suf : List Nat) (t : Tag) (sl : List Nat)
    (hpre : Bytes pre) (hub : Bytes ub) (hclean : (fieldsE (pre.length + 1) pre).2 = none)
    (hu : fieldStepE ub = .ok ((t, sl), [])) (hunk : Unknown fs t) :
    unpackMsg (f + 1) (.struct fs) (pre ++ ub ++ suf) = unpackMsg (f + 1) (.struct fs) (pre ++ suf) := by
  simp only [unpackMsg]
  rw [unpackFields_unknown_anywhere (unpackMsg f) fs _ pre ub suf t sl hpre hub hclean hu hunk]

/-! ## nested messages -/

theorem mergeInto_congr (rec : Msg → List Nat → R (Val × List Nat)) (t : Tag) (s1 s2 : List Nat) :
    ∀ (fs : List Field) (a : List Val),
    (∀ g ∈ fs, g.num = t.num ∧ g.ty.wt = t.wt → decTyWith rec g.ty s1 = decTyWith rec g.ty s2) →
    mergeInto rec fs a (t, s1) = mergeInto rec fs a (t, s2)
  | [], a, _ => by cases a <;> rfl
  | _ :: _, [], _ => rfl
  | g :: fs, v :: vs, h => by
    simp only [mergeInto]
    by_cases hc : g.num = t.num ∧ g.ty.wt = t.wt
    · rw [if_pos hc, if_pos hc, h g List.mem_cons_self hc]
    · rw [if_neg hc, if_neg hc, mergeInto_congr rec t s1 s2 fs vs (fun x hx => h x (List.mem_cons_of_mem _ hx))]

theorem mergeStep_congr (rec : Msg → List Nat → R (Val × List Nat)) (strict : Bool) (fs : List Field)
    (acc : R (List Val)) (t : Tag) (s1 s2 : List Nat)
    (h : ∀ g ∈ fs, g.num = t.num ∧ g.ty.wt = t.wt → decTyWith rec g.ty s1 = decTyWith rec g.ty s2) :
    mergeStep rec strict fs acc (t, s1) = mergeStep rec strict fs acc (t, s2) := by
  cases acc with
  | error e => rfl
  | ok a => simp only [mergeStep, mergeInto_congr rec t s1 s2 fs a h]

/-- a nested message's unpacker sees the frame only through the nested type's `unpack` -/
theorem decTy_msg_congr (rec : Msg → List Nat → R (Val × List Nat)) (m : Msg) (i1 i2 : List Nat)
    (h1 : i1.length < U64) (h2 : i2.length < U64) (h : rec m i1 = rec m i2) :
    decTyWith rec (.msg m) (encBytes i1) = decTyWith rec (.msg m) (encBytes i2) := by
  have e1 := decFrame_enc i1 [] h1
  have e2 := decFrame_enc i2 [] h2
  simp only [List.append_nil] at e1 e2
  simp only [decTyWith, e1, e2, h]

/-- **C15** two buffers that differ only inside the frame of one length-delimited field, at a
    field boundary of the outer struct, unpack alike whenever every arm that takes that field
    unpacks the two frames alike.  (Composes: the frames may themselves differ inside a nested
    frame.) -/
theorem nested_frame_congr (f : Nat) (fs : List Field) (n : Nat) (opre inner1 inner2 osuf : List Nat)
    (hn : validFieldNumber n = true) (hopre : Bytes opre)
    (hclean : (fieldsE (opre.length + 1) opre).2 = none)
    (hl1 : inner1.length < U64) (hl2 : inner2.length < U64)
    (hinner : ∀ g ∈ fs, g.num = n ∧ g.ty.wt = .lengthDelimited →
      decTyWith (unpackMsg (f + 1)) g.ty (encBytes inner1) = decTyWith (unpackMsg (f + 1)) g.ty (encBytes inner2)) :
    unpackMsg (f + 2) (.struct fs) (opre ++ (encTag ⟨n, .lengthDelimited⟩ ++ encBytes inner1 ++ osuf))
      = unpackMsg (f + 2) (.struct fs) (opre ++ (encTag ⟨n, .lengthDelimited⟩ ++ encBytes inner2 ++ osuf)) := by
  have step : ∀ (inner : List Nat), inner.length < U64 → ∀ k,
      (encTag ⟨n, .lengthDelimited⟩ ++ encBytes inner ++ osuf).length ≤ k →
      fieldsE (k + 1) (encTag ⟨n, .lengthDelimited⟩ ++ encBytes inner ++ osuf)
        = ((⟨n, .lengthDelimited⟩, encBytes inner) :: (fieldsE (osuf.length + 1) osuf).1,
           (fieldsE (osuf.length + 1) osuf).2) := by
    intro inner hl k hk
    have hne : encTag ⟨n, .lengthDelimited⟩ ++ encBytes inner ++ osuf ≠ [] := by
      intro h; exact encTag_ne_nil _ (List.append_eq_nil_iff.mp (List.append_eq_nil_iff.mp h).1).1
    have hpos := List.length_pos_iff.mpr (encTag_ne_nil ⟨n, .lengthDelimited⟩)
    rw [fieldsE_step k _ hne, fieldStepE_of_fieldStep (fieldStep_bytes n inner hn hl osuf)]
    simp only
    rw [fieldsE_fuel k (osuf.length + 1) osuf (by simp at hk; omega) (by omega)]
  simp only [unpackMsg]
  have e : ∀ (inner : List Nat), inner.length < U64 →
      unpackFields (unpackMsg (f + 1)) false fs (fs.map (dfltSlotWith (dfltMsg (f + 1))))
        (opre ++ (encTag ⟨n, .lengthDelimited⟩ ++ encBytes inner ++ osuf))
      = (match ((fieldsE (osuf.length + 1) osuf).1.foldl (mergeStep (unpackMsg (f + 1)) false fs)
            (mergeStep (unpackMsg (f + 1)) false fs
              ((fieldsE (opre.length + 1) opre).1.foldl (mergeStep (unpackMsg (f + 1)) false fs)
                (.ok (fs.map (dfltSlotWith (dfltMsg (f + 1))))))
              (⟨n, .lengthDelimited⟩, encBytes inner))) with
          | .error e => .error e
          | .ok vs => match (fieldsE (osuf.length + 1) osuf).2 with
            | some e => .error e
            | none => .ok vs) := by
    intro inner hl
    unfold unpackFields
    rw [fieldsE_append (opre.length + 1) opre (by omega) hopre hclean _ _ (by omega),
      step inner hl _ (Nat.le_refl _)]
    simp only [List.foldl_append, List.foldl_cons]
    rfl
  rw [e inner1 hl1, e inner2 hl2,
    mergeStep_congr (unpackMsg (f + 1)) false fs _ ⟨n, .lengthDelimited⟩ _ _ hinner]

/-- **C15** `unknown_fields_skipped` inside a nested message: an unknown field inserted at any
    field boundary of the body of a nested struct — itself sitting at any field boundary of the
    outer struct, with anything after it — changes nothing in what the outer struct unpacks to -/
theorem unpackMsg_unknown_nested (f : Nat) (fs : List Field) (n : Nat) (opre osuf pre ub suf : List Nat)
    (t : Tag) (sl : List Nat)
    (hn : validFieldNumber n = true) (hopre : Bytes opre)
    (hoclean : (fieldsE (opre.length + 1) opre).2 = none)
    (hl : (pre ++ ub ++ suf).length < U64)
    (hnested : ∀ g ∈ fs, g.num = n ∧ g.ty.wt = .lengthDelimited →
      ∃ gs, g.ty = .msg (.struct gs) ∧ Unknown gs t)
    (hpre : Bytes pre) (hub : Bytes ub) (hclean : (fieldsE (pre.length + 1) pre).2 = none)
    (hu : fieldStepE ub = .ok ((t, sl), [])) :
    unpackMsg (f + 2) (.struct fs) (opre ++ (encTag ⟨n, .lengthDelimited⟩ ++ encBytes (pre ++ ub ++ suf) ++ osuf))
      = unpackMsg (f + 2) (.struct fs) (opre ++ (encTag ⟨n, .lengthDelimited⟩ ++ encBytes (pre ++ suf) ++ osuf)) := by
  have hl2 : (pre ++ suf).length < U64 := by simp at hl ⊢; omega
  apply nested_frame_congr f fs n opre _ _ osuf hn hopre hoclean hl hl2
  intro g hg hc
  obtain ⟨gs, hty, hunk⟩ := hnested g hg hc
  rw [hty]
  exact decTy_msg_congr _ _ _ _ hl hl2
    (unpackMsg_unknown_anywhere f gs pre ub suf t sl hpre hub hclean hu hunk)

/-! ## the body of a named enum variant -/

/-- **C15** the same in the body of a named enum variant (which skips unknown fields by the same
    loop: `namedVariantStrict = false`, tied to the source): an unknown field at any field
    boundary of any body, anything after the enum's field -/
theorem unpackMsg_unknown_named (f : Nat) (vars : List Variant) (d : Val) (n i n' : Nat) (fs : List Field)
    (pre ub suf rest : List Nat) (t : Tag) (sl : List Nat)
    (hn : validFieldNumber n = true)
    (hfind : findVariant vars ⟨n, .lengthDelimited⟩ 0 = some (i, .named n' fs))
    (hl : (pre ++ ub ++ suf).length < U64)
    (hpre : Bytes pre) (hub : Bytes ub) (hclean : (fieldsE (pre.length + 1) pre).2 = none)
    (hu : fieldStepE ub = .ok ((t, sl), [])) (hunk : Unknown fs t) :
    unpackMsg (f + 1) (.enum vars d) (encTag ⟨n, .lengthDelimited⟩ ++ encBytes (pre ++ ub ++ suf) ++ rest)
      = unpackMsg (f + 1) (.enum vars d) (encTag ⟨n, .lengthDelimited⟩ ++ encBytes (pre ++ suf) ++ rest) := by
  have hl2 : (pre ++ suf).length < U64 := by simp at hl ⊢; omega
  have hs : namedVariantStrict = false := rfl
  simp only [unpackMsg, List.append_assoc]
  rw [decTagE_enc ⟨n, .lengthDelimited⟩ hn, decTagE_enc ⟨n, .lengthDelimited⟩ hn]
  simp only [hfind]
  have e1 := decFrame_enc (pre ++ (ub ++ suf)) rest (by simpa using hl)
  have e2 := decFrame_enc (pre ++ suf) rest hl2
  rw [e1, e2]
  simp only [hs]
  have := unpackFields_unknown_anywhere (unpackMsg f) fs (fs.map (dfltSlotWith (dfltMsg f))) pre ub suf t sl
    hpre hub hclean hu hunk
  rw [List.append_assoc] at this
  rw [this]

end Blue.ProtoMsg
