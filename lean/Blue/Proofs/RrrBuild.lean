import Blue.Model.Rrr
/-! The loop of `construct_from_words`: what each builder has received after `k` words, for an arbitrary
    list of words (`BuildInv`), in particular the meaning of the select samples (`SampleInv`). -/
namespace Blue.Rrr

/-! ### prefix sums -/

/-- `f 0 + … + f (t-1)` -/
def psum (f : Nat → Nat) (t : Nat) : Nat := ((List.range t).map f).sum

@[simp] theorem psum_zero (f : Nat → Nat) : psum f 0 = 0 := rfl

theorem psum_succ (f : Nat → Nat) (t : Nat) : psum f (t + 1) = psum f t + f t := by
  unfold psum
  rw [List.range_succ, List.map_append, List.sum_append]
  simp

theorem psum_mono (f : Nat → Nat) {i j : Nat} (h : i ≤ j) : psum f i ≤ psum f j := by
  induction j with
  | zero => have : i = 0 := by omega
            subst this; exact Nat.le_refl _
  | succ j ih =>
    by_cases hij : i = j + 1
    · subst hij; exact Nat.le_refl _
    · have := ih (by omega)
      rw [psum_succ]; omega

theorem psum_le_mul (f : Nat → Nat) (B : Nat) (t : Nat) (h : ∀ i, i < t → f i ≤ B) : psum f t ≤ B * t := by
  induction t with
  | zero => simp
  | succ t ih =>
    have h1 := ih (fun i hi => h i (by omega))
    have h2 := h t (by omega)
    rw [psum_succ, Nat.mul_succ]; omega

theorem psum_congr (f g : Nat → Nat) (t : Nat) (h : ∀ i, i < t → f i = g i) : psum f t = psum g t := by
  induction t with
  | zero => rfl
  | succ t ih => rw [psum_succ, psum_succ, ih (fun i hi => h i (by omega)), h t (by omega)]

/-- complementary weights: `Σ (B - f i) = B·t - Σ f i` -/
theorem psum_compl (f : Nat → Nat) (B t : Nat) (h : ∀ i, i < t → f i ≤ B) :
    psum (fun i => B - f i) t + psum f t = B * t := by
  induction t with
  | zero => simp
  | succ t ih =>
    have h1 := ih (fun i hi => h i (by omega))
    have h2 := h t (by omega)
    rw [psum_succ, psum_succ, Nat.mul_succ]; omega

/-! ### the sample loops -/

theorem sampleLoop_zero (rank blk : Nat) (s : List Nat) (next : Nat) : sampleLoop rank blk 0 s next = (s, next) := rfl
theorem sampleLoop_succ (rank blk f : Nat) (s : List Nat) (next : Nat) :
    sampleLoop rank blk (f + 1) s next
      = if rank ≥ next then sampleLoop rank blk f (s ++ [blk]) (next + 64) else (s, next) := rfl

/-- the `while` loop pushes the block number until `next_select` exceeds the rank -/
theorem sampleLoop_eq (rank blk : Nat) : ∀ (fuel : Nat) (S : List Nat) (L : Nat),
    L ≤ rank / 64 + 1 → rank / 64 + 1 - L ≤ fuel →
    sampleLoop rank blk fuel S (64 * L) = (S ++ List.replicate (rank / 64 + 1 - L) blk, 64 * (rank / 64 + 1)) := by
  intro fuel
  induction fuel with
  | zero =>
    intro S L h1 h2
    have : L = rank / 64 + 1 := by omega
    subst this
    rw [sampleLoop_zero]; simp
  | succ f ih =>
    intro S L h1 h2
    rw [sampleLoop_succ]
    by_cases hr : rank ≥ 64 * L
    · rw [if_pos hr]
      have e : 64 * L + 64 = 64 * (L + 1) := by omega
      rw [e, ih (S ++ [blk]) (L + 1) (by omega) (by omega)]
      have e2 : rank / 64 + 1 - L = (rank / 64 + 1 - (L + 1)) + 1 := by omega
      rw [e2, List.replicate_succ, List.append_assoc]
      rfl
    · rw [if_neg hr]
      have : L = rank / 64 + 1 := by omega
      subst this
      simp

/-- what a sample array means after `k` words, for the cumulative count `G` (`G i` = the count before
    word `i`): one sample per multiple of 64 up to `G k`, and sample `j` names a block that starts
    before the count reaches `64 j` (or block 0) -/
structure SampleInv (G : Nat → Nat) (k : Nat) (S : List Nat) (ns : Nat) : Prop where
  len : S.length = if k = 0 then 0 else G k / 64 + 1
  ns : ns = 64 * S.length
  val : ∀ j a, S[j]? = some a → 8 * a < k ∧ (a = 0 ∨ G (8 * a) < 64 * j)

theorem sampleInv_init (G : Nat → Nat) : SampleInv G 0 [] 0 :=
  ⟨rfl, rfl, fun j a h => by simp at h⟩

theorem sampleInv_step (G : Nat → Nat) (hmono : ∀ i j, i ≤ j → G i ≤ G j) (k : Nat) (S : List Nat) (ns : Nat)
    (inv : SampleInv G k S ns) :
    SampleInv G (k + 1) (sampleLoop (G (k + 1)) (k / 8) (G (k + 1) + 1) S ns).1
      (sampleLoop (G (k + 1)) (k / 8) (G (k + 1) + 1) S ns).2 := by
  have hL : S.length ≤ G (k + 1) / 64 + 1 := by
    rw [inv.len]
    by_cases hk : k = 0
    · rw [if_pos hk]; omega
    · rw [if_neg hk]
      have := hmono k (k + 1) (by omega)
      have : G k / 64 ≤ G (k + 1) / 64 := Nat.div_le_div_right this
      omega
  rw [inv.ns, sampleLoop_eq (G (k + 1)) (k / 8) (G (k + 1) + 1) S S.length hL (by omega)]
  refine ⟨?_, ?_, ?_⟩
  · simp only [List.length_append, List.length_replicate]
    rw [if_neg (by omega)]; omega
  · simp only [List.length_append, List.length_replicate]; omega
  · intro j a h
    simp only at h
    by_cases hj : j < S.length
    · rw [List.getElem?_append_left hj] at h
      have := inv.val j a h
      exact ⟨by omega, this.2⟩
    · rw [List.getElem?_append_right (by omega), List.getElem?_replicate] at h
      split at h
      · cases h
        refine ⟨by omega, ?_⟩
        by_cases hk : k = 0
        · left; subst hk; rfl
        · right
          have h1 := inv.len
          rw [if_neg hk] at h1
          have h2 := hmono (8 * (k / 8)) k (by omega)
          omega
      · cases h

/-! ### the whole loop -/

theorem buildStep_eq (st : Build) (word c o lc : Nat) (hc : (encode word).2 = c) (ho : (encode word).1 = o)
    (hl : lTab.getD c 0 = lc) : buildStep st word =
    { idx := st.idx + 1,
      p := if (st.idx % 8 == 0) = true then st.p ++ [st.oLen] else st.p,
      r := if (st.idx % 8 == 0) = true then st.r ++ [st.rank] else st.r,
      c := st.c ++ [c],
      o := if lc > 0 then st.o ++ [(o, lc)] else st.o,
      s0 := (sampleLoop (st.rank0 + (63 - c)) (st.idx / 8) (st.rank0 + (63 - c) + 1) st.s0 st.ns0).1,
      s1 := (sampleLoop (st.rank + c) (st.idx / 8) (st.rank + c + 1) st.s1 st.ns1).1,
      oLen := if lc > 0 then st.oLen + lc else st.oLen,
      rank := st.rank + c,
      rank0 := st.rank0 + (63 - c),
      ns0 := (sampleLoop (st.rank0 + (63 - c)) (st.idx / 8) (st.rank0 + (63 - c) + 1) st.s0 st.ns0).2,
      ns1 := (sampleLoop (st.rank + c) (st.idx / 8) (st.rank + c + 1) st.s1 st.ns1).2 } := by
  subst hc ho hl
  rfl

/-- class of word `k` -/
@[irreducible] def wcls (ws : List Nat) (k : Nat) : Nat := (encode (ws.getD k 0)).2
/-- `L[class]` of word `k` -/
@[irreducible] def wwid (ws : List Nat) (k : Nat) : Nat := lTab.getD (wcls ws k) 0
/-- the (offset, width) field of word `k` -/
@[irreducible] def wfld (ws : List Nat) (k : Nat) : Nat × Nat := ((encode (ws.getD k 0)).1, wwid ws k)

theorem wfld_snd (ws : List Nat) (k : Nat) : (wfld ws k).2 = wwid ws k := by unfold wfld; rfl
theorem wwid_eq (ws : List Nat) (k : Nat) : wwid ws k = lTab.getD (wcls ws k) 0 := by unfold wwid; rfl
theorem wcls_eq (ws : List Nat) (k : Nat) (h : k < ws.length) : wcls ws k = (encode ws[k]).2 := by
  unfold wcls; rw [List.getD_eq_getElem?_getD, List.getElem?_eq_getElem h, Option.getD_some]
theorem wfld_fst (ws : List Nat) (k : Nat) (h : k < ws.length) : (wfld ws k).1 = (encode ws[k]).1 := by
  unfold wfld; rw [List.getD_eq_getElem?_getD, List.getElem?_eq_getElem h, Option.getD_some]

/-- the state of `construct_from_words` after `k` words of `ws` -/
structure BuildInv (ws : List Nat) (k : Nat) (st : Build) : Prop where
  idx : st.idx = k
  c : st.c = (List.range k).map (wcls ws)
  o : st.o = ((List.range k).map (wfld ws)).filter (fun f => decide (f.2 > 0))
  oLen : st.oLen = psum (wwid ws) k
  rank : st.rank = psum (wcls ws) k
  rank0 : st.rank0 = psum (fun i => 63 - wcls ws i) k
  p : st.p = (List.range ((k + 7) / 8)).map (fun b => psum (wwid ws) (8 * b))
  r : st.r = (List.range ((k + 7) / 8)).map (fun b => psum (wcls ws) (8 * b))
  s1 : SampleInv (psum (wcls ws)) k st.s1 st.ns1
  s0 : SampleInv (psum (fun i => 63 - wcls ws i)) k st.s0 st.ns0

theorem buildInv_init (ws : List Nat) : BuildInv ws 0 buildInit :=
  ⟨rfl, rfl, rfl, rfl, rfl, rfl, rfl, rfl, sampleInv_init _, sampleInv_init _⟩

theorem range_blocks_succ (k : Nat) (g : Nat → Nat) :
    (List.range ((k + 1 + 7) / 8)).map (fun b => g (8 * b))
      = if (k % 8 == 0) = true then (List.range ((k + 7) / 8)).map (fun b => g (8 * b)) ++ [g k]
        else (List.range ((k + 7) / 8)).map (fun b => g (8 * b)) := by
  by_cases h : k % 8 = 0
  · have e1 : (k + 1 + 7) / 8 = (k + 7) / 8 + 1 := by omega
    have e2 : 8 * ((k + 7) / 8) = k := by omega
    rw [if_pos (by simpa using h), e1, List.range_succ, List.map_append, List.map_singleton, e2]
  · have e1 : (k + 1 + 7) / 8 = (k + 7) / 8 := by omega
    rw [if_neg (by simpa using h), e1]

theorem buildInv_step (ws : List Nat) (k : Nat) (st : Build) (hk : k < ws.length) (inv : BuildInv ws k st) :
    BuildInv ws (k + 1) (buildStep st ws[k]) := by
  have hc : (encode ws[k]).2 = wcls ws k := (wcls_eq ws k hk).symm
  have ho : (encode ws[k]).1 = (wfld ws k).1 := (wfld_fst ws k hk).symm
  have hwid : lTab.getD (wcls ws k) 0 = wwid ws k := (wwid_eq ws k).symm
  rw [buildStep_eq st ws[k] _ _ _ hc ho hwid, inv.idx, inv.rank, inv.rank0, inv.oLen]
  refine ⟨rfl, ?_, ?_, ?_, ?_, ?_, ?_, ?_, ?_, ?_⟩
  · show st.c ++ [wcls ws k] = _
    rw [inv.c, List.range_succ, List.map_append]; rfl
  · show (if wwid ws k > 0 then st.o ++ [((wfld ws k).1, wwid ws k)] else st.o) = _
    rw [inv.o, List.range_succ, List.map_append, List.filter_append]
    by_cases h : wwid ws k > 0
    · rw [if_pos h]
      have : List.filter (fun f => decide (f.2 > 0)) (List.map (wfld ws) [k]) = [wfld ws k] := by
        simp [wfld, h]
      rw [this, ← wfld_snd]
    · rw [if_neg h]
      have : List.filter (fun f => decide (f.2 > 0)) (List.map (wfld ws) [k]) = [] := by
        simp [wfld, h]
      rw [this, List.append_nil]
  · show (if wwid ws k > 0 then psum (wwid ws) k + wwid ws k else psum (wwid ws) k) = _
    rw [psum_succ]
    by_cases h : wwid ws k > 0
    · rw [if_pos h]
    · rw [if_neg h]; omega
  · show psum (wcls ws) k + wcls ws k = _
    rw [psum_succ]
  · show psum (fun i => 63 - wcls ws i) k + (63 - wcls ws k) = _
    rw [psum_succ]
  · show (if (k % 8 == 0) = true then st.p ++ [psum (wwid ws) k] else st.p) = _
    rw [range_blocks_succ k (psum (wwid ws)), inv.p]
  · show (if (k % 8 == 0) = true then st.r ++ [psum (wcls ws) k] else st.r) = _
    rw [range_blocks_succ k (psum (wcls ws)), inv.r]
  · have := sampleInv_step (psum (wcls ws)) (fun i j h => psum_mono _ h) k st.s1 st.ns1 inv.s1
    rw [psum_succ] at this
    exact this
  · have := sampleInv_step (psum (fun i => 63 - wcls ws i)) (fun i j h => psum_mono _ h) k st.s0 st.ns0 inv.s0
    rw [psum_succ] at this
    exact this

theorem buildInv_take (ws : List Nat) : ∀ k, k ≤ ws.length →
    BuildInv ws k ((ws.take k).foldl buildStep buildInit) := by
  intro k
  induction k with
  | zero => intro _; exact buildInv_init ws
  | succ k ih =>
    intro hk
    have hlt : k < ws.length := by omega
    rw [List.take_add_one, List.foldl_append, List.getElem?_eq_getElem hlt]
    exact buildInv_step ws k _ hlt (ih (by omega))

/-- the state at the end of the loop -/
theorem buildInv_final (ws : List Nat) : BuildInv ws ws.length (ws.foldl buildStep buildInit) := by
  have := buildInv_take ws ws.length (Nat.le_refl _)
  rw [List.take_length] at this
  exact this

end Blue.Rrr
