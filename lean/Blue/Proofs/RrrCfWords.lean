import Blue.Proofs.RrrCfAux
import Blue.Proofs.RrrCfBitArr
import Blue.Proofs.RrrWordSpec
/-! The 63-bit word slots of a bit pattern as the cf_rrr layout sees them: slot `i` holds bits
    `63 i .. 63 i + 62`; slots at or beyond the end of the pattern are the zero word (class 0, no offset
    bits), which is exactly how `construct` pads the short last block. -/
namespace Blue.RrrCf
open Blue.BitArr Blue.Rrr

def chunk (bits : List Bool) (i : Nat) : List Bool := (bits.drop (63 * i)).take 63
def wd (bits : List Bool) (i : Nat) : Nat := ofBits (chunk bits i)
def cls (bits : List Bool) (i : Nat) : Nat := popcount (wd bits i)
def offs (bits : List Bool) (i : Nat) : Nat := (encode (wd bits i)).1
/-- total width of the offsets of slots `i0 .. i0 + t - 1` -/
def oSum (bits : List Bool) (i0 t : Nat) : Nat := ((List.range t).map (fun t' => lOf (cls bits (i0 + t')))).sum

theorem chunk_length_le (bits : List Bool) (i : Nat) : (chunk bits i).length ≤ 63 := by
  unfold chunk; exact List.length_take_le _ _

theorem chunk_nil (bits : List Bool) (i : Nat) (h : bits.length ≤ 63 * i) : chunk bits i = [] := by
  unfold chunk; rw [List.drop_of_length_le h]; rfl

theorem oSum_zero (bits : List Bool) (i0 : Nat) : oSum bits i0 0 = 0 := rfl

theorem oSum_succ (bits : List Bool) (i0 t : Nat) : oSum bits i0 (t + 1) = oSum bits i0 t + lOf (cls bits (i0 + t)) := by
  unfold oSum
  rw [List.range_succ, List.map_append, List.sum_append]
  simp

section
variable (ws : WordSpec)
include ws

theorem wd_lt (bits : List Bool) (i : Nat) : wd bits i < 2 ^ 63 := ws.ofBits_lt _ (chunk_length_le bits i)

theorem cls_eq (bits : List Bool) (i : Nat) : cls bits i = ones (chunk bits i) 63 := by
  unfold cls wd ones
  rw [ws.popcount_ofBits _ (chunk_length_le bits i), List.take_of_length_le (chunk_length_le bits i)]

theorem cls_le (bits : List Bool) (i : Nat) : cls bits i ≤ 63 := by
  rw [cls_eq ws]; exact ones_le _ _

theorem cls_enc (bits : List Bool) (i : Nat) : (encode (wd bits i)).2 = cls bits i :=
  ws.encode_class _ (wd_lt ws bits i)

theorem offs_lt (bits : List Bool) (i : Nat) : offs bits i < 2 ^ lOf (cls bits i) :=
  ws.encode_fits _ (wd_lt ws bits i)

theorem decode_slot (bits : List Bool) (i : Nat) : decode (offs bits i) (cls bits i) = some (wd bits i) := by
  have := ws.decode_encode _ (wd_lt ws bits i)
  rw [cls_enc ws] at this
  exact this

/-- `add_rank(c)` of a slot is the number of set / clear bits of its 63 positions -/
theorem addRank_cls (zero : Bool) (bits : List Bool) (i : Nat) :
    addRank zero (cls bits i) = cntE zero (chunk bits i) 63 := by
  unfold addRank cntE
  rw [cls_eq ws]

end

/-- counting up to position `63 i + q` = counting up to the slot + counting inside the slot -/
theorem cntE_slot (zero : Bool) (bits : List Bool) (i q : Nat) (hq : q ≤ 63) :
    cntE zero bits (63 * i + q) = cntE zero bits (63 * i) + cntE zero (chunk bits i) q := by
  rw [cntE_add]
  unfold chunk
  rw [cntE_take _ _ _ _ hq]

theorem ones_slot (bits : List Bool) (i q : Nat) (hq : q ≤ 63) :
    ones bits (63 * i + q) = ones bits (63 * i) + ones (chunk bits i) q :=
  cntE_slot false bits i q hq

theorem chunk_getD (bits : List Bool) (i r : Nat) (hr : r < 63) :
    (chunk bits i).getD r false = bits.getD (63 * i + r) false := by
  unfold chunk
  rw [List.getD_eq_getElem?_getD, List.getD_eq_getElem?_getD, List.getElem?_take, if_pos hr, List.getElem?_drop]

/-- (W1) `word_select` on a slot finds the least position inside the slot -/
theorem wordSelect_slot (ws : WordSpec) (zero : Bool) (bits : List Bool) (i y : Nat) (_hy1 : 1 ≤ y)
    (hy : y ≤ cntE zero (chunk bits i) 63) :
    ∃ q, wordSelect zero (wd bits i) y = some q ∧ q ≤ 63 ∧ cntE zero (chunk bits i) q = y
      ∧ ∀ q', q' < q → cntE zero (chunk bits i) q' < y := by
  obtain ⟨q, hq1, hq2, hq3⟩ := exists_least (cntE zero (chunk bits i)) (cntE_zero _ _)
    (cntE_succ_le _ _) (fun _ _ h => cntE_mono _ _ h) 63 y hy
  refine ⟨q, ?_, hq1, hq2, hq3⟩
  have hcl := chunk_length_le bits i
  cases zero with
  | false =>
    show select1 (wd bits i) y = some q
    unfold wd
    rw [ws.select1_ofBits _ _ hcl]
    apply selRef_some false (chunk bits i) y q _ hq2 hq3
    -- the least position lies on a set bit, hence inside the chunk
    apply Nat.le_of_not_lt
    intro hlt
    have h1 := hq3 (chunk bits i).length hlt
    unfold cntE at h1 hq2
    simp only [Bool.false_eq_true, if_false] at h1 hq2
    rw [ones_ge_len _ _ (Nat.le_refl _)] at h1
    rw [ones_ge_len _ _ (Nat.le_of_lt hlt)] at hq2
    omega
  | true =>
    show Blue.Rrr.select0 (wd bits i) y = some q
    unfold wd
    rw [ws.select0_ofBits _ _ hcl]
    apply selRef_some true _ y q
    · rw [List.length_append, List.length_replicate]; omega
    · rw [cntE_append_false]; exact hq2
    · intro q' hq'
      rw [cntE_append_false]; exact hq3 q' hq'

end Blue.RrrCf
