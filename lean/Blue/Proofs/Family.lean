import Blue.Model.Cursor
/-! A family of pairwise-distinct sorted lists, presented as one merged list of
    (entry, owner) pairs.  `childList M j` is child `j`; `before M j p` counts the
    entries of child `j` among the first `p` merged entries. -/
namespace Blue.Cursor

variable {E : Type}

def childList (M : List (E × Nat)) (j : Nat) : List E := (M.filter (fun x => x.2 == j)).map (·.1)

def before (M : List (E × Nat)) (j p : Nat) : Nat := ((M.take p).filter (fun x => x.2 == j)).length

theorem before_zero (M : List (E × Nat)) (j : Nat) : before M j 0 = 0 := by simp [before]

theorem before_le_length (M : List (E × Nat)) (j p : Nat) : before M j p ≤ (childList M j).length := by
  unfold before childList
  rw [List.length_map]
  conv => rhs; rw [← List.take_append_drop p M, List.filter_append, List.length_append]
  omega

theorem before_all (M : List (E × Nat)) (j p : Nat) (h : M.length ≤ p) :
    before M j p = (childList M j).length := by
  unfold before childList
  rw [List.take_of_length_le h, List.length_map]

theorem before_succ (M : List (E × Nat)) (j p : Nat) (e : E) (o : Nat) (h : M[p]? = some (e, o)) :
    before M j (p+1) = before M j p + (if o = j then 1 else 0) := by
  unfold before
  have hp : p < M.length := by
    rcases List.getElem?_eq_some_iff.mp h with ⟨h, _⟩; exact h
  rw [List.take_succ, h]
  simp only [Option.toList_some, List.filter_append, List.length_append]
  by_cases hoj : o = j
  · subst hoj; simp
  · have : (o == j) = false := by simpa using hoj
    simp [List.filter, this, hoj]

/-- The entry of child `j` at index `before M j p` is the first entry owned by `j` at or after `p`. -/
theorem childList_get (M : List (E × Nat)) (j p : Nat) :
    (childList M j)[before M j p]? = (((M.drop p).filter (fun x => x.2 == j)).map (·.1)).head? := by
  unfold childList before
  conv => lhs; arg 1; rw [← List.take_append_drop p M, List.filter_append, List.map_append]
  rw [List.getElem?_append_right (by simp)]
  simp [List.head?_eq_getElem?]

theorem childList_get_owner (M : List (E × Nat)) (j p : Nat) (e : E) (h : M[p]? = some (e, j)) :
    (childList M j)[before M j p]? = some e := by
  rw [childList_get]
  have hp : p < M.length := by
    rcases List.getElem?_eq_some_iff.mp h with ⟨h, _⟩; exact h
  rw [List.drop_eq_getElem_cons hp]
  have : M[p] = (e, j) := by
    have := List.getElem?_eq_getElem hp; rw [this] at h; exact Option.some.inj h
  simp [this, List.filter]

/-- Any current entry of a child positioned at `before + 1` lies in the merged list at or after `p`. -/
theorem childList_get_mem (M : List (E × Nat)) (j p : Nat) (e : E)
    (h : (childList M j)[before M j p]? = some e) : (e, j) ∈ M.drop p := by
  rw [childList_get] at h
  rw [List.head?_eq_some_iff] at h
  obtain ⟨t, ht⟩ := h
  have : e ∈ ((M.drop p).filter (fun x => x.2 == j)).map (·.1) := by rw [ht]; simp
  rw [List.mem_map] at this
  obtain ⟨⟨e', o⟩, hm, rfl⟩ := this
  rw [List.mem_filter] at hm
  have : o = j := by simpa using hm.2
  subst this
  exact hm.1

end Blue.Cursor
