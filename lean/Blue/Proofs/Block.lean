import Blue.Model.Block
import Blue.Proofs.EntryCodec
namespace Blue.Block
open Blue.Wire Blue.EntryCodec

theorem sharedLen_le_left : ∀ (a b : List Nat), sharedLen a b ≤ a.length
  | [], _ => by simp [sharedLen]
  | _ :: _, [] => by simp [sharedLen]
  | x :: as, y :: bs => by
    simp only [sharedLen]; split
    · have := sharedLen_le_left as bs; simp; omega
    · simp

theorem sharedLen_take : ∀ (a b : List Nat), a.take (sharedLen a b) = b.take (sharedLen a b)
  | [], _ => by simp [sharedLen]
  | _ :: _, [] => by simp [sharedLen]
  | x :: as, y :: bs => by
    simp only [sharedLen]; split
    · rename_i h; subst h; simp [List.take_succ_cons, sharedLen_take as bs]
    · simp

/-- the key the cursor rebuilds is the key that was put -/
theorem rebuild_key (last key : List Nat) (restart : Bool) :
    let shared := if restart then 0 else sharedLen last key
    last.take shared ++ key.drop shared = key := by
  cases restart with
  | true => simp
  | false =>
    simp only [Bool.false_eq_true, if_false]
    rw [sharedLen_take, List.take_append_drop]

/-- entries whose fields fit the wire types (guaranteed by the Rust types and the size checks) -/
def KV.Wf (e : KV) : Prop :=
  e.ts < U64 ∧ ∀ shared, shared ≤ e.key.length → (wireEntry shared e).Wf

theorem add_lastKey (o : Opts) (b : Builder) (e : KV) : (b.add o e).lastKey = e.key := by
  unfold Builder.add
  simp only
  exact rebuild_key b.lastKey e.key _

theorem encEntry_ne_nil (w : Entry) : encEntry w ≠ [] := by
  cases w <;> (unfold encEntry; intro h; exact encTag_ne_nil _ (List.append_eq_nil_iff.mp h).1)

theorem decodeAll_step (f : Nat) (bs prev : List Nat) (hne : bs ≠ []) :
    decodeAll (f + 1) bs prev =
      match decEntry bs with
      | none => none
      | some (.put p, rest) =>
        (decodeAll f rest (prev.take p.shared ++ p.keyFrag)).map
          (fun l => ⟨prev.take p.shared ++ p.keyFrag, p.timestamp, some p.value⟩ :: l)
      | some (.del d, rest) =>
        (decodeAll f rest (prev.take d.shared ++ d.keyFrag)).map
          (fun l => ⟨prev.take d.shared ++ d.keyFrag, d.timestamp, none⟩ :: l) := by
  cases bs with
  | nil => exact absurd rfl hne
  | cons x t => rfl

theorem build_decode (o : Opts) :
    ∀ (es : List KV) (b : Builder), (∀ e ∈ es, e.Wf) →
      ∃ suffix, (es.foldl (Builder.add o) b).buffer = b.buffer ++ suffix ∧
        ∀ fuel, es.length < fuel → decodeAll fuel suffix b.lastKey = some es := by
  intro es
  induction es with
  | nil =>
    intro b _
    refine ⟨[], by simp, ?_⟩
    intro fuel hf
    cases fuel with
    | zero => omega
    | succ f => rfl
  | cons e es ih =>
    intro b hwf
    obtain ⟨suf, hbuf, hdec⟩ := ih (b.add o e) (fun x hx => hwf x (List.mem_cons_of_mem _ hx))
    have hkey := add_lastKey o b e
    -- what `add` appended
    let restart := decide (o.bytesRestartInterval ≤ b.bytesSinceRestart)
               || decide (o.pairsRestartInterval ≤ b.pairsSinceRestart)
    let shared := if restart then 0 else sharedLen b.lastKey e.key
    have hshared : shared ≤ e.key.length := by
      show (if restart then 0 else sharedLen b.lastKey e.key) ≤ e.key.length
      split
      · omega
      · have h1 := sharedLen_take b.lastKey e.key
        have h2 := sharedLen_le_left b.lastKey e.key
        have := congrArg List.length h1
        simp only [List.length_take] at this
        omega
    have hadd : (b.add o e).buffer = b.buffer ++ encEntry (wireEntry shared e) := rfl
    have hw : (wireEntry shared e).Wf := (hwf e (List.mem_cons_self ..)).2 shared hshared
    refine ⟨encEntry (wireEntry shared e) ++ suf, ?_, ?_⟩
    · simp only [List.foldl_cons]; rw [hbuf, hadd, List.append_assoc]
    · intro fuel hf
      obtain ⟨f, rfl⟩ : ∃ f, fuel = f + 1 := ⟨fuel - 1, by simp at hf; omega⟩
      have hne : encEntry (wireEntry shared e) ++ suf ≠ [] := by
        intro h; exact encEntry_ne_nil _ (List.append_eq_nil_iff.mp h).1
      have hrec := hdec f (by simp at hf; omega)
      rw [hkey] at hrec
      have hk : b.lastKey.take shared ++ e.key.drop shared = e.key := rebuild_key b.lastKey e.key restart
      rw [decodeAll_step f _ _ hne, decEntry_enc _ hw suf]
      cases hv : e.val with
      | some v =>
        have : wireEntry shared e = .put ⟨shared, e.key.drop shared, e.ts, v⟩ := by
          unfold wireEntry; rw [hv]
        simp only [this, hk, hrec, Option.map_some]
        congr 2
        cases e; simp_all
      | none =>
        have : wireEntry shared e = .del ⟨shared, e.key.drop shared, e.ts⟩ := by
          unfold wireEntry; rw [hv]
        simp only [this, hk, hrec, Option.map_some]
        congr 2
        cases e; simp_all

/-- **C10** the entry area of a built block decodes to exactly the entries that were put,
    for every restart policy -/
theorem block_roundtrip (o : Opts) (es : List KV) (hwf : ∀ e ∈ es, e.Wf) :
    decodeAll (es.length + 1) (build o es).buffer [] = some es := by
  obtain ⟨suf, hbuf, hdec⟩ := build_decode o es Builder.init hwf
  unfold build
  rw [hbuf]
  exact hdec _ (by omega)

end Blue.Block

#print axioms Blue.Block.block_roundtrip
