import Blue.Model.Snap
import Blue.Proofs.ScanCongr
/-! **C07** what a held cursor shows does not change while the store moves: writes that enter the
    captured memtable after the open carry sequence numbers above the read timestamp and are
    screened out; everything else the store does leaves the captured components alone. -/
namespace Blue.Snap
open Blue.Spec Blue.Cursor

variable {K : Type} [DecidableEq K]

/-! ## the canonical table of a set of versions -/

theorem mem_insertV (klt : K → K → Bool) (v e : Ver K) : ∀ l : List (Ver K), e ∈ insertV klt v l ↔ e = v ∨ e ∈ l
  | [] => by simp [insertV]
  | x :: t => by
    unfold insertV
    by_cases h1 : v = x
    · rw [if_pos h1]; subst h1
      constructor
      · intro h; exact Or.inr h
      · intro h; rcases h with h | h
        · rw [h]; exact List.mem_cons_self
        · exact h
    · rw [if_neg h1]
      by_cases h2 : vlt klt v x = true
      · rw [if_pos h2]; simp [List.mem_cons]
      · rw [if_neg h2]
        simp only [List.mem_cons, mem_insertV klt v e t]
        constructor
        · intro h; rcases h with h | h | h
          · exact Or.inr (Or.inl h)
          · exact Or.inl h
          · exact Or.inr (Or.inr h)
        · intro h; rcases h with h | h | h
          · exact Or.inr (Or.inl h)
          · exact Or.inl h
          · exact Or.inr (Or.inr h)

theorem insertV_sorted {klt : K → K → Bool} (st : StrictTotal klt) (v : Ver K) :
    ∀ l : List (Ver K), Sorted klt l → Sorted klt (insertV klt v l)
  | [], _ => by simp [insertV, Sorted]
  | x :: t, hs => by
    unfold insertV
    by_cases h1 : v = x
    · rw [if_pos h1]; exact hs
    · rw [if_neg h1]
      have hx := List.pairwise_cons.mp hs
      by_cases h2 : vlt klt v x = true
      · rw [if_pos h2]
        refine List.pairwise_cons.mpr ⟨?_, hs⟩
        intro y hy
        rcases List.mem_cons.mp hy with e | hy'
        · rw [e]; exact h2
        · exact (vlt_strictTotal st).trans _ _ _ h2 (hx.1 y hy')
      · rw [if_neg h2]
        have hxv : vlt klt x v = true := by
          rcases (vlt_strictTotal st).total v x h1 with h | h
          · exact absurd h h2
          · exact h
        refine List.pairwise_cons.mpr ⟨?_, insertV_sorted st v t hx.2⟩
        intro y hy
        rcases (mem_insertV klt v y t).mp hy with e | hy'
        · rw [e]; exact hxv
        · exact hx.1 y hy'

theorem foldl_insertV_sorted {klt : K → K → Bool} (st : StrictTotal klt) :
    ∀ (vs acc : List (Ver K)), Sorted klt acc → Sorted klt (vs.foldl (fun acc v => insertV klt v acc) acc)
  | [], _, h => h
  | v :: vs, acc, h => foldl_insertV_sorted st vs _ (insertV_sorted st v acc h)

theorem mem_foldl_insertV (klt : K → K → Bool) (e : Ver K) :
    ∀ (vs acc : List (Ver K)), e ∈ vs.foldl (fun acc v => insertV klt v acc) acc ↔ e ∈ vs ∨ e ∈ acc
  | [], acc => by simp
  | v :: vs, acc => by
    simp only [List.foldl_cons, mem_foldl_insertV klt e vs, mem_insertV, List.mem_cons]
    constructor
    · intro h; rcases h with h | h | h
      · exact Or.inl (Or.inr h)
      · exact Or.inl (Or.inl h)
      · exact Or.inr h
    · intro h; rcases h with (h | h) | h
      · exact Or.inr (Or.inl h)
      · exact Or.inl h
      · exact Or.inr (Or.inr h)

theorem sortV_sorted {klt : K → K → Bool} (st : StrictTotal klt) (vs : List (Ver K)) : Sorted klt (sortV klt vs) :=
  foldl_insertV_sorted st vs [] List.Pairwise.nil

theorem mem_sortV (klt : K → K → Bool) (vs : List (Ver K)) (e : Ver K) : e ∈ sortV klt vs ↔ e ∈ vs := by
  unfold sortV; rw [mem_foldl_insertV]; simp

/-! ## entries above the read timestamp are invisible -/

/-- **timestamp screening**: adding versions newer than `t` to a table changes nothing of what a
    read at `t` sees -/
theorem live_filter_stable {klt : K → K → Bool} (st : StrictTotal klt) (M M' late : List (Ver K))
    (hs : Sorted klt M) (hs' : Sorted klt M') (hmem : ∀ e, e ∈ M' ↔ e ∈ M ∨ e ∈ late)
    (t : Nat) (hlate : ∀ e ∈ late, t < e.2) (tomb : Ver K → Bool) :
    M'.filter (isLive M' t tomb) = M.filter (isLive M t tomb) := by
  apply sorted_ext (vlt_strictTotal st)
  · exact List.Pairwise.filter _ hs'
  · exact List.Pairwise.filter _ hs
  intro e
  simp only [List.mem_filter]
  unfold isLive
  simp only [Bool.and_eq_true, decide_eq_true_eq, List.all_eq_true, Bool.or_eq_true, Bool.not_eq_true',
    Bool.and_eq_false_iff, decide_eq_false_iff_not]
  constructor
  · rintro ⟨he, ⟨hle, hall⟩, htomb⟩
    have heM : e ∈ M := by
      rcases (hmem e).mp he with h | h
      · exact h
      · have := hlate e h; omega
    exact ⟨heM, ⟨hle, fun e' he' => hall e' ((hmem e').mpr (Or.inl he'))⟩, htomb⟩
  · rintro ⟨he, ⟨hle, hall⟩, htomb⟩
    refine ⟨(hmem e).mpr (Or.inl he), ⟨hle, ?_⟩, htomb⟩
    intro e' he'
    rcases (hmem e').mp he' with h | h
    · exact hall e' h
    · have := hlate e' h
      exact Or.inl (Or.inr (by omega))

/-- a write into the captured memtable whose entries all carry sequence numbers above the read
    timestamp does not change what the cursor shows -/
theorem view_write {klt : K → K → Bool} (st : StrictTotal klt) (tomb : Ver K → Bool) (sb eb : Bound K)
    (h : Held K) (es : List (Ver K)) (hlate : ∀ e ∈ es, h.ts < e.2) :
    view klt tomb sb eb { h with mem := h.mem ++ es } = view klt tomb sb eb h := by
  unfold view
  simp only
  rw [live_filter_stable st (sortV klt (h.mem ++ h.rest)) (sortV klt (h.mem ++ es ++ h.rest)) es
    (sortV_sorted st _) (sortV_sorted st _) ?_ h.ts hlate tomb]
  intro e
  simp only [mem_sortV, List.mem_append]
  constructor
  · intro h; rcases h with (h | h) | h
    · exact Or.inl (Or.inl h)
    · exact Or.inr h
    · exact Or.inl (Or.inr h)
  · intro h; rcases h with (h | h) | h
    · exact Or.inl (Or.inl h)
    · exact Or.inr h
    · exact Or.inl (Or.inr h)

/-- the same for a late insert into the captured immutable memtable -/
theorem view_writeImm {klt : K → K → Bool} (st : StrictTotal klt) (tomb : Ver K → Bool) (sb eb : Bound K)
    (h : Held K) (es : List (Ver K)) (hlate : ∀ e ∈ es, h.ts < e.2) :
    view klt tomb sb eb { h with rest := h.rest ++ es } = view klt tomb sb eb h := by
  unfold view
  simp only
  rw [live_filter_stable st (sortV klt (h.mem ++ h.rest)) (sortV klt (h.mem ++ (h.rest ++ es))) es
    (sortV_sorted st _) (sortV_sorted st _) ?_ h.ts hlate tomb]
  intro e
  simp only [mem_sortV, List.mem_append]
  constructor
  · intro h; rcases h with h | h | h
    · exact Or.inl (Or.inl h)
    · exact Or.inl (Or.inr h)
    · exact Or.inr h
  · intro h; rcases h with (h | h) | h
    · exact Or.inl h
    · exact Or.inr (Or.inl h)
    · exact Or.inr (Or.inr h)

/-- the list the cursor shows is the list `scan_spec` (C03) assigns to any table holding exactly the
    versions of the captured components -/
theorem view_eq {klt : K → K → Bool} (st : StrictTotal klt) (tomb : Ver K → Bool) (sb eb : Bound K)
    (h : Held K) (M : List (Ver K)) (hs : Sorted klt M) (hmem : ∀ e, e ∈ M ↔ e ∈ h.mem ++ h.rest) :
    (M.filter (isLive M h.ts tomb)).filter (inRange klt sb eb) = view klt tomb sb eb h := by
  unfold view
  exact scan_list_congr st M (sortV klt (h.mem ++ h.rest)) hs (sortV_sorted st _)
    (fun e => by rw [mem_sortV]; exact hmem e) h.ts tomb sb eb

/-- where a late entry lands — the captured memtable or the captured immutable memtable — makes
    no difference to what the cursor shows: the list depends on the set of versions only -/
theorem view_writeImm_eq_write {klt : K → K → Bool} (st : StrictTotal klt) (tomb : Ver K → Bool) (sb eb : Bound K)
    (h : Held K) (es : List (Ver K)) :
    view klt tomb sb eb { h with rest := h.rest ++ es } = view klt tomb sb eb { h with mem := h.mem ++ es } := by
  rw [← view_eq st tomb sb eb { h with mem := h.mem ++ es } (sortV klt (h.mem ++ (h.rest ++ es)))
    (sortV_sorted st _) ?_]
  · rfl
  · intro e
    simp only [mem_sortV, List.mem_append]
    constructor
    · intro h; rcases h with h | h | h
      · exact Or.inl (Or.inl h)
      · exact Or.inr h
      · exact Or.inl (Or.inr h)
    · intro h; rcases h with (h | h) | h
      · exact Or.inl h
      · exact Or.inr (Or.inr h)
      · exact Or.inr (Or.inl h)

/-! ## the held cursor -/

theorem ref_step_xs {E : Type} (c : Ref E) (o : Op E) : (c.step o).xs = c.xs := by
  cases o <;> simp [Ref.step, Ref.first, Ref.last, Ref.next, Ref.prev, Ref.seek]
  · split <;> rfl
  · split <;> rfl

/-- every write of the script into the captured memtable carries sequence numbers above the read
    timestamp — hypothesis (i); false for a writer that was in flight when the scan was opened
    (its number was assigned before, its entries arrive after: finding D-6) -/
def LateWritesAbove (ts : Nat) : List (Tok K) → Prop
  | [] => True
  | .write es :: rest => (∀ e ∈ es, ts < e.2) ∧ LateWritesAbove ts rest
  | .writeImm es :: rest => (∀ e ∈ es, ts < e.2) ∧ LateWritesAbove ts rest
  | _ :: rest => LateWritesAbove ts rest

/-- **the held cursor shows the open-time snapshot**: whatever the store does between the calls,
    the calls return what the reference cursor over the list of open time returns -/
theorem run_eq_ref {klt : K → K → Bool} (st : StrictTotal klt) (tomb : Ver K → Bool) (sb eb : Bound K) :
    ∀ (toks : List (Tok K)) (h : Held K), LateWritesAbove h.ts toks →
      run klt tomb sb eb h toks = Ref.run ⟨view klt tomb sb eb h, h.pos⟩ (opsOf toks)
  | [], _, _ => rfl
  | .op o :: rest, h, hl => by
    have ih := run_eq_ref st tomb sb eb rest
      { h with pos := ((Ref.mk (view klt tomb sb eb h) h.pos).step o).pos } hl
    show ((Ref.mk (view klt tomb sb eb h) h.pos).step o).kv :: run klt tomb sb eb _ rest = _
    rw [ih]
    show _ = ((Ref.mk (view klt tomb sb eb h) h.pos).step o).kv :: Ref.run ((Ref.mk (view klt tomb sb eb h) h.pos).step o) (opsOf rest)
    have hv : view klt tomb sb eb { h with pos := ((Ref.mk (view klt tomb sb eb h) h.pos).step o).pos } = view klt tomb sb eb h := rfl
    rw [hv]
    have hx := ref_step_xs (Ref.mk (view klt tomb sb eb h) h.pos) o
    have : (Ref.mk (view klt tomb sb eb h) ((Ref.mk (view klt tomb sb eb h) h.pos).step o).pos) = (Ref.mk (view klt tomb sb eb h) h.pos).step o := by
      cases hc : (Ref.mk (view klt tomb sb eb h) h.pos).step o with
      | mk xs pos =>
        rw [hc] at hx
        simp only at hx
        rw [hx]
    rw [this]
  | .write es :: rest, h, hl => by
    have ih := run_eq_ref st tomb sb eb rest { h with mem := h.mem ++ es } hl.2
    show run klt tomb sb eb { h with mem := h.mem ++ es } rest = _
    rw [ih, view_write st tomb sb eb h es hl.1]
    rfl
  | .writeImm es :: rest, h, hl => by
    have ih := run_eq_ref st tomb sb eb rest { h with rest := h.rest ++ es } hl.2
    show run klt tomb sb eb { h with rest := h.rest ++ es } rest = _
    rw [ih, view_writeImm st tomb sb eb h es hl.1]
    rfl
  | .other :: rest, h, hl => by
    have ih := run_eq_ref st tomb sb eb rest h hl
    show run klt tomb sb eb h rest = _
    rw [ih]; rfl

/-! ## scans opened while writes are in flight -/

theorem readTs_le (assigned : Nat) : ∀ inflight : List Nat, readTs assigned inflight ≤ assigned
  | [] => Nat.le_refl _
  | s :: rest => by
    have ih := readTs_le assigned rest
    show (if s ≤ readTs assigned rest then s - 1 else readTs assigned rest) ≤ assigned
    split <;> omega

/-- the read timestamp lies below every write that is still in flight -/
theorem readTs_lt (assigned : Nat) : ∀ (inflight : List Nat) (s : Nat), s ∈ inflight → 0 < s → readTs assigned inflight < s
  | [], _, h, _ => by cases h
  | x :: rest, s, h, hs => by
    show (if x ≤ readTs assigned rest then x - 1 else readTs assigned rest) < s
    rcases List.mem_cons.mp h with e | h'
    · subst e; split <;> omega
    · have ih := readTs_lt assigned rest s h' hs
      split <;> omega

theorem lateWritesAbove_of_forall (ts : Nat) : ∀ toks : List (Tok K),
    (∀ es, Tok.write es ∈ toks ∨ Tok.writeImm es ∈ toks → ∀ e ∈ es, ts < e.2) → LateWritesAbove ts toks
  | [], _ => trivial
  | .op _ :: rest, h => lateWritesAbove_of_forall ts rest
      (fun es hm => h es (hm.imp (List.mem_cons_of_mem _) (List.mem_cons_of_mem _)))
  | .other :: rest, h => lateWritesAbove_of_forall ts rest
      (fun es hm => h es (hm.imp (List.mem_cons_of_mem _) (List.mem_cons_of_mem _)))
  | .write es :: rest, h =>
    ⟨h es (Or.inl List.mem_cons_self), lateWritesAbove_of_forall ts rest
      (fun es' hm => h es' (hm.imp (List.mem_cons_of_mem _) (List.mem_cons_of_mem _)))⟩
  | .writeImm es :: rest, h =>
    ⟨h es (Or.inr List.mem_cons_self), lateWritesAbove_of_forall ts rest
      (fun es' hm => h es' (hm.imp (List.mem_cons_of_mem _) (List.mem_cons_of_mem _)))⟩

/-- **a scan never shows a write that completed after it was opened**: the scan is opened while
    the writes `inflight` have been assigned their numbers and have not left the wait list, and
    takes `readTs` as its timestamp.  Every entry that reaches the captured memtable afterwards
    belongs to one of those writes or to a write that begins later (a number above `assigned`).
    The same for entries that reach the captured IMMUTABLE memtable (`writeImm`: a write in flight
    that had picked it before the rotation).
    Then every call shows what the reference cursor over the list of open time shows — which
    holds nothing of a write in flight, not even the entries it had already inserted. -/
theorem run_openAt {klt : K → K → Bool} (st : StrictTotal klt) (tomb : Ver K → Bool) (sb eb : Bound K)
    (assigned : Nat) (inflight : List Nat) (hpos : ∀ s ∈ inflight, 0 < s) (mem rest : List (Ver K))
    (toks : List (Tok K))
    (hlate : ∀ es, Tok.write es ∈ toks ∨ Tok.writeImm es ∈ toks → ∀ e ∈ es, e.2 ∈ inflight ∨ assigned < e.2) :
    run klt tomb sb eb (openAt assigned inflight mem rest) toks
      = Ref.run ⟨view klt tomb sb eb (openAt assigned inflight mem rest), 0⟩ (opsOf toks) := by
  apply run_eq_ref st tomb sb eb toks (openAt assigned inflight mem rest)
  apply lateWritesAbove_of_forall
  intro es hm e he
  show readTs assigned inflight < e.2
  rcases hlate es hm e he with h | h
  · exact readTs_lt assigned inflight e.2 h (hpos _ h)
  · have := readTs_le assigned inflight; omega

/-- … and the list of open time holds no entry of a write in flight -/
theorem view_excludes_inflight {klt : K → K → Bool} (tomb : Ver K → Bool) (sb eb : Bound K)
    (assigned : Nat) (inflight : List Nat) (hpos : ∀ s ∈ inflight, 0 < s) (mem rest : List (Ver K))
    (e : Ver K) (he : e ∈ view klt tomb sb eb (openAt assigned inflight mem rest)) : e.2 ∉ inflight := by
  intro hin
  have hlt := readTs_lt assigned inflight e.2 hin (hpos _ hin)
  unfold view at he
  simp only [List.mem_filter] at he
  have hl := he.1.2
  unfold isLive at hl
  simp only [Bool.and_eq_true, decide_eq_true_eq] at hl
  have : e.2 ≤ readTs assigned inflight := hl.1.1
  omega

end Blue.Snap

#print axioms Blue.Snap.run_openAt
#print axioms Blue.Snap.view_excludes_inflight
#print axioms Blue.Snap.run_eq_ref
#print axioms Blue.Snap.view_eq
