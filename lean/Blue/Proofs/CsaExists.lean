import Blue.Proofs.Csa
/-! **C19** the hypothesis of every index theorem — "`l` is a permutation of the suffixes of `T` that
    is strictly increasing in `lexLt`" — is satisfiable for EVERY text, by exactly one `l`.

    `sortedSuffixes T` (insertion sort of the suffixes by `lexLt`; a specification-side function, NOT
    a model of `sais.rs`) is that arrangement: `sa_exists` / `sortedSuffixes_spec` give existence,
    `sa_unique` uniqueness.  So the index theorems are statements about THE suffix array of the text,
    and "SA-IS returns the sorted permutation of the suffixes" — which stays a hypothesis, decided per
    input by the correspondence run — is the statement `l = sortedSuffixes T`. -/
namespace Blue.Csa

/-- `lexLt` is total on distinct lists -/
theorem lexLt_total : ∀ (a b : List Nat), a ≠ b → lexLt a b = true ∨ lexLt b a = true
  | [], [], h => absurd rfl h
  | [], _ :: _, _ => Or.inl rfl
  | _ :: _, [], _ => Or.inr rfl
  | x :: xs, y :: ys, h => by
    simp only [lexLt]
    rcases Nat.lt_trichotomy x y with h1 | h1 | h1
    · left; simp [h1]
    · subst h1
      have : xs ≠ ys := fun e => h (by rw [e])
      rcases lexLt_total xs ys this with h2 | h2
      · left; simp [h2]
      · right; simp [h2]
    · right; simp [h1]

/-- insertion into a `lexLt`-increasing list -/
def insLex (x : List Nat) : List (List Nat) → List (List Nat)
  | [] => [x]
  | y :: ys => if lexLt x y then x :: y :: ys else y :: insLex x ys

/-- insertion sort by `lexLt` -/
def sortLex (t : List (List Nat)) : List (List Nat) := t.foldr insLex []

/-- the suffixes of `T` in increasing order: the suffix array, as a list of suffixes -/
def sortedSuffixes (T : List Nat) : List (List Nat) := sortLex (suffixes T)

theorem insLex_perm (x : List Nat) : ∀ (t : List (List Nat)), (insLex x t).Perm (x :: t)
  | [] => List.Perm.refl _
  | y :: ys => by
    unfold insLex
    by_cases h : lexLt x y = true
    · rw [if_pos h]
    · rw [if_neg h]
      exact (List.Perm.cons y (insLex_perm x ys)).trans (List.Perm.swap x y ys)

theorem insLex_sorted (x : List Nat) : ∀ (t : List (List Nat)), t.Pairwise (fun a b => lexLt a b = true) → x ∉ t →
    (insLex x t).Pairwise (fun a b => lexLt a b = true)
  | [], _, _ => by simp [insLex]
  | y :: ys, hs, hx => by
    have hxy : x ≠ y := fun e => hx (by simp [e])
    have hxys : x ∉ ys := fun e => hx (List.mem_cons_of_mem _ e)
    have hs' := List.pairwise_cons.mp hs
    unfold insLex
    by_cases h : lexLt x y = true
    · rw [if_pos h, List.pairwise_cons]
      refine ⟨?_, hs⟩
      intro z hz
      rcases List.mem_cons.mp hz with rfl | hz
      · exact h
      · exact lexLt_trans _ _ _ h (hs'.1 z hz)
    · rw [if_neg h, List.pairwise_cons]
      have hyx : lexLt y x = true := by
        rcases lexLt_total x y hxy with h' | h'
        · exact absurd h' h
        · exact h'
      refine ⟨?_, insLex_sorted x ys hs'.2 hxys⟩
      intro z hz
      rcases List.mem_cons.mp ((insLex_perm x ys).mem_iff.mp hz) with rfl | hz
      · exact hyx
      · exact hs'.1 z hz

theorem sortLex_perm : ∀ (t : List (List Nat)), (sortLex t).Perm t
  | [] => List.Perm.refl _
  | x :: t => (insLex_perm x (sortLex t)).trans (List.Perm.cons x (sortLex_perm t))

theorem sortLex_sorted : ∀ (t : List (List Nat)), t.Nodup → (sortLex t).Pairwise (fun a b => lexLt a b = true)
  | [], _ => List.Pairwise.nil
  | x :: t, h => by
    rw [List.nodup_cons] at h
    exact insLex_sorted x (sortLex t) (sortLex_sorted t h.2) (fun e => h.1 ((sortLex_perm t).mem_iff.mp e))

/-- the suffixes of a text are pairwise distinct (they have different lengths) -/
theorem suffixes_nodup (T : List Nat) : (suffixes T).Nodup := by
  unfold suffixes
  rw [List.nodup_iff_pairwise_ne, List.pairwise_map]
  refine List.Pairwise.imp_of_mem ?_ (List.nodup_iff_pairwise_ne.mp List.nodup_range)
  intro a b ha hb hne hab
  have ha := List.mem_range.mp ha
  have hb := List.mem_range.mp hb
  have := congrArg List.length hab
  simp only [List.length_drop] at this
  omega

/-- **C19** `sortedSuffixes T` satisfies the hypothesis of the index theorems, for every text -/
theorem sortedSuffixes_spec (T : List Nat) :
    (sortedSuffixes T).Perm (suffixes T) ∧ (sortedSuffixes T).Pairwise (fun a b => lexLt a b = true) :=
  ⟨sortLex_perm _, sortLex_sorted _ (suffixes_nodup T)⟩

/-- **C19** the hypothesis of every index theorem is satisfiable for EVERY text -/
theorem sa_exists (T : List Nat) :
    ∃ l : List (List Nat), l.Perm (suffixes T) ∧ l.Pairwise (fun a b => lexLt a b = true) :=
  ⟨_, sortedSuffixes_spec T⟩

/-- two strictly increasing arrangements of the same lists are equal -/
theorem sorted_perm_unique : ∀ (l₁ l₂ : List (List Nat)), l₁.Perm l₂ →
    l₁.Pairwise (fun a b => lexLt a b = true) → l₂.Pairwise (fun a b => lexLt a b = true) → l₁ = l₂
  | [], l₂, hp, _, _ => (List.Perm.nil_eq hp)
  | a :: t₁, [], hp, _, _ => by have := hp.length_eq; simp at this
  | a :: t₁, b :: t₂, hp, h₁, h₂ => by
    have h₁' := List.pairwise_cons.mp h₁
    have h₂' := List.pairwise_cons.mp h₂
    have hab : a = b := by
      have ha : a ∈ b :: t₂ := hp.mem_iff.mp (List.mem_cons_self ..)
      have hb : b ∈ a :: t₁ := hp.mem_iff.mpr (List.mem_cons_self ..)
      rcases List.mem_cons.mp ha with e | ha
      · exact e
      · rcases List.mem_cons.mp hb with e | hb
        · exact e.symm
        · have x := h₂'.1 a ha
          have y := h₁'.1 b hb
          rw [lexLt_asymm _ _ x] at y
          cases y
    subst hab
    rw [sorted_perm_unique t₁ t₂ (List.Perm.cons_inv hp) h₁'.2 h₂'.2]

/-- **C19** … by exactly one arrangement: the hypothesis pins `l` down to `sortedSuffixes T` -/
theorem sa_unique (T : List Nat) (l : List (List Nat)) (hperm : l.Perm (suffixes T))
    (hsorted : l.Pairwise (fun a b => lexLt a b = true)) : l = sortedSuffixes T :=
  sorted_perm_unique l _ (hperm.trans (sortedSuffixes_spec T).1.symm) hsorted (sortedSuffixes_spec T).2

example : sortedSuffixes [1, 2, 1, 2, 0] = exL := by decide

end Blue.Csa

#print axioms Blue.Csa.sortedSuffixes_spec
#print axioms Blue.Csa.sa_exists
#print axioms Blue.Csa.sa_unique
