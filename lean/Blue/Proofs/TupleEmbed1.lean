import Blue.Proofs.TupleEmbed
/-! **C16** field-numbered format: byte order ⇔ tuple order for every element type and direction,
    for tagged fields and whole tuples; the string dichotomy is exclusive; descending strings
    (D-20) characterised exactly; D-20's counterexample inside the real domain (UTF-8 strings);
    injectivity from the round trip. -/
namespace Blue.TupleKey1
open Blue.TupleKey2 (blt Strong blt_cons_lt blt_cons_same blt_append_left blt_irrefl blt_asymm blt_trichotomy
  strong_decides strong_decides' strong_reflect slt)

/-! ### integers, both directions -/

theorem encU32_order_iff {a b : Nat} (ha : a < 4294967296) (hb : b < 4294967296) (x y : List Nat) :
    blt (encU32 a ++ x) (encU32 b ++ y) = true ↔ a < b ∨ (a = b ∧ blt x y = true) :=
  strong_decides' (lt' := fun a b : Nat => a < b) encU32_strong ⟨fun h => h.1, fun h => ⟨h, hb⟩⟩ (by omega) x y

theorem encU32_rev_order_iff {a b : Nat} (ha : a < 4294967296) (hb : b < 4294967296) (x y : List Nat) :
    blt (reverse (encU32 a) ++ x) (reverse (encU32 b) ++ y) = true ↔ b < a ∨ (a = b ∧ blt x y = true) :=
  strong_decides' (lt' := fun a b : Nat => b < a) encU32_rev_strong ⟨fun h => h.1, fun h => ⟨h, ha⟩⟩ (by omega) x y

theorem encU64_order_iff {a b : Nat} (ha : a < 18446744073709551616) (hb : b < 18446744073709551616)
    (x y : List Nat) :
    blt (encU64 a ++ x) (encU64 b ++ y) = true ↔ a < b ∨ (a = b ∧ blt x y = true) :=
  strong_decides' (lt' := fun a b : Nat => a < b) encU64_strong ⟨fun h => h.1, fun h => ⟨h, hb⟩⟩ (by omega) x y

theorem encU64_rev_order_iff {a b : Nat} (ha : a < 18446744073709551616) (hb : b < 18446744073709551616)
    (x y : List Nat) :
    blt (reverse (encU64 a) ++ x) (reverse (encU64 b) ++ y) = true ↔ b < a ∨ (a = b ∧ blt x y = true) :=
  strong_decides' (lt' := fun a b : Nat => b < a) encU64_rev_strong ⟨fun h => h.1, fun h => ⟨h, ha⟩⟩ (by omega) x y

theorem encI32_order_iff {a b : Int} (ha : -2147483648 ≤ a ∧ a < 2147483648) (hb : -2147483648 ≤ b ∧ b < 2147483648)
    (x y : List Nat) :
    blt (encI32 a ++ x) (encI32 b ++ y) = true ↔ a < b ∨ (a = b ∧ blt x y = true) :=
  strong_decides' (lt' := fun a b : Int => a < b) encI32_strong ⟨fun h => h.1, fun h => ⟨h, ha.1, hb.2⟩⟩ (by omega) x y

theorem encI32_rev_order_iff {a b : Int} (ha : -2147483648 ≤ a ∧ a < 2147483648)
    (hb : -2147483648 ≤ b ∧ b < 2147483648) (x y : List Nat) :
    blt (reverse (encI32 a) ++ x) (reverse (encI32 b) ++ y) = true ↔ b < a ∨ (a = b ∧ blt x y = true) :=
  strong_decides' (lt' := fun a b : Int => b < a) encI32_rev_strong ⟨fun h => h.1, fun h => ⟨h, hb.1, ha.2⟩⟩ (by omega) x y

theorem encI64_order_iff {a b : Int} (ha : -9223372036854775808 ≤ a ∧ a < 9223372036854775808)
    (hb : -9223372036854775808 ≤ b ∧ b < 9223372036854775808) (x y : List Nat) :
    blt (encI64 a ++ x) (encI64 b ++ y) = true ↔ a < b ∨ (a = b ∧ blt x y = true) :=
  strong_decides' (lt' := fun a b : Int => a < b) encI64_strong ⟨fun h => h.1, fun h => ⟨h, ha.1, hb.2⟩⟩ (by omega) x y

theorem encI64_rev_order_iff {a b : Int} (ha : -9223372036854775808 ≤ a ∧ a < 9223372036854775808)
    (hb : -9223372036854775808 ≤ b ∧ b < 9223372036854775808) (x y : List Nat) :
    blt (reverse (encI64 a) ++ x) (reverse (encI64 b) ++ y) = true ↔ b < a ∨ (a = b ∧ blt x y = true) :=
  strong_decides' (lt' := fun a b : Int => b < a) encI64_rev_strong ⟨fun h => h.1, fun h => ⟨h, hb.1, ha.2⟩⟩ (by omega) x y

/-! ### strings ascending; the dichotomy is exclusive -/

theorem encString_order_iff {s t : List Nat} (hs : Bytes s) (ht : Bytes t) (x y : List Nat) :
    blt (encString s ++ x) (encString t ++ y) = true ↔ blt s t = true ∨ (s = t ∧ blt x y = true) :=
  strong_decides' (lt' := fun s t : List Nat => blt s t = true) encString_strong ⟨fun h => h.1, fun h => ⟨h, hs, ht⟩⟩
    (by rcases blt_trichotomy s t with h | h | h
        · exact Or.inl ⟨h, hs, ht⟩
        · exact Or.inr (Or.inl h)
        · exact Or.inr (Or.inr ⟨h, ht, hs⟩)) x y

/-- a pair that first differs in data bits is ordered by that byte, whatever follows -/
theorem dataLt_blt {u v : List Nat} (h : DataLt u v) (x y : List Nat) : blt (u ++ x) (v ++ y) = true := by
  obtain ⟨p, a, b, u', v', rfl, rfl, hab⟩ := h
  rw [List.append_assoc, List.append_assoc, blt_append_left]
  exact blt_cons_lt (by omega) _ _

/-- a pair that first differs in the continuation bit is ordered by that byte, whatever follows -/
theorem contTie_blt {u v : List Nat} (h : ContTie u v) (x y : List Nat) : blt (u ++ x) (v ++ y) = true := by
  obtain ⟨p, a, u', v', rfl, rfl⟩ := h
  rw [List.append_assoc, List.append_assoc, blt_append_left]
  exact blt_cons_lt (by omega) _ _

/-- **exclusive**: the first differing byte differs either in data bits or in the continuation
    bit alone, never both -/
theorem dataLt_contTie_exclusive {u v : List Nat} (h1 : DataLt u v) (h2 : ContTie u v) : False := by
  obtain ⟨p, a, b, u', v', hu, hv, hab⟩ := h1
  obtain ⟨q, c, u'', v'', hu2, hv2⟩ := h2
  subst hu hv
  induction p generalizing q with
  | nil =>
    cases q with
    | nil => simp at hu2 hv2; omega
    | cons e q => simp at hu2 hv2; omega
  | cons e p ih =>
    cases q with
    | nil => simp at hu2 hv2; omega
    | cons e' q =>
      simp at hu2 hv2
      exact ih q hu2.2 hv2.2

theorem contTie_asymm {u v : List Nat} (h : ContTie u v) : ¬ ContTie v u := by
  intro h'
  have h1 := contTie_blt h [] []
  have h2 := contTie_blt h' [] []
  rw [blt_asymm h1] at h2
  cases h2

/-- the string dichotomy as an equivalence: a pair of byte strings is in ascending order iff the
    encodings first differ in data bits or in the continuation bit (in that direction) -/
theorem string_pairs_iff {s t : List Nat} (hs : Bytes s) (ht : Bytes t) :
    blt s t = true ↔ (DataLt (encString s) (encString t) ∨ ContTie (encString s) (encString t)) := by
  constructor
  · intro h
    exact strong_dichotomy encString_strong (a := s) (b := t) ⟨h, hs, ht⟩
  · intro h
    have hb : blt (encString s ++ []) (encString t ++ []) = true := by
      rcases h with h | h
      · exact dataLt_blt h [] []
      · exact contTie_blt h [] []
    rcases (encString_order_iff hs ht [] []).mp hb with h1 | ⟨_, h2⟩
    · exact h1
    · cases h2

/-- … and exactly one of the two holds -/
theorem string_pairs_exactly_one {s t : List Nat} (h : blt s t = true) (hs : Bytes s) (ht : Bytes t) :
    (DataLt (encString s) (encString t) ∧ ¬ ContTie (encString s) (encString t))
    ∨ (ContTie (encString s) (encString t) ∧ ¬ DataLt (encString s) (encString t)) := by
  rcases (string_pairs_iff hs ht).mp h with h1 | h1
  · exact Or.inl ⟨h1, fun h2 => dataLt_contTie_exclusive h1 h2⟩
  · exact Or.inr ⟨h1, fun h2 => dataLt_contTie_exclusive h2 h1⟩

/-! ### strings descending: D-20 exactly -/

/-- **D-20, the exact order of descending strings**: the inverted encodings of `s` and `t` compare
    as `t < s` when the forward encodings of `t`, `s` first differ in data bits, as `s < t`
    (the wrong way round) when the forward encodings of `s`, `t` first differ in the continuation
    bit, and by what follows when `s = t`; nothing else -/
theorem string_desc_order_exact {s t : List Nat} (hs : Bytes s) (ht : Bytes t) (x y : List Nat) :
    blt (reverse (encString s) ++ x) (reverse (encString t) ++ y) = true ↔
      ((blt t s = true ∧ ¬ ContTie (encString t) (encString s))
        ∨ ContTie (encString s) (encString t) ∨ (s = t ∧ blt x y = true)) := by
  constructor
  · intro hb
    rcases blt_trichotomy s t with h | h | h
    · rcases strong_dichotomy encString_strong (a := s) (b := t) ⟨h, hs, ht⟩ with hd | hc
      · have := blt_asymm (reverse_dataLt hd (encString_lt t) y x)
        rw [hb] at this
        cases this
      · exact Or.inr (Or.inl hc)
    · subst h
      rw [blt_append_left] at hb
      exact Or.inr (Or.inr ⟨rfl, hb⟩)
    · by_cases hc : ContTie (encString t) (encString s)
      · have := blt_asymm (string_desc_tie_ascending t s hc y x)
        rw [hb] at this
        cases this
      · exact Or.inl ⟨h, hc⟩
  · rintro (⟨h, hc⟩ | hc | ⟨rfl, h⟩)
    · exact string_desc_partial s t ⟨h, hs, ht, hc⟩ x y
    · exact string_desc_tie_ascending s t hc x y
    · rw [blt_append_left]; exact h

/-- **D-20's class is exact**: a pair `t < s` of descending strings is sorted the right way round
    (`s` first) iff it is outside `ContTie` -/
theorem string_desc_correct_iff {s t : List Nat} (hs : Bytes s) (ht : Bytes t) (h : blt t s = true)
    (x y : List Nat) :
    blt (reverse (encString s) ++ x) (reverse (encString t) ++ y) = true ↔ ¬ ContTie (encString t) (encString s) := by
  rw [string_desc_order_exact hs ht x y]
  constructor
  · rintro (⟨_, hc⟩ | hc | ⟨rfl, _⟩)
    · exact hc
    · have h1 := (string_pairs_iff hs ht).mpr (Or.inr hc)
      rw [blt_asymm h] at h1
      cases h1
    · rw [blt_irrefl] at h
      cases h
  · intro hc
    exact Or.inl ⟨h, hc⟩

/-- **D-20 inside the real domain**: the counterexample `""` / `"\0"` consists of valid UTF-8
    strings (what a Rust `String` holds), so descending strings fail on the property's own
    quantifier, not only on the superset of all `List Nat` -/
theorem string_desc_counterexample_utf8 :
    ¬ Strong (fun s => reverse (encString s))
        (fun a b => blt b a = true ∧ Bytes a ∧ Bytes b ∧ Blue.Utf8.valid a = true ∧ Blue.Utf8.valid b = true) := by
  intro h
  have hb0 : Bytes [0] := by
    intro b hb
    simp only [List.mem_cons, List.not_mem_nil, or_false] at hb
    omega
  have hbn : Bytes [] := by intro b hb; cases hb
  have := h [0] [] ⟨by decide, hb0, hbn, by decide, by decide⟩ [] []
  revert this
  decide

/-! ### tagged fields and tuples -/

/-- a descending pair of values is outside D-20's class in both directions (vacuous for
    ascending fields and for everything but strings) -/
def FieldTieFree (d : Dir) (a b : Val) : Prop := d = .rev → NoTie a b ∧ NoTie b a

theorem fieldLt_trichotomy (d : Dir) {a b : Val} (hty : a.ty = b.ty) (hnt : FieldTieFree d a b) :
    fieldLt d a b ∨ a = b ∨ fieldLt d b a := by
  cases d with
  | fwd =>
    cases a <;> cases b <;> simp only [Val.ty] at hty <;> try cases hty
    · exact Or.inr (Or.inl rfl)
    · rename_i m n; simp only [fieldLt, Val.lt, Val.u32.injEq]; exact Nat.lt_trichotomy m n
    · rename_i m n; simp only [fieldLt, Val.lt, Val.u64.injEq]; exact Nat.lt_trichotomy m n
    · rename_i m n; simp only [fieldLt, Val.lt, Val.i32.injEq]; exact Int.lt_trichotomy m n
    · rename_i m n; simp only [fieldLt, Val.lt, Val.i64.injEq]; exact Int.lt_trichotomy m n
    · rename_i m n; simp only [fieldLt, Val.lt, Val.str.injEq]; exact blt_trichotomy m n
  | rev =>
    have hn := hnt rfl
    cases a <;> cases b <;> simp only [Val.ty] at hty <;> try cases hty
    · exact Or.inr (Or.inl rfl)
    · rename_i m n; simp only [fieldLt, Val.lt, NoTie, and_true, Val.u32.injEq]; omega
    · rename_i m n; simp only [fieldLt, Val.lt, NoTie, and_true, Val.u64.injEq]; omega
    · rename_i m n; simp only [fieldLt, Val.lt, NoTie, and_true, Val.i32.injEq]; omega
    · rename_i m n; simp only [fieldLt, Val.lt, NoTie, and_true, Val.i64.injEq]; omega
    · rename_i m n
      simp only [NoTie] at hn
      simp only [fieldLt, Val.lt, NoTie, Val.str.injEq]
      rcases blt_trichotomy m n with h | h | h
      · exact Or.inr (Or.inr ⟨h, hn.1⟩)
      · exact Or.inr (Or.inl h)
      · exact Or.inl ⟨h, hn.2⟩

/-- **C16** one tagged field, both directions of the equivalence: for two in-range values of the
    same element type (descending strings: outside D-20's class) the comparison of the encoded
    fields is exactly `fieldLt d`, or equality and what follows -/
theorem encField_order_iff (f : Nat) (d : Dir) {a b : Val} (ha : a.InRange) (hb : b.InRange)
    (hty : a.ty = b.ty) (hnt : FieldTieFree d a b) (x y : List Nat) :
    blt (encField f d a ++ x) (encField f d b ++ y) = true ↔ fieldLt d a b ∨ (a = b ∧ blt x y = true) :=
  strong_decides' (encField_strong f d) ⟨fun h => h.2.2, fun h => ⟨ha, hb, h⟩⟩
    (by rcases fieldLt_trichotomy d hty hnt with h | h | h
        · exact Or.inl ⟨ha, hb, h⟩
        · exact Or.inr (Or.inl h)
        · exact Or.inr (Or.inr ⟨hb, ha, h⟩)) x y

/-- no position holds a descending string pair of D-20's class -/
def TupleTieFree : List (Nat × Dir × Val) → List (Nat × Dir × Val) → Prop
  | (_, d, a) :: as, (_, _, b) :: bs => FieldTieFree d a b ∧ TupleTieFree as bs
  | _, _ => True

/-- `tupleLt` is trichotomous on tuples with the same field numbers, element types and
    directions (`schemaOf`), descending strings outside D-20's class -/
theorem tupleLt_trichotomy : ∀ {a b : List (Nat × Dir × Val)}, schemaOf a = schemaOf b → TupleTieFree a b →
    tupleLt a b ∨ a = b ∨ tupleLt b a
  | [], [], _, _ => Or.inr (Or.inl rfl)
  | [], _ :: _, h, _ => by simp [schemaOf] at h
  | _ :: _, [], h, _ => by simp [schemaOf] at h
  | (f, d, a) :: as, (f', d', b) :: bs, h, hn => by
    simp only [schemaOf, List.map_cons, List.cons.injEq, Prod.mk.injEq] at h
    obtain ⟨⟨rfl, hty, rfl⟩, h⟩ := h
    simp only [TupleTieFree] at hn
    simp only [tupleLt, true_and]
    rcases fieldLt_trichotomy d hty hn.1 with h1 | h1 | h1
    · exact Or.inl (Or.inl h1)
    · subst h1
      rcases tupleLt_trichotomy (a := as) (b := bs) h hn.2 with h2 | h2 | h2
      · exact Or.inl (Or.inr ⟨rfl, h2⟩)
      · exact Or.inr (Or.inl (by rw [h2]))
      · exact Or.inr (Or.inr (Or.inr ⟨rfl, h2⟩))
    · exact Or.inr (Or.inr (Or.inl h1))

/-- **C16** tuples, field-numbered format, as an equivalence: for two in-range tuples with the same
    field numbers, element types and directions (descending strings outside D-20's class) byte
    order of the keys, with anything behind them, is exactly element-by-element order of the
    tuples, or equality and what follows -/
theorem encTuple_order_iff {a b : List (Nat × Dir × Val)} (ia : TupleInRange a) (ib : TupleInRange b)
    (hs : schemaOf a = schemaOf b) (hn : TupleTieFree a b) (x y : List Nat) :
    blt (encTuple a ++ x) (encTuple b ++ y) = true ↔ tupleLt a b ∨ (a = b ∧ blt x y = true) :=
  strong_decides' encTuple_strong ⟨fun h => h.2.2, fun h => ⟨ia, ib, h⟩⟩
    (by rcases tupleLt_trichotomy hs hn with h | h | h
        · exact Or.inl ⟨ia, ib, h⟩
        · exact Or.inr (Or.inl h)
        · exact Or.inr (Or.inr ⟨ib, ia, h⟩)) x y

theorem tuple_ext : ∀ {a b : List (Nat × Dir × Val)}, schemaOf a = schemaOf b →
    a.map (fun e => e.2.2) = b.map (fun e => e.2.2) → a = b
  | [], [], _, _ => rfl
  | [], _ :: _, h, _ => by simp [schemaOf] at h
  | _ :: _, [], h, _ => by simp [schemaOf] at h
  | (f, d, a) :: as, (f', d', b) :: bs, h1, h2 => by
    simp only [schemaOf, List.map_cons, List.cons.injEq, Prod.mk.injEq] at h1 h2
    obtain ⟨⟨rfl, _, rfl⟩, h1⟩ := h1
    obtain ⟨rfl, h2⟩ := h2
    rw [tuple_ext (a := as) (b := bs) h1 h2]

/-- **C16** injectivity, field-numbered format (from the round trip, so D-20's pairs included):
    two tuples `extend_with_key` accepts, with the same field numbers, types and directions and
    the same bytes, are equal -/
theorem encTuple_injective {a b : List (Nat × Dir × Val)} (oa : ∀ e ∈ a, ElemOk e) (ob : ∀ e ∈ b, ElemOk e)
    (hs : schemaOf a = schemaOf b) (he : encTuple a = encTuple b) : a = b := by
  have h1 := parseRow_encTuple a oa []
  have h2 := parseRow_encTuple b ob []
  rw [hs, he, h2] at h1
  exact tuple_ext hs (Prod.mk.inj h1).1.symm

end Blue.TupleKey1

#print axioms Blue.TupleKey1.string_desc_order_exact
#print axioms Blue.TupleKey1.encTuple_order_iff
#print axioms Blue.TupleKey1.encTuple_injective
