import Blue.Model.SstSetsum
import Blue.Proofs.Setsum
import Blue.Proofs.SetsumDigest
import Blue.Proofs.SstAccept
import Blue.Proofs.SstFileWire
import Blue.Proofs.SbbfSst
/-! The setsum clause of the table metadata: the 32 bytes `SstBuilder::seal` writes into the final
    block are no longer a parameter of the file round trip.  They are the digest of the C14 group
    sum, over exactly the accepted entries, of the items `sst::Setsum::{put, del}` make of an entry
    (`entryPieces`), with SHA3-256 a parameter `hash` (bytes fed to the hasher → eight 32-bit
    words; every statement holds for EVERY such function). -/
namespace Blue.SstSetsum
open Blue.Wire Blue.Block Blue.Sst Blue.Cursor Blue.SstOpen

/-! ## the framing -/
theorem entryBytes_put (k : List Nat) (t : Nat) (v : List Nat) :
    entryBytes ⟨k, t, some v⟩ = 8 :: (k ++ (le64 t ++ v)) := by
  simp [entryBytes, entryPieces, PUT_MARK, tsBytes]

theorem entryBytes_del (k : List Nat) (t : Nat) :
    entryBytes ⟨k, t, none⟩ = 9 :: (k ++ le64 t) := by
  simp [entryBytes, entryPieces, DEL_MARK, tsBytes]

theorem le64_inj {a b : Nat} (ha : a < U64) (hb : b < U64) (h : le64 a = le64 b) : a = b := by
  rw [← unle64_le64 a ha, ← unle64_le64 b hb, h]

/-- a put and a del never make the same item, whatever their keys and timestamps: the first piece
    is `[8]` for a put and `[9]` for a tombstone -/
theorem put_del_distinct_pieces (k k' : List Nat) (t t' : Nat) (v : List Nat) :
    entryPieces ⟨k, t, some v⟩ ≠ entryPieces ⟨k', t', none⟩
    ∧ entryBytes ⟨k, t, some v⟩ ≠ entryBytes ⟨k', t', none⟩
    ∧ (entryPieces ⟨k, t, some v⟩).head? = some [8] ∧ (entryPieces ⟨k', t', none⟩).head? = some [9] := by
  refine ⟨?_, ?_, rfl, rfl⟩
  · intro h
    have := congrArg List.length h
    simp [entryPieces] at this
  · rw [entryBytes_put, entryBytes_del]
    intro h
    have := (List.cons_eq_cons.mp h).1
    omega

/-- tombstones are framed injectively (the timestamp is the last eight bytes) -/
theorem del_framing_injective {k k' : List Nat} {t t' : Nat} (ht : t < U64) (ht' : t' < U64)
    (h : entryBytes ⟨k, t, none⟩ = entryBytes ⟨k', t', none⟩) : k = k' ∧ t = t' := by
  rw [entryBytes_del, entryBytes_del] at h
  have h1 := (List.cons_eq_cons.mp h).2
  obtain ⟨hk, hl⟩ := List.append_inj' h1 (by rw [le64_length, le64_length])
  exact ⟨hk, le64_inj ht ht' hl⟩

/-- puts with keys of the same length are framed injectively -/
theorem put_framing_injective_same_key_length {k k' : List Nat} {t t' : Nat} {v v' : List Nat}
    (ht : t < U64) (ht' : t' < U64) (hlen : k.length = k'.length)
    (h : entryBytes ⟨k, t, some v⟩ = entryBytes ⟨k', t', some v'⟩) : k = k' ∧ t = t' ∧ v = v' := by
  rw [entryBytes_put, entryBytes_put] at h
  have h1 := (List.cons_eq_cons.mp h).2
  obtain ⟨hk, h2⟩ := List.append_inj h1 hlen
  obtain ⟨hl, hv⟩ := List.append_inj h2 (by rw [le64_length, le64_length])
  exact ⟨hk, le64_inj ht ht' hl, hv⟩

/-- … and the framing of puts is NOT injective: no piece is length-prefixed, so the boundary
    between key and timestamp (and between timestamp and value) can move.  The whole collision
    class: two puts are the same item iff `key ‖ ts_le ‖ value` is the same byte string; in
    particular the put of `k` and the put of the longer key `k ‖ x` collide exactly when
    `ts_le ‖ value = x ‖ ts'_le ‖ value'`. -/
theorem put_framing_collision_iff (k k' : List Nat) (t t' : Nat) (v v' : List Nat) :
    entryBytes ⟨k, t, some v⟩ = entryBytes ⟨k', t', some v'⟩ ↔ k ++ le64 t ++ v = k' ++ le64 t' ++ v' := by
  rw [entryBytes_put, entryBytes_put, List.append_assoc, List.append_assoc]
  constructor
  · intro h; exact (List.cons_eq_cons.mp h).2
  · intro h; rw [h]

theorem put_framing_collision_family (k x : List Nat) (t t' : Nat) (v v' : List Nat) :
    entryBytes ⟨k, t, some v⟩ = entryBytes ⟨k ++ x, t', some v'⟩ ↔ le64 t ++ v = x ++ (le64 t' ++ v') := by
  rw [entryBytes_put, entryBytes_put, List.append_assoc]
  constructor
  · intro h; exact List.append_cancel_left (List.cons_eq_cons.mp h).2
  · intro h; rw [h]

/-- a concrete collision between two different entries, both of which a builder accepts, with
    `u64` timestamps and byte strings: `put("", 1, [0])` and `put([1], 0, "")` -/
theorem put_framing_not_injective :
    (⟨[], 1, some [0]⟩ : KV) ≠ ⟨[1], 0, some []⟩
    ∧ entryBytes ⟨[], 1, some [0]⟩ = entryBytes ⟨[1], 0, some []⟩
    ∧ (entryPieces ⟨[], 1, some [0]⟩).flatten = [8, 1, 0, 0, 0, 0, 0, 0, 0, 0] := by decide

/-! ## the builder's fold is the C14 setsum of the items -/
open Blue.Setsum in
theorem builderSetsum_eq_ofItems (hash : List Nat → Vector Nat 8) (es : List KV) :
    builderSetsum hash es = ofItems (es.map (entryWords hash)) := by
  unfold builderSetsum ofItems
  rw [List.foldl_map]

open Blue.Setsum in
theorem words_map {hash : List Nat → Vector Nat 8} (hW : ∀ bs, Words (hash bs)) (es : List KV) :
    ∀ w ∈ es.map (entryWords hash), Words w := by
  intro w hw
  obtain ⟨e, _, rfl⟩ := List.mem_map.mp hw
  exact hW _

open Blue.Setsum in
theorem builderSetsum_canonical {hash : List Nat → Vector Nat 8} (hW : ∀ bs, Words (hash bs)) (es : List KV) :
    Canonical (builderSetsum hash es) := by
  rw [builderSetsum_eq_ofItems]; exact canonical_ofItems (words_map hW es)

open Blue.Setsum in
/-- the accumulated value does not depend on the order of the `put` / `del` calls -/
theorem builderSetsum_perm {hash : List Nat → Vector Nat 8} (hW : ∀ bs, Words (hash bs)) {xs ys : List KV}
    (p : xs.Perm ys) : builderSetsum hash xs = builderSetsum hash ys := by
  rw [builderSetsum_eq_ofItems, builderSetsum_eq_ofItems]
  exact order_independent (p.map _) (words_map hW xs)

open Blue.Setsum in
/-- the fold is a monoid homomorphism from lists (under `++`) to the C14 group -/
theorem builderSetsum_append {hash : List Nat → Vector Nat 8} (hW : ∀ bs, Words (hash bs)) (xs ys : List KV) :
    builderSetsum hash (xs ++ ys) = add (builderSetsum hash xs) (builderSetsum hash ys) := by
  rw [builderSetsum_eq_ofItems, builderSetsum_eq_ofItems, builderSetsum_eq_ofItems, List.map_append]
  exact union_is_sum (words_map hW xs) (words_map hW ys)

open Blue.Setsum in
theorem entryItem_canonical {hash : List Nat → Vector Nat 8} (hW : ∀ bs, Words (hash bs)) (e : KV) :
    Canonical (entryItem hash e) := canonical_hash (hW _)

open Blue.Setsum in
theorem builderSetsum_single {hash : List Nat → Vector Nat 8} (hW : ∀ bs, Words (hash bs)) (e : KV) :
    builderSetsum hash [e] = entryItem hash e := by
  have h : builderSetsum hash [e] = add zero (entryItem hash e) := rfl
  rw [h, add_comm, add_zero (entryItem_canonical hW e)]

open Blue.Setsum in
/-- what the builder accumulates is `Σ_{e ∈ es} entryItem hash e` in the C14 group -/
theorem builderSetsum_eq_itemSum {hash : List Nat → Vector Nat 8} (hW : ∀ bs, Words (hash bs)) (es : List KV) :
    builderSetsum hash es = itemSum hash es := by
  induction es with
  | nil => rfl
  | cons e es ih =>
    have h : e :: es = [e] ++ es := rfl
    rw [h, builderSetsum_append hW, builderSetsum_single hW, ih]
    rfl

open Blue.Setsum in
theorem itemSum_canonical {hash : List Nat → Vector Nat 8} (hW : ∀ bs, Words (hash bs)) (es : List KV) :
    Canonical (itemSum hash es) := by
  rw [← builderSetsum_eq_itemSum hW]; exact builderSetsum_canonical hW es

open Blue.Setsum in
theorem itemSum_perm {hash : List Nat → Vector Nat 8} (hW : ∀ bs, Words (hash bs)) {xs ys : List KV}
    (p : xs.Perm ys) : itemSum hash xs = itemSum hash ys := by
  rw [← builderSetsum_eq_itemSum hW, ← builderSetsum_eq_itemSum hW]; exact builderSetsum_perm hW p

open Blue.Setsum in
theorem itemSum_append {hash : List Nat → Vector Nat 8} (hW : ∀ bs, Words (hash bs)) (xs ys : List KV) :
    itemSum hash (xs ++ ys) = add (itemSum hash xs) (itemSum hash ys) := by
  rw [← builderSetsum_eq_itemSum hW, ← builderSetsum_eq_itemSum hW, ← builderSetsum_eq_itemSum hW]
  exact builderSetsum_append hW xs ys

open Blue.Setsum in
/-- the published definition: column `i` is the sum of the entries' `i`-th hash words modulo the
    `i`-th prime (right-hand side: `List.sum` and `%`, nothing of the model's column arithmetic) -/
theorem itemSum_column {hash : List Nat → Vector Nat 8} (hW : ∀ bs, Words (hash bs)) (es : List KV)
    (i : Nat) (h : i < 8) :
    (itemSum hash es)[i] = ((es.map (entryWords hash)).map (fun w => w[i])).sum % primes[i] := by
  rw [← builderSetsum_eq_itemSum hW, builderSetsum_eq_ofItems]
  exact matches_definition _ (words_map hW es) i h

/-! ## the 32 bytes -/
theorem digest_length (s : Blue.Setsum.State) : (Blue.Setsum.digest s).length = 32 := by
  unfold Blue.Setsum.digest
  rw [Blue.Setsum.flatMap_colBytes_length, Vector.length_toList]

/-- `sealSetsum` is 32 bytes: the `hsetsum` hypothesis of the round-trip theorems -/
theorem seal_setsum_length (hash : List Nat → Vector Nat 8) (s : SB) :
    (sealSetsum hash s).length = 32 ∧ ∀ b ∈ sealSetsum hash s, b < 256 :=
  ⟨digest_length _, Blue.Setsum.digest_bytes _⟩

theorem sealSetsum_eq {hash : List Nat → Vector Nat 8} (hW : ∀ bs, Blue.Setsum.Words (hash bs)) (s : SB) :
    sealSetsum hash s = Blue.Setsum.digest (itemSum hash s.accepted) := by
  unfold sealSetsum; rw [builderSetsum_eq_itemSum hW]

/-- 32 bytes read as `hash_to_state` reads them are eight `u32` words -/
theorem wordsOfHashBytes_words (d : List Nat) (hd : ∀ b ∈ d, b < 256) : Blue.Setsum.Words (wordsOfHashBytes d) := by
  intro i h
  have hg : ∀ j, d.getD j 0 < 256 := by
    intro j
    rw [List.getD_eq_getElem?_getD]
    cases hj : d[j]? with
    | none => simp
    | some x => simp only [Option.getD_some]; exact hd x (List.mem_of_getElem? hj)
  unfold wordsOfHashBytes
  simp only [Vector.getElem_ofFn, Blue.Setsum.le32, Blue.Setsum.U32]
  have h0 := hg (4 * i); have h1 := hg (4 * i + 1); have h2 := hg (4 * i + 2); have h3 := hg (4 * i + 3)
  omega

/-- the toy hash of the closed instances yields `u32` words -/
theorem toyHash_words (bs : List Nat) : Blue.Setsum.Words (toyHash bs) := by
  intro i h
  unfold toyHash
  simp only [Vector.getElem_ofFn, Blue.Setsum.U32]
  exact Nat.mod_lt _ (by decide)

/-! ## the table -/
open Blue.Setsum in
/-- THE SETSUM CLAUSE: feed any attempts to `SstBuilder`, let `seal` write the filter block and
    the setsum it computes itself (`sealFilter`, `sealSetsum`: neither is a parameter), open the
    file image.  The table opens; `metadata()` returns, as its setsum, the digest of
    `Σ_{e ∈ accepted} entryItem hash e` (with first / last key and the rest as before); that group
    element is canonical and is what `Setsum::from_digest` reads back from the 32 bytes; any
    permutation of the accepted entries has the same digest; column by column it is the published
    definition; and `accepted` is the list of attempts answered `Ok` — a refused attempt adds
    nothing. -/
theorem metadata_setsum_is_sum_of_accepted (hash : List Nat → Vector Nat 8) (hW : ∀ bs, Words (hash bs))
    (h : List Nat → Nat) (o : SstOpts) (atts : List KV) (f : SstFile)
    (hseal : (SB.putAll o SB.init atts).2.seal o
        (Blue.Sbbf.sealFilter h o.bloomBits (SB.putAll o SB.init atts).2).toBytes
        (sealSetsum hash (SB.putAll o SB.init atts).2) = .ok f)
    (hts : ∀ e ∈ atts, e.ts ≤ U64MAX)
    (hsize : f.bytes.length < U64)
    (hbE : ∀ e ∈ atts, KVBytes e) :
    ∃ t, openSst crc32c f.bytes = .ok t
      ∧ t.metadata crc32c = .ok
          ⟨digest (itemSum hash (SB.putAll o SB.init atts).2.accepted),
           (match (SB.putAll o SB.init atts).2.accepted.head? with | some e => e.key | none => []),
           (match (SB.putAll o SB.init atts).2.accepted.getLast? with | some e => e.key | none => MAX_KEY),
           f.fin.smallest, f.fin.biggest, f.bytes.length⟩
      ∧ f.fin.setsum = digest (itemSum hash (SB.putAll o SB.init atts).2.accepted)
      ∧ Canonical (itemSum hash (SB.putAll o SB.init atts).2.accepted)
      ∧ fromDigest f.fin.setsum = some (itemSum hash (SB.putAll o SB.init atts).2.accepted)
      ∧ (∀ ys : List KV, ys.Perm (SB.putAll o SB.init atts).2.accepted → digest (itemSum hash ys) = f.fin.setsum)
      ∧ (∀ (i : Nat) (hi : i < 8), (itemSum hash (SB.putAll o SB.init atts).2.accepted)[i]
          = (((SB.putAll o SB.init atts).2.accepted.map (entryWords hash)).map (fun w => w[i])).sum % primes[i])
      ∧ (SB.putAll o SB.init atts).2.accepted = acceptedOfB (SB.putAll o SB.init atts).1 atts := by
  obtain ⟨hlen, hbytes⟩ := Blue.Sbbf.sealFilter_bytes h o.bloomBits (SB.putAll o SB.init atts).2
  obtain ⟨t, hopen, _, _, hmeta, _⟩ :=
    Blue.SstOpen.sst_file_roundtrip_limits o atts _ _ f hseal hts (seal_setsum_length hash _).1 hlen hsize hbE hbytes
  obtain ⟨_, _, _, _, _, hss, _⟩ := seal_ok hseal
  have heq := sealSetsum_eq hW (SB.putAll o SB.init atts).2
  have hcan := itemSum_canonical hW (SB.putAll o SB.init atts).2.accepted
  refine ⟨t, hopen, ?_, ?_, hcan, ?_, ?_, ?_, ?_⟩
  · rw [hmeta, heq]; rfl
  · rw [hss, heq]
  · rw [hss, heq]; exact fromDigest_digest hcan
  · intro ys p
    rw [hss, heq, itemSum_perm hW p]
  · intro i hi; exact itemSum_column hW _ i hi
  · exact (Blue.Sst.sst_builder_rejects o atts).2.1

/-! ## tables whose contents are a concatenation: what compaction conservation uses -/
open Blue.Setsum in
/-- the setsum of a table holding `xs ++ ys` is the sum of the setsums of tables holding `xs` and
    `ys`: stated on the 32-byte digests as they sit in the three final blocks
    (`Setsum::from_digest(dx) + Setsum::from_digest(dy)`, then `digest()`) -/
theorem setsum_of_concat_files {hash : List Nat → Vector Nat 8} (hW : ∀ bs, Words (hash bs))
    (s sx sy : SB) (hacc : s.accepted.Perm (sx.accepted ++ sy.accepted)) :
    ∃ a b, fromDigest (sealSetsum hash sx) = some a ∧ fromDigest (sealSetsum hash sy) = some b
      ∧ a = itemSum hash sx.accepted ∧ b = itemSum hash sy.accepted
      ∧ sealSetsum hash s = digest (add a b) := by
  refine ⟨_, _, ?_, ?_, rfl, rfl, ?_⟩
  · rw [sealSetsum_eq hW]; exact fromDigest_digest (itemSum_canonical hW _)
  · rw [sealSetsum_eq hW]; exact fromDigest_digest (itemSum_canonical hW _)
  · rw [sealSetsum_eq hW, itemSum_perm hW hacc, itemSum_append hW]

/-- the group sum of the setsums of several tables -/
def tablesSum (hash : List Nat → Vector Nat 8) (tables : List (List KV)) : Blue.Setsum.State :=
  tables.foldr (fun es acc => Blue.Setsum.add (itemSum hash es) acc) Blue.Setsum.zero

open Blue.Setsum in
theorem tablesSum_eq_flatten {hash : List Nat → Vector Nat 8} (hW : ∀ bs, Words (hash bs)) (tables : List (List KV)) :
    tablesSum hash tables = itemSum hash tables.flatten := by
  induction tables with
  | nil => rfl
  | cons es r ih =>
    rw [List.flatten_cons, itemSum_append hW, ← ih]
    rfl

/-- `Σ inputs = Σ outputs`: whenever the entries of the output tables are a permutation of the
    entries of the input tables (what C04 / C05 prove of a compaction: the pieces of any cut of the
    merged inputs), the sum of the output tables' setsums is the sum of the input tables' setsums -/
theorem compaction_setsum_conserved {hash : List Nat → Vector Nat 8} (hW : ∀ bs, Blue.Setsum.Words (hash bs))
    (ins outs : List (List KV)) (hp : outs.flatten.Perm ins.flatten) :
    tablesSum hash outs = tablesSum hash ins := by
  rw [tablesSum_eq_flatten hW, tablesSum_eq_flatten hW, itemSum_perm hW hp]

end Blue.SstSetsum
