import Blue.Model.LazyC
import Blue.Proofs.Lazy
import Blue.Proofs.Cur
namespace Blue.Cursor
variable {E : Type} {A : (E → Bool) → Prop}

def LPosC.map {σ τ : Type} (f : σ → τ) : LPosC σ → LPosC τ
  | .first => .first
  | .last => .last
  | .inst s => .inst (f s)

def LazyS.map {C D : Cur E} (h : Hom A C D) (l : LazyS C) : LazyS D := ⟨h.f l.fresh, l.pos.map h.f⟩

theorem settle_map {C D : Cur E} (h : Hom A C D) (l : LazyS C) (s : C.σ) (off : LPosC C.σ) :
    LazyS.map h (LazyC.settle C l s off) = LazyC.settle D (LazyS.map h l) (h.f s) (off.map h.f) := by
  unfold LazyC.settle
  rw [h.kv s]
  split <;> rfl

/-- the lazy cursor is natural in the cursor it opens -/
def LazyC.hom {C D : Cur E} (h : Hom A C D) : Hom A (LazyC.cur C) (LazyC.cur D) where
  f := LazyS.map h
  first := fun _ => rfl
  last := fun _ => rfl
  next := by
    intro l
    obtain ⟨fresh, pos⟩ := l
    cases pos with
    | first => simp only [LazyC.cur]; rw [settle_map, h.next, h.first]; rfl
    | last => rfl
    | inst s => simp only [LazyC.cur]; rw [settle_map, h.next]; rfl
  prev := by
    intro l
    obtain ⟨fresh, pos⟩ := l
    cases pos with
    | first => rfl
    | last => simp only [LazyC.cur]; rw [settle_map, h.prev, h.last]; rfl
    | inst s => simp only [LazyC.cur]; rw [settle_map, h.prev]; rfl
  seek := by
    intro p hp l
    obtain ⟨fresh, pos⟩ := l
    cases pos with
    | first => simp only [LazyC.cur]; rw [settle_map, h.seek p hp]; rfl
    | last => simp only [LazyC.cur]; rw [settle_map, h.seek p hp]; rfl
    | inst s => simp only [LazyC.cur]; rw [settle_map, h.seek p hp]; rfl
  kv := by
    intro l
    obtain ⟨fresh, pos⟩ := l
    cases pos with
    | first => rfl
    | last => rfl
    | inst s => exact h.kv s
  ok := by
    intro l
    obtain ⟨fresh, pos⟩ := l
    cases pos with
    | first => exact h.ok fresh
    | last => exact h.ok fresh
    | inst s => exact h.ok s

/-- cursors with the same behaviour give lazy cursors with the same behaviour -/
theorem lazy_subst {C D : Cur E} {c : C.σ} {d : D.σ} (h : BehEq A C c D d) :
    BehEq A (LazyC.cur C) ⟨c, .first⟩ (LazyC.cur D) ⟨d, .first⟩ := by
  have := behEq_lift (A := A) (ι := fun C => C.σ) (fun C => LazyC.cur C)
    (fun C c => (⟨c, .first⟩ : LazyS C)) (fun h => h.f) (fun h => LazyC.hom h)
    (fun h x => rfl) c d (behA_eq_of_behEq h)
  exact this

/-! ### the generic lazy cursor over a reference table is the lazy cursor of `Blue/Model/Lazy` -/

def toLazy (xs : List E) (l : LazyS (RefCur E)) : Lazy E :=
  ⟨xs, match l.pos with | .first => .first | .last => .last | .inst s => .inst s⟩

theorem toLazy_settle (xs : List E) (l : LazyS (RefCur E)) (s : Ref E) (off : LPosC (Ref E)) :
    toLazy xs (LazyC.settle (RefCur E) l s off)
      = Lazy.settle (toLazy xs l) s (match off with | .first => .first | .last => .last | .inst s => .inst s) := by
  unfold LazyC.settle Lazy.settle
  split <;> rfl

theorem settle_fresh (l : LazyS (RefCur E)) (s : Ref E) (off : LPosC (Ref E)) :
    (LazyC.settle (RefCur E) l s off).fresh = l.fresh := by
  unfold LazyC.settle; split <;> rfl

theorem toLazy_step (xs : List E) (l : LazyS (RefCur E)) (hf : l.fresh = ⟨xs, 0⟩) (op : Op E) :
    toLazy xs ((LazyC.cur (RefCur E)).step l op) = Lazy.step (toLazy xs l) op
    ∧ ((LazyC.cur (RefCur E)).step l op).fresh = ⟨xs, 0⟩ := by
  obtain ⟨fresh, pos⟩ := l
  simp only at hf
  subst hf
  cases op with
  | first => exact ⟨rfl, rfl⟩
  | last => exact ⟨rfl, rfl⟩
  | next =>
    cases pos with
    | first => exact ⟨toLazy_settle xs _ _ _, settle_fresh _ _ _⟩
    | last => exact ⟨rfl, rfl⟩
    | inst s => exact ⟨toLazy_settle xs _ _ _, settle_fresh _ _ _⟩
  | prev =>
    cases pos with
    | first => exact ⟨rfl, rfl⟩
    | last => exact ⟨toLazy_settle xs _ _ _, settle_fresh _ _ _⟩
    | inst s => exact ⟨toLazy_settle xs _ _ _, settle_fresh _ _ _⟩
  | seek p =>
    cases pos with
    | first => exact ⟨toLazy_settle xs _ _ _, settle_fresh _ _ _⟩
    | last => exact ⟨toLazy_settle xs _ _ _, settle_fresh _ _ _⟩
    | inst s => exact ⟨toLazy_settle xs _ _ _, settle_fresh _ _ _⟩

theorem toLazy_kv (xs : List E) (l : LazyS (RefCur E)) : (toLazy xs l).kv = (LazyC.cur (RefCur E)).kv l := by
  obtain ⟨fresh, pos⟩ := l
  cases pos <;> rfl

/-- the relation of `lazy_refines`, carried along a whole program -/
theorem lrel_runTo (xs : List E) : ∀ (ops : List (Op E)) (l : LazyS (RefCur E)) (p : Nat),
    l.fresh = ⟨xs, 0⟩ → LRel xs (toLazy xs l).pos p →
    ∃ q, LRel xs (toLazy xs ((LazyC.cur (RefCur E)).runTo l ops)).pos q
      ∧ (RefCur E).runTo ⟨xs, p⟩ ops = ⟨xs, q⟩ := by
  intro ops
  induction ops with
  | nil => intro l p _ h; exact ⟨p, h, rfl⟩
  | cons op ops ih =>
    intro l p hf h
    obtain ⟨h1, h2⟩ := toLazy_step xs l hf op
    obtain ⟨g1, g2, g3⟩ := lazy_step (xs := xs) (pos := (toLazy xs l).pos) h op
    have hstep : Lazy.step (toLazy xs l) op = Lazy.step ⟨xs, (toLazy xs l).pos⟩ op := rfl
    have hrel : LRel xs (toLazy xs ((LazyC.cur (RefCur E)).step l op)).pos ((Ref.mk xs p).step op).pos := by
      rw [h1, hstep]; exact g2
    obtain ⟨q, hq1, hq2⟩ := ih _ _ h2 hrel
    refine ⟨q, ?_, ?_⟩
    · simp only [Cur.runTo, List.foldl_cons] at hq1 ⊢; exact hq1
    · have e : (Ref.mk xs p).step op = ⟨xs, ((Ref.mk xs p).step op).pos⟩ := by
        cases hh : (Ref.mk xs p).step op with
        | mk a b => rw [hh] at g3; simp only at g3; subst g3; rfl
      simp only [Cur.runTo, List.foldl_cons] at hq2 ⊢
      have : (RefCur E).step ⟨xs, p⟩ op = (Ref.mk xs p).step op := by cases op <;> rfl
      rw [this, e]; exact hq2

/-- **C11 / C03** the lazy cursor over *any* child that behaves like the table `xs` behaves like a
    cursor over `xs` -/
theorem lazy_over (xs : List E) {C : Cur E} {c : C.σ} (hc : BehEq A C c (RefCur E) ⟨xs, 0⟩) :
    BehEq A (LazyC.cur C) ⟨c, .first⟩ (RefCur E) ⟨xs, 0⟩ := by
  refine (lazy_subst hc).trans ?_
  intro ops _
  obtain ⟨q, hq1, hq2⟩ := lrel_runTo xs ops ⟨⟨xs, 0⟩, .first⟩ 0 rfl LRel.first
  simp only [Cur.beh]
  rw [hq2]
  have hkv := lrel_kv hq1
  have hk2 := toLazy_kv xs ((LazyC.cur (RefCur E)).runTo ⟨⟨xs, 0⟩, .first⟩ ops)
  have e : toLazy xs ((LazyC.cur (RefCur E)).runTo ⟨⟨xs, 0⟩, .first⟩ ops)
      = ⟨xs, (toLazy xs ((LazyC.cur (RefCur E)).runTo ⟨⟨xs, 0⟩, .first⟩ ops)).pos⟩ := rfl
  rw [e, hkv] at hk2
  have hok : ∀ (l : LazyS (RefCur E)), (LazyC.cur (RefCur E)).ok l = true := by
    intro l; obtain ⟨f, pos⟩ := l; cases pos <;> rfl
  rw [← hk2]
  exact congrArg (Prod.mk _) (hok _)

end Blue.Cursor

#print axioms Blue.Cursor.lazy_over
