import Blue.Model.Lru
namespace Blue.Lru
variable {K V : Type} [DecidableEq K] (sz : V → Nat)

def total (l : List (K × V)) : Nat := (l.map (fun e => sz e.2)).sum

/-- no key twice; the accounted size is the sum of the entries' sizes -/
structure Inv (c : Cache K V) : Prop where
  nodup : (c.entries.map (·.1)).Nodup
  size_eq : c.size = total sz c.entries

theorem inv_new (cap : Nat) : Inv sz (new cap : Cache K V) := ⟨by simp [new], by simp [new, total]⟩

theorem find_none_iff (k : K) (l : List (K × V)) : find k l = none ↔ k ∉ l.map (·.1) := by
  induction l with
  | nil => simp [find]
  | cons e t ih =>
    obtain ⟨k', v'⟩ := e
    simp only [find, List.map_cons, List.mem_cons]
    by_cases h : k' = k
    · simp [h]
    · simp only [h, if_false, ih]
      constructor
      · intro hn hc; rcases hc with hc | hc
        · exact h hc.symm
        · exact hn hc
      · intro hn hc; exact hn (Or.inr hc)

theorem replaceVal_keys (k : K) (v : V) (l : List (K × V)) : (replaceVal k v l).map (·.1) = l.map (·.1) := by
  induction l with
  | nil => rfl
  | cons e t ih =>
    obtain ⟨k', v'⟩ := e
    simp only [replaceVal]
    split <;> simp [ih]

theorem replaceVal_total (k : K) (v old : V) (l : List (K × V)) (hn : (l.map (·.1)).Nodup)
    (hf : find k l = some old) :
    total sz (replaceVal k v l) + sz old = total sz l + sz v := by
  induction l with
  | nil => simp [find] at hf
  | cons e t ih =>
    obtain ⟨k', v'⟩ := e
    simp only [find] at hf
    simp only [replaceVal]
    by_cases h : k' = k
    · simp only [h, if_true] at hf ⊢
      cases hf
      simp only [total, List.map_cons, List.sum_cons]
      omega
    · simp only [h, if_false] at hf ⊢
      have := ih (List.nodup_cons.mp hn).2 hf
      simp only [total, List.map_cons, List.sum_cons] at this ⊢
      omega

theorem find_some_le (k : K) (old : V) (l : List (K × V)) (hf : find k l = some old) :
    sz old ≤ total sz l := by
  induction l with
  | nil => simp [find] at hf
  | cons e t ih =>
    obtain ⟨k', v'⟩ := e
    simp only [find] at hf
    simp only [total, List.map_cons, List.sum_cons]
    by_cases h : k' = k
    · simp only [h, if_true] at hf; cases hf; omega
    · simp only [h, if_false] at hf
      have := ih hf; simp only [total] at this; omega

theorem inv_insertHelper {c : Cache K V} (h : Inv sz c) (k : K) (v : V) : Inv sz (insertHelper sz c k v) := by
  unfold insertHelper
  cases hf : find k c.entries with
  | some old =>
    refine ⟨by simp only [replaceVal_keys]; exact h.nodup, ?_⟩
    have := replaceVal_total sz k v old c.entries h.nodup hf
    have hle := find_some_le sz k old c.entries hf
    simp only [h.size_eq]
    omega
  | none =>
    refine ⟨?_, ?_⟩
    · simp only [List.map_cons]
      exact List.nodup_cons.mpr ⟨(find_none_iff k c.entries).mp hf, h.nodup⟩
    · simp only [total, List.map_cons, List.sum_cons, h.size_eq]; omega

theorem total_dropLast (l : List (K × V)) (e : K × V) (h : l.getLast? = some e) :
    total sz l.dropLast + sz e.2 = total sz l := by
  have : l = l.dropLast ++ [e] := by
    have hne : l ≠ [] := by intro hn; rw [hn] at h; cases h
    have := List.dropLast_concat_getLast hne
    rw [List.getLast?_eq_some_getLast hne] at h
    cases h; exact this.symm
  conv => rhs; rw [this]
  simp [total]

theorem inv_removeLru {c : Cache K V} (h : Inv sz c) : Inv sz (removeLru sz c) := by
  unfold removeLru
  cases hl : c.entries.getLast? with
  | none => exact h
  | some e =>
    obtain ⟨k, v⟩ := e
    refine ⟨?_, ?_⟩
    · have : (c.entries.dropLast.map (·.1)).Sublist (c.entries.map (·.1)) :=
        (List.dropLast_sublist _).map _
      exact h.nodup.sublist this
    · have := total_dropLast sz c.entries (k, v) hl
      simp only [h.size_eq]
      simp only at this
      omega

theorem inv_evict : ∀ (f : Nat) {c : Cache K V}, Inv sz c → Inv sz (evict sz f c) := by
  intro f
  induction f with
  | zero => intro c h; exact h
  | succ f ih =>
    intro c h
    unfold evict
    split
    · exact ih (inv_removeLru sz h)
    · exact h

theorem removeLru_length (c : Cache K V) : (removeLru sz c).entries.length = c.entries.length - 1 := by
  unfold removeLru
  cases hl : c.entries.getLast? with
  | none =>
    have : c.entries = [] := List.getLast?_eq_none_iff.mp hl
    simp [this]
  | some e => simp

theorem removeLru_capacity (c : Cache K V) : (removeLru sz c).capacity = c.capacity := by
  unfold removeLru; split <;> rfl

/-- with enough fuel the eviction loop ends within capacity, or empty -/
theorem evict_post : ∀ (f : Nat) (c : Cache K V), c.entries.length < f →
    (evict sz f c).size ≤ (evict sz f c).capacity ∨ (evict sz f c).entries = [] := by
  intro f
  induction f with
  | zero => intro c h; omega
  | succ f ih =>
    intro c h
    unfold evict
    by_cases hc : (c.size > c.capacity && !c.entries.isEmpty) = true
    · rw [if_pos hc]
      simp only [Bool.and_eq_true, decide_eq_true_eq, Bool.not_eq_true', List.isEmpty_eq_false_iff] at hc
      have hpos : 0 < c.entries.length := List.length_pos_iff.mpr hc.2
      apply ih
      rw [removeLru_length]; omega
    · rw [if_neg hc]
      simp only [Bool.and_eq_true, decide_eq_true_eq, Bool.not_eq_true', not_and, List.isEmpty_eq_false_iff] at hc
      by_cases hs : c.size > c.capacity
      · right
        have := hc hs
        simpa using this
      · left; omega

theorem evict_capacity : ∀ (f : Nat) (c : Cache K V), (evict sz f c).capacity = c.capacity := by
  intro f
  induction f with
  | zero => intro c; rfl
  | succ f ih =>
    intro c
    unfold evict
    split
    · rw [ih, removeLru_capacity]
    · rfl

/-- **C18** every operation keeps the cache a map with correctly accounted size -/
theorem inv_insert {c : Cache K V} (h : Inv sz c) (k : K) (v : V) : Inv sz (insert sz c k v) :=
  inv_evict sz _ (inv_insertHelper sz h k v)

theorem inv_insertNoEvict {c : Cache K V} (h : Inv sz c) (k : K) (v : V) : Inv sz (insertNoEvict sz c k v) :=
  inv_insertHelper sz h k v

/-- **C18** an evicting insert leaves the cache within its capacity -/
theorem insert_within_capacity {c : Cache K V} (h : Inv sz c) (k : K) (v : V) :
    (insert sz c k v).size ≤ c.capacity := by
  unfold insert
  simp only
  have hi := inv_insertHelper sz h k v
  have hcap : (insertHelper sz c k v).capacity = c.capacity := by
    unfold insertHelper; split <;> rfl
  have := evict_post sz ((insertHelper sz c k v).entries.length + 1) (insertHelper sz c k v) (by omega)
  rw [evict_capacity, hcap] at this
  rcases this with h1 | h1
  · exact h1
  · have hinv := inv_evict sz ((insertHelper sz c k v).entries.length + 1) hi
    rw [hinv.size_eq, h1]; simp [total]

theorem total_filter_ne (k : K) (v : V) (l : List (K × V)) (hn : (l.map (·.1)).Nodup) (hf : find k l = some v) :
    total sz (l.filter (fun e => e.1 ≠ k)) + sz v = total sz l := by
  induction l with
  | nil => simp [find] at hf
  | cons e t ih =>
    obtain ⟨k', v'⟩ := e
    simp only [find] at hf
    have hnt := (List.nodup_cons.mp hn).2
    have hnotin := (List.nodup_cons.mp hn).1
    by_cases hk : k' = k
    · simp only [hk, if_true, Option.some.injEq] at hf
      subst hf
      have hkeep : t.filter (fun e => e.1 ≠ k) = t := by
        rw [List.filter_eq_self]
        intro e he
        simp only [ne_eq, decide_not, Bool.not_eq_true', decide_eq_false_iff_not]
        intro hek
        apply hnotin
        show k' ∈ t.map (·.1)
        rw [hk]
        exact List.mem_map.mpr ⟨e, he, hek⟩
      simp only [List.filter_cons, hk, ne_eq, not_true_eq_false, decide_false, Bool.false_eq_true, if_false, hkeep,
        total, List.map_cons, List.sum_cons]
      omega
    · simp only [hk, if_false] at hf
      have := ih hnt hf
      have hdec : decide ((k', v').1 ≠ k) = true := by simpa using hk
      simp only [List.filter_cons, hdec, if_true, total, List.map_cons, List.sum_cons] at this ⊢
      omega

theorem filter_keys_nodup (k : K) (l : List (K × V)) (hn : (l.map (·.1)).Nodup) :
    ((l.filter (fun e => e.1 ≠ k)).map (·.1)).Nodup :=
  hn.sublist ((List.filter_sublist).map _)

theorem not_mem_filter_keys (k : K) (l : List (K × V)) : k ∉ (l.filter (fun e => e.1 ≠ k)).map (·.1) := by
  intro h
  obtain ⟨e, he, hek⟩ := List.mem_map.mp h
  have := (List.mem_filter.mp he).2
  simp at this
  exact this hek

/-- **C18** `lookup` keeps the map a map with correctly accounted size (the entry moves to the front) -/
theorem inv_lookup {c : Cache K V} (h : Inv sz c) (k : K) : Inv sz (lookup c k).2 := by
  unfold lookup
  cases hf : find k c.entries with
  | none => exact h
  | some v =>
    simp only
    refine ⟨?_, ?_⟩
    · simp only [List.map_cons]
      exact List.nodup_cons.mpr ⟨not_mem_filter_keys k c.entries, filter_keys_nodup k c.entries h.nodup⟩
    · have := total_filter_ne sz k v c.entries h.nodup hf
      simp only [total, List.map_cons, List.sum_cons] at this ⊢
      rw [h.size_eq]; simp only [total]; omega

theorem find_of_mem (k : K) (v : V) : ∀ (l : List (K × V)), (l.map (·.1)).Nodup → (k, v) ∈ l → find k l = some v := by
  intro l
  induction l with
  | nil => intro _ h; cases h
  | cons e t ih =>
    intro hn h
    obtain ⟨k', v'⟩ := e
    simp only [find]
    simp only [List.mem_cons] at h
    by_cases hk : k' = k
    · simp only [hk, if_true]
      rcases h with h | h
      · cases h; rfl
      · exfalso
        have := (List.nodup_cons.mp hn).1
        apply this
        show k' ∈ t.map (·.1)
        rw [hk]; exact List.mem_map.mpr ⟨(k, v), h, rfl⟩
    · simp only [hk, if_false]
      rcases h with h | h
      · cases h; exact absurd rfl hk
      · exact ih (List.nodup_cons.mp hn).2 h

/-- **C18** a stored value is what `lookup` returns -/
theorem lookup_hit (c : Cache K V) (k : K) (v : V) (h : (k, v) ∈ c.entries) (hn : (c.entries.map (·.1)).Nodup) :
    (lookup c k).1 = some v := by
  unfold lookup
  rw [find_of_mem k v c.entries hn h]

theorem inv_remove {c : Cache K V} (h : Inv sz c) (k : K) : Inv sz (remove sz c k) := by
  unfold remove
  cases hf : find k c.entries with
  | none => exact h
  | some v =>
    simp only
    refine ⟨filter_keys_nodup k c.entries h.nodup, ?_⟩
    have := total_filter_ne sz k v c.entries h.nodup hf
    dsimp only
    rw [h.size_eq]; omega

theorem inv_pop {c : Cache K V} (h : Inv sz c) : Inv sz (pop sz c).2 := by
  unfold pop
  cases hl : c.entries.getLast? with
  | none => exact h
  | some e => exact inv_removeLru sz h

end Blue.Lru

#print axioms Blue.Lru.inv_lookup
#print axioms Blue.Lru.inv_remove
#print axioms Blue.Lru.inv_insert
#print axioms Blue.Lru.insert_within_capacity
