import Blue.Model.TupleKey1T
import Blue.Proofs.TupleString
/-! **C16** field-numbered format, the typed layer: descending integers, the exact shape of the
    descending-string defect D-20 (`ContTie`), tagged fields and whole tuples. -/
namespace Blue.TupleKey1
open Blue.TupleKey2 (blt Strong blt_cons_lt blt_cons_same digits digits_strong digits_strong_anti
  blt_append_left blt_irrefl slt strong_pair extension_after)

/-! ### descending integers -/

/-- **C16** `u64` elements, descending -/
theorem encU64_rev_strong :
    Strong (fun v => reverse (encU64 v)) (fun a b => b < a ∧ a < 18446744073709551616) := by
  intro a b ⟨hab, ha⟩ x y
  simp only
  rw [encU64_digits a ha, encU64_digits b (by omega)]
  unfold reverse
  rw [List.map_append, List.map_append]
  have r1 := reverse_cont (digits 128 (a / 2) 9) (digits_lt 128 (by omega) _ 9)
  have r2 := reverse_cont (digits 128 (b / 2) 9) (digits_lt 128 (by omega) _ 9)
  unfold reverse at r1 r2
  rw [r1, r2]
  simp only [List.append_assoc]
  have ha2 : a / 2 < 128 ^ 9 := by simp only [Nat.reducePow]; omega
  have hb2 : b / 2 < 128 ^ 9 := by simp only [Nat.reducePow]; omega
  rcases Nat.lt_or_ge (b / 2) (a / 2) with h | h
  · apply digits_strong_anti 128 (by omega) rcont rcont_anti
    rw [Nat.mod_eq_of_lt ha2, Nat.mod_eq_of_lt hb2]; exact h
  · have heq : a / 2 = b / 2 := by omega
    rw [heq, blt_append_left]
    simp only [List.map_cons, List.map_nil, List.cons_append, List.nil_append, revByte]
    exact blt_cons_lt (by omega) _ _

/-- **C16** `i32` elements, descending -/
theorem encI32_rev_strong :
    Strong (fun v => reverse (encI32 v)) (fun a b => b < a ∧ -2147483648 ≤ b ∧ a < 2147483648) := by
  intro a b ⟨hab, hb, ha⟩ x y
  unfold encI32
  apply encU32_rev_strong
  unfold offsetI32
  omega

/-- **C16** `i64` elements, descending -/
theorem encI64_rev_strong :
    Strong (fun v => reverse (encI64 v))
      (fun a b => b < a ∧ -9223372036854775808 ≤ b ∧ a < 9223372036854775808) := by
  intro a b ⟨hab, hb, ha⟩ x y
  unfold encI64
  apply encU64_rev_strong
  unfold offsetI64
  omega

/-! ### where a comparison is decided; D-20 exactly -/

/-- the two byte strings first differ in a byte whose seven data bits differ (`x` smaller) -/
def DataLt (x y : List Nat) : Prop :=
  ∃ p a b x' y', x = p ++ a :: x' ∧ y = p ++ b :: y' ∧ a / 2 < b / 2

/-- the two byte strings first differ in the continuation bit only: `x` ends an element there
    (low bit clear) where `y` goes on (low bit set) with the same seven data bits -/
def ContTie (x y : List Nat) : Prop :=
  ∃ p a x' y', x = p ++ (2 * a) :: x' ∧ y = p ++ (2 * a + 1) :: y'

theorem contTieB_cons_same (a : Nat) (x y : List Nat) : contTieB (a :: x) (a :: y) = contTieB x y := by
  rw [contTieB, if_pos rfl]

/-- `ContTie` is decidable: it is what `contTieB` (run by the driver on every pair) computes -/
theorem contTie_iff (x y : List Nat) : ContTie x y ↔ contTieB x y = true := by
  constructor
  · rintro ⟨p, a, x', y', rfl, rfl⟩
    induction p with
    | nil =>
      simp only [List.nil_append, contTieB]
      rw [if_neg (by omega)]
      simp
    | cons c p ih => simpa only [List.cons_append, contTieB_cons_same] using ih
  · intro h
    induction x generalizing y with
    | nil => simp [contTieB] at h
    | cons a x ih =>
      cases y with
      | nil => simp [contTieB] at h
      | cons b y =>
        by_cases hab : a = b
        · subst hab
          rw [contTieB_cons_same] at h
          obtain ⟨p, c, x', y', hx, hy⟩ := ih y h
          exact ⟨a :: p, c, x', y', by rw [hx]; rfl, by rw [hy]; rfl⟩
        · rw [contTieB, if_neg hab] at h
          simp only [Bool.and_eq_true, decide_eq_true_eq] at h
          refine ⟨[], a / 2, x, y, ?_, ?_⟩
          · simp only [List.nil_append]; congr 1; omega
          · simp only [List.nil_append]; congr 1; omega

instance (x y : List Nat) : Decidable (ContTie x y) := decidable_of_iff _ (contTie_iff x y).symm

/-- an order that is decided inside the two encodings is decided at a first differing byte -/
theorem first_diff : ∀ (u v : List Nat), (∀ x y, blt (u ++ x) (v ++ y) = true) →
    ∃ p a b u' v', u = p ++ a :: u' ∧ v = p ++ b :: v' ∧ a < b
  | [], v, h => by
    have := h (v ++ []) []
    simp only [List.nil_append, List.append_nil, blt_irrefl] at this
    cases this
  | a :: u, [], h => by
    have := h [] []
    simp [blt] at this
  | a :: u, b :: v, h => by
    rcases Nat.lt_trichotomy a b with hlt | heq | hgt
    · exact ⟨[], a, b, u, v, rfl, rfl, hlt⟩
    · subst heq
      have h' : ∀ x y, blt (u ++ x) (v ++ y) = true := by
        intro x y
        have := h x y
        simpa only [List.cons_append, blt_cons_same] using this
      obtain ⟨p, c, d, u', v', hu, hv, hcd⟩ := first_diff u v h'
      exact ⟨a :: p, c, d, u', v', by rw [hu]; rfl, by rw [hv]; rfl, hcd⟩
    · have := h [] []
      have hnot : ¬ a < b := by omega
      simp [blt, hnot, hgt] at this

/-- a strongly ordered pair of encodings first differs either in data bits or in the
    continuation bit alone -/
theorem strong_dichotomy {α : Type} {enc : α → List Nat} {lt : α → α → Prop} (h : Strong enc lt)
    {a b : α} (hab : lt a b) : DataLt (enc a) (enc b) ∨ ContTie (enc a) (enc b) := by
  obtain ⟨p, c, d, u', v', hu, hv, hcd⟩ := first_diff (enc a) (enc b) (h a b hab)
  by_cases hd : c / 2 < d / 2
  · exact Or.inl ⟨p, c, d, u', v', hu, hv, hd⟩
  · refine Or.inr ⟨p, c / 2, u', v', ?_, ?_⟩
    · rw [hu]; congr 2; omega
    · rw [hv]; congr 2; omega

theorem reverse_append (x y : List Nat) : reverse (x ++ y) = reverse x ++ reverse y := by
  unfold reverse; exact List.map_append

/-- inverting the data bits reverses a comparison that is decided in data bits … -/
theorem reverse_dataLt {x y : List Nat} (h : DataLt x y) (hy : ∀ b ∈ y, b < 256) (s t : List Nat) :
    blt (reverse y ++ s) (reverse x ++ t) = true := by
  obtain ⟨p, a, b, x', y', hx, hy', hab⟩ := h
  have hb : b < 256 := hy b (by rw [hy']; simp)
  rw [hx, hy', reverse_append, reverse_append, List.append_assoc, List.append_assoc, blt_append_left]
  simp only [reverse, List.map_cons, List.cons_append]
  apply blt_cons_lt
  unfold revByte
  omega

/-- … and keeps one that is decided in the continuation bit: **D-20** for every such pair -/
theorem reverse_contTie {x y : List Nat} (h : ContTie x y) (hy : ∀ b ∈ y, b < 256) (s t : List Nat) :
    blt (reverse x ++ s) (reverse y ++ t) = true := by
  obtain ⟨p, a, x', y', hx, hy'⟩ := h
  have hb : 2 * a + 1 < 256 := hy _ (by rw [hy']; simp)
  rw [hx, hy', reverse_append, reverse_append, List.append_assoc, List.append_assoc, blt_append_left]
  simp only [reverse, List.map_cons, List.cons_append]
  apply blt_cons_lt
  unfold revByte
  omega

/-! ### bytes of the string encoding -/

theorem chunks_lt : ∀ (f : Nat) (bl : List Nat), Bits bl → ∀ b ∈ chunks f bl, b < 256
  | 0, _, _ => by intro b hb; simp [chunks] at hb
  | f + 1, bl, hbl => by
    intro b hb
    rw [chunks_succ] at hb
    split at hb
    · simp only [List.mem_cons] at hb
      rcases hb with rfl | hb
      · have := val7_lt 7 (bl.take 7) (fun b hb => hbl b (List.mem_of_mem_take hb))
        omega
      · exact chunks_lt f (bl.drop 7) (fun b hb => hbl b (List.mem_of_mem_drop hb)) b hb
    · split at hb
      · simp only [List.mem_cons, List.not_mem_nil, or_false] at hb
        subst hb
        have := val7_lt 7 bl hbl
        omega
      · simp at hb

theorem encString_lt (s : List Nat) : ∀ b ∈ encString s, b < 256 := by
  intro b hb
  by_cases hne : s = []
  · subst hne
    have h0 : encString [] = [0] := by decide
    rw [h0] at hb
    simp only [List.mem_cons, List.not_mem_nil, or_false] at hb
    omega
  · rw [encString_nonempty s hne] at hb
    exact chunks_lt _ _ (bits_Bits s) b hb

/-- **C16 / D-20, positive half** descending strings do sort in reverse whenever their forward
    encodings first differ in a data bit.  `_partial`: the full statement (`Strong` for every pair
    `t < s`) is false (`string_desc_counterexample`); what is excluded is exactly `ContTie`. -/
theorem string_desc_partial :
    Strong (fun s => reverse (encString s))
      (fun s t => blt t s = true ∧ Bytes s ∧ Bytes t ∧ ¬ ContTie (encString t) (encString s)) := by
  intro s t ⟨hlt, hs, ht, hnt⟩ x y
  rcases strong_dichotomy encString_strong (a := t) (b := s) ⟨hlt, ht, hs⟩ with h | h
  · exact reverse_dataLt h (encString_lt s) x y
  · exact absurd h hnt

/-- **C16 / D-20, negative half** every pair of strings whose forward encodings first differ in
    the continuation bit keeps its ASCENDING order under `Direction::Reverse` -/
theorem string_desc_tie_ascending (s t : List Nat) (h : ContTie (encString s) (encString t)) (x y : List Nat) :
    blt (reverse (encString s) ++ x) (reverse (encString t) ++ y) = true :=
  reverse_contTie h (encString_lt t) x y

/-- `""` against `"\0"` is such a pair -/
theorem contTie_empty_zero : ContTie (encString []) (encString [0]) :=
  ⟨[], 0, [], [0], by decide, by decide⟩

/-! ### tagged fields and tuples -/

/-- a value lies in the range of its Rust type (strings: bytes) -/
def Val.InRange : Val → Prop
  | .unit => True
  | .u32 n => n < 4294967296
  | .u64 n => n < 18446744073709551616
  | .i32 z => -2147483648 ≤ z ∧ z < 2147483648
  | .i64 z => -9223372036854775808 ≤ z ∧ z < 9223372036854775808
  | .str s => Bytes s

/-- `Ord` on two values of the same element type (`False` across types and on units) -/
def Val.lt : Val → Val → Prop
  | .u32 a, .u32 b => a < b
  | .u64 a, .u64 b => a < b
  | .i32 a, .i32 b => a < b
  | .i64 a, .i64 b => a < b
  | .str a, .str b => blt a b = true
  | _, _ => False

/-- the pair is not an instance of D-20's trigger -/
def NoTie : Val → Val → Prop
  | .str s, .str t => ¬ ContTie (encString s) (encString t)
  | _, _ => True

/-- the order a field of direction `d` is meant to have; for descending strings minus the
    pairs of D-20 -/
def fieldLt : Dir → Val → Val → Prop
  | .fwd, a, b => Val.lt a b
  | .rev, a, b => Val.lt b a ∧ NoTie b a

theorem encField_strong (f : Nat) (d : Dir) :
    Strong (encField f d) (fun a b => a.InRange ∧ b.InRange ∧ fieldLt d a b) := by
  intro a b ⟨ha, hb, hlt⟩ x y
  cases d with
  | fwd =>
    cases a <;> cases b <;> simp only [fieldLt, Val.lt] at hlt <;>
      simp only [encField, Val.ty, encDir, encElem, List.append_assoc, blt_append_left]
    · exact encU32_strong _ _ ⟨hlt, hb⟩ x y
    · exact encU64_strong _ _ ⟨hlt, hb⟩ x y
    · exact encI32_strong _ _ ⟨hlt, ha.1, hb.2⟩ x y
    · exact encI64_strong _ _ ⟨hlt, ha.1, hb.2⟩ x y
    · exact encString_strong _ _ ⟨hlt, ha, hb⟩ x y
  | rev =>
    cases a <;> cases b <;> simp only [fieldLt, Val.lt, false_and] at hlt <;>
      simp only [encField, Val.ty, encDir, encElem, List.append_assoc, blt_append_left]
    · exact encU32_rev_strong _ _ ⟨hlt.1, ha⟩ x y
    · exact encU64_rev_strong _ _ ⟨hlt.1, ha⟩ x y
    · exact encI32_rev_strong _ _ ⟨hlt.1, hb.1, ha.2⟩ x y
    · exact encI64_rev_strong _ _ ⟨hlt.1, hb.1, ha.2⟩ x y
    · exact string_desc_partial _ _ ⟨hlt.1, ha, hb, hlt.2⟩ x y

/-- every element of the tuple is in range -/
def TupleInRange (t : List (Nat × Dir × Val)) : Prop := ∀ e ∈ t, e.2.2.InRange

/-- element-by-element order of two tuples with the same field numbers and directions -/
def tupleLt : List (Nat × Dir × Val) → List (Nat × Dir × Val) → Prop
  | (f, d, a) :: as, (f', d', b) :: bs => f = f' ∧ d = d' ∧ (fieldLt d a b ∨ (a = b ∧ tupleLt as bs))
  | _, _ => False

/-- **C16** tuples, field-numbered format: the comparison of two tuples is decided inside their
    encodings, whatever follows -/
theorem encTuple_strong :
    Strong encTuple (fun a b => TupleInRange a ∧ TupleInRange b ∧ tupleLt a b) := by
  intro a
  induction a with
  | nil => intro b ⟨_, _, h⟩; cases b <;> simp [tupleLt] at h
  | cons ea as ih =>
    intro b ⟨ha, hb, hlt⟩ x y
    obtain ⟨f, d, va⟩ := ea
    cases b with
    | nil => simp [tupleLt] at hlt
    | cons eb bs =>
      obtain ⟨f', d', vb⟩ := eb
      simp only [tupleLt] at hlt
      obtain ⟨rfl, rfl, hlt⟩ := hlt
      simp only [encTuple, List.append_assoc]
      have hva : va.InRange := ha (f, d, va) (by simp)
      have hvb : vb.InRange := hb (f, d, vb) (by simp)
      rcases hlt with h | ⟨rfl, h⟩
      · exact encField_strong f d va vb ⟨hva, hvb, h⟩ _ _
      · rw [blt_append_left]
        exact ih bs ⟨fun e he => ha e (List.mem_cons_of_mem _ he),
          fun e he => hb e (List.mem_cons_of_mem _ he), h⟩ x y

theorem encTuple_append (s t : List (Nat × Dir × Val)) : encTuple (s ++ t) = encTuple s ++ encTuple t := by
  induction s with
  | nil => rfl
  | cons e s ih => obtain ⟨f, d, v⟩ := e; simp only [List.cons_append, encTuple, ih, List.append_assoc]

theorem varint_ne_nil (fuel x : Nat) : varint (fuel + 1) x ≠ [] := by
  rw [varint]; split <;> simp

theorem encField_ne_nil (f : Nat) (d : Dir) (v : Val) : encField f d v ≠ [] := by
  unfold encField tag
  intro h
  have := List.append_eq_nil_iff.mp h
  exact varint_ne_nil 9 _ (List.map_eq_nil_iff.mp this.1)

/-- **C16** prefix contiguity, first half: a tuple sorts before each of its extensions -/
theorem tuple_extension_after (t e : List (Nat × Dir × Val)) (he : e ≠ []) :
    blt (encTuple t) (encTuple (t ++ e)) = true := by
  rw [encTuple_append]
  apply extension_after
  cases e with
  | nil => exact absurd rfl he
  | cons x xs =>
    obtain ⟨f, d, v⟩ := x
    simp only [encTuple]
    intro h
    exact encField_ne_nil f d v (List.append_eq_nil_iff.mp h).1

/-- **C16** prefix contiguity, second half: every extension of `t` sorts before every tuple (and
    every extension of a tuple) that sorts after `t` -/
theorem tuple_extension_before (t t' e e' : List (Nat × Dir × Val))
    (ht : TupleInRange t) (ht' : TupleInRange t') (h : tupleLt t t') :
    blt (encTuple (t ++ e)) (encTuple (t' ++ e')) = true := by
  rw [encTuple_append, encTuple_append]
  exact encTuple_strong t t' ⟨ht, ht', h⟩ _ _

end Blue.TupleKey1
