import Blue.Proofs.BvSparse
/-! Non-vacuity of the sparse bit vector theorems: small `branch = 4` vectors with one, two and
    three levels (a single leaf; 5 indices = two leaves under a root with one divider; 16 = four
    full leaves; 17 = five leaves, so the second internal node of level 2 has a single child and
    an EMPTY divider slice, base `u64::MAX`; 21 = six leaves), evaluated by the kernel, and what
    `from_indices` does with an index equal to `len`. -/
namespace Blue.BvSparse.Examples
open Blue.BvSparse

/-- every third position, shifted on odd ranks: 0, 4, 6, 10, 12, … -/
def pattern (n : Nat) : List Nat := (List.range n).map (fun i => i * 3 + (i % 2))

def bitsOf (len n : Nat) : List Bool := charList len (pattern n)

/-- all of `access_rank`, `access`, `rank`, `select`, `rank0`, `select0` agree with the plain bit
    array, on every argument up to two past the length -/
def agrees (branch : Nat) (bits : List Bool) : Bool :=
  match build branch bits.length (indicesOf bits) with
  | none => false
  | some t =>
    (List.range (bits.length + 3)).all (fun x =>
      accessRank t x == (if x ≤ bits.length then some (bits.getD x false, (bits.take x).count true) else none)
      && access t x == Blue.BitVec.access bits x
      && rank t x == Blue.BitVec.rank bits x
      && select t x == Blue.BitVec.select bits x
      && rank0 t x == Blue.BitVec.rank0 bits x
      && select0 t x == Blue.BitVec.select0 bits x)

def shape (branch len : Nat) (indices : List Nat) : Option (Nat × List Nat) :=
  (build branch len indices).map (fun t => (t.levels, t.skipFactors))

example : indicesOf (bitsOf 70 21) = pattern 21 := by decide
example : shape 4 10 [] = some (0, []) := by decide
example : shape 4 10 (pattern 3) = some (1, []) := by decide
example : shape 4 20 (pattern 5) = some (2, [4]) := by decide
example : shape 4 50 (pattern 16) = some (2, [4]) := by decide
example : shape 4 60 (pattern 17) = some (3, [16, 4]) := by decide
example : shape 4 70 (pattern 21) = some (3, [16, 4]) := by decide

/-- where `from_indices` returns `None` -/
example : (build 3 40 [1]).isSome = false := by decide
example : (build 256 40 [1]).isSome = false := by decide
example : (build 4 40 [4, 4]).isSome = false := by decide
example : (build 4 40 [5, 4]).isSome = false := by decide
example : (build 4 3 [1, 4]).isSome = false := by decide
example : (build 4 4 [1, 4]).isSome = true := by decide

example : agrees 4 (bitsOf 10 0) = true := by decide
example : agrees 4 (bitsOf 10 3) = true := by decide
example : agrees 4 (bitsOf 20 5) = true := by decide
example : agrees 4 (bitsOf 50 16) = true := by decide
example : agrees 4 (bitsOf 60 17) = true := by decide
example : agrees 4 (bitsOf 70 21) = true := by decide
example : agrees 5 (bitsOf 80 26) = true := by decide

/-- the hypotheses of the headline theorems hold for these inputs -/
example : Admissible 4 70 (pattern 21) :=
  ⟨by decide, by decide, by decide, by decide, by decide⟩

/-- the 17-index tree: the root has two children; its second child is the node with a single
    child, whose divider slice is the empty slice with base `u64::MAX` -/
example : (match build 4 60 (pattern 17) with
    | some ⟨_, _, some (.node d _ (some (.node d2 _ ps2) :: _)), _, _⟩ =>
        some (d, d2, ps2.map Option.isSome)
    | _ => none)
    = some (⟨46, [0, 0]⟩, ⟨u64Max, [0, 0]⟩, [false, false, false]) := by decide

/-! ### an index equal to `len`

`from_indices` rejects `len < last index` only, so it accepts an index equal to `len`.  The vector
then is not a bit array of length `len`: `select` of the number of indices returns `len + 1`, a
position at which `rank` is undefined.  No caller in the crate passes such an index. -/
example : (build 4 1 [1]).map (fun t => (len t, select t 1, rank t 2)) = some (1, some 2, none) := by decide
example : (build 4 1 [1]).map (fun t => (rank t 1, accessRank t 1)) = some (some 0, some (true, 0)) := by decide

end Blue.BvSparse.Examples
