import Blue.Proofs.LogFrameDamage
import Blue.Proofs.LogFragment
/-! **C09 (log)**: damage of ANY shape to ANY set of bytes of a builder-written log — a region that
spans a header and its payload, several frames, several appends, padding; several disjoint regions.

The damaged image `d` has the length of the pristine log and is otherwise arbitrary.  Nothing is
assumed about WHERE it differs: the hypotheses are stated per frame of the pristine log, on what the
damaged file shows at that frame's offset, and hold trivially for a frame no damage touches.

* `FrameNoCollision P d s disc p` — the CRC hypothesis, `NoCollisionAt` style: IF the damaged file
  still shows at `s` a header (non-zero header-length byte `≤ H`, decodable, size within the table
  limit) whose payload bytes lie inside the file and have the CRC the header records, THEN these are
  the original payload bytes at the original extent.
* `DiscKept` — the discriminant is outside every checksum: the header shown at the first frame of an
  append has the original discriminant or one that is neither `WHOLE` nor `FIRST`
  (`disc_outside_checksum`; the single flips are `log_disc_flip_table`).
* `NoFrameAt` — leading padding whose first byte became a header length does not spell a frame that
  passes its CRC (`padding_injection`).
* `ZeroedFrameInPadWindow P d s` — the exact class of finding D-29: the header-length byte at the
  frame offset `s` is zero, the block boundary is at most `H` bytes behind it and every byte up to
  the boundary is zero (one or more whole frames inside the padding window zeroed).

`append_step`: under these, `nextBatch` at the start of an append is an error or exactly the
original batch ending at the original offset.  `untouched_step`, `frameHyp_of_untouched`: an append /
a frame whose bytes are intact needs no hypothesis.  `multi_core`: induction over the appends.
`log_damage_anywhere` → `log_damage_any_region` (1), `log_damage_several_regions` (2),
`log_damage_outside_d29_never_silent` (4).  One discriminant flipped (3): `no_second_after`,
`log_whole_not_whole_detected`, `log_whole_to_first_detected`, `log_disc_flip_table`.
`disc_fusion_example`: `DiscKept` cannot be dropped (two discriminant bytes fuse two batches).
`logCheck`: the hypotheses decided on closed instances. -/
namespace Blue.Log
open Blue.Damage
variable {P : Params}

/-- **the class of finding D-29**: at the offset `s` (of a frame of the pristine log) the damaged
    file has a zero, the next block boundary is at most `H` bytes after it and all bytes up to that
    boundary are zero — the reader's `true_up` takes the frame(s) for padding -/
def ZeroedFrameInPadWindow (P : Params) (d : List Nat) (s : Nat) : Prop :=
  d[s]? = some 0 ∧ trueUp P (s + 1) - (s + 1) ≤ P.H ∧ padZero d (s + 1) (trueUp P (s + 1)) = true

instance (P : Params) (d : List Nat) (s : Nat) : Decidable (ZeroedFrameInPadWindow P d s) := by
  unfold ZeroedFrameInPadWindow; exact inferInstance

/-- **CRC hypothesis of one frame** `(s, disc, p)` of the pristine log (fuel 1 = the header read
    without skipping padding) -/
def FrameNoCollision (P : Params) (d : List Nat) (s disc : Nat) (p : List Nat) : Prop :=
  ∀ h' o', nextHeader P d 1 s = .ok (h', o') → o' + h'.size ≤ d.length →
    P.crc (slice d o' h'.size) = h'.crc →
    slice d o' h'.size = p ∧ o' + h'.size = s + (frame P disc p).length

/-- the discriminant shown at a `WHOLE` / `FIRST` frame is the original one, or neither of the two -/
def DiscKept (P : Params) (d : List Nat) (s disc : Nat) : Prop :=
  disc ≠ SECOND → ∀ h' o', nextHeader P d 1 s = .ok (h', o') →
    h'.disc = disc ∨ (h'.disc ≠ WHOLE ∧ h'.disc ≠ FIRST)

/-- no frame passing its CRC is shown at `pos` -/
def NoFrameAt (P : Params) (d : List Nat) (pos : Nat) : Prop :=
  ∀ h' o', nextHeader P d 1 pos = .ok (h', o') → o' + h'.size ≤ d.length →
    P.crc (slice d o' h'.size) ≠ h'.crc

/-- the hypotheses of one append that starts at `pos`, except the exclusion of D-29 -/
structure AppendHyp (P : Params) (d : List Nat) (pos : Nat) (b : List Nat) : Prop where
  nc : ∀ s disc p, (s, disc, p) ∈ framesOf P 2 pos b → FrameNoCollision P d s disc p
  dc : ∀ s disc p, (s, disc, p) ∈ framesOf P 2 pos b → DiscKept P d s disc
  pad : ∀ x, (framesOf P 2 pos b).head? = some x → pos < x.1 → NoFrameAt P d pos

/-! ### the header read at one offset -/

theorem nextHeader_fuel_nonzero (d : List Nat) (f f' off y : Nat) (hx : d[off]? = some y) (hy : y ≠ 0) :
    nextHeader P d (f + 1) off = nextHeader P d (f' + 1) off := by
  rw [nextHeader_succ, nextHeader_succ, hx]
  simp only
  rw [if_neg hy, if_neg hy]

theorem nextHeader_one_zero (d : List Nat) (off : Nat) (hx : d[off]? = some 0) :
    nextHeader P d 1 off = .err := by
  rw [show (1 : Nat) = 0 + 1 from rfl, nextHeader_succ, hx]
  simp only
  rw [if_pos trivial]
  by_cases h1 : trueUp P (off + 1) - (off + 1) > P.H
  · rw [if_pos h1]
  · rw [if_neg h1]
    by_cases h2 : (!padZero d (off + 1) (trueUp P (off + 1))) = true
    · rw [if_pos h2]
    · rw [if_neg h2]; rfl

theorem nextFrame_crc_mismatch (d : List Nat) (fuel off : Nat) (h : Hdr) (o : Nat)
    (hh : nextHeader P d fuel off = .ok (h, o)) (hc : P.crc (slice d o h.size) ≠ h.crc) :
    nextFrame P d fuel off = .err := by
  unfold nextFrame
  rw [hh]
  simp only
  by_cases hl : o + h.size > d.length
  · rw [if_pos hl]
  · rw [if_neg hl, if_pos hc]

/-- the frame shown at a frame offset: rejected, or the original payload and extent -/
theorem frame1_cases (d : List Nat) (s disc : Nat) (p : List Nat) (hs : s < d.length)
    (hnc : FrameNoCollision P d s disc p) :
    nextFrame P d 1 s = .err
    ∨ ∃ h' o', nextHeader P d 1 s = .ok (h', o')
        ∧ nextFrame P d 1 s = .ok (h', p, s + (frame P disc p).length) := by
  have hx : d[s]? = some d[s] := List.getElem?_eq_getElem hs
  cases hh : nextHeader P d 1 s with
  | eof =>
    exfalso
    by_cases h0 : d[s] = 0
    · rw [h0] at hx
      rw [nextHeader_one_zero d s hx] at hh
      cases hh
    · exact nextHeader_ne_eof_of_nonzero d 0 s _ hx h0 hh
  | err => exact .inl (nextFrame_of_header_err d 1 s hh)
  | ok r =>
    obtain ⟨h', o'⟩ := r
    by_cases hl : o' + h'.size > d.length
    · exact .inl (nextFrame_too_long d 1 s h' o' hh hl)
    · by_cases hc : P.crc (slice d o' h'.size) = h'.crc
      · obtain ⟨e1, e2⟩ := hnc h' o' hh (by omega) hc
        refine .inr ⟨h', o', rfl, ?_⟩
        rw [nextFrame_of_header_ok d 1 s h' o' hh (by omega) hc, e1, e2]
      · exact .inl (nextFrame_crc_mismatch d 1 s h' o' hh hc)

/-- `FrameNoCollision` from the hypotheses of the single-region theorems: `hnc` of
    `log_header_damage_detected` (a header naming other bytes or another checksum fails its CRC
    check) and the payload hypothesis of `log_payload_damage_detected` in its no-collision form -/
theorem frameNoCollision_of_parts (d : List Nat) (s disc : Nat) (p : List Nat)
    (hH : ∀ h' o', nextHeader P d 1 s = .ok (h', o') → o' + h'.size ≤ d.length →
      (o' = payOff P s disc p ∧ h'.size = p.length ∧ h'.crc = P.crc p) ∨ P.crc (slice d o' h'.size) ≠ h'.crc)
    (hP : P.crc (slice d (payOff P s disc p) p.length) = P.crc p → slice d (payOff P s disc p) p.length = p) :
    FrameNoCollision P d s disc p := by
  intro h' o' hv hl hc
  rcases hH h' o' hv hl with ⟨e1, e2, e3⟩ | hbad
  · rw [e1, e2] at hc ⊢
    rw [e3] at hc
    refine ⟨hP hc, ?_⟩
    rw [frame_length_eq]
    unfold payOff
    omega
  · exact absurd hc hbad

theorem noFrame_err (d : List Nat) (pos x : Nat) (hx : d[pos]? = some x) (h0 : x ≠ 0)
    (hno : NoFrameAt P d pos) : nextFrame P d 1 pos = .err := by
  cases hh : nextHeader P d 1 pos with
  | eof => exact absurd hh (nextHeader_ne_eof_of_nonzero d 0 pos x hx h0)
  | err => exact nextFrame_of_header_err d 1 pos hh
  | ok r =>
    obtain ⟨h', o'⟩ := r
    by_cases hl : o' + h'.size > d.length
    · exact nextFrame_too_long d 1 pos h' o' hh hl
    · exact nextFrame_crc_mismatch d 1 pos h' o' hh (hno h' o' hh (by omega))

/-- the first frame of an append as the reader meets it from the start `pos` of the append -/
theorem lead_cases (g : Good P) (d : List Nat) (pos s disc : Nat) (p : List Nat)
    (hgeo : PadGeom P pos s) (hs : s < d.length) (hnc : FrameNoCollision P d s disc p)
    (hnz : ¬ ZeroedFrameInPadWindow P d s) (hpad : pos < s → NoFrameAt P d pos) :
    nextFrame P d 2 pos = .err
    ∨ ∃ h' o', nextHeader P d 1 s = .ok (h', o')
        ∧ nextFrame P d 2 pos = .ok (h', p, s + (frame P disc p).length) := by
  have hB : 0 < P.B := by have := g.hB; omega
  rcases hgeo with rfl | ⟨q, hs', hq, hlt, hH⟩
  · have hx : d[pos]? = some d[pos] := List.getElem?_eq_getElem hs
    by_cases h0 : d[pos] = 0
    · left
      apply nextFrame_of_header_err
      rw [show (2 : Nat) = 1 + 1 from rfl, nextHeader_succ, hx]
      simp only
      rw [if_pos h0]
      by_cases h1 : trueUp P (pos + 1) - (pos + 1) > P.H
      · rw [if_pos h1]
      · rw [if_neg h1]
        cases h2 : padZero d (pos + 1) (trueUp P (pos + 1))
        · rfl
        · exact absurd ⟨by rw [hx, h0], by omega, h2⟩ hnz
    · rw [nextFrame_of_header d 2 1 pos pos (nextHeader_fuel_nonzero d 1 0 pos _ hx h0)]
      exact frame1_cases d pos disc p hs hnc
  · have hps : pos < d.length := by omega
    have hx : d[pos]? = some d[pos] := List.getElem?_eq_getElem hps
    by_cases h0 : d[pos] = 0
    · have ht : trueUp P (pos + 1) = s := by
        by_cases he : pos + 1 = s
        · rw [he, hs', show q * P.B + P.B = (q + 1) * P.B by rw [Nat.add_mul, Nat.one_mul]]
          exact trueUp_at (q + 1)
        · rw [hs']; exact trueUp_inside hB q (pos + 1) (by omega) (by omega)
      have hstep : nextHeader P d 2 pos
          = if (!padZero d (pos + 1) s) = true then .err else nextHeader P d 1 s := by
        rw [show (2 : Nat) = 1 + 1 from rfl, nextHeader_succ, hx]
        simp only
        rw [if_pos h0, ht, if_neg (by omega)]
      cases hz : padZero d (pos + 1) s
      · left
        apply nextFrame_of_header_err
        rw [hstep, hz]; rfl
      · have h2 : nextHeader P d 2 pos = nextHeader P d 1 s := by rw [hstep, hz]; rfl
        rw [nextFrame_of_header d 2 1 pos s h2]
        exact frame1_cases d s disc p hs hnc
    · left
      rw [nextFrame_of_header d 2 1 pos pos (nextHeader_fuel_nonzero d 1 0 pos _ hx h0)]
      exact noFrame_err d pos _ hx h0 (hpad hlt)

theorem trueUp_mul (e : Nat) : ∃ q, trueUp P e = q * P.B := by
  unfold trueUp nextBoundary
  by_cases h : e % P.B = 0
  · rw [if_pos h]
    exact ⟨e / P.B, (Nat.div_mul_cancel (Nat.dvd_of_mod_eq_zero h)).symm⟩
  · rw [if_neg h]
    exact ⟨e / P.B + 1, rfl⟩

/-! ### one append, damaged in any way -/

/-- **one step of the reader over an append damaged in any way**: an error, or exactly the batch
    that was appended, ending where the append ends -/
theorem append_step (g : Good P) (d : List Nat) (pos : Nat) (b : List Nat) (hb : b.length ≤ P.tableFull)
    (hlen : pos + (appendAt P 2 pos b).length ≤ d.length)
    (hyp : AppendHyp P d pos b) (hnz : ∀ s disc p, (s, disc, p) ∈ framesOf P 2 pos b → ¬ ZeroedFrameInPadWindow P d s) :
    nextBatch P d 2 pos = .err
    ∨ nextBatch P d 2 pos = .ok (b, pos + (appendAt P 2 pos b).length) := by
  have hpl : (zeros pos).length = pos := zeros_length pos
  obtain ⟨s, hgeo, hz, hlay⟩ := append_layout g (zeros pos) b [] hb
  have hread := append_read_any g (zeros pos) b [] hb
  rw [hpl] at hgeo hz hlay hread
  generalize zeros pos ++ appendAt P 2 pos b ++ [] = F at hz hlay hread
  cases hlay with
  | whole hfr hF1 =>
    have hp := head_frame g F pos s WHOLE b hgeo hz hF1 hb (by decide)
    have hw := nextBatch_whole F 2 pos _ b _ hp rfl
    rw [hread] at hw
    have he : pos + (appendAt P 2 pos b).length = s + (frame P WHOLE b).length := by
      injection hw with hw; injection hw
    have hmem : (s, WHOLE, b) ∈ framesOf P 2 pos b := by rw [hfr]; exact List.mem_singleton.mpr rfl
    have hfl := frame_length_eq (P := P) WHOLE b
    have hs : s < d.length := by omega
    rcases lead_cases g d pos s WHOLE b hgeo hs (hyp.nc _ _ _ hmem) (hnz _ _ _ hmem)
        (hyp.pad (s, WHOLE, b) (by rw [hfr]; rfl)) with herr | ⟨h', o', hh, hf⟩
    · exact .inl (nextBatch_of_frame_err d 2 pos herr)
    · by_cases hwd : h'.disc = WHOLE
      · right; rw [nextBatch_whole d 2 pos h' b _ hf hwd, he]
      · left
        rcases hyp.dc _ _ _ hmem (by decide) h' o' hh with h1 | ⟨_, h2⟩
        · exact absurd h1 hwd
        · exact nextBatch_other d 2 pos h' b _ hf hwd h2
  | split fb s2 hfr hF1 hgap hzg hF2 =>
    have hsz1 : (b.take fb).length ≤ P.tableFull := take_size_le b fb _ hb
    have hsz2 : (b.drop fb).length ≤ P.tableFull := drop_size_le b fb _ hb
    have hp1 := head_frame g F pos s FIRST (b.take fb) hgeo hz hF1 hsz1 (by decide)
    have hpz := padZero_of_zeroRun F _ s2 _ (Nat.le_refl _) hzg
    have hb1 := nextBatch_first F 2 pos _ (b.take fb) _ s2 hp1 rfl hgap hpz
    have hp2 := hF2.read g hsz2 (by decide) 1
    have hb2 : nextBatch P F 2 pos
        = .ok (b.take fb ++ b.drop fb, s2 + (frame P SECOND (b.drop fb)).length) := by
      rw [hb1, hp2]; rfl
    rw [hread] at hb2
    have he : pos + (appendAt P 2 pos b).length = s2 + (frame P SECOND (b.drop fb)).length := by
      injection hb2 with hb2; injection hb2
    have hmem1 : (s, FIRST, b.take fb) ∈ framesOf P 2 pos b := by rw [hfr]; exact List.mem_cons_self ..
    have hmem2 : (s2, SECOND, b.drop fb) ∈ framesOf P 2 pos b := by
      rw [hfr]; exact List.mem_cons_of_mem _ (List.mem_singleton.mpr rfl)
    have hfl1 := frame_length_eq (P := P) FIRST (b.take fb)
    have hfl2 := frame_length_eq (P := P) SECOND (b.drop fb)
    have hge := hgap.2.1
    have hs : s < d.length := by omega
    have hs2 : s2 < d.length := by omega
    rcases lead_cases g d pos s FIRST (b.take fb) hgeo hs (hyp.nc _ _ _ hmem1) (hnz _ _ _ hmem1)
        (hyp.pad (s, FIRST, b.take fb) (by rw [hfr]; rfl)) with herr | ⟨h', o', hh, hf⟩
    · exact .inl (nextBatch_of_frame_err d 2 pos herr)
    · by_cases hfi : h'.disc = FIRST
      · cases hpz' : padZero d (s + (frame P FIRST (b.take fb)).length) s2
        · exact .inl (nextBatch_first_badpad d 2 pos h' _ _ s2 hf hfi hgap hpz')
        · rw [nextBatch_first d 2 pos h' _ _ s2 hf hfi hgap hpz']
          obtain ⟨q, hq⟩ := trueUp_mul (P := P) (s + (frame P FIRST (b.take fb)).length)
          rw [hgap.1] at hq
          have hfu : nextFrame P d 2 s2 = nextFrame P d 1 s2 :=
            nextFrame_of_header d 2 1 s2 s2 (by rw [hq]; exact nextHeader_boundary_fuel g d q 1 0)
          rw [hfu]
          rcases frame1_cases d s2 SECOND (b.drop fb) hs2 (hyp.nc _ _ _ hmem2) with herr | ⟨h2, o2, _, hf2⟩
          · left; rw [herr]
          · rw [hf2]
            simp only
            by_cases hd2 : h2.disc = SECOND
            · right; rw [if_pos hd2, List.take_append_drop, he]
            · left; rw [if_neg hd2]
      · left
        have hnw : h'.disc ≠ WHOLE := by
          rcases hyp.dc _ _ _ hmem1 (by decide) h' o' hh with h1 | ⟨h1, _⟩
          · rw [h1]; decide
          · exact h1
        exact nextBatch_other d 2 pos h' _ _ hf hnw hfi

/-! ### frames and appends no damage touches: the hypotheses hold by themselves -/

/-- a file that has the bytes `l` at `off` agrees from `off` on with `zeros off ++ l ++ rest` -/
theorem hybrid (d : List Nat) (off : Nat) (l : List Nat) (hsl : slice d off l.length = l)
    (hle : off + l.length ≤ d.length) :
    ∃ d', d' = zeros off ++ l ++ d.drop (off + l.length) ∧ d'.length = d.length
      ∧ ∀ i, off ≤ i → d[i]? = d'[i]? := by
  have hd : d.drop off = l ++ d.drop (off + l.length) := by
    have h := (List.take_append_drop l.length (d.drop off)).symm
    rw [List.drop_drop] at h
    unfold slice at hsl
    rw [hsl] at h
    exact h
  refine ⟨_, rfl, ?_, ?_⟩
  · simp only [List.length_append, zeros_length, List.length_drop]; omega
  · intro i hi
    rw [List.append_assoc, List.getElem?_append_right (by rw [zeros_length]; exact hi), zeros_length,
      ← hd, List.getElem?_drop]
    have : off + (i - off) = i := by omega
    rw [this]

/-- an append whose bytes are what the writer wrote is read as the batch that was appended -/
theorem untouched_step (g : Good P) (d : List Nat) (pos : Nat) (b : List Nat) (hb : b.length ≤ P.tableFull)
    (hlen : pos + (appendAt P 2 pos b).length ≤ d.length)
    (hun : slice d pos (appendAt P 2 pos b).length = appendAt P 2 pos b) :
    nextBatch P d 2 pos = .ok (b, pos + (appendAt P 2 pos b).length) := by
  have hB : 0 < P.B := by have := g.hB; omega
  obtain ⟨d', hd', hl, hag⟩ := hybrid d pos _ hun hlen
  rw [nextBatch_suffix_agree hB d d' hl.symm pos hag 2 pos (Nat.le_refl _), hd']
  have h := append_read_any g (zeros pos) b (d.drop (pos + (appendAt P 2 pos b).length)) hb
  rw [zeros_length] at h
  exact h

/-- a frame whose bytes are what the writer wrote satisfies the three per-frame hypotheses -/
theorem frameHyp_of_untouched (g : Good P) (d : List Nat) (s disc : Nat) (p : List Nat)
    (hsz : p.length ≤ P.tableFull) (hdisc : disc < 128)
    (hle : s + (frame P disc p).length ≤ d.length)
    (hun : slice d s (frame P disc p).length = frame P disc p) :
    FrameNoCollision P d s disc p ∧ DiscKept P d s disc ∧ ¬ ZeroedFrameInPadWindow P d s := by
  have hB : 0 < P.B := by have := g.hB; omega
  obtain ⟨d', hd', hl, hag⟩ := hybrid d s _ hun hle
  have hFA : FrameAt P d' s disc p := ⟨zeros s, d.drop (s + (frame P disc p).length), hd', zeros_length s⟩
  obtain ⟨f1, f2, _, f4⟩ := hFA.facts g hsz hdisc 0
  have hh : nextHeader P d 1 s = nextHeader P d' 1 s :=
    nextHeader_suffix_agree hB d d' hl.symm s hag 1 s (Nat.le_refl _)
  have hpo : s ≤ payOff P s disc p := by unfold payOff; omega
  refine ⟨?_, ?_, ?_⟩
  · intro h' o' hho _ _
    rw [hh, f1] at hho
    injection hho with hho
    injection hho with e1 e2
    subst e1; subst e2
    simp only
    rw [slice_agree d d' _ _ (fun i h1 _ => hag i (by omega)), f2]
    exact ⟨rfl, f4⟩
  · intro _ h' o' hho
    rw [hh, f1] at hho
    injection hho with hho
    injection hho with e1 e2
    subst e1
    exact .inl rfl
  · intro hz
    have h0 := hz.1
    rw [hag s (Nat.le_refl _), hFA.bytes.1] at h0
    injection h0 with h0
    have := (hdrLen_bounds g disc p hsz hdisc).1
    omega

theorem noFrameAt_of_zero (d : List Nat) (pos : Nat) (h : d[pos]? = some 0) : NoFrameAt P d pos := by
  intro h' o' hh
  rw [nextHeader_one_zero d pos h] at hh
  cases hh

/-- the hypotheses of one append, asked only of the frames whose bytes CHANGED and of leading
    padding whose first byte changed -/
structure TouchedHyp (P : Params) (d : List Nat) (pos : Nat) (b : List Nat) : Prop where
  nc : ∀ s disc p, (s, disc, p) ∈ framesOf P 2 pos b →
    slice d s (frame P disc p).length ≠ frame P disc p → FrameNoCollision P d s disc p
  dc : ∀ s disc p, (s, disc, p) ∈ framesOf P 2 pos b →
    slice d s (frame P disc p).length ≠ frame P disc p → DiscKept P d s disc
  pad : ∀ x, (framesOf P 2 pos b).head? = some x → pos < x.1 → d[pos]? ≠ some 0 → NoFrameAt P d pos

/-- no frame of the append whose bytes changed is in the class of D-29 -/
def TouchedNotD29 (P : Params) (d : List Nat) (pos : Nat) (b : List Nat) : Prop :=
  ∀ s disc p, (s, disc, p) ∈ framesOf P 2 pos b → ¬ ZeroedFrameInPadWindow P d s

theorem frame_in_append (g : Good P) (pos : Nat) (b : List Nat) (hb : b.length ≤ P.tableFull)
    (s disc : Nat) (p : List Nat) (hmem : (s, disc, p) ∈ framesOf P 2 pos b) :
    p.length ≤ P.tableFull ∧ disc < 128 ∧ s + (frame P disc p).length ≤ pos + (appendAt P 2 pos b).length := by
  have h := frameAt_of_mem g (zeros pos) b [] hb s disc p (by rw [zeros_length]; exact hmem)
  obtain ⟨⟨a, c, hfile, ha⟩, h2, h3, _⟩ := h
  refine ⟨h2, h3, ?_⟩
  have hl := congrArg List.length hfile
  simp only [List.length_append, zeros_length, List.length_nil] at hl
  omega

theorem appendHyp_of_touched (g : Good P) (d : List Nat) (pos : Nat) (b : List Nat) (hb : b.length ≤ P.tableFull)
    (hlen : pos + (appendAt P 2 pos b).length ≤ d.length) (h : TouchedHyp P d pos b) :
    AppendHyp P d pos b := by
  refine ⟨?_, ?_, ?_⟩
  · intro s disc p hmem
    obtain ⟨h1, h2, h3⟩ := frame_in_append g pos b hb s disc p hmem
    by_cases ht : slice d s (frame P disc p).length = frame P disc p
    · exact (frameHyp_of_untouched g d s disc p h1 h2 (by omega) ht).1
    · exact h.nc s disc p hmem ht
  · intro s disc p hmem
    obtain ⟨h1, h2, h3⟩ := frame_in_append g pos b hb s disc p hmem
    by_cases ht : slice d s (frame P disc p).length = frame P disc p
    · exact (frameHyp_of_untouched g d s disc p h1 h2 (by omega) ht).2.1
    · exact h.dc s disc p hmem ht
  · intro x hx hlt
    by_cases h0 : d[pos]? = some 0
    · exact noFrameAt_of_zero d pos h0
    · exact h.pad x hx hlt h0

/-! ### all appends -/

theorem nextBatch_at_end (d : List Nat) (pos : Nat) (h : d.length ≤ pos) : nextBatch P d 2 pos = .eof := by
  have hh : nextHeader P d 2 pos = .eof := by
    rw [show (2 : Nat) = 1 + 1 from rfl, nextHeader_succ, List.getElem?_eq_none h]
  unfold nextBatch
  rw [nextFrame_of_header_eof d 2 pos hh]

/-- **induction over the appends**: the damaged image is read as the whole list of batches and a
    clean end, or as the batches before some append WHOSE BYTES CHANGED and an error raised there -/
theorem multi_core (g : Good P) (d : List Nat) :
    ∀ (bufs : List (List Nat)) (pos : Nat), (∀ b ∈ bufs, b.length ≤ P.tableFull) →
      d.length = pos + (writeAll P bufs pos).length →
      (∀ bufs1 b bufs2, bufs = bufs1 ++ b :: bufs2 →
        TouchedHyp P d (pos + (writeAll P bufs1 pos).length) b
        ∧ TouchedNotD29 P d (pos + (writeAll P bufs1 pos).length) b) →
      (∀ k, readSome P d (bufs.length + 1 + k) pos = (bufs, false))
        ∨ ∃ bufs1 b bufs2, bufs = bufs1 ++ b :: bufs2
            ∧ slice d (pos + (writeAll P bufs1 pos).length)
                (appendAt P 2 (pos + (writeAll P bufs1 pos).length) b).length
              ≠ appendAt P 2 (pos + (writeAll P bufs1 pos).length) b
            ∧ nextBatch P d 2 (pos + (writeAll P bufs1 pos).length) = .err
            ∧ ∀ k, readSome P d (bufs.length + 1 + k) pos = (bufs1, true) := by
  intro bufs
  induction bufs with
  | nil =>
    intro pos _ hlen _
    left
    intro k
    simp only [writeAll, List.length_nil, Nat.add_zero] at hlen
    rw [show ([] : List (List Nat)).length + 1 + k = k + 1 by simp only [List.length_nil]; omega,
      readSome_succ, nextBatch_at_end d pos (by omega)]
  | cons x xs ih =>
    intro pos hsz hlen hyp
    simp only [writeAll, List.length_append] at hlen
    have hx := hsz x (List.mem_cons_self ..)
    have h0 := hyp [] x xs rfl
    simp only [writeAll, List.length_nil, Nat.add_zero] at h0
    have hfuel : ∀ k, (x :: xs).length + 1 + k = (xs.length + 1 + k) + 1 := by
      intro k; simp only [List.length_cons]; omega
    rcases append_step g d pos x hx (by omega) (appendHyp_of_touched g d pos x hx (by omega) h0.1) h0.2
      with herr | hok
    · right
      refine ⟨[], x, xs, rfl, ?_, ?_, ?_⟩
      · simp only [writeAll, List.length_nil, Nat.add_zero]
        intro hun
        rw [untouched_step g d pos x hx (by omega) hun] at herr
        cases herr
      · simpa only [writeAll, List.length_nil, Nat.add_zero] using herr
      · intro k; rw [hfuel k, readSome_succ, herr]
    · have hyp' : ∀ bufs1 b bufs2, xs = bufs1 ++ b :: bufs2 →
          TouchedHyp P d (pos + (appendAt P 2 pos x).length
              + (writeAll P bufs1 (pos + (appendAt P 2 pos x).length)).length) b
          ∧ TouchedNotD29 P d (pos + (appendAt P 2 pos x).length
              + (writeAll P bufs1 (pos + (appendAt P 2 pos x).length)).length) b := by
        intro bufs1 b bufs2 hsp
        have := hyp (x :: bufs1) b bufs2 (by rw [hsp]; rfl)
        simpa only [writeAll, List.length_append, Nat.add_assoc] using this
      rcases ih (pos + (appendAt P 2 pos x).length) (fun b hb => hsz b (List.mem_cons_of_mem _ hb))
          (by omega) hyp' with h | ⟨b1, b, b2, hsp, htch, herr, hrs⟩
      · left
        intro k
        rw [hfuel k, readSome_succ, hok]
        simp only
        rw [h k]
      · right
        refine ⟨x :: b1, b, b2, by rw [hsp]; rfl, ?_, ?_, ?_⟩
        · simpa only [writeAll, List.length_append, Nat.add_assoc] using htch
        · simpa only [writeAll, List.length_append, Nat.add_assoc] using herr
        · intro k
          rw [hfuel k, readSome_succ, hok]
          simp only
          rw [hrs k]

/-! ### the theorems -/

/-- the offset at which the append of `b` after `bufs1` starts -/
abbrev startOf (P : Params) (bufs1 : List (List Nat)) : Nat := (writeAll P bufs1 0).length

/-- **any damage, anywhere** (same length): hypotheses on the changed frames only -/
theorem log_damage_anywhere (g : Good P) (bufs : List (List Nat)) (hsz : ∀ x ∈ bufs, x.length ≤ P.tableFull)
    (d : List Nat) (hlen : d.length = (writeAll P bufs 0).length)
    (hyp : ∀ bufs1 b bufs2, bufs = bufs1 ++ b :: bufs2 →
      TouchedHyp P d (startOf P bufs1) b ∧ TouchedNotD29 P d (startOf P bufs1) b) :
    (∀ k, readSome P d (bufs.length + 1 + k) 0 = (bufs, false))
    ∨ ∃ bufs1 b bufs2, bufs = bufs1 ++ b :: bufs2
        ∧ slice d (startOf P bufs1) (appendAt P 2 (startOf P bufs1) b).length ≠ appendAt P 2 (startOf P bufs1) b
        ∧ nextBatch P d 2 (startOf P bufs1) = .err
        ∧ ∀ k, readSome P d (bufs.length + 1 + k) 0 = (bufs1, true) := by
  have h := multi_core g d bufs 0 hsz (by rw [hlen, Nat.zero_add])
    (by intro b1 b b2 hsp; simpa only [Nat.zero_add] using hyp b1 b b2 hsp)
  simpa only [Nat.zero_add] using h

/-- a drain that ended with the reader's error (not for want of fuel) is the same for any fuel
    that exceeds the number of batches -/
theorem readSome_err_fuel (d : List Nat) : ∀ (bs : List (List Nat)) (n off : Nat), bs.length < n →
    readSome P d n off = (bs, true) → ∀ m, bs.length < m → readSome P d m off = (bs, true) := by
  intro bs
  induction bs with
  | nil =>
    intro n off hn h m hm
    cases n with
    | zero => simp at hn
    | succ n =>
    cases m with
    | zero => simp at hm
    | succ m =>
      rw [readSome_succ] at h ⊢
      cases hb : nextBatch P d 2 off with
      | eof => rw [hb] at h; exact absurd (show false = true from congrArg Prod.snd h) (by decide)
      | err => rfl
      | ok r =>
        rw [hb] at h
        exact absurd (congrArg Prod.fst h) (List.cons_ne_nil _ _)
  | cons x xs ih =>
    intro n off hn h m hm
    cases n with
    | zero => simp at hn
    | succ n =>
    cases m with
    | zero => simp at hm
    | succ m =>
      rw [readSome_succ] at h ⊢
      cases hb : nextBatch P d 2 off with
      | eof => rw [hb] at h; exact absurd (show false = true from congrArg Prod.snd h) (by decide)
      | err => rw [hb] at h; exact absurd (congrArg Prod.fst h).symm (List.cons_ne_nil _ _)
      | ok r =>
        obtain ⟨b, off'⟩ := r
        rw [hb] at h
        simp only at h ⊢
        have h1 : b :: (readSome P d n off').1 = x :: xs := congrArg Prod.fst h
        have h2 : (readSome P d n off').2 = true := congrArg Prod.snd h
        injection h1 with e1 e2
        have h3 : readSome P d n off' = (xs, true) := by rw [← e2, ← h2]
        simp only [List.length_cons] at hn hm
        rw [ih n off' (by omega) h3 m (by omega), e1]

theorem replay_of_prefix (g : Good P) (bufs b1 : List (List Nat)) (b : List Nat) (b2 : List (List Nat))
    (hsp : bufs = b1 ++ b :: b2) (d : List Nat) (hlen : d.length = (writeAll P bufs 0).length)
    (hrs : ∀ k, readSome P d (bufs.length + 1 + k) 0 = (b1, true)) :
    drain P d = deliver b1 true ∧ logToBuilder P d = .readerError ∧ logToSetsumOk P d = false := by
  subst hsp
  apply log_damage_replay_fails g b1 b b2 d hlen
  intro k
  have h0 := hrs 0
  simp only [List.length_append, List.length_cons] at h0
  exact readSome_err_fuel d b1 _ 0 (by omega) h0 _ (by omega)

/-- an append whose bytes changed contains an offset at which the two files differ -/
theorem touched_window (bufs1 : List (List Nat)) (b : List Nat) (bufs2 : List (List Nat)) (d : List Nat)
    (ht : slice d (startOf P bufs1) (appendAt P 2 (startOf P bufs1) b).length ≠ appendAt P 2 (startOf P bufs1) b) :
    ¬ ∀ i, startOf P bufs1 ≤ i → i < startOf P bufs1 + (appendAt P 2 (startOf P bufs1) b).length →
        d[i]? = (writeAll P (bufs1 ++ b :: bufs2) 0)[i]? := by
  intro hag
  apply ht
  rw [slice_agree d _ _ _ hag, file_split]
  exact slice_mid _ _ _

/-- **(1) damage to any contiguous region `[lo, hi)`** of a builder-written log — spanning a header
    and its payload, several frames, several appends, padding —: the file reads as the pristine log
    (every touched frame still decodes to what was written), or the reader delivers the batches
    before an append that the region overlaps and whose bytes changed, and reports an error there.
    Never a batch that was not appended, never a batch skipped.  Hypotheses only for frames whose
    bytes changed; excluded: exactly the D-29 class. -/
theorem log_damage_any_region (g : Good P) (bufs : List (List Nat)) (hsz : ∀ x ∈ bufs, x.length ≤ P.tableFull)
    (d : List Nat) (hlen : d.length = (writeAll P bufs 0).length) (lo hi : Nat)
    (hag : ∀ i, i < lo ∨ hi ≤ i → d[i]? = (writeAll P bufs 0)[i]?)
    (hyp : ∀ bufs1 b bufs2, bufs = bufs1 ++ b :: bufs2 → TouchedHyp P d (startOf P bufs1) b)
    (hnz : ∀ bufs1 b bufs2, bufs = bufs1 ++ b :: bufs2 → TouchedNotD29 P d (startOf P bufs1) b) :
    (∀ k, readSome P d (bufs.length + 1 + k) 0 = (bufs, false))
    ∨ ∃ bufs1 b bufs2, bufs = bufs1 ++ b :: bufs2
        ∧ (lo < startOf P (bufs1 ++ [b]) ∧ startOf P bufs1 < hi)
        ∧ nextBatch P d 2 (startOf P bufs1) = .err
        ∧ (∀ k, readSome P d (bufs.length + 1 + k) 0 = (bufs1, true))
        ∧ drain P d = deliver bufs1 true ∧ logToBuilder P d = .readerError ∧ logToSetsumOk P d = false := by
  rcases log_damage_anywhere g bufs hsz d hlen (fun b1 b b2 h => ⟨hyp b1 b b2 h, hnz b1 b b2 h⟩)
    with h | ⟨b1, b, b2, hsp, ht, herr, hrs⟩
  · exact .inl h
  · refine .inr ⟨b1, b, b2, hsp, ?_, herr, hrs, replay_of_prefix g bufs b1 b b2 hsp d hlen hrs⟩
    have hst : startOf P (b1 ++ [b]) = startOf P b1 + (appendAt P 2 (startOf P b1) b).length := by
      unfold startOf
      rw [writeAll_append]
      simp only [writeAll, List.length_append, Nat.zero_add, List.append_nil]
    have hw := touched_window b1 b b2 d ht
    rw [← hsp] at hw
    apply Classical.byContradiction
    intro hno
    apply hw
    intro i h1 h2
    apply hag
    rw [hst] at hno
    omega

/-- **(2) finitely many damaged regions** `rs` (the class `several` of the harness): as (1); the
    error is raised at an append that one of the regions overlaps -/
theorem log_damage_several_regions (g : Good P) (bufs : List (List Nat)) (hsz : ∀ x ∈ bufs, x.length ≤ P.tableFull)
    (d : List Nat) (hlen : d.length = (writeAll P bufs 0).length) (rs : List (Nat × Nat))
    (hag : ∀ i, (∀ r ∈ rs, i < r.1 ∨ r.2 ≤ i) → d[i]? = (writeAll P bufs 0)[i]?)
    (hyp : ∀ bufs1 b bufs2, bufs = bufs1 ++ b :: bufs2 → TouchedHyp P d (startOf P bufs1) b)
    (hnz : ∀ bufs1 b bufs2, bufs = bufs1 ++ b :: bufs2 → TouchedNotD29 P d (startOf P bufs1) b) :
    (∀ k, readSome P d (bufs.length + 1 + k) 0 = (bufs, false))
    ∨ ∃ bufs1 b bufs2, bufs = bufs1 ++ b :: bufs2
        ∧ (∃ r ∈ rs, r.1 < startOf P (bufs1 ++ [b]) ∧ startOf P bufs1 < r.2)
        ∧ nextBatch P d 2 (startOf P bufs1) = .err
        ∧ (∀ k, readSome P d (bufs.length + 1 + k) 0 = (bufs1, true))
        ∧ drain P d = deliver bufs1 true ∧ logToBuilder P d = .readerError ∧ logToSetsumOk P d = false := by
  rcases log_damage_anywhere g bufs hsz d hlen (fun b1 b b2 h => ⟨hyp b1 b b2 h, hnz b1 b b2 h⟩)
    with h | ⟨b1, b, b2, hsp, ht, herr, hrs⟩
  · exact .inl h
  · refine .inr ⟨b1, b, b2, hsp, ?_, herr, hrs, replay_of_prefix g bufs b1 b b2 hsp d hlen hrs⟩
    have hst : startOf P (b1 ++ [b]) = startOf P b1 + (appendAt P 2 (startOf P b1) b).length := by
      unfold startOf
      rw [writeAll_append]
      simp only [writeAll, List.length_append, Nat.zero_add, List.append_nil]
    have hw := touched_window b1 b b2 d ht
    rw [← hsp] at hw
    apply Classical.byContradiction
    intro hno
    apply hw
    intro i h1 h2
    apply hag
    intro r hr
    have : ¬ (r.1 < startOf P (b1 ++ [b]) ∧ startOf P b1 < r.2) := fun h => hno ⟨r, hr, h⟩
    rw [hst] at this
    omega

/-- **(4) the known finding D-29 characterised exactly**: under the checksum and discriminant
    hypotheses alone, a damaged image that is read neither as the pristine log nor as a prefix of
    the batches followed by an error (a batch lost or invented in silence) has a frame offset in
    the class `ZeroedFrameInPadWindow` -/
theorem log_damage_outside_d29_never_silent (g : Good P) (bufs : List (List Nat))
    (hsz : ∀ x ∈ bufs, x.length ≤ P.tableFull)
    (d : List Nat) (hlen : d.length = (writeAll P bufs 0).length)
    (hyp : ∀ bufs1 b bufs2, bufs = bufs1 ++ b :: bufs2 → TouchedHyp P d (startOf P bufs1) b) (k : Nat)
    (hsilent : readSome P d (bufs.length + 1 + k) 0 ≠ (bufs, false)
      ∧ ¬ ∃ bufs1 b bufs2, bufs = bufs1 ++ b :: bufs2 ∧ readSome P d (bufs.length + 1 + k) 0 = (bufs1, true)) :
    ∃ bufs1 b bufs2 s disc p, bufs = bufs1 ++ b :: bufs2
      ∧ (s, disc, p) ∈ framesOf P 2 (startOf P bufs1) b ∧ ZeroedFrameInPadWindow P d s := by
  apply Classical.byContradiction
  intro hno
  have hnz : ∀ bufs1 b bufs2, bufs = bufs1 ++ b :: bufs2 → TouchedNotD29 P d (startOf P bufs1) b := by
    intro b1 b b2 hsp s disc p hmem hz
    exact hno ⟨b1, b, b2, s, disc, p, hsp, hmem, hz⟩
  rcases log_damage_anywhere g bufs hsz d hlen (fun b1 b b2 h => ⟨hyp b1 b b2 h, hnz b1 b b2 h⟩)
    with h | ⟨b1, b, b2, hsp, _, _, hrs⟩
  · exact hsilent.1 (h k)
  · exact hsilent.2 ⟨b1, b, b2, hsp, hrs k⟩

/-! ### (3) one discriminant flipped, anywhere in the log -/

/-- the second half of `nextBatch` after a frame read as `FIRST` -/
theorem nextBatch_first_cases (hB : 0 < P.B) (d : List Nat) (fuel off : Nat) (h1 : Hdr) (p1 : List Nat) (e1 : Nat)
    (hf : nextFrame P d fuel off = .ok (h1, p1, e1)) (hd : h1.disc = FIRST) :
    nextBatch P d fuel off = .err
    ∨ (GapGeom P e1 (trueUp P e1) ∧ padZero d e1 (trueUp P e1) = true
        ∧ nextBatch P d fuel off =
            match nextFrame P d fuel (trueUp P e1) with
            | .ok (h2, p2, e2) => if h2.disc = SECOND then .ok (p1 ++ p2, e2) else .err
            | _ => .err) := by
  by_cases hH : trueUp P e1 - e1 > P.H
  · left
    unfold nextBatch
    rw [hf]
    simp only
    rw [if_neg (by rw [hd]; decide), if_pos hd, if_pos hH]
  · have hg : GapGeom P e1 (trueUp P e1) := ⟨rfl, trueUp_ge hB e1, by omega⟩
    by_cases hp : padZero d e1 (trueUp P e1) = true
    · exact .inr ⟨hg, hp, nextBatch_first d fuel off h1 p1 e1 _ hf hd hg hp⟩
    · have hp' : padZero d e1 (trueUp P e1) = false := by
        cases h : padZero d e1 (trueUp P e1) with
        | false => rfl
        | true => exact absurd h hp
      exact .inl (nextBatch_first_badpad d fuel off h1 p1 e1 _ hf hd hg hp')

/-- **behind the end of an append the pristine log never shows a `SECOND` frame**: where the reader
    looks for the `SECOND` half after a frame that ended at the end `e` of an append — at
    `true_up(e)`, after at most `H` zero bytes — there is the end of the file, a byte that is not
    padding, or the first frame of the next append, `WHOLE` or `FIRST` -/
theorem no_second_after (g : Good P) (pre : List Nat) (bufs2 : List (List Nat))
    (hsz2 : ∀ x ∈ bufs2, x.length ≤ P.tableFull) (e : Nat) (he : e = pre.length)
    (F : List Nat) (hF : F = pre ++ writeAll P bufs2 e)
    (hp : padZero F e (trueUp P e) = true) (h2 : Hdr) (p2 : List Nat) (e2 : Nat)
    (hf : nextFrame P F 2 (trueUp P e) = .ok (h2, p2, e2)) : h2.disc ≠ SECOND := by
  have hB : 0 < P.B := by have := g.hB; omega
  have hBH := g.hB
  subst he
  cases bufs2 with
  | nil =>
    exfalso
    simp only [writeAll, List.append_nil] at hF
    subst hF
    have hge := trueUp_ge (P := P) hB F.length
    have hh : nextHeader P F 2 (trueUp P F.length) = .eof := by
      rw [show (2 : Nat) = 1 + 1 from rfl, nextHeader_succ, List.getElem?_eq_none hge]
    rw [nextFrame_of_header_eof F 2 _ hh] at hf
    cases hf
  | cons x xs =>
    have hx := hsz2 x (List.mem_cons_self ..)
    simp only [writeAll] at hF
    rw [← List.append_assoc] at hF
    generalize writeAll P xs (pre.length + (appendAt P 2 pre.length x).length) = suf at hF
    obtain ⟨s', hgeo, hz, hlay⟩ := append_layout g pre x suf hx
    rw [← hF] at hz hlay
    -- the first frame of the next append
    have hfirst : ∃ D px, FrameAt P F s' D px ∧ px.length ≤ P.tableFull ∧ (D = WHOLE ∨ D = FIRST) := by
      cases hlay with
      | whole _ hFA => exact ⟨WHOLE, x, hFA, hx, .inl rfl⟩
      | split fb _ _ hF1 _ _ _ => exact ⟨FIRST, x.take fb, hF1, take_size_le x fb _ hx, .inr rfl⟩
    obtain ⟨D, px, hFA, hszp, hD⟩ := hfirst
    have hD128 : D < 128 := by rcases hD with rfl | rfl <;> decide
    have ht : trueUp P pre.length = s' := by
      rcases hgeo with rfl | ⟨q, hs', hq, hlt, hH⟩
      · by_cases hm : pre.length % P.B = 0
        · unfold trueUp; rw [if_pos hm]
        · exfalso
          obtain ⟨q, m, hpos, hmlt⟩ := block_decomp (P := P) hB pre.length
          have hnb := nextBoundary_block (P := P) hB q pre.length (by omega) (by omega)
          have htu : trueUp P pre.length = q * P.B + P.B := by unfold trueUp; rw [if_neg hm, hnb]
          have h0 := (padZero_iff F pre.length (trueUp P pre.length)).mp hp pre.length _ (Nat.le_refl _)
            (by rw [htu]; omega) hFA.bytes.1
          have := (hdrLen_bounds g D px hszp hD128).1
          omega
      · by_cases hm0 : pre.length = q * P.B
        · omega
        · rw [hs']; exact trueUp_inside hB q pre.length (by omega) (by omega)
    rw [ht, hFA.read g hszp hD128 1] at hf
    injection hf with hf
    injection hf with e1 _
    rw [← e1]
    rcases hD with rfl | rfl
    · show WHOLE ≠ SECOND; decide
    · show FIRST ≠ SECOND; decide

/-- a `WHOLE` frame whose header still names its payload and checksum but another discriminant,
    with the rest of the log behind it: `nextBatch` at the start of the append is an error -/
theorem core_whole_not_whole (g : Good P) (F d : List Nat) (hlen : d.length = F.length) (pos s : Nat)
    (p : List Nat) (hgeo : PadGeom P pos s) (hz : ZeroRun F pos s) (hFA : FrameAt P F s WHOLE p)
    (hsz : p.length ≤ P.tableFull)
    (pre' : List Nat) (bufs2 : List (List Nat)) (hsz2 : ∀ x ∈ bufs2, x.length ≤ P.tableFull)
    (hend : s + (frame P WHOLE p).length = pre'.length)
    (hF : F = pre' ++ writeAll P bufs2 (s + (frame P WHOLE p).length))
    (hag : ∀ i, i < s ∨ payOff P s WHOLE p ≤ i → d[i]? = F[i]?)
    (hnc : ∀ h' o', nextHeader P d 2 s = .ok (h', o') → o' + h'.size ≤ d.length →
      (o' = payOff P s WHOLE p ∧ h'.size = p.length ∧ h'.crc = P.crc p) ∨ P.crc (slice d o' h'.size) ≠ h'.crc)
    (hne : nextHeader P d 2 s ≠ .eof)
    (hchg : ∀ h' o', nextHeader P d 2 s = .ok (h', o') → h'.disc ≠ WHOLE) :
    nextBatch P d 2 pos = .err := by
  have hB : 0 < P.B := by have := g.hB; omega
  have hzd : ZeroRun d pos s := hz.agree d (fun i _ h2 => hag i (.inl h2))
  have hskip := skip_lead g d pos s hgeo hzd
  obtain ⟨_, hsl, hbound, hend'⟩ := hFA.facts g hsz (by decide) 1
  rcases hv : nextHeader P d 2 s with ⟨h', o'⟩ | _ | _
  · by_cases hl : o' + h'.size > d.length
    · exact nextBatch_of_frame_err d 2 pos (nextFrame_too_long d 2 pos h' o' (by rw [hskip]; exact hv) hl)
    · rcases hnc h' o' hv (by omega) with ⟨ho, hsize, hcrc'⟩ | hbad
      · have hsd : slice d o' h'.size = p := by
          rw [ho, hsize, slice_agree d F _ p.length (fun i h1 _ => hag i (.inr h1)), hsl]
        have hf := nextFrame_of_header_ok d 2 pos h' o' (by rw [hskip]; exact hv) (by omega)
          (by rw [hsd, hcrc'])
        by_cases hfst : h'.disc = FIRST
        · rcases nextBatch_first_cases hB d 2 pos h' _ _ hf hfst with herr | ⟨hg, hp, hnb⟩
          · exact herr
          · have hoe : o' + h'.size = s + (frame P WHOLE p).length := by rw [ho, hsize]; omega
            rw [hoe] at hg hp hnb
            have hge := hg.2.1
            have hpo : payOff P s WHOLE p ≤ s + (frame P WHOLE p).length := by omega
            rw [hnb, nextFrame_suffix_agree hB d F hlen (payOff P s WHOLE p) (fun i hi => hag i (.inr hi)) 2 _
              (by omega)]
            rw [padZero_suffix_agree d F (payOff P s WHOLE p) (fun i hi => hag i (.inr hi)) _ _ hpo] at hp
            cases hnf : nextFrame P F 2 (trueUp P (s + (frame P WHOLE p).length)) with
            | eof => rfl
            | err => rfl
            | ok r =>
              obtain ⟨h2, p2, e2⟩ := r
              have := no_second_after g pre' bufs2 hsz2 _ hend F hF hp h2 p2 e2 hnf
              simp only
              rw [if_neg this]
        · exact nextBatch_other d 2 pos h' _ _ hf (hchg h' o' hv) hfst
      · exact nextBatch_of_frame_err d 2 pos (nextFrame_crc_mismatch d 2 pos h' o' (by rw [hskip]; exact hv) hbad)
  · exact absurd hv hne
  · exact nextBatch_of_header_err d 2 pos (by rw [hskip]; exact hv)

/-- **the discriminant of a `WHOLE` frame turned into anything else — `FIRST` included — with any
    appends behind it** (in general, not only at the end of the file): the batches before, then an
    error.  Read as `FIRST`, the reader looks for the `SECOND` half behind the frame and finds the
    end of the file, a byte that is not padding, or the next append's `WHOLE` / `FIRST` frame. -/
theorem log_whole_not_whole_detected (g : Good P) (bufs1 : List (List Nat)) (b : List Nat)
    (bufs2 : List (List Nat))
    (hsz : ∀ x ∈ bufs1, x.length ≤ P.tableFull) (hb : b.length ≤ P.tableFull)
    (hsz2 : ∀ x ∈ bufs2, x.length ≤ P.tableFull)
    (d : List Nat) (hlen : d.length = (writeAll P (bufs1 ++ b :: bufs2) 0).length)
    (s : Nat) (p : List Nat)
    (hmem : (s, WHOLE, p) ∈ framesOf P 2 (writeAll P bufs1 0).length b)
    (hag : ∀ i, i < s ∨ payOff P s WHOLE p ≤ i → d[i]? = (writeAll P (bufs1 ++ b :: bufs2) 0)[i]?)
    (hnc : ∀ h' o', nextHeader P d 2 s = .ok (h', o') → o' + h'.size ≤ d.length →
      (o' = payOff P s WHOLE p ∧ h'.size = p.length ∧ h'.crc = P.crc p) ∨ P.crc (slice d o' h'.size) ≠ h'.crc)
    (hne : nextHeader P d 2 s ≠ .eof)
    (hchg : ∀ h' o', nextHeader P d 2 s = .ok (h', o') → h'.disc ≠ WHOLE) (k : Nat) :
    readSome P d (bufs1.length + 1 + k) 0 = (bufs1, true) := by
  rw [file_split] at hag hlen
  generalize hpre : writeAll P bufs1 0 = pre at *
  generalize hsuf : writeAll P bufs2 (pre.length + (appendAt P 2 pre.length b).length) = suf at *
  obtain ⟨s0, hgeo, hz, hlay⟩ := append_layout g pre b suf hb
  cases hlay with
  | whole hfr hF =>
    rw [hfr] at hmem
    simp only [List.mem_singleton, Prod.mk.injEq] at hmem
    obtain ⟨rfl, -, rfl⟩ := hmem
    have hread := append_read_any g pre p suf hb
    have hw := nextBatch_whole _ 2 pre.length _ p _ (head_frame g _ pre.length s WHOLE p hgeo hz hF hb (by decide)) rfl
    rw [hread] at hw
    have he : pre.length + (appendAt P 2 pre.length p).length = s + (frame P WHOLE p).length := by
      injection hw with hw; injection hw
    have herr := core_whole_not_whole g _ d hlen pre.length s p hgeo hz hF hb
      (pre ++ appendAt P 2 pre.length p) bufs2 hsz2 (by rw [List.length_append]; omega)
      (by rw [← he, hsuf]) hag hnc hne hchg
    subst hpre
    apply detected_of_err g bufs1 hsz d (appendAt P 2 (writeAll P bufs1 0).length p ++ suf) _ herr k
    intro i hi
    have := padGeom_le hgeo
    rw [hag i (.inl (by omega)), List.append_assoc]
  | split fb s2 hfr hF1 hgap hzg hF2 =>
    rw [hfr] at hmem
    simp only [List.mem_cons, Prod.mk.injEq, List.not_mem_nil, or_false] at hmem
    rcases hmem with ⟨-, h2, -⟩ | ⟨-, h2, -⟩
    · exact absurd h2 (by decide)
    · exact absurd h2 (by decide)

/-- **a `WHOLE` discriminant turned into `FIRST` with further appends behind it** is an error -/
theorem log_whole_to_first_detected (g : Good P) (bufs1 : List (List Nat)) (b : List Nat)
    (bufs2 : List (List Nat))
    (hsz : ∀ x ∈ bufs1, x.length ≤ P.tableFull) (hb : b.length ≤ P.tableFull)
    (hsz2 : ∀ x ∈ bufs2, x.length ≤ P.tableFull)
    (d : List Nat) (hlen : d.length = (writeAll P (bufs1 ++ b :: bufs2) 0).length)
    (s : Nat) (p : List Nat)
    (hmem : (s, WHOLE, p) ∈ framesOf P 2 (writeAll P bufs1 0).length b)
    (hag : ∀ i, i < s ∨ payOff P s WHOLE p ≤ i → d[i]? = (writeAll P (bufs1 ++ b :: bufs2) 0)[i]?)
    (hflip : nextHeader P d 2 s = .ok (⟨p.length, FIRST, P.crc p⟩, payOff P s WHOLE p)) (k : Nat) :
    readSome P d (bufs1.length + 1 + k) 0 = (bufs1, true) := by
  apply log_whole_not_whole_detected g bufs1 b bufs2 hsz hb hsz2 d hlen s p hmem hag
  · intro h' o' hv _
    rw [hflip] at hv
    injection hv with hv
    injection hv with e1 e2
    subst e1; subst e2
    exact .inl ⟨rfl, rfl, rfl⟩
  · rw [hflip]; intro h; cases h
  · intro h' o' hv
    rw [hflip] at hv
    injection hv with hv
    injection hv with e1 e2
    subst e1
    show FIRST ≠ WHOLE
    decide

/-- the frames of an append carry one of the three discriminants -/
theorem framesOf_disc (g : Good P) (pos : Nat) (b : List Nat) (hb : b.length ≤ P.tableFull)
    (s disc : Nat) (p : List Nat) (hmem : (s, disc, p) ∈ framesOf P 2 pos b) :
    disc = WHOLE ∨ disc = FIRST ∨ disc = SECOND := by
  obtain ⟨s0, _, _, hlay⟩ := append_layout g (zeros pos) b [] hb
  rw [zeros_length] at hlay
  cases hlay with
  | whole hfr _ =>
    rw [hfr] at hmem
    simp only [List.mem_singleton, Prod.mk.injEq] at hmem
    exact .inl hmem.2.1
  | split fb s2 hfr _ _ _ _ =>
    rw [hfr] at hmem
    simp only [List.mem_cons, Prod.mk.injEq, List.not_mem_nil, or_false] at hmem
    rcases hmem with ⟨-, h2, -⟩ | ⟨-, h2, -⟩
    · exact .inr (.inl h2)
    · exact .inr (.inr h2)

/-- the header of a frame still decodes to what was written: the file reads as the pristine log -/
theorem log_disc_same_harmless (g : Good P) (bufs1 : List (List Nat)) (b : List Nat)
    (bufs2 : List (List Nat)) (hsz : ∀ x ∈ bufs1, x.length ≤ P.tableFull) (hb : b.length ≤ P.tableFull)
    (d : List Nat) (hlen : d.length = (writeAll P (bufs1 ++ b :: bufs2) 0).length)
    (s disc : Nat) (p : List Nat)
    (hmem : (s, disc, p) ∈ framesOf P 2 (writeAll P bufs1 0).length b)
    (hag : ∀ i, i < s ∨ payOff P s disc p ≤ i → d[i]? = (writeAll P (bufs1 ++ b :: bufs2) 0)[i]?)
    (hv : nextHeader P d 2 s = .ok (⟨p.length, disc, P.crc p⟩, payOff P s disc p)) :
    ∀ n, readSome P d n 0 = readSome P (writeAll P (bufs1 ++ b :: bufs2) 0) n 0 := by
  rw [file_split] at hag hlen ⊢
  generalize hpre : writeAll P bufs1 0 = pre at *
  generalize writeAll P bufs2 (pre.length + (appendAt P 2 pre.length b).length) = suf at *
  obtain ⟨s0, hgeo, hz, hlay⟩ := append_layout g pre b suf hb
  have hs0 := padGeom_le hgeo
  have key : pre.length ≤ s
      ∧ nextBatch P d 2 pre.length = nextBatch P (pre ++ appendAt P 2 pre.length b ++ suf) 2 pre.length
      ∧ ∀ x e, nextBatch P (pre ++ appendAt P 2 pre.length b ++ suf) 2 pre.length = .ok (x, e) →
          payOff P s disc p ≤ e := by
    cases hlay with
    | whole hfr hF =>
      rw [hfr] at hmem
      simp only [List.mem_singleton, Prod.mk.injEq] at hmem
      obtain ⟨rfl, rfl, rfl⟩ := hmem
      exact ⟨hs0, core_header_first_harmless g _ d hlen pre.length s WHOLE p hgeo hz hF hb (by decide) hag hv⟩
    | split fb s2 hfr hF1 hgap hzg hF2 =>
      rw [hfr] at hmem
      simp only [List.mem_cons, Prod.mk.injEq, List.not_mem_nil, or_false] at hmem
      rcases hmem with ⟨rfl, rfl, rfl⟩ | ⟨rfl, rfl, rfl⟩
      · exact ⟨hs0, core_header_first_harmless g _ d hlen pre.length s FIRST _ hgeo hz hF1
          (take_size_le b fb _ hb) (by decide) hag hv⟩
      · exact ⟨by have := hgap.2.1; omega,
          core_header_second_harmless g _ d hlen pre.length s0 s _ _ hgeo hz hF1 (take_size_le b fb _ hb)
            hgap hzg hF2 (drop_size_le b fb _ hb) hag hv⟩
  obtain ⟨hlo, hsame, hend⟩ := key
  subst hpre
  exact pristine_of_harmless g bufs1 hsz d _ suf hlen s (payOff P s disc p) hlo hag hsame hend

/-- **(3) the table of discriminant flips.**  One frame `(s, disc, p)` of any append of any log; the
    damaged image agrees with the log outside that frame's header, and the reader's view of the
    header has the size, checksum and payload offset that were written and the discriminant
    `disc'` (the discriminant is covered by no checksum).  For every pair `(disc, disc')`:

    | written | read as                      | the reader                                            |
    |---------|------------------------------|-------------------------------------------------------|
    | any     | the same                     | reads the file as the pristine log                    |
    | `FIRST` | `WHOLE`                      | batches before, the FRAGMENT `b.take n`, then an error|
    | `WHOLE` | `FIRST`                      | batches before, then an error (at the next append)    |
    | `WHOLE` | `SECOND` or an unknown value | batches before, then an error                         |
    | `FIRST` | `SECOND` or an unknown value | batches before, then an error                         |
    | `SECOND`| anything else                | batches before, then an error                         | -/
theorem log_disc_flip_table (g : Good P) (bufs1 : List (List Nat)) (b : List Nat)
    (bufs2 : List (List Nat))
    (hsz : ∀ x ∈ bufs1, x.length ≤ P.tableFull) (hb : b.length ≤ P.tableFull)
    (hsz2 : ∀ x ∈ bufs2, x.length ≤ P.tableFull)
    (d : List Nat) (hlen : d.length = (writeAll P (bufs1 ++ b :: bufs2) 0).length)
    (s disc : Nat) (p : List Nat)
    (hmem : (s, disc, p) ∈ framesOf P 2 (writeAll P bufs1 0).length b)
    (hag : ∀ i, i < s ∨ payOff P s disc p ≤ i → d[i]? = (writeAll P (bufs1 ++ b :: bufs2) 0)[i]?)
    (disc' : Nat)
    (hflip : nextHeader P d 2 s = .ok (⟨p.length, disc', P.crc p⟩, payOff P s disc p)) :
    (disc' = disc → ∀ n, readSome P d n 0 = readSome P (writeAll P (bufs1 ++ b :: bufs2) 0) n 0)
    ∧ (disc = FIRST → disc' = WHOLE →
        ∃ n, p = b.take n ∧ ∀ k, readSome P d (bufs1.length + 2 + k) 0 = (bufs1 ++ [b.take n], true))
    ∧ (disc' ≠ disc → ¬ (disc = FIRST ∧ disc' = WHOLE) →
        ∀ k, readSome P d (bufs1.length + 1 + k) 0 = (bufs1, true)) := by
  have hnc : ∀ h' o', nextHeader P d 2 s = .ok (h', o') → o' + h'.size ≤ d.length →
      (o' = payOff P s disc p ∧ h'.size = p.length ∧ h'.crc = P.crc p) ∨ P.crc (slice d o' h'.size) ≠ h'.crc := by
    intro h' o' hv _
    rw [hflip] at hv
    injection hv with hv
    injection hv with e1 e2
    subst e1; subst e2
    exact .inl ⟨rfl, rfl, rfl⟩
  have hne : nextHeader P d 2 s ≠ .eof := by rw [hflip]; intro h; cases h
  have hd' : ∀ h' o', nextHeader P d 2 s = .ok (h', o') → h'.disc = disc' := by
    intro h' o' hv
    rw [hflip] at hv
    injection hv with hv
    injection hv with e1 e2
    subst e1
    rfl
  refine ⟨?_, ?_, ?_⟩
  · intro he
    subst he
    exact log_disc_same_harmless g bufs1 b bufs2 hsz hb d hlen s disc' p hmem hag hflip
  · intro hF hW
    subst hF
    exact log_first_as_whole_fragment_exact g bufs1 b bufs2 hsz hb d hlen s p hmem hag _ hflip rfl rfl hW
  · intro hneq hnfw k
    by_cases hw : disc = WHOLE
    · subst hw
      exact log_whole_not_whole_detected g bufs1 b bufs2 hsz hb hsz2 d hlen s p hmem hag hnc hne
        (fun h' o' hv => by rw [hd' h' o' hv]; exact hneq) k
    · have hcl := framesOf_disc g _ b hb s disc p hmem
      rcases log_header_damage_detected g bufs1 b bufs2 hsz hb d hlen s disc p hmem hag hnc (fun _ => hne)
          (by
            intro hns h' o' hv
            right
            rw [hd' h' o' hv]
            have hf : disc = FIRST := by
              rcases hcl with h | h | h
              · exact absurd h hw
              · exact h
              · exact absurd h hns
            exact ⟨fun h => hnfw ⟨hf, h⟩, fun h => hneq (by rw [h, hf])⟩) with h | ⟨hv, _⟩
      · exact h k
      · rw [hflip] at hv
        injection hv with hv
        injection hv with e1 _
        injection e1 with _ e2 _
        exact absurd e2 hneq

/-! ### decidable checks of the hypotheses (for closed instances: non-vacuity, the driver) -/

def hdrCheck (P : Params) (d : List Nat) (s : Nat) (f : Hdr → Nat → Bool) : Bool :=
  match nextHeader P d 1 s with
  | .ok (h', o') => f h' o'
  | _ => true

theorem hdrCheck_spec {d : List Nat} {s : Nat} {f : Hdr → Nat → Bool} (h : hdrCheck P d s f = true)
    (h' : Hdr) (o' : Nat) (hv : nextHeader P d 1 s = .ok (h', o')) : f h' o' = true := by
  unfold hdrCheck at h; rw [hv] at h; exact h

def ncCheck (P : Params) (d : List Nat) (s disc : Nat) (p : List Nat) : Bool :=
  hdrCheck P d s (fun h' o' =>
    if o' + h'.size ≤ d.length ∧ P.crc (slice d o' h'.size) = h'.crc then
      decide (slice d o' h'.size = p ∧ o' + h'.size = s + (frame P disc p).length)
    else true)

theorem ncCheck_spec {d : List Nat} {s disc : Nat} {p : List Nat} (h : ncCheck P d s disc p = true) :
    FrameNoCollision P d s disc p := by
  intro h' o' hv hl hc
  have h1 := hdrCheck_spec h h' o' hv
  rw [if_pos ⟨hl, hc⟩] at h1
  exact of_decide_eq_true h1

def dcCheck (P : Params) (d : List Nat) (s disc : Nat) : Bool :=
  decide (disc = SECOND)
  || hdrCheck P d s (fun h' _ => decide (h'.disc = disc ∨ (h'.disc ≠ WHOLE ∧ h'.disc ≠ FIRST)))

theorem dcCheck_spec {d : List Nat} {s disc : Nat} (h : dcCheck P d s disc = true) : DiscKept P d s disc := by
  intro hns h' o' hv
  unfold dcCheck at h
  simp only [Bool.or_eq_true] at h
  rcases h with h1 | h2
  · exact absurd (of_decide_eq_true h1) hns
  · exact of_decide_eq_true (hdrCheck_spec h2 h' o' hv)

def padCheck (P : Params) (d : List Nat) (pos : Nat) : Bool :=
  hdrCheck P d pos (fun h' o' => decide (o' + h'.size ≤ d.length → P.crc (slice d o' h'.size) ≠ h'.crc))

theorem padCheck_spec {d : List Nat} {pos : Nat} (h : padCheck P d pos = true) : NoFrameAt P d pos :=
  fun h' o' hv => of_decide_eq_true (hdrCheck_spec h h' o' hv)

/-- the hypotheses of one append, decided (for every frame, changed or not); `z`: with the
    exclusion of D-29 -/
def appendCheck (P : Params) (z : Bool) (d : List Nat) (pos : Nat) (b : List Nat) : Bool :=
  (framesOf P 2 pos b).all (fun x => ncCheck P d x.1 x.2.1 x.2.2 && dcCheck P d x.1 x.2.1
      && (!z || !decide (ZeroedFrameInPadWindow P d x.1)))
  && (match (framesOf P 2 pos b).head? with
      | some x => !decide (pos < x.1) || padCheck P d pos
      | none => true)

theorem appendCheck_spec {z : Bool} {d : List Nat} {pos : Nat} {b : List Nat} (h : appendCheck P z d pos b = true) :
    TouchedHyp P d pos b ∧ (z = true → TouchedNotD29 P d pos b) := by
  unfold appendCheck at h
  simp only [Bool.and_eq_true, List.all_eq_true] at h
  obtain ⟨hall, hpad⟩ := h
  refine ⟨⟨?_, ?_, ?_⟩, ?_⟩
  · intro s disc p hmem _
    exact ncCheck_spec (hall (s, disc, p) hmem).1.1
  · intro s disc p hmem _
    exact dcCheck_spec (hall (s, disc, p) hmem).1.2
  · intro x hx hlt _
    rw [hx] at hpad
    simp only [Bool.or_eq_true, Bool.not_eq_true', decide_eq_false_iff_not] at hpad
    rcases hpad with h1 | h2
    · exact absurd hlt h1
    · exact padCheck_spec h2
  · intro hz s disc p hmem hzf
    have h3 := (hall (s, disc, p) hmem).2
    rw [hz] at h3
    simp only [Bool.not_true, Bool.false_or, Bool.not_eq_true', decide_eq_false_iff_not] at h3
    exact h3 hzf

def logCheck (P : Params) (z : Bool) (d : List Nat) : List (List Nat) → Nat → Bool
  | [], _ => true
  | b :: bs, pos => appendCheck P z d pos b && logCheck P z d bs (pos + (appendAt P 2 pos b).length)

theorem logCheck_spec (z : Bool) (d : List Nat) : ∀ (bufs : List (List Nat)) (pos : Nat),
    logCheck P z d bufs pos = true → ∀ b1 b b2, bufs = b1 ++ b :: b2 →
      appendCheck P z d (pos + (writeAll P b1 pos).length) b = true := by
  intro bufs
  induction bufs with
  | nil =>
    intro pos _ b1 b b2 hsp
    cases b1 <;> cases hsp
  | cons x xs ih =>
    intro pos h b1 b b2 hsp
    simp only [logCheck, Bool.and_eq_true] at h
    cases b1 with
    | nil =>
      simp only [List.nil_append] at hsp
      injection hsp with e1 e2
      subst e1
      simpa only [writeAll, List.length_nil, Nat.add_zero] using h.1
    | cons y ys =>
      simp only [List.cons_append] at hsp
      injection hsp with e1 e2
      subst e1
      have := ih _ h.2 ys b b2 e2
      simpa only [writeAll, List.length_append, Nat.add_assoc] using this

theorem hyps_of_logCheck {z : Bool} {d : List Nat} {bufs : List (List Nat)} (h : logCheck P z d bufs 0 = true) :
    ∀ b1 b b2, bufs = b1 ++ b :: b2 →
      TouchedHyp P d (startOf P b1) b ∧ (z = true → TouchedNotD29 P d (startOf P b1) b) := by
  intro b1 b b2 hsp
  have := logCheck_spec z d bufs 0 h b1 b b2 hsp
  rw [Nat.zero_add] at this
  exact appendCheck_spec this

/-- agreement outside a decidable set of offsets, from the offsets inside the file -/
theorem agree_of_bounded (d F : List Nat) (hlen : d.length = F.length) (Q : Nat → Prop)
    (h : ∀ i, i < d.length → Q i → d[i]? = F[i]?) : ∀ i, Q i → d[i]? = F[i]? := by
  intro i hq
  by_cases hi : i < d.length
  · exact h i hi hq
  · rw [List.getElem?_eq_none (by omega), List.getElem?_eq_none (by omega)]

/-! ### closed instances on the toy parameters (`B = 16`, `H = 4`, 3-byte headers, checksum = sum mod 251) -/

theorem good_toyFrame : Good toyFrameParams where
  hH := by decide
  hB := by decide
  crc_lt := fun l => Nat.lt_of_lt_of_le (Nat.mod_lt _ (by decide)) (by decide)
  tf_lt := by decide
  dec_enc := fun _ _ _ _ => rfl
  enc_len := fun _ _ _ _ => ⟨by show 1 ≤ 3; omega, by show 3 + 1 ≤ 4; omega⟩

/-- three appends: a `WHOLE` frame at 0..7, one at 7..13, three bytes of padding, one at 16..21 -/
def toy3 : List (List Nat) := [[1, 2, 3], [4, 5], [6]]
def toy3Log : List Nat := writeAll toyFrameParams toy3 0

/-- header (checksum field, offset 10) and payload (offset 11) of the 2nd append -/
def toy3HdrPay : List Nat := (toy3Log.set 10 8).set 11 5
/-- payload of the 2nd append (12), the padding (14) and the payload of the 3rd (20) -/
def toy3TwoAppends : List Nat := ((toy3Log.set 12 6).set 14 1).set 20 7
/-- two disjoint regions: the payload of the 1st append (5) and of the 3rd (20) -/
def toy3TwoRegions : List Nat := (toy3Log.set 5 9).set 20 7

/-- the D-29 instance: an 8-byte batch (frame 0..12), an empty batch (frame 12..16, inside the
    padding window of the block boundary 16), a 1-byte batch at 16..21 -/
def toyD29 : List (List Nat) := [[1, 2, 3, 4, 5, 6, 7, 8], [], [6]]
def toyD29Log : List Nat := writeAll toyFrameParams toyD29 0
/-- the empty batch's frame overwritten with zeros -/
def toyD29Zeroed : List Nat := (((toyD29Log.set 12 0).set 13 0).set 14 0).set 15 0

/-- the discriminant byte (offset 9) of the 2nd append's `WHOLE` frame overwritten with `FIRST` -/
def toy3WholeFirst : List Nat := toy3Log.set 9 FIRST

/-- the discriminant bytes of the 2nd append (offset 9: `WHOLE` → `FIRST`) and of the 3rd (offset 18:
    `WHOLE` → `SECOND`) overwritten: damage that spans two appends -/
def toy3Fused : List Nat := (toy3Log.set 9 FIRST).set 18 SECOND

/-- **`DiscKept` cannot be dropped**: two discriminant bytes — no checksum covers them, every frame
    passes its CRC check — make the reader deliver the 2nd and 3rd batch FUSED into one batch that
    was never appended, without any error.  (The buffers are concatenated, so the ENTRIES handed out
    by `LogIterator::next` are the genuine ones in order; what is lost is the batch boundary.) -/
theorem disc_fusion_example :
    readSome toyFrameParams toy3Log 4 0 = ([[1, 2, 3], [4, 5], [6]], false)
    ∧ readSome toyFrameParams toy3Fused 4 0 = ([[1, 2, 3], [4, 5, 6]], false)
    ∧ logCheck toyFrameParams true toy3Fused toy3 0 = false
    ∧ ncCheck toyFrameParams toy3Fused 7 WHOLE [4, 5] = true
    ∧ ncCheck toyFrameParams toy3Fused 16 WHOLE [6] = true
    ∧ dcCheck toyFrameParams toy3Fused 7 WHOLE = false := by decide

end Blue.Log

#print axioms Blue.Log.append_step
#print axioms Blue.Log.log_damage_anywhere
#print axioms Blue.Log.log_damage_any_region
#print axioms Blue.Log.log_damage_several_regions
#print axioms Blue.Log.log_damage_outside_d29_never_silent
#print axioms Blue.Log.log_whole_not_whole_detected
#print axioms Blue.Log.log_whole_to_first_detected
#print axioms Blue.Log.log_disc_flip_table
