import Blue.Proofs.BvSparse
import Blue.Proofs.SigmaRange
import Blue.Proofs.SampledDoc
/-! The three places where the index stores a bit vector as a `sparse::BitVector` built with
    `from_indices` — the presence vector of a `SampledArray` (branch 128), the bucket vector of
    `Sigma` (branch 16) and the record-boundary vector of `PsiDocument` (branch 16) — answer, on the
    sparse model's tree, exactly like the plain bit arrays the `Sampled` / `Sigma` / `CsaDoc` models
    use. -/
namespace Blue.SparseUses
open Blue.BvSparse

theorem charList_eq_presentBits (len : Nat) (I : List Nat) :
    charList len I = Blue.Sampled.presentBits len I := by
  unfold charList Blue.Sampled.presentBits
  apply List.map_congr_left
  intro i _
  simp

/-- the sparse tree over strictly increasing positions below `len` answers like the plain bit array
    with ones exactly there -/
theorem sparse_presentBits (branch len : Nat) (I : List Nat) (hb1 : 4 ≤ branch) (hb2 : branch < 256)
    (hs : I.Pairwise (· < ·)) (hlt : ∀ i ∈ I, i < len) (hlen : len ≤ u64Max) :
    ∃ t, build branch len I = some t ∧ ∀ x,
      accessRank t x = Blue.Sampled.accessRank (Blue.Sampled.presentBits len I) x
      ∧ access t x = Blue.BitVec.access (Blue.Sampled.presentBits len I) x
      ∧ rank t x = Blue.BitVec.rank (Blue.Sampled.presentBits len I) x
      ∧ select t x = Blue.BitVec.select (Blue.Sampled.presentBits len I) x := by
  obtain ⟨hsome, hall⟩ := charList_theorems (branch := branch) (len := len) (I := I) hb1 hb2 hs hlt hlen
  obtain ⟨t, ht⟩ := Option.isSome_iff_exists.mp hsome
  refine ⟨t, ht, fun x => ?_⟩
  obtain ⟨h1, h2, h3, h4, _, _⟩ := hall t ht x
  rw [charList_eq_presentBits] at h1 h2 h3 h4
  refine ⟨?_, h2, h3, h4⟩
  rw [h1]
  unfold Blue.Sampled.accessRank
  rw [Blue.Sampled.presentBits_length]

/-- **C19** the presence vector of a `SampledArray` (`from_indices(128, last + 1, offsets)`) -/
theorem sampled_present (offs : List Nat) (last : Nat) (hs : offs.Pairwise (· < ·))
    (hlt : ∀ o ∈ offs, o ≤ last) (hlen : last + 1 ≤ u64Max) :
    ∃ t, build Blue.Sampled.presentBranch (last + 1) offs = some t ∧ ∀ x,
      accessRank t x = Blue.Sampled.accessRank (Blue.Sampled.presentBits (last + 1) offs) x :=
  let ⟨t, ht, h⟩ := sparse_presentBits Blue.Sampled.presentBranch (last + 1) offs (by decide) (by decide) hs
    (fun o ho => Nat.lt_succ_of_le (hlt o ho)) hlen
  ⟨t, ht, fun x => (h x).1⟩

/-- **C19** the bucket vector of `Sigma` (`from_indices(16, total + 1, buckets)`) -/
theorem sigma_columns (text : List Nat) (hlen : text.length + 1 ≤ u64Max) :
    ∃ t, build Blue.Sigma.columnsBranch (text.length + 1) (Blue.Sigma.bucketsOf text) = some t ∧ ∀ x,
      rank t x = Blue.BitVec.rank (Blue.Sigma.sigOf text).columns x
      ∧ select t x = Blue.BitVec.select (Blue.Sigma.sigOf text).columns x := by
  obtain ⟨t, ht, h⟩ := sparse_presentBits Blue.Sigma.columnsBranch (text.length + 1) (Blue.Sigma.bucketsOf text)
    (by decide) (by decide) (Blue.Sigma.bucketsOf_pairwise text) (Blue.Sigma.bucketsOf_lt text) hlen
  refine ⟨t, ht, fun x => ?_⟩
  rw [Blue.Sigma.sigOf_columns]
  exact ⟨(h x).2.2.1, (h x).2.2.2⟩

/-- the positions `PsiDocument::construct` hands to `from_indices`: `rb[1..].map(|b| b - 1)` -/
def sparseBoundaries (rb : List Nat) : List Nat := rb.tail.map (· - 1)

theorem boundaryBits_eq (n : Nat) (rb : List Nat) (hpos : ∀ b ∈ rb.tail, 1 ≤ b) :
    Blue.CsaDoc.boundaryBits n rb = Blue.Sampled.presentBits n (sparseBoundaries rb) := by
  unfold Blue.CsaDoc.boundaryBits Blue.Sampled.presentBits sparseBoundaries
  apply List.map_congr_left
  intro i _
  rw [Bool.eq_iff_iff]
  simp only [List.contains_iff_mem, List.mem_map]
  constructor
  · intro h; exact ⟨i + 1, h, by omega⟩
  · rintro ⟨b, hb, hbi⟩
    have := hpos b hb
    have : b = i + 1 := by omega
    rw [← this]; exact hb

/-- **C19** the record-boundary vector of `PsiDocument` (`from_indices(16, text.len(), rb[1..] - 1)`) -/
theorem record_boundaries (n : Nat) (rb : List Nat) (hadm : Blue.CsaDoc.admissible n rb = true)
    (hlen : n ≤ u64Max) :
    ∃ t, build Blue.Sampled.boundaryBranch n (sparseBoundaries rb) = some t ∧ ∀ x,
      rank t x = Blue.BitVec.rank (Blue.CsaDoc.boundaryBits n rb) x
      ∧ select t x = Blue.BitVec.select (Blue.CsaDoc.boundaryBits n rb) x := by
  have hadm' := hadm
  simp only [Blue.CsaDoc.admissible, Bool.and_eq_true, beq_iff_eq, decide_eq_true_eq] at hadm'
  obtain ⟨⟨⟨_, hinc⟩, h0⟩, hlast⟩ := hadm'
  have hpw := Blue.Sampled.pairwise_of_increasing rb hinc
  -- everything after the first boundary is above it, hence ≥ 1
  have htail : ∀ b ∈ rb.tail, 1 ≤ b ∧ b < n := by
    intro b hb
    cases rb with
    | nil => simp at hb
    | cons a t =>
      rw [List.pairwise_cons] at hpw
      simp only [List.tail_cons] at hb
      have h1 := hpw.1 b hb
      have h2 := Blue.CsaDoc.le_last_of_increasing (a :: t) hinc b (List.mem_cons_of_mem _ hb)
      omega
  have hs : (sparseBoundaries rb).Pairwise (· < ·) := by
    unfold sparseBoundaries
    rw [List.pairwise_map]
    have htp : rb.tail.Pairwise (· < ·) := by
      cases rb with
      | nil => simp
      | cons a t => rw [List.pairwise_cons] at hpw; exact hpw.2
    apply List.Pairwise.imp_of_mem _ htp
    intro a b ha hb hab
    have := (htail a ha).1
    have := (htail b hb).1
    omega
  have hlt : ∀ i ∈ sparseBoundaries rb, i < n := by
    intro i hi
    unfold sparseBoundaries at hi
    obtain ⟨b, hb, rfl⟩ := List.mem_map.mp hi
    have := htail b hb
    omega
  obtain ⟨t, ht, h⟩ := sparse_presentBits Blue.Sampled.boundaryBranch n (sparseBoundaries rb)
    (by decide) (by decide) hs hlt hlen
  refine ⟨t, ht, fun x => ?_⟩
  rw [boundaryBits_eq n rb (fun b hb => (htail b hb).1)]
  exact ⟨(h x).2.2.1, (h x).2.2.2⟩

end Blue.SparseUses

#print axioms Blue.SparseUses.sampled_present
#print axioms Blue.SparseUses.sigma_columns
#print axioms Blue.SparseUses.record_boundaries
