import Blue.Proofs.SpecOrder
/-! Range bounds on keys as an instance of the bounds cursor's hypotheses; the window is a filter. -/
namespace Blue.Spec
open Blue.Cursor Blue.Cursor.Filtered

variable {K : Type} [DecidableEq K]

inductive Bound (K : Type) where
  | unbounded
  | included (k : K)
  | excluded (k : K)

/-- the comparisons `BoundsCursor` performs, on versions -/
def bcfg (klt : K → K → Bool) (sb eb : Bound K) : BoundsCfg (Ver K) where
  startUnbounded := match sb with | .unbounded => true | _ => false
  endUnbounded := match eb with | .unbounded => true | _ => false
  endIncluded := match eb with | .included _ => true | _ => false
  geStart := fun e => match sb with | .included k => !klt e.1 k | .excluded k => !klt e.1 k | .unbounded => true
  geEnd := fun e => match eb with | .included k => !klt e.1 k | .excluded k => !klt e.1 k | .unbounded => true
  eqEnd := fun e => match eb with | .included k => decide (e.1 = k) | .excluded k => decide (e.1 = k) | .unbounded => false
  belowStart := fun e => match sb with | .unbounded => false | .included k => klt e.1 k | .excluded k => !klt k e.1
  aboveEnd := fun e => match eb with | .unbounded => false | .included k => klt k e.1 | .excluded k => !klt e.1 k

/-- SPECIFICATION of "the key lies in the interval": `start ≤ key ≤ end` with the bounds' own
    strictness, written as explicit comparisons on the key and *independent of the bounds-cursor
    model* (no reference to `bcfg`): `Included k` at the start is `¬ key < k`, `Excluded k` is
    `k < key`; at the end `¬ k < key` resp. `key < k`.  This is the predicate on the right-hand side
    of `scan_spec*`, `window_eq_range` and of the model driver's scan; `inRange_eq_cfg` is the bridge
    to the tests the cursor model performs. -/
def inRange (klt : K → K → Bool) (sb eb : Bound K) (e : Ver K) : Bool :=
  (match sb with | .unbounded => true | .included k => !klt e.1 k | .excluded k => klt k e.1) &&
  (match eb with | .unbounded => true | .included k => !klt k e.1 | .excluded k => klt e.1 k)

/-- bridge: the specification `inRange` is "neither below the start nor above the end" in the
    sense of the two key tests `BoundsCursor` performs (`bcfg`).  A wrong comparison in `bcfg`
    would make this lemma (and with it `window_eq_range`, `scan_spec`) fail, not be mirrored
    into the specification. -/
theorem inRange_eq_cfg (klt : K → K → Bool) (sb eb : Bound K) (e : Ver K) :
    inRange klt sb eb e = (!(bcfg klt sb eb).belowStart e && !(bcfg klt sb eb).aboveEnd e) := by
  cases sb <;> cases eb <;> simp [inRange, bcfg]

omit [DecidableEq K] in
/-- the specification read as a proposition, for a strict total order on keys: with `a ≤ b := ¬ b < a` -/
theorem inRange_iff (klt : K → K → Bool) (sb eb : Bound K) (e : Ver K) :
    inRange klt sb eb e = true ↔
      (match sb with | .unbounded => True | .included k => klt e.1 k = false | .excluded k => klt k e.1 = true) ∧
      (match eb with | .unbounded => True | .included k => klt k e.1 = false | .excluded k => klt e.1 k = true) := by
  cases sb <;> cases eb <;> simp [inRange]

omit [DecidableEq K] in
/-- the specification looks at the key only -/
theorem inRange_key (klt : K → K → Bool) (sb eb : Bound K) {a b : Ver K} (h : a.1 = b.1) :
    inRange klt sb eb a = inRange klt sb eb b := by
  unfold inRange; rw [h]

/-- keys never decrease along the list -/
def KeysMono (klt : K → K → Bool) (xs : List (Ver K)) : Prop :=
  ∀ (i j : Nat) (a b : Ver K), i ≤ j → xs[i]? = some a → xs[j]? = some b → klt b.1 a.1 = false

theorem keysMono_of_sorted {klt : K → K → Bool} (st : StrictTotal klt) {M : List (Ver K)} (hs : Sorted klt M) :
    KeysMono klt M := fun _ _ _ _ hij ha hb => keys_mono st hs hij ha hb

theorem sorted_filter {klt : K → K → Bool} {M : List (Ver K)} (hs : Sorted klt M) (p : Ver K → Bool) :
    Sorted klt (M.filter p) := List.Pairwise.filter p hs

section
variable {klt : K → K → Bool} (st : StrictTotal klt)
include st

theorem le_lt_trans {a b c : K} (h1 : klt b a = false) (h2 : klt b c = true) : klt a c = true := by
  by_cases hab : a = b
  · subst hab; exact h2
  · rcases st.total a b hab with h | h
    · exact st.trans _ _ _ h h2
    · rw [h] at h1; cases h1

theorem lt_le_trans {a b c : K} (h1 : klt a b = true) (h2 : klt c b = false) : klt a c = true := by
  by_cases hbc : b = c
  · subst hbc; exact h1
  · rcases st.total b c hbc with h | h
    · exact st.trans _ _ _ h1 h
    · rw [h] at h2; cases h2

/-- `belowStart` holds on an initial segment -/
theorem below_down (sb eb : Bound K) {a b : Ver K} (hab : klt b.1 a.1 = false)
    (hb : (bcfg klt sb eb).belowStart b = true) : (bcfg klt sb eb).belowStart a = true := by
  cases sb with
  | unbounded => simp [bcfg] at hb
  | included k =>
    simp only [bcfg] at hb ⊢
    exact le_lt_trans st hab hb
  | excluded k =>
    simp only [bcfg, Bool.not_eq_true'] at hb ⊢
    -- b ≤ k and a ≤ b
    cases h : klt k a.1 with
    | false => rfl
    | true =>
      have := lt_le_trans st h hab
      rw [hb] at this; cases this

/-- `aboveEnd` holds on a final segment -/
theorem above_up (sb eb : Bound K) {a b : Ver K} (hab : klt b.1 a.1 = false)
    (ha : (bcfg klt sb eb).aboveEnd a = true) : (bcfg klt sb eb).aboveEnd b = true := by
  cases eb with
  | unbounded => simp [bcfg] at ha
  | included k =>
    simp only [bcfg] at ha ⊢
    exact lt_le_trans st ha hab
  | excluded k =>
    simp only [bcfg, Bool.not_eq_true'] at ha ⊢
    cases h : klt b.1 k with
    | false => rfl
    | true =>
      have := le_lt_trans st hab h
      rw [ha] at this; cases this

theorem ge_up (k : K) {a b : Ver K} (hab : klt b.1 a.1 = false) (ha : klt a.1 k = false) : klt b.1 k = false := by
  cases h : klt b.1 k with
  | false => rfl
  | true => have := le_lt_trans st hab h; rw [ha] at this; cases this

end

theorem findIdx_le_of_imp {α : Type} (p q : α → Bool) (xs : List α) (h : ∀ e ∈ xs, q e = true → p e = true) :
    xs.findIdx p ≤ xs.findIdx q := List.findIdx_le_findIdx h

/-- a predicate that, once true, stays true along the list: true exactly from `findIdx` on -/
theorem up_iff {α : Type} (p : α → Bool) (xs : List α)
    (hup : ∀ (i j : Nat) (a b : α), i ≤ j → xs[i]? = some a → xs[j]? = some b → p a = true → p b = true)
    (i : Nat) (e : α) (he : xs[i]? = some e) : p e = true ↔ xs.findIdx p ≤ i := by
  constructor
  · intro hp
    apply Nat.le_of_not_lt
    intro hlt
    have := List.not_of_lt_findIdx hlt
    obtain ⟨hi, rfl⟩ := List.getElem?_eq_some_iff.mp he
    rw [hp] at this; cases this
  · intro hle
    have hi := (List.getElem?_eq_some_iff.mp he).1
    have hf : xs.findIdx p < xs.length := by omega
    have h1 : p xs[xs.findIdx p] = true := List.findIdx_getElem (w := hf)
    exact hup _ _ _ _ hle (by simp [hf]) he h1

theorem boundsOk_of_keysMono {klt : K → K → Bool} (st : StrictTotal klt) (sb eb : Bound K)
    (xs : List (Ver K)) (hm : KeysMono klt xs) :
    BoundsOk (bcfg klt sb eb) xs
      (xs.findIdx (fun e => !(bcfg klt sb eb).belowStart e)) (xs.findIdx (bcfg klt sb eb).aboveEnd) := by
  have hnb_up : ∀ (i j : Nat) (a b : Ver K), i ≤ j → xs[i]? = some a → xs[j]? = some b →
      (!(bcfg klt sb eb).belowStart a) = true → (!(bcfg klt sb eb).belowStart b) = true := by
    intro i j a b hij ha hb h
    cases hbb : (bcfg klt sb eb).belowStart b with
    | false => rfl
    | true =>
      have := below_down st sb eb (hm i j a b hij ha hb) hbb
      rw [this] at h; cases h
  have hab_up : ∀ (i j : Nat) (a b : Ver K), i ≤ j → xs[i]? = some a → xs[j]? = some b →
      (bcfg klt sb eb).aboveEnd a = true → (bcfg klt sb eb).aboveEnd b = true :=
    fun i j a b hij ha hb h => above_up st sb eb (hm i j a b hij ha hb) h
  refine ⟨List.findIdx_le_length, List.findIdx_le_length, ?_, ?_, ?_, ?_, ?_, ?_, ?_, ?_⟩
  · -- below
    intro i e he
    have := up_iff (fun e => !(bcfg klt sb eb).belowStart e) xs hnb_up i e he
    constructor
    · intro hb
      apply Nat.lt_of_not_le
      intro hle
      have := this.mpr hle
      simp only [Bool.not_eq_true'] at this
      rw [hb] at this; cases this
    · intro hlt
      cases hb : (bcfg klt sb eb).belowStart e with
      | true => rfl
      | false =>
        have := this.mp (by simp [hb])
        omega
  · -- above
    intro i e he
    exact up_iff _ xs hab_up i e he
  · -- start unbounded
    intro hu
    cases sb with
    | unbounded =>
      cases xs with
      | nil => rfl
      | cons a t => simp [bcfg, List.findIdx_cons]
    | included k => simp [bcfg] at hu
    | excluded k => simp [bcfg] at hu
  · -- start seek
    intro hu
    apply findIdx_le_of_imp
    intro e _ h
    cases sb with
    | unbounded => simp [bcfg] at hu
    | included k => simpa [bcfg] using h
    | excluded k =>
      simp only [bcfg, Bool.not_not] at h ⊢
      -- k < e → ¬ e < k
      simp only [Bool.not_eq_true']
      exact st.asymm _ _ h
  · -- end unbounded
    intro hu
    cases eb with
    | unbounded =>
      apply List.findIdx_eq_length_of_false
      intro e _; simp [bcfg]
    | included k => simp [bcfg] at hu
    | excluded k => simp [bcfg] at hu
  · -- end excluded
    intro hu hi
    cases eb with
    | unbounded => simp [bcfg] at hu
    | included k => simp [bcfg] at hi
    | excluded k => rfl
  · -- end included: seek lands at or before the first entry beyond the bound
    intro hu hi
    apply findIdx_le_of_imp
    intro e _ h
    cases eb with
    | unbounded => simp [bcfg] at hu
    | included k =>
      simp only [bcfg] at h ⊢
      simp only [Bool.not_eq_true']
      exact st.asymm _ _ h
    | excluded k => simp [bcfg] at hi
  · -- end included: from the seek position on, "equal to the bound" = "not beyond it"
    intro hu hi i e hle he
    cases eb with
    | unbounded => simp [bcfg] at hu
    | excluded k => simp [bcfg] at hi
    | included k =>
      have hge_up : ∀ (i j : Nat) (a b : Ver K), i ≤ j → xs[i]? = some a → xs[j]? = some b →
          (!klt a.1 k) = true → (!klt b.1 k) = true := by
        intro i j a b hij ha hb h
        simp only [Bool.not_eq_true'] at h ⊢
        exact ge_up st k (hm i j a b hij ha hb) h
      have hle' : xs.findIdx (fun e : Ver K => !klt e.1 k) ≤ i := hle
      have hge : (!klt e.1 k) = true := (up_iff (fun e : Ver K => !klt e.1 k) xs hge_up i e he).mpr hle'
      simp only [Bool.not_eq_true'] at hge
      have habove := up_iff _ xs hab_up i e he
      simp only [bcfg] at habove ⊢
      simp only [decide_eq_true_eq]
      constructor
      · intro hek
        apply Nat.lt_of_not_le
        intro h
        have := habove.mpr h
        rw [hek, st.irrefl] at this; cases this
      · intro hlt
        have hnot : klt k e.1 = false := by
          cases h : klt k e.1 with
          | false => rfl
          | true => have := habove.mp h; omega
        exact st.eq_of_not_lt _ _ hge hnot

/-- generic: a predicate true exactly on the index interval `[lo, hi)` filters to the window -/
theorem filter_eq_window {α : Type} (p : α → Bool) :
    ∀ (xs : List α) (lo hi : Nat),
      (∀ (i : Nat) (e : α), xs[i]? = some e → (p e = true ↔ lo ≤ i ∧ i < hi)) →
      xs.filter p = window xs lo hi := by
  intro xs
  induction xs with
  | nil => intros; simp [window]
  | cons a t ih =>
    intro lo hi h
    have h0 := h 0 a rfl
    have ht : ∀ lo' hi', (∀ (i : Nat) (e : α), t[i]? = some e → (p e = true ↔ lo' ≤ i ∧ i < hi')) →
        t.filter p = window t lo' hi' := fun lo' hi' => ih lo' hi'
    cases lo with
    | zero =>
      cases hi with
      | zero =>
        have : ∀ e ∈ a :: t, ¬ p e = true := by
          intro e he hp
          obtain ⟨i, hi, rfl⟩ := List.getElem_of_mem he
          have := (h i _ (by simp [hi])).mp hp
          omega
        rw [List.filter_eq_nil_iff.mpr this]
        simp [window]
      | succ hi' =>
        have hpa : p a = true := h0.mpr ⟨Nat.le_refl _, by omega⟩
        rw [List.filter_cons, if_pos hpa]
        have := ht 0 hi' (by
          intro i e he
          have := h (i + 1) e (by simpa using he)
          rw [this]; omega)
        rw [this]
        simp [window]
    | succ lo' =>
      have hpa : ¬ p a = true := by
        intro hp; have := h0.mp hp; omega
      rw [List.filter_cons, if_neg hpa]
      have := ht lo' (hi - 1) (by
        intro i e he
        have := h (i + 1) e (by simpa using he)
        rw [this]; omega)
      rw [this]
      unfold window
      simp only [List.drop_succ_cons]
      congr 1
      omega

/-- **C03, list level**: the window of the bounds cursor is the range filter -/
theorem window_eq_range {klt : K → K → Bool} (st : StrictTotal klt) (sb eb : Bound K)
    (xs : List (Ver K)) (hm : KeysMono klt xs) :
    window xs (xs.findIdx (fun e => !(bcfg klt sb eb).belowStart e)) (xs.findIdx (bcfg klt sb eb).aboveEnd)
      = xs.filter (inRange klt sb eb) := by
  have ok := boundsOk_of_keysMono st sb eb xs hm
  symm
  apply filter_eq_window
  intro i e he
  rw [inRange_eq_cfg]
  have h1 := ok.below i e he
  have h2 := ok.above i e he
  simp only [Bool.and_eq_true, Bool.not_eq_true']
  constructor
  · intro ⟨hb, ha⟩
    constructor
    · apply Nat.le_of_not_lt; intro hlt; have := h1.mpr hlt; rw [hb] at this; cases this
    · apply Nat.lt_of_not_le; intro hle; have := h2.mpr hle; rw [ha] at this; cases this
  · intro ⟨hlo, hhi⟩
    constructor
    · cases hb : (bcfg klt sb eb).belowStart e with
      | false => rfl
      | true => have := h1.mp hb; omega
    · cases ha : (bcfg klt sb eb).aboveEnd e with
      | false => rfl
      | true => have := h2.mp ha; omega


#print axioms Blue.Spec.window_eq_range
#print axioms Blue.Spec.inRange_eq_cfg
end Blue.Spec
