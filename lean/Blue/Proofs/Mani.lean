import Blue.Model.Mani
namespace Blue.Mani

theorem digitVal_hexDigit (d : Nat) (h : d < 16) : digitVal (hexDigit d) = some d := by
  unfold hexDigit digitVal
  by_cases h10 : d < 10
  · rw [if_pos h10, if_pos (by omega)]; congr 1; omega
  · rw [if_neg h10, if_neg (by omega), if_pos (by omega)]; congr 1; omega

theorem hexDigit_ne_plus (d : Nat) (h : d < 16) : hexDigit d ≠ 43 := by
  unfold hexDigit; split <;> omega

theorem hexDigit_ascii (d : Nat) (h : d < 16) : hexDigit d < 128 ∧ hexDigit d ≠ 10 ∧ hexDigit d ≠ 13 ∧ hexDigit d ≠ 45 := by
  unfold hexDigit; split <;> omega

/-- the checksum prefix parses back -/
theorem parseHex8_hex8 (c : Nat) (hc : c < 4294967296) : parseHex8 (hex8 c) = some c := by
  unfold hex8 parseHex8
  have h0 := hexDigit_ne_plus (c / 268435456 % 16) (by omega)
  split
  · rename_i t heq
    injection heq with h1 _
    exact absurd h1 h0
  · simp only [List.cons_ne_nil, if_false, parseDigits,
      digitVal_hexDigit _ (show c / 268435456 % 16 < 16 by omega),
      digitVal_hexDigit _ (show c / 16777216 % 16 < 16 by omega),
      digitVal_hexDigit _ (show c / 1048576 % 16 < 16 by omega),
      digitVal_hexDigit _ (show c / 65536 % 16 < 16 by omega),
      digitVal_hexDigit _ (show c / 4096 % 16 < 16 by omega),
      digitVal_hexDigit _ (show c / 256 % 16 < 16 by omega),
      digitVal_hexDigit _ (show c / 16 % 16 < 16 by omega),
      digitVal_hexDigit _ (show c % 16 < 16 by omega)]
    congr 1
    omega

/-- strings the reader hands back unchanged: non-empty, ASCII, no newline, no trailing `\r` -/
def StrOk (s : List Nat) : Prop := s ≠ [] ∧ (∀ b ∈ s, b < 128 ∧ b ≠ 10) ∧ s.getLast? ≠ some 13

def CrcOk (crc : List Nat → Nat) : Prop := ∀ l, crc l < 4294967296

theorem hex8_length (c : Nat) : (hex8 c).length = 8 := rfl

theorem hex8_ascii (c : Nat) : ∀ b ∈ hex8 c, b < 128 ∧ b ≠ 10 := by
  intro b hb
  unfold hex8 at hb
  simp only [List.mem_cons, List.not_mem_nil, or_false] at hb
  rcases hb with rfl | rfl | rfl | rfl | rfl | rfl | rfl | rfl <;>
    exact ⟨(hexDigit_ascii _ (by omega)).1, (hexDigit_ascii _ (by omega)).2.1⟩

variable (crc : List Nat → Nat)

theorem parseLine_body (hcrc : CrcOk crc) (action : Nat) (payload : List Nat) (ha : action < 128)
    (hp : StrOk payload) :
    parseLine crc (hex8 (crc (action :: payload)) ++ action :: payload) =
      if action = 43 then .add payload else if action = 45 then .rm payload
      else if action = 10 then .corrupt else .info action payload := by
  obtain ⟨hne, hbytes, _⟩ := hp
  unfold parseLine
  have hany : (hex8 (crc (action :: payload)) ++ action :: payload).any (fun b => decide (b ≥ 128)) = false := by
    rw [List.any_eq_false]
    intro b hb
    simp only [List.mem_append, List.mem_cons] at hb
    simp only [decide_eq_true_eq]
    rcases hb with hb | rfl | hb
    · have := (hex8_ascii _ b hb).1; omega
    · omega
    · have := (hbytes b hb).1; omega
  rw [hany]
  simp only [Bool.false_eq_true, if_false]
  have hlen : (hex8 (crc (action :: payload)) ++ action :: payload).length = 9 + payload.length := by
    simp [hex8_length]; omega
  have hpl : 0 < payload.length := List.length_pos_iff.mpr hne
  have hsep : hex8 (crc (action :: payload)) ++ action :: payload ≠ SEP := by
    intro h
    have := congrArg List.length h
    rw [hlen] at this
    simp [SEP] at this
    omega
  rw [if_neg hsep, if_pos (by rw [hlen]; omega)]
  have htake : (hex8 (crc (action :: payload)) ++ action :: payload).take 8 = hex8 (crc (action :: payload)) :=
    List.take_left' (hex8_length _)
  have hdrop : (hex8 (crc (action :: payload)) ++ action :: payload).drop 8 = action :: payload :=
    List.drop_left' (hex8_length _)
  have hdrop9 : (hex8 (crc (action :: payload)) ++ action :: payload).drop 9 = payload := by
    have : (9 : Nat) = 8 + 1 := rfl
    rw [this, ← List.drop_drop, hdrop]
    rfl
  rw [htake, parseHex8_hex8 _ (hcrc _)]
  simp only [hdrop, hdrop9, ne_eq, not_true_eq_false, if_false, List.headD_cons]

theorem splitLine_line (line rest : List Nat) (h : ∀ b ∈ line, b ≠ 10) :
    splitLine (line ++ 10 :: rest) = (line, some rest) := by
  induction line with
  | nil => rfl
  | cons b t ih =>
    have hb : b ≠ 10 := h b (List.mem_cons_self ..)
    have := ih (fun x hx => h x (List.mem_cons_of_mem _ hx))
    simp only [List.cons_append]
    unfold splitLine
    split
    · rename_i heq; cases heq
    · rename_i heq; injection heq with h1 _; exact absurd h1 hb
    · rename_i heq; injection heq with h1 h2; subst h1 h2; simp only [this]

theorem stripCr_id (l : List Nat) (h : l.getLast? ≠ some 13) : stripCr l = l := by
  unfold stripCr; rw [if_neg h]

/-- what the reader makes of one written line -/
theorem line_roundtrip (hcrc : CrcOk crc) (action : Nat) (payload rest : List Nat) (ha : action < 128)
    (ha10 : action ≠ 10) (hp : StrOk payload) :
    splitLine (crcLine crc (action :: payload) ++ rest)
        = (hex8 (crc (action :: payload)) ++ action :: payload, some rest)
    ∧ stripCr (hex8 (crc (action :: payload)) ++ action :: payload)
        = hex8 (crc (action :: payload)) ++ action :: payload := by
  constructor
  · unfold crcLine
    have : hex8 (crc (action :: payload)) ++ (action :: payload) ++ [10] ++ rest
        = (hex8 (crc (action :: payload)) ++ action :: payload) ++ 10 :: rest := by simp
    rw [this]
    apply splitLine_line
    intro b hb
    simp only [List.mem_append, List.mem_cons] at hb
    rcases hb with hb | rfl | hb
    · exact (hex8_ascii _ b hb).2
    · exact ha10
    · exact (hp.2.1 b hb).2
  · apply stripCr_id
    have hne : payload ≠ [] := hp.1
    have : (hex8 (crc (action :: payload)) ++ action :: payload).getLast? = payload.getLast? := by
      obtain ⟨p0, pt, rfl⟩ := List.exists_cons_of_ne_nil hne
      rw [show hex8 (crc (action :: p0 :: pt)) ++ action :: p0 :: pt
            = (hex8 (crc (action :: p0 :: pt)) ++ [action]) ++ (p0 :: pt) by simp]
      rw [List.getLast?_append]
      have : (p0 :: pt).getLast? = some ((p0 :: pt).getLast (by simp)) := List.getLast?_eq_some_getLast _
      rw [this]; simp
    rw [this]
    exact hp.2.2

/-- the lines of an edit, as items -/
inductive Item where
  | rm (s : List Nat)
  | add (s : List Nat)
  | info (k : Nat) (s : List Nat)

def Item.line : Item → List Nat
  | .rm s => crcLine crc (45 :: s)
  | .add s => crcLine crc (43 :: s)
  | .info k s => crcLine crc (k :: s)

def Item.applyTo (cur : Edit) : Item → Edit
  | .rm s => { cur with rm := cur.rm ++ [s] }
  | .add s => { cur with add := cur.add ++ [s] }
  | .info k s => { cur with info := cur.info ++ [(k, s)] }

def Item.Ok : Item → Prop
  | .rm s => StrOk s
  | .add s => StrOk s
  | .info k s => StrOk s ∧ k < 128 ∧ k ≠ 10 ∧ k ≠ 43 ∧ k ≠ 45

def items (e : Edit) : List Item :=
  e.rm.map .rm ++ e.add.map .add ++ e.info.map (fun kv => .info kv.1 kv.2)

theorem encodeEdit_items (e : Edit) :
    encodeEdit crc e = (items e).flatMap (Item.line crc) ++ SEP ++ [10] := by
  unfold encodeEdit items
  simp only [List.flatMap_append, List.flatMap_map, Item.line]

theorem crcLine_ne_nil (body : List Nat) : crcLine crc body ≠ [] := by
  unfold crcLine; simp

theorem readEdits_unfold (f : Nat) (bs : List Nat) (cur : Edit) (hne : bs ≠ []) :
    readEdits crc (f + 1) bs cur =
      match parseLine crc (stripCr (splitLine bs).1) with
      | .corrupt => ([], true)
      | .sep => (cur :: (readEdits crc f ((splitLine bs).2.getD []) Edit.empty).1,
                 (readEdits crc f ((splitLine bs).2.getD []) Edit.empty).2)
      | .rm s => readEdits crc f ((splitLine bs).2.getD []) { cur with rm := cur.rm ++ [s] }
      | .add s => readEdits crc f ((splitLine bs).2.getD []) { cur with add := cur.add ++ [s] }
      | .info k s => readEdits crc f ((splitLine bs).2.getD []) { cur with info := cur.info ++ [(k, s)] } := by
  cases bs with
  | nil => exact absurd rfl hne
  | cons b t =>
    simp only [readEdits]
    cases splitLine (b :: t) with
    | mk line rest => rfl

theorem readEdits_step (hcrc : CrcOk crc) (f : Nat) (it : Item) (hok : it.Ok) (rest : List Nat) (cur : Edit) :
    readEdits crc (f + 1) (it.line crc ++ rest) cur = readEdits crc f rest (it.applyTo cur) := by
  have hne : it.line crc ++ rest ≠ [] := by
    cases it <;> simp [Item.line, crcLine]
  rw [readEdits_unfold crc f _ cur hne]
  cases it with
  | rm s =>
    obtain ⟨h1, h2⟩ := line_roundtrip crc hcrc 45 s rest (by omega) (by omega) hok
    have hp := parseLine_body crc hcrc 45 s (by omega) hok
    simp only [Item.line]
    rw [h1]
    simp only [h2, hp, Option.getD_some, Item.applyTo]
    rfl
  | add s =>
    obtain ⟨h1, h2⟩ := line_roundtrip crc hcrc 43 s rest (by omega) (by omega) hok
    have hp := parseLine_body crc hcrc 43 s (by omega) hok
    simp only [Item.line]
    rw [h1]
    simp only [h2, hp, Option.getD_some, Item.applyTo]
    rfl
  | info k s =>
    obtain ⟨hs, hk, hk10, hk43, hk45⟩ := hok
    obtain ⟨h1, h2⟩ := line_roundtrip crc hcrc k s rest hk hk10 hs
    have hp := parseLine_body crc hcrc k s hk hs
    simp only [Item.line]
    rw [h1]
    simp only [h2, hp, Option.getD_some, Item.applyTo, hk43, hk45, hk10, if_false]

theorem readEdits_items (hcrc : CrcOk crc) :
    ∀ (its : List Item) (f : Nat) (rest : List Nat) (cur : Edit), (∀ it ∈ its, it.Ok) →
      readEdits crc (f + its.length) (its.flatMap (Item.line crc) ++ rest) cur
        = readEdits crc f rest (its.foldl Item.applyTo cur) := by
  intro its
  induction its with
  | nil => intro f rest cur _; rfl
  | cons it its ih =>
    intro f rest cur hok
    simp only [List.flatMap_cons, List.append_assoc, List.length_cons, List.foldl_cons]
    have : f + (its.length + 1) = (f + its.length) + 1 := by omega
    rw [this, readEdits_step crc hcrc _ it (hok it (List.mem_cons_self ..))]
    exact ih f rest _ (fun x hx => hok x (List.mem_cons_of_mem _ hx))

theorem readEdits_sep (f : Nat) (rest : List Nat) (cur : Edit) :
    readEdits crc (f + 1) (SEP ++ 10 :: rest) cur
      = (cur :: (readEdits crc f rest Edit.empty).1, (readEdits crc f rest Edit.empty).2) := by
  have h1 : splitLine (SEP ++ 10 :: rest) = (SEP, some rest) :=
    splitLine_line SEP rest (by intro b hb; simp [SEP] at hb; omega)
  have h2 : stripCr SEP = SEP := by decide
  have h3 : parseLine crc SEP = .sep := by
    unfold parseLine
    have : SEP.any (fun b => decide (b ≥ 128)) = false := by decide
    rw [this]; simp
  rw [readEdits_unfold crc f _ cur (by simp [SEP]), h1]
  simp only [h2, h3, Option.getD_some]

theorem foldl_items (e : Edit) : (items e).foldl Item.applyTo Edit.empty = e := by
  have hrm : ∀ (l : List (List Nat)) (cur : Edit),
      (l.map Item.rm).foldl Item.applyTo cur = { cur with rm := cur.rm ++ l } := by
    intro l; induction l with
    | nil => intro cur; simp
    | cons a t ih => intro cur; simp [ih, Item.applyTo]
  have hadd : ∀ (l : List (List Nat)) (cur : Edit),
      (l.map Item.add).foldl Item.applyTo cur = { cur with add := cur.add ++ l } := by
    intro l; induction l with
    | nil => intro cur; simp
    | cons a t ih => intro cur; simp [ih, Item.applyTo]
  have hinfo : ∀ (l : List (Nat × List Nat)) (cur : Edit),
      (l.map (fun kv => Item.info kv.1 kv.2)).foldl Item.applyTo cur = { cur with info := cur.info ++ l } := by
    intro l; induction l with
    | nil => intro cur; simp
    | cons a t ih => intro cur; simp [ih, Item.applyTo]
  unfold items
  rw [List.foldl_append, List.foldl_append, hrm, hadd, hinfo]
  simp [Edit.empty]

/-- edits the API can round-trip -/
def Edit.Ok (e : Edit) : Prop :=
  (∀ s ∈ e.rm, StrOk s) ∧ (∀ s ∈ e.add, StrOk s) ∧
  (∀ kv ∈ e.info, StrOk kv.2 ∧ kv.1 < 128 ∧ kv.1 ≠ 10 ∧ kv.1 ≠ 43 ∧ kv.1 ≠ 45)

theorem items_ok (e : Edit) (h : e.Ok) : ∀ it ∈ items e, it.Ok := by
  intro it hit
  unfold items at hit
  simp only [List.mem_append, List.mem_map] at hit
  rcases hit with (⟨s, hs, rfl⟩ | ⟨s, hs, rfl⟩) | ⟨kv, hkv, rfl⟩
  · exact h.1 s hs
  · exact h.2.1 s hs
  · exact h.2.2 kv hkv

def lineCount (e : Edit) : Nat := (items e).length + 1

/-- **C13** `replay_roundtrip`: reading back what a sequence of `apply` calls wrote yields exactly
    those edits, with no error -/
theorem replay_roundtrip (hcrc : CrcOk crc) :
    ∀ (es : List Edit) (f : Nat), (∀ e ∈ es, e.Ok) →
      readEdits crc (f + 1 + (es.map lineCount).sum) (es.flatMap (encodeEdit crc)) Edit.empty = (es, false) := by
  intro es
  induction es with
  | nil => intro f _; rfl
  | cons e es ih =>
    intro f hok
    simp only [List.flatMap_cons, List.map_cons, List.sum_cons, lineCount]
    rw [encodeEdit_items]
    have hfuel : f + 1 + ((items e).length + 1 + (es.map lineCount).sum)
        = (f + 1 + (es.map lineCount).sum + 1) + (items e).length := by omega
    rw [hfuel]
    simp only [List.append_assoc]
    rw [readEdits_items crc hcrc (items e) _ _ _ (items_ok e (hok e (List.mem_cons_self ..)))]
    rw [foldl_items]
    have : SEP ++ ([10] ++ es.flatMap (encodeEdit crc)) = SEP ++ 10 :: es.flatMap (encodeEdit crc) := rfl
    rw [this, readEdits_sep]
    have := ih f (fun x hx => hok x (List.mem_cons_of_mem _ hx))
    rw [this]

end Blue.Mani

#print axioms Blue.Mani.replay_roundtrip
