import Blue.Model.WaveletRef
import Blue.Proofs.BitVecLaws
/-! List facts behind the wavelet tree proofs (property C19): filtering a list commutes with
    `take`/counting, the characterisation of the reference `select_q` scan, and `select0` is
    defined exactly up to the number of clear bits. -/
namespace Blue.Wavelet

/-! ### filter / take / count -/

theorem count_map_take {α : Type} (p : α → Bool) (b : Bool) (l : List α) (x : Nat) :
    ((l.map p).take x).count b = (l.take x).countP (fun a => p a == b) := by
  rw [← List.map_take, List.count_eq_countP, List.countP_map]
  rfl

theorem count_map {α : Type} (p : α → Bool) (b : Bool) (l : List α) :
    (l.map p).count b = l.countP (fun a => p a == b) := by
  rw [List.count_eq_countP, List.countP_map]
  rfl

theorem filter_take {α : Type} (p : α → Bool) : ∀ (l : List α) (x : Nat),
    (l.take x).filter p = (l.filter p).take ((l.take x).countP p)
  | [], x => by simp
  | a :: t, 0 => by simp
  | a :: t, x + 1 => by
    have ih := filter_take p t x
    cases h : p a with
    | true => simp [List.take_succ_cons, h, ih]
    | false => simp [List.take_succ_cons, h, ih]

theorem getElem?_filter {α : Type} (p : α → Bool) (a : α) (ha : p a = true) : ∀ (l : List α) (x : Nat),
    l[x]? = some a → (l.filter p)[(l.take x).countP p]? = some a
  | [], x, h => by simp at h
  | b :: t, 0, h => by
    simp at h
    subst h
    simp [ha]
  | b :: t, x + 1, h => by
    have ih := getElem?_filter p a ha t x (by simpa using h)
    cases hb : p b with
    | true => simpa [List.take_succ_cons, List.filter_cons, List.countP_cons, hb] using ih
    | false => simpa [List.take_succ_cons, List.filter_cons, List.countP_cons, hb] using ih

theorem countP_take_le {α : Type} (p : α → Bool) (l : List α) (x : Nat) :
    (l.take x).countP p ≤ l.countP p :=
  (List.take_sublist x l).countP_le

theorem countP_take_mono {α : Type} (p : α → Bool) (l : List α) {i j : Nat} (h : i ≤ j) :
    (l.take i).countP p ≤ (l.take j).countP p := by
  have : l.take i = (l.take j).take i := by rw [List.take_take, Nat.min_eq_left h]
  rw [this]
  exact (List.take_sublist _ _).countP_le

theorem countP_not_take {α : Type} (p : α → Bool) (b : Bool) (l : List α) (x : Nat) (hx : x ≤ l.length) :
    (l.take x).countP (fun a => p a == !b) = x - (l.take x).countP (fun a => p a == b) := by
  have h := List.length_eq_countP_add_countP (fun a => p a == b) (l := l.take x)
  rw [List.length_take, Nat.min_eq_left hx] at h
  have e : (fun a => decide ¬((p a == b) = true)) = (fun a => p a == !b) := by
    funext a; cases p a <;> cases b <;> rfl
  rw [e] at h
  omega

/-- counting `a` = counting its image among the images of the elements on `a`'s side, when the
    map is injective at `a` there -/
theorem count_map_filter {α β : Type} [BEq α] [LawfulBEq α] [BEq β] [LawfulBEq β]
    (p : α → Bool) (f : α → β) (a : α) (ha : p a = true) : ∀ (l : List α),
    (∀ b ∈ l, p b = true → f b = f a → b = a) → ((l.filter p).map f).count (f a) = l.count a
  | [], _ => by simp
  | b :: t, hinj => by
    have ih := count_map_filter p f a ha t (fun c hc => hinj c (List.mem_cons_of_mem _ hc))
    cases hb : p b with
    | true =>
      rw [List.filter_cons, if_pos hb, List.map_cons, List.count_cons, List.count_cons, ih]
      by_cases hfa : f b = f a
      · have := hinj b (List.mem_cons_self) hb hfa
        subst this
        simp
      · have hne : b ≠ a := fun h => hfa (by rw [h])
        simp [hfa, hne]
    | false =>
      rw [List.filter_cons, if_neg (by simp [hb]), List.count_cons, ih]
      have hne : b ≠ a := fun h => by rw [h, ha] at hb; cases hb
      simp [hne]

theorem count_map_inj {α β : Type} [BEq α] [LawfulBEq α] [BEq β] [LawfulBEq β]
    (f : α → β) (a : α) (l : List α) (hinj : ∀ b ∈ l, f b = f a → b = a) :
    (l.map f).count (f a) = l.count a := by
  have := count_map_filter (fun _ => true) f a rfl l (fun b hb _ h => hinj b hb h)
  rw [List.filter_eq_self.mpr (fun _ _ => rfl)] at this
  exact this

/-- when every element on `a`'s side equals `a`, counting `a` is counting the side -/
theorem count_eq_countP_of_all {α : Type} [BEq α] [LawfulBEq α] (p : α → Bool) (a : α) (ha : p a = true) :
    ∀ (l : List α), (∀ b ∈ l, p b = true → b = a) → l.count a = l.countP p
  | [], _ => by simp
  | b :: t, hall => by
    have ih := count_eq_countP_of_all p a ha t (fun c hc => hall c (List.mem_cons_of_mem _ hc))
    rw [List.count_cons, List.countP_cons, ih]
    cases hb : p b with
    | true =>
      have := hall b List.mem_cons_self hb
      subst this
      simp
    | false =>
      have hne : b ≠ a := fun h => by rw [h, ha] at hb; cases hb
      simp [hne]

/-! ### the reference `select_q` is "the least position at which `x` symbols `q` have been seen" -/

/-- `p` is the least position of `l` before which there are exactly `x` symbols `q` -/
def IsLeast {α : Type} [BEq α] (l : List α) (q : α) (x p : Nat) : Prop :=
  p ≤ l.length ∧ (l.take p).count q = x ∧ ∀ p', p' < p → (l.take p').count q < x

end Blue.Wavelet

namespace Blue.WaveletRef
open Blue.Wavelet

theorem selectScan_nil (q x i rank : Nat) :
    selectScan q x [] i rank = if rank = x then some i else none := rfl

theorem selectScan_cons (q x t : Nat) (rest : List Nat) (i rank : Nat) :
    selectScan q x (t :: rest) i rank
      = if rank = x then some i else selectScan q x rest (i + 1) (if t = q then rank + 1 else rank) := rfl

theorem count_take_succ_cons (q t : Nat) (rest : List Nat) (j : Nat) :
    ((t :: rest).take (j + 1)).count q = (rest.take j).count q + (if t = q then 1 else 0) := by
  rw [List.take_succ_cons, List.count_cons]
  simp

theorem step_eq (t q r : Nat) : (if t = q then r + 1 else r) = r + (if t = q then 1 else 0) := by
  split <;> rfl

theorem selectScan_complete (q x : Nat) : ∀ (l : List Nat) (i r j : Nat), j ≤ l.length →
    r + (l.take j).count q = x → (∀ j', j' < j → r + (l.take j').count q < x) →
    selectScan q x l i r = some (i + j)
  | [], i, r, j, hj, hc, _ => by
    have : j = 0 := by simpa using hj
    subst this
    rw [selectScan_nil, if_pos (by simpa using hc)]; rfl
  | t :: rest, i, r, 0, _, hc, _ => by
    rw [selectScan_cons, if_pos (by simpa using hc)]; rfl
  | t :: rest, i, r, j + 1, hj, hc, hmin => by
    have h0 := hmin 0 (by omega)
    simp only [List.take_zero, List.count_nil, Nat.add_zero] at h0
    rw [selectScan_cons, if_neg (by omega), step_eq]
    rw [count_take_succ_cons] at hc
    have hj' : j ≤ rest.length := by simpa using hj
    have hmin' : ∀ j', j' < j → r + (if t = q then 1 else 0) + (rest.take j').count q < x := by
      intro j' hj'
      have := hmin (j' + 1) (by omega)
      rw [count_take_succ_cons] at this
      omega
    have := selectScan_complete q x rest (i + 1) (r + (if t = q then 1 else 0)) j hj' (by omega) hmin'
    rw [this]
    congr 1; omega

theorem selectScan_none (q x : Nat) : ∀ (l : List Nat) (i r : Nat), r + l.count q < x →
    selectScan q x l i r = none
  | [], i, r, h => by
    rw [selectScan_nil, if_neg (by simp at h; omega)]
  | t :: rest, i, r, h => by
    have hc : (t :: rest).count q = rest.count q + (if t = q then 1 else 0) := by
      rw [List.count_cons]; simp
    rw [hc] at h
    rw [selectScan_cons, if_neg (by omega), step_eq]
    apply selectScan_none
    omega

theorem selectScan_spec (q x : Nat) : ∀ (l : List Nat) (i r p : Nat), r ≤ x →
    selectScan q x l i r = some p →
    ∃ j, p = i + j ∧ j ≤ l.length ∧ r + (l.take j).count q = x ∧ ∀ j', j' < j → r + (l.take j').count q < x
  | [], i, r, p, _, h => by
    rw [selectScan_nil] at h
    split at h
    · cases h
      exact ⟨0, rfl, Nat.le_refl _, by simpa, fun j' hj' => absurd hj' (Nat.not_lt_zero _)⟩
    · cases h
  | t :: rest, i, r, p, hr, h => by
    rw [selectScan_cons] at h
    split at h
    · cases h
      exact ⟨0, rfl, Nat.zero_le _, by simpa, fun j' hj' => absurd hj' (Nat.not_lt_zero _)⟩
    · rename_i hne
      rw [step_eq] at h
      have hd : (if t = q then 1 else 0) ≤ 1 := by split <;> omega
      obtain ⟨j, h1, h2, h3, h4⟩ := selectScan_spec q x rest (i + 1) _ p (by omega) h
      refine ⟨j + 1, by omega, by simpa using h2, ?_, ?_⟩
      · rw [count_take_succ_cons]; omega
      · intro j' hj'
        cases j' with
        | zero => simp only [List.take_zero, List.count_nil]; omega
        | succ j'' =>
          have := h4 j'' (by omega)
          rw [count_take_succ_cons]
          omega

/-- **C19** the reference `select_q(q, x)` answers `p` exactly when `p` is the least position
    before which there are `x` symbols `q` -/
theorem selectQ_iff (text : List Nat) (q x p : Nat) :
    selectQ text q x = some p ↔ IsLeast text q x p := by
  unfold selectQ IsLeast
  constructor
  · intro h
    obtain ⟨j, h1, h2, h3, h4⟩ := selectScan_spec q x text 0 0 p (Nat.zero_le _) h
    have : p = j := by omega
    subst this
    exact ⟨h2, by omega, fun p' hp' => by have := h4 p' hp'; omega⟩
  · intro ⟨h1, h2, h3⟩
    have := selectScan_complete q x text 0 0 p h1 (by omega) (fun j' hj' => by have := h3 j' hj'; omega)
    rw [this]; congr 1; omega

/-- … and `None` exactly when the text has fewer than `x` symbols `q` -/
theorem selectQ_none (text : List Nat) (q x : Nat) (h : text.count q < x) : selectQ text q x = none :=
  selectScan_none q x text 0 0 (by omega)

theorem selectQ_none_iff (text : List Nat) (q x : Nat) : selectQ text q x = none ↔ text.count q < x := by
  constructor
  · intro h
    apply Nat.lt_of_not_le
    intro hle
    -- some position has exactly `x` symbols `q` before it: take the least
    have hex : ∀ (n : Nat), n ≤ text.length → ∀ k, k ≤ (text.take n).count q →
        ∃ p, p ≤ n ∧ (text.take p).count q = k ∧ ∀ p', p' < p → (text.take p').count q < k := by
      intro n
      induction n with
      | zero =>
        intro _ k hk
        simp at hk
        subst hk
        exact ⟨0, Nat.le_refl _, by simp, fun q hq => absurd hq (Nat.not_lt_zero q)⟩
      | succ n ih =>
        intro hn k hk
        by_cases hle : k ≤ (text.take n).count q
        · obtain ⟨p, h1, h2, h3⟩ := ih (by omega) k hle
          exact ⟨p, by omega, h2, h3⟩
        · have hstep : (text.take (n + 1)).count q ≤ (text.take n).count q + 1 := by
            rw [List.take_add_one, List.count_append]
            cases text[n]? with
            | none => simp
            | some b => simp [List.count_cons]; split <;> omega
          refine ⟨n + 1, Nat.le_refl _, by omega, ?_⟩
          intro p' hp'
          have : (text.take p').count q ≤ (text.take n).count q := by
            have e : text.take p' = (text.take n).take p' := by
              rw [List.take_take, Nat.min_eq_left (by omega)]
            rw [e]
            exact (List.take_sublist _ _).count_le _
          omega
    obtain ⟨p, h1, h2, h3⟩ := hex text.length (Nat.le_refl _) x (by rw [List.take_length]; exact hle)
    rw [(selectQ_iff text q x p).mpr ⟨h1, h2, h3⟩] at h
    cases h
  · exact selectQ_none text q x

end Blue.WaveletRef

namespace Blue.BitVec

/-- `rank0` climbs in steps of at most one, so every `k` up to the number of clear bits is the
    `rank0` of a least position -/
theorem exists_least_rank0 (bits : List Bool) : ∀ (n : Nat), n ≤ bits.length → ∀ k, k ≤ (bits.take n).count false →
    ∃ p, p ≤ n ∧ (bits.take p).count false = k ∧ ∀ q, q < p → (bits.take q).count false < k
  | 0, _, k, hk => by
    simp at hk
    subst hk
    exact ⟨0, Nat.le_refl _, by simp, fun q hq => absurd hq (Nat.not_lt_zero q)⟩
  | n + 1, hn, k, hk => by
    by_cases hle : k ≤ (bits.take n).count false
    · obtain ⟨p, h1, h2, h3⟩ := exists_least_rank0 bits n (by omega) k hle
      exact ⟨p, by omega, h2, h3⟩
    · have hstep := count_take_succ bits false n
      have : (if bits[n]? = some false then 1 else 0) ≤ 1 := by split <;> omega
      refine ⟨n + 1, Nat.le_refl _, by omega, ?_⟩
      intro q hq
      have := countf_take_mono bits (show q ≤ n by omega)
      omega

/-- `select0` is defined exactly for `k ≤` the number of clear bits -/
theorem select0_defined_iff (bits : List Bool) (k : Nat) :
    (select0 bits k).isSome = true ↔ k ≤ bits.count false := by
  constructor
  · intro h
    obtain ⟨p, hp⟩ := Option.isSome_iff_exists.mp h
    obtain ⟨_, hc, _⟩ := select0_spec bits k p hp
    rw [← hc]
    exact (List.take_sublist _ _).count_le _
  · intro h
    obtain ⟨p, h1, h2, h3⟩ := exists_least_rank0 bits bits.length (Nat.le_refl _) k (by rw [List.take_length]; exact h)
    rw [select0_complete bits k p h1 h2 h3]
    rfl

end Blue.BitVec
