import Blue.Proofs.ConcatLink
import Blue.Proofs.LazyC
/-! **C03** one level of `Version::range_scan`: a `ConcatenatingCursor` over `LazyCursor`s over SST
    cursors behaves as one cursor over the concatenation of the files' tables — for any
    implementation of the SST cursor that behaves like a table. -/
namespace Blue.Cursor
variable {E : Type} {A : (E → Bool) → Prop}

def lazyKids {S : Cur E} (files : List (S.σ × List E)) : List (LazyC.cur S).σ :=
  files.map (fun f => (⟨f.1, .first⟩ : LazyS S))

def fileRefs {S : Cur E} (files : List (S.σ × List E)) : List (Ref E) :=
  files.map (fun f => (⟨f.2, 0⟩ : Ref E))

theorem level_beh {S : Cur E} : ∀ (files : List (S.σ × List E)),
    (∀ f ∈ files, BehEq A S f.1 (RefCur E) ⟨f.2, 0⟩) →
    (lazyKids files).map (behA A (LazyC.cur S)) = (fileRefs files).map (behA A (RefCur E))
  | [], _ => rfl
  | f :: fs, h => by
    have ih := level_beh fs (fun g hg => h g (List.mem_cons_of_mem _ hg))
    have hd : behA A (LazyC.cur S) (⟨f.1, .first⟩ : LazyS S) = behA A (RefCur E) ⟨f.2, 0⟩ :=
      behA_eq_of_behEq (lazy_over f.2 (h f List.mem_cons_self))
    show behA A (LazyC.cur S) (⟨f.1, .first⟩ : LazyS S) :: (lazyKids fs).map (behA A (LazyC.cur S))
        = behA A (RefCur E) ⟨f.2, 0⟩ :: (fileRefs fs).map (behA A (RefCur E))
    rw [hd, ih]

theorem fileRefs_xs {S : Cur E} (files : List (S.σ × List E)) :
    (fileRefs files).map (·.xs) = files.map (·.2) := by
  unfold fileRefs; rw [List.map_map]; rfl

theorem level_over {S : Cur E} (files : List (S.σ × List E))
    (hfiles : ∀ f ∈ files, BehEq A S f.1 (RefCur E) ⟨f.2, 0⟩)
    (hne : 0 < files.length) (hA : ∀ pred, A pred → PredMono (files.map (·.2)) pred) :
    BehEq A (ConcatC.cur (LazyC.cur S)) (ConcatC.new (LazyC.cur S) (lazyKids files))
      (RefCur E) ⟨(files.map (·.2)).flatten, 0⟩ := by
  have h := concat_over (A := A) (C := LazyC.cur S) (lazyKids files) (fileRefs files)
    (by unfold fileRefs; rw [List.length_map]; exact hne)
    (by rw [fileRefs_xs]; exact hA) (level_beh files hfiles)
  rw [fileRefs_xs] at h
  exact h

end Blue.Cursor

#print axioms Blue.Cursor.level_over
