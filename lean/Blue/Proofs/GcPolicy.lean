import Blue.Proofs.Gc
/-! **C05** the policy language: what holds of `GarbageCollector::next` for *every* policy
    (`versions`, `ttl_micros`, arbitrary `any`/`all` nesting) and every input. -/
namespace Blue.Gc
variable {K : Type} [DecidableEq K]

/-! ### the general collector instantiated at `versions = n` is the collector of `Blue.Gc.gc` -/

theorem gcLoopD_versions (n : Nat) : ∀ (m : List (Ent K)) (kb : K) (tombs : List Nat) (vs : VState K),
    gcLoopD m kb tombs (.versions n vs) = gcLoop n m kb tombs vs := by
  intro m
  induction m with
  | nil => intros; rfl
  | cons e rest ih =>
    intro kb tombs vs
    simp only [gcLoopD, gcLoop, Det.retain]
    cases e.tomb with
    | true => simp only [if_true]; exact ih ..
    | false =>
      simp only [Bool.false_eq_true, if_false]
      split
      · rw [ih]
      · rw [ih]

theorem gcP_versions (n now : Nat) (m : List (Ent K)) : gcP (.versions n) now none m = gc n m := by
  cases m with
  | nil => rfl
  | cons e rest => simp only [gcP, gc, Policy.det]; exact gcLoopD_versions n ..

/-! ### the output is a sub-list of the input, whatever the determiner decides -/

/-- the `(key, timestamp)`s of the input, in cursor order -/
def ents (m : List (Ent K)) : List (K × Nat) := m.map fun e => (e.key, e.ts)

omit [DecidableEq K] in
theorem emit_sublist (k : K) (tombs : List Nat) (ts : Nat) :
    (emit k tombs ts).Sublist (tombs.map (fun t => (k, t)) ++ [(k, ts)]) := by
  unfold emit
  cases h : tombs.getLast? with
  | none => exact List.sublist_append_right _ _
  | some t =>
    obtain ⟨ys, rfl⟩ := List.getLast?_eq_some_iff.mp h
    simp only [List.map_append, List.map_cons, List.map_nil, List.append_assoc, List.cons_append,
      List.nil_append]
    exact List.sublist_append_right _ _

theorem gcLoopD_sublist : ∀ (m : List (Ent K)) (kb : K) (tombs : List Nat) (d : Det K),
    (gcLoopD m kb tombs d).Sublist (tombs.map (fun t => (kb, t)) ++ ents m) := by
  intro m
  induction m with
  | nil => intros; exact List.nil_sublist _
  | cons e rest ih =>
    intro kb tombs d
    have F : ((if kb = e.key then tombs else []).map (fun t => (e.key, t))).Sublist
        (tombs.map (fun t => (kb, t))) := by
      by_cases hk : kb = e.key
      · subst hk; simp
      · simp [hk]
    have hents : ents (e :: rest) = (e.key, e.ts) :: ents rest := rfl
    rw [hents]
    simp only [gcLoopD]
    generalize (if kb = e.key then tombs else []) = T at F ⊢
    cases e.tomb with
    | true =>
      simp only [if_true]
      refine List.Sublist.trans (ih e.key _ d) ?_
      rw [List.map_append, List.append_assoc]
      exact List.Sublist.append F (List.Sublist.refl _)
    | false =>
      simp only [Bool.false_eq_true, if_false]
      have hrec := fun d' => ih e.key [] d'
      simp only [List.map_nil, List.nil_append] at hrec
      by_cases hr : (d.retain e.key T e.ts).1 = true
      · rw [if_pos hr]
        refine List.Sublist.trans (List.Sublist.append (emit_sublist ..) (hrec _)) ?_
        rw [List.append_assoc]
        exact List.Sublist.append F (List.Sublist.refl _)
      · rw [if_neg hr]
        exact List.Sublist.trans (hrec _)
          (List.Sublist.trans (List.sublist_cons_self _ _) (List.sublist_append_right _ _))

/-- **C05** for every policy, every `now` and every input, what the collector retains is a
    sub-list of its input: it invents nothing, duplicates nothing, reorders nothing -/
theorem gcP_sublist (p : Policy) (now : Nat) (k0 : Option K) (m : List (Ent K)) :
    (gcP p now k0 m).Sublist (ents m) := by
  cases m with
  | nil => exact List.nil_sublist _
  | cons e rest =>
    have := gcLoopD_sublist (e :: rest) e.key [] (p.det now k0)
    simpa [gcP] using this

/-! ### the calls a determiner sees depend on the input alone; `any` / `all` decide pointwise -/

/-- one `Determiner::retain(key, tombstones, exists)` call -/
abbrev Call (K : Type) := K × List Nat × Nat

/-- the calls `GarbageCollector::next` makes while draining `m`: one per value, with the
    tombstones of the same key directly above it.  No determiner occurs in this definition. -/
def callsOf : List (Ent K) → K → List Nat → List (Call K)
  | [], _, _ => []
  | e :: rest, kb, tombs =>
    if e.tomb then callsOf rest e.key ((if kb = e.key then tombs else []) ++ [e.ts])
    else (e.key, (if kb = e.key then tombs else []), e.ts) :: callsOf rest e.key []

/-- the decisions of a determiner on a sequence of calls -/
def Det.run : Det K → List (Call K) → List Bool
  | _, [] => []
  | d, c :: cs => (d.retain c.1 c.2.1 c.2.2).1 :: Det.run (d.retain c.1 c.2.1 c.2.2).2 cs

/-- what is returned for the calls decided `true` -/
def emitAll : List (Call K) → List Bool → List (K × Nat)
  | c :: cs, b :: bs => (if b then emit c.1 c.2.1 c.2.2 else []) ++ emitAll cs bs
  | _, _ => []

theorem Det.run_cons (d : Det K) (c : Call K) (cs : List (Call K)) :
    d.run (c :: cs) = (d.retain c.1 c.2.1 c.2.2).1 :: Det.run (d.retain c.1 c.2.1 c.2.2).2 cs := rfl

theorem Det.run_length (cs : List (Call K)) : ∀ (d : Det K), (d.run cs).length = cs.length := by
  induction cs with
  | nil => intro d; rfl
  | cons c cs ih => intro d; simp [Det.run_cons, ih]

/-- **C05** the collector factors through the determiner's decisions on a call sequence that is a
    function of the input alone -/
theorem gcLoopD_eq_emitAll : ∀ (m : List (Ent K)) (kb : K) (tombs : List Nat) (d : Det K),
    gcLoopD m kb tombs d = emitAll (callsOf m kb tombs) (d.run (callsOf m kb tombs)) := by
  intro m
  induction m with
  | nil => intros; rfl
  | cons e rest ih =>
    intro kb tombs d
    simp only [gcLoopD, callsOf]
    generalize (if kb = e.key then tombs else []) = T
    cases e.tomb with
    | true => simp only [if_true]; exact ih ..
    | false =>
      simp only [Bool.false_eq_true, if_false, Det.run_cons, emitAll]
      by_cases hr : (d.retain e.key T e.ts).1 = true
      · rw [if_pos hr, if_pos hr, ih]
      · rw [if_neg hr, if_neg hr, ih]; rfl

theorem retainAll_eq (key : K) (tombs : List Nat) (ts : Nat) : ∀ (ds : List (Det K)),
    Det.retainAll ds key tombs ts
      = (ds.map (fun d => (d.retain key tombs ts).1), ds.map (fun d => (d.retain key tombs ts).2)) := by
  intro ds
  induction ds with
  | nil => rfl
  | cons d ds ih => simp only [Det.retainAll, ih, List.map_cons]

/-- the columns of a list of rows -/
def cols : Nat → List (List Bool) → List (List Bool)
  | 0, _ => []
  | n + 1, rows => rows.map (·.headD false) :: cols n (rows.map List.tail)

theorem cols_get : ∀ (n : Nat) (rows : List (List Bool)) (i : Nat), i < n →
    (cols n rows)[i]? = some (rows.map (fun r => r.getD i false)) := by
  intro n
  induction n with
  | zero => intro _ i h; omega
  | succ n ih =>
    intro rows i h
    cases i with
    | zero =>
      simp only [cols, List.getElem?_cons_zero, Option.some.injEq]
      apply List.map_congr_left
      intro r _
      cases r <;> rfl
    | succ i =>
      simp only [cols, List.getElem?_cons_succ]
      rw [ih _ i (by omega), List.map_map]
      congr 1
      apply List.map_congr_left
      intro r _
      cases r <;> simp

theorem run_any : ∀ (cs : List (Call K)) (ds : List (Det K)),
    Det.run (.any ds) cs = (cols cs.length (ds.map (fun d => d.run cs))).map (·.any id) := by
  intro cs
  induction cs with
  | nil => intro ds; rfl
  | cons c cs ih =>
    intro ds
    rw [Det.run_cons]
    simp only [Det.retain, retainAll_eq, List.length_cons, cols, List.map_cons, List.map_map]
    rw [ih]
    simp only [List.map_map]
    rfl

theorem run_all : ∀ (cs : List (Call K)) (ds : List (Det K)),
    Det.run (.all ds) cs = (cols cs.length (ds.map (fun d => d.run cs))).map (·.all id) := by
  intro cs
  induction cs with
  | nil => intro ds; rfl
  | cons c cs ih =>
    intro ds
    rw [Det.run_cons]
    simp only [Det.retain, retainAll_eq, List.length_cons, cols, List.map_cons, List.map_map]
    rw [ih]
    simp only [List.map_map]
    rfl

/-- **C05** `any(..)` retains exactly the union of what its members retain: its `i`-th decision
    is the disjunction of the members' `i`-th decisions (every member is asked every time, so each
    runs exactly as it would alone) -/
theorem any_is_union (ds : List (Det K)) (cs : List (Call K)) (i : Nat) (h : i < cs.length) :
    (Det.run (.any ds) cs)[i]? = some (ds.any fun d => (d.run cs).getD i false) := by
  rw [run_any, List.getElem?_map, cols_get _ _ _ h]
  simp [List.any_map]
  rfl

/-- **C05** `all(..)` retains exactly the intersection -/
theorem all_is_intersection (ds : List (Det K)) (cs : List (Call K)) (i : Nat) (h : i < cs.length) :
    (Det.run (.all ds) cs)[i]? = some (ds.all fun d => (d.run cs).getD i false) := by
  rw [run_all, List.getElem?_map, cols_get _ _ _ h]
  simp [List.all_map]
  rfl

/-! ### on sorted input the collector works key by key, for every policy -/

mutual
/-- a property of every `VersionsDeterminer` inside a determiner tree -/
def Det.AllV (P : Nat → VState K → Prop) : Det K → Prop
  | .versions n s => P n s
  | .expires _ => True
  | .any ds => Det.AllVL P ds
  | .all ds => Det.AllVL P ds
def Det.AllVL (P : Nat → VState K → Prop) : List (Det K) → Prop
  | [] => True
  | d :: ds => Det.AllV P d ∧ Det.AllVL P ds
end

mutual
/-- the same tree with every `VersionsDeterminer` back in its initial state -/
def Det.reset : Det K → Det K
  | .versions n _ => .versions n ⟨none, 0⟩
  | .expires t => .expires t
  | .any ds => .any (Det.resetL ds)
  | .all ds => .all (Det.resetL ds)
def Det.resetL : List (Det K) → List (Det K)
  | [] => []
  | d :: ds => d.reset :: Det.resetL ds
end

mutual
theorem retain_reset (key : K) (tombs : List Nat) (ts : Nat) :
    ∀ d : Det K, (d.retain key tombs ts).2.reset = d.reset
  | .versions n s => by simp only [Det.retain, Det.reset]
  | .expires t => by simp only [Det.retain, Det.reset]
  | .any ds => by
    simp only [Det.retain, retainAll_eq, Det.reset]
    rw [retainL_reset key tombs ts ds]
  | .all ds => by
    simp only [Det.retain, retainAll_eq, Det.reset]
    rw [retainL_reset key tombs ts ds]
theorem retainL_reset (key : K) (tombs : List Nat) (ts : Nat) :
    ∀ ds : List (Det K), Det.resetL (ds.map fun d => (d.retain key tombs ts).2) = Det.resetL ds
  | [] => rfl
  | d :: ds => by
    simp only [List.map_cons, Det.resetL]
    rw [retain_reset key tombs ts d, retainL_reset key tombs ts ds]
end

/-- every `versions = n` inside has `1 ≤ n` (`NonZeroU64` in the code) -/
def Det.WF (d : Det K) : Prop := Det.AllV (fun n _ => 1 ≤ n) d
/-- no `VersionsDeterminer` inside is in the middle of counting key `k` -/
def Det.Off (k : K) (d : Det K) : Prop := Det.AllV (fun _ s => s.key ≠ some k ∨ s.count = 0) d

theorem vRetain_key (n : Nat) (s : VState K) (k : K) (tombs : List Nat) :
    (vRetain n s k tombs).2.key = some k := by
  unfold vRetain
  by_cases h : s.key = some k
  · simp [h]
  · simp only [ne_eq, h, not_false_eq_true, if_true]
    split <;> rfl

/-- a `VersionsDeterminer` as key `k` sees it: counting `k` from its count, or from zero -/
def viewS (k : K) (s : VState K) : VState K := ⟨some k, if s.key = some k then s.count else 0⟩

theorem vRetain_view (n : Nat) (hn : 1 ≤ n) (s : VState K) (k : K) (tombs : List Nat) :
    (vRetain n s k tombs).1 = (vRetain n (viewS k s) k tombs).1
      ∧ viewS k (vRetain n s k tombs).2 = (vRetain n (viewS k s) k tombs).2 := by
  by_cases h : s.key = some k
  · unfold vRetain viewS
    simp [h]
  · unfold vRetain viewS
    simp only [ne_eq, h, not_false_eq_true, if_true, if_false, not_true_eq_false]
    cases tombs.isEmpty with
    | true => simp; omega
    | false => simp

mutual
def Det.view (k : K) : Det K → Det K
  | .versions n s => .versions n (viewS k s)
  | .expires t => .expires t
  | .any ds => .any (Det.viewL k ds)
  | .all ds => .all (Det.viewL k ds)
def Det.viewL (k : K) : List (Det K) → List (Det K)
  | [] => []
  | d :: ds => d.view k :: Det.viewL k ds
end

mutual
theorem retain_wf (key : K) (tombs : List Nat) (ts : Nat) :
    ∀ d : Det K, d.WF → (d.retain key tombs ts).2.WF
  | .versions n s, h => by simpa only [Det.WF, Det.retain, Det.AllV] using h
  | .expires t, _ => by simp only [Det.WF, Det.retain, Det.AllV]
  | .any ds, h => by
    simp only [Det.WF, Det.retain, retainAll_eq, Det.AllV] at h ⊢
    exact retainL_wf key tombs ts ds h
  | .all ds, h => by
    simp only [Det.WF, Det.retain, retainAll_eq, Det.AllV] at h ⊢
    exact retainL_wf key tombs ts ds h
theorem retainL_wf (key : K) (tombs : List Nat) (ts : Nat) :
    ∀ ds : List (Det K), Det.AllVL (fun n _ => 1 ≤ n) ds →
      Det.AllVL (fun n _ => 1 ≤ n) (ds.map fun d => (d.retain key tombs ts).2)
  | [], _ => trivial
  | d :: ds, h => by
    simp only [List.map_cons, Det.AllVL] at h ⊢
    exact ⟨retain_wf key tombs ts d h.1, retainL_wf key tombs ts ds h.2⟩
end

mutual
/-- after a call for key `k'`, no `VersionsDeterminer` is on any other key -/
theorem retain_off (k k' : K) (hk : k' ≠ k) (tombs : List Nat) (ts : Nat) :
    ∀ d : Det K, (d.retain k' tombs ts).2.Off k
  | .versions n s => by
    simp only [Det.Off, Det.retain, Det.AllV]
    left
    rw [vRetain_key]
    intro h
    exact hk (Option.some.inj h)
  | .expires t => by simp only [Det.Off, Det.retain, Det.AllV]
  | .any ds => by
    simp only [Det.Off, Det.retain, retainAll_eq, Det.AllV]
    exact retainL_off k k' hk tombs ts ds
  | .all ds => by
    simp only [Det.Off, Det.retain, retainAll_eq, Det.AllV]
    exact retainL_off k k' hk tombs ts ds
theorem retainL_off (k k' : K) (hk : k' ≠ k) (tombs : List Nat) (ts : Nat) :
    ∀ ds : List (Det K),
      Det.AllVL (fun _ s => s.key ≠ some k ∨ s.count = 0) (ds.map fun d => (d.retain k' tombs ts).2)
  | [] => trivial
  | d :: ds => by
    simp only [List.map_cons, Det.AllVL]
    exact ⟨retain_off k k' hk tombs ts d, retainL_off k k' hk tombs ts ds⟩
end

mutual
/-- a call for key `k` only depends on the determiner as `k` sees it -/
theorem retain_view (k : K) (tombs : List Nat) (ts : Nat) :
    ∀ d : Det K, d.WF →
      (d.retain k tombs ts).1 = ((d.view k).retain k tombs ts).1
        ∧ (d.retain k tombs ts).2.view k = ((d.view k).retain k tombs ts).2
  | .versions n s, h => by
    simp only [Det.WF, Det.AllV] at h
    simp only [Det.retain, Det.view]
    exact ⟨(vRetain_view n h s k tombs).1, by rw [(vRetain_view n h s k tombs).2]⟩
  | .expires t, _ => by simp only [Det.retain, Det.view, and_self]
  | .any ds, h => by
    simp only [Det.WF, Det.AllV] at h
    simp only [Det.retain, retainAll_eq, Det.view]
    obtain ⟨h1, h2⟩ := retainL_view k tombs ts ds h
    rw [h1, h2]
    exact ⟨rfl, rfl⟩
  | .all ds, h => by
    simp only [Det.WF, Det.AllV] at h
    simp only [Det.retain, retainAll_eq, Det.view]
    obtain ⟨h1, h2⟩ := retainL_view k tombs ts ds h
    rw [h1, h2]
    exact ⟨rfl, rfl⟩
theorem retainL_view (k : K) (tombs : List Nat) (ts : Nat) :
    ∀ ds : List (Det K), Det.AllVL (fun n _ => 1 ≤ n) ds →
      (ds.map fun d => (d.retain k tombs ts).1) = ((Det.viewL k ds).map fun d => (d.retain k tombs ts).1)
        ∧ Det.viewL k (ds.map fun d => (d.retain k tombs ts).2)
            = ((Det.viewL k ds).map fun d => (d.retain k tombs ts).2)
  | [], _ => ⟨rfl, rfl⟩
  | d :: ds, h => by
    simp only [Det.AllVL] at h
    obtain ⟨a1, a2⟩ := retain_view k tombs ts d h.1
    obtain ⟨b1, b2⟩ := retainL_view k tombs ts ds h.2
    simp only [List.map_cons, Det.viewL]
    rw [a1, a2, b1, b2]
    exact ⟨rfl, rfl⟩
end

mutual
theorem view_of_off (k : K) : ∀ d : Det K, d.Off k → d.view k = d.reset.view k
  | .versions n s, h => by
    simp only [Det.Off, Det.AllV] at h
    simp only [Det.view, Det.reset, viewS]
    rcases h with h | h
    · simp [h]
    · simp [h]
  | .expires t, _ => rfl
  | .any ds, h => by
    simp only [Det.Off, Det.AllV] at h
    simp only [Det.view, Det.reset]
    rw [viewL_of_off k ds h]
  | .all ds, h => by
    simp only [Det.Off, Det.AllV] at h
    simp only [Det.view, Det.reset]
    rw [viewL_of_off k ds h]
theorem viewL_of_off (k : K) : ∀ ds : List (Det K),
    Det.AllVL (fun _ s => s.key ≠ some k ∨ s.count = 0) ds → Det.viewL k ds = Det.viewL k (Det.resetL ds)
  | [], _ => rfl
  | d :: ds, h => by
    simp only [Det.AllVL] at h
    simp only [Det.viewL, Det.resetL]
    rw [view_of_off k d h.1, viewL_of_off k ds h.2]
end

mutual
theorem reset_off (k : K) : ∀ d : Det K, d.reset.Off k
  | .versions n s => by simp only [Det.Off, Det.reset, Det.AllV, or_true]
  | .expires t => by simp only [Det.Off, Det.reset, Det.AllV]
  | .any ds => by simp only [Det.Off, Det.reset, Det.AllV]; exact resetL_off k ds
  | .all ds => by simp only [Det.Off, Det.reset, Det.AllV]; exact resetL_off k ds
theorem resetL_off (k : K) : ∀ ds : List (Det K),
    Det.AllVL (fun _ s => s.key ≠ some k ∨ s.count = 0) (Det.resetL ds)
  | [] => trivial
  | d :: ds => by simp only [Det.resetL, Det.AllVL]; exact ⟨reset_off k d, resetL_off k ds⟩
end

mutual
theorem reset_reset : ∀ d : Det K, d.reset.reset = d.reset
  | .versions n s => rfl
  | .expires t => rfl
  | .any ds => by simp only [Det.reset]; rw [resetL_resetL ds]
  | .all ds => by simp only [Det.reset]; rw [resetL_resetL ds]
theorem resetL_resetL : ∀ ds : List (Det K), Det.resetL (Det.resetL ds) = Det.resetL ds
  | [] => rfl
  | d :: ds => by simp only [Det.resetL]; rw [reset_reset d, resetL_resetL ds]
end

mutual
theorem reset_wf : ∀ d : Det K, d.WF → d.reset.WF
  | .versions n s, h => by simpa only [Det.WF, Det.reset, Det.AllV] using h
  | .expires t, _ => by simp only [Det.WF, Det.reset, Det.AllV]
  | .any ds, h => by
    simp only [Det.WF, Det.reset, Det.AllV] at h ⊢; exact resetL_wf ds h
  | .all ds, h => by
    simp only [Det.WF, Det.reset, Det.AllV] at h ⊢; exact resetL_wf ds h
theorem resetL_wf : ∀ ds : List (Det K), Det.AllVL (fun n _ => 1 ≤ n) ds →
    Det.AllVL (fun n _ => 1 ≤ n) (Det.resetL ds)
  | [], _ => trivial
  | d :: ds, h => by
    simp only [Det.AllVL, Det.resetL] at h ⊢; exact ⟨reset_wf d h.1, resetL_wf ds h.2⟩
end

/-- inside one key's run the collector only depends on the determiner as that key sees it -/
theorem gcLoopD_view (k : K) : ∀ (g : List (Ent K)), AllKey k g → ∀ (tombs : List Nat) (d : Det K), d.WF →
    gcLoopD g k tombs d = gcLoopD g k tombs (d.view k) := by
  intro g
  induction g with
  | nil => intros; rfl
  | cons e g ih =>
    intro hall tombs d hwf
    have hek : e.key = k := hall e (List.mem_cons_self ..)
    have hall' : AllKey k g := fun x hx => hall x (List.mem_cons_of_mem _ hx)
    simp only [gcLoopD, hek, if_true]
    cases e.tomb with
    | true => simp only [if_true]; exact ih hall' _ d hwf
    | false =>
      simp only [Bool.false_eq_true, if_false]
      obtain ⟨h1, h2⟩ := retain_view k tombs e.ts d hwf
      have ih' := ih hall' [] (d.retain k tombs e.ts).2 (retain_wf k tombs e.ts d hwf)
      rw [h2] at ih'
      rw [ih', h1]

/-- one key's run, then the rest -/
theorem gcLoopD_group (k : K) (rest : List (Ent K)) :
    ∀ (g : List (Ent K)), AllKey k g → ∀ (tombs : List Nat) (d : Det K), d.WF →
      ∃ tombs' d', gcLoopD (g ++ rest) k tombs d = gcLoopD g k tombs d ++ gcLoopD rest k tombs' d'
        ∧ d'.WF ∧ d'.reset = d.reset ∧ (d' = d ∨ ∀ k2, k2 ≠ k → d'.Off k2) := by
  intro g
  induction g with
  | nil => intro _ tombs d hwf; exact ⟨tombs, d, by simp [gcLoopD], hwf, rfl, Or.inl rfl⟩
  | cons e g ih =>
    intro hall tombs d hwf
    have hek : e.key = k := hall e (List.mem_cons_self ..)
    have hall' : AllKey k g := fun x hx => hall x (List.mem_cons_of_mem _ hx)
    simp only [List.cons_append, gcLoopD, hek, if_true]
    cases e.tomb with
    | true => simp only [if_true]; exact ih hall' _ d hwf
    | false =>
      simp only [Bool.false_eq_true, if_false]
      obtain ⟨tombs', d', heq, hwf', hreset, hor⟩ :=
        ih hall' [] (d.retain k tombs e.ts).2 (retain_wf k tombs e.ts d hwf)
      have hoff : ∀ k2, k2 ≠ k → d'.Off k2 := by
        intro k2 hk2
        rcases hor with h | h
        · rw [h]; exact retain_off k2 k (fun h => hk2 h.symm) tombs e.ts d
        · exact h k2 hk2
      refine ⟨tombs', d', ?_, hwf', hreset.trans (retain_reset k tombs e.ts d), Or.inr hoff⟩
      by_cases hr : (d.retain k tombs e.ts).1 = true
      · rw [if_pos hr, if_pos hr, heq, List.append_assoc]
      · rw [if_neg hr, if_neg hr, heq]

theorem gcLoopD_switch (e : Ent K) (rest : List (Ent K)) (kb : K) (tombs : List Nat) (d : Det K)
    (h : kb ≠ e.key) : gcLoopD (e :: rest) kb tombs d = gcLoopD (e :: rest) e.key [] d := by
  simp only [gcLoopD, h, if_false, if_true]

theorem gcLoopD_runs :
    ∀ (gs : List (K × List (Ent K))), Runs gs → ∀ (kb : K) (tombs : List Nat) (d : Det K), d.WF →
      (∀ k ∈ gs.map (·.1), d.Off k) →
      (∀ p ∈ gs.head?, kb ≠ p.1 ∨ tombs = []) →
      gcLoopD (flat gs) kb tombs d = gs.flatMap (fun p => gcLoopD p.2 p.1 [] d.reset) := by
  intro gs
  induction gs with
  | nil => intro _ kb tombs d _ _ _; simp [flat, gcLoopD]
  | cons p gs ih =>
    intro hr kb tombs d hwf hoff hkb
    obtain ⟨k, g⟩ := p
    have hall : AllKey k g := hr.allKey (k, g) (List.mem_cons_self ..)
    have hne : g ≠ [] := hr.nonempty (k, g) (List.mem_cons_self ..)
    have hr' : Runs gs := ⟨fun q hq => hr.allKey q (List.mem_cons_of_mem _ hq),
      fun q hq => hr.nonempty q (List.mem_cons_of_mem _ hq), (List.nodup_cons.mp hr.distinct).2⟩
    have hknot : k ∉ gs.map (·.1) := (List.nodup_cons.mp hr.distinct).1
    obtain ⟨e, g', rfl⟩ := List.exists_cons_of_ne_nil hne
    have hek : e.key = k := hall e (List.mem_cons_self ..)
    have hstart : gcLoopD (flat ((k, e :: g') :: gs)) kb tombs d
        = gcLoopD ((e :: g') ++ flat gs) k [] d := by
      simp only [flat, List.flatMap_cons]
      by_cases hkk : kb = e.key
      · have := hkb (k, e :: g') (by simp)
        rcases this with h | h
        · exact absurd (hkk.trans hek) h
        · subst h; rw [hkk, hek]
      · rw [List.cons_append, gcLoopD_switch e _ kb tombs d hkk, hek]
    obtain ⟨tombs', d', heq, hwf', hreset, hor⟩ := gcLoopD_group k (flat gs) (e :: g') hall [] d hwf
    rw [hstart, heq]
    simp only [List.flatMap_cons]
    have hk_off : d.Off k := hoff k (by simp)
    have hfirst : gcLoopD (e :: g') k [] d = gcLoopD (e :: g') k [] d.reset := by
      rw [gcLoopD_view k _ hall [] d hwf, view_of_off k d hk_off,
        ← gcLoopD_view k _ hall [] d.reset (reset_wf d hwf)]
    rw [hfirst]
    congr 1
    rw [← hreset]
    apply ih hr' k tombs' d' hwf'
    · intro k2 hk2
      rcases hor with h | h
      · rw [h]; exact hoff k2 (by simp only [List.map_cons, List.mem_cons]; exact Or.inr hk2)
      · apply h k2
        intro hkk
        rw [hkk] at hk2
        exact hknot hk2
    · intro q hq
      left
      intro h
      apply hknot
      have : q ∈ gs := by
        cases gs with
        | nil => simp at hq
        | cons a t => simp at hq; subst hq; exact List.mem_cons_self ..
      rw [h]
      exact List.mem_map.mpr ⟨q, this, rfl⟩

/-! ### policies -/

mutual
/-- every number in the policy is non-zero (`NonZeroU64`) -/
def Policy.WF : Policy → Prop
  | .versions n => 1 ≤ n
  | .expires _ => True
  | .any ps => Policy.WFL ps
  | .all ps => Policy.WFL ps
def Policy.WFL : List Policy → Prop
  | [] => True
  | p :: ps => p.WF ∧ Policy.WFL ps
end

mutual
theorem det_wf (now : Nat) (k0 : Option K) : ∀ p : Policy, p.WF → (p.det now k0 : Det K).WF
  | .versions n, h => by simpa only [Det.WF, Policy.det, Det.AllV, Policy.WF] using h
  | .expires m, _ => by simp only [Det.WF, Policy.det, Det.AllV]
  | .any ps, h => by
    simp only [Det.WF, Policy.det, Det.AllV, Policy.WF] at h ⊢; exact dets_wf now k0 ps h
  | .all ps, h => by
    simp only [Det.WF, Policy.det, Det.AllV, Policy.WF] at h ⊢; exact dets_wf now k0 ps h
theorem dets_wf (now : Nat) (k0 : Option K) : ∀ ps : List Policy, Policy.WFL ps →
    Det.AllVL (fun n _ => 1 ≤ n) (Policy.dets now k0 ps : List (Det K))
  | [], _ => trivial
  | p :: ps, h => by
    simp only [Policy.WFL, Policy.dets, Det.AllVL] at h ⊢
    exact ⟨det_wf now k0 p h.1, dets_wf now k0 ps h.2⟩
end

mutual
theorem det_off (now : Nat) (k0 : Option K) (k : K) : ∀ p : Policy, (p.det now k0 : Det K).Off k
  | .versions n => by simp only [Det.Off, Policy.det, Det.AllV, or_true]
  | .expires m => by simp only [Det.Off, Policy.det, Det.AllV]
  | .any ps => by simp only [Det.Off, Policy.det, Det.AllV]; exact dets_off now k0 k ps
  | .all ps => by simp only [Det.Off, Policy.det, Det.AllV]; exact dets_off now k0 k ps
theorem dets_off (now : Nat) (k0 : Option K) (k : K) : ∀ ps : List Policy,
    Det.AllVL (fun _ s => s.key ≠ some k ∨ s.count = 0) (Policy.dets now k0 ps : List (Det K))
  | [] => trivial
  | p :: ps => by
    simp only [Policy.dets, Det.AllVL]; exact ⟨det_off now k0 k p, dets_off now k0 k ps⟩
end

mutual
theorem det_reset (now : Nat) (k0 : Option K) : ∀ p : Policy,
    (p.det now k0 : Det K).reset = p.det now none
  | .versions n => rfl
  | .expires m => rfl
  | .any ps => by simp only [Policy.det, Det.reset]; rw [dets_reset now k0 ps]
  | .all ps => by simp only [Policy.det, Det.reset]; rw [dets_reset now k0 ps]
theorem dets_reset (now : Nat) (k0 : Option K) : ∀ ps : List Policy,
    Det.resetL (Policy.dets now k0 ps : List (Det K)) = Policy.dets now none ps
  | [] => rfl
  | p :: ps => by
    simp only [Policy.dets, Det.resetL]; rw [det_reset now k0 p, dets_reset now k0 ps]
end

/-- **C05** for *every* policy: on an input that is a sequence of runs with pairwise distinct
    keys (what sortedness gives) the collector's output is the concatenation, key by key, of what
    a *fresh* collector retains of that key alone — the determiner state carried across a key
    change (and the initial `key = vec![]` of `VersionsDeterminer`) is harmless -/
theorem gcP_runs (p : Policy) (hp : p.WF) (now : Nat) (k0 : Option K) (gs : List (K × List (Ent K)))
    (hr : Runs gs) :
    gcP p now k0 (flat gs) = gs.flatMap (fun g => gcLoopD g.2 g.1 [] (p.det now none)) := by
  unfold gcP
  cases hfl : flat gs with
  | nil =>
    cases gs with
    | nil => rfl
    | cons q t =>
      exfalso
      have := hr.nonempty q (List.mem_cons_self ..)
      simp only [flat, List.flatMap_cons, List.append_eq_nil_iff] at hfl
      exact this hfl.1
  | cons e m =>
    simp only
    rw [← hfl, ← det_reset now k0 p]
    apply gcLoopD_runs gs hr e.key [] (p.det now k0) (det_wf now k0 p hp)
    · intro k _; exact det_off now k0 k p
    · intro _ _; right; rfl

/-! ### the entry that decides the current value of a key -/

mutual
/-- the policy selects the newest version of every key, whatever the data: `versions = n`
    (`n ≥ 1`); `ttl_micros = m` when `now ≤ m` (the threshold saturates to 0 — always so in
    lsmtk, which passes `now = 0`); `any` with such a member; `all` of such members.
    `any()` does not. -/
def Policy.selectsNewest (now : Nat) : Policy → Bool
  | .versions n => decide (1 ≤ n)
  | .expires m => decide (now ≤ m)
  | .any ps => Policy.selectsNewestAny now ps
  | .all ps => Policy.selectsNewestAll now ps
def Policy.selectsNewestAny (now : Nat) : List Policy → Bool
  | [] => false
  | p :: ps => p.selectsNewest now || Policy.selectsNewestAny now ps
def Policy.selectsNewestAll (now : Nat) : List Policy → Bool
  | [] => true
  | p :: ps => p.selectsNewest now && Policy.selectsNewestAll now ps
end

theorem vRetain_first (n : Nat) (hn : 1 ≤ n) (s : VState K) (k : K)
    (h : s.key ≠ some k ∨ s.count = 0) : (vRetain n s k []).1 = true := by
  unfold vRetain
  by_cases hk : s.key = some k
  · rcases h with h | h
    · exact absurd hk h
    · simp [hk, h]; omega
  · simp [hk]

mutual
theorem det_first (now : Nat) (k0 : Option K) (k : K) (ts : Nat) : ∀ p : Policy,
    p.selectsNewest now = true → ∀ d : Det K, d.reset = p.det now none → d.Off k →
      (d.retain k [] ts).1 = true
  | .versions n, h, d, hd, hoff => by
    cases d with
    | versions n' s =>
      simp only [Det.reset, Policy.det, Det.versions.injEq] at hd
      simp only [Policy.selectsNewest, decide_eq_true_eq] at h
      simp only [Det.Off, Det.AllV] at hoff
      simp only [Det.retain]
      exact vRetain_first n' (by omega) s k hoff
    | expires _ => simp [Det.reset, Policy.det] at hd
    | any _ => simp [Det.reset, Policy.det] at hd
    | all _ => simp [Det.reset, Policy.det] at hd
  | .expires m, h, d, hd, _ => by
    cases d with
    | expires t =>
      simp only [Det.reset, Policy.det, Det.expires.injEq] at hd
      simp only [Policy.selectsNewest, decide_eq_true_eq] at h
      simp only [Det.retain, decide_eq_true_eq]
      omega
    | versions _ _ => simp [Det.reset, Policy.det] at hd
    | any _ => simp [Det.reset, Policy.det] at hd
    | all _ => simp [Det.reset, Policy.det] at hd
  | .any ps, h, d, hd, hoff => by
    cases d with
    | any ds =>
      simp only [Det.reset, Policy.det, Det.any.injEq] at hd
      simp only [Policy.selectsNewest] at h
      simp only [Det.Off, Det.AllV] at hoff
      simp only [Det.retain, retainAll_eq]
      exact dets_first_any now k0 k ts ps h ds hd hoff
    | versions _ _ => simp [Det.reset, Policy.det] at hd
    | expires _ => simp [Det.reset, Policy.det] at hd
    | all _ => simp [Det.reset, Policy.det] at hd
  | .all ps, h, d, hd, hoff => by
    cases d with
    | all ds =>
      simp only [Det.reset, Policy.det, Det.all.injEq] at hd
      simp only [Policy.selectsNewest] at h
      simp only [Det.Off, Det.AllV] at hoff
      simp only [Det.retain, retainAll_eq]
      exact dets_first_all now k0 k ts ps h ds hd hoff
    | versions _ _ => simp [Det.reset, Policy.det] at hd
    | expires _ => simp [Det.reset, Policy.det] at hd
    | any _ => simp [Det.reset, Policy.det] at hd
theorem dets_first_any (now : Nat) (k0 : Option K) (k : K) (ts : Nat) : ∀ ps : List Policy,
    Policy.selectsNewestAny now ps = true → ∀ ds : List (Det K), Det.resetL ds = Policy.dets now none ps →
      Det.AllVL (fun _ s => s.key ≠ some k ∨ s.count = 0) ds →
      (ds.map fun d => (d.retain k [] ts).1).any id = true
  | [], h, _, _, _ => by simp [Policy.selectsNewestAny] at h
  | p :: ps, h, ds, hd, hoff => by
    cases ds with
    | nil => simp [Det.resetL, Policy.dets] at hd
    | cons d ds =>
      simp only [Det.resetL, Policy.dets, List.cons.injEq] at hd
      simp only [Det.AllVL] at hoff
      simp only [Policy.selectsNewestAny, Bool.or_eq_true] at h
      simp only [List.map_cons, List.any_cons, id, Bool.or_eq_true]
      rcases h with h | h
      · left; exact det_first now k0 k ts p h d hd.1 hoff.1
      · right; exact dets_first_any now k0 k ts ps h ds hd.2 hoff.2
theorem dets_first_all (now : Nat) (k0 : Option K) (k : K) (ts : Nat) : ∀ ps : List Policy,
    Policy.selectsNewestAll now ps = true → ∀ ds : List (Det K), Det.resetL ds = Policy.dets now none ps →
      Det.AllVL (fun _ s => s.key ≠ some k ∨ s.count = 0) ds →
      (ds.map fun d => (d.retain k [] ts).1).all id = true
  | [], _, ds, hd, _ => by
    cases ds with
    | nil => rfl
    | cons d ds => simp [Det.resetL, Policy.dets] at hd
  | p :: ps, h, ds, hd, hoff => by
    cases ds with
    | nil => simp [Det.resetL, Policy.dets] at hd
    | cons d ds =>
      simp only [Det.resetL, Policy.dets, List.cons.injEq] at hd
      simp only [Det.AllVL] at hoff
      simp only [Policy.selectsNewestAll, Bool.and_eq_true] at h
      simp only [List.map_cons, List.all_cons, id, Bool.and_eq_true]
      exact ⟨det_first now k0 k ts p h.1 d hd.1 hoff.1, dets_first_all now k0 k ts ps h.2 ds hd.2 hoff.2⟩
end

/-- **C05** the entry that decides the current value of a key is never collected, for every
    policy that selects newest versions: if the newest version of a key is a value, it is the
    first thing the (per-key, `gcP_runs`) collector keeps -/
theorem newest_value_kept_policy (p : Policy) (now : Nat) (hp : p.selectsNewest now = true)
    (e : Ent K) (g : List (Ent K)) (he : e.tomb = false) :
    ∃ out, gcLoopD (e :: g) e.key [] (p.det now none) = (e.key, e.ts) :: out := by
  have h := det_first now (none : Option K) e.key e.ts p hp (p.det now none)
    (by rw [det_reset]) (det_off now none e.key p)
  simp only [gcLoopD, he, Bool.false_eq_true, if_false, if_true, h]
  exact ⟨_, rfl⟩

/-- O-3: at `now = 0` (what lsmtk passes) a `ttl_micros` determiner retains everything it is asked -/
theorem expires_now0 (m : Nat) (k0 : Option K) (k : K) (tombs : List Nat) (ts : Nat) :
    (((Policy.expires m).det 0 k0 : Det K).retain k tombs ts).1 = true := by
  simp [Policy.det, Det.retain]

/-! ### per key, what is retained is a prefix: a key keeps its head or disappears entirely -/

/-- decisions `true … true false … false` -/
def Mono (l : List Bool) : Prop := ∀ i j, i ≤ j → l.getD j false = true → l.getD i false = true

theorem mono_cons (b : Bool) (l : List Bool) (h1 : Mono l)
    (h2 : b = false → ∀ i, l.getD i false = false) : Mono (b :: l) := by
  intro i j hij hj
  cases i with
  | zero =>
    cases hb : b with
    | true => simp
    | false =>
      exfalso
      cases j with
      | zero => simp [hb] at hj
      | succ j => simp only [List.getD_cons_succ] at hj; rw [h2 hb j] at hj; cases hj
  | succ i =>
    cases j with
    | zero => omega
    | succ j =>
      simp only [List.getD_cons_succ] at hj ⊢
      exact h1 i j (by omega) hj

def KeyCalls (k : K) (cs : List (Call K)) : Prop := ∀ c ∈ cs, c.1 = k
def TsDesc (cs : List (Call K)) : Prop := cs.Pairwise (fun a b => b.2.2 < a.2.2)

theorem vRetain_on (n : Nat) (s : VState K) (k : K) (tombs : List Nat) (h : s.key = some k) :
    vRetain n s k tombs
      = (decide ((if tombs.isEmpty then s.count + 1 else s.count + 2) ≤ n),
         ⟨s.key, if tombs.isEmpty then s.count + 1 else s.count + 2⟩) := by
  unfold vRetain
  rw [if_neg (by simp [h])]

theorem vRetain_false (n : Nat) (s : VState K) (k : K) (tombs : List Nat)
    (h : (vRetain n s k tombs).1 = false) :
    (vRetain n s k tombs).2.key = some k ∧ n ≤ (vRetain n s k tombs).2.count := by
  refine ⟨vRetain_key n s k tombs, ?_⟩
  by_cases hk : s.key = some k
  · rw [vRetain_on n s k tombs hk] at h ⊢
    simp only [decide_eq_false_iff_not] at h
    simp only
    omega
  · unfold vRetain at h ⊢
    simp only [ne_eq, hk, not_false_eq_true, if_true] at h ⊢
    cases ht : tombs.isEmpty with
    | true => simp [ht] at h
    | false =>
      simp only [ht, Bool.false_eq_true, if_false, decide_eq_false_iff_not] at h ⊢
      omega

theorem run_versions_exhausted (n : Nat) (k : K) : ∀ (cs : List (Call K)), KeyCalls k cs →
    ∀ (s : VState K), s.key = some k → n ≤ s.count → ∀ i, (Det.run (.versions n s) cs).getD i false = false := by
  intro cs
  induction cs with
  | nil => intro _ s _ _ i; simp [Det.run]
  | cons c cs ih =>
    intro hk s hs hn i
    have hc : c.1 = k := hk c (List.mem_cons_self ..)
    have hk' : KeyCalls k cs := fun x hx => hk x (List.mem_cons_of_mem _ hx)
    rw [Det.run_cons]
    simp only [Det.retain, hc, vRetain_on n s k c.2.1 hs]
    cases i with
    | zero =>
      simp only [List.getD_cons_zero, decide_eq_false_iff_not]
      split <;> omega
    | succ i =>
      simp only [List.getD_cons_succ]
      exact ih hk' ⟨s.key, if c.2.1.isEmpty then s.count + 1 else s.count + 2⟩ hs
        (by simp only; split <;> omega) i

theorem run_versions_mono (n : Nat) (k : K) : ∀ (cs : List (Call K)), KeyCalls k cs →
    ∀ (s : VState K), Mono (Det.run (.versions n s) cs) := by
  intro cs
  induction cs with
  | nil => intro _ s i j _ h; simp [Det.run] at h
  | cons c cs ih =>
    intro hk s
    have hc : c.1 = k := hk c (List.mem_cons_self ..)
    have hk' : KeyCalls k cs := fun x hx => hk x (List.mem_cons_of_mem _ hx)
    rw [Det.run_cons]
    simp only [Det.retain, hc]
    apply mono_cons _ _ (ih hk' _)
    intro hb i
    obtain ⟨h1, h2⟩ := vRetain_false n s k c.2.1 hb
    exact run_versions_exhausted n k cs hk' _ h1 h2 i

theorem run_expires (th : Nat) : ∀ (cs : List (Call K)),
    Det.run (.expires th : Det K) cs = cs.map (fun c => decide (th ≤ c.2.2)) := by
  intro cs
  induction cs with
  | nil => rfl
  | cons c cs ih => rw [Det.run_cons]; simp only [Det.retain, List.map_cons, ih]

theorem run_expires_mono (th : Nat) : ∀ (cs : List (Call K)), TsDesc cs →
    Mono (Det.run (.expires th : Det K) cs) := by
  intro cs
  induction cs with
  | nil => intro _ i j _ h; simp [Det.run] at h
  | cons c cs ih =>
    intro hts
    unfold TsDesc at hts
    rw [List.pairwise_cons] at hts
    rw [Det.run_cons]
    simp only [Det.retain]
    apply mono_cons _ _ (ih hts.2)
    intro hb i
    rw [run_expires]
    simp only [decide_eq_false_iff_not] at hb
    by_cases hi : i < cs.length
    · have hlt := hts.1 cs[i] (List.getElem_mem hi)
      simp only [List.getD_eq_getElem?_getD, List.getElem?_map, List.getElem?_eq_getElem hi,
        Option.map_some, Option.getD_some, decide_eq_false_iff_not]
      omega
    · simp only [List.getD_eq_getElem?_getD]
      rw [List.getElem?_eq_none (by simpa using hi)]
      rfl

theorem getD_any (ds : List (Det K)) (cs : List (Call K)) (i : Nat) :
    (Det.run (.any ds) cs).getD i false = (decide (i < cs.length) && ds.any fun d => (d.run cs).getD i false) := by
  by_cases hi : i < cs.length
  · simp only [List.getD_eq_getElem?_getD, Blue.Gc.any_is_union ds cs i hi, Option.getD_some, hi,
      decide_true, Bool.true_and]
  · simp only [List.getD_eq_getElem?_getD, hi, decide_false, Bool.false_and]
    rw [List.getElem?_eq_none (by rw [Det.run_length]; omega)]
    rfl

theorem getD_all (ds : List (Det K)) (cs : List (Call K)) (i : Nat) :
    (Det.run (.all ds) cs).getD i false = (decide (i < cs.length) && ds.all fun d => (d.run cs).getD i false) := by
  by_cases hi : i < cs.length
  · simp only [List.getD_eq_getElem?_getD, Blue.Gc.all_is_intersection ds cs i hi, Option.getD_some, hi,
      decide_true, Bool.true_and]
  · simp only [List.getD_eq_getElem?_getD, hi, decide_false, Bool.false_and]
    rw [List.getElem?_eq_none (by rw [Det.run_length]; omega)]
    rfl

mutual
/-- over the calls of one key with descending timestamps every determiner answers
    `true … true false … false` -/
theorem run_mono (k : K) (cs : List (Call K)) (hk : KeyCalls k cs) (hts : TsDesc cs) :
    ∀ d : Det K, Mono (d.run cs)
  | .versions n s => run_versions_mono n k cs hk s
  | .expires th => run_expires_mono th cs hts
  | .any ds => by
    intro i j hij hj
    rw [getD_any] at hj ⊢
    simp only [Bool.and_eq_true, decide_eq_true_eq, List.any_eq_true] at hj ⊢
    obtain ⟨hjl, d, hd, hdj⟩ := hj
    exact ⟨by omega, d, hd, runL_mono k cs hk hts ds d hd i j hij hdj⟩
  | .all ds => by
    intro i j hij hj
    rw [getD_all] at hj ⊢
    simp only [Bool.and_eq_true, decide_eq_true_eq, List.all_eq_true] at hj ⊢
    obtain ⟨hjl, hall⟩ := hj
    exact ⟨by omega, fun d hd => runL_mono k cs hk hts ds d hd i j hij (hall d hd)⟩
theorem runL_mono (k : K) (cs : List (Call K)) (hk : KeyCalls k cs) (hts : TsDesc cs) :
    ∀ ds : List (Det K), ∀ d ∈ ds, Mono (d.run cs)
  | [], d, hd => by cases hd
  | d0 :: ds, d, hd => by
    rcases List.mem_cons.mp hd with h | h
    · rw [h]; exact run_mono k cs hk hts d0
    · exact runL_mono k cs hk hts ds d h
end

theorem emitAll_all_false : ∀ (cs : List (Call K)) (bs : List Bool),
    (∀ i, bs.getD i false = false) → emitAll cs bs = [] := by
  intro cs
  induction cs with
  | nil => intro bs _; cases bs <;> rfl
  | cons c cs ih =>
    intro bs h
    cases bs with
    | nil => rfl
    | cons b bs =>
      have hb : b = false := by simpa using h 0
      subst hb
      simp only [emitAll, Bool.false_eq_true, if_false, List.nil_append]
      exact ih bs (fun i => by simpa using h (i + 1))

theorem callsOf_lead (k : K) (v : Ent K) (rest : List (Ent K)) (hv : v.tomb = false) (hvk : v.key = k) :
    ∀ (lead : List (Ent K)), (∀ e ∈ lead, e.tomb = true ∧ e.key = k) → ∀ (tombs : List Nat),
      callsOf (lead ++ v :: rest) k tombs
        = (k, tombs ++ lead.map (·.ts), v.ts) :: callsOf rest k [] := by
  intro lead
  induction lead with
  | nil =>
    intro _ tombs
    simp only [List.nil_append, callsOf, hv, hvk, Bool.false_eq_true, if_false, if_true, List.map_nil,
      List.append_nil]
  | cons e lead ih =>
    intro hl tombs
    obtain ⟨he, hek⟩ := hl e (List.mem_cons_self ..)
    simp only [List.cons_append, callsOf, he, hek, if_true, List.map_cons]
    rw [ih (fun x hx => hl x (List.mem_cons_of_mem _ hx)), List.append_assoc]
    rfl

theorem callsOf_keys (k : K) : ∀ (g : List (Ent K)), AllKey k g → ∀ (kb : K) (tombs : List Nat),
    KeyCalls k (callsOf g kb tombs) := by
  intro g
  induction g with
  | nil => intro _ _ _ c hc; cases hc
  | cons e g ih =>
    intro hall kb tombs
    have hek : e.key = k := hall e (List.mem_cons_self ..)
    have hall' : AllKey k g := fun x hx => hall x (List.mem_cons_of_mem _ hx)
    simp only [callsOf]
    cases e.tomb with
    | true => simp only [if_true]; exact ih hall' _ _
    | false =>
      simp only [Bool.false_eq_true, if_false]
      intro c hc
      rcases List.mem_cons.mp hc with h | h
      · rw [h]; exact hek
      · exact ih hall' _ _ c h

theorem callsOf_ts_sublist : ∀ (g : List (Ent K)) (kb : K) (tombs : List Nat),
    ((callsOf g kb tombs).map (·.2.2)).Sublist (g.map (·.ts)) := by
  intro g
  induction g with
  | nil => intros; exact List.Sublist.refl _
  | cons e g ih =>
    intro kb tombs
    simp only [callsOf]
    cases e.tomb with
    | true => simp only [if_true, List.map_cons]; exact (ih _ _).cons _
    | false =>
      simp only [Bool.false_eq_true, if_false, List.map_cons]
      exact (ih _ _).cons₂ _

theorem callsOf_tsDesc (g : List (Ent K)) (hts : g.Pairwise (fun a b => b.ts < a.ts)) (kb : K)
    (tombs : List Nat) : TsDesc (callsOf g kb tombs) := by
  unfold TsDesc
  have h1 : (g.map (·.ts)).Pairwise (fun a b => b < a) := by
    rw [List.pairwise_map]; exact hts
  have h2 := h1.sublist (callsOf_ts_sublist g kb tombs)
  rw [List.pairwise_map] at h2
  exact h2

/-- **C05** for *every* policy: one key's versions, newest first — any number of tombstones, then
    the newest value `v`, then the rest.  Either nothing at all is kept for the key, or what is
    kept starts with `v` under the oldest of the tombstones above it.  So a reader at the newest
    timestamp sees the same before and after (deleted ≡ absent at the last level), unless the
    policy let `v` itself go (possible only when it does not select newest versions,
    `newest_value_kept_every_policy`) — and then the whole key goes with it. -/
theorem key_keeps_head_or_goes (k : K) (lead : List (Ent K)) (v : Ent K) (rest : List (Ent K))
    (hl : ∀ e ∈ lead, e.tomb = true ∧ e.key = k) (hv : v.tomb = false) (hvk : v.key = k)
    (hr : AllKey k rest) (hts : (lead ++ v :: rest).Pairwise (fun a b => b.ts < a.ts)) (d : Det K) :
    gcLoopD (lead ++ v :: rest) k [] d = []
      ∨ ∃ out, gcLoopD (lead ++ v :: rest) k [] d = emit k (lead.map (·.ts)) v.ts ++ out := by
  have hall : AllKey k (lead ++ v :: rest) := by
    intro e he
    rcases List.mem_append.mp he with h | h
    · exact (hl e h).2
    · rcases List.mem_cons.mp h with h | h
      · rw [h]; exact hvk
      · exact hr e h
  have hmono := run_mono k _ (callsOf_keys k _ hall k []) (callsOf_tsDesc _ hts k []) d
  rw [gcLoopD_eq_emitAll]
  rw [callsOf_lead k v rest hv hvk lead hl []] at hmono ⊢
  rw [Det.run_cons] at hmono ⊢
  simp only [List.nil_append, emitAll] at hmono ⊢
  cases hb : (d.retain k (lead.map (·.ts)) v.ts).1 with
  | true =>
    right
    refine ⟨emitAll (callsOf rest k []) (Det.run (d.retain k (lead.map (·.ts)) v.ts).2 (callsOf rest k [])), ?_⟩
    simp only [if_true]
  | false =>
    left
    simp only [Bool.false_eq_true, if_false, List.nil_append]
    apply emitAll_all_false
    intro i
    cases hx : (Det.run (d.retain k (lead.map (·.ts)) v.ts).2 (callsOf rest k [])).getD i false with
    | false => rfl
    | true =>
      have := hmono 0 (i + 1) (by omega) (by simpa using hx)
      simp [hb] at this

/-- a key that has only tombstones left is dropped entirely (valid at the last level only) -/
theorem only_tombstones_dropped : ∀ (g : List (Ent K)), (∀ e ∈ g, e.tomb = true) →
    ∀ (kb : K) (tombs : List Nat) (d : Det K), gcLoopD g kb tombs d = [] := by
  intro g
  induction g with
  | nil => intros; rfl
  | cons e g ih =>
    intro h kb tombs d
    simp only [gcLoopD, h e (List.mem_cons_self ..), if_true]
    exact ih (fun x hx => h x (List.mem_cons_of_mem _ hx)) _ _ d

end Blue.Gc

#print axioms Blue.Gc.key_keeps_head_or_goes
#print axioms Blue.Gc.gcP_sublist
#print axioms Blue.Gc.gcP_runs
#print axioms Blue.Gc.any_is_union
#print axioms Blue.Gc.all_is_intersection
#print axioms Blue.Gc.newest_value_kept_policy
