import Blue.Proofs.KvsConcHandoff
/-! `KeyValueStore::load` searches the memtable, then the immutable memtable, then the version, and
    answers with the first table that holds a visible version of the key (a value or a
    tombstone).  `Blue.KvsConc.lookup` is the *newest* visible version over the union of those
    tables.  They are the same entry in every reachable state: tables are numbered by the
    sequence number at which they were created, a writer's number lies above the number of the
    table it picked and not above the number of any later table, so every entry of a newer table is
    newer than every entry of an older one, and a snapshot lists its tables newest first
    (`first_hit_eq_newest`).  (That `Version::load` over the files of the version is itself the
    newest visible version is C01.) -/
namespace Blue.KvsConc
open Blue.KvsWrite (Entry)

/-! ### `newest` = the first entry of maximal sequence number -/

/-- the step of the fold in `newest` -/
def pick (best : Option Entry) (e : Entry) : Option Entry :=
  match best with
  | none => some e
  | some b => if b.seq < e.seq then some e else some b

theorem newest_eq_foldl (l : List Entry) : newest l = l.foldl pick none := rfl

/-- `r` stands in `l` with only older entries before it and none newer after it -/
def FirstMax (l : List Entry) (r : Entry) : Prop :=
  ∃ pre post, l = pre ++ r :: post ∧ (∀ e ∈ pre, e.seq < r.seq) ∧ (∀ e ∈ post, e.seq ≤ r.seq)

theorem foldl_pick_some : ∀ (l : List Entry) (b : Entry), ∃ r, l.foldl pick (some b) = some r ∧
    ((r = b ∧ ∀ e ∈ l, e.seq ≤ b.seq) ∨
      (∃ pre post, l = pre ++ r :: post ∧ (∀ e ∈ pre, e.seq < r.seq) ∧ b.seq < r.seq ∧ ∀ e ∈ post, e.seq ≤ r.seq))
  | [], b => ⟨b, rfl, Or.inl ⟨rfl, fun e he => by cases he⟩⟩
  | a :: t, b => by
    simp only [List.foldl_cons, pick]
    by_cases hlt : b.seq < a.seq
    · rw [if_pos hlt]
      obtain ⟨r, hr, h⟩ := foldl_pick_some t a
      refine ⟨r, hr, Or.inr ?_⟩
      rcases h with ⟨rfl, hall⟩ | ⟨pre, post, hl, hpre, hb, hpost⟩
      · exact ⟨[], t, rfl, (fun e he => by cases he), hlt, hall⟩
      · refine ⟨a :: pre, post, by rw [hl]; rfl, ?_, by omega, hpost⟩
        intro e he
        rcases List.mem_cons.mp he with rfl | he
        · exact hb
        · exact hpre e he
    · rw [if_neg hlt]
      obtain ⟨r, hr, h⟩ := foldl_pick_some t b
      refine ⟨r, hr, ?_⟩
      rcases h with ⟨rfl, hall⟩ | ⟨pre, post, hl, hpre, hb, hpost⟩
      · left
        refine ⟨rfl, ?_⟩
        intro e he
        rcases List.mem_cons.mp he with rfl | he
        · omega
        · exact hall e he
      · right
        refine ⟨a :: pre, post, by rw [hl]; rfl, ?_, hb, hpost⟩
        intro e he
        rcases List.mem_cons.mp he with rfl | he
        · omega
        · exact hpre e he

theorem newest_nil : newest [] = none := rfl

theorem newest_firstMax {l : List Entry} {r : Entry} (h : newest l = some r) : FirstMax l r := by
  cases l with
  | nil => cases h
  | cons a t =>
    rw [newest_eq_foldl] at h
    simp only [List.foldl_cons, pick] at h
    obtain ⟨r', hr', hcase⟩ := foldl_pick_some t a
    rw [hr'] at h
    cases h
    rcases hcase with ⟨rfl, hall⟩ | ⟨pre, post, hl, hpre, hb, hpost⟩
    · exact ⟨[], t, rfl, (fun e he => by cases he), hall⟩
    · refine ⟨a :: pre, post, by rw [hl]; rfl, ?_, hpost⟩
      intro e he
      rcases List.mem_cons.mp he with rfl | he
      · exact hb
      · exact hpre e he

theorem newest_some_of_ne_nil {l : List Entry} (h : l ≠ []) : ∃ r, newest l = some r := by
  cases l with
  | nil => exact absurd rfl h
  | cons a t =>
    obtain ⟨r, hr, _⟩ := foldl_pick_some t a
    exact ⟨r, by rw [newest_eq_foldl]; simpa only [List.foldl_cons, pick] using hr⟩

theorem foldl_pick_keep : ∀ (post : List Entry) (r : Entry), (∀ e ∈ post, e.seq ≤ r.seq) →
    post.foldl pick (some r) = some r
  | [], _, _ => rfl
  | a :: t, r, h => by
    simp only [List.foldl_cons, pick]
    rw [if_neg (by have := h a List.mem_cons_self; omega)]
    exact foldl_pick_keep t r (fun e he => h e (List.mem_cons_of_mem _ he))

theorem foldl_pick_pre : ∀ (pre : List Entry) (best : Option Entry) (bound : Nat),
    (∀ b, best = some b → b.seq < bound) → (∀ e ∈ pre, e.seq < bound) →
    ∀ b, pre.foldl pick best = some b → b.seq < bound
  | [], best, _, hb, _, b, h => hb b h
  | a :: t, best, bound, hb, hp, b, h => by
    simp only [List.foldl_cons] at h
    refine foldl_pick_pre t (pick best a) bound ?_ (fun e he => hp e (List.mem_cons_of_mem _ he)) b h
    intro b' hb'
    cases best with
    | none => simp only [pick] at hb'; cases hb'; exact hp _ List.mem_cons_self
    | some b0 =>
      simp only [pick] at hb'
      split at hb'
      · cases hb'; exact hp _ List.mem_cons_self
      · cases hb'; exact hb _ rfl

theorem firstMax_newest {l : List Entry} {r : Entry} (h : FirstMax l r) : newest l = some r := by
  obtain ⟨pre, post, rfl, hpre, hpost⟩ := h
  rw [newest_eq_foldl, List.foldl_append, List.foldl_cons]
  have hstep : pick (pre.foldl pick none) r = some r := by
    cases hb : pre.foldl pick none with
    | none => rfl
    | some b =>
      have := foldl_pick_pre pre none r.seq (fun _ h => by cases h) hpre b hb
      simp only [pick]; rw [if_pos this]
  rw [hstep]
  exact foldl_pick_keep post r hpost

theorem firstMax_mem {l : List Entry} {r : Entry} (h : FirstMax l r) : r ∈ l ∧ ∀ e ∈ l, e.seq ≤ r.seq := by
  obtain ⟨pre, post, rfl, hpre, hpost⟩ := h
  refine ⟨by simp, ?_⟩
  intro e he
  simp only [List.mem_append, List.mem_cons] at he
  rcases he with he | rfl | he
  · exact Nat.le_of_lt (hpre e he)
  · exact Nat.le_refl _
  · exact hpost e he

theorem firstMax_filter {l : List Entry} {r : Entry} (p : Entry → Bool) (h : FirstMax l r) (hp : p r = true) :
    FirstMax (l.filter p) r := by
  obtain ⟨pre, post, rfl, hpre, hpost⟩ := h
  refine ⟨pre.filter p, post.filter p, ?_, ?_, ?_⟩
  · rw [List.filter_append, List.filter_cons_of_pos hp]
  · intro e he; exact hpre e (List.mem_filter.mp he).1
  · intro e he; exact hpost e (List.mem_filter.mp he).1

/-- **first hit = newest, on lists**: `pa` selects the candidates of the table searched first, `pu`
    those of all tables; every candidate of the first table is newer than every other candidate.
    Then the newest of all candidates is the newest of the first table if that has one, else the
    newest of the others. -/
theorem newest_split (E : List Entry) (pa pu : Entry → Bool) (hsub : ∀ e, pa e = true → pu e = true)
    (hord : ∀ a ∈ E, ∀ b ∈ E, pa a = true → pu b = true → pa b = false → b.seq < a.seq) :
    newest (E.filter pu) =
      match newest (E.filter pa) with
      | some r => some r
      | none => newest (E.filter (fun e => pu e && !pa e)) := by
  cases hA : newest (E.filter pa) with
  | none =>
    simp only
    have hnil : E.filter pa = [] := by
      cases hl : E.filter pa with
      | nil => rfl
      | cons a t =>
        obtain ⟨r, hr⟩ := newest_some_of_ne_nil (l := E.filter pa) (by rw [hl]; simp)
        rw [hr] at hA; cases hA
    congr 1
    apply List.filter_congr
    intro e he
    have : pa e = false := by
      cases hpe : pa e with
      | false => rfl
      | true =>
        have : e ∈ E.filter pa := List.mem_filter.mpr ⟨he, hpe⟩
        rw [hnil] at this; cases this
    simp [this]
  | some r =>
    simp only
    have hfa := newest_firstMax hA
    obtain ⟨hrA, _⟩ := firstMax_mem hfa
    obtain ⟨hrE, hpar⟩ := List.mem_filter.mp hrA
    have hrU : r ∈ E.filter pu := List.mem_filter.mpr ⟨hrE, hsub r hpar⟩
    obtain ⟨r', hr'⟩ := newest_some_of_ne_nil (l := E.filter pu) (by intro h; rw [h] at hrU; cases hrU)
    have hfu := newest_firstMax hr'
    obtain ⟨hr'U, hmax⟩ := firstMax_mem hfu
    obtain ⟨hr'E, hpur'⟩ := List.mem_filter.mp hr'U
    have hpar' : pa r' = true := by
      cases hc : pa r' with
      | true => rfl
      | false =>
        have h1 := hord r hrE r' hr'E hpar hpur' hc
        have h2 := hmax r hrU
        omega
    have hfa' : FirstMax ((E.filter pu).filter pa) r' := firstMax_filter pa hfu hpar'
    have heq : (E.filter pu).filter pa = E.filter pa := by
      rw [List.filter_filter]
      apply List.filter_congr
      intro e _
      cases hc : pa e with
      | false => simp
      | true => simp [hsub e hc]
    rw [heq] at hfa'
    have := firstMax_newest hfa'
    rw [hA] at this
    cases this
    exact hr'

/-! ### the model: lookups over entry lists -/

/-- the table of the write with this number -/
def tblOf (s : St) (seq : Nat) : Nat := ((findWriter s seq).map (·.tbl)).getD 0

theorem tblOf_ent {s : St} (h : Inv s) (te : Nat × Entry) (hte : te ∈ s.ents) : tblOf s te.2.seq = te.1 := by
  obtain ⟨w, hw, hseq, htbl, _⟩ := h.from_batch te hte
  unfold tblOf
  cases hf : findWriter s te.2.seq with
  | none =>
    exfalso
    unfold findWriter at hf
    rw [List.find?_eq_none] at hf
    exact hf w hw (by simpa using hseq)
  | some w' =>
    obtain ⟨hw', hseq'⟩ := findWriter_some hf
    have : w' = w := uniq_seq s.writers h.wuniq w' hw' w hw (by rw [hseq', hseq])
    subst this
    simpa using htbl

/-- the candidates of a lookup: entries of the tables searched, visible at `ts`, for key `k` -/
def cand (s : St) (tbls : List Nat) (ts k : Nat) (e : Entry) : Bool :=
  decide (tblOf s e.seq ∈ tbls ∧ e.seq ≤ ts ∧ e.key = k)

theorem lookup_entry_form {s : St} (h : Inv s) (sn : Snap) (k : Nat) :
    lookup s sn k = newest ((s.ents.map (·.2)).filter (cand s sn.tbls sn.ts k)) := by
  unfold lookup view
  rw [List.filter_map, List.filter_map, List.filter_filter]
  congr 2
  apply List.filter_congr
  intro te hte
  simp only [cand, Function.comp, tblOf_ent h te hte]
  by_cases h1 : te.1 ∈ sn.tbls <;> by_cases h2 : te.2.seq ≤ sn.ts <;> by_cases h3 : te.2.key = k <;> simp [h1, h2, h3]

/-- `load`: search the snapshot's tables in order — memtable, immutable memtable, the tables of the
    version newest first — and answer with the first table that holds a version of the key visible
    at the timestamp (within one table: the newest such version) -/
def firstHit (s : St) (sn : Snap) (k : Nat) : Option Entry :=
  sn.tbls.findSome? (fun t => lookup s ⟨sn.ts, [t], sn.clean⟩ k)

/-! ### tables are numbered in the order of the sequence numbers -/

structure Ord (s : St) : Prop where
  wtbl_lt : ∀ w ∈ s.writers, w.tbl < w.seq
  wtbl_ord : ∀ w1 ∈ s.writers, ∀ w2 ∈ s.writers, w1.tbl < w2.tbl → w1.seq ≤ w2.tbl
  fl_sorted : s.flushed.Pairwise (· > ·)
  fl_imm : ∀ t, s.imm = some t → ∀ f ∈ s.flushed, f < t ∨ (s.installed = true ∧ f = t)
  trees_ok : ∀ p ∈ s.trees, p.2.1.Pairwise (· > ·) ∧ ∀ f ∈ p.2.1, f ∈ s.flushed
  rd_sorted : ∀ r ∈ s.readers, r.2.tbls.Pairwise (· ≥ ·)

theorem ord_init (c : Bool) (seq mem : Nat) : Ord (init c seq mem) := by
  refine ⟨?_, ?_, ?_, ?_, ?_, ?_⟩ <;> simp [init]

theorem updWriter_same {ws : List Writer} {seq : Nat} {f : Writer → Writer}
    {x : Writer} (hx : x ∈ updWriter ws seq f) (hf : ∀ w, (f w).seq = w.seq ∧ (f w).tbl = w.tbl) :
    ∃ w ∈ ws, x.seq = w.seq ∧ x.tbl = w.tbl := by
  obtain ⟨w, hw, rfl⟩ := mem_updWriter hx
  refine ⟨w, hw, ?_⟩
  split
  · exact hf w
  · exact ⟨rfl, rfl⟩

theorem ord_of_same {s s' : St} (h : Ord s)
    (hw : ∀ x ∈ s'.writers, ∃ w ∈ s.writers, x.seq = w.seq ∧ x.tbl = w.tbl)
    (hfl : s'.flushed = s.flushed) (himm : s'.imm = s.imm) (hinst : s'.installed = s.installed)
    (htr : ∀ p ∈ s'.trees, ∃ q ∈ s.trees, p.2.1 = q.2.1) (hrd : s'.readers = s.readers) : Ord s' := by
  refine ⟨?_, ?_, ?_, ?_, ?_, ?_⟩
  · intro x hx
    obtain ⟨w, hw', h1, h2⟩ := hw x hx
    rw [h1, h2]; exact h.wtbl_lt w hw'
  · intro x1 hx1 x2 hx2 hlt
    obtain ⟨w1, hw1, h11, h12⟩ := hw x1 hx1
    obtain ⟨w2, hw2, h21, h22⟩ := hw x2 hx2
    rw [h11, h22]; rw [h12, h22] at hlt
    exact h.wtbl_ord w1 hw1 w2 hw2 hlt
  · rw [hfl]; exact h.fl_sorted
  · rw [himm, hfl, hinst]; exact h.fl_imm
  · intro p hp
    obtain ⟨q, hq, he⟩ := htr p hp
    rw [he, hfl]; exact h.trees_ok q hq
  · rw [hrd]; exact h.rd_sorted

theorem ord_step {s s' : St} (_hi : Inv s) (hh : Hand s) (h : Ord s) (ev : Ev) (hs : step s ev = some s') : Ord s' := by
  have hself : ∀ x ∈ s.writers, ∃ w ∈ s.writers, x.seq = w.seq ∧ x.tbl = w.tbl := fun x hx => ⟨x, hx, rfl, rfl⟩
  have htrself : ∀ p ∈ s.trees, ∃ q ∈ s.trees, p.2.1 = q.2.1 := fun p hp => ⟨p, hp, rfl⟩
  cases ev with
  | wBegin seq tbl batch =>
    simp only [step] at hs
    split at hs
    · rename_i hc
      obtain ⟨hseq, htbl⟩ := hc
      cases hs
      refine ⟨?_, ?_, h.fl_sorted, h.fl_imm, h.trees_ok, h.rd_sorted⟩
      · intro w hw
        rcases List.mem_append.mp hw with hw | hw
        · exact h.wtbl_lt w hw
        · simp only [List.mem_singleton] at hw; subst hw
          show tbl < seq
          have := hh.mem_lt; omega
      · intro w1 hw1 w2 hw2 hlt
        rcases List.mem_append.mp hw1 with hw1 | hw1 <;> rcases List.mem_append.mp hw2 with hw2 | hw2
        · exact h.wtbl_ord w1 hw1 w2 hw2 hlt
        · simp only [List.mem_singleton] at hw2; subst hw2
          show w1.seq ≤ tbl
          have hlt' : w1.tbl < tbl := hlt
          rw [htbl]
          exact (hh.tbl_seq w1 hw1).2 (by omega)
        · simp only [List.mem_singleton] at hw1; subst hw1
          have hlt' : tbl < w2.tbl := hlt
          have := hh.tbl_le w2 hw2; omega
        · simp only [List.mem_singleton] at hw1 hw2; subst hw1; subst hw2
          exact absurd hlt (Nat.lt_irrefl _)
    · cases hs
  | wLog seq =>
    simp only [step] at hs
    split at hs
    · split at hs
      · cases hs; exact ord_of_same h hself rfl rfl rfl htrself rfl
      · cases hs
    · cases hs
  | wIns seq idx =>
    simp only [step] at hs
    split at hs
    · split at hs
      · split at hs
        · cases hs
          exact ord_of_same h (fun x hx => updWriter_same hx (fun w => ⟨rfl, rfl⟩)) rfl rfl rfl htrself rfl
        · cases hs
      · cases hs
    · cases hs
  | wFin seq =>
    simp only [step] at hs
    split at hs
    · split at hs
      · cases hs
        exact ord_of_same h (fun x hx => updWriter_same hx (fun w => ⟨rfl, rfl⟩)) rfl rfl rfl htrself rfl
      · cases hs
    · cases hs
  | fRotate n o =>
    simp only [step] at hs
    split at hs
    · cases hs
      refine ⟨h.wtbl_lt, h.wtbl_ord, h.fl_sorted, ?_, h.trees_ok, h.rd_sorted⟩
      intro t ht f hf
      simp only [Option.some.injEq] at ht
      subst ht
      exact Or.inl (hh.flushed_lt f hf)
    · cases hs
  | fHead m =>
    simp only [step] at hs
    split at hs
    · cases hs; exact ord_of_same h hself rfl rfl rfl htrself rfl
    · cases hs
  | fInstall o vid =>
    simp only [step] at hs
    split at hs
    · rename_i hc
      obtain ⟨himm, _, hinst, _⟩ := hc
      cases hs
      have hlt : ∀ f ∈ s.flushed, f < o := by
        intro f hf
        rcases h.fl_imm o himm f hf with h1 | ⟨h1, _⟩
        · exact h1
        · rw [hinst] at h1; cases h1
      refine ⟨h.wtbl_lt, h.wtbl_ord, ?_, ?_, ?_, h.rd_sorted⟩
      · exact List.pairwise_cons.mpr ⟨fun f hf => hlt f hf, h.fl_sorted⟩
      · intro t ht f hf
        have hto : t = o := by
          have : s.imm = some t := ht
          rw [himm] at this; cases this; rfl
        subst hto
        rcases List.mem_cons.mp hf with rfl | hf
        · exact Or.inr ⟨rfl, rfl⟩
        · exact Or.inl (hlt f hf)
      · intro p hp
        obtain ⟨h1, h2⟩ := h.trees_ok p hp
        exact ⟨h1, fun f hf => List.mem_cons_of_mem _ (h2 f hf)⟩
    · cases hs
  | fClear o =>
    simp only [step] at hs
    split at hs
    · cases hs
      refine ⟨h.wtbl_lt, h.wtbl_ord, h.fl_sorted, ?_, ?_, h.rd_sorted⟩
      · intro t ht; cases ht
      · intro p hp
        obtain ⟨q, hq, rfl⟩ := List.mem_map.mp hp
        exact h.trees_ok q hq
    · cases hs
  | tInstall vid =>
    simp only [step] at hs
    split at hs
    · cases hs; exact ord_of_same h hself rfl rfl rfl htrself rfl
    · cases hs
  | rTree rid vid =>
    simp only [step] at hs
    split at hs
    · cases hs
      refine ⟨h.wtbl_lt, h.wtbl_ord, h.fl_sorted, h.fl_imm, ?_, h.rd_sorted⟩
      intro p hp
      rcases List.mem_cons.mp hp with rfl | hp
      · exact ⟨h.fl_sorted, fun f hf => hf⟩
      · exact h.trees_ok p (List.mem_filter.mp hp).1
    · cases hs
  | rSnap rid ts mem imm =>
    simp only [step] at hs
    split at hs
    · rename_i p hfind
      split at hs
      · cases hs
        have hp : p ∈ s.trees := List.mem_of_find?_eq_some hfind
        obtain ⟨hp1, hp2⟩ := h.trees_ok p hp
        refine ⟨h.wtbl_lt, h.wtbl_ord, h.fl_sorted, h.fl_imm, ?_, ?_⟩
        · intro q hq; exact h.trees_ok q (List.mem_filter.mp hq).1
        · intro r hr
          rcases List.mem_cons.mp hr with rfl | hr
          · show (s.memId :: (s.imm.toList ++ p.2.1)).Pairwise (· ≥ ·)
            refine List.pairwise_cons.mpr ⟨?_, ?_⟩
            · intro x hx
              rcases List.mem_append.mp hx with hx | hx
              · have : s.imm = some x := by
                  cases hi' : s.imm with
                  | none => rw [hi'] at hx; cases hx
                  | some t => rw [hi'] at hx; simp at hx; rw [hx]
                exact Nat.le_of_lt (hh.imm_lt x this)
              · exact Nat.le_of_lt (hh.flushed_lt x (hp2 x hx))
            · rw [List.pairwise_append]
              refine ⟨?_, hp1.imp (fun hab => Nat.le_of_lt hab), ?_⟩
              · cases s.imm with
                | none => exact List.Pairwise.nil
                | some t => exact List.pairwise_singleton _ _
              · intro a ha b hb
                have himm : s.imm = some a := by
                  cases hi' : s.imm with
                  | none => rw [hi'] at ha; cases ha
                  | some t => rw [hi'] at ha; simp at ha; rw [ha]
                rcases h.fl_imm a himm b (hp2 b hb) with h1 | ⟨_, h1⟩
                · exact Nat.le_of_lt h1
                · rw [h1]; exact Nat.le_refl _
          · exact h.rd_sorted r hr
      · cases hs
    · cases hs
  | wFail seq =>
    simp only [step] at hs
    split at hs
    · split at hs
      · cases hs
        exact ord_of_same h (fun x hx => ⟨x, (List.mem_filter.mp hx).1, rfl, rfl⟩) rfl rfl rfl htrself rfl
      · cases hs
    · cases hs

theorem ord_run : ∀ (evs : List Ev) {s s' : St}, Inv s → Hand s → Ord s → run s evs = some s' → Ord s'
  | [], s, s', _, _, h, hr => by simp only [run] at hr; cases hr; exact h
  | e :: es, s, s', hi, hh, h, hr => by
    rw [run_cons] at hr
    split at hr
    · rename_i s1 hs1
      exact ord_run es (inv_step hi e hs1) (hand_step hi hh e hs1) (ord_step hi hh h e hs1) hr
    · cases hr

/-- every entry of a higher-numbered table is newer than every entry of a lower-numbered one -/
theorem ents_ordered {s : St} (hi : Inv s) (ho : Ord s) (a b : Nat × Entry) (ha : a ∈ s.ents) (hb : b ∈ s.ents)
    (hlt : b.1 < a.1) : b.2.seq < a.2.seq := by
  obtain ⟨wa, hwa, hsa, hta, _⟩ := hi.from_batch a ha
  obtain ⟨wb, hwb, hsb, htb, _⟩ := hi.from_batch b hb
  have h1 := ho.wtbl_ord wb hwb wa hwa (by rw [htb, hta]; exact hlt)
  have h2 := ho.wtbl_lt wa hwa
  omega

/-! ### first hit = newest -/

theorem firstHit_eq_lookup_of_sorted {s : St} (hi : Inv s) (ho : Ord s) (ts k : Nat) (c : Bool) :
    ∀ tbls : List Nat, tbls.Pairwise (· ≥ ·) →
      tbls.findSome? (fun t => lookup s ⟨ts, [t], c⟩ k) = lookup s ⟨ts, tbls, c⟩ k
  | [], _ => by
    rw [lookup_entry_form hi]
    have : (s.ents.map (·.2)).filter (cand s [] ts k) = [] := by
      rw [List.filter_eq_nil_iff]
      intro e _
      simp [cand]
    simp only [List.findSome?_nil]
    rw [this]; rfl
  | t :: rest, hp => by
    have hp' := List.pairwise_cons.mp hp
    have ih := firstHit_eq_lookup_of_sorted hi ho ts k c rest hp'.2
    rw [List.findSome?_cons, ih]
    rw [lookup_entry_form hi ⟨ts, [t], c⟩, lookup_entry_form hi ⟨ts, t :: rest, c⟩, lookup_entry_form hi ⟨ts, rest, c⟩]
    simp only
    rw [newest_split (s.ents.map (·.2)) (cand s [t] ts k) (cand s (t :: rest) ts k)]
    · cases hA : newest ((s.ents.map (·.2)).filter (cand s [t] ts k)) with
      | some r => rfl
      | none =>
        simp only
        have hnil : (s.ents.map (·.2)).filter (cand s [t] ts k) = [] := by
          cases hl : (s.ents.map (·.2)).filter (cand s [t] ts k) with
          | nil => rfl
          | cons a tl =>
            obtain ⟨r, hr⟩ := newest_some_of_ne_nil (l := (s.ents.map (·.2)).filter (cand s [t] ts k))
              (by rw [hl]; simp)
            rw [hr] at hA; cases hA
        congr 1
        apply List.filter_congr
        intro e he
        have hpa : cand s [t] ts k e = false := by
          cases hc : cand s [t] ts k e with
          | false => rfl
          | true =>
            have : e ∈ (s.ents.map (·.2)).filter (cand s [t] ts k) := List.mem_filter.mpr ⟨he, hc⟩
            rw [hnil] at this; cases this
        rw [hpa]
        simp only [cand, List.mem_singleton, decide_eq_false_iff_not, not_and] at hpa
        simp only [cand, List.mem_cons, Bool.not_false, Bool.and_true, decide_eq_decide]
        constructor
        · intro h; exact ⟨Or.inr h.1, h.2.1, h.2.2⟩
        · intro h
          rcases h.1 with h1 | h1
          · exact absurd h.2.2 (hpa h1 h.2.1)
          · exact ⟨h1, h.2.1, h.2.2⟩
    · intro e he
      simp only [cand, List.mem_singleton, decide_eq_true_eq] at he
      simp only [cand, List.mem_cons, decide_eq_true_eq]
      exact ⟨Or.inl he.1, he.2⟩
    · intro a ha b hb hpa hpu hpb
      obtain ⟨ta, hta, rfl⟩ := List.mem_map.mp ha
      obtain ⟨tb, htb, rfl⟩ := List.mem_map.mp hb
      simp only [cand, List.mem_singleton, decide_eq_true_eq, tblOf_ent hi ta hta] at hpa
      simp only [cand, List.mem_cons, decide_eq_true_eq, tblOf_ent hi tb htb] at hpu
      simp only [cand, List.mem_singleton, decide_eq_false_iff_not, not_and, tblOf_ent hi tb htb] at hpb
      have hne : tb.1 ≠ t := fun he => hpb he hpu.2.1 hpu.2.2
      have hin : tb.1 ∈ rest := by
        rcases hpu.1 with h1 | h1
        · exact absurd h1 hne
        · exact h1
      have hle := hp'.1 tb.1 hin
      exact ents_ordered hi ho ta tb hta htb (by rw [hpa.1]; omega)

/-- **`load`'s first hit is the newest visible version**: for every snapshot a reader holds, in
    every reachable state (any interleaving of writers, rotations, hand-offs, installs, readers),
    searching mem, then imm, then the tables of the version newest first and stopping at the first
    table that has the key returns the entry `lookup` — the newest visible version over the union
    of these tables — returns -/
theorem first_hit_eq_newest {c : Bool} {seq0 mem0 : Nat} (hm : mem0 < seq0) {evs : List Ev} {s : St}
    (hrun : run (init c seq0 mem0) evs = some s) (r : Nat × Snap) (hr : r ∈ s.readers) (k : Nat) :
    firstHit s r.2 k = lookup s r.2 k := by
  have hi := inv_run evs (inv_init c seq0 mem0) hrun
  have ho := ord_run evs (inv_init c seq0 mem0) (hand_init c seq0 mem0 hm) (ord_init c seq0 mem0) hrun
  exact firstHit_eq_lookup_of_sorted hi ho r.2.ts k r.2.clean r.2.tbls (ho.rd_sorted r hr)

end Blue.KvsConc
