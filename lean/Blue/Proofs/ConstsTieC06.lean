import Blue.Generated.Consts
/-! What the model `Blue.KvsConc` hard-codes about `lsmtk/src/kvs/mod.rs`, regenerated from the source
    by translate/extract.py and tied here (C06):

    * the timestamp `load` and `range_scan` take (one expression, found in both snapshot blocks) is
      one of the two the model knows: `state.visible_seq_no` (`completed = true`, the repaired read
      policy that `batch_atomic` and `snapshot_stable` are proved for) or `state.seq_no`
      (`completed = false`, the store as found, for which `batch_atomic_fails_as_found` holds and
      the check routes partial batches to known finding D-6);
    * in the first case `visible_seq_no` is advanced to the writer's own sequence number where the
      writer, head of the wait list and holding the state mutex, is about to unlink (`wFin`).
    Any other expression makes this theorem, and with it the proof signal of C06, fail.
    `kvs_read_repaired` says which of the two the tree under test has (it is the harness's probe
    that decides which policy the driver replays with; the two are reported side by side). -/
namespace Blue.ConstsTie

theorem kvs_read_policy :
    (Blue.Generated.kvsReadTimestamp = "visible_seq_no" ∧ Blue.Generated.kvsVisibleAdvance = "at-wait-list-head")
    ∨ (Blue.Generated.kvsReadTimestamp = "seq_no" ∧ Blue.Generated.kvsVisibleAdvance = "absent") := by
  decide

/-- does the tree under test read at the last completed sequence number? -/
def kvsReadRepaired : Bool := Blue.Generated.kvsReadTimestamp == "visible_seq_no"

end Blue.ConstsTie
