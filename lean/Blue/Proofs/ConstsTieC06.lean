import Blue.Generated.Consts
/-! What the model `Blue.KvsConc` hard-codes about `lsmtk/src/kvs/mod.rs`, regenerated from the source
    by translate/extract.py and tied here (C06):

    * the timestamp `load` and `range_scan` take (one expression, found in both snapshot blocks) is
      one of the two the model knows: `state.visible_seq_no` (`completed = true`, the repaired read
      policy that `batch_atomic` and `snapshot_stable` are proved for) or `state.seq_no`
      (`completed = false`, the store as found, for which `batch_atomic_fails_as_found` holds and
      the check routes partial batches to known finding D-6);
    * in the first case `visible_seq_no` is advanced to the writer's own sequence number where the
      writer, head of the wait list and holding the state mutex, is about to unlink (`wFin`).
    * a write that FAILS after it has been linked (`wFail`) leaves the wait list through one of
      the two exits the model covers, neither of which publishes anything: the early return that
      drops the guard wherever it stands (`?` on the fallible calls; the store as found —
      `Blue.KvsWake.successor_sleeps_as_found`, `Blue.WaitList.ring_fills_behind_one_guard`), or
      the common exit in its turn with `visible_seq_no` assigned only `if res.is_ok()` (repaired).
      A write whose error path publishes, or that skips the wait for its turn inside the common
      exit, matches neither (`Blue.KvsConc.failed_write_publishes_tears_batch`).
    Any other expression makes these theorems, and with them the proof signal of C06, fail.
    `kvs_read_repaired` says which of the two the tree under test has (it is the harness's probe
    that decides which policy the driver replays with; the two are reported side by side). -/
namespace Blue.ConstsTie

theorem kvs_read_policy :
    (Blue.Generated.kvsReadTimestamp = "visible_seq_no" ∧ Blue.Generated.kvsVisibleAdvance = "at-wait-list-head")
    ∨ (Blue.Generated.kvsReadTimestamp = "seq_no" ∧ Blue.Generated.kvsVisibleAdvance = "absent") := by
  decide

theorem kvs_failed_write_exit :
    Blue.Generated.kvsFailedWriteExit = "in-turn-no-publish"
    ∨ Blue.Generated.kvsFailedWriteExit = "early-return-drops-guard" := by
  decide

/-- does a failed write of the tree under test leave the wait list in its turn, waking the new head? -/
def kvsFailedWriteRepaired : Bool := Blue.Generated.kvsFailedWriteExit == "in-turn-no-publish"

/-- does the tree under test read at the last completed sequence number? -/
def kvsReadRepaired : Bool := Blue.Generated.kvsReadTimestamp == "visible_seq_no"

end Blue.ConstsTie
