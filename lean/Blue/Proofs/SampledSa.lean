import Blue.Proofs.Sampled
/-! The sampled suffix array and the sampled inverse suffix array return the exact arrays. -/
namespace Blue.Sampled
open Blue.BitArr Blue.Csa

/-! ### what `SampledSuffixArray::construct` samples -/

theorem saSamplesFrom_keys (st : Nat) : ∀ (sa : List Nat) (i : Nat),
    ((saSamplesFrom st i sa).map (·.1)).Pairwise (· < ·) ∧ ∀ k ∈ (saSamplesFrom st i sa).map (·.1), i ≤ k
  | [], i => by simp [saSamplesFrom]
  | p :: t, i => by
    obtain ⟨h1, h2⟩ := saSamplesFrom_keys st t (i + 1)
    unfold saSamplesFrom
    by_cases hp : p % st = 0
    · rw [if_pos hp, List.map_cons, List.pairwise_cons]
      refine ⟨⟨?_, h1⟩, ?_⟩
      · intro k hk; have := h2 k hk; omega
      · intro k hk
        rcases List.mem_cons.mp hk with rfl | hk
        · exact Nat.le_refl _
        · have := h2 k hk; omega
    · rw [if_neg hp]
      exact ⟨h1, fun k hk => by have := h2 k hk; omega⟩

theorem saSamplesFrom_lookup (st : Nat) : ∀ (sa : List Nat) (i j : Nat) (hj : j < sa.length),
    List.lookup (i + j) (saSamplesFrom st i sa) = if sa[j] % st = 0 then some (sa[j] / st) else none
  | [], _, _, hj => by simp at hj
  | p :: t, i, 0, _ => by
    unfold saSamplesFrom
    simp only [List.getElem_cons_zero, Nat.add_zero]
    by_cases hp : p % st = 0
    · rw [if_pos hp, if_pos hp]; simp
    · rw [if_neg hp, if_neg hp]
      apply lookup_none_of_not_mem
      intro hm
      have := (saSamplesFrom_keys st t (i + 1)).2 i hm
      omega
  | p :: t, i, j + 1, hj => by
    have hj' : j < t.length := by simpa using hj
    have ih := saSamplesFrom_lookup st t (i + 1) j hj'
    have e : i + (j + 1) = i + 1 + j := by omega
    unfold saSamplesFrom
    simp only [List.getElem_cons_succ]
    rw [e]
    by_cases hp : p % st = 0
    · rw [if_pos hp, lookup_cons_of_lt _ _ _ _ (by omega)]
      exact ih
    · rw [if_neg hp]; exact ih

theorem saSamplesFrom_lookup_beyond (st : Nat) : ∀ (sa : List Nat) (i x : Nat), i + sa.length ≤ x →
    List.lookup x (saSamplesFrom st i sa) = none
  | [], _, _, _ => by simp [saSamplesFrom]
  | p :: t, i, x, hx => by
    have ih := saSamplesFrom_lookup_beyond st t (i + 1) x (by simp at hx; omega)
    unfold saSamplesFrom
    by_cases hp : p % st = 0
    · rw [if_pos hp, lookup_cons_of_lt _ _ _ _ (by simp at hx; omega)]; exact ih
    · rw [if_neg hp]; exact ih

/-! ### the index facts the walk needs -/

section
variable (T : List Nat) {l : List (List Nat)} (hperm : l.Perm (suffixes T))
  (hsorted : l.Pairwise (fun a b => lexLt a b = true))
include hperm hsorted

omit hsorted in
theorem length_eq : l.length = T.length := by rw [hperm.length_eq]; simp [suffixes]

omit hsorted in
/-- suffix-array entries are text positions -/
theorem saOf_lt (i : Nat) (hi : i < l.length) : saOf l l.length i < l.length := by
  have := (str_is_drop T hperm i hi).2
  rw [← length_eq T hperm] at this
  exact this

omit hsorted in
theorem str_length (i : Nat) (hi : i < l.length) : (str l i).length = l.length - saOf l l.length i := by
  have h1 := (str_is_drop T hperm i hi).1
  have h2 := (str_is_drop T hperm i hi).2
  rw [← length_eq T hperm] at h1 h2
  have : (str l i).length = T.length - saOf l l.length i := by
    conv => lhs; rw [h1]
    rw [List.length_drop]
  rw [this, length_eq T hperm]

/-- ranks are determined by the length of their suffix -/
theorem rank_eq_of_length_eq (i j : Nat) (hi : i < l.length) (hj : j < l.length)
    (h : (str l i).length = (str l j).length) : i = j := by
  have hs := sorted_of_suffixes T l hperm hsorted
  obtain ⟨hdi, hli⟩ := str_is_drop T hperm i hi
  obtain ⟨hdj, hlj⟩ := str_is_drop T hperm j hj
  have heq : str l i = str l j := by
    rw [hdi, hdj]
    unfold saOf
    rw [h]
  rcases Nat.lt_trichotomy i j with hlt | he | hgt
  · have := str_lt hs hlt hj
    rw [heq, lexLt_irrefl] at this; cases this
  · exact he
  · have := str_lt hs hgt hi
    rw [heq, lexLt_irrefl] at this; cases this

end

theorem saList_getElem (l : List (List Nat)) (i : Nat) (hi : i < (saList l).length) :
    (saList l)[i] = saOf l l.length i := by
  simp [saList]

theorem saList_length (l : List (List Nat)) : (saList l).length = l.length := by simp [saList]

/-- **C19** the ψ-walk: from any rank, with `k` steps already taken, the walk returns the suffix
    array entry of the rank it started from — whatever the stride (`st ≥ 1`), provided rank 0 is
    the last suffix (the end marker's) -/
theorem ssaWalk_spec (T : List Nat) {l : List (List Nat)} (hperm : l.Perm (suffixes T))
    (hsorted : l.Pairwise (fun a b => lexLt a b = true)) (h0 : (str l 0).length = 1)
    (s : Ssa) (hzero : s.zero = saOf l l.length 0)
    (hlk : ∀ idx, idx < l.length → lookup s.sampled idx
        = if saOf l l.length idx % s.stride = 0 then some (saOf l l.length idx / s.stride) else none)
    (psiF : Nat → Option Nat)
    (hpsiF : ∀ idx, idx < l.length → 2 ≤ (str l idx).length → psiF idx = some (psi l idx)) :
    ∀ (fuel idx k : Nat), idx < l.length → k ≤ saOf l l.length idx →
      l.length - 1 - saOf l l.length idx < fuel →
      ssaWalk psiF s fuel idx k = some (saOf l l.length idx - k)
  | 0, _, _, _, _, hf => by omega
  | fuel + 1, idx, k, hidx, hk, hf => by
    have hs := sorted_of_suffixes T l hperm hsorted
    have hlen := length_eq T hperm
    unfold ssaWalk
    by_cases hz : idx = 0
    · rw [if_pos hz, hzero, hz]
    · rw [if_neg hz, hlk idx hidx]
      by_cases hsm : saOf l l.length idx % s.stride = 0
      · rw [if_pos hsm]
        simp only
        rw [Nat.div_mul_cancel (Nat.dvd_of_mod_eq_zero hsm)]
      · rw [if_neg hsm]
        simp only
        -- not rank 0, so not the last suffix: ψ is defined and moves one position to the right
        have hl0 : 0 < l.length := by omega
        have hne := hs.nonempty (str l idx) (str_mem hidx)
        have hlong : 2 ≤ (str l idx).length := by
          have h1 : 1 ≤ (str l idx).length := by
            cases hh : str l idx with
            | nil => exact absurd hh hne
            | cons a t => simp
          rcases Nat.lt_or_ge 1 (str l idx).length with h | h
          · exact h
          · exfalso
            apply hz
            exact rank_eq_of_length_eq T hperm hsorted idx 0 hidx hl0 (by omega)
        have hlt := saOf_lt T hperm idx hidx
        have hn : (str l idx).length ≤ l.length := by
          rw [str_length T hperm idx hidx]; omega
        have hpsi := sa_psi hs l.length idx hidx hlong hn
        have hmem := hs.tails (str l idx) (str_mem hidx) hlong
        have hplt : psi l idx < l.length := by
          unfold psi; exact List.idxOf_lt_length_iff.mpr hmem
        have hpa : psiF idx = some (psi l idx) := hpsiF idx hidx hlong
        rw [hpa]
        simp only
        have hsalt := saOf_lt T hperm (psi l idx) hplt
        rw [ssaWalk_spec T hperm hsorted h0 s hzero hlk psiF hpsiF fuel (psi l idx) (k + 1) hplt (by omega) (by omega)]
        rw [hpsi]
        congr 1
        omega

/-- **C19** the sampled suffix array built from the exact suffix array answers `lookup(i)` with
    `sa[i]` at every rank, for every stride (`2^sampling` in the code; any `st`, even the degenerate `0`, in the model) and every
    text length -/
theorem ssaWalk_exact (T : List Nat) {l : List (List Nat)} (hperm : l.Perm (suffixes T))
    (hsorted : l.Pairwise (fun a b => lexLt a b = true)) (hT : T ≠ []) (h0 : (str l 0).length = 1)
    (st : Nat) :
    ∃ s, ssaConstruct st (saList l) = some s ∧ ∀ (psiF : Nat → Option Nat),
      (∀ idx, idx < l.length → 2 ≤ (str l idx).length → psiF idx = some (psi l idx)) →
      ∀ fuel, l.length < fuel → ∀ i, i < l.length → ssaWalk psiF s fuel i 0 = some (saOf l l.length i) := by
  have hlen := length_eq T hperm
  have hTl : 0 < T.length := List.length_pos_iff.mpr hT
  have hl0 : 0 < l.length := by omega
  -- the samples are not empty: text position 0 is always sampled
  have hkeys := saSamplesFrom_keys st (saList l) 0
  have hmem : T ∈ l := hperm.mem_iff.mpr (by
    simp only [suffixes, List.mem_map, List.mem_range]; exact ⟨0, hTl, rfl⟩)
  have hiT := List.idxOf_lt_length_iff.mpr hmem
  have hsaT : saOf l l.length (l.idxOf T) = 0 := by
    unfold saOf; rw [str_idxOf hmem]; omega
  have hlkT := saSamplesFrom_lookup st (saList l) 0 (l.idxOf T) (by rw [saList_length]; exact hiT)
  rw [saList_getElem l _ (by rw [saList_length]; exact hiT), hsaT] at hlkT
  simp only [Nat.zero_mod, if_true] at hlkT
  have hne : saSamplesFrom st 0 (saList l) ≠ [] := by
    intro h; rw [h] at hlkT; simp at hlkT
  obtain ⟨sarr, hc, hlook⟩ := lookup_construct _ hne hkeys.1
  have hhead : (saList l).head? = some (saOf l l.length 0) := by
    rw [List.head?_eq_getElem?, List.getElem?_eq_getElem (by rw [saList_length]; exact hl0), saList_getElem]
  refine ⟨⟨st, saOf l l.length 0, sarr⟩, ?_, ?_⟩
  · unfold ssaConstruct; rw [hhead, hc]
  · intro psiF hpsiF fuel hfuel i hi
    have hsalt := saOf_lt T hperm i hi
    have := ssaWalk_spec T hperm hsorted h0 ⟨st, saOf l l.length 0, sarr⟩ rfl (by
      intro idx hidx
      simp only
      rw [hlook idx]
      have := saSamplesFrom_lookup st (saList l) 0 idx (by rw [saList_length]; exact hidx)
      rw [Nat.zero_add] at this
      rw [this, saList_getElem]) psiF hpsiF fuel i 0 hi (Nat.zero_le _) (by omega)
    rw [this]; rfl

/-- **C19** … in particular over the reference ψ -/
theorem ssaLookup_exact (T : List Nat) {l : List (List Nat)} (hperm : l.Perm (suffixes T))
    (hsorted : l.Pairwise (fun a b => lexLt a b = true)) (hT : T ≠ []) (h0 : (str l 0).length = 1)
    (st : Nat) :
    ∃ s, ssaConstruct st (saList l) = some s ∧ ∀ i, i < l.length → ssaLookup l s i = some (saOf l l.length i) := by
  obtain ⟨s, hc, h⟩ := ssaWalk_exact T hperm hsorted hT h0 st
  refine ⟨s, hc, fun i hi => ?_⟩
  unfold ssaLookup
  exact h (psiAt l) (fun idx hidx _ => by unfold psiAt; rw [if_pos hidx]) (l.length + 1) (by omega) i hi

/-! ### the sampled inverse suffix array -/

theorem isaSamples_spec (isaAt : Nat → Nat) (n : Nat) : ∀ (rb : List Nat) (lo : Nat),
    rb.Pairwise (· < ·) → (∀ b ∈ rb, lo ≤ b ∧ b < n) →
    isaSamples isaAt n lo rb = some (rb.map (fun b => (b, isaAt b)))
  | [], _, _, _ => rfl
  | b :: t, lo, hpw, hb => by
    rw [List.pairwise_cons] at hpw
    have hb0 := hb b List.mem_cons_self
    unfold isaSamples
    rw [if_neg (by omega)]
    rw [isaSamples_spec isaAt n t (b + 1) hpw.2 (fun c hc => ⟨by have := hpw.1 c hc; omega, (hb c (List.mem_cons_of_mem _ hc)).2⟩)]
    rfl

theorem lookup_map_self (f : Nat → Nat) : ∀ (rb : List Nat) (x : Nat),
    List.lookup x (rb.map (fun b => (b, f b))) = if x ∈ rb then some (f x) else none
  | [], x => by simp
  | b :: t, x => by
    rw [List.map_cons]
    by_cases h : x = b
    · subst h; simp
    · rw [lookup_cons_of_lt _ _ _ _ h, lookup_map_self f t x]
      simp [h]

/-- **C19** the sampled inverse suffix array built over strictly increasing positions inside the
    text answers `lookup(p)` with the exact inverse `isa[p]` at every sampled position and with an
    error elsewhere -/
theorem sisaLookup_exact (l : List (List Nat)) (rb : List Nat) (hne : rb ≠ [])
    (hpw : rb.Pairwise (· < ·)) (hb : ∀ b ∈ rb, b < l.length) :
    ∃ s, sisaConstruct l rb = some s
      ∧ ∀ x, sisaLookup s x = if x ∈ rb then some (Blue.CsaDoc.isa l x) else none := by
  have hsm := isaSamples_spec (Blue.CsaDoc.isa l) l.length rb 0 hpw (fun b h => ⟨Nat.zero_le _, hb b h⟩)
  have hkeys : ((rb.map (fun b => (b, Blue.CsaDoc.isa l b))).map (·.1)) = rb := by
    rw [List.map_map]; simp [Function.comp_def]
  obtain ⟨s, hc, hlook⟩ := lookup_construct (rb.map (fun b => (b, Blue.CsaDoc.isa l b)))
    (by intro h; exact hne (List.map_eq_nil_iff.mp h)) (by rw [hkeys]; exact hpw)
  refine ⟨s, ?_, ?_⟩
  · unfold sisaConstruct; rw [hsm]; exact hc
  · intro x
    unfold sisaLookup
    rw [hlook x, lookup_map_self]

end Blue.Sampled
