import Blue.Proofs.SstCut
/-! `Sst::metadata` and the final block: first / last key, smallest / biggest timestamp, the number
    of filter entries and the file size are exactly those of the accepted entries and of the bytes
    written. -/
namespace Blue.Sst
open Blue.Block Blue.Cursor

/-! ### first and last key through the cursor -/
/-- **C10** `metadata()` reads the first key with `seek_to_first; next` and the last key with
    `seek_to_last; prev`: over non-empty blocks these are the keys of the first and the last entry
    of the table (and the documented defaults for a table without entries) -/
theorem metadata_keys (t : Table) (hne : ∀ b ∈ t.blocks, b ≠ []) :
    t.metadata.firstKey = (match t.blocks.flatten.head? with | some e => e.key | none => [])
    ∧ t.metadata.lastKey = (match t.blocks.flatten.getLast? with | some e => e.key | none => MAX_KEY) := by
  constructor
  · show (match (sstep (sstep t.cursor .first) .next).kv with | some e => e.key | none => []) = _
    obtain ⟨m, bc, h1, h2⟩ := Blue.Cursor.next_rel t.blocks t.dividers hne (SRel.first (L := t.blocks))
    have e1 : sstep (sstep t.cursor .first) .next = ⟨t.blocks, t.dividers, m, bc⟩ := h1
    rw [e1, srel_kv h2 t.dividers]
    have : (Ref.mk t.blocks.flatten (Ref.next ⟨t.blocks.flatten, 0⟩).pos).kv = t.blocks.flatten.head? := by
      simp [Ref.next, Ref.kv, List.head?_eq_getElem?]
    rw [this]
  · show (match (sstep (sstep t.cursor .last) .prev).kv with | some e => e.key | none => MAX_KEY) = _
    obtain ⟨m, bc, h1, h2⟩ := Blue.Cursor.prev_rel t.blocks t.dividers hne (SRel.last (L := t.blocks))
    have e1 : sstep (sstep t.cursor .last) .prev = ⟨t.blocks, t.dividers, m, bc⟩ := h1
    rw [e1, srel_kv h2 t.dividers]
    have : (Ref.mk t.blocks.flatten (Ref.prev ⟨t.blocks.flatten, t.blocks.flatten.length + 1⟩).pos).kv
        = t.blocks.flatten.getLast? := by
      simp only [Ref.prev, Ref.kv]
      simp only [Nat.zero_lt_succ, if_true, Nat.add_sub_cancel]
      cases hl : t.blocks.flatten with
      | nil => simp
      | cons x xs => simp [List.getLast?_eq_getElem?]
    rw [this]

/-! ### timestamps, filter count, bytes written -/
structure MInv (s : SB) : Prop where
  bounds : ∀ e ∈ s.accepted, s.smallest ≤ e.ts ∧ e.ts ≤ s.biggest
  none_ : s.accepted = [] → s.smallest = U64MAX ∧ s.biggest = 0
  attained : s.accepted ≠ [] → (∃ e ∈ s.accepted, e.ts = s.smallest) ∧ ∃ e ∈ s.accepted, e.ts = s.biggest
  count : s.count = s.accepted.length
  written : s.bytesWritten = (s.blocks.flatMap (frame SE_PLAIN)).length

theorem minv_init : MInv SB.init :=
  ⟨by intro e h; simp [SB.init] at h, fun _ => ⟨rfl, rfl⟩, fun h => absurd rfl h, rfl, rfl⟩

theorem minv_afterPut {s1 : SB} {c' : CBuilder} {e : KV} (h : MInv s1) (hts : e.ts ≤ U64MAX) :
    MInv (afterPut s1 c' e) := by
  refine ⟨?_, ?_, ?_, ?_, ?_⟩
  · intro x hx
    simp only [afterPut, List.mem_append, List.mem_singleton] at hx ⊢
    rcases hx with hx | rfl
    · have := h.bounds x hx; omega
    · omega
  · intro h0; simp [afterPut] at h0
  · intro _
    simp only [afterPut]
    by_cases ha : s1.accepted = []
    · obtain ⟨h1, h2⟩ := h.none_ ha
      rw [h1, h2, ha]
      exact ⟨⟨e, by simp, by omega⟩, ⟨e, by simp, by omega⟩⟩
    · obtain ⟨⟨a, ha1, ha2⟩, ⟨b, hb1, hb2⟩⟩ := h.attained ha
      constructor
      · by_cases hle : s1.smallest ≤ e.ts
        · exact ⟨a, by simp [ha1], by omega⟩
        · exact ⟨e, by simp, by omega⟩
      · by_cases hle : e.ts ≤ s1.biggest
        · exact ⟨b, by simp [hb1], by omega⟩
        · exact ⟨e, by simp, by omega⟩
  · simp only [afterPut, List.length_append, List.length_cons, List.length_nil]; rw [h.count]
  · simp only [afterPut]; exact h.written

theorem minv_flushed {s : SB} {c idx : CBuilder} {k : List Nat} {t : Nat} (h : MInv s) :
    MInv (flushed s c idx k t) := by
  refine ⟨h.bounds, h.none_, h.attained, h.count, ?_⟩
  simp only [flushed, List.flatMap_append, List.length_append, List.flatMap_cons, List.flatMap_nil, List.append_nil]
  rw [h.written]

theorem minv_put {o : SstOpts} {s s' : SB} {e : KV} (hi : MInv s) (hts : e.ts ≤ U64MAX) (h : s.put o e = .ok s') :
    MInv s' := by
  obtain ⟨_, hcase⟩ := put_ok h
  rcases hcase with ⟨_, c', _, rfl⟩ | ⟨c, _, _, c', _, rfl⟩ | ⟨c, _, _, sf, hf, c', _, rfl⟩
  · exact minv_afterPut (s1 := { s with cur := some CBuilder.init }) ⟨hi.bounds, hi.none_, hi.attained, hi.count, hi.written⟩ hts
  · exact minv_afterPut hi hts
  · obtain ⟨c2, idx, _, _, rfl⟩ := flush_ok hf
    have := minv_flushed (c := c2) (idx := idx) (k := e.key) (t := e.ts) hi
    exact minv_afterPut (s1 := { flushed s c2 idx e.key e.ts with cur := some CBuilder.init })
      ⟨this.bounds, this.none_, this.attained, this.count, this.written⟩ hts

theorem minv_putAll (o : SstOpts) : ∀ (atts : List KV) (s : SB), (∀ e ∈ atts, e.ts ≤ U64MAX) → MInv s →
    MInv (SB.putAll o s atts).2
  | [], _, _, h => h
  | e :: es, s, hts, h => by
    simp only [SB.putAll]
    cases hp : s.put o e with
    | error err => exact minv_putAll o es s (fun x hx => hts x (List.mem_cons_of_mem _ hx)) h
    | ok s' =>
      exact minv_putAll o es s' (fun x hx => hts x (List.mem_cons_of_mem _ hx))
        (minv_put h (hts e (List.mem_cons_self ..)) hp)

/-- what `seal` hands over, from the builder's state -/
theorem seal_ok {o : SstOpts} {s : SB} {filter setsum : List Nat} {f : SstFile} (h : s.seal o filter setsum = .ok f) :
    ∃ s1, ((∃ c, s.cur = some c ∧ s.flush o (minimalSuccessor s.lastKey s.lastTs).1 (minimalSuccessor s.lastKey s.lastTs).2 = .ok s1)
            ∨ (s.cur = none ∧ s1 = s))
      ∧ f.blocks = s1.blocks ∧ f.index = s1.index.b.seal ∧ f.filter = filter ∧ f.fin.setsum = setsum
      ∧ f.fin.smallest = (if s1.smallest > s1.biggest then 0 else s1.smallest)
      ∧ f.fin.biggest = (if s1.smallest > s1.biggest then 0 else s1.biggest)
      ∧ f.fin.index.start = s1.bytesWritten
      ∧ f.fileSize = s1.bytesWritten + (frame SE_PLAIN s1.index.b.seal).length + (frame SE_FILTER filter).length
          + (encFinal f.fin).length := by
  unfold SB.seal at h
  cases hcur : s.cur with
  | none =>
    rw [hcur] at h
    simp only at h
    cases h
    refine ⟨s, Or.inr ⟨rfl, rfl⟩, rfl, rfl, rfl, rfl, ?_, ?_, rfl, ?_⟩
    · simp only; split <;> rfl
    · simp only; split <;> rfl
    · simp only
  | some c =>
    rw [hcur] at h
    simp only at h
    cases hf : s.flush o (minimalSuccessor s.lastKey s.lastTs).1 (minimalSuccessor s.lastKey s.lastTs).2 with
    | error x => rw [hf] at h; cases h
    | ok s1 =>
      rw [hf] at h
      simp only at h
      cases h
      refine ⟨s1, Or.inl ⟨c, rfl, rfl⟩, rfl, rfl, rfl, rfl, ?_, ?_, rfl, ?_⟩
      · simp only; split <;> rfl
      · simp only; split <;> rfl
      · simp only

/-- **C10** the sealed file's size field is the length of the bytes written -/
theorem seal_fileSize {o : SstOpts} {s : SB} {filter setsum : List Nat} {f : SstFile}
    (hi : MInv s) (h : s.seal o filter setsum = .ok f) : f.fileSize = f.bytes.length := by
  obtain ⟨s1, hs1, hb, hidx, hfl, _, _, _, _, hsz⟩ := seal_ok h
  have hw : s1.bytesWritten = (s1.blocks.flatMap (frame SE_PLAIN)).length := by
    rcases hs1 with ⟨c, _, hf⟩ | ⟨_, rfl⟩
    · obtain ⟨c2, idx, _, _, rfl⟩ := flush_ok hf
      exact (minv_flushed hi).written
    · exact hi.written
  rw [hsz]
  unfold SstFile.bytes SstFile.final
  simp only [List.length_append]
  rw [hb, hidx, hfl, hw]

/-- **C10** the timestamps in the final block are the smallest and the biggest timestamp of the
    accepted entries (0 and 0 for a table without entries), and the filter was sized for exactly
    the accepted entries -/
theorem seal_timestamps {o : SstOpts} {s : SB} {filter setsum : List Nat} {f : SstFile}
    (hi : MInv s) (h : s.seal o filter setsum = .ok f) :
    (∀ e ∈ s.accepted, f.fin.smallest ≤ e.ts ∧ e.ts ≤ f.fin.biggest)
    ∧ (s.accepted ≠ [] → (∃ e ∈ s.accepted, e.ts = f.fin.smallest) ∧ ∃ e ∈ s.accepted, e.ts = f.fin.biggest)
    ∧ (s.accepted = [] → f.fin.smallest = 0 ∧ f.fin.biggest = 0)
    ∧ s.count = s.accepted.length := by
  obtain ⟨s1, hs1, _, _, _, _, hsm, hbg, _, _⟩ := seal_ok h
  have hsame : s1.smallest = s.smallest ∧ s1.biggest = s.biggest := by
    rcases hs1 with ⟨c, _, hf⟩ | ⟨_, rfl⟩
    · obtain ⟨c2, idx, _, _, rfl⟩ := flush_ok hf
      exact ⟨rfl, rfl⟩
    · exact ⟨rfl, rfl⟩
  rw [hsame.1, hsame.2] at hsm hbg
  refine ⟨?_, ?_, ?_, hi.count⟩
  · intro e he
    have hb := hi.bounds e he
    have : ¬ s.smallest > s.biggest := by omega
    rw [hsm, hbg]; simp only [this, if_false]; exact hb
  · intro hne
    obtain ⟨⟨a, ha1, ha2⟩, ⟨b, hb1, hb2⟩⟩ := hi.attained hne
    have hb := hi.bounds a ha1
    have : ¬ s.smallest > s.biggest := by omega
    rw [hsm, hbg]; simp only [this, if_false]
    exact ⟨⟨a, ha1, ha2⟩, ⟨b, hb1, hb2⟩⟩
  · intro he
    obtain ⟨h1, h2⟩ := hi.none_ he
    rw [hsm, hbg, h1, h2]
    simp [U64MAX]

end Blue.Sst
