import Blue.Model.CursorWorld
import Blue.Proofs.SkipOwn
/-! The MEMORY coupling invariant of `Blue.CursorWorld`: every memtable's ownership state satisfies
    `Blue.SkipOwn.Inv`, every handle of a live cursor is a held iterator of its memtable, no two
    live cursors share a handle, and every held iterator belongs to a live cursor. -/
namespace Blue.CursorWorld
open Blue.Spec Blue.Cursor

variable {F K : Type} [DecidableEq F] [DecidableEq K]

/-- is iterator `h.2` of memtable `h.1` held? -/
def slot (ts : List SkipOwn.St) (h : Nat × Nat) : Bool :=
  match ts[h.1]? with
  | some tb => SkipOwn.held tb h.2
  | none => false

theorem onTable_some {ts ts' : List SkipOwn.St} {t : Nat} {op : Blue.SkipLife.Op} (h : onTable ts t op = some ts') :
    ∃ tb tb', ts[t]? = some tb ∧ SkipOwn.step false tb op = some tb' ∧ ts' = ts.set t tb' := by
  unfold onTable at h
  split at h
  · rename_i tb hg
    simp only [Option.map_eq_some_iff] at h
    obtain ⟨tb', h1, h2⟩ := h
    exact ⟨tb, tb', hg, h1, h2.symm⟩
  · cases h

theorem slot_set (ts : List SkipOwn.St) (t : Nat) (tb tb' : SkipOwn.St) (hg : ts[t]? = some tb) (h : Nat × Nat) :
    slot (ts.set t tb') h = if h.1 = t then SkipOwn.held tb' h.2 else slot ts h := by
  unfold slot
  by_cases he : h.1 = t
  · rw [if_pos he, he]
    have hlt : t < ts.length := (List.getElem?_eq_some_iff.mp hg).1
    rw [List.getElem?_set_self hlt]
  · rw [if_neg he, List.getElem?_set_ne (Ne.symm he)]

theorem slot_of_get {ts : List SkipOwn.St} {t : Nat} {tb : SkipOwn.St} (hg : ts[t]? = some tb) (j : Nat) :
    slot ts (t, j) = SkipOwn.held tb j := by
  unfold slot; simp only [hg]

theorem step_iters_same {tb tb' : SkipOwn.St} {op : Blue.SkipLife.Op} (hs : SkipOwn.step false tb op = some tb')
    (hop : op = .insert ∨ op = .dropList ∨ ∃ j, op = .use j) : tb'.iters = tb.iters := by
  rcases hop with rfl | rfl | ⟨j, rfl⟩
  · simp only [SkipOwn.step] at hs
    split at hs
    · cases hs; rfl
    · cases hs
  · simp only [SkipOwn.step] at hs
    split at hs
    · simp only [Bool.false_eq_true, if_false] at hs
      cases hs; rfl
    · cases hs
  · simp only [SkipOwn.step] at hs
    split at hs
    · cases hs; rfl
    · cases hs

theorem onTable_slot_same {ts ts' : List SkipOwn.St} {t : Nat} {op : Blue.SkipLife.Op} (h : onTable ts t op = some ts')
    (hop : op = .insert ∨ op = .dropList ∨ ∃ j, op = .use j) (x : Nat × Nat) : slot ts' x = slot ts x := by
  obtain ⟨tb, tb', hg, hs, rfl⟩ := onTable_some h
  obtain ⟨a, b⟩ := x
  rw [slot_set ts t tb tb' hg]
  by_cases he : a = t
  · subst he
    rw [if_pos rfl, slot_of_get hg]
    simp only [SkipOwn.held, step_iters_same hs hop]
  · rw [if_neg he]

theorem getD_append_true (l : List Bool) (b : Nat) :
    (l ++ [true]).getD b false = if b = l.length then true else l.getD b false := by
  simp only [List.getD_eq_getElem?_getD, List.getElem?_append]
  by_cases h1 : b < l.length
  · rw [if_pos h1, if_neg (by omega)]
  · rw [if_neg h1]
    by_cases h2 : b = l.length
    · subst h2; simp
    · rw [if_neg h2]
      have : l[b]? = none := List.getElem?_eq_none (by omega)
      rw [this]
      have : ([true] : List Bool)[b - l.length]? = none := List.getElem?_eq_none (by simp; omega)
      rw [this]

theorem getD_set_false (l : List Bool) (j b : Nat) :
    (l.set j false).getD b false = if b = j then false else l.getD b false := by
  simp only [List.getD_eq_getElem?_getD]
  by_cases h : b = j
  · subst h
    rw [if_pos rfl]
    by_cases hl : b < l.length
    · rw [List.getElem?_set_self hl]; rfl
    · rw [List.getElem?_eq_none (by simp; omega)]; rfl
  · rw [if_neg h, List.getElem?_set_ne (Ne.symm h)]

theorem onTable_slot_iter {ts ts' : List SkipOwn.St} {t : Nat} {tb : SkipOwn.St} (hg : ts[t]? = some tb)
    (h : onTable ts t .iter = some ts') (x : Nat × Nat) :
    slot ts' x = if x = (t, tb.iters.length) then true else slot ts x := by
  obtain ⟨tb0, tb', hg0, hs, rfl⟩ := onTable_some h
  have : tb0 = tb := Option.some.inj (hg0.symm.trans hg)
  subst this
  obtain ⟨a, b⟩ := x
  rw [slot_set ts t tb0 tb' hg]
  simp only [SkipOwn.step] at hs
  split at hs
  · cases hs
    by_cases he : a = t
    · subst he
      rw [if_pos rfl, slot_of_get hg]
      simp only [SkipOwn.held, getD_append_true, Prod.mk.injEq, true_and]
    · rw [if_neg he, if_neg (by simp only [Prod.mk.injEq]; exact fun h => he h.1)]
  · cases hs

theorem onTable_slot_drop {ts ts' : List SkipOwn.St} {t j : Nat}
    (h : onTable ts t (.dropIter j) = some ts') (x : Nat × Nat) :
    slot ts' x = if x = (t, j) then false else slot ts x := by
  obtain ⟨tb, tb', hg, hs, rfl⟩ := onTable_some h
  obtain ⟨a, b⟩ := x
  rw [slot_set ts t tb tb' hg]
  simp only [SkipOwn.step] at hs
  split at hs
  · cases hs
    by_cases he : a = t
    · subst he
      rw [if_pos rfl, slot_of_get hg]
      simp only [SkipOwn.held, SkipOwn.release, getD_set_false, Prod.mk.injEq, true_and]
    · rw [if_neg he, if_neg (by simp only [Prod.mk.injEq]; exact fun h => he h.1)]
  · cases hs

/-! ### `SkipOwn.Inv` of every memtable, lengths -/

def TabsOk (ts : List SkipOwn.St) : Prop := ∀ tb ∈ ts, SkipOwn.Inv tb

theorem onTable_tabs {ts ts' : List SkipOwn.St} {t : Nat} {op : Blue.SkipLife.Op} (h : onTable ts t op = some ts')
    (hi : TabsOk ts) : TabsOk ts' := by
  obtain ⟨tb, tb', hg, hs, rfl⟩ := onTable_some h
  intro x hx
  rcases List.mem_or_eq_of_mem_set hx with hx | rfl
  · exact hi x hx
  · exact SkipOwn.inv_step (hi tb (List.mem_of_getElem? hg)) op hs

theorem onTable_length {ts ts' : List SkipOwn.St} {t : Nat} {op : Blue.SkipLife.Op} (h : onTable ts t op = some ts') :
    ts'.length = ts.length := by
  obtain ⟨tb, tb', hg, hs, rfl⟩ := onTable_some h
  simp

theorem onHandles_cons {mk : Nat → Blue.SkipLife.Op} {ts ts' : List SkipOwn.St} {t j : Nat} {hs : List (Nat × Nat)}
    (h : onHandles mk ts ((t, j) :: hs) = some ts') :
    ∃ ts1, onTable ts t (mk j) = some ts1 ∧ onHandles mk ts1 hs = some ts' := by
  simp only [onHandles, Option.bind_eq_some_iff] at h
  exact h

theorem onHandles_tabs {mk : Nat → Blue.SkipLife.Op} : ∀ (hs : List (Nat × Nat)) {ts ts' : List SkipOwn.St},
    onHandles mk ts hs = some ts' → TabsOk ts → TabsOk ts' ∧ ts'.length = ts.length
  | [], ts, ts', h, hi => by simp only [onHandles] at h; cases h; exact ⟨hi, rfl⟩
  | (t, j) :: hs, ts, ts', h, hi => by
    obtain ⟨ts1, h1, h2⟩ := onHandles_cons h
    have := onHandles_tabs hs h2 (onTable_tabs h1 hi)
    exact ⟨this.1, by rw [this.2, onTable_length h1]⟩

theorem onHandles_use_slot : ∀ (hs : List (Nat × Nat)) {ts ts' : List SkipOwn.St},
    onHandles .use ts hs = some ts' → ∀ x, slot ts' x = slot ts x
  | [], ts, ts', h, x => by simp only [onHandles] at h; cases h; rfl
  | (t, j) :: hs, ts, ts', h, x => by
    obtain ⟨ts1, h1, h2⟩ := onHandles_cons h
    rw [onHandles_use_slot hs h2 x, onTable_slot_same h1 (Or.inr (Or.inr ⟨j, rfl⟩)) x]

theorem onHandles_drop_slot : ∀ (hs : List (Nat × Nat)) {ts ts' : List SkipOwn.St},
    onHandles .dropIter ts hs = some ts' → ∀ x, slot ts' x = if x ∈ hs then false else slot ts x
  | [], ts, ts', h, x => by simp only [onHandles] at h; cases h; simp
  | (t, j) :: hs, ts, ts', h, x => by
    obtain ⟨ts1, h1, h2⟩ := onHandles_cons h
    rw [onHandles_drop_slot hs h2 x, onTable_slot_drop h1 x]
    by_cases hx : x ∈ hs
    · rw [if_pos hx, if_pos (List.mem_cons_of_mem _ hx)]
    · rw [if_neg hx]
      by_cases he : x = (t, j)
      · rw [if_pos he, if_pos (by rw [he]; exact List.mem_cons_self)]
      · rw [if_neg he, if_neg (by simp only [List.mem_cons, not_or]; exact ⟨he, hx⟩)]

/-- every handle of a `use` that is enabled is held and its memtable has released nothing -/
theorem onHandles_use_live : ∀ (hs : List (Nat × Nat)) {ts ts' : List SkipOwn.St},
    onHandles .use ts hs = some ts' → TabsOk ts →
    ∀ h ∈ hs, ∃ tb, ts[h.1]? = some tb ∧ SkipOwn.held tb h.2 = true ∧ tb.freed = []
  | [], _, _, _, _, h, hm => by cases hm
  | (t, j) :: hs, ts, ts', h, hi, x, hm => by
    obtain ⟨ts1, h1, h2⟩ := onHandles_cons h
    obtain ⟨tb, tb', hg, hst, rfl⟩ := onTable_some h1
    have hinv := hi tb (List.mem_of_getElem? hg)
    have hheld : SkipOwn.held tb j = true := by
      simp only [SkipOwn.step] at hst
      split at hst
      · assumption
      · cases hst
    have hfree : tb.freed = [] := by
      have hrc := hinv.rc_eq
      rw [SkipOwn.holders_abs] at hrc
      rw [hinv.freed_eq, if_neg (by have := SkipOwn.held_pos hheld; omega)]
    rcases List.mem_cons.mp hm with rfl | hm
    · exact ⟨tb, hg, hheld, hfree⟩
    · obtain ⟨tb2, hg2, hh2, hf2⟩ := onHandles_use_live hs h2 (onTable_tabs h1 hi) x hm
      -- the memtables before the first `use` differ from those after it in the ghost flag only
      by_cases he : x.1 = t
      · have hlt : t < ts.length := (List.getElem?_eq_some_iff.mp hg).1
        rw [he, List.getElem?_set_self hlt] at hg2
        cases hg2
        refine ⟨tb, by rw [he]; exact hg, ?_, hfree⟩
        have hit := step_iters_same hst (Or.inr (Or.inr ⟨j, rfl⟩))
        simp only [SkipOwn.held] at hh2 ⊢
        rw [← hit]; exact hh2
      · rw [List.getElem?_set_ne (Ne.symm he)] at hg2
        exact ⟨tb2, hg2, hh2, hf2⟩

theorem openOn_cons {ts ts' : List SkipOwn.St} {t : Nat} {rest : List Nat} {hs : List (Nat × Nat)}
    (h : openOn ts (t :: rest) = some (ts', hs)) :
    ∃ tb ts1 hs', ts[t]? = some tb ∧ onTable ts t .iter = some ts1 ∧ openOn ts1 rest = some (ts', hs') ∧
      hs = (t, tb.iters.length) :: hs' := by
  simp only [openOn] at h
  split at h
  · cases h
  · rename_i tb hg
    simp only [Option.bind_eq_some_iff, Option.map_eq_some_iff] at h
    obtain ⟨ts1, h1, r, h2, h3⟩ := h
    cases h3
    exact ⟨tb, ts1, r.2, hg, h1, h2, rfl⟩

theorem openOn_spec : ∀ (tabs : List Nat) {ts ts' : List SkipOwn.St} {hs : List (Nat × Nat)},
    openOn ts tabs = some (ts', hs) → TabsOk ts →
    (TabsOk ts' ∧ ts'.length = ts.length) ∧ (∀ x, slot ts' x = if x ∈ hs then true else slot ts x) ∧
      (∀ x ∈ hs, slot ts x = false)
  | [], ts, ts', hs, h, hi => by
    simp only [openOn] at h; cases h
    exact ⟨⟨hi, rfl⟩, fun x => by simp, fun x hx => by cases hx⟩
  | t :: rest, ts, ts', hs, h, hi => by
    obtain ⟨tb, ts1, hs', hg, h1, h2, rfl⟩ := openOn_cons h
    obtain ⟨⟨ht, hl⟩, hsl, hnew⟩ := openOn_spec rest h2 (onTable_tabs h1 hi)
    have h1s := onTable_slot_iter hg h1
    have hfresh : slot ts (t, tb.iters.length) = false := by
      rw [slot_of_get hg]
      simp only [SkipOwn.held, List.getD_eq_getElem?_getD]
      rw [List.getElem?_eq_none (Nat.le_refl _)]; rfl
    refine ⟨⟨ht, by rw [hl, onTable_length h1]⟩, ?_, ?_⟩
    · intro x
      rw [hsl x, h1s x]
      by_cases hx : x ∈ hs'
      · rw [if_pos hx, if_pos (List.mem_cons_of_mem _ hx)]
      · rw [if_neg hx]
        by_cases he : x = (t, tb.iters.length)
        · rw [if_pos he, if_pos (by rw [he]; exact List.mem_cons_self)]
        · rw [if_neg he, if_neg (by simp only [List.mem_cons, not_or]; exact ⟨he, hx⟩)]
    · intro x hx
      rcases List.mem_cons.mp hx with rfl | hx
      · exact hfresh
      · have := hnew x hx
        rw [h1s x] at this
        by_cases he : x = (t, tb.iters.length)
        · rw [if_pos he] at this; cases this
        · rw [if_neg he] at this; exact this

/-! ### the invariant -/

structure MemInv (s : St F K) : Prop where
  tabs : TabsOk s.tables
  nonempty : 0 < s.tables.length
  imm_lt : ∀ t, s.imm = some t → t + 1 < s.tables.length
  /-- every handle of a live cursor is a held iterator -/
  held : ∀ (i : Nat) (c : Cur K), s.cursors[i]? = some c → c.live = true → ∀ h ∈ c.hs, slot s.tables h = true
  /-- no two live cursors share a handle -/
  uniq : ∀ (i i' : Nat) (c c' : Cur K), s.cursors[i]? = some c → s.cursors[i']? = some c' → c.live = true → c'.live = true →
    ∀ h, h ∈ c.hs → h ∈ c'.hs → i = i'
  /-- every held iterator is a live cursor's -/
  owned : ∀ h, slot s.tables h = true → ∃ (i : Nat) (c : Cur K), s.cursors[i]? = some c ∧ c.live = true ∧ h ∈ c.hs

theorem memInv_init (files : List F) (data : List (F × List (Ver K))) : MemInv (init files data : St F K) := by
  refine ⟨?_, by simp [init], by simp [init], ?_, ?_, ?_⟩
  · intro tb htb
    simp only [init, List.mem_cons, List.not_mem_nil, or_false] at htb
    subst htb; exact SkipOwn.inv_init
  · intro i c hc; simp [init] at hc
  · intro i i' c c' hc; simp [init] at hc
  · intro h hh
    exfalso
    obtain ⟨a, b⟩ := h
    unfold slot at hh
    simp only [init] at hh
    cases a with
    | zero => simp [SkipOwn.held] at hh
    | succ n => simp at hh

/-- the invariant depends on the cursors through `live` and `hs` only -/
theorem memInv_of_sig {s s' : St F K} (h : MemInv s) (ht : s'.tables = s.tables) (hi : s'.imm = s.imm)
    (hc : s'.cursors.map (fun c => (c.live, c.hs)) = s.cursors.map (fun c => (c.live, c.hs))) : MemInv s' := by
  have key : ∀ (i : Nat) (c' : Cur K), s'.cursors[i]? = some c' → ∃ c : Cur K, s.cursors[i]? = some c ∧ c.live = c'.live ∧ c.hs = c'.hs := by
    intro i c' hc'
    have := congrArg (fun l => l[i]?) hc
    simp only [List.getElem?_map, hc', Option.map_some] at this
    cases hg : s.cursors[i]? with
    | none => rw [hg] at this; cases this
    | some c =>
      rw [hg] at this
      simp only [Option.map_some, Option.some.injEq, Prod.mk.injEq] at this
      exact ⟨c, rfl, this.1.symm, this.2.symm⟩
  have key' : ∀ (i : Nat) (c : Cur K), s.cursors[i]? = some c → ∃ c' : Cur K, s'.cursors[i]? = some c' ∧ c.live = c'.live ∧ c.hs = c'.hs := by
    intro i c hc0
    have := congrArg (fun l => l[i]?) hc
    simp only [List.getElem?_map, hc0, Option.map_some] at this
    cases hg : s'.cursors[i]? with
    | none => rw [hg] at this; cases this
    | some c' =>
      rw [hg] at this
      simp only [Option.map_some, Option.some.injEq, Prod.mk.injEq] at this
      exact ⟨c', rfl, this.1.symm, this.2.symm⟩
  refine ⟨by rw [ht]; exact h.tabs, by rw [ht]; exact h.nonempty, by rw [ht, hi]; exact h.imm_lt, ?_, ?_, ?_⟩
  · intro i c' hc' hl x hx
    obtain ⟨c, hc0, e1, e2⟩ := key i c' hc'
    rw [ht]; exact h.held i c hc0 (by rw [e1]; exact hl) x (by rw [e2]; exact hx)
  · intro i i' c c' hc1 hc2 hl1 hl2 x hx1 hx2
    obtain ⟨d, hd, e1, e2⟩ := key i c hc1
    obtain ⟨d', hd', e1', e2'⟩ := key i' c' hc2
    exact h.uniq i i' d d' hd hd' (by rw [e1]; exact hl1) (by rw [e1']; exact hl2) x (by rw [e2]; exact hx1)
      (by rw [e2']; exact hx2)
  · intro x hx
    rw [ht] at hx
    obtain ⟨i, c, hc0, hl, hm⟩ := h.owned x hx
    obtain ⟨c', hc', e1, e2⟩ := key' i c hc0
    exact ⟨i, c', hc', by rw [← e1]; exact hl, by rw [← e2]; exact hm⟩

/-- … and on the memtables through their `SkipOwn` invariants, their number and `slot` only -/
theorem memInv_of_slot {s s' : St F K} (h : MemInv s) (ht : TabsOk s'.tables) (hl : s'.tables.length = s.tables.length)
    (hsl : ∀ x, slot s'.tables x = slot s.tables x) (hi : s'.imm = s.imm ∨ s'.imm = none)
    (hc : s'.cursors = s.cursors) : MemInv s' := by
  refine ⟨ht, by rw [hl]; exact h.nonempty, ?_, ?_, ?_, ?_⟩
  · intro t htt
    rcases hi with hi | hi
    · rw [hl]; exact h.imm_lt t (by rw [← hi]; exact htt)
    · rw [hi] at htt; cases htt
  · intro i c hc0 hlv x hx
    rw [hsl]; exact h.held i c (by rw [← hc]; exact hc0) hlv x hx
  · intro i i' c c' hc1 hc2
    exact h.uniq i i' c c' (by rw [← hc]; exact hc1) (by rw [← hc]; exact hc2)
  · intro x hx
    rw [hsl] at hx
    rw [hc]; exact h.owned x hx

/-! ### list facts -/

theorem getElem?_snoc_cases {α : Type} (l : List α) (a : α) (i : Nat) (x : α) (h : (l ++ [a])[i]? = some x) :
    l[i]? = some x ∨ (i = l.length ∧ x = a) := by
  by_cases hi : i < l.length
  · rw [List.getElem?_append_left hi] at h; exact Or.inl h
  · rw [List.getElem?_append_right (by omega)] at h
    by_cases he : i = l.length
    · subst he; simp at h; exact Or.inr ⟨rfl, h.symm⟩
    · have : ([a] : List α)[i - l.length]? = none := List.getElem?_eq_none (by simp; omega)
      rw [this] at h; cases h

theorem getElem?_snoc_new {α : Type} (l : List α) (a : α) : (l ++ [a])[l.length]? = some a := by simp

theorem getElem?_snoc_old {α : Type} (l : List α) (a : α) (i : Nat) (x : α) (h : l[i]? = some x) :
    (l ++ [a])[i]? = some x := by
  rw [List.getElem?_append_left (List.getElem?_eq_some_iff.mp h).1]; exact h

theorem getElem?_set_cases {α : Type} (l : List α) (a : α) (i j : Nat) (d : α) (h : (l.set i a)[j]? = some d) :
    (j = i ∧ d = a) ∨ (j ≠ i ∧ l[j]? = some d) := by
  by_cases he : j = i
  · subst he
    by_cases hl : j < l.length
    · rw [List.getElem?_set_self hl] at h; exact Or.inl ⟨rfl, (Option.some.inj h).symm⟩
    · rw [List.getElem?_eq_none (by simp; omega)] at h; cases h
  · rw [List.getElem?_set_ne (Ne.symm he)] at h; exact Or.inr ⟨he, h⟩

theorem set_map_same {α β : Type} (l : List α) (i : Nat) (c c' : α) (hc : l[i]? = some c) (f : α → β) (hf : f c' = f c) :
    (l.set i c').map f = l.map f := by
  apply List.ext_getElem?
  intro j
  rw [List.getElem?_map, List.getElem?_map]
  by_cases he : j = i
  · subst he
    rw [List.getElem?_set_self (List.getElem?_eq_some_iff.mp hc).1, hc]
    simp only [Option.map_some, hf]
  · rw [List.getElem?_set_ne (Ne.symm he)]

theorem slot_append_fresh (ts : List SkipOwn.St) (x : Nat × Nat) : slot (ts ++ [({} : SkipOwn.St)]) x = slot ts x := by
  unfold slot
  by_cases hi : x.1 < ts.length
  · rw [List.getElem?_append_left hi]
  · rw [List.getElem?_append_right (by omega), List.getElem?_eq_none (l := ts) (by omega)]
    by_cases he : x.1 = ts.length
    · rw [he]; simp [SkipOwn.held]
    · have : ([({} : SkipOwn.St)] : List SkipOwn.St)[x.1 - ts.length]? = none := List.getElem?_eq_none (by simp; omega)
      rw [this]

/-! ### every event keeps the invariant -/

theorem memInv_step {klt : K → K → Bool} {tomb : Ver K → Bool} {s s' : St F K} (h : MemInv s) (e : Ev F K)
    (hs : step klt tomb s e = some s') : MemInv s' := by
  cases e with
  | write k =>
    simp only [step, Option.map_eq_some_iff] at hs
    obtain ⟨ts, h1, rfl⟩ := hs
    have hA : MemInv ({ s with tables := ts } : St F K) :=
      memInv_of_slot h (onTable_tabs h1 h.tabs) (onTable_length h1) (onTable_slot_same h1 (Or.inl rfl)) (Or.inl rfl) rfl
    refine memInv_of_sig hA rfl rfl ?_
    simp only [List.map_map]
    rfl
  | rollover =>
    simp only [step] at hs
    split at hs
    · cases hs
    · cases hs
      have hne := h.nonempty
      refine ⟨?_, by simp, ?_, ?_, h.uniq, ?_⟩
      · intro tb htb
        rcases List.mem_append.mp htb with htb | htb
        · exact h.tabs tb htb
        · simp only [List.mem_cons, List.not_mem_nil, or_false] at htb
          subst htb; exact SkipOwn.inv_init
      · intro t ht
        simp only [Option.some.injEq] at ht
        simp only [List.length_append, List.length_cons, List.length_nil]
        omega
      · intro i c hc hl x hx
        show slot (s.tables ++ [({} : SkipOwn.St)]) x = true
        rw [slot_append_fresh]; exact h.held i c hc hl x hx
      · intro x hx
        have hx' : slot (s.tables ++ [({} : SkipOwn.St)]) x = true := hx
        rw [slot_append_fresh] at hx'
        exact h.owned x hx'
  | flush f =>
    simp only [step] at hs
    split at hs
    · cases hs
    · simp only [Option.map_eq_some_iff] at hs
      obtain ⟨ts, h1, rfl⟩ := hs
      exact memInv_of_slot h (onTable_tabs h1 h.tabs) (onTable_length h1)
        (onTable_slot_same h1 (Or.inr (Or.inl rfl))) (Or.inr rfl) rfl
  | compactInstall files data =>
    simp only [step] at hs
    cases hs
    exact memInv_of_slot h h.tabs rfl (fun _ => rfl) (Or.inl rfl) rfl
  | verifierPass =>
    simp only [step] at hs
    cases hs
    exact memInv_of_slot h h.tabs rfl (fun _ => rfl) (Or.inl rfl) rfl
  | openCursor sb eb =>
    simp only [step, Option.map_eq_some_iff] at hs
    obtain ⟨⟨r1, r2⟩, h1, rfl⟩ := hs
    obtain ⟨⟨ht, hl⟩, hsl, hnew⟩ := openOn_spec _ h1 h.tabs
    refine ⟨ht, by show 0 < r1.length; rw [hl]; exact h.nonempty, ?_, ?_, ?_, ?_⟩
    · intro t htt
      show t + 1 < r1.length
      rw [hl]; exact h.imm_lt t htt
    · intro i c hc hlv x hx
      show slot r1 x = true
      rw [hsl x]
      rcases getElem?_snoc_cases _ _ _ _ hc with hc | ⟨_, rfl⟩
      · by_cases hm : x ∈ r2
        · rw [if_pos hm]
        · rw [if_neg hm]; exact h.held i c hc hlv x hx
      · rw [if_pos hx]
    · intro i i' c c' hc hc' hlv hlv' x hx hx'
      rcases getElem?_snoc_cases _ _ _ _ hc with hc | ⟨hi, rfl⟩
      · rcases getElem?_snoc_cases _ _ _ _ hc' with hc' | ⟨hi', rfl⟩
        · exact h.uniq i i' c c' hc hc' hlv hlv' x hx hx'
        · have h1 := h.held i c hc hlv x hx
          have h2 := hnew x hx'
          rw [h1] at h2; cases h2
      · rcases getElem?_snoc_cases _ _ _ _ hc' with hc' | ⟨hi', rfl⟩
        · have h1 := h.held i' c' hc' hlv' x hx'
          have h2 := hnew x hx
          rw [h1] at h2; cases h2
        · rw [hi, hi']
    · intro x hx
      have hx' : slot r1 x = true := hx
      rw [hsl x] at hx'
      by_cases hm : x ∈ r2
      · exact ⟨_, _, getElem?_snoc_new _ _, rfl, hm⟩
      · rw [if_neg hm] at hx'
        obtain ⟨i, c, hc, hlv, hxc⟩ := h.owned x hx'
        exact ⟨i, c, getElem?_snoc_old _ _ _ _ hc, hlv, hxc⟩
  | stepCursor i o =>
    simp only [step] at hs
    split at hs
    · cases hs
    · rename_i c hc
      split at hs
      · simp only [Option.map_eq_some_iff] at hs
        obtain ⟨ts, h1, rfl⟩ := hs
        have ht := onHandles_tabs c.hs h1 h.tabs
        have hA : MemInv ({ s with tables := ts } : St F K) :=
          memInv_of_slot h ht.1 ht.2 (onHandles_use_slot c.hs h1) (Or.inl rfl) rfl
        refine memInv_of_sig hA rfl rfl ?_
        exact set_map_same s.cursors i c _ hc _ rfl
      · cases hs
  | dropCursor i =>
    simp only [step] at hs
    split at hs
    · cases hs
    · rename_i c hc
      split at hs
      · rename_i hclive
        simp only [Option.map_eq_some_iff] at hs
        obtain ⟨ts, h1, rfl⟩ := hs
        have ht := onHandles_tabs c.hs h1 h.tabs
        have hsl := onHandles_drop_slot c.hs h1
        refine ⟨ht.1, by show 0 < ts.length; rw [ht.2]; exact h.nonempty, ?_, ?_, ?_, ?_⟩
        · intro t htt
          show t + 1 < ts.length
          rw [ht.2]; exact h.imm_lt t htt
        · intro j d hd hlv x hx
          show slot ts x = true
          rcases getElem?_set_cases _ _ _ _ _ hd with ⟨_, rfl⟩ | ⟨hne, hd⟩
          · cases hlv
          · rw [hsl x, if_neg]
            · exact h.held j d hd hlv x hx
            · intro hm
              exact hne (h.uniq j i d c hd hc hlv hclive x hx hm)
        · intro j j' d d' hd hd' hlv hlv' x hx hx'
          rcases getElem?_set_cases _ _ _ _ _ hd with ⟨_, rfl⟩ | ⟨_, hd⟩
          · cases hlv
          · rcases getElem?_set_cases _ _ _ _ _ hd' with ⟨_, rfl⟩ | ⟨_, hd'⟩
            · cases hlv'
            · exact h.uniq j j' d d' hd hd' hlv hlv' x hx hx'
        · intro x hx
          have hx' : slot ts x = true := hx
          rw [hsl x] at hx'
          by_cases hm : x ∈ c.hs
          · rw [if_pos hm] at hx'; cases hx'
          · rw [if_neg hm] at hx'
            obtain ⟨j, d, hd, hlv, hxd⟩ := h.owned x hx'
            have hne : j ≠ i := by
              intro he; subst he
              rw [hc] at hd; cases hd
              exact hm hxd
            exact ⟨j, d, by show (s.cursors.set i _)[j]? = some d; rw [List.getElem?_set_ne (Ne.symm hne)]; exact hd, hlv, hxd⟩
      · cases hs

theorem memInv_run {klt : K → K → Bool} {tomb : Ver K → Bool} : ∀ (evs : List (Ev F K)) {s s' : St F K},
    MemInv s → run klt tomb s evs = some s' → MemInv s'
  | [], s, s', h, hr => by simp only [run] at hr; cases hr; exact h
  | e :: evs, s, s', h, hr => by
    simp only [run] at hr
    split at hr
    · rename_i s1 hs1
      exact memInv_run evs (memInv_step h e hs1) hr
    · cases hr

/-- **memory half of `cursor_step_safe`**: a `stepCursor` that is enabled dereferences, through every
    handle of the cursor, a memtable none of whose nodes has been released -/
theorem step_cursor_memory {klt : K → K → Bool} {tomb : Ver K → Bool} {s s' : St F K} (h : MemInv s) (i : Nat)
    (o : Op (Ver K)) (hs : step klt tomb s (.stepCursor i o) = some s') :
    ∃ c, s.cursors[i]? = some c ∧ c.live = true ∧
      ∀ x ∈ c.hs, ∃ tb, s.tables[x.1]? = some tb ∧ SkipOwn.held tb x.2 = true ∧ tb.freed = [] ∧ tb.uaf = false := by
  simp only [step] at hs
  split at hs
  · cases hs
  · rename_i c hc
    split at hs
    · rename_i hlv
      simp only [Option.map_eq_some_iff] at hs
      obtain ⟨ts, h1, _⟩ := hs
      refine ⟨c, hc, hlv, ?_⟩
      intro x hx
      obtain ⟨tb, hg, hh, hf⟩ := onHandles_use_live c.hs h1 h.tabs x hx
      exact ⟨tb, hg, hh, hf, (h.tabs tb (List.mem_of_getElem? hg)).nouaf⟩
    · cases hs

/-- … and it IS enabled for a live cursor, as far as the memtables go: every `use` finds its iterator held -/
theorem onHandles_use_enabled : ∀ (hs : List (Nat × Nat)) (ts : List SkipOwn.St),
    (∀ x ∈ hs, slot ts x = true) → ∃ ts', onHandles .use ts hs = some ts'
  | [], ts, _ => ⟨ts, rfl⟩
  | (t, j) :: hs, ts, hh => by
    have h0 := hh (t, j) List.mem_cons_self
    unfold slot at h0
    cases hg : ts[t]? with
    | none => simp only [hg] at h0; cases h0
    | some tb =>
      simp only [hg] at h0
      have h1 : onTable ts t (.use j) = some (ts.set t (SkipOwn.deref tb)) := by
        simp only [onTable, hg, SkipOwn.step, h0, if_true, Option.map_some]
      obtain ⟨ts', h2⟩ := onHandles_use_enabled hs (ts.set t (SkipOwn.deref tb)) (fun x hx => by
        rw [onTable_slot_same h1 (Or.inr (Or.inr ⟨j, rfl⟩)) x]; exact hh x (List.mem_cons_of_mem _ hx))
      exact ⟨ts', by simp only [onHandles, h1, Option.bind_some]; exact h2⟩

/-- **memory half of `drop_releases`**: a memtable the store no longer holds (flushed) and on which no
    live cursor has a handle has released every node; while anybody holds it, none -/
theorem table_released_iff {s : St F K} (h : MemInv s) (t : Nat) (tb : SkipOwn.St) (hg : s.tables[t]? = some tb) :
    ((tb.listHeld = true ∨ ∃ (i : Nat) (c : Cur K) (j : Nat), s.cursors[i]? = some c ∧ c.live = true ∧ (t, j) ∈ c.hs) → tb.freed = []) ∧
    (tb.listHeld = false → (∀ (i : Nat) (c : Cur K) (j : Nat), s.cursors[i]? = some c → c.live = true → (t, j) ∉ c.hs) →
      tb.freed = List.range tb.nodes) := by
  have hinv := h.tabs tb (List.mem_of_getElem? hg)
  have hrc := hinv.rc_eq
  rw [SkipOwn.holders_abs] at hrc
  constructor
  · intro hh
    rw [hinv.freed_eq, if_neg]
    rcases hh with hl | ⟨i, c, j, hc, hlv, hm⟩
    · rw [hl] at hrc; simp only [if_true] at hrc; omega
    · have := h.held i c hc hlv (t, j) hm
      rw [slot_of_get hg] at this
      have := SkipOwn.held_pos this
      omega
  · intro hl hno
    rw [hinv.freed_eq, if_pos]
    rw [hrc, hl]
    simp only [Bool.false_eq_true, if_false, Nat.zero_add, List.length_eq_zero_iff, List.filter_eq_nil_iff, id]
    intro b hb
    intro hbt
    subst hbt
    obtain ⟨j, hj⟩ := List.getElem?_of_mem hb
    have hslot : slot s.tables (t, j) = true := by
      rw [slot_of_get hg]
      simp only [SkipOwn.held, List.getD_eq_getElem?_getD, hj, Option.getD_some]
    obtain ⟨i, c, hc, hlv, hm⟩ := h.owned (t, j) hslot
    exact hno i c j hc hlv hm

end Blue.CursorWorld

#print axioms Blue.CursorWorld.memInv_run
#print axioms Blue.CursorWorld.step_cursor_memory
#print axioms Blue.CursorWorld.table_released_iff
