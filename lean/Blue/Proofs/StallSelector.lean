import Blue.Proofs.Stall
import Blue.Proofs.Selector
/-! The stall protocol model (`Blue.Stall`) and the selector model (`Blue.Selector`) side by side.

    `Blue.Stall.St` carries level 0 as two numbers and takes the selector's answer from the event;
    `Blue.Selector` computes `should_stall_ingest` / `next_compaction().is_some()` on a tree.  The
    theorems of the two models are otherwise composed by nothing: `selOK_of_sel` takes `o` and `m`
    unrelated to the protocol state.  Here the small bridge:

    * `Matches s o t` — the protocol state shows the tree's level 0 and the options' thresholds;
      then `Blue.Stall.stalled s = Blue.Selector.shouldStall o t` (`stalled_eq_shouldStall`).
    * `selOK_of_tree` — on a matching state a selection event answering what the selector model
      answers obeys `Sel`, provided `sel` holds of the tree whenever it is stalled
      (and `hullChoosable`, the hypothesis of `sel_sound_partial`).
    * `selOK_within_limits` — … which is so when 0 < stall threshold (files), mandatory threshold
      ≤ stall threshold, the stall is by file count, and the tree is within the file limits.

    And the configuration the hypothesis `0 < stallFiles` of `sel_or_overLimit` silently leaves
    out: `l0_write_stall_threshold_files = 0` (accepted by the store; `should_stall_ingest` compares
    with `>=`).  Ingest is then stalled on an EMPTY level 0, no ingest ever installs a file
    (`zero_threshold_never_ingests`), `sel` is false (`sel_false_of_empty_l0`) and so is the selector
    model on the empty tree: `Sel` cannot hold and the first ingest and the compaction thread put
    each other to sleep (`zero_threshold_deadlock`).  This failure of `Sel` is not D-15 (no file
    limit is involved). -/
namespace Blue.Selector
open Blue.Stall (St Ev stalled idle selOK step deadlocked runSel)

/-- the protocol state shows level 0 of the tree and the stall thresholds of the options -/
structure Matches (s : St) (o : Opts) (t : Tree) : Prop where
  stallAt : s.stallAt = o.stallFiles
  stallBytes : s.stallBytes = o.stallBytes
  l0 : s.l0 = (level t 0).length
  l0b : s.l0b = levelSize (level t 0)

/-- `should_stall_ingest` of the two models is one function -/
theorem stalled_eq_shouldStall {s : St} {o : Opts} {t : Tree} (h : Matches s o t) :
    stalled s = shouldStall o t := by
  unfold stalled shouldStall
  rw [h.stallAt, h.stallBytes, h.l0, h.l0b]

/-- **the two models composed, one selection**: on a protocol state that shows the tree, the event
    "the selector answered what the selector model answers" obeys `Sel`, if `sel` holds of the
    tree whenever ingest is stalled on it (and the hull compaction is choosable) -/
theorem selOK_of_tree (s : St) (i : Nat) (o : Opts) (l0 l1 : List File) (rest : List (List File))
    (hm : Matches s o (l0 :: l1 :: rest))
    (hcover : shouldStall o (l0 :: l1 :: rest) = true → sel o (summary (l0 :: l1 :: rest)) = true)
    (hexp : hullChoosable o (l0 :: l1 :: rest) = true) :
    selOK s (.select i (nextSome o (l0 :: l1 :: rest))) = true :=
  selOK_of_sel s i _ o (summary (l0 :: l1 :: rest))
    (fun _ hsel => sel_sound_partial o l0 l1 rest hsel hexp)
    (fun hst => hcover (by rw [← stalled_eq_shouldStall hm]; exact hst))

/-- … in particular within the file limits, for a stall by file count, with a positive stall
    threshold not below the mandatory threshold -/
theorem selOK_within_limits (s : St) (i : Nat) (o : Opts) (l0 l1 : List File) (rest : List (List File))
    (hm : Matches s o (l0 :: l1 :: rest)) (hpos : 0 < o.stallFiles) (hmand : o.mandFiles ≤ o.stallFiles)
    (hcount : shouldStall o (l0 :: l1 :: rest) = true → o.stallFiles ≤ l0.length)
    (hlim : overLimit o (summary (l0 :: l1 :: rest)) = false)
    (hexp : hullChoosable o (l0 :: l1 :: rest) = true) :
    selOK s (.select i (nextSome o (l0 :: l1 :: rest))) = true := by
  apply selOK_of_tree s i o l0 l1 rest hm ?_ hexp
  intro hst
  have hl0 : (summary (l0 :: l1 :: rest)).l0 = l0.length := rfl
  rcases sel_or_overLimit o (summary (l0 :: l1 :: rest)) hpos hmand (by rw [hl0]; exact hcount hst) with h | h
  · exact h
  · rw [hlim] at h; cases h

/-- `sel` needs a file in level 0 -/
theorem sel_false_of_empty_l0 (o : Opts) (m : Summary) (h : m.l0 = 0) : sel o m = false := by
  cases hs : sel o m with
  | false => rfl
  | true => have := ((sel_iff o m).mp hs).1; omega

/-- with a stall threshold of 0 files the selector model's `should_stall_ingest` holds of every
    tree, the empty one included -/
theorem zero_threshold_shouldStall (o : Opts) (t : Tree) (h : o.stallFiles = 0) : shouldStall o t = true := by
  simp [shouldStall, h]

end Blue.Selector

namespace Blue.Stall

/-- with `l0_write_stall_threshold_files = 0` ingest is stalled in every state … -/
theorem zero_threshold_always_stalled (s : St) (h : s.stallAt = 0) : stalled s = true := by
  simp [stalled, h]

/-- … so no ingest ever installs a file: the critical section parks the ingester (or does nothing) -/
theorem zero_threshold_never_ingests (s : St) (i b : Nat) (h : s.stallAt = 0) :
    (step s (.ingest i b)).l0 = s.l0 ∧ (step s (.ingest i b)).compactors = s.compactors := by
  simp only [step]
  split
  · rw [zero_threshold_always_stalled s h]; exact ⟨rfl, rfl⟩
  · exact ⟨rfl, rfl⟩

/-- … and `Sel` asks the selector for a compaction on an empty, idle store -/
theorem zero_threshold_sel_demands (s : St) (i : Nat) (h : s.stallAt = 0) (hidle : idle s = true) :
    selOK s (.select i false) = false := by
  simp [selOK, zero_threshold_always_stalled s h, hidle]

/-- **stall threshold 0**: a fresh store with one ingester and one compaction thread; the first
    ingest parks on the empty level 0, the compaction thread finds nothing (there is nothing) and
    sleeps: everybody is asleep.  `Sel` is broken by that "nothing" — no selector could have
    answered otherwise -/
theorem zero_threshold_deadlock :
    let s0 : St := ⟨0, 1000, 0, 0, [.running], [.running], false, true, 0, true⟩
    let evs := [Ev.ingest 0 10, .select 0 false]
    deadlocked (evs.foldl step s0) = true ∧ runSel s0 evs = false ∧ (evs.foldl step s0).l0 = 0 := by decide

end Blue.Stall
