import Blue.Proofs.NextCompactionBounds
/-! **C01** what the loops of `expand_compaction` (as repaired) establish, for the function model
    `Blue.NextCompaction.expandLoop`: working upward from the output level, a level is *completed*
    only if every file of it that meets the window in force is an input afterwards (files inside
    the window are added; a file that meets the window without lying inside it makes the function
    return before anything of this or a shallower level is added), every added file lies inside
    the window of its level, and the windows only narrow on the way up (`expandLoop_done`). -/
namespace Blue.NextCompaction

theorem expandLevel_nil (o : Opts) (first last : Nat) (inputs : List Nat) (acc : List File) :
    expandLevel o first last inputs [] acc = some acc := rfl

theorem expandLevel_cons (o : Opts) (first last : Nat) (inputs : List Nat) (f : File) (rest acc : List File) :
    expandLevel o first last inputs (f :: rest) acc =
      if (decide (inputs.length + acc.length > o.maxCompactionFiles) || decide (inputs.length + acc.length > o.maxOpenFiles)) = true then none
      else if inputs.contains f.id = true then expandLevel o first last inputs rest acc
      else if (decide (first ≤ f.first) && decide (f.last ≤ last)) = true then expandLevel o first last inputs rest (acc ++ [f])
      else if (decide (f.first ≤ last) && decide (first ≤ f.last)) = true then none
      else expandLevel o first last inputs rest acc := rfl

/-- one completed level: what was added lies inside the window, and every file of the level that
    meets the window is an input before or after -/
theorem expandLevel_spec (o : Opts) (first last : Nat) (inputs : List Nat) : ∀ (files acc toAdd : List File),
    expandLevel o first last inputs files acc = some toAdd →
    (∃ added, toAdd = acc ++ added ∧ ∀ g ∈ added, g ∈ files ∧ first ≤ g.first ∧ g.last ≤ last)
    ∧ (∀ g ∈ files, g.first ≤ last → first ≤ g.last → g.id ∈ inputs ∨ g ∈ toAdd)
  | [], acc, toAdd, h => by
    rw [expandLevel_nil] at h
    cases h
    exact ⟨⟨[], by simp, by simp⟩, by simp⟩
  | f :: rest, acc, toAdd, h => by
    rw [expandLevel_cons] at h
    split at h
    · cases h
    · split at h
      · rename_i hc
        obtain ⟨⟨added, e, ha⟩, hall⟩ := expandLevel_spec o first last inputs rest acc toAdd h
        refine ⟨⟨added, e, fun g hg => ⟨List.mem_cons_of_mem _ (ha g hg).1, (ha g hg).2⟩⟩, ?_⟩
        intro g hg h1 h2
        rcases List.mem_cons.mp hg with rfl | hg'
        · exact Or.inl (by simpa using hc)
        · exact hall g hg' h1 h2
      · split at h
        · rename_i hin
          simp only [Bool.and_eq_true, decide_eq_true_eq] at hin
          obtain ⟨⟨added, e, ha⟩, hall⟩ := expandLevel_spec o first last inputs rest (acc ++ [f]) toAdd h
          refine ⟨⟨f :: added, by rw [e]; simp, ?_⟩, ?_⟩
          · intro g hg
            rcases List.mem_cons.mp hg with rfl | hg'
            · exact ⟨List.mem_cons_self, hin.1, hin.2⟩
            · exact ⟨List.mem_cons_of_mem _ (ha g hg').1, (ha g hg').2⟩
          · intro g hg h1 h2
            rcases List.mem_cons.mp hg with rfl | hg'
            · exact Or.inr (by rw [e]; simp)
            · exact hall g hg' h1 h2
        · split at h
          · cases h
          · rename_i hmeets
            simp only [Bool.and_eq_true, decide_eq_true_eq] at hmeets
            obtain ⟨⟨added, e, ha⟩, hall⟩ := expandLevel_spec o first last inputs rest acc toAdd h
            refine ⟨⟨added, e, fun g hg => ⟨List.mem_cons_of_mem _ (ha g hg).1, (ha g hg).2⟩⟩, ?_⟩
            intro g hg h1 h2
            rcases List.mem_cons.mp hg with rfl | hg'
            · exact absurd ⟨h1, h2⟩ hmeets
            · exact hall g hg' h1 h2

/-! ## `min_by` / `max_by` over keys -/

theorem foldMin_mem : ∀ (ks : List Nat) (k : Nat),
    ks.foldl (fun m x => if x < m then x else m) k ∈ k :: ks
  | [], k => by simp
  | x :: xs, k => by
    simp only [List.foldl_cons]
    have := foldMin_mem xs (if x < k then x else k)
    rcases List.mem_cons.mp this with h | h
    · rw [h]; split <;> simp
    · exact List.mem_cons_of_mem _ (List.mem_cons_of_mem _ h)

theorem foldMax_mem : ∀ (ks : List Nat) (k : Nat),
    ks.foldl (fun m x => if m < x then x else m) k ∈ k :: ks
  | [], k => by simp
  | x :: xs, k => by
    simp only [List.foldl_cons]
    have := foldMax_mem xs (if k < x then x else k)
    rcases List.mem_cons.mp this with h | h
    · rw [h]; split <;> simp
    · exact List.mem_cons_of_mem _ (List.mem_cons_of_mem _ h)

theorem minKey_mem {l : List Nat} (h : l ≠ []) : minKey l ∈ l := by
  cases l with
  | nil => exact absurd rfl h
  | cons k ks => exact foldMin_mem ks k

theorem maxKey_mem {l : List Nat} (h : l ≠ []) : maxKey l ∈ l := by
  cases l with
  | nil => exact absurd rfl h
  | cons k ks => exact foldMax_mem ks k

theorem foldMin_le : ∀ (ks : List Nat) (k : Nat), ∀ x ∈ k :: ks,
    ks.foldl (fun m x => if x < m then x else m) k ≤ x
  | [], k, x, hx => by simp at hx; subst hx; exact Nat.le_refl _
  | y :: ys, k, x, hx => by
    simp only [List.foldl_cons]
    have ih := foldMin_le ys (if y < k then y else k)
    have hm := ih (if y < k then y else k) List.mem_cons_self
    rcases List.mem_cons.mp hx with rfl | hx'
    · split at hm <;> split <;> omega
    · rcases List.mem_cons.mp hx' with rfl | hx''
      · split at hm <;> split <;> omega
      · exact ih x (List.mem_cons_of_mem _ hx'')

theorem foldMax_ge : ∀ (ks : List Nat) (k : Nat), ∀ x ∈ k :: ks,
    x ≤ ks.foldl (fun m x => if m < x then x else m) k
  | [], k, x, hx => by simp at hx; subst hx; exact Nat.le_refl _
  | y :: ys, k, x, hx => by
    simp only [List.foldl_cons]
    have ih := foldMax_ge ys (if k < y then y else k)
    have hm := ih (if k < y then y else k) List.mem_cons_self
    rcases List.mem_cons.mp hx with rfl | hx'
    · split at hm <;> split <;> omega
    · rcases List.mem_cons.mp hx' with rfl | hx''
      · split at hm <;> split <;> omega
      · exact ih x (List.mem_cons_of_mem _ hx'')

theorem minKey_le {l : List Nat} {x : Nat} (h : x ∈ l) : minKey l ≤ x := by
  cases l with
  | nil => cases h
  | cons k ks => exact foldMin_le ks k x h

theorem le_maxKey {l : List Nat} {x : Nat} (h : x ∈ l) : x ≤ maxKey l := by
  cases l with
  | nil => cases h
  | cons k ks => exact foldMax_ge ks k x h

/-! ## the loop over the levels -/

/-- the window after a completed level -/
def newFirst (toAdd : List File) (first : Nat) : Nat := if toAdd = [] then first else minKey (toAdd.map (·.first))
def newLast (toAdd : List File) (last : Nat) : Nat := if toAdd = [] then last else maxKey (toAdd.map (·.last))

theorem expandLoop_nil (o : Opts) (t : Tree) (first last : Nat) (inputs : List Nat) :
    expandLoop o t [] first last inputs = inputs := rfl

theorem expandLoop_cons_none (o : Opts) (t : Tree) (lvl : Nat) (rest : List Nat) (first last : Nat) (inputs : List Nat)
    (h : expandLevel o first last inputs (level t lvl) [] = none) :
    expandLoop o t (lvl :: rest) first last inputs = inputs := by
  rw [expandLoop, h]

theorem expandLoop_cons_some (o : Opts) (t : Tree) (lvl : Nat) (rest : List Nat) (first last : Nat) (inputs : List Nat)
    (toAdd : List File) (h : expandLevel o first last inputs (level t lvl) [] = some toAdd) :
    expandLoop o t (lvl :: rest) first last inputs =
      expandLoop o t rest (newFirst toAdd first) (newLast toAdd last) (inputs ++ toAdd.map (·.id)) := by
  rw [expandLoop, h]
  cases toAdd with
  | nil => simp [newFirst, newLast]
  | cons a as => simp [newFirst, newLast]

/-- the state of `expand_compaction` after the levels from `done` to `upper` were completed.
    `win b` is the window that was in force at level `b`. -/
structure ExpDone (t : Tree) (upper : Nat) (base : List Nat) (f0 l0 : Nat) (done : Nat) (inputs : List Nat) (win : Nat → Nat × Nat) : Prop where
  inwin : ∀ b, done ≤ b → b ≤ upper → f0 ≤ (win b).1 ∧ (win b).2 ≤ l0
  sub : ∀ id ∈ base, id ∈ inputs
  narrow : ∀ a b, done ≤ a → a ≤ b → b ≤ upper → (win b).1 ≤ (win a).1 ∧ (win a).2 ≤ (win b).2
  allin : ∀ b, done ≤ b → b ≤ upper → ∀ g ∈ level t b, g.first ≤ (win b).2 → (win b).1 ≤ g.last → g.id ∈ inputs
  origin : ∀ id ∈ inputs, id ∈ base ∨
    ∃ b g, done ≤ b ∧ b ≤ upper ∧ g ∈ level t b ∧ g.id = id ∧ (win b).1 ≤ g.first ∧ g.last ≤ (win b).2

/-- **the loop invariant of `expand_compaction`**: from a state in which the levels `lower + k ..=
    upper` are completed and the current window `[first, last]` lies inside all their windows, the
    loop over the remaining `k` levels ends with the levels `stop ..= upper` completed, for some
    `stop` between `lower` and `lower + k` -/
theorem expandLoop_done (o : Opts) (t : Tree) (lower upper : Nat) (base : List Nat) (f0 l0 : Nat) : ∀ (k : Nat) (first last : Nat)
    (inputs : List Nat) (win : Nat → Nat × Nat),
    lower + k ≤ upper + 1 → f0 ≤ first → last ≤ l0 →
    ExpDone t upper base f0 l0 (lower + k) inputs win →
    (∀ b, lower + k ≤ b → b ≤ upper → (win b).1 ≤ first ∧ last ≤ (win b).2) →
    ∃ stop win', lower ≤ stop ∧ stop ≤ lower + k ∧
      ExpDone t upper base f0 l0 stop (expandLoop o t (levelsDown lower k) first last inputs) win'
  | 0, first, last, inputs, win, _, _, _, hd, _ => ⟨lower, win, Nat.le_refl _, Nat.le_refl _, hd⟩
  | k + 1, first, last, inputs, win, hk, hf0, hl0, hd, hcur => by
    show ∃ stop win', lower ≤ stop ∧ stop ≤ lower + (k + 1) ∧
      ExpDone t upper base f0 l0 stop (expandLoop o t ((lower + k) :: levelsDown lower k) first last inputs) win'
    cases hl : expandLevel o first last inputs (level t (lower + k)) [] with
    | none =>
      rw [expandLoop_cons_none o t _ _ _ _ _ hl]
      exact ⟨lower + (k + 1), win, by omega, Nat.le_refl _, hd⟩
    | some toAdd =>
      rw [expandLoop_cons_some o t _ _ _ _ _ toAdd hl]
      obtain ⟨⟨added, hadd, hin⟩, hall⟩ := expandLevel_spec o first last inputs _ _ _ hl
      simp only [List.nil_append] at hadd
      subst hadd
      -- the new window lies inside the old one
      have hnf : first ≤ newFirst toAdd first := by
        unfold newFirst
        split
        · exact Nat.le_refl _
        · rename_i hne
          have hm := minKey_mem (l := toAdd.map (·.first)) (by simpa using hne)
          obtain ⟨g, hg, he⟩ := List.mem_map.mp hm
          rw [← he]; exact (hin g hg).2.1
      have hnl : newLast toAdd last ≤ last := by
        unfold newLast
        split
        · exact Nat.le_refl _
        · rename_i hne
          have hm := maxKey_mem (l := toAdd.map (·.last)) (by simpa using hne)
          obtain ⟨g, hg, he⟩ := List.mem_map.mp hm
          rw [← he]; exact (hin g hg).2.2
      let win2 : Nat → Nat × Nat := fun b => if b = lower + k then (first, last) else win b
      have hw_eq : win2 (lower + k) = (first, last) := by simp [win2]
      have hw_ne : ∀ b, b ≠ lower + k → win2 b = win b := by intro b hb; simp [win2, hb]
      have hd2 : ExpDone t upper base f0 l0 (lower + k) (inputs ++ toAdd.map (·.id)) win2 := by
        refine ⟨?_, ?_, ?_, ?_, ?_⟩
        · intro b hb1 hb2
          by_cases eb : b = lower + k
          · rw [eb, hw_eq]; exact ⟨hf0, hl0⟩
          · rw [hw_ne b eb]; exact hd.inwin b (by omega) hb2
        · intro id hid; exact List.mem_append_left _ (hd.sub id hid)
        · intro a b ha hab hb
          by_cases ea : a = lower + k
          · by_cases eb : b = lower + k
            · rw [ea, eb]; exact ⟨Nat.le_refl _, Nat.le_refl _⟩
            · rw [ea, hw_eq, hw_ne b eb]
              exact hcur b (by omega) hb
          · rw [hw_ne a ea, hw_ne b (by omega)]
            exact hd.narrow a b (by omega) hab hb
        · intro b hb1 hb2 g hg h1 h2
          by_cases eb : b = lower + k
          · subst eb
            rw [hw_eq] at h1 h2
            rcases hall g hg h1 h2 with h | h
            · exact List.mem_append_left _ h
            · exact List.mem_append_right _ (List.mem_map.mpr ⟨g, h, rfl⟩)
          · rw [hw_ne b eb] at h1 h2
            exact List.mem_append_left _ (hd.allin b (by omega) hb2 g hg h1 h2)
        · intro id hid
          rcases List.mem_append.mp hid with h | h
          · rcases hd.origin id h with h' | ⟨b, g, h1, h2, h3, h4, h5⟩
            · exact Or.inl h'
            · refine Or.inr ⟨b, g, by omega, h2, h3, h4, ?_⟩
              rw [hw_ne b (by omega)]; exact h5
          · obtain ⟨g, hg, he⟩ := List.mem_map.mp h
            refine Or.inr ⟨lower + k, g, Nat.le_refl _, by omega, (hin g hg).1, he, ?_⟩
            rw [hw_eq]; exact (hin g hg).2
      have hcur2 : ∀ b, lower + k ≤ b → b ≤ upper → (win2 b).1 ≤ newFirst toAdd first ∧ newLast toAdd last ≤ (win2 b).2 := by
        intro b hb1 hb2
        by_cases eb : b = lower + k
        · rw [eb, hw_eq]; exact ⟨hnf, hnl⟩
        · rw [hw_ne b eb]
          have := hcur b (by omega) hb2
          omega
      obtain ⟨stop, win', h1, h2, h3⟩ := expandLoop_done o t lower upper base f0 l0 k _ _ _ win2 (by omega) (by omega) (by omega) hd2 hcur2
      exact ⟨stop, win', h1, by omega, h3⟩

end Blue.NextCompaction
