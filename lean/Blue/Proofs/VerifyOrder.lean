import Blue.Model.VerifyOne
/-! `KeyRef: Ord` (`krLt`) is a strict total order, and what the stable insertion sort `mergeTables`
    does to lists that are sorted already. -/
namespace Blue.VerifyOne
open Blue.Compact (Entry bytesLt)

theorem bytesLt_irrefl : ∀ a : List Nat, bytesLt a a = false
  | [] => rfl
  | x :: t => by simp [bytesLt, bytesLt_irrefl t]

theorem bytesLt_asymm : ∀ a b : List Nat, bytesLt a b = true → bytesLt b a = false
  | a, [], h => by cases a <;> simp [bytesLt] at h
  | [], _ :: _, _ => rfl
  | x :: s, y :: t, h => by
    simp only [bytesLt, Bool.or_eq_true, decide_eq_true_eq, Bool.and_eq_true, beq_iff_eq] at h
    simp only [bytesLt, Bool.or_eq_false_iff, decide_eq_false_iff_not, Bool.and_eq_false_iff, beq_eq_false_iff_ne]
    rcases h with h | ⟨h1, h2⟩
    · exact ⟨by omega, Or.inl (by omega)⟩
    · subst h1; exact ⟨by omega, Or.inr (bytesLt_asymm s t h2)⟩

theorem bytesLt_trans : ∀ a b c : List Nat, bytesLt a b = true → bytesLt b c = true → bytesLt a c = true
  | a, [], _, h, _ => by cases a <;> simp [bytesLt] at h
  | _, _ :: _, [], _, h => by cases h
  | [], _ :: _, _ :: _, _, _ => rfl
  | x :: s, y :: t, z :: u, h1, h2 => by
    simp only [bytesLt, Bool.or_eq_true, decide_eq_true_eq, Bool.and_eq_true, beq_iff_eq] at h1 h2 ⊢
    rcases h1 with h1 | ⟨e1, h1⟩ <;> rcases h2 with h2 | ⟨e2, h2⟩
    · left; omega
    · left; omega
    · left; omega
    · right; exact ⟨e1.trans e2, bytesLt_trans s t u h1 h2⟩

theorem bytesLt_total : ∀ a b : List Nat, bytesLt a b = false → bytesLt b a = false → a = b
  | [], [], _, _ => rfl
  | [], _ :: _, h, _ => by cases h
  | _ :: _, [], _, h => by cases h
  | x :: s, y :: t, h1, h2 => by
    simp only [bytesLt, Bool.or_eq_false_iff, decide_eq_false_iff_not, Bool.and_eq_false_iff, beq_eq_false_iff_ne] at h1 h2
    have hxy : x = y := by omega
    subst hxy
    have e1 : bytesLt s t = false := by rcases h1.2 with h | h; exact absurd rfl h; exact h
    have e2 : bytesLt t s = false := by rcases h2.2 with h | h; exact absurd rfl h; exact h
    rw [bytesLt_total s t e1 e2]

theorem krLt_irrefl (a : KeyRef) : krLt a a = false := by
  simp [krLt, bytesLt_irrefl]

theorem krLt_asymm (a b : KeyRef) (h : krLt a b = true) : krLt b a = false := by
  simp only [krLt, Bool.or_eq_true, Bool.and_eq_true, beq_iff_eq, decide_eq_true_eq] at h
  simp only [krLt, Bool.or_eq_false_iff, Bool.and_eq_false_iff, beq_eq_false_iff_ne, decide_eq_false_iff_not]
  rcases h with h | ⟨h1, h2⟩
  · refine ⟨bytesLt_asymm _ _ h, Or.inl ?_⟩
    intro e; rw [e, bytesLt_irrefl] at h; cases h
  · refine ⟨by rw [h1]; exact bytesLt_irrefl _, Or.inr (by omega)⟩

theorem krLt_trans (a b c : KeyRef) (h1 : krLt a b = true) (h2 : krLt b c = true) : krLt a c = true := by
  simp only [krLt, Bool.or_eq_true, Bool.and_eq_true, beq_iff_eq, decide_eq_true_eq] at h1 h2 ⊢
  rcases h1 with h1 | ⟨e1, h1⟩ <;> rcases h2 with h2 | ⟨e2, h2⟩
  · left; exact bytesLt_trans _ _ _ h1 h2
  · left; rw [← e2]; exact h1
  · left; rw [e1]; exact h2
  · right; exact ⟨e1.trans e2, by omega⟩

theorem krLt_total (a b : KeyRef) (h1 : krLt a b = false) (h2 : krLt b a = false) : a = b := by
  simp only [krLt, Bool.or_eq_false_iff, Bool.and_eq_false_iff, beq_eq_false_iff_ne, decide_eq_false_iff_not] at h1 h2
  have hk : a.1 = b.1 := bytesLt_total _ _ h1.1 h2.1
  have ht : a.2 = b.2 := by
    rcases h1.2 with h | h
    · exact absurd hk h
    · rcases h2.2 with h' | h'
      · exact absurd hk.symm h'
      · omega
  exact Prod.ext hk ht

/-- strictly sorted by `KeyRef` (what a merging cursor over strictly sorted tables without common
    keys shows) -/
def Strict (l : List Entry) : Prop := l.Pairwise (fun a b => entLt a b = true)

/-- no entry before a smaller one -/
def Weak (l : List Entry) : Prop := l.Pairwise (fun a b => entLt b a = false)

theorem Strict.weak {l : List Entry} (h : Strict l) : Weak l :=
  List.Pairwise.imp (fun hab => krLt_asymm _ _ hab) h

theorem Strict.sublist {l l' : List Entry} (hs : l'.Sublist l) (h : Strict l) : Strict l' :=
  List.Pairwise.sublist hs h

theorem insertBy_weak (x : Entry) : ∀ (l : List Entry), (∀ y ∈ l, entLt y x = false) → insertBy x l = x :: l
  | [], _ => rfl
  | y :: t, h => by
    simp only [insertBy, h y List.mem_cons_self, Bool.false_eq_true, if_false]

/-- sorting a sorted list changes nothing -/
theorem sort_weak : ∀ (l : List Entry), Weak l → l.foldr insertBy [] = l
  | [], _ => rfl
  | x :: t, h => by
    have ht := sort_weak t (List.Pairwise.of_cons h)
    simp only [List.foldr_cons, ht]
    exact insertBy_weak x t (fun y hy => List.rel_of_pairwise_cons h hy)

theorem insertBy_perm (x : Entry) : ∀ (l : List Entry), (insertBy x l).Perm (x :: l)
  | [] => List.Perm.refl _
  | y :: t => by
    simp only [insertBy]
    split
    · exact ((insertBy_perm x t).cons y).trans (List.Perm.swap x y t)
    · exact List.Perm.refl _

theorem sort_perm : ∀ (l : List Entry), (l.foldr insertBy []).Perm l
  | [] => List.Perm.refl _
  | x :: t => by
    simp only [List.foldr_cons]
    exact (insertBy_perm x _).trans ((sort_perm t).cons x)

/-- a merging cursor shows every entry of every table -/
theorem mergeTables_perm (tables : List File) : (mergeTables tables).Perm tables.flatten := sort_perm _

end Blue.VerifyOne
