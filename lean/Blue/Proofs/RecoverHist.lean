import Blue.Proofs.Recover
import Blue.Proofs.StoreHistTree
/-! **C01** the composed history (`Blue.StoreHistTree`: writes, rollovers, flushes = `ingest`,
    compactions = `applyCompaction` of the selector's answer) extended by a **reopen**.

    `KeyValueStore::open` (lsmtk/src/kvs/mod.rs:98-147): every log left in the directory is turned
    into an SST and added to the manifest (`recover` / `recover_one`, kvs/mod.rs:148-203), then
    `LsmTree::from_manifest` lists the SSTs of the manifest and `Version::open` = `recover` assigns
    ALL levels anew from the metadata (tree/mod.rs:238, tree/recover.rs:53); the memtables start
    empty; `seq_no` restarts above every timestamp in the store and is the visible number.

    The `reopen` step here: the memtables are empty (their contents were flushed: the history's own
    `rollover` / `flush` steps before it — the file a log becomes is the file a flush writes), the
    tree becomes ANY version `recover` may build from the current files (`treeOf L` for a level
    assignment `L` with `LevelsOk`), the sequence number is bumped and published.

    The step is valid only if no two files overlap in key range and in timestamp range
    (`NoKeyTsOverlap`) and the timestamp metadata is truthful (`biggest_timestamp` bounds the
    versions of the file and is not above the visible number).  OUTSIDE that side condition known
    finding D-9 applies (`Blue.Recover.recover_breaks_inv_witness`): nothing is claimed. -/
namespace Blue.RecoverHist
open Blue.Spec Blue.Kvs Blue.NextCompaction Blue.StoreHist Blue.StoreHistTree Blue.Recover

inductive ROp where
  | op (o : TOp)
  /-- reopen; `L`: the levels `recover` computes for the files -/
  | reopen (L : File → Nat)

def reopenState (s : TState) (L : File → Nat) : TState :=
  { s with tree := treeOf L s.tree.flatten, seq := s.seq + 1, vis := s.seq + 1 }

def rapply (s : TState) : ROp → TState
  | .op o => tapply s o
  | .reopen L => reopenState s L

/-- the side condition of a reopen -/
structure ReopenOk (s : TState) (L : File → Nat) : Prop where
  mem : s.mem = []
  imm : s.imm = none
  /-- the class: no two files overlap in key range and in timestamp range -/
  noOverlap : NoKeyTsOverlap s.tree.flatten
  /-- `biggest_timestamp` bounds the versions of the file -/
  ts : ∀ f ∈ s.tree.flatten, ∀ v ∈ f.vers, v.2 ≤ f.bts
  /-- and is not above the visible sequence number -/
  bts : ∀ f ∈ s.tree.flatten, f.bts ≤ s.vis
  /-- `L` is a level assignment the algorithm of `recover` guarantees -/
  levels : LevelsOk s.tree.flatten L

def ROpOk (s : TState) : ROp → Prop
  | .op o => TOpOk s o
  | .reopen L => ReopenOk s L

def RValid : TState → List ROp → Prop
  | _, [] => True
  | s, op :: ops => ROpOk s op ∧ RValid (rapply s op) ops

def rrun (s : TState) (ops : List ROp) : TState := ops.foldl rapply s

/-- a reopen is invisible to the specification (accepted writes only) -/
def rtoOp : ROp → Op
  | .op o => toOp o
  | .reopen _ => .compact [] []

def rrunSpec : TState → SpecMap → List ROp → SpecMap
  | _, m, [] => m
  | s, m, op :: ops => rrunSpec (rapply s op) (specStep m (s.seq + 1) (rtoOp op)) ops

def rspec (k : Nat) (ops : List ROp) : SpecMap := rrunSpec (tinit k) (fun _ => none) ops

/-- **`reopen_step`**: a reopen inside the class keeps both invariants and the relation to the
    specification -/
theorem reopen_step (s : TState) (L : File → Nat) (m : SpecMap) (ok : ReopenOk s L) (inv : TInv s)
    (r : Rel s.toH m) : TInv (reopenState s L) ∧ Rel (reopenState s L).toH m := by
  have hr : IsRecovered s.tree.flatten (treeOf L s.tree.flatten) := ⟨L, ok.levels, rfl⟩
  obtain ⟨hinv', hna'⟩ := recover_preserves_inv inv.tree ok.ts ok.noOverlap hr
  have hst : (reopenState s L).toH.st = toKState [] none (treeOf L s.tree.flatten) := by
    show toKState s.mem s.imm _ = _
    rw [ok.mem, ok.imm]
    rfl
  have hst0 : s.toH.st = toKState [] none s.tree := by
    show toKState s.mem s.imm _ = _
    rw [ok.mem, ok.imm]
  have hall : ∀ (t : Tree), allComps (toKState [] none t) = [[]] ++ NextCompaction.treeComps t := by
    intro t; rw [allComps_toKState]; rfl
  have hflat : ∀ e, e ∈ (allComps (reopenState s L).toH.st).flatten ↔ e ∈ (allComps s.toH.st).flatten := by
    intro e
    rw [hst, hst0, hall, hall]
    simp only [List.flatten_append, List.flatten_cons, List.flatten_nil, List.nil_append]
    exact recovered_same_versions hr e
  refine ⟨⟨⟨?_, ?_, Nat.le_refl _, ?_, ?_, ?_, ?_⟩, hinv', ?_⟩, Rel.of_same hflat rfl r⟩
  · rw [hst]; exact i1_toKState _ _ hinv'
  · rw [hst, hall]
    show NewerAbove ([] :: _)
    refine ⟨?_, hna'⟩
    intro a ha
    cases ha
  · intro v hv
    have h1 : v.2 ≤ s.vis := inv.hist.ts_le v ((hflat v).mp hv)
    have h2 : s.vis ≤ s.seq := inv.hist.vis_le
    show v.2 ≤ s.seq + 1
    omega
  · intro i hi
    rw [hst] at hi
    cases hi
  · intro g hg
    rw [hst] at hg
    obtain ⟨f, hf, rfl⟩ := List.mem_map.mp (show g ∈ (level (treeOf L s.tree.flatten) 0).map toK from hg)
    have hf' : f ∈ s.tree.flatten := (mem_level_treeOf.mp hf).2.1
    have h1 := ok.bts f hf'
    have h2 : s.vis ≤ s.seq := inv.hist.vis_le
    show f.bts ≤ s.seq + 1
    omega
  · intro g _ c hc a ha
    rw [hst] at hc
    have : c = [] := by simpa [memComps, toKState] using hc
    subst this
    cases ha
  · intro h0
    have := length_treeOf L s.tree.flatten
    rw [show treeOf L s.tree.flatten = [] from h0] at this
    exact absurd this (by decide)

theorem rstep (s : TState) (op : ROp) (m : SpecMap) (ok : ROpOk s op) (inv : TInv s) (r : Rel s.toH m) :
    TInv (rapply s op) ∧ Rel (rapply s op).toH (specStep m (s.seq + 1) (rtoOp op)) := by
  cases op with
  | op o => exact tstep s o m ok inv r
  | reopen L => exact reopen_step s L m ok inv r

theorem rrun_cons (s : TState) (op : ROp) (ops : List ROp) : rrun s (op :: ops) = rrun (rapply s op) ops := rfl

theorem rrun_inv_rel : ∀ (ops : List ROp) (s : TState) (m : SpecMap), RValid s ops → TInv s → Rel s.toH m →
    TInv (rrun s ops) ∧ Rel (rrun s ops).toH (rrunSpec s m ops)
  | [], _, _, _, inv, r => ⟨inv, r⟩
  | op :: ops, s, m, hv, inv, r => by
    rw [rrun_cons, rrunSpec]
    obtain ⟨i', r'⟩ := rstep s op m hv.1 inv r
    exact rrun_inv_rel ops (rapply s op) _ hv.2 i' r'

theorem rrunSpec_payload : ∀ (ops : List ROp) (s : TState) (m : SpecMap) (k : Nat),
    (rrunSpec s m ops k).map (·.2) = (ops.map rtoOp).foldl valStep (fun k => (m k).map (·.2)) k
  | [], _, _, _ => rfl
  | op :: ops, s, m, k => by
    rw [rrunSpec, List.map_cons, List.foldl_cons, ← valStep_of_specStep m (s.seq + 1) (rtoOp op)]
    exact rrunSpec_payload ops (rapply s op) _ k

/-- **store_history_refines_reopen**: after ANY list of writes, rollovers, flushes, compactions,
    moving compactions AND reopens that satisfy the side condition, from the empty store, the
    point-read model on the state holding the memtables and the tree returns, at the published
    sequence number or later, the version of the last accepted write naming the key; the payload map
    gives its value or tombstone; both invariants hold.  Outside the side condition of a reopen
    (two files overlapping in key range and in timestamp range) D-9 applies and nothing is claimed. -/
theorem store_history_refines_reopen (k : Nat) (ops : List ROp) (hv : RValid (tinit k) ops) (key t : Nat)
    (ht : (rrun (tinit k) ops).vis ≤ t) :
    kvsLoad (toKState (rrun (tinit k) ops).mem (rrun (tinit k) ops).imm (rrun (tinit k) ops).tree) key t
        = (rspec k ops key).map (fun e => (key, e.1))
    ∧ (∀ ts p, rspec k ops key = some (ts, p) → (rrun (tinit k) ops).pay key ts = some p)
    ∧ TInv (rrun (tinit k) ops) := by
  obtain ⟨inv, rel⟩ := rrun_inv_rel ops (tinit k) _ hv (tinv_init k) (rel_tinit k)
  exact ⟨kvsLoad_of_rel inv.hist rel key t ht, fun ts p hk => (rel.present key ts p hk).2.2, inv⟩

/-- the answer of `load`, as payload, is the payload of the last accepted write of the history,
    reopens included -/
theorem store_history_reads_last_write_reopen (k : Nat) (ops : List ROp) (hv : RValid (tinit k) ops) (key : Nat) :
    read (rrun (tinit k) ops).toH key = lastWrite (ops.map rtoOp) key := by
  obtain ⟨inv, rel⟩ := rrun_inv_rel ops (tinit k) _ hv (tinv_init k) (rel_tinit k)
  rw [read_of_rel inv.hist rel key]
  exact rrunSpec_payload ops (tinit k) (fun _ => none) key


/-- inside the class the levels the executable `recoverTree` computes qualify: the reopen step with
    `L = rawLevel` installs `recoverTree` of the current files -/
theorem reopenOk_of_class {s : TState} (inv : TInv s) (hm : s.mem = []) (hi : s.imm = none)
    (hno : NoKeyTsOverlap s.tree.flatten) (hts : ∀ f ∈ s.tree.flatten, ∀ v ∈ f.vers, v.2 ≤ f.bts)
    (hbts : ∀ f ∈ s.tree.flatten, f.bts ≤ s.vis) : ReopenOk s (rawLevel s.tree.flatten) :=
  ⟨hm, hi, hno, hts, hbts, rawLevel_levelsOk (filesOk_of_inv inv.tree hts) hno⟩

theorem reopenState_tree (s : TState) :
    (reopenState s (rawLevel s.tree.flatten)).tree = recoverTree s.tree.flatten := rfl

/-! ### a history with a reopen: write, rollover, flush, reopen, write -/

def demoOps : List ROp :=
  [.op (.write [(1, some 5)]), .op .rollover, .op (.flush 7 10), .reopen (fun _ => 0), .op (.write [(1, none)])]

theorem demo_valid : RValid (tinit 15) demoOps := by
  have htree : (rrun (tinit 15) (demoOps.take 3)).tree.flatten = [flushFileT 7 10 [(1, 1)]] := by decide +kernel
  refine ⟨trivial, trivial, ?_, ?_, trivial, trivial⟩
  · intro v i _ l g hg
    have : g ∈ level (emptyTree 16) l := hg
    rw [level_emptyTree] at this
    cases this
  · have hone : ∀ a ∈ (rrun (tinit 15) (demoOps.take 3)).tree.flatten, a = flushFileT 7 10 [(1, 1)] := by
      intro a ha; rw [htree] at ha; simpa using ha
    refine ⟨rfl, rfl, ?_, ?_, ?_, ⟨?_, ?_⟩⟩
    · intro a ha b hb hid
      rw [hone a ha, hone b hb] at hid
      exact absurd rfl hid
    · intro f hf v hv
      rw [hone f hf] at hv ⊢
      revert v hv
      decide
    · intro f hf
      rw [hone f hf]
      show _ ≤ 1
      decide
    · intro a ha b hb he _
      rw [hone a ha, hone b hb] at he
      exact absurd he (by decide)
    · intro _ _ _ _ _ _
      rfl

end Blue.RecoverHist

#print axioms Blue.RecoverHist.reopen_step
#print axioms Blue.RecoverHist.store_history_refines_reopen
#print axioms Blue.RecoverHist.store_history_reads_last_write_reopen
