import Blue.Proofs.DamageExamples
import Blue.Proofs.SstDamage
/-! Non-vacuity of the region theorems of `Blue.Proofs.SstDamage`, by kernel evaluation on the bytes
    of a real SST (`fileA` of `Blue.Proofs.DamageExamples`: data blocks `[0,197) [197,416) [416,590)`,
    index block `[590,678)`, filter block `[678,712)`, final block `[712,800)`): for one flipped bit
    in each region the hypotheses of the region's theorem hold together (`AgreeOutside` through its
    Boolean form, `NoCollisionAt` / `NoRedirect` by `decide`) and the outcome is the one the theorem
    allows. -/
namespace Blue.DamageExamples
open Blue.SstOpen Blue.Damage

/-- `AgreeOutside`, as a Boolean -/
def agreeOutsideB (f d : List Nat) (lo hi : Nat) : Bool :=
  d.length == f.length && d.take lo == f.take lo && d.drop hi == f.drop hi

theorem agreeOutside_of_B (f d : List Nat) (lo hi : Nat) (h : agreeOutsideB f d lo hi = true) :
    AgreeOutside f d lo hi := by
  unfold agreeOutsideB at h
  simp only [Bool.and_eq_true, beq_iff_eq] at h
  obtain ⟨⟨h1, h2⟩, h3⟩ := h
  refine ⟨h1, ?_⟩
  intro i hi'
  rcases hi' with hlt | hge
  · have e1 : (d.take lo)[i]? = d[i]? := by rw [List.getElem?_take, if_pos hlt]
    have e2 : (f.take lo)[i]? = f[i]? := by rw [List.getElem?_take, if_pos hlt]
    rw [← e1, ← e2, h2]
  · have e1 : (d.drop hi)[i - hi]? = d[i]? := by rw [List.getElem?_drop]; congr 1; omega
    have e2 : (f.drop hi)[i - hi]? = f[i]? := by rw [List.getElem?_drop]; congr 1; omega
    rw [← e1, ← e2, h3]

/-- one bit of the index block's payload flipped -/
def fileIdx : List Nat := apply fileA (.flip 600 0)
/-- one bit of the index block's frame header (its length varint) flipped -/
def fileIdxHdr : List Nat := apply fileA (.flip 591 0)
/-- one bit of the filter block's payload flipped -/
def fileFil : List Nat := apply fileA (.flip 690 0)
/-- one bit of the trailer flipped -/
def fileTrl : List Nat := apply fileA (.flip 795 0)

def isErr (r : Except Err Opened) (e : Err) : Bool :=
  match r with
  | .error x => decide (x = e)
  | .ok _ => false

/-- the hypotheses of `sst_data_frame_damage` on `fileData` (a flipped bit in data block 0), and
    what comes of the damage: the file opens, block 0 fails its CRC at load time (the walks over the
    other blocks are in `burst_witness`) -/
def dataCheck : Bool :=
  match openSst crc fileA with
  | .error _ => false
  | .ok t =>
    match t.entries[0]? with
    | some (_, m) =>
      decide (m.start = 0 ∧ m.limit = 197) && agreeOutsideB fileA fileData m.start m.limit
        && decide (NoCollisionAt crc fileA fileData m)
        && (match openSst crc fileData with
            | .ok t' => (match t'.loadIdx crc 0 with | .error e => decide (e = .crcFailure) | .ok _ => false)
            | .error _ => false)
    | none => false

theorem data_witness : dataCheck = true := by decide +kernel

/-- the hypotheses of `sst_index_frame_damage` (payload and frame header) and of
    `sst_filter_frame_damage`, and the outcome: the open fails -/
def indexFilterCheck : Bool :=
  match openSst crc fileA with
  | .error _ => false
  | .ok t =>
    decide (t.fin.index.start = 590 ∧ t.fin.index.limit = 678)
    && agreeOutsideB fileA fileIdx t.fin.index.start t.fin.index.limit
    && decide (NoCollisionAt crc fileA fileIdx t.fin.index)
    && isErr (openSst crc fileIdx) .crcFailure
    && agreeOutsideB fileA fileIdxHdr t.fin.index.start t.fin.index.limit
    && decide (NoCollisionAt crc fileA fileIdxHdr t.fin.index)
    && (match openSst crc fileIdxHdr with | .error _ => true | .ok _ => false)
    && decide (t.fin.filter.start = 678 ∧ t.fin.filter.limit = 712)
    && agreeOutsideB fileA fileFil t.fin.filter.start t.fin.filter.limit
    && decide (NoCollisionAt crc fileA fileFil t.fin.filter)
    && isErr (openSst crc fileFil) .crcFailure

theorem index_filter_witness : indexFilterCheck = true := by decide +kernel

/-- the hypotheses of `sst_tail_damage` / `sst_tail_cases`: a flipped setsum bit is `metaOnly`
    (D-10), a flipped trailer bit is rejected -/
def tailCheck : Bool :=
  match openSst crc fileA with
  | .error _ => false
  | .ok t =>
    agreeOutsideB fileA fileMeta 712 800 && decide (NoRedirect crc t fileMeta)
    && decide (classifyTail crc t fileMeta = .metaOnly)
    && agreeOutsideB fileA fileTrl 712 800 && decide (NoRedirect crc t fileTrl)
    && (match classifyTail crc t fileTrl with | .detected _ => true | _ => false)

theorem tail_witness : tailCheck = true := by decide +kernel

/-- truncation and extension: a cut below the end of the filter block and a cut inside the final
    block are rejected; the final block appended once more (its trailer names the old offset) is
    accepted as the same table, 88 bytes longer -/
def resizeCheck : Bool :=
  match openSst crc fileA with
  | .error _ => false
  | .ok t =>
    (match openSst crc (fileA.take 700) with | .error _ => true | .ok _ => false)
    && decide (NoRedirect crc t (fileA.take 790))
    && (match openSst crc (fileA.take 790) with | .error _ => true | .ok _ => false)
    && decide (NoRedirect crc t (fileA ++ fileA.drop 712))
    && decide (classifyTail crc t (fileA ++ fileA.drop 712) = .metaOnly)

theorem resize_witness : resizeCheck = true := by decide +kernel

end Blue.DamageExamples
