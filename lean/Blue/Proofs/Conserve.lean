import Blue.Proofs.MergingMain
/-! **C05** conservation: what a (non-GC) compaction reads through the merging cursor — the merged
    list `M` of `merging_refines` — is a permutation of the union of its inputs, and cutting it into
    output files loses and invents nothing. -/
namespace Blue.Cursor
variable {E : Type}

/-- the union of the children of a family is the merged list, up to order -/
theorem children_perm_merged : ∀ (k : Nat) (M : List (E × Nat)), (∀ x ∈ M, x.2 < k) →
    (((List.range k).map (childList M)).flatten).Perm (M.map (·.1))
  | 0, M, h => by
    have : M = [] := by
      cases M with
      | nil => rfl
      | cons x xs => exact absurd (h x List.mem_cons_self) (Nat.not_lt_zero _)
    subst this; simp
  | k + 1, M, h => by
    rw [List.range_succ, List.map_append, List.flatten_append]
    simp only [List.map_cons, List.map_nil, List.flatten_cons, List.flatten_nil, List.append_nil]
    -- split M into the entries owned by child `k` and the rest
    have hsplit := List.filter_append_perm (fun x : E × Nat => x.2 == k) M
    have hrest : ∀ x ∈ M.filter (fun x => !(x.2 == k)), x.2 < k := by
      intro x hx
      have h1 := h x (List.mem_filter.mp hx).1
      have h2 := (List.mem_filter.mp hx).2
      simp only [Bool.not_eq_true', beq_eq_false_iff_ne, ne_eq] at h2
      omega
    have ih := children_perm_merged k (M.filter (fun x => !(x.2 == k))) hrest
    -- children j < k of M are the children of the rest
    have hsame : (List.range k).map (childList M)
        = (List.range k).map (childList (M.filter (fun x => !(x.2 == k)))) := by
      apply List.map_congr_left
      intro j hj
      have hjk : j < k := List.mem_range.mp hj
      unfold childList
      rw [List.filter_filter]
      congr 1
      apply List.filter_congr
      intro x _
      by_cases hx : x.2 = j
      · have : ¬ x.2 = k := by omega
        simp [hx, this]
        omega
      · simp [hx]
    rw [hsame]
    refine List.Perm.trans (List.Perm.append ih (List.Perm.refl _)) ?_
    unfold childList
    rw [← List.map_append]
    exact (List.Perm.trans List.perm_append_comm hsplit).map _

/-- cutting a run into consecutive pieces at any cut points gives the run back -/
def cut : List Nat → List E → List (List E)
  | [], l => [l]
  | n :: ns, l => l.take n :: cut ns (l.drop n)

theorem cut_flatten : ∀ (ns : List Nat) (l : List E), (cut ns l).flatten = l
  | [], l => by simp [cut]
  | n :: ns, l => by simp [cut, cut_flatten ns, List.take_append_drop]

/-- **C05** a compaction that is not a garbage collection conserves the multiset of entries: the
    output files, whatever the cut points, hold a permutation of the union of the inputs -/
theorem compaction_conserves (k : Nat) (M : List (E × Nat)) (h : ∀ x ∈ M, x.2 < k) (cuts : List Nat) :
    ((cut cuts (M.map (·.1))).flatten).Perm (((List.range k).map (childList M)).flatten) := by
  rw [cut_flatten]
  exact (children_perm_merged k M h).symm

end Blue.Cursor

#print axioms Blue.Cursor.compaction_conserves
