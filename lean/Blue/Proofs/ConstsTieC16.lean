import Blue.Generated.Consts
import Blue.Model.TupleKey1T
import Blue.Model.TupleKey2T
/-! Constants of the tuple-key crates regenerated from the Rust source, tied to the model (C16).
    Kept apart from the other properties' ties so that an edit to these constants breaks only
    C16's proof obligations. -/
namespace Blue.ConstsTie

/-! tuple keys (C16) -/
section C16
open Blue.TupleKey1

/-- `to_discriminant`, in the order (unit, fixed32, fixed64, sfixed32, sfixed64, string) × (Forward, Reverse) -/
theorem tk1_discriminants :
    [discriminant .unit .fwd, discriminant .u32 .fwd, discriminant .u64 .fwd, discriminant .i32 .fwd,
     discriminant .i64 .fwd, discriminant .str .fwd, discriminant .unit .rev, discriminant .u32 .rev,
     discriminant .u64 .rev, discriminant .i32 .rev, discriminant .i64 .rev, discriminant .str .rev]
      = Blue.Generated.tk1Discriminants := by decide

def tyDirCode : Option (Ty × Dir) → Nat
  | none => 0
  | some (t, d) =>
    1 + (match t with | .unit => 0 | .u32 => 1 | .u64 => 2 | .i32 => 3 | .i64 => 4 | .str => 5)
      + (match d with | .fwd => 0 | .rev => 6)

/-- `from_discriminant` on every value of `x as u8 & 15` -/
theorem tk1_from_discriminant :
    (List.range 16).map (fun n => tyDirCode (fromDiscriminant n)) = Blue.Generated.tk1FromDiscriminant := by decide

/-- `ordered::DIVIDE_32/64`: the offsets of the signed elements, in encoder and decoder -/
theorem tk1_offsets :
    offsetI32 0 = Blue.Generated.tk1Divide32 ∧ offsetI64 0 = Blue.Generated.tk1Divide64
    ∧ decI32 (encU32 0) = some (-(Blue.Generated.tk1Divide32 : Int))
    ∧ decI64 (encU64 0) = some (-(Blue.Generated.tk1Divide64 : Int)) := by decide

/-- `prototk::FieldNumber::new` -/
theorem field_numbers :
    firstFieldNumber = Blue.Generated.fieldFirst ∧ lastFieldNumber = Blue.Generated.fieldLast
    ∧ firstReservedFieldNumber = Blue.Generated.fieldFirstReserved
    ∧ lastReservedFieldNumber = Blue.Generated.fieldLastReserved := by decide

/-- the tag bytes of the compact format -/
theorem tk2_tags :
    Blue.TupleKey2.SIGNED_NEG_BASE = Blue.Generated.tk2SignedNegBase
    ∧ Blue.TupleKey2.SIGNED_NEG_LAST = Blue.Generated.tk2SignedNegLast
    ∧ Blue.TupleKey2.SIGNED_NONNEG_BASE = Blue.Generated.tk2SignedNonnegBase
    ∧ Blue.TupleKey2.SIGNED_NONNEG_LAST = Blue.Generated.tk2SignedNonnegLast
    ∧ Blue.TupleKey2.UNSIGNED_BASE = Blue.Generated.tk2UnsignedBase
    ∧ Blue.TupleKey2.UNSIGNED_LAST = Blue.Generated.tk2UnsignedLast
    ∧ Blue.TupleKey2.UNIT_TAG = Blue.Generated.tk2UnitTag := by decide
end C16

end Blue.ConstsTie
