import Blue.Proofs.Order
namespace Blue.Cursor
open Blue.Heap

variable {E : Type}

/-- child `j` positioned at its first entry at or after merged index `p` -/
def fAt (M : List (E × Nat)) (j p : Nat) : Ref E := ⟨childList M j, before M j p + 1⟩
/-- child `j` positioned at its last entry before merged index `p` -/
def gAt (M : List (E × Nat)) (j p : Nat) : Ref E := ⟨childList M j, before M j p⟩

structure Family (lt : E → E → Bool) (M : List (E × Nat)) (k : Nat) : Prop where
  sorted : (M.map (·.1)).Pairwise (fun a b => lt a b = true)
  owner : ∀ x ∈ M, x.2 < k

section
variable {lt : E → E → Bool} {M : List (E × Nat)} {k : Nat}

theorem kv_fAt (j p : Nat) : (fAt M j p).kv = (childList M j)[before M j p]? := by
  simp [fAt, Ref.kv]

theorem kv_gAt (j p : Nat) : (gAt M j p).kv = if before M j p = 0 then none else (childList M j)[before M j p - 1]? := by
  unfold gAt Ref.kv; rfl

/-- entries at or after index `p` are not less than the entry at `p` -/
theorem Family.not_lt_of_mem_drop (st : StrictTotal lt) (fam : Family lt M k) (p : Nat) (e e' : E) (o o' : Nat)
    (hp : M[p]? = some (e, o)) (hm : (e', o') ∈ M.drop p) : lt e' e = false := by
  have hplt : p < M.length := by
    rcases List.getElem?_eq_some_iff.mp hp with ⟨h, _⟩; exact h
  rw [List.drop_eq_getElem_cons hplt] at hm
  have hMp : M[p] = (e, o) := by
    have := List.getElem?_eq_getElem hplt; rw [this] at hp; exact Option.some.inj hp
  rcases List.mem_cons.mp hm with h | h
  · rw [hMp] at h; cases h; exact st.irrefl _
  · -- e' is strictly later in the sorted list
    have hs := fam.sorted
    rw [← List.take_append_drop (p+1) M, List.map_append] at hs
    have hs2 := (List.pairwise_append.mp hs).2.2
    have he : e ∈ (M.take (p+1)).map (·.1) := by
      rw [List.mem_map]; refine ⟨(e, o), ?_, rfl⟩
      rw [List.mem_take_iff_getElem]; exact ⟨p, by omega, hMp⟩
    have he' : e' ∈ (M.drop (p+1)).map (·.1) := by
      rw [List.mem_map]; exact ⟨(e', o'), h, rfl⟩
    exact st.asymm _ _ (hs2 e he e' he')

/-- distinct positions of the merged list hold distinct entries -/
theorem Family.owner_unique (st : StrictTotal lt) (fam : Family lt M k) (p : Nat) (e : E) (o o' : Nat)
    (hp : M[p]? = some (e, o)) (hm : (e, o') ∈ M.drop p) : o' = o := by
  have hplt : p < M.length := by
    rcases List.getElem?_eq_some_iff.mp hp with ⟨h, _⟩; exact h
  rw [List.drop_eq_getElem_cons hplt] at hm
  have hMp : M[p] = (e, o) := by
    have := List.getElem?_eq_getElem hplt; rw [this] at hp; exact Option.some.inj hp
  rcases List.mem_cons.mp hm with h | h
  · rw [hMp] at h; cases h; rfl
  · exfalso
    have hs := fam.sorted
    rw [← List.take_append_drop (p+1) M, List.map_append] at hs
    have hs2 := (List.pairwise_append.mp hs).2.2
    have he : e ∈ (M.take (p+1)).map (·.1) := by
      rw [List.mem_map]; refine ⟨(e, o), ?_, rfl⟩
      rw [List.mem_take_iff_getElem]; exact ⟨p, by omega, hMp⟩
    have he' : e ∈ (M.drop (p+1)).map (·.1) := by
      rw [List.mem_map]; exact ⟨(e, o'), h, rfl⟩
    have := hs2 e he e he'
    rw [st.irrefl] at this; cases this


theorem isLess_fwd_some_false {a : E} {b : Option E} (h : isLess lt true (some a) b = false) :
    ∃ b', b = some b' ∧ lt a b' = false := by
  cases b with
  | none => simp [isLess] at h
  | some b' => exact ⟨b', rfl, by simpa [isLess] using h⟩

/-- Forward: all children at their first entry at or after `p`, head is a comparator-minimum.
    Then the head child is the owner of `M[p]`, positioned on it. -/
theorem head_fwd (st : StrictTotal lt) (fam : Family lt M k) (cs : List (Ref E)) (p : Nat)
    (hperm : cs.Perm ((List.range k).map (fun j => fAt M j p)))
    (hmin : ∀ r, cs[0]? = some r → ∀ x, x ∈ cs → Merging.cmp lt true x r = false)
    (e : E) (o : Nat) (hp : M[p]? = some (e, o)) :
    ∃ t, cs = fAt M o p :: t := by
  have ho : o < k := fam.owner (e, o) (List.mem_of_getElem? hp)
  have hmem : fAt M o p ∈ cs := by
    rw [hperm.mem_iff, List.mem_map]; exact ⟨o, by simpa using ho, rfl⟩
  cases cs with
  | nil => cases hmem
  | cons r t =>
    refine ⟨t, ?_⟩
    have h1 := hmin r (by simp) (fAt M o p) hmem
    unfold Merging.cmp at h1
    rw [kv_fAt, childList_get_owner M o p e hp] at h1
    obtain ⟨e'', hr, hle⟩ := isLess_fwd_some_false h1
    have hrm : r ∈ (List.range k).map (fun j => fAt M j p) := by
      rw [← hperm.mem_iff]; simp
    rw [List.mem_map] at hrm
    obtain ⟨j, _, rfl⟩ := hrm
    rw [kv_fAt] at hr
    have hmd := childList_get_mem M j p e'' hr
    have hge := fam.not_lt_of_mem_drop st p e e'' o j hp hmd
    have : e'' = e := st.eq_of_not_lt _ _ hge hle
    subst this
    have := fam.owner_unique st p e'' o j hp hmd
    subst this
    rfl

/-- Past the end of the merged list every child is exhausted. -/
theorem kv_fAt_end (j p : Nat) (h : M.length ≤ p) : (fAt M j p).kv = none := by
  rw [kv_fAt, before_all M j p h]; simp

end
end Blue.Cursor
