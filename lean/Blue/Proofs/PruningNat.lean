import Blue.Model.PruningC
import Blue.Proofs.Cur
/-! The generic pruning cursor is natural in its child. -/
namespace Blue.Cursor
namespace PruningC
variable {E K : Type} [DecidableEq K] {A : (E → Bool) → Prop} {C D : Cur E} (h : Hom A C D) (cfg : PruneCfg E K) (fuel : Nat)

def map (p : PruningC C K) : PruningC D K := ⟨h.f p.c, p.skip, p.err⟩

theorem scanFwd_nat : ∀ (n : Nat) (c : C.σ) (s : Option K),
    scanFwd D cfg n (h.f c) s = ((scanFwd C cfg n c s).1 |> h.f, (scanFwd C cfg n c s).2) := by
  intro n
  induction n with
  | zero => intros; rfl
  | succ n ih =>
    intro c s
    simp only [scanFwd, h.kv]
    cases C.kv c with
    | none => rfl
    | some e =>
      simp only
      split
      · rw [← h.next, ih]
      · split
        · rfl
        · rw [← h.next, ih]

theorem skipBack_nat : ∀ (n : Nat) (c : C.σ) (s : Option K),
    skipBack D cfg n (h.f c) s = ((skipBack C cfg n c s).1 |> h.f, (skipBack C cfg n c s).2) := by
  intro n
  induction n with
  | zero => intros; rfl
  | succ n ih =>
    intro c s
    simp only [skipBack]
    cases s with
    | none => rfl
    | some k =>
      simp only [h.kv]
      cases C.kv c with
      | none => rfl
      | some e =>
        simp only
        split
        · rfl
        · rw [← h.prev, ih]

theorem backToRunStart_nat : ∀ (n : Nat) (c : C.σ) (t : K),
    backToRunStart D cfg n (h.f c) t = h.f (backToRunStart C cfg n c t) := by
  intro n
  induction n with
  | zero => intros; rfl
  | succ n ih =>
    intro c t
    simp only [backToRunStart, ← h.prev, h.kv]
    cases C.kv (C.prev c) with
    | none => rfl
    | some e =>
      simp only
      split
      · rfl
      · rw [ih]

theorem fwdToCand_nat : ∀ (n : Nat) (c : C.σ) (t : K),
    fwdToCand D cfg n (h.f c) t = h.f (fwdToCand C cfg n c t) := by
  intro n
  induction n with
  | zero => intros; rfl
  | succ n ih =>
    intro c t
    simp only [fwdToCand, h.kv]
    cases C.kv c with
    | none => rfl
    | some e =>
      simp only
      split
      · rfl
      · rw [← h.next, ih]

theorem prevLoop_nat : ∀ (n : Nat) (c : C.σ) (s : Option K),
    prevLoop D cfg fuel n (h.f c) s = (prevLoop C cfg fuel n c s).map (fun r => (h.f r.1, r.2)) := by
  intro n
  induction n with
  | zero => intros; rfl
  | succ n ih =>
    intro c s
    simp only [prevLoop, ← h.prev, skipBack_nat]
    cases hsb : skipBack C cfg fuel (C.prev c) s with
    | mk c2 flag =>
      cases flag with
      | true => rfl
      | false =>
        simp only [h.kv]
        cases C.kv c2 with
        | none => rfl
        | some e =>
          simp only
          split
          · rw [ih]
          · simp only [backToRunStart_nat, h.kv]
            have e4 : (if (C.kv (backToRunStart C cfg fuel c2 (cfg.key e))).isNone = true
                        then D.next (h.f (backToRunStart C cfg fuel c2 (cfg.key e)))
                        else h.f (backToRunStart C cfg fuel c2 (cfg.key e)))
                = h.f (if (C.kv (backToRunStart C cfg fuel c2 (cfg.key e))).isNone = true
                        then C.next (backToRunStart C cfg fuel c2 (cfg.key e))
                        else backToRunStart C cfg fuel c2 (cfg.key e)) := by
              split
              · rw [h.next]
              · rfl
            rw [e4, fwdToCand_nat, h.kv]
            cases C.kv (fwdToCand C cfg fuel (if (C.kv (backToRunStart C cfg fuel c2 (cfg.key e))).isNone = true
                        then C.next (backToRunStart C cfg fuel c2 (cfg.key e))
                        else backToRunStart C cfg fuel c2 (cfg.key e)) (cfg.key e)) with
            | none => rfl
            | some e5 =>
              simp only
              split
              · rfl
              · rw [ih]

/-- the pruning combinator maps homomorphisms to homomorphisms -/
def hom : Hom A (cur C cfg fuel) (cur D cfg fuel) where
  f := map h
  first := fun p => by simp [cur, map, seekToFirst, h.first]
  last := fun p => by simp [cur, map, seekToLast, h.last]
  next := fun p => by
    show map h (next C cfg fuel p) = next D cfg fuel (map h p)
    simp only [next, map, ← h.next, scanFwd_nat]
  prev := fun p => by
    show map h (prev C cfg fuel p) = prev D cfg fuel (map h p)
    simp only [prev, map, h.kv, prevLoop_nat]
    cases prevLoop C cfg fuel fuel p.c (if (C.kv p.c).isNone = true then none else p.skip) with
    | none => rfl
    | some r => rfl
  seek := fun pred hp p => by
    show map h (seek C cfg fuel pred p) = seek D cfg fuel pred (map h p)
    simp only [seek, map, ← h.seek pred hp, scanFwd_nat]
  kv := fun p => by simp [cur, map, kv, h.kv]
  ok := fun p => by simp [cur, map, h.ok]

theorem map_new (c : C.σ) : map h (new (K := K) C c) = new D (h.f c) := by
  simp [map, new, h.first]

end PruningC
end Blue.Cursor
