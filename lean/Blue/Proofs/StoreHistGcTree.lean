import Blue.Proofs.StoreHistGc
import Blue.Proofs.StoreHistTree
/-! **C05 / C01** the garbage-collecting compaction step of `Blue.StoreHistGc`, discharged for
    `Blue.NextCompaction.applyCompaction` (`Version::apply_compaction_inner`) on a compaction whose
    output level is the LAST level of the tree (`Compaction::top_level`: `upper_level ==
    NUM_LEVELS - 1`): then nothing lies below the outputs (`belowComps_last`), which is `hlast`. -/
namespace Blue.StoreHistGcTree
open Blue.Spec Blue.Kvs Blue.NextCompaction Blue.StoreHist Blue.StoreHistTree Blue.StoreHistGc

/-- the output level is the last level: the tree holds nothing below it -/
theorem belowComps_last (t : Tree) {upper : Nat} (h : upper + 1 = t.length) : belowComps t upper = [] := by
  unfold belowComps deepComps
  have : t.length - 1 - upper = 0 := by omega
  rw [this]
  rfl

/-- **`GcCompactionOk` for `applyCompaction` on a compaction into the last level**: the split,
    closedness, `hlast`, the placement of the outputs, "level 0 gains nothing" and I1 of the
    successor are PROVED; what remains are the hypotheses on the outputs (`OutsOk`, versions of
    input files only, `NewestKept`, "newer above" among themselves) -/
theorem gcCompactionOk_of_chosen (pay : Nat → Nat → Option Payload) (mem : List (Ver Nat))
    (imm : Option (List (Ver Nat))) {t : Tree} {c : Core} {outs : List File}
    (hinv : Blue.NextCompaction.Inv t) (hc : Chosen t c) (ho : OutsOk t c outs)
    (htop : c.upper + 1 = t.length)
    (hsub : ∀ o ∈ outs, ∀ e ∈ o.vers, ∃ i f, f ∈ level t i ∧ f.id ∈ c.inputs ∧ e ∈ f.vers)
    (hnewest : NewestKept pay (inputs (tagTree t c)).flatten (comps outs).flatten)
    (hnew : NewerAbove (comps outs)) :
    GcCompactionOk pay (toKState mem imm t) (toKState mem imm (applyCompaction t c outs)) := by
  have hlv := hc.levels
  have hs := hinv.sorted_level (i := c.upper) (by omega)
  have hw := hinv.wf_level c.upper
  refine .mk (tagTree t c) (belowComps t c.upper) (comps outs) (aboveComps t c ++ beforeComps t c) (afterComps t c)
    rfl rfl ?_ hc.closed ?_ hnewest ?_ hnew ?_ ?_ ?_ ?_ ?_
  · rw [treeComps_toKState]; exact treeComps_split t c hc.upper_lt
  · intro e he
    obtain ⟨vs, hvs, hev⟩ := List.mem_flatten.mp he
    obtain ⟨o, ho', rfl⟩ := List.mem_map.mp hvs
    obtain ⟨i, f, hf, hid, hef⟩ := hsub o ho' e hev
    exact List.mem_flatten.mpr ⟨f.vers, mem_inputs_tagTree hf (hc.input_at hinv hf hid).2.1 hid, hef⟩
  · rw [belowComps_last t htop]
    intro x hx; cases hx
  · exact kept_tagTree hinv hc
  · intro x hx y hy a ha b hb hk
    unfold afterComps comps at hx
    obtain ⟨g, hg, rfl⟩ := List.mem_map.mp hx
    obtain ⟨o, ho', rfl⟩ := List.mem_map.mp hy
    obtain ⟨g1, g2⟩ := (mem_drop_ub hs hw c.last).mp hg
    have h5 : g.first ≤ a.1 := ((hinv.wfT g1).2 a ha).1
    have := ((ho.wf o ho').2 b hb).2
    have := (ho.inside o ho').2
    omega
  · rw [treeComps_toKState, apply_components hinv hc outs]
  · intro g hg
    show g ∈ (level t 0).map toK
    have hg' : g ∈ (level (applyCompaction t c outs) 0).map toK := hg
    rw [level_apply_above hinv hc outs (by omega : 0 < c.upper)] at hg'
    obtain ⟨f, hf, rfl⟩ := List.mem_map.mp hg'
    exact List.mem_map.mpr ⟨f, (mem_dropInputs.mp hf).1, rfl⟩
  · exact i1_toKState mem imm (apply_preserves_inv hinv hc ho)

/-- … for what the selector function answers -/
theorem gcCompactionOk_of_apply (pay : Nat → Nat → Option Payload) (n : Num) (o : Opts) (og : List Core)
    (mem : List (Ver Nat)) (imm : Option (List (Ver Nat))) {t : Tree} {c : Core} {outs : List File}
    (hinv : Blue.NextCompaction.Inv t) (hsel : nextCompaction n o t og = some c) (ho : OutsOk t c outs)
    (htop : c.upper + 1 = t.length)
    (hsub : ∀ o ∈ outs, ∀ e ∈ o.vers, ∃ i f, f ∈ level t i ∧ f.id ∈ c.inputs ∧ e ∈ f.vers)
    (hnewest : NewestKept pay (inputs (tagTree t c)).flatten (comps outs).flatten)
    (hnew : NewerAbove (comps outs)) :
    GcCompactionOk pay (toKState mem imm t) (toKState mem imm (applyCompaction t c outs)) :=
  gcCompactionOk_of_chosen pay mem imm hinv (nextCompaction_chosen n o t og hinv hsel) ho htop hsub hnewest hnew

end Blue.StoreHistGcTree

#print axioms Blue.StoreHistGcTree.belowComps_last
#print axioms Blue.StoreHistGcTree.gcCompactionOk_of_chosen
#print axioms Blue.StoreHistGcTree.gcCompactionOk_of_apply
