import Blue.Proofs.WaitListSlots
/-! How long the window `[head, tail)` of the wait list gets (`sync42::wait_list::WaitList`, model
    `Blue.WaitList`).  `_unlink` clears the guard's flag and moves `head` only past a *prefix* of
    cleared flags, so a guard that unlinks while an older one is still linked leaves a dead slot
    behind: the window shrinks only when the head leaves.

    * `in_order_keeps_window_dense` — when every guard unlinks as head (the way `KeyValueStore::write`
      and the flush thread leave the list: they wait until `is_head`), every index of the window
      belongs to a guard that exists: the window is as long as there are guards, and
      `link_blocks_only_when_n_guards`: a `link` waits only while `n` guards exist.
    * `ring_fills_behind_one_guard` — guards that unlink out of turn (a `write` that returns early
      with `?` drops its guard wherever it stands): ONE guard that stays linked and `n - 1`
      link/unlink pairs behind it fill the ring; the next `link` waits although a single guard
      exists.  In `KeyValueStore::write` that `link` is made while the store mutex is held — the
      mutex the one linked writer needs in order to unlink. -/
namespace Blue.WaitList

theorem advance_live : ∀ (f : Nat) (t : St), (advance f t).live = t.live := by
  intro f
  induction f with
  | zero => intro t; rfl
  | succ f ih =>
    intro t; unfold advance; split
    · rw [ih]
    · rfl

theorem advance_tail : ∀ (f : Nat) (t : St), (advance f t).tail = t.tail ∧ (advance f t).n = t.n := by
  intro f
  induction f with
  | zero => intro t; exact ⟨rfl, rfl⟩
  | succ f ih =>
    intro t; unfold advance; split
    · exact ih _
    · exact ⟨rfl, rfl⟩

theorem unlink_live_tail (s : St) (i : Nat) :
    (unlink s i).live = s.live.filter (· ≠ i) ∧ (unlink s i).tail = s.tail ∧ (unlink s i).n = s.n := by
  unfold unlink
  exact ⟨by rw [advance_live], (advance_tail _ _).1, (advance_tail _ _).2⟩

/-- every index of the window belongs to a guard that exists (no dead slots) -/
def Dense (s : St) : Prop := ∀ j, s.head ≤ j → j < s.tail → j ∈ s.live

/-- every `unlink` of the sequence is made by the guard that is head at that moment -/
def inOrder : St → List Op → Prop
  | _, [] => True
  | s, .link :: t => inOrder (step s .link) t
  | s, .unlink i :: t => i = s.head ∧ inOrder (step s (.unlink i)) t

theorem dense_link {s : St} (hd : Dense s) : Dense (step s .link) := by
  simp only [step, link]
  by_cases hfull : s.head + s.n ≤ s.tail
  · rw [if_pos hfull]; exact hd
  · rw [if_neg hfull]
    intro j h1 h2
    dsimp only at h1 h2 ⊢
    by_cases hj : j = s.tail
    · subst hj; exact List.mem_cons_self ..
    · exact List.mem_cons_of_mem _ (hd j h1 (by omega))

theorem dense_unlink_head {s : St} (h : Inv s) (hd : Dense s) : Dense (step s (.unlink s.head)) := by
  have h' := inv_unlink h s.head
  simp only [step] at h' ⊢
  by_cases hi : s.head ∈ s.live
  · rw [if_pos hi] at h' ⊢
    obtain ⟨hl, ht, _⟩ := unlink_live_tail s s.head
    intro j h1 h2
    rw [ht] at h2
    rw [hl]
    -- the new head is a guard that remains, hence beyond the old head
    have hgt : s.head < (unlink s s.head).head := by
      rcases h'.headLinked with he | hm
      · rw [ht] at he; omega
      · rw [hl] at hm
        obtain ⟨hm1, hm2⟩ := List.mem_filter.mp hm
        have := (h.inWindow _ hm1).1
        have hne : (unlink s s.head).head ≠ s.head := by simpa using hm2
        omega
    refine List.mem_filter.mpr ⟨hd j (by omega) h2, ?_⟩
    simp only [ne_eq, decide_not, Bool.not_eq_true', decide_eq_false_iff_not]
    omega
  · rw [if_neg hi]; exact hd

/-- **leaving in turn keeps the window dense**: after any sequence of `link`s and of `unlink`s made
    by the guard that is head, every index between `head` and `tail` belongs to a guard that
    exists -/
theorem in_order_keeps_window_dense (n : Nat) (hn : 0 < n) (ops : List Op) (ho : inOrder (init n) ops) :
    Dense (ops.foldl step (init n)) := by
  have key : ∀ (ops : List Op) (s : St), Inv s → Dense s → inOrder s ops → Dense (ops.foldl step s) := by
    intro ops
    induction ops with
    | nil => intro s _ hd _; exact hd
    | cons op t ih =>
      intro s hi hd ho
      simp only [List.foldl_cons]
      cases op with
      | link => exact ih _ (inv_link hi) (dense_link hd) ho
      | unlink i =>
        obtain ⟨rfl, ho'⟩ := ho
        exact ih _ (inv_unlink hi _) (dense_unlink_head hi hd) ho'
  exact key ops _ (inv_init n hn) (by intro j h1 h2; simp [init] at h1 h2) ho

/-- … so a `link` waits only while every one of the `n` slots belongs to a guard that exists -/
theorem link_blocks_only_when_n_guards (n : Nat) (hn : 0 < n) (ops : List Op) (ho : inOrder (init n) ops)
    (hb : link (ops.foldl step (init n)) = none) :
    ∀ j, (ops.foldl step (init n)).head ≤ j → j < (ops.foldl step (init n)).head + (ops.foldl step (init n)).n →
      j ∈ (ops.foldl step (init n)).live := by
  have hd := in_order_keeps_window_dense n hn ops ho
  have hfull := (link_blocks_iff_full _).mp hb
  intro j h1 h2
  exact hd j h1 (by omega)

/-- **`ring_fills_behind_one_guard`** (four slots): guard 0 stays linked; three guards link and
    unlink behind it, out of turn.  One guard exists, the window is four long, and the next `link`
    waits (it returns `none`; the state is unchanged by it) -/
theorem ring_fills_behind_one_guard :
    let s := [Op.link, .link, .unlink 1, .link, .unlink 2, .link, .unlink 3].foldl step (init 4)
    s.live = [0] ∧ s.head = 0 ∧ s.tail = 4 ∧ (link s).isNone = true ∧ (step s .link).tail = 4 := by
  decide

/-- … whereas the same guards leaving in turn (each waits until it is head) leave the window
    empty -/
theorem same_guards_in_turn :
    let s := [Op.link, .link, .link, .link, .unlink 0, .unlink 1, .unlink 2, .unlink 3].foldl step (init 4)
    s.live = [] ∧ s.head = 4 ∧ s.tail = 4 ∧ (link s).isSome = true := by
  decide

/-- the general shape: behind a guard that stays linked, every out-of-turn link/unlink pair
    lengthens the window by one and leaves the set of guards as it was -/
theorem out_of_turn_pair_lengthens_window {s : St} (h : Inv s) (hne : s.live ≠ []) (hroom : s.tail < s.head + s.n) :
    let s' := step (step s .link) (.unlink s.tail)
    s'.live = s.live ∧ s'.head = s.head ∧ s'.tail = s.tail + 1 := by
  have hfull : ¬ s.head + s.n ≤ s.tail := by omega
  obtain ⟨hhead, hmin⟩ := head_is_oldest h hne
  have hw := h.inWindow s.head hhead
  have hnot : s.tail ∉ s.live := fun hm => by have := (h.inWindow _ hm).2; omega
  simp only [step, link, if_neg hfull]
  have hmem : s.tail ∈ s.tail :: s.live := List.mem_cons_self ..
  rw [if_pos hmem]
  obtain ⟨hl, ht, _⟩ := unlink_live_tail
    { s with tail := s.tail + 1, linked := fun slot => if slot = s.tail % s.n then true else s.linked slot,
             live := s.tail :: s.live } s.tail
  refine ⟨?_, ?_, ht⟩
  · rw [hl]
    show (s.tail :: s.live).filter (· ≠ s.tail) = s.live
    rw [List.filter_cons_of_neg (by simp)]
    apply List.filter_eq_self.mpr
    intro a ha
    simp only [ne_eq, decide_not, Bool.not_eq_true', decide_eq_false_iff_not]
    intro he; subst he; exact hnot ha
  · -- the head's flag is still set, so `advance` stops at once
    unfold unlink
    simp only
    have hslot : s.head % s.n ≠ s.tail % s.n := slot_ne h.npos hw.2 hroom
    have hlinked : s.linked (s.head % s.n) = true := (h.flags s.head (Nat.le_refl _) hw.2).mpr hhead
    unfold advance
    rw [if_neg]
    simp only [not_and, Bool.not_eq_false]
    intro _
    simp only [hslot, if_false]
    exact hlinked

end Blue.WaitList
