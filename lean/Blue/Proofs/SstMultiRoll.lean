import Blue.Model.SstMetaMsg
import Blue.Proofs.SstAccept
/-! `SstMultiBuilder` (C10, item (b)): WHEN a new file is started (`get_builder`, lib.rs:2138-2155;
    `split_hint`, lib.rs:2127-2136), and what a maintainer relies on for every run of attempts
    and hints. -/
namespace Blue.Sst
open Blue.Wire Blue.EntryCodec Blue.Block Blue.Cursor

/-- the condition of `get_builder`: no builder open, or the open one has reached
    `TABLE_FULL_SIZE` or `options.target_file_size` -/
def MB.startsNewFile (o : SstOpts) (m : MB) : Prop :=
  match m.cur with
  | none => True
  | some s => s.approxSize ≥ TABLE_FULL_SIZE ∨ s.approxSize ≥ o.targetFileSize

/-- **the roll-over rule**: after `get_builder`'s test no builder is open (the next entry goes to a
    fresh file) iff `startsNewFile`; when the test fires the open builder, unchanged, becomes the
    last sealed file; otherwise nothing changes -/
theorem roll_rule (o : SstOpts) (m : MB) :
    ((m.roll o).cur = none ↔ m.startsNewFile o)
    ∧ (∀ s, m.cur = some s → (s.approxSize ≥ TABLE_FULL_SIZE ∨ s.approxSize ≥ o.targetFileSize) →
        m.roll o = { m with sealed := m.sealed ++ [s], cur := none })
    ∧ (∀ s, m.cur = some s → ¬ (s.approxSize ≥ TABLE_FULL_SIZE ∨ s.approxSize ≥ o.targetFileSize) → m.roll o = m)
    ∧ (m.cur = none → m.roll o = m) := by
  refine ⟨?_, ?_, ?_, ?_⟩
  · unfold MB.roll MB.startsNewFile
    cases hc : m.cur with
    | none => simp [hc]
    | some s =>
      simp only
      by_cases h : s.approxSize ≥ TABLE_FULL_SIZE ∨ s.approxSize ≥ o.targetFileSize
      · simp [h]
      · simp [h, hc]
  · intro s hc h; unfold MB.roll; rw [hc]; simp only [if_pos h]
  · intro s hc h; unfold MB.roll; rw [hc]; simp only [if_neg h]
  · intro hc; unfold MB.roll; rw [hc]

theorem hint_files (minSize : Nat) (m : MB) : (m.splitHint minSize).files = m.files := by
  unfold MB.splitHint
  cases hc : m.cur with
  | none => rfl
  | some s =>
    simp only
    split
    · simp [MB.files, hc]
    · rfl

theorem hint_last (minSize : Nat) (m : MB) :
    (m.splitHint minSize).lastKey = m.lastKey ∧ (m.splitHint minSize).lastTs = m.lastTs := by
  unfold MB.splitHint
  cases hc : m.cur with
  | none => exact ⟨rfl, rfl⟩
  | some s =>
    simp only
    split <;> exact ⟨rfl, rfl⟩

theorem hint_inv {o : SstOpts} (minSize : Nat) {m : MB} (hi : MBInv o m) : MBInv o (m.splitHint minSize) := by
  have hf := hint_files minSize m
  have ha : (m.splitHint minSize).acc = m.acc := by unfold MB.acc; rw [hf]
  obtain ⟨l1, l2⟩ := hint_last minSize m
  exact ⟨by rw [hf]; exact hi.reach, by rw [ha]; exact hi.sorted, by rw [ha, l1, l2]; exact hi.last⟩

/-- every sealed file was cut by the roll-over rule or by a hint -/
def CutInv (o : SstOpts) (minSize : Nat) (m : MB) : Prop :=
  ∀ s ∈ m.sealed, s.approxSize ≥ TABLE_FULL_SIZE ∨ s.approxSize ≥ o.targetFileSize ∨ s.approxSize ≥ minSize

theorem roll_cut {o : SstOpts} {minSize : Nat} {m : MB} (h : CutInv o minSize m) : CutInv o minSize (m.roll o) := by
  unfold MB.roll
  cases hc : m.cur with
  | none => exact h
  | some s =>
    simp only
    split
    · rename_i hcond
      intro x hx
      simp only [List.mem_append, List.mem_singleton] at hx
      rcases hx with hx | rfl
      · exact h x hx
      · rcases hcond with a | b
        · exact Or.inl a
        · exact Or.inr (Or.inl b)
    · exact h

theorem hint_cut {o : SstOpts} {minSize : Nat} {m : MB} (h : CutInv o minSize m) :
    CutInv o minSize (m.splitHint minSize) := by
  unfold MB.splitHint
  cases hc : m.cur with
  | none => exact h
  | some s =>
    simp only
    split
    · rename_i hcond
      intro x hx
      simp only [List.mem_append, List.mem_singleton] at hx
      rcases hx with hx | rfl
      · exact h x hx
      · rcases hcond with a | b
        · exact Or.inl a
        · exact Or.inr (Or.inr b)
    · exact h

theorem put_sealed (o : SstOpts) (m : MB) (e : KV) :
    (m.put o e).2.sealed = m.sealed ∨ (m.put o e).2.sealed = (m.roll o).sealed := by
  unfold MB.put
  cases putCheck 0 m.lastKey m.lastTs e with
  | some err => exact Or.inl rfl
  | none =>
    simp only
    split <;> exact Or.inr rfl

theorem put_cut {o : SstOpts} {minSize : Nat} {m : MB} (e : KV) (h : CutInv o minSize m) :
    CutInv o minSize (m.put o e).2 := by
  rcases put_sealed o m e with h1 | h1
  · unfold CutInv; rw [h1]; exact h
  · unfold CutInv; rw [h1]; exact roll_cut h

theorem mb_runCalls_inv (o : SstOpts) (minSize : Nat) : ∀ (cs : List MCall) (m : MB), MBInv o m → CutInv o minSize m →
    MBInv o (MB.runCalls o minSize m cs).2
    ∧ (MB.runCalls o minSize m cs).2.acc = m.acc ++ acceptedOfB (MB.runCalls o minSize m cs).1 (attemptsOf cs)
    ∧ CutInv o minSize (MB.runCalls o minSize m cs).2
  | [], m, h, hc => ⟨h, by simp [MB.runCalls, acceptedOfB, attemptsOf], hc⟩
  | .att e :: cs, m, h, hc => by
    obtain ⟨h1, h2⟩ := mb_put_step e h
    obtain ⟨h3, h4, h5⟩ := mb_runCalls_inv o minSize cs (m.put o e).2 h1 (put_cut e hc)
    simp only [MB.runCalls, attemptsOf]
    refine ⟨h3, ?_, h5⟩
    rw [h4, h2]
    cases (m.put o e).1 with
    | none => simp [acceptedOfB]
    | some err => simp [acceptedOfB]
  | .hint :: cs, m, h, hc => by
    obtain ⟨h3, h4, h5⟩ := mb_runCalls_inv o minSize cs (m.splitHint minSize) (hint_inv minSize h) (hint_cut hc)
    simp only [MB.runCalls, attemptsOf]
    refine ⟨h3, ?_, h5⟩
    rw [h4]
    unfold MB.acc; rw [hint_files]

/-- **`SstMultiBuilder` with split hints**: after any run of attempts and hints, every file is a
    state an `SstBuilder` reaches from `new`; the files' entries concatenated in file order are
    exactly the attempts answered `Ok`, in the order they were made (a hint neither drops nor
    reorders an entry) and strictly sorted across files; and every file except the open (last) one
    was cut by the rule: its approximate size had reached `TABLE_FULL_SIZE`, the target file
    size, or — cut by a hint — the minimum file size -/
theorem mb_calls_files (o : SstOpts) (minSize : Nat) (cs : List MCall) :
    let r := MB.runCalls o minSize MB.init cs
    (∀ s ∈ r.2.files, ∃ as, s = (SB.putAll o SB.init as).2)
    ∧ r.2.files.flatMap (·.accepted) = acceptedOfB r.1 (attemptsOf cs)
    ∧ Sorted (acceptedOfB r.1 (attemptsOf cs))
    ∧ (∀ s ∈ r.2.sealed, s.approxSize ≥ TABLE_FULL_SIZE ∨ s.approxSize ≥ o.targetFileSize ∨ s.approxSize ≥ minSize) := by
  intro r
  obtain ⟨h1, h2, h3⟩ := mb_runCalls_inv o minSize cs MB.init (mbinv_init o) (by intro s hs; simp [MB.init] at hs)
  have h2' : r.2.acc = acceptedOfB r.1 (attemptsOf cs) := by
    show (MB.runCalls o minSize MB.init cs).2.acc = _
    rw [h2]
    have : MB.init.acc = [] := rfl
    rw [this, List.nil_append]
  exact ⟨h1.reach, h2', by rw [← h2']; exact h1.sorted, h3⟩

/-- without hints the run of calls is `MB.putAll` -/
theorem runCalls_atts (o : SstOpts) (minSize : Nat) : ∀ (atts : List KV) (m : MB),
    MB.runCalls o minSize m (atts.map MCall.att) = MB.putAll o m atts ∧ attemptsOf (atts.map MCall.att) = atts
  | [], m => ⟨rfl, rfl⟩
  | e :: es, m => by
    obtain ⟨h1, h2⟩ := runCalls_atts o minSize es (m.put o e).2
    simp only [List.map_cons, MB.runCalls, MB.putAll, attemptsOf, h1, h2, and_self]

/-! ### no file is empty -/
/-- `("", u64::MAX)` is the least key: what is above any `(last_key, last_timestamp)` with a `u64`
    timestamp is above the initial `last_key` of a fresh `SstBuilder` / `BlockBuilder` -/
theorem keyRefLt_min {lk : List Nat} {lt : Nat} {k : List Nat} {t : Nat} (h : keyRefLt lk lt k t = true)
    (hl : lt ≤ U64MAX) : keyRefLt [] U64MAX k t = true := by
  cases k with
  | nil =>
    have h0 : keyLt lk [] = false := by cases lk <;> rfl
    simp only [keyRefLt, h0, Bool.false_or, Bool.and_eq_true, decide_eq_true_eq] at h
    simp only [keyRefLt, keyLt, Bool.false_or, Bool.not_false, Bool.true_and, decide_eq_true_eq]
    omega
  | cons a as => simp [keyRefLt, keyLt]

/-- the first `put` / `del` into a freshly created `SstBuilder` cannot fail once the
    multi-builder's own checks have passed -/
theorem fresh_put_ok (o : SstOpts) {lk : List Nat} {lt : Nat} {e : KV} (hc : putCheck 0 lk lt e = none)
    (hl : lt ≤ U64MAX) : ∃ s', SB.init.put o e = .ok s' := by
  obtain ⟨h1, h2, _, h4⟩ := (putCheck_none_iff _ _ _ _).mp hc
  have hk := keyRefLt_min h4 hl
  have hA : putCheck SB.init.approxSize SB.init.lastKey SB.init.lastTs e = none :=
    (putCheck_none_iff _ _ _ _).mpr ⟨h1, h2, by decide, hk⟩
  have hB : putCheck CBuilder.init.b.approxSize CBuilder.init.b.lastKey CBuilder.init.lastTs e = none :=
    (putCheck_none_iff _ _ _ _).mpr ⟨h1, h2, by decide, hk⟩
  have hC : CBuilder.init.put o.blk e = .ok ⟨CBuilder.init.b.add o.blk e, e.ts⟩ := by
    unfold CBuilder.put; rw [hB]
  unfold SB.put
  rw [hA]
  simp only [SB.init, hC]
  exact ⟨_, rfl⟩

structure NEInv (m : MB) : Prop where
  lts : m.lastTs ≤ U64MAX
  ne : ∀ s ∈ m.files, s.accepted ≠ []

theorem neinv_init : NEInv MB.init := ⟨Nat.le_refl _, by intro s hs; simp [MB.files, MB.init] at hs⟩

theorem neinv_hint (minSize : Nat) {m : MB} (h : NEInv m) : NEInv (m.splitHint minSize) :=
  ⟨by rw [(hint_last minSize m).2]; exact h.lts, by rw [hint_files]; exact h.ne⟩

theorem neinv_put (o : SstOpts) {m : MB} (e : KV) (hts : e.ts ≤ U64MAX) (h : NEInv m) : NEInv (m.put o e).2 := by
  cases hc : putCheck 0 m.lastKey m.lastTs e with
  | some err =>
    have : m.put o e = (some (.put err), m) := by unfold MB.put; rw [hc]
    rw [this]; exact h
  | none =>
    have hf := roll_files o m
    obtain ⟨_, hl2⟩ := roll_last o m
    have hsealed : ∀ s ∈ (m.roll o).sealed, s.accepted ≠ [] := by
      intro s hs
      apply h.ne; rw [← hf]; unfold MB.files; exact List.mem_append_left _ hs
    cases hp : (m.roll o).curOr.put o e with
    | ok s' =>
      rw [mb_put_ok hc hp]
      refine ⟨hts, ?_⟩
      intro s hs
      simp only [MB.files, List.mem_append, List.mem_singleton] at hs
      rcases hs with hs | rfl
      · exact hsealed s hs
      · rw [put_accepted hp]; simp
    | error err =>
      rw [mb_put_err hc hp]
      refine ⟨by show (m.roll o).lastTs ≤ U64MAX; rw [hl2]; exact h.lts, ?_⟩
      intro s hs
      simp only [MB.files, List.mem_append, List.mem_singleton] at hs
      rcases hs with hs | rfl
      · exact hsealed s hs
      · cases hcur : (m.roll o).cur with
        | some s0 =>
          have : (m.roll o).curOr = s0 := by unfold MB.curOr; rw [hcur]
          rw [this]
          apply h.ne; rw [← hf]; unfold MB.files; rw [hcur]; simp
        | none =>
          have h0 : (m.roll o).curOr = SB.init := by unfold MB.curOr; rw [hcur]
          rw [h0] at hp
          obtain ⟨s', hs'⟩ := fresh_put_ok o hc h.lts
          rw [hs'] at hp; cases hp

theorem neinv_runCalls (o : SstOpts) (minSize : Nat) : ∀ (cs : List MCall) (m : MB),
    (∀ e ∈ attemptsOf cs, e.ts ≤ U64MAX) → NEInv m → NEInv (MB.runCalls o minSize m cs).2
  | [], _, _, h => h
  | .att e :: cs, m, hts, h => by
    simp only [MB.runCalls]
    exact neinv_runCalls o minSize cs _ (fun x hx => hts x (by simp [attemptsOf, hx]))
      (neinv_put o e (hts e (by simp [attemptsOf])) h)
  | .hint :: cs, m, hts, h => by
    simp only [MB.runCalls]
    exact neinv_runCalls o minSize cs _ (fun x hx => hts x (by simpa [attemptsOf] using hx)) (neinv_hint minSize h)

/-- **no file is empty**: with `u64` timestamps, after any run of attempts and hints every file —
    sealed or open — holds at least one entry (a file is only created for an entry that passed
    the multi-builder's checks, and a fresh builder cannot refuse such an entry) -/
theorem mb_no_empty_file (o : SstOpts) (minSize : Nat) (cs : List MCall) (hts : ∀ e ∈ attemptsOf cs, e.ts ≤ U64MAX) :
    ∀ s ∈ (MB.runCalls o minSize MB.init cs).2.files, s.accepted ≠ [] :=
  (neinv_runCalls o minSize cs MB.init hts neinv_init).ne

end Blue.Sst
