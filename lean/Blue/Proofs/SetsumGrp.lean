import Blue.Proofs.Setsum
import Blue.Proofs.SetsumDigest
import Blue.Proofs.Ledger
/-! The canonical setsum values form a commutative group; this is the group the ledger theorems of
    C04 (`Blue.Books`) are instantiated with, and the one the driver computes in. -/
namespace Blue.Setsum

/-- a setsum value as the API produces it: every column below its prime -/
abbrev CState := { s : State // Canonical s }

def negCol (p a : Nat) : Nat := if a = 0 then 0 else p - a

/-- `Setsum::default() - s` -/
def negState (s : State) : State := Vector.ofFn fun i => negCol primes[i] s[i]

@[simp] theorem negState_get (s : State) (i : Nat) (h : i < 8) : (negState s)[i] = negCol primes[i] s[i] := by
  unfold negState; simp

theorem negCol_lt {p a : Nat} (hp : GoodPrime p) (_ha : a < p) : negCol p a < p := by
  unfold negCol GoodPrime at *; split <;> omega

theorem addCol_negCol {p a : Nat} (hp : GoodPrime p) (ha : a < p) : addCol p a (negCol p a) = 0 := by
  unfold addCol negCol GoodPrime U32 at *; simp only; split <;> split <;> omega

theorem addCol_inv_eq_neg {p a b : Nat} (hp : GoodPrime p) (ha : a < p) (hb : b < p) :
    addCol p a (p - b) = addCol p a (negCol p b) := by
  unfold negCol
  by_cases hb0 : b = 0
  · subst hb0; simp only [if_true]; unfold addCol GoodPrime U32 at *; simp only; split <;> split <;> omega
  · rw [if_neg hb0]

theorem canonical_neg {s : State} (h : Canonical s) : Canonical (negState s) := by
  intro i hi; rw [negState_get]; exact negCol_lt (primes_good' i hi) (h i hi)

theorem add_neg {s : State} (h : Canonical s) : add s (negState s) = zero := by
  apply Vector.ext; intro i hi; unfold add
  rw [addState_get, negState_get, zero_get]
  exact addCol_negCol (primes_good' i hi) (h i hi)

/-- the code's subtraction (`invert_state` then `add_state`) is addition of the group inverse -/
theorem sub_eq_add_neg {a b : State} (ha : Canonical a) (hb : Canonical b) :
    sub a b = some (add a (negState b)) := by
  unfold sub; rw [invertState_canonical hb]
  simp only [Option.map_some, Option.some.injEq]
  apply Vector.ext; intro i hi; unfold add
  simp only [addState_get, Vector.getElem_ofFn, negState_get]
  exact addCol_inv_eq_neg (primes_good' i hi) (ha i hi) (hb i hi)

def cadd (a b : CState) : CState := ⟨add a.1 b.1, canonical_add a.2 b.2⟩
def cneg (a : CState) : CState := ⟨negState a.1, canonical_neg a.2⟩
def czero : CState := ⟨zero, canonical_zero⟩

/-- canonical setsum values under column-wise addition modulo the primes -/
def setsumGrp : Blue.Books.Grp CState where
  add := cadd
  neg := cneg
  zero := czero
  add_comm := fun a b => Subtype.ext (add_comm a.1 b.1)
  add_assoc := fun a b c => Subtype.ext (add_assoc a.2 b.2 c.2)
  add_zero := fun a => Subtype.ext (add_zero a.2)
  add_neg := fun a => Subtype.ext (add_neg a.2)

/-- every 32-byte digest names a group element (repaired `from_digest`) -/
def ofDigest (d : List Nat) : Option CState :=
  if hb : d.all (· < 256) then
    match h : fromDigest d with
    | some s => some ⟨s, fromDigest_canonical (by intro b hb'; simpa using (List.all_eq_true.mp hb) b hb') h⟩
    | none => none
  else none

end Blue.Setsum
