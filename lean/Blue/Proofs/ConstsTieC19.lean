import Blue.Generated.Consts
import Blue.Model.BitVecCf
import Blue.Model.RrrWord
import Blue.Model.RrrCf
import Blue.Model.Sampled
import Blue.Model.Sigma
import Blue.Model.BvSparse
import Blue.Proofs.BvSparse
import Blue.Proofs.RrrLayout
/-! Constants of `scrunch` regenerated from the Rust source, tied to the model (C19).  Kept apart
    from the other properties' ties so that an edit to these constants breaks only C19's proof
    obligations. -/
namespace Blue.ConstsTie

/-- `PARAM_WORDS_PER_BLOCK` of `scrunch/src/bit_vector/cf_rrr.rs` -/
theorem scrunch_cf_rrr_block : Blue.BitVec.cfWordsPerBlock = Blue.Generated.scrunchCfRrrWordsPerBlock := by decide

/-- `PARAM_SELECT_SAMPLE` of cf_rrr.rs (`PARAM_WORDS_PER_BLOCK * 63`) -/
theorem scrunch_cf_rrr_sample : Blue.RrrCf.sampleC = Blue.Generated.scrunchCfRrrSelectSample := by decide

/-- the binomial table `K` of `scrunch/src/bit_vector/rrr.rs`: the model's Pascal rows are the
    literal rows of the source (row `n` has `n + 1` entries) -/
theorem scrunch_rrr_K : Blue.Rrr.kTab.flatten = Blue.Generated.scrunchRrrKFlat
    ∧ Blue.Rrr.kTab.map List.length = Blue.Generated.scrunchRrrKRowLens := by decide +kernel

/-- the offset widths `L` of rrr.rs -/
theorem scrunch_rrr_L : Blue.Rrr.lTab = Blue.Generated.scrunchRrrL := by decide +kernel

/-- `WORD` (63-bit words per block) and `SELECT` (select sample) of `rrr::BitVector::construct_from_words`,
    as stored in every constructed vector -/
theorem scrunch_rrr_params (bits : List Bool) :
    (Blue.Rrr.construct bits).word = Blue.Generated.scrunchRrrWord
    ∧ (Blue.Rrr.construct bits).select = Blue.Generated.scrunchRrrSelect :=
  ⟨Blue.Rrr.construct_word bits, Blue.Rrr.construct_select bits⟩

/-- `SA::construct*(6, …)` in `PsiDocument::construct` (all call sites agree) -/
theorem scrunch_sa_sampling : Blue.Sampled.saSampling = Blue.Generated.scrunchSaSampling := by decide

/-- the branch factors of the three `from_indices` call sites the index model abstracts -/
theorem scrunch_branches : Blue.Sampled.presentBranch = Blue.Generated.scrunchSampledArrayBranch
    ∧ Blue.Sigma.columnsBranch = Blue.Generated.scrunchSigmaBranch
    ∧ Blue.Sampled.boundaryBranch = Blue.Generated.scrunchBoundaryBranch
    ∧ Blue.BvSparse.constructBranch = Blue.Generated.scrunchSparseConstructBranch := by decide

/-- the branch factors `from_indices` admits (`!(4..256).contains(&branch)` is refused) -/
theorem scrunch_sparse_branch_bounds (branch len : Nat) (I : List Nat) :
    Blue.Generated.scrunchSparseBranchBounds = [4, 256]
    ∧ ((Blue.BvSparse.build branch len I).isSome ↔
        (4 ≤ branch ∧ branch < 256) ∧ (I = [] ∨ (I.getLastD 0 ≤ len ∧ Blue.BvSparse.Sorted I))) :=
  ⟨by decide, Blue.BvSparse.build_isSome_iff branch len I⟩

/-- `DENSE_COUNT_LIMIT` and the initial length of `dense_counts` in `Sigma::construct` -/
theorem scrunch_sigma_dense : [Blue.Sigma.denseLimit, Blue.Sigma.denseInit]
    = [Blue.Generated.scrunchSigmaDenseLimits.getD 0 0, Blue.Generated.scrunchSigmaDenseLimits.getD 2 0] := by decide

end Blue.ConstsTie
