import Blue.Generated.Consts
import Blue.Model.BitVecCf
/-! Constants of `scrunch` regenerated from the Rust source, tied to the model (C19).  Kept apart
    from the other properties' ties so that an edit to these constants breaks only C19's proof
    obligations. -/
namespace Blue.ConstsTie

/-- `PARAM_WORDS_PER_BLOCK` of `scrunch/src/bit_vector/cf_rrr.rs` -/
theorem scrunch_cf_rrr_block : Blue.BitVec.cfWordsPerBlock = Blue.Generated.scrunchCfRrrWordsPerBlock := by decide

end Blue.ConstsTie
