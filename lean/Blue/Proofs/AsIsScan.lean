import Blue.Model.PruningC
import Blue.Model.MergingC
/-! **D-1 as a theorem**: `Version::range_scan` as written wraps every component in its own pruning
    cursor before merging.  A tombstone in a newer component is dropped there, and the older
    value under it comes back. -/
namespace Blue.Cursor

/-- versions `(key, timestamp, isTombstone)` -/
abbrev V := Nat × Nat × Bool

def vLess (a b : V) : Bool := decide (a.1 < b.1) || (decide (a.1 = b.1) && decide (b.2.1 < a.2.1))

def pcfgAt (t : Nat) : PruneCfg V Nat where
  key := fun e => e.1
  tsOk := fun e => decide (e.2.1 ≤ t)
  tomb := fun e => e.2.2

/-- the composition as written: prune each component, merge, prune again -/
def scanAsIs (t : Nat) (tables : List (List V)) : Option V :=
  let inner := PruningC.cur (RefCur V) (pcfgAt t) 10
  let comps : List inner.σ := tables.map (fun xs => PruningC.new (RefCur V) ⟨xs, 0⟩)
  let merged := MergingC.cur inner vLess
  let outer := PruningC.cur merged (pcfgAt t) 10
  let s0 : outer.σ := PruningC.new merged (MergingC.new inner vLess comps)
  outer.kv (outer.next s0)

/-- the composition as repaired: merge the raw components, prune once -/
def scanFixed (t : Nat) (tables : List (List V)) : Option V :=
  let merged := MergingC.cur (RefCur V) vLess
  let outer := PruningC.cur merged (pcfgAt t) 10
  let s0 : outer.σ := PruningC.new merged (MergingC.new (RefCur V) vLess (tables.map (fun xs => ⟨xs, 0⟩)))
  outer.kv (outer.next s0)

/-- key 7 was written at 1 and deleted at 2 (in a newer component); a scan at timestamp 5 still
    shows the value with the code as written, and nothing once the inner pruning is removed -/
theorem scan_resurrects_deleted_key :
    scanAsIs 5 [[(7, 2, true)], [(7, 1, false)]] = some (7, 1, false)
      ∧ scanFixed 5 [[(7, 2, true)], [(7, 1, false)]] = none := by
  decide +kernel

end Blue.Cursor

#print axioms Blue.Cursor.scan_resurrects_deleted_key
