import Blue.Proofs.BooksBytes
import Blue.Proofs.ManiReopen
import Blue.Proofs.ManiApi
import Blue.Proofs.ManiAlgebra
/-! **C04 ∘ C13, the rollover interrupted by a crash**: the books at every crash point INSIDE the
    system calls of a manifest rollover (`link`, `unlink tmp`, `write tmp`, `sync tmp`, `rename`),
    both persistence models, and after the reopen that finishes the interrupted rollover; and the
    general form of "C13's `rollup` of the replayed state is `bookedEdit` of `rollRec`". -/
namespace Blue.BooksRollCrash
open Blue.Books Blue.Mani Blue.ManiCrash Blue.BooksCrash Blue.BooksBytes

/-! ### the system calls of a rollover, cut anywhere -/

section sys
variable {St E : Type}

/-- the five calls of `Manifest::rollover` writing the roll-up `roll` -/
def rollBlock (roll : E) : List (Op E) := [.linkBackup, .tmpClear, .tmpWrite roll, .tmpSync, .rename]

theorem run_acks (fs : Fs E) : ∀ rest : List (Op E), (∀ o ∈ rest, o = Op.ack) → run fs rest = fs
  | [], _ => rfl
  | o :: rest, h => by
    have ho : o = Op.ack := h o (List.mem_cons_self ..)
    subst ho
    show run (step fs .ack) rest = fs
    exact run_acks fs rest (fun o ho => h o (List.mem_cons_of_mem _ ho))

/-- MANIFEST at a crash inside (or after) a rollover block, both models: before the rename it is
    the old file, whole; from the rename on it is the roll-up alone -/
theorem rollBlock_crash (fs1 : Fs E) (hp : fs1.mani.pending = []) (roll : E) (rest : List (Op E))
    (hrest : ∀ o ∈ rest, o = Op.ack) (j : Nat) (b : Bool) :
    (j < 5 ∧ (crash b (run fs1 ((rollBlock roll ++ rest).take j))).mani = ⟨fs1.mani.durable, []⟩)
    ∨ (5 ≤ j ∧ (crash b (run fs1 ((rollBlock roll ++ rest).take j))).mani = ⟨[roll], []⟩) := by
  obtain ⟨⟨d, p⟩, tmp, backups, linked⟩ := fs1
  simp only at hp
  subst hp
  rcases j with _ | _ | _ | _ | _ | j
  · left; refine ⟨by omega, ?_⟩; cases b <;> simp [rollBlock, run, crash, crashA, crashB]
  · left; refine ⟨by omega, ?_⟩; cases b <;> simp [rollBlock, run, step, crash, crashA, crashB]
  · left; refine ⟨by omega, ?_⟩; cases b <;> simp [rollBlock, run, step, crash, crashA, crashB]
  · left; refine ⟨by omega, ?_⟩; cases b <;> simp [rollBlock, run, step, crash, crashA, crashB]
  · left; refine ⟨by omega, ?_⟩; cases b <;> simp [rollBlock, run, step, crash, crashA, crashB]
  · right
    refine ⟨by omega, ?_⟩
    have ht : (rollBlock roll ++ rest).take (j + 1 + 1 + 1 + 1 + 1) = rollBlock roll ++ rest.take j := by
      simp [rollBlock]
    rw [ht, run_append, run_acks _ _ (fun o ho => hrest o (List.mem_of_mem_take ho))]
    cases b <;> simp [rollBlock, run, step, crash, crashA, crashB]

/-- the reopen's rollover (D-13 repaired: finishing an interrupted one), completed: MANIFEST is the
    roll-up of what it held -/
theorem reopen_completed (A : Algebra St E) (g : Fs E) (hp : g.mani.pending = []) :
    (run g (reopenOps A g)).mani = ⟨[A.rollup (replay A g.mani.durable)], []⟩ := by
  obtain ⟨⟨d, p⟩, tmp, backups, linked⟩ := g
  simp only at hp
  subst hp
  cases linked <;> simp [reopenOps, run, step]

theorem opsOf_edits_append (A : Algebra St E) : ∀ (es : List E) (cs : List (Client E)) (sofar : List E),
    opsOf A (es.map Client.edit ++ cs) sofar = opsOf A (es.map Client.edit) sofar ++ opsOf A cs (sofar ++ es)
  | [], cs, sofar => by simp [opsOf]
  | e :: es, cs, sofar => by
    show block A sofar (.edit e) ++ opsOf A (es.map Client.edit ++ cs) (sofar ++ [e]) = _
    rw [opsOf_edits_append A es cs]
    simp [opsOf, sofarAfter, List.append_assoc]

theorem length_edits (A : Algebra St E) : ∀ (es : List E) (sofar : List E),
    (opsOf A (es.map Client.edit) sofar).length = 3 * es.length
  | [], _ => rfl
  | e :: es, sofar => by
    show (block A sofar (.edit e) ++ opsOf A (es.map Client.edit) (sofar ++ [e])).length = _
    rw [List.length_append, length_edits A es]
    simp [block]; omega

theorem run_edits (A : Algebra St E) : ∀ (es : List E) (sofar : List E) (fs : Fs E), fs.mani.pending = [] →
    run fs (opsOf A (es.map Client.edit) sofar) = { fs with mani := ⟨fs.mani.durable ++ es, []⟩ }
  | [], _, fs, hp => by
    obtain ⟨⟨d, p⟩, tmp, backups, linked⟩ := fs
    simp only at hp
    subst hp
    simp [opsOf, run]
  | e :: es, sofar, fs, hp => by
    obtain ⟨⟨d, p⟩, tmp, backups, linked⟩ := fs
    simp only at hp
    subst hp
    show run _ (block A sofar (.edit e) ++ opsOf A (es.map Client.edit) (sofar ++ [e])) = _
    rw [run_append]
    have h1 : run ({ mani := ⟨d, []⟩, tmp := tmp, backups := backups, linked := linked } : Fs E) (block A sofar (.edit e))
        = { mani := ⟨d ++ [e], []⟩, tmp := tmp, backups := backups, linked := linked } := by
      simp [block, run, step]
    rw [h1, run_edits A es _ _ rfl]
    simp [List.append_assoc]

end sys

/-! ### (1) C13's `rollup` of the replayed booked manifest IS the booked edit of `rollRec` -/

section rollup
variable {G : Type}

theorem mem_insertStr_iff {x z : List Nat} : ∀ {l : List (List Nat)}, z ∈ insertStr x l ↔ z = x ∨ z ∈ l
  | [] => by simp [insertStr]
  | y :: t => by
    unfold insertStr
    split
    · rename_i hxy; subst hxy; simp
    · split
      · simp
      · simp only [List.mem_cons, mem_insertStr_iff (l := t)]
        constructor
        · rintro (h | h | h)
          · exact Or.inr (Or.inl h)
          · exact Or.inl h
          · exact Or.inr (Or.inr h)
        · rintro (h | h | h)
          · exact Or.inr (Or.inl h)
          · exact Or.inl h
          · exact Or.inr (Or.inr h)

theorem mem_foldl_insertStr {z : List Nat} : ∀ (xs acc : List (List Nat)),
    z ∈ xs.foldl (fun acc x => insertStr x acc) acc ↔ z ∈ acc ∨ z ∈ xs
  | [], acc => by simp
  | x :: xs, acc => by
    show z ∈ xs.foldl (fun acc x => insertStr x acc) (insertStr x acc) ↔ _
    rw [mem_foldl_insertStr xs, mem_insertStr_iff, List.mem_cons]
    constructor
    · rintro ((h | h) | h)
      · exact Or.inr (Or.inl h)
      · exact Or.inl h
      · exact Or.inr (Or.inr h)
    · rintro (h | h | h)
      · exact Or.inl (Or.inr h)
      · exact Or.inl (Or.inl h)
      · exact Or.inr h

/-- the strings `apply_edit` leaves: those not removed, and those added -/
theorem mem_applyEdit_strs (st : State) (e : Edit) (z : List Nat) :
    z ∈ (applyEdit st e).strs ↔ (z ∈ st.strs ∧ z ∉ e.rm) ∨ z ∈ e.add := by
  unfold applyEdit
  simp only [mem_foldl_insertStr, List.mem_filter, Bool.not_eq_true', List.contains_eq_mem,
    decide_eq_false_iff_not]

/-- the info map after a booked edit: `D`, `I`, `O` of that edit, whatever booked edits came before -/
theorem info_applyEdit_booked (c : Codec G) (st : State) (r : Rec G G)
    (hi : st.info = [] ∨ ∃ d i o, st.info = [(68, d), (73, i), (79, o)]) :
    (applyEdit st (bookedEdit c r)).info = [(68, c.render r.D), (73, c.render r.I), (79, c.render r.O)] := by
  rcases hi with hi | ⟨d, i, o, hi⟩ <;> simp [applyEdit, bookedEdit, hi, setInfo]

theorem inj_of_nodup_map {α β : Type} (f : α → β) : ∀ (l : List α), (l.map f).Nodup →
    ∀ a ∈ l, ∀ b ∈ l, f a = f b → a = b
  | [], _, a, ha, _, _, _ => nomatch ha
  | x :: t, hn, a, ha, b, hb, hab => by
    rw [List.map_cons, List.nodup_cons] at hn
    rcases List.mem_cons.mp ha with hax | ha' <;> rcases List.mem_cons.mp hb with hbx | hb'
    · rw [hax, hbx]
    · exact absurd (by rw [← hax, hab]; exact List.mem_map_of_mem hb') hn.1
    · exact absurd (by rw [← hbx, ← hab]; exact List.mem_map_of_mem ha') hn.1
    · exact inj_of_nodup_map f t hn.2 a ha' b hb' hab

variable [DecidableEq G] (g : Grp G) (h : Nat → G) (c : Codec G)

omit [DecidableEq G] in
/-- the manifest state after the booked edits of `M` started with the tree holding `files`: its
    strings are exactly the rendered digests of the files then live -/
theorem strs_replay_booked (hc : c.Ok) : ∀ (M : List StoreCrash.Tx) (files : List StoreCrash.Name) (st : State),
    (∀ z, z ∈ st.strs ↔ z ∈ files.map (fun f => c.render (digest g h f))) →
    GoodTxs files M →
    (∀ k, (((M.take k).foldl StoreCrash.applyTx files).map (digest g h)).Nodup) →
    ∀ z, z ∈ ((((booked g h files M).map (digestRec (digest g h))).map (bookedEdit c)).foldl applyEdit st).strs
      ↔ z ∈ (M.foldl StoreCrash.applyTx files).map (fun f => c.render (digest g h f))
  | [], _, _, hst, _, _ => hst
  | tx :: M, files, st, hst, hgood, hnd => by
    show ∀ z, z ∈ ((((booked g h (StoreCrash.applyTx files tx) M).map (digestRec (digest g h))).map (bookedEdit c)).foldl
      applyEdit (applyEdit st (bookedEdit c (digestRec (digest g h) (storeRec g (digest g h) files tx.rms tx.adds))))).strs ↔ _
    apply strs_replay_booked hc M (StoreCrash.applyTx files tx) _ _ hgood.2
    · intro k; exact hnd (k + 1)
    · intro z
      have hinj := inj_of_nodup_map (digest g h) files (hnd 0)
      have hrinj : ∀ x y, c.render x = c.render y → x = y := by
        intro x y hxy
        have := hc.parse_render x
        rw [hxy, hc.parse_render y] at this
        exact (Option.some.inj this).symm
      have hrm : ∀ r ∈ tx.rms, r ∈ files := by
        intro r hr
        have : r ∈ files.filter (fun f => decide (f ∈ tx.rms)) := (hgood.1.mem_iff).mpr hr
        exact (List.mem_filter.mp this).1
      rw [mem_applyEdit_strs, hst]
      simp only [bookedEdit, digestRec, storeRec, StoreCrash.applyTx, List.map_map, List.mem_map, List.map_append,
        List.mem_append, List.mem_filter, Function.comp, decide_eq_true_eq]
      constructor
      · rintro (⟨⟨f, hf, rfl⟩, hnot⟩ | ⟨a, ha, rfl⟩)
        · left
          refine ⟨f, ⟨hf, ?_⟩, rfl⟩
          intro hfr
          exact hnot ⟨f, hfr, rfl⟩
        · right; exact ⟨a, ha, rfl⟩
      · rintro (⟨f, ⟨hf, hnr⟩, rfl⟩ | ⟨a, ha, rfl⟩)
        · left
          refine ⟨⟨f, hf, rfl⟩, ?_⟩
          rintro ⟨r, hr, hrf⟩
          have : r = f := hinj r (hrm r hr) f hf (hrinj _ _ hrf)
          exact hnr (this ▸ hr)
        · right; exact ⟨a, ha, rfl⟩

omit [DecidableEq G] in
theorem info_replay_booked : ∀ (recs : List (Rec G G)) (st : State),
    (st.info = [] ∨ ∃ d i o, st.info = [(68, d), (73, i), (79, o)]) →
    (((recs.map (bookedEdit c)).foldl applyEdit st).info = []
      ∨ ∃ d i o, ((recs.map (bookedEdit c)).foldl applyEdit st).info = [(68, d), (73, i), (79, o)])
  | [], _, hi => hi
  | r :: recs, st, hi => by
    show ((recs.map (bookedEdit c)).foldl applyEdit (applyEdit st (bookedEdit c r))).info = [] ∨ _
    exact info_replay_booked recs _ (Or.inr ⟨_, _, _, info_applyEdit_booked c st r hi⟩)

theorem exists_snoc {α : Type} : ∀ l : List α, l ≠ [] → ∃ l0 x, l = l0 ++ [x]
  | [], hne => absurd rfl hne
  | [x], _ => ⟨[], x, rfl⟩
  | x :: y :: t, _ => by
    obtain ⟨l0, z, hz⟩ := exists_snoc (y :: t) (by simp)
    exact ⟨x :: l0, z, by rw [hz]; rfl⟩

omit [DecidableEq G] in
theorem exists_rendered : ∀ l : List (List Nat), (∀ s ∈ l, ∃ x, c.render x = s) → ∃ ad : List G, ad.map c.render = l
  | [], _ => ⟨[], rfl⟩
  | s :: l, hl => by
    obtain ⟨x, hx⟩ := hl s (List.mem_cons_self ..)
    obtain ⟨ad, had⟩ := exists_rendered l (fun s hs => hl s (List.mem_cons_of_mem _ hs))
    exact ⟨x :: ad, by rw [List.map_cons, hx, had]⟩

omit [DecidableEq G] in
/-- **`rollup_is_booked_rollrec`**: for every non-empty good booked manifest `M` whose live files
    have pairwise distinct digests at every prefix (what makes the `BTreeSet<String>` of rendered
    digests a faithful picture of the file list: two live files with one digest are one string, and
    removing one removes both), the edit C13's `rollover` writes — `to_edit` of the state the booked
    edits replay to — IS the booked edit of a record with `rollRec`'s `I`, `O`, `D` (the last
    transaction's), no removal, and an added list that is a permutation of the live files' digests
    (the set's `String` order instead of the tree's order). -/
theorem rollup_is_booked_rollrec (hc : c.Ok) (M : List StoreCrash.Tx) (hne : M ≠ []) (hgood : GoodTxs [] M)
    (hnd : ∀ k, ((StoreCrash.live (M.take k)).map (digest g h)).Nodup) :
    let R := rollRec g.zero (booked g h [] M) (StoreCrash.live M)
    ∃ ad : List G, ad.Perm ((StoreCrash.live M).map (digest g h))
      ∧ maniAlgebra.rollup (replay maniAlgebra (maniEdits g h c M)) = bookedEdit c ⟨R.I, R.O, R.D, [], ad⟩ := by
  intro R
  have hrinj : ∀ x y, c.render x = c.render y → x = y := by
    intro x y hxy
    have := hc.parse_render x
    rw [hxy, hc.parse_render y] at this
    exact (Option.some.inj this).symm
  -- the strings
  have hstrs : ∀ z, z ∈ (replay maniAlgebra (maniEdits g h c M)).strs
      ↔ z ∈ (StoreCrash.live M).map (fun f => c.render (digest g h f)) :=
    strs_replay_booked g h c hc M [] ⟨[], []⟩ (fun z => by simp) hgood hnd
  have hwf : Wf (replay maniAlgebra (maniEdits g h c M)) := replay_wf _ _ ⟨List.Pairwise.nil, List.Pairwise.nil⟩
  have hsn : (replay maniAlgebra (maniEdits g h c M)).strs.Nodup :=
    hwf.1.imp (fun {a b} hab heq => by rw [heq, ltBytes_irrefl] at hab; exact Bool.noConfusion hab)
  obtain ⟨ad, had⟩ := exists_rendered c (replay maniAlgebra (maniEdits g h c M)).strs (fun s hs => by
    obtain ⟨f, _, hf⟩ := List.mem_map.mp ((hstrs s).mp hs)
    exact ⟨_, hf⟩)
  have hadn : ad.Nodup := by
    rw [← had] at hsn
    exact (List.pairwise_map.mp hsn).imp (fun {a b} hab heq => hab (by rw [heq]))
  have hln : ((StoreCrash.live M).map (digest g h)).Nodup := by
    have := hnd M.length
    rwa [List.take_length] at this
  have hperm : ad.Perm ((StoreCrash.live M).map (digest g h)) := by
    rw [List.perm_ext_iff_of_nodup hadn hln]
    intro a
    constructor
    · intro ha
      have : c.render a ∈ (replay maniAlgebra (maniEdits g h c M)).strs := by
        rw [← had]; exact List.mem_map_of_mem ha
      obtain ⟨f, hf, hfa⟩ := List.mem_map.mp ((hstrs _).mp this)
      rw [← hrinj _ _ hfa]
      exact List.mem_map_of_mem hf
    · intro ha
      obtain ⟨f, hf, hfa⟩ := List.mem_map.mp ha
      have : c.render a ∈ (replay maniAlgebra (maniEdits g h c M)).strs := by
        rw [hstrs]
        exact List.mem_map.mpr ⟨f, hf, by rw [hfa]⟩
      rw [← had] at this
      obtain ⟨a', ha', haa⟩ := List.mem_map.mp this
      rw [← hrinj _ _ haa]
      exact ha'
  -- the info map
  obtain ⟨M0, tx, hM⟩ := exists_snoc M hne
  have hrecs : booked g h [] M = booked g h [] M0 ++ [storeRec g (digest g h) (StoreCrash.live M0) tx.rms tx.adds] := by
    rw [hM, booked_append]; rfl
  have hl : lastIOD g.zero (booked g h [] M) = ((storeRec g (digest g h) (StoreCrash.live M0) tx.rms tx.adds).I,
      (storeRec g (digest g h) (StoreCrash.live M0) tx.rms tx.adds).O,
      (storeRec g (digest g h) (StoreCrash.live M0) tx.rms tx.adds).D) := by
    rw [hrecs]; exact lastIOD_snoc g.zero _ _
  have hinfo : (replay maniAlgebra (maniEdits g h c M)).info = [(68, c.render R.D), (73, c.render R.I), (79, c.render R.O)] := by
    have hes : maniEdits g h c M = maniEdits g h c M0
        ++ [bookedEdit c (digestRec (digest g h) (storeRec g (digest g h) (StoreCrash.live M0) tx.rms tx.adds))] := by
      unfold maniEdits maniRecs
      rw [hrecs, List.map_append, List.map_append]; rfl
    rw [hes, replay_snoc]
    show (applyEdit _ _).info = _
    have hform : (replay maniAlgebra (maniEdits g h c M0)).info = []
        ∨ ∃ d i o, (replay maniAlgebra (maniEdits g h c M0)).info = [(68, d), (73, i), (79, o)] :=
      info_replay_booked c (maniRecs g h M0) ⟨[], []⟩ (Or.inl rfl)
    rw [info_applyEdit_booked c _ _ hform]
    show _ = [(68, c.render (lastIOD g.zero (booked g h [] M)).2.2), (73, c.render (lastIOD g.zero (booked g h [] M)).1),
      (79, c.render (lastIOD g.zero (booked g h [] M)).2.1)]
    rw [hl]; rfl
  refine ⟨ad, hperm, ?_⟩
  show (⟨[], (replay maniAlgebra (maniEdits g h c M)).strs, (replay maniAlgebra (maniEdits g h c M)).info⟩ : Edit) = _
  rw [hinfo, ← had]
  rfl

end rollup

/-! ### (2) the books at every crash point inside a rollover -/

section sys2
variable {St E : Type}

/-- the directory before anything is written -/
def fs0 : Fs E := { mani := ⟨[], []⟩, tmp := none, backups := [] }

/-- `apply` calls `es`, then `Manifest::rollover`, cut at call `n` inside or after the rollover -/
theorem rollover_cut (A : Algebra St E) (es : List E) (n : Nat) (hn : 3 * es.length ≤ n) (b : Bool) :
    let fs := crash b (run (fs0 : Fs E) ((opsOf A (es.map Client.edit ++ [Client.rollover]) []).take n))
    (n < 3 * es.length + 5 ∧ fs.mani = ⟨es, []⟩)
    ∨ (3 * es.length + 5 ≤ n ∧ fs.mani = ⟨[A.rollup (replay A es)], []⟩) := by
  intro fs
  have hops : opsOf A (es.map Client.edit ++ [Client.rollover]) []
      = opsOf A (es.map Client.edit) [] ++ (rollBlock (A.rollup (replay A es)) ++ []) := by
    rw [opsOf_edits_append]
    simp [opsOf, block, rollBlock]
  have hfs : fs = crash b (run ({ mani := ⟨es, []⟩, tmp := none, backups := [] } : Fs E)
      ((rollBlock (A.rollup (replay A es)) ++ []).take (n - 3 * es.length))) := by
    show crash b _ = _
    rw [hops, List.take_append, length_edits, List.take_of_length_le (by rw [length_edits]; exact hn), run_append,
      run_edits A es [] fs0 rfl]
    simp [fs0]
  rw [hfs]
  rcases rollBlock_crash ({ mani := ⟨es, []⟩, tmp := none, backups := [] } : Fs E) rfl (A.rollup (replay A es)) []
    (fun _ h => nomatch h) (n - 3 * es.length) b with ⟨h1, h2⟩ | ⟨h1, h2⟩
  · exact Or.inl ⟨by omega, h2⟩
  · exact Or.inr ⟨by omega, h2⟩

/-- `apply` calls `es0`, then the `apply` of `e` that crosses the ratio and rolls over before it
    returns (`editRoll`: append, sync, the five calls, acknowledgement), cut inside or after the rollover -/
theorem editRoll_cut (A : Algebra St E) (es0 : List E) (e : E) (n : Nat) (hn : 3 * es0.length + 2 ≤ n) (b : Bool) :
    let fs := crash b (run (fs0 : Fs E) ((opsOf A (es0.map Client.edit ++ [Client.editRoll e]) []).take n))
    (n < 3 * es0.length + 7 ∧ fs.mani = ⟨es0 ++ [e], []⟩)
    ∨ (3 * es0.length + 7 ≤ n ∧ fs.mani = ⟨[A.rollup (replay A (es0 ++ [e]))], []⟩) := by
  intro fs
  have hops : opsOf A (es0.map Client.edit ++ [Client.editRoll e]) []
      = (opsOf A (es0.map Client.edit) [] ++ [.append e, .sync])
        ++ (rollBlock (A.rollup (replay A (es0 ++ [e]))) ++ [Op.ack]) := by
    rw [opsOf_edits_append]
    simp [opsOf, block, rollBlock]
  have hlen : (opsOf A (es0.map Client.edit) [] ++ [Op.append e, Op.sync]).length = 3 * es0.length + 2 := by
    rw [List.length_append, length_edits]; rfl
  have hfs : fs = crash b (run ({ mani := ⟨es0 ++ [e], []⟩, tmp := none, backups := [] } : Fs E)
      ((rollBlock (A.rollup (replay A (es0 ++ [e]))) ++ [Op.ack]).take (n - (3 * es0.length + 2)))) := by
    show crash b _ = _
    rw [hops, List.take_append, hlen, List.take_of_length_le (by rw [hlen]; exact hn), run_append, run_append,
      run_edits A es0 [] fs0 rfl]
    simp [fs0, run, step]
  rw [hfs]
  rcases rollBlock_crash ({ mani := ⟨es0 ++ [e], []⟩, tmp := none, backups := [] } : Fs E) rfl
    (A.rollup (replay A (es0 ++ [e]))) [Op.ack] (fun o h => by simpa using h) (n - (3 * es0.length + 2)) b
    with ⟨h1, h2⟩ | ⟨h1, h2⟩
  · exact Or.inl ⟨by omega, h2⟩
  · exact Or.inr ⟨by omega, h2⟩

end sys2

section books
variable {G : Type} [DecidableEq G] (g : Grp G) (h : Nat → G) (c : Codec G)

/-- MANIFEST holds the OLD fragment: the booked edits of `M`, whole — they parse to the booked
    records, `Books.verify` accepts them from zero, and the last `O` is the sum over the live files -/
def OldBooks (M : List StoreCrash.Tx) (d : List Edit) : Prop :=
  d = maniEdits g h c M
  ∧ recsOfEdits c d = some (maniRecs g h M)
  ∧ verify g id g.zero (maniRecs g h M) = true
  ∧ lastO g.zero (maniRecs g h M) = total g (digest g h) (StoreCrash.live M)

/-- MANIFEST holds the NEW fragment: the roll-up alone — it parses to one record, `rollRec` up to
    the order of its added list; `verify_one`'s first-record rule accepts it from the accumulator
    the old fragment leaves; its `O` is the sum over the live files, and is the sum of the digests
    it adds (`from_manifest` on it succeeds) -/
def NewBooks (M : List StoreCrash.Tx) (d : List Edit) : Prop :=
  d = [maniAlgebra.rollup (replay maniAlgebra (maniEdits g h c M))]
  ∧ ∃ R' : Rec G G, recsOfEdits c d = some [R']
    ∧ SameUpToOrder [R'] [digestRec (digest g h) (rollRec g.zero (booked g h [] M) (StoreCrash.live M))]
    ∧ verifyFrag g id (lastO g.zero (booked g h [] M)) [R'] = true
    ∧ lastO (lastO g.zero (booked g h [] M)) [R'] = total g (digest g h) (StoreCrash.live M)
    ∧ lastO g.zero (booked g h [] M) = total g id R'.ad

omit [DecidableEq G] in
theorem length_maniEdits (M : List StoreCrash.Tx) : (maniEdits g h c M).length = M.length := by
  have : ∀ (M : List StoreCrash.Tx) (fl : List StoreCrash.Name), (booked g h fl M).length = M.length := by
    intro M
    induction M with
    | nil => intro _; rfl
    | cons tx M ih => intro fl; show (booked g h _ M).length + 1 = M.length + 1; rw [ih]
  unfold maniEdits maniRecs
  rw [List.length_map, List.length_map, this]

theorem oldBooks (hc : c.Ok) (M : List StoreCrash.Tx) (hgood : GoodTxs [] M) : OldBooks g h c M (maniEdits g h c M) := by
  obtain ⟨v, l⟩ := maniRecs_ok g h M hgood
  exact ⟨rfl, recsOfEdits_map c hc _, v, l⟩

theorem newBooks (hc : c.Ok) (M : List StoreCrash.Tx) (hne : M ≠ []) (hgood : GoodTxs [] M)
    (hnd : ∀ k, ((StoreCrash.live (M.take k)).map (digest g h)).Nodup) :
    NewBooks g h c M [maniAlgebra.rollup (replay maniAlgebra (maniEdits g h c M))] := by
  obtain ⟨ad, hperm, hroll⟩ := rollup_is_booked_rollrec g h c hc M hne hgood hnd
  obtain ⟨_, l1⟩ := booked_ok g h M [] hgood
  have hRO : (rollRec g.zero (booked g h [] M) (StoreCrash.live M)).O = lastO g.zero (booked g h [] M) :=
    lastIOD_O g.zero _
  refine ⟨rfl, ⟨(rollRec g.zero (booked g h [] M) (StoreCrash.live M)).I,
    (rollRec g.zero (booked g h [] M) (StoreCrash.live M)).O,
    (rollRec g.zero (booked g h [] M) (StoreCrash.live M)).D, [], ad⟩, ?_, ?_, ?_, ?_, ?_⟩
  · rw [hroll]
    simp only [recsOfEdits, booked_edit_roundtrip c hc]
  · exact ⟨⟨rfl, rfl, rfl, List.Perm.refl _, hperm⟩, trivial⟩
  · show (decide ((rollRec g.zero (booked g h [] M) (StoreCrash.live M)).O = _) && true) = true
    rw [hRO]; simp
  · show (rollRec g.zero (booked g h [] M) (StoreCrash.live M)).O = _
    rw [hRO]; exact l1
  · show _ = total g id ad
    rw [total_perm g id hperm, total_map]; exact l1

/-- the books of a directory whose MANIFEST is the old fragment or the roll-up: what `Manifest::open`
    reads from its bytes, what the records say, and the same after the reopen's own rollover (which
    finishes an interrupted one) has completed -/
theorem books_of_rollover_image (crc : List Nat → Nat) (hcrc : CrcOk crc) (hc : c.Ok) (M : List StoreCrash.Tx)
    (hne : M ≠ []) (hgood : GoodTxs [] M) (hnd : ∀ k, ((StoreCrash.live (M.take k)).map (digest g h)).Nodup)
    (fs : Fs Edit)
    (hm : fs.mani = ⟨maniEdits g h c M, []⟩
      ∨ fs.mani = ⟨[maniAlgebra.rollup (replay maniAlgebra (maniEdits g h c M))], []⟩) :
    openBytes crc (fileBytes crc fs.mani.durable) = some (replay maniAlgebra (maniEdits g h c M))
    ∧ (fs.mani.durable = maniEdits g h c M → OldBooks g h c M fs.mani.durable)
    ∧ (fs.mani.durable ≠ maniEdits g h c M → NewBooks g h c M fs.mani.durable)
    ∧ openBytes crc (fileBytes crc (run fs (reopenOps maniAlgebra fs)).mani.durable)
        = some (replay maniAlgebra (maniEdits g h c M))
    ∧ NewBooks g h c M (run fs (reopenOps maniAlgebra fs)).mani.durable := by
  have hok : ∀ e ∈ maniEdits g h c M, e.Ok := by
    intro e he
    obtain ⟨r, _, rfl⟩ := List.mem_map.mp he
    exact bookedEdit_ok c hc r
  have hrok : ∀ e ∈ [maniAlgebra.rollup (replay maniAlgebra (maniEdits g h c M))], e.Ok := by
    intro e he
    rw [List.mem_singleton.mp he]
    exact rollup_ok _ hok
  have hlaw : replay maniAlgebra [maniAlgebra.rollup (replay maniAlgebra (maniEdits g h c M))]
      = replay maniAlgebra (maniEdits g h c M) := maniAlgebra_lawful _
  have hnew := newBooks g h c hc M hne hgood hnd
  have hold := oldBooks g h c hc M hgood
  have hp : fs.mani.pending = [] := by rcases hm with hm | hm <;> rw [hm]
  have hre := reopen_completed maniAlgebra fs hp
  have hre' : (run fs (reopenOps maniAlgebra fs)).mani.durable
      = [maniAlgebra.rollup (replay maniAlgebra (maniEdits g h c M))] := by
    rw [hre]
    rcases hm with hm | hm <;> rw [hm]
    show [maniAlgebra.rollup (replay maniAlgebra [_])] = _
    rw [hlaw]
  refine ⟨?_, ?_, ?_, ?_, ?_⟩
  · rcases hm with hm | hm <;> rw [hm]
    · exact openBytes_fileBytes crc hcrc _ hok
    · show openBytes crc (fileBytes crc [_]) = _
      rw [openBytes_fileBytes crc hcrc _ hrok, hlaw]
  · intro hd; rw [hd]; exact hold
  · intro hd
    rcases hm with hm | hm
    · exact absurd (by rw [hm]) hd
    · rw [hm]; exact hnew
  · rw [hre', openBytes_fileBytes crc hcrc _ hrok, hlaw]
  · rw [hre']; exact hnew

/-- **`books_at_every_crash_point_of_a_rollover`**: the booked history of the good transactions `M`
    (one `apply` per transaction), then `Manifest::rollover`; a crash at any call `n` from the
    rollover's first (`link`) on, both persistence models `b`.  Before the rename MANIFEST is the old
    fragment, from the rename on the roll-up alone (the temporary is synced before it is renamed:
    never a torn roll-up); `Manifest::open` reads either from its bytes to the state of all of `M`;
    the records are `OldBooks` / `NewBooks`; and after the reopen's rollover completes — finishing
    the interrupted one — MANIFEST is the roll-up, `NewBooks`. -/
theorem books_at_every_crash_point_of_a_rollover (crc : List Nat → Nat) (hcrc : CrcOk crc) (hc : c.Ok)
    (M : List StoreCrash.Tx) (hne : M ≠ []) (hgood : GoodTxs [] M)
    (hnd : ∀ k, ((StoreCrash.live (M.take k)).map (digest g h)).Nodup)
    (n : Nat) (hn : 3 * M.length ≤ n) (b : Bool) :
    let es := maniEdits g h c M
    let fs := crash b (run emptyFs ((opsOf maniAlgebra (es.map Client.edit ++ [Client.rollover]) []).take n))
    let fs' := run fs (reopenOps maniAlgebra fs)
    ((n < 3 * M.length + 5 ∧ OldBooks g h c M fs.mani.durable)
      ∨ (3 * M.length + 5 ≤ n ∧ NewBooks g h c M fs.mani.durable))
    ∧ openBytes crc (fileBytes crc fs.mani.durable) = some (replay maniAlgebra es)
    ∧ openBytes crc (fileBytes crc fs'.mani.durable) = some (replay maniAlgebra es)
    ∧ NewBooks g h c M fs'.mani.durable := by
  intro es fs fs'
  have hcut := rollover_cut maniAlgebra es n (by rw [length_maniEdits]; exact hn) b
  rw [length_maniEdits] at hcut
  have hm : fs.mani = ⟨es, []⟩ ∨ fs.mani = ⟨[maniAlgebra.rollup (replay maniAlgebra es)], []⟩ := by
    rcases hcut with ⟨_, h2⟩ | ⟨_, h2⟩
    · exact Or.inl h2
    · exact Or.inr h2
  obtain ⟨h1, _, _, h4, h5⟩ := books_of_rollover_image g h c crc hcrc hc M hne hgood hnd fs hm
  refine ⟨?_, h1, h4, h5⟩
  rcases hcut with ⟨hlt, h2⟩ | ⟨hge, h2⟩
  · left
    refine ⟨hlt, ?_⟩
    have h2' : fs.mani = _ := h2
    rw [h2']; exact oldBooks g h c hc M hgood
  · right
    refine ⟨hge, ?_⟩
    have h2' : fs.mani = _ := h2
    rw [h2']; exact newBooks g h c hc M hne hgood hnd

/-- … the rollover inside the `apply` that crossed the ratio (`editRoll`: the last transaction's
    append and sync, the five calls, then the acknowledgement): crash points from the `link` on -/
theorem books_at_every_crash_point_of_an_apply_rollover (crc : List Nat → Nat) (hcrc : CrcOk crc) (hc : c.Ok)
    (M0 : List StoreCrash.Tx) (tx : StoreCrash.Tx) (hgood : GoodTxs [] (M0 ++ [tx]))
    (hnd : ∀ k, ((StoreCrash.live ((M0 ++ [tx]).take k)).map (digest g h)).Nodup)
    (n : Nat) (hn : 3 * M0.length + 2 ≤ n) (b : Bool) :
    let M := M0 ++ [tx]
    let es := maniEdits g h c M
    let e := bookedEdit c (digestRec (digest g h) (storeRec g (digest g h) (StoreCrash.live M0) tx.rms tx.adds))
    let fs := crash b (run emptyFs ((opsOf maniAlgebra ((maniEdits g h c M0).map Client.edit ++ [Client.editRoll e]) []).take n))
    let fs' := run fs (reopenOps maniAlgebra fs)
    ((n < 3 * M0.length + 7 ∧ OldBooks g h c M fs.mani.durable)
      ∨ (3 * M0.length + 7 ≤ n ∧ NewBooks g h c M fs.mani.durable))
    ∧ openBytes crc (fileBytes crc fs.mani.durable) = some (replay maniAlgebra es)
    ∧ openBytes crc (fileBytes crc fs'.mani.durable) = some (replay maniAlgebra es)
    ∧ NewBooks g h c M fs'.mani.durable := by
  intro M es e fs fs'
  have hne : M ≠ [] := by simp [M]
  have hes : es = maniEdits g h c M0 ++ [e] := by
    show maniEdits g h c (M0 ++ [tx]) = _
    unfold maniEdits maniRecs
    rw [booked_append, List.map_append, List.map_append]; rfl
  have hcut := editRoll_cut maniAlgebra (maniEdits g h c M0) e n (by rw [length_maniEdits]; exact hn) b
  rw [length_maniEdits, ← hes] at hcut
  have hm : fs.mani = ⟨es, []⟩ ∨ fs.mani = ⟨[maniAlgebra.rollup (replay maniAlgebra es)], []⟩ := by
    rcases hcut with ⟨_, h2⟩ | ⟨_, h2⟩
    · exact Or.inl h2
    · exact Or.inr h2
  obtain ⟨h1, _, _, h4, h5⟩ := books_of_rollover_image g h c crc hcrc hc M hne hgood hnd fs hm
  refine ⟨?_, h1, h4, h5⟩
  rcases hcut with ⟨hlt, h2⟩ | ⟨hge, h2⟩
  · left
    refine ⟨hlt, ?_⟩
    have h2' : fs.mani = _ := h2
    rw [h2']; exact oldBooks g h c hc M hgood
  · right
    refine ⟨hge, ?_⟩
    have h2' : fs.mani = _ := h2
    rw [h2']; exact newBooks g h c hc M hne hgood hnd

end books

end Blue.BooksRollCrash
