import Blue.Proofs.SstSize
import Blue.Proofs.SstMetaBytes
/-! C10 items (a) and (c) composed with the file round trip: the headlines without the `hsize`
    hypothesis, and the packed `SstMetadata` bytes of a builder-written file. -/
namespace Blue.SstOpen
open Blue.Wire Blue.Block Blue.Sst Blue.Cursor Blue.BlockCursor Blue.SstSetsum Blue.SstMetaMsg

theorem hsize_of_seal (o : SstOpts) (atts : List KV) (filter setsum : List Nat) (f : SstFile)
    (hseal : (SB.putAll o SB.init atts).2.seal o filter setsum = .ok f)
    (hts : ∀ e ∈ atts, e.ts ≤ U64MAX) (hsetsum : setsum.length = 32)
    (hfilter : filter.length = filterLen (SB.putAll o SB.init atts).2.count o.bloomBits) :
    f.bytes.length < U64 :=
  Nat.lt_of_le_of_lt (file_size_bound o atts filter setsum f hseal hts hsetsum hfilter) file_size_bound_lt.2

/-- `sst_file_roundtrip_limits` with `hsize` discharged by `file_size_bound` -/
theorem sst_file_roundtrip_no_size_hyp (o : SstOpts) (atts : List KV) (filter setsum : List Nat) (f : SstFile)
    (hseal : (SB.putAll o SB.init atts).2.seal o filter setsum = .ok f)
    (hts : ∀ e ∈ atts, e.ts ≤ U64MAX)
    (hsetsum : setsum.length = 32)
    (hfilter : filter.length = filterLen (SB.putAll o SB.init atts).2.count o.bloomBits)
    (hbE : ∀ e ∈ atts, KVBytes e) (hbF : Bytes filter) :
    ∃ t, openSst crc32c f.bytes = .ok t
      ∧ (∀ ops : List KOp, t.run crc32c t.toFirst ops
          = (Ref.run ⟨(SB.putAll o SB.init atts).2.accepted, 0⟩ (ops.map KOp.toOp)).map .ok)
      ∧ (∀ (k : List Nat) (ts : Nat), t.load crc32c k ts = .ok (loadSpec (SB.putAll o SB.init atts).2.accepted k ts))
      ∧ t.metadata crc32c = .ok
          ⟨setsum,
           (match (SB.putAll o SB.init atts).2.accepted.head? with | some e => e.key | none => []),
           (match (SB.putAll o SB.init atts).2.accepted.getLast? with | some e => e.key | none => MAX_KEY),
           f.fin.smallest, f.fin.biggest, f.bytes.length⟩
      ∧ t.forward crc32c = ((SB.putAll o SB.init atts).2.accepted, none)
      ∧ t.backward crc32c = ((SB.putAll o SB.init atts).2.accepted.reverse, none) :=
  sst_file_roundtrip_limits o atts filter setsum f hseal hts hsetsum hfilter
    (hsize_of_seal o atts filter setsum f hseal hts hsetsum hfilter) hbE hbF

/-- `sst_file_roundtrip_bcur_limits` with `hsize` discharged -/
theorem sst_file_roundtrip_bcur_no_size_hyp (o : SstOpts)
    (ho : 1 ≤ o.blk.bytesRestartInterval ∧ 1 ≤ o.blk.pairsRestartInterval)
    (atts : List KV) (filter setsum : List Nat) (f : SstFile)
    (hseal : (SB.putAll o SB.init atts).2.seal o filter setsum = .ok f)
    (hts : ∀ e ∈ atts, e.ts ≤ U64MAX)
    (hsetsum : setsum.length = 32)
    (hfilter : filter.length = filterLen (SB.putAll o SB.init atts).2.count o.bloomBits)
    (hbE : ∀ e ∈ atts, KVBytes e) (hbF : Bytes filter) :
    ∃ t, openSst crc32c f.bytes = .ok t
      ∧ (∀ ops : List KOp, t.runB crc32c t.toFirstB ops
          = (Ref.run ⟨(SB.putAll o SB.init atts).2.accepted, 0⟩ (ops.map KOp.toOp)).map .ok)
      ∧ (∀ (k : List Nat) (ts : Nat), t.loadB crc32c k ts = .ok (loadSpec (SB.putAll o SB.init atts).2.accepted k ts))
      ∧ t.metadataB crc32c = .ok
          ⟨setsum,
           (match (SB.putAll o SB.init atts).2.accepted.head? with | some e => e.key | none => []),
           (match (SB.putAll o SB.init atts).2.accepted.getLast? with | some e => e.key | none => MAX_KEY),
           f.fin.smallest, f.fin.biggest, f.bytes.length⟩
      ∧ t.forwardB crc32c = ((SB.putAll o SB.init atts).2.accepted, none)
      ∧ t.backwardB crc32c = ((SB.putAll o SB.init atts).2.accepted.reverse, none)
      ∧ (∀ ops : List KOp, t.runB crc32c t.toFirstB ops = t.run crc32c t.toFirst ops) :=
  sst_file_roundtrip_bcur_limits o ho atts filter setsum f hseal hts hsetsum hfilter
    (hsize_of_seal o atts filter setsum f hseal hts hsetsum hfilter) hbE hbF

/-- **C10 (a)** the packed metadata of a builder-written file.  `seal` computes filter and setsum
    itself; no `hsize`.  `metadata()` of the opened file returns a value `md` of the Rust type
    (`MetaOk`), whose packing `stack_pack(md)` is the wire image of exactly
    (digest of the item sum over the accepted entries, first key, last key, smallest / biggest
    accepted timestamp, file length), and `SstMetadata::unpack` of those bytes returns `md`. -/
theorem metadata_bytes_of_sealed_file (hash : List Nat → Vector Nat 8)
    (hW : ∀ bs, Blue.Setsum.Words (hash bs))
    (h : List Nat → Nat) (o : SstOpts) (atts : List KV) (f : SstFile)
    (hseal : (SB.putAll o SB.init atts).2.seal o
        (Blue.Sbbf.sealFilter h o.bloomBits (SB.putAll o SB.init atts).2).toBytes
        (sealSetsum hash (SB.putAll o SB.init atts).2) = .ok f)
    (hts : ∀ e ∈ atts, e.ts ≤ U64MAX)
    (hbE : ∀ e ∈ atts, KVBytes e) :
    let acc := (SB.putAll o SB.init atts).2.accepted
    ∃ t md, openSst crc32c f.bytes = .ok t ∧ t.metadata crc32c = .ok md
      ∧ md = ⟨Blue.Setsum.digest (itemSum hash acc),
              (match acc.head? with | some e => e.key | none => []),
              (match acc.getLast? with | some e => e.key | none => MAX_KEY),
              f.fin.smallest, f.fin.biggest, f.bytes.length⟩
      ∧ MetaOk md
      ∧ packMeta md = encMetadata md
      ∧ unpackMeta (packMeta md) = .ok (some md)
      ∧ (∀ e ∈ acc, f.fin.smallest ≤ e.ts ∧ e.ts ≤ f.fin.biggest)
      ∧ (acc ≠ [] → (∃ e ∈ acc, e.ts = f.fin.smallest) ∧ ∃ e ∈ acc, e.ts = f.fin.biggest)
      ∧ (acc = [] → f.fin.smallest = 0 ∧ f.fin.biggest = 0)
      ∧ f.bytes.length ≤ FILE_SIZE_BOUND := by
  intro acc
  obtain ⟨hlen, _⟩ := Blue.Sbbf.sealFilter_bytes h o.bloomBits (SB.putAll o SB.init atts).2
  have hss := (seal_setsum_length hash (SB.putAll o SB.init atts).2).1
  have hB := file_size_bound o atts _ _ f hseal hts hss hlen
  have hsize : f.bytes.length < U64 := Nat.lt_of_le_of_lt hB file_size_bound_lt.2
  obtain ⟨t, hopen, hmd, _⟩ := metadata_setsum_is_sum_of_accepted hash hW h o atts f hseal hts hsize hbE
  have hmi := minv_putAll o atts SB.init hts minv_init
  obtain ⟨t1, t2, t3, _⟩ := seal_timestamps hmi hseal
  obtain ⟨_, hacc, _, hlim, _⟩ := sst_builder_rejects o atts
  have hU : U64MAX = 18446744073709551615 := rfl
  have hU2 : U64 = 18446744073709551616 := rfl
  have hK : MAX_KEY_LEN = 16384 := rfl
  have hmem : ∀ e ∈ acc, e ∈ atts ∧ e.key.length ≤ MAX_KEY_LEN := by
    intro e he
    have he' : e ∈ acceptedOfB (SB.putAll o SB.init atts).1 atts := by rw [← hacc]; exact he
    exact ⟨acceptedOfB_mem _ _ _ he', (hlim e he').1⟩
  have hts2 : f.fin.smallest < U64 ∧ f.fin.biggest < U64 := by
    by_cases hA : acc = []
    · obtain ⟨a, b⟩ := t3 hA; omega
    · obtain ⟨⟨e1, he1, h1⟩, ⟨e2, he2, h2⟩⟩ := t2 hA
      have := hts e1 (hmem e1 he1).1
      have := hts e2 (hmem e2 he2).1
      omega
  have hok : MetaOk ⟨Blue.Setsum.digest (itemSum hash acc),
      (match acc.head? with | some e => e.key | none => []),
      (match acc.getLast? with | some e => e.key | none => MAX_KEY),
      f.fin.smallest, f.fin.biggest, f.bytes.length⟩ := by
    refine ⟨digest_length _, ?_, ?_, hts2.1, hts2.2, hsize⟩
    · show (match acc.head? with | some e => e.key | none => []).length < U64
      cases hh : acc.head? with
      | none => simp [hU2]
      | some e => have := (hmem e (List.mem_of_head? hh)).2; simp only; omega
    · show (match acc.getLast? with | some e => e.key | none => MAX_KEY).length < U64
      cases hh : acc.getLast? with
      | none => simp [MAX_KEY, hU2]
      | some e => have := (hmem e (List.mem_of_getLast? hh)).2; simp only; omega
  exact ⟨t, _, hopen, hmd, rfl, hok, packMeta_eq_encMetadata _, metadata_bytes_roundtrip _ hok, t1, t2, t3, hB⟩

end Blue.SstOpen
