import Blue.Model.SstFile
import Blue.Proofs.ProtoMsg
import Blue.Proofs.BlockBytes
/-! The messages of an SST file, written by the builder model (`Blue.Sst`: hand-laid concatenations
    `frame`, `encBlockMeta`, `encFinal`) and read by the opening model (`Blue.SstOpen`: the
    derive-macro interpreter `unpackMsg` over the schemas `sstEntryMsg`, `blockMetaMsg`, `finalMsg`):
    what the writer lays down *is* the packing of the schema value, so the C15 round trip
    (`unpack_pack`) reads it back. -/
namespace Blue.SstOpen
open Blue.Wire Blue.Block Blue.Sst Blue.ProtoMsg

/-! ### little endian -/
theorem le32_eq_leBytes (n : Nat) : le32 n = Blue.Proto.leBytes 4 n := by
  simp only [le32, Blue.Proto.leBytes, Nat.div_div_eq_div_mul]

theorem le64_eq_leBytes (n : Nat) (h : n < U64) : le64 n = Blue.Proto.leBytes 8 n := by
  unfold U64 at h
  simp only [le64, le32, Blue.Proto.leBytes, Nat.div_div_eq_div_mul, List.cons_append, List.nil_append]
  refine List.cons_eq_cons.mpr ⟨by omega, List.cons_eq_cons.mpr ⟨by omega, List.cons_eq_cons.mpr ⟨by omega,
    List.cons_eq_cons.mpr ⟨by omega, List.cons_eq_cons.mpr ⟨by omega, List.cons_eq_cons.mpr ⟨by omega,
    List.cons_eq_cons.mpr ⟨by omega, List.cons_eq_cons.mpr ⟨by omega, rfl⟩⟩⟩⟩⟩⟩⟩⟩

theorem le64_length (n : Nat) : (le64 n).length = 8 := rfl

theorem unle64_le64 (n : Nat) (h : n < U64) : unle64 (le64 n) = n := by
  unfold U64 at h
  simp only [unle64, le64, le32, List.cons_append, List.nil_append, List.take, List.foldr]
  omega

/-! ### `SstEntry` frames -/
theorem frame_plain_eq (b : List Nat) : frame SE_PLAIN b = packMsg 2 sstEntryMsg (.variant 0 (.bytes b)) := rfl
theorem frame_filter_eq (b : List Nat) : frame SE_FILTER b = packMsg 2 sstEntryMsg (.variant 1 (.bytes b)) := rfl

theorem wf_plain (b : List Nat) (hb : b.length < U64) : WfMsg 2 sstEntryMsg (.variant 0 (.bytes b)) := by
  refine ⟨.tuple SE_PLAIN (.scalar .bytes), rfl, by decide, ?_, hb⟩
  intro j w hj; omega

theorem wf_filter (b : List Nat) (hb : b.length < U64) : WfMsg 2 sstEntryMsg (.variant 1 (.bytes b)) := by
  refine ⟨.tuple SE_FILTER (.scalar .bytes), rfl, by decide, ?_, hb⟩
  intro j w hj hw
  have : j = 0 := by omega
  subst this
  simp only [sstEntryMsg, List.getElem?_cons_zero, Option.some.injEq] at hw
  subst hw
  decide

theorem unpack_frame_plain (b : List Nat) (hb : b.length < U64) :
    unpackMsg 2 sstEntryMsg (frame SE_PLAIN b) = .ok (.variant 0 (.bytes b), []) := by
  rw [frame_plain_eq]; exact unpack_pack 2 _ _ (wf_plain b hb)

theorem unpack_frame_filter (b : List Nat) (hb : b.length < U64) :
    unpackMsg 2 sstEntryMsg (frame SE_FILTER b) = .ok (.variant 1 (.bytes b), []) := by
  rw [frame_filter_eq]; exact unpack_pack 2 _ _ (wf_filter b hb)

/-! ### `BlockMetadata` -/
def metaVal (m : BlockMeta) : Val := .struct [.int m.start, .int m.limit, .int m.crc]

/-- a triple whose fields fit their wire types: `u64` offsets, a `u32` checksum -/
def MetaFits (m : BlockMeta) : Prop := m.start < U64 ∧ m.limit < U64 ∧ m.crc < 4294967296

theorem encBlockMeta_eq (f : Nat) (m : BlockMeta) : encBlockMeta m = packMsg (f + 1) blockMetaMsg (metaVal m) := by
  simp only [encBlockMeta, blockMetaMsg, blockMetaFields, metaVal, packMsg, packFields, packSlot, packOne,
    Field.card, Field.num, Field.ty, Ty.wt, Scalar.wt, encTyWith, encScalar, Int.toNat_natCast, le32_eq_leBytes,
    List.append_nil, List.append_assoc]

theorem wf_meta (f : Nat) (m : BlockMeta) (h : MetaFits m) : WfMsg (f + 1) blockMetaMsg (metaVal m) := by
  obtain ⟨h1, h2, h3⟩ := h
  refine ⟨⟨by decide, ⟨by omega, by exact_mod_cast h1⟩, by decide, ⟨by omega, by exact_mod_cast h2⟩, by decide,
    ⟨by omega, ?_⟩, trivial⟩, by decide⟩
  show ((m.crc : Nat) : Int) < ((P32 : Nat) : Int)
  unfold P32; exact_mod_cast h3

theorem metaOfVal_metaVal (m : BlockMeta) : metaOfVal (metaVal m) = some m := by
  simp [metaOfVal, metaVal]

/-- **`BlockMetadata::unpack` reads back what `flush_block` packed** -/
theorem decMeta_enc (m : BlockMeta) (h : MetaFits m) : decMeta (encBlockMeta m) = some m := by
  unfold decMeta
  rw [encBlockMeta_eq 1 m, unpack_pack 2 _ _ (wf_meta 1 m h)]
  exact metaOfVal_metaVal m

theorem encBlockMeta_length_le (m : BlockMeta) (h : MetaFits m) : (encBlockMeta m).length ≤ BLOCK_METADATA_MAX_SZ := by
  obtain ⟨h1, h2, _⟩ := h
  have a := encVarint_length_le_ten m.start h1
  have b := encVarint_length_le_ten m.limit h2
  have t1 : (encTag ⟨BM_START, .varint⟩).length = 1 := by rw [encTag, encVarint_lt (by decide)]; rfl
  have t2 : (encTag ⟨BM_LIMIT, .varint⟩).length = 1 := by rw [encTag, encVarint_lt (by decide)]; rfl
  have t3 : (encTag ⟨BM_CRC, .thirtyTwo⟩).length = 1 := by rw [encTag, encVarint_lt (by decide)]; rfl
  simp only [encBlockMeta, List.length_append, t1, t2, t3, le32_length, BLOCK_METADATA_MAX_SZ]
  omega

/-! ### `FinalBlock` -/
def finalVal (f : Final) : Val :=
  .struct [metaVal f.index, metaVal f.filter, .bytes f.setsum, .int f.smallest, .int f.biggest, .int f.offset]

def FinalFits (f : Final) : Prop :=
  MetaFits f.index ∧ MetaFits f.filter ∧ f.setsum.length = 32 ∧ f.smallest < U64 ∧ f.biggest < U64 ∧ f.offset < U64

theorem encFinal_eq (f : Final) (h : f.offset < U64) : encFinal f = packMsg 4 finalMsg (finalVal f) := by
  have e1 := encBlockMeta_eq 2 f.index
  have e2 := encBlockMeta_eq 2 f.filter
  simp only [encFinal, finalMsg, finalFields, finalVal, packMsg, packFields, packSlot, packOne,
    Field.card, Field.num, Field.ty, Ty.wt, Scalar.wt, encTyWith, encScalar, Int.toNat_natCast,
    le64_eq_leBytes f.offset h, List.append_nil, List.append_assoc] at e1 e2 ⊢
  rw [e1, e2]

theorem wf_final (f : Final) (h : FinalFits f) : WfMsg 4 finalMsg (finalVal f) := by
  obtain ⟨hi, hf, hs, hsm, hbg, hoff⟩ := h
  have li := encBlockMeta_length_le f.index hi
  have lf := encBlockMeta_length_le f.filter hf
  rw [encBlockMeta_eq 2] at li lf
  unfold BLOCK_METADATA_MAX_SZ at li lf
  refine ⟨⟨by decide, ⟨wf_meta 2 f.index hi, Nat.lt_of_le_of_lt li (by unfold U64; omega)⟩, by decide, ⟨wf_meta 2 f.filter hf, Nat.lt_of_le_of_lt lf (by unfold U64; omega)⟩,
    by decide, ⟨hs, by unfold U64; omega⟩, by decide, ⟨by omega, by exact_mod_cast hsm⟩, by decide,
    ⟨by omega, by exact_mod_cast hbg⟩, by decide, ⟨by omega, by exact_mod_cast hoff⟩, trivial⟩, by decide⟩

/-- **`FinalBlock::unpack` reads back what `seal` packed** -/
theorem decFinal_enc (f : Final) (h : FinalFits f) :
    decFinal (encFinal f) = some ⟨f.index, f.filter, f.setsum, f.smallest, f.biggest⟩ := by
  unfold decFinal
  rw [encFinal_eq f h.2.2.2.2.2, unpack_pack 4 _ _ (wf_final f h)]
  simp [finOfVal, finalVal, metaOfVal_metaVal]

/-- the final block ends in the eight bytes of `final_block_offset` -/
theorem encFinal_trailer (f : Final) : ∃ pre, encFinal f = pre ++ le64 f.offset := by
  exact ⟨_, rfl⟩

theorem encFinal_length_ge (f : Final) : 8 ≤ (encFinal f).length := by
  obtain ⟨pre, h⟩ := encFinal_trailer f
  rw [h, List.length_append, le64_length]; omega

end Blue.SstOpen
