import Blue.Proofs.MergingMain
import Blue.Proofs.MergingNat
/-! The generic merging cursor over reference children is the cursor `merging_refines` is about;
    substitution of children. -/
namespace Blue.Cursor
variable {E : Type} (lt : E → E → Bool)

namespace MergingLink

def ofSpec (m : Merging E) : MergingC (RefCur E) := ⟨m.fwd, m.cs⟩

theorem modifyHead_ref (g : Ref E → Ref E) (cs : List (Ref E)) :
    MergingC.modifyHead (RefCur E) g cs = Merging.modifyHead g cs := by
  cases cs <;> rfl

theorem cmp_ref (fwd : Bool) : MergingC.cmp (RefCur E) lt fwd = Merging.cmp lt fwd := rfl

theorem step_ref (m : Merging E) (op : Op E) :
    (MergingC.cur (RefCur E) lt).step (ofSpec m) op = ofSpec (Merging.step lt m op) := by
  cases op with
  | seek p => rfl
  | first =>
    show MergingC.seekToFirst (RefCur E) lt (ofSpec m) = ofSpec (Merging.seekToFirst lt m)
    simp only [MergingC.seekToFirst, Merging.seekToFirst, modifyHead_ref, cmp_ref, ofSpec]
  | last =>
    show MergingC.seekToLast (RefCur E) lt (ofSpec m) = ofSpec (Merging.seekToLast lt m)
    simp only [MergingC.seekToLast, Merging.seekToLast, modifyHead_ref, cmp_ref, ofSpec]
  | next =>
    show MergingC.next (RefCur E) lt (ofSpec m) = ofSpec (Merging.next lt m)
    simp only [MergingC.next, Merging.next, modifyHead_ref, cmp_ref, ofSpec]
    split <;> rfl
  | prev =>
    show MergingC.prev (RefCur E) lt (ofSpec m) = ofSpec (Merging.prev lt m)
    simp only [MergingC.prev, Merging.prev, modifyHead_ref, cmp_ref, ofSpec]
    split <;> rfl

theorem kv_ref (m : Merging E) : (MergingC.cur (RefCur E) lt).kv (ofSpec m) = m.kv := by
  show MergingC.kv (RefCur E) (ofSpec m) = m.kv
  unfold MergingC.kv Merging.kv ofSpec
  cases m.cs <;> rfl

theorem ok_ref (m : Merging E) : (MergingC.cur (RefCur E) lt).ok (ofSpec m) = true := by
  show m.cs.all (RefCur E).ok = true
  simp

end MergingLink

open MergingLink in
/-- **C11, merging cursor, behavioural form.** -/
theorem mergingC_ref_behEq {M : List (E × Nat)} {k : Nat} (st : StrictTotal lt) (fam : Family lt M k)
    (A : (E → Bool) → Prop) (hA : ∀ pred, A pred → Mono lt pred) :
    ∀ (m : Merging E) (pos : Nat), Rel lt M k m pos →
      BehEq A (MergingC.cur (RefCur E) lt) (ofSpec m) (RefCur E) ⟨M.map (·.1), pos⟩ := by
  intro m pos h ops
  induction ops generalizing m pos with
  | nil =>
    intro _
    simp only [Cur.beh, Cur.runTo, List.foldl_nil]
    exact Prod.ext ((kv_ref lt m).trans (rel_kv st fam h)) (ok_ref lt m)
  | cons op ops ih =>
    intro ha
    obtain ⟨ha1, ha2⟩ := adm_cons.mp ha
    obtain ⟨h1, h2⟩ := rel_step st fam h op (fun pred hp => hA pred (by subst hp; exact ha1))
    have hc : (Ref.mk (M.map (·.1)) pos).step op = ⟨M.map (·.1), ((Ref.mk (M.map (·.1)) pos).step op).pos⟩ := by
      cases hstep : (Ref.mk (M.map (·.1)) pos).step op with
      | mk xs p => rw [hstep] at h2; simp at h2; simp [h2]
    show (MergingC.cur (RefCur E) lt).beh ((MergingC.cur (RefCur E) lt).step (ofSpec m) op) ops
      = (RefCur E).beh ((RefCur E).step ⟨M.map (·.1), pos⟩ op) ops
    rw [step_ref]
    have hr : (RefCur E).step ⟨M.map (·.1), pos⟩ op
        = ⟨M.map (·.1), ((Ref.mk (M.map (·.1)) pos).step op).pos⟩ := by
      rw [← hc]; cases op <;> rfl
    rw [hr]
    exact ih _ _ h1 ha2

/-- children with pointwise the same behaviour give merging cursors with the same behaviour -/
theorem merging_subst {A : (E → Bool) → Prop} {C D : Cur E} (cs : List C.σ) (ds : List D.σ)
    (h : cs.map (behA A C) = ds.map (behA A D)) (fwd : Bool) :
    BehEq A (MergingC.cur C lt) ⟨fwd, cs⟩ (MergingC.cur D lt) ⟨fwd, ds⟩ :=
  behEq_lift (A := A) (ι := fun C => List C.σ) (fun C => MergingC.cur C lt)
    (fun C cs => (⟨fwd, cs⟩ : MergingC C)) (fun h cs => cs.map h.f) (fun h => MergingC.hom h lt)
    (fun h x => rfl) cs ds h

end Blue.Cursor

#print axioms Blue.Cursor.mergingC_ref_behEq
#print axioms Blue.Cursor.merging_subst
