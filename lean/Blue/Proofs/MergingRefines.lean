import Blue.Proofs.MergingRev
namespace Blue.Cursor
open Blue.Heap

variable {E : Type} {lt : E → E → Bool} {M : List (E × Nat)} {k : Nat}

/-- The simulation relation between the merging cursor and the reference position. -/
inductive Rel (lt : E → E → Bool) (M : List (E × Nat)) (k : Nat) : Merging E → Nat → Prop
  | fwdA (cs : List (Ref E)) (p : Nat) (hp : p ≤ M.length) :
      AllF M k cs p → HeapTail lt true cs → HeadMin lt true cs → Rel lt M k ⟨true, cs⟩ (p+1)
  | fwdB (cs0 : List (Ref E)) :
      AllF M k cs0 0 → HeapTail lt true cs0 → Rel lt M k ⟨true, Merging.modifyHead Ref.first cs0⟩ 0
  | revA (cs : List (Ref E)) (p : Nat) (hp : p ≤ M.length) :
      AllG M k cs p → HeapTail lt false cs → HeadMin lt false cs → Rel lt M k ⟨false, cs⟩ p
  | revB (cs0 : List (Ref E)) :
      AllG M k cs0 M.length → HeapTail lt false cs0 →
      Rel lt M k ⟨false, Merging.modifyHead Ref.last cs0⟩ (M.length+1)

/-- the children's lists, up to order -/
def Kids (M : List (E × Nat)) (k : Nat) (cs : List (Ref E)) : Prop :=
  (cs.map (·.xs)).Perm ((List.range k).map (childList M))

theorem kids_of_allF {cs : List (Ref E)} {p : Nat} (h : AllF M k cs p) : Kids M k cs := by
  have := h.map (·.xs)
  simpa [Kids, fAt, Function.comp_def] using this

theorem kids_of_allG {cs : List (Ref E)} {p : Nat} (h : AllG M k cs p) : Kids M k cs := by
  have := h.map (·.xs)
  simpa [Kids, gAt, Function.comp_def] using this

theorem kids_modifyHead (f : Ref E → Ref E) (hf : ∀ c, (f c).xs = c.xs) {cs : List (Ref E)}
    (h : Kids M k cs) : Kids M k (Merging.modifyHead f cs) := by
  cases cs with
  | nil => exact h
  | cons c t => simpa [Kids, Merging.modifyHead, hf] using h

theorem rel_kids {m : Merging E} {pos : Nat} (h : Rel lt M k m pos) : Kids M k m.cs := by
  cases h with
  | fwdA cs p hp hall _ _ => exact kids_of_allF hall
  | fwdB cs0 hall _ => exact kids_modifyHead Ref.first (fun _ => rfl) (kids_of_allF hall)
  | revA cs p hp hall _ _ => exact kids_of_allG hall
  | revB cs0 hall _ => exact kids_modifyHead Ref.last (fun _ => rfl) (kids_of_allG hall)

/-- mapping a position-forgetting operation over the children -/
theorem map_of_kids {cs : List (Ref E)} (h : Kids M k cs) (op : Ref E → Ref E) (F : Nat → Ref E)
    (hop : ∀ c j, c.xs = childList M j → op c = F j) :
    (cs.map op).Perm ((List.range k).map F) := by
  -- op factors through xs
  have hfac : ∀ c ∈ cs, ∃ j, j < k ∧ c.xs = childList M j := by
    intro c hc
    have : c.xs ∈ (List.range k).map (childList M) := by
      rw [← h.mem_iff]; exact List.mem_map.mpr ⟨c, hc, rfl⟩
    rw [List.mem_map] at this
    obtain ⟨j, hj, hjx⟩ := this
    exact ⟨j, by simpa using hj, hjx.symm⟩
  let op' : List E → Ref E := fun xs => op ⟨xs, 0⟩
  have hop' : ∀ c ∈ cs, op c = op' c.xs := by
    intro c hc
    obtain ⟨j, _, hj⟩ := hfac c hc
    rw [hop c j hj]
    exact (hop ⟨c.xs, 0⟩ j hj).symm
  have e1 : cs.map op = (cs.map (·.xs)).map op' := by
    rw [List.map_map]; exact List.map_congr_left hop'
  have e2 : ((List.range k).map (childList M)).map op' = (List.range k).map F := by
    rw [List.map_map]
    apply List.map_congr_left
    intro j _
    exact hop ⟨childList M j, 0⟩ j rfl
  rw [e1, ← e2]
  exact h.map op'

theorem modifyHead_id_of_head {f : Ref E → Ref E} {cs : List (Ref E)}
    (h : ∀ c t, cs = c :: t → f c = c) : Merging.modifyHead f cs = cs := by
  cases cs with
  | nil => rfl
  | cons c t => simp [Merging.modifyHead, h c t rfl]

theorem head_mem_of_perm {cs L : List (Ref E)} (h : cs.Perm L) {c : Ref E} {t : List (Ref E)}
    (hc : cs = c :: t) : c ∈ L := by
  rw [← h.mem_iff, hc]; simp

/-- percolating a list whose tail is in heap order yields a full state -/
theorem percolate_state (st : StrictTotal lt) (fwd : Bool) (cs : List (Ref E)) (htail : HeapTail lt fwd cs) :
    (percolateDown (Merging.cmp lt fwd) cs 0 cs.length).Perm cs
    ∧ HeapTail lt fwd (percolateDown (Merging.cmp lt fwd) cs 0 cs.length)
    ∧ HeadMin lt fwd (percolateDown (Merging.cmp lt fwd) cs 0 cs.length) := by
  have sw := strictWeak_cmp st fwd
  have hspec := percolateDown_spec (Merging.cmp lt fwd) sw cs.length cs 0 (by omega) htail
  refine ⟨percolateDown_perm _ _ _ _, fun j hj => hspec.1 j (by omega), ?_⟩
  intro r hr x hx
  exact percolate_head_min (Merging.cmp lt fwd) sw cs htail r hr x
    ((percolateDown_perm _ _ _ _).mem_iff.mp hx)

theorem rel_kv (st : StrictTotal lt) (fam : Family lt M k) {m : Merging E} {pos : Nat}
    (h : Rel lt M k m pos) : m.kv = (Ref.mk (M.map (·.1)) pos).kv := by
  cases h with
  | fwdA cs p hp hall htail hmin =>
    rw [kv_fwdA st fam cs p hall hmin]; simp [Ref.kv]
  | fwdB cs0 hall htail =>
    cases cs0 with
    | nil => simp [Merging.kv, Merging.modifyHead, Ref.kv]
    | cons c t => simp [Merging.kv, Merging.modifyHead, Ref.kv, Ref.first]
  | revA cs p hp hall htail hmin =>
    cases pos with
    | zero =>
      cases cs with
      | nil => simp [Merging.kv, Ref.kv]
      | cons c t =>
        have hc := head_mem_of_perm hall rfl
        rw [List.mem_map] at hc
        obtain ⟨j, _, rfl⟩ := hc
        have h0 : (gAt M j 0).kv = none := kv_gAt_zero j
        show (gAt M j 0).kv = _
        rw [h0]; simp [Ref.kv]
    | succ q =>
      have hq : q < M.length := by omega
      have hMq : M[q]? = some (M[q].1, M[q].2) := by simp [hq]
      rw [kv_revA_succ st fam cs q hall hmin _ _ hMq]
      simp [Ref.kv, hq]
  | revB cs0 hall htail =>
    cases cs0 with
    | nil => simp [Merging.kv, Merging.modifyHead, Ref.kv]
    | cons c t =>
      have hx : c.xs.length ≤ c.xs.length := Nat.le_refl _
      simp [Merging.kv, Merging.modifyHead, Ref.kv, Ref.last]

end Blue.Cursor
