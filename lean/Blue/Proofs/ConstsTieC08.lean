import Blue.Generated.Consts
import Blue.Model.Verifier
import Blue.Model.Orphans
import Blue.Model.VerifierRange
/-! Names and keys the verifier / orphan models hard-code, regenerated from lsmtk's source on every
    run (`translate/extract.py`) and tied here (C08). -/
namespace Blue.ConstsTie

/-- `TRASH_SST`: `<hexdigest>` + `".sst"` -/
theorem c08_trash_sst_suffix : Blue.Verifier.sstSuffix = Blue.Generated.lsmtkTrashSstSuffix := by decide
theorem c08_orphans_sst_suffix : Blue.Orphans.sstSuffix = Blue.Generated.lsmtkTrashSstSuffix := by decide
/-- `TRASH_LOG`: `"log."` + the number -/
theorem c08_trash_log_prefix : Blue.Verifier.logPrefix = Blue.Generated.lsmtkTrashLogPrefix := by decide
/-- the info keys `verify_one` reads from an edit: `D`, `I`, `L`, `O` (68, 73, 76, 79 in `chainCheck`, `editLogs`) -/
theorem c08_info_keys : Blue.Generated.lsmtkVerifierEditInfoKeys = [68, 73, 76, 79] := by decide
/-- `LsmVerifier::verify` pops `MANIFEST` and the newest fragment: `entries d = d.frags.dropLast`
    (`frags` holds the numbered fragments only) -/
theorem c08_entries_popped : Blue.Generated.lsmtkVerifierEntriesPopped = 2 := by decide
/-- `LsmVerifier::verify` calls `last_removals(&entries)` BEFORE the first `entries.pop()`: its range is
    every entry `list_mani_fragments` returned — the newest numbered fragment and `MANIFEST` included
    (`Blue.Verifier.laterRm`, `lastRemovalsRange`); called after the pops it would be `laterRmNarrow`,
    for which `Blue.Verifier.narrowed_range_loses_copy` is the counterexample -/
theorem c08_last_removals_before_pops :
    Blue.Verifier.popsBeforeLastRemovals = Blue.Generated.lsmtkVerifierPopsBeforeLastRemovals := by decide
/-- `LsmTree::cleanup_orphans` scans every entry `list_mani_fragments` returns, the live `MANIFEST`
    (its last entry) included, as it is at that moment (`Blue.Orphans.scanInput`); a scan that pops it
    is `scanSkipLive`, for which `Blue.Orphans.skip_live_moves_relisted` is the counterexample -/
theorem c08_cleanup_scans_every_entry :
    Blue.Orphans.entriesDropped = Blue.Generated.lsmtkCleanupOrphansEntriesDropped := by decide
-- `Blue.Generated.lsmtkCompactionPinsOutputs` (0 / 1) says whether `compaction_finish` takes a
-- reference together with the link of an output (`Blue.FileLink`, `pin`); the harness asks for the
-- protocol the code shows on the directed schedule, so nothing is tied to it here.

end Blue.ConstsTie
