import Blue.Proofs.PruningPrev
namespace Blue.Cursor
open Blue.Cursor.Filtered

variable {E K : Type} [DecidableEq K] (cfg : PruneCfg E K) (xs : List E)

theorem isCand_prev_of_shown {i : Nat} {e e' : E} (hs : shownP cfg xs (i+1) = true)
    (he : xs[i+1]? = some e) (he' : xs[i]? = some e') (hk : cfg.key e' = cfg.key e) :
    cfg.tsOk e' = false := by
  unfold shownP at hs
  rw [isCand_succ cfg xs he he'] at hs
  cases h : cfg.tsOk e' with
  | false => rfl
  | true => simp [hk, h] at hs

theorem prel_prev (g : Grouped cfg xs) (n : Nat) (hn : xs.length + 2 ≤ n) {p : Pruning E K} {pos : Nat} (h : PRel cfg xs p pos) :
    ∃ p', p.prev cfg n = some p' ∧ PRel cfg xs p' (Ref.prev ⟨pruned cfg xs, pos⟩).pos := by
  have hx := h.xs_eq
  have hc : p.c = ⟨xs, p.c.pos⟩ := by
    cases hp : p.c with
    | mk a b => rw [hp] at hx; simp at hx; simp [hx]
  have hprev := pos_prev xs.length (shownP cfg xs) h.hpos
  have hrefpos : (Ref.prev ⟨pruned cfg xs, pos⟩).pos = if 0 < pos then pos - 1 else pos := by
    unfold Ref.prev; split <;> rfl
  rw [hrefpos]
  have hqle : p.c.pos ≤ xs.length + 1 := by
    have hp := h.hpos
    cases hp' : p.c.pos with
    | zero => omega
    | succ i =>
      rw [hp'] at hp
      cases hp with
      | «at» _ hi _ => omega
      | fin => omega
  -- the initial invariant
  have hinv : BackInv cfg xs p.c.pos p.c.pos (if p.c.kv.isNone then none else p.skip) := by
    constructor
    · intro t h1 h2; omega
    · intro k hk t ht hrun
      -- the cursor is on a shown entry whose key is `k`
      cases hkv : p.c.kv with
      | none => rw [hkv] at hk; simp at hk
      | some e0 =>
        rw [hkv] at hk
        simp at hk
        obtain ⟨i, hi⟩ : ∃ i, p.c.pos = i + 1 := ⟨p.c.pos - 1, by omega⟩
        have hilt : i < xs.length := by
          rw [hc, hi, ref_kv_at] at hkv
          exact (List.getElem?_eq_some_iff.mp hkv).1
        obtain ⟨e, he, hs⟩ := h.skipAt i hi hilt
        rw [hs] at hk; cases hk
        have hshown : shownP cfg xs i = true := by
          have hp := h.hpos; rw [hi] at hp
          cases hp with
          | «at» _ _ hs' => exact hs'
          | fin => omega
        -- t < i, so i = i' + 1
        obtain ⟨i', rfl⟩ : ∃ i', i = i' + 1 := ⟨i - 1, by omega⟩
        have hlt' : i' < xs.length := by omega
        have he' : xs[i']? = some xs[i'] := by simp [hlt']
        have hk' := hrun i' xs[i'] (by omega) (by omega) he'
        have hts' := isCand_prev_of_shown cfg xs hshown he he' hk'
        have htlt : t < xs.length := by omega
        have het : xs[t]? = some xs[t] := by simp [htlt]
        have hkt := hrun t xs[t] (Nat.le_refl _) ht het
        cases htst : cfg.tsOk xs[t] with
        | false => exact shownP_false_of_not_tsOk cfg xs het htst
        | true =>
          have := g.mono t i' xs[t] xs[i'] (by omega) het he' (by rw [hkt, hk']) htst
          rw [hts'] at this; cases this
  obtain ⟨s', hloop, hs0, hsj⟩ := prevLoop_spec cfg xs g n hn p.c.pos n p.c.pos _ hqle
    (Nat.le_refl _) (by omega) hinv
  refine ⟨⟨⟨xs, prevTarget cfg xs p.c.pos⟩, s'⟩, ?_, ?_⟩
  · unfold Pruning.prev
    have : p.c = ⟨xs, p.c.pos⟩ := hc
    rw [this] at hloop ⊢
    exact hloop
  · refine ⟨rfl, hprev, hs0, ?_⟩
    intro j hj _
    exact hsj j hj

/-- one step of a cursor program; `none` is the `logic_error_prev_not_positioned` exit -/
def Pruning.step (n : Nat) (p : Pruning E K) : Op E → Option (Pruning E K)
  | .first => some p.seekToFirst
  | .last => some p.seekToLast
  | .next => some (p.next cfg n)
  | .prev => p.prev cfg n
  | .seek pred => some (p.seek cfg n pred)

def Pruning.run (n : Nat) (p : Pruning E K) : List (Op E) → Option (List (Option E))
  | [] => some []
  | op :: ops =>
    match Pruning.step cfg n p op with
    | none => none
    | some p' => (Pruning.run n p' ops).map (fun l => p'.kv :: l)

theorem prel_step (g : Grouped cfg xs) (n : Nat) (hn : xs.length + 2 ≤ n) {p : Pruning E K} {pos : Nat} (h : PRel cfg xs p pos) (op : Op E)
    (hop : ∀ pred, op = .seek pred → SeekPred cfg xs pred) :
    ∃ p', Pruning.step cfg n p op = some p' ∧
      PRel cfg xs p' ((Ref.mk (pruned cfg xs) pos).step op).pos
      ∧ ((Ref.mk (pruned cfg xs) pos).step op).xs = pruned cfg xs := by
  cases op with
  | first => exact ⟨_, rfl, prel_first cfg xs h, rfl⟩
  | last => exact ⟨_, rfl, by simpa [Ref.step, Ref.last] using prel_last cfg xs h, rfl⟩
  | next =>
    refine ⟨_, rfl, prel_next cfg xs g n hn h, ?_⟩
    simp only [Ref.step, Ref.next]; split <;> rfl
  | prev =>
    obtain ⟨p', h1, h2⟩ := prel_prev cfg xs g n hn h
    refine ⟨p', h1, h2, ?_⟩
    simp only [Ref.step, Ref.prev]; split <;> rfl
  | seek pred => exact ⟨_, rfl, prel_seek cfg xs g n hn h pred (hop pred rfl), rfl⟩

/-- **C11, pruning cursor.**  Over any child table grouped by key with descending timestamps
    inside a key, for every finite program (including `prev` and reversals) the pruning cursor
    never takes its logic-error exit and shows exactly what a reference cursor over the pruned
    list shows: per key the first version not newer than the timestamp, unless a tombstone. -/
theorem pruning_refines (g : Grouped cfg xs) (n : Nat) (hn : xs.length + 2 ≤ n) :
    ∀ (ops : List (Op E)) (p : Pruning E K) (pos : Nat), PRel cfg xs p pos →
      (∀ pred, Op.seek pred ∈ ops → SeekPred cfg xs pred) →
      Pruning.run cfg n p ops = some (Ref.run ⟨pruned cfg xs, pos⟩ ops) := by
  intro ops
  induction ops with
  | nil => intros; rfl
  | cons op ops ih =>
    intro p pos h hops
    obtain ⟨p', h1, h2, h3⟩ := prel_step cfg xs g n hn h op (fun pred hp => hops pred (by rw [hp]; simp))
    have hc : (Ref.mk (pruned cfg xs) pos).step op = ⟨pruned cfg xs, ((Ref.mk (pruned cfg xs) pos).step op).pos⟩ := by
      cases hstep : (Ref.mk (pruned cfg xs) pos).step op with
      | mk a b => rw [hstep] at h3; simp at h3; simp [h3]
    simp only [Pruning.run, Ref.run, h1]
    rw [ih p' _ h2 (fun pred hp => hops pred (List.mem_cons_of_mem _ hp))]
    rw [prel_kv cfg xs h2, ← hc]
    rfl

theorem prel_new (c : Ref E) (hc : c.xs = xs) : PRel cfg xs (Pruning.new c) 0 := by
  refine ⟨by simp [Pruning.new, Ref.first, hc], Pos.start, fun _ => rfl, ?_⟩
  intro i hi; simp [Pruning.new, Ref.first] at hi

end Blue.Cursor

#print axioms Blue.Cursor.pruning_refines
