import Blue.Proofs.LogAny
import Blue.Proofs.LogTrunc
import Blue.Proofs.LogDamage
import Blue.Proofs.LogCrashAny
/-! Completeness of a cut ("a torn tail loses ONLY the tail"): every batch that lies wholly before
    the cut is delivered (`cut_keeps_whole`), hence what a cut file delivers is exactly
    `bufs.take j'` with `j'` at least the number of whole batches before the cut
    (`cut_delivers_exactly`); and the crash statement for a TORN write (`crash_torn_prefix`: any
    prefix of the bytes written since the last `fdatasync` survives). -/
namespace Blue.Log
variable {P : Params}

/-- completeness of a byte cut: every batch that lies wholly inside the cut is delivered -/
theorem cut_keeps_whole (g : Good P) :
    ∀ (bufs : List (List Nat)) (pre : List Nat) (j n : Nat),
      (∀ b ∈ bufs, b.length ≤ P.tableFull) →
      pre.length + (writeAll P (bufs.take j) pre.length).length ≤ n →
      ∃ rest, (readSome P ((pre ++ writeAll P bufs pre.length).take n) (bufs.length + 1) pre.length).1
        = bufs.take j ++ rest := by
  intro bufs
  induction bufs with
  | nil =>
    intro pre j n _ _
    refine ⟨(readSome P ((pre ++ writeAll P [] pre.length).take n) 1 pre.length).1, ?_⟩; simp
  | cons b bs ih =>
    intro pre j n hsz hn
    cases j with
    | zero =>
      refine ⟨(readSome P ((pre ++ writeAll P (b :: bs) pre.length).take n) ((b :: bs).length + 1) pre.length).1, ?_⟩
      simp
    | succ j =>
      have hB : 0 < P.B := by have := g.hB; have := g.hH; omega
      simp only [List.take_succ_cons, writeAll, List.length_append] at hn
      have hfile : pre ++ (appendAt P 2 pre.length b ++ writeAll P bs (pre.length + (appendAt P 2 pre.length b).length))
          = pre ++ appendAt P 2 pre.length b ++ writeAll P bs (pre.length + (appendAt P 2 pre.length b).length) := by
        simp
      have hr := append_read_any g pre b
        (writeAll P bs (pre.length + (appendAt P 2 pre.length b).length)) (hsz b (List.mem_cons_self ..))
      have hcut := reads_agree_before_damage hB _
        ((pre ++ appendAt P 2 pre.length b ++ writeAll P bs (pre.length + (appendAt P 2 pre.length b).length)).take n)
        n (by rw [List.take_take, Nat.min_self]) 2 pre.length _ hr (by simp only; omega)
      have ih' := ih (pre ++ appendAt P 2 pre.length b) j n (fun x hx => hsz x (List.mem_cons_of_mem _ hx))
        (by simp only [List.length_append]; omega)
      obtain ⟨rest, hrest⟩ := ih'
      refine ⟨rest, ?_⟩
      simp only [writeAll, List.length_cons, List.take_succ_cons]
      rw [readSome_succ, hfile, hcut]
      simp only [List.length_append] at hrest
      simp only
      rw [hrest]
      rfl

/-- **C12** a cut loses only the tail: the batches a log cut at byte `n` delivers are EXACTLY the
    first `j'` appended batches, and `j'` is at least the number `j` of batches whose frames lie
    wholly before the cut -/
theorem cut_delivers_exactly (g : Good P) (bufs : List (List Nat)) (j n : Nat)
    (hsz : ∀ b ∈ bufs, b.length ≤ P.tableFull)
    (hn : (writeAll P (bufs.take j) 0).length ≤ n) :
    ∃ j', min j bufs.length ≤ j' ∧ j' ≤ bufs.length
      ∧ (readSome P ((writeAll P bufs 0).take n) (bufs.length + 1) 0).1 = bufs.take j' := by
  obtain ⟨rest, hpre⟩ := truncated_log_prefix_any g bufs n hsz
  obtain ⟨rest', hkeep⟩ := cut_keeps_whole g bufs [] j n hsz (by simpa using hn)
  simp only [List.nil_append, List.length_nil] at hkeep
  generalize (readSome P ((writeAll P bufs 0).take n) (bufs.length + 1) 0).1 = del at hpre hkeep
  refine ⟨del.length, ?_, ?_, ?_⟩
  · rw [hkeep, List.length_append, List.length_take]; omega
  · have := congrArg List.length hpre
    rw [List.length_append] at this; omega
  · conv => rhs; rw [hpre]
    simp

end Blue.Log

namespace Blue.LogCrash
open Blue.Log
variable {P : Params}

/-- where the writer is after any number of events of the protocol: what is synced is the frames of
    the first `i'` batches, what is written those of the first `i`, with every acknowledged batch
    synced -/
theorem protocol_state :
    ∀ (bufs done : List (List Nat)) (st : FileSt) (k : Nat),
      st.synced = writeAll P done 0 → st.pending = [] →
      let evs := (protocol P bufs st.synced.length done.length).take k
      let st' := evs.foldl FileSt.apply st
      ∃ i i', i' ≤ i ∧ i ≤ bufs.length ∧ acked evs ≤ i'
        ∧ st'.synced = writeAll P (done ++ bufs.take i') 0
        ∧ st'.synced ++ st'.pending = writeAll P (done ++ bufs.take i) 0 := by
  intro bufs
  induction bufs with
  | nil =>
    intro done st k hs hp
    simp only [protocol, List.take_nil, List.foldl_nil, List.append_nil]
    exact ⟨0, 0, Nat.le_refl _, Nat.le_refl _, by simp [acked], hs, by rw [hp, List.append_nil, hs]⟩
  | cons b bs ih =>
    intro done st k hs hp
    have hw1 : writeAll P (done ++ [b]) 0 = st.synced ++ appendAt P 2 st.synced.length b := by
      rw [writeAll_append, ← hs]
      simp [writeAll]
    match k with
    | 0 =>
      simp only [List.take_zero, List.foldl_nil]
      exact ⟨0, 0, Nat.le_refl _, Nat.zero_le _, by simp [acked], by simpa using hs,
        by rw [hp, List.append_nil]; simpa using hs⟩
    | 1 =>
      simp only [protocol, List.take_succ_cons, List.take_zero, List.foldl_cons, List.foldl_nil, FileSt.apply]
      refine ⟨1, 0, by omega, by simp, by simp [acked], by simpa using hs, ?_⟩
      simp only [hp, List.nil_append, List.take_succ_cons, List.take_zero]
      exact hw1.symm
    | 2 =>
      simp only [protocol, List.take_succ_cons, List.take_zero, List.foldl_cons, List.foldl_nil, FileSt.apply]
      refine ⟨1, 1, Nat.le_refl _, by simp, by simp [acked], ?_, ?_⟩
      · simp only [hp, List.nil_append, List.take_succ_cons, List.take_zero]; exact hw1.symm
      · simp only [hp, List.nil_append, List.append_nil, List.take_succ_cons, List.take_zero]; exact hw1.symm
    | k + 3 =>
      simp only [protocol, List.take_succ_cons, List.foldl_cons, FileSt.apply]
      have hst : (⟨st.synced ++ (st.pending ++ appendAt P 2 st.synced.length b), []⟩ : FileSt).synced
          = writeAll P (done ++ [b]) 0 := by rw [hw1, hp]; simp
      have := ih (done ++ [b]) ⟨st.synced ++ (st.pending ++ appendAt P 2 st.synced.length b), []⟩ k hst rfl
      simp only [hp, List.nil_append, List.length_append, List.length_cons, List.length_nil, List.append_assoc,
        List.cons_append] at this ⊢
      obtain ⟨i, i', h1, h2, h3, h4, h5⟩ := this
      refine ⟨i + 1, i' + 1, by omega, by omega, ?_, ?_, ?_⟩
      · simp only [acked, List.filter_cons] at h3 ⊢; simp at h3 ⊢; omega
      · simpa using h4
      · simpa using h5

/-- **C12 / C02** crash with a TORN write: the writer is stopped between any two system calls of
    `write; fdatasync; acknowledge` and, of the bytes written since the last completed `fdatasync`,
    ANY prefix (`t` bytes) has reached the disk.  The surviving file delivers exactly the first `j`
    batches — every acknowledged one among them, never part of a batch, never an invented one —
    and then ends or reports an error.  (`t = 0` is persistence model (b), `t ≥ |pending|` is
    model (a): there `crash_prefix` also shows that the reader ends without an error.) -/
theorem crash_torn_prefix (g : Good P) (bufs done : List (List Nat)) (st : FileSt) (k t : Nat)
    (hsz : ∀ b ∈ done ++ bufs, b.length ≤ P.tableFull)
    (hs : st.synced = writeAll P done 0) (hp : st.pending = []) :
    let evs := (protocol P bufs st.synced.length done.length).take k
    let st' := evs.foldl FileSt.apply st
    ∃ j, done.length + acked evs ≤ j ∧ j ≤ (done ++ bufs).length
      ∧ (readSome P (st'.synced ++ st'.pending.take t) ((done ++ bufs).length + 1) 0).1 = (done ++ bufs).take j := by
  intro evs st'
  obtain ⟨i, i', hii, hi, hack, hsy, hall⟩ := protocol_state (P := P) bufs done st k hs hp
  change acked evs ≤ i' at hack
  change st'.synced = _ at hsy
  change st'.synced ++ st'.pending = _ at hall
  -- the torn file is a byte prefix of the whole log
  have hW : writeAll P (done ++ bufs) 0
      = writeAll P (done ++ bufs.take i) 0
        ++ writeAll P (bufs.drop i) (0 + (writeAll P (done ++ bufs.take i) 0).length) := by
    rw [← writeAll_append, List.append_assoc, List.take_append_drop]
  have hpre : (st'.synced ++ st'.pending.take t) <+: writeAll P (done ++ bufs) 0 := by
    rw [hW, ← hall]
    refine ⟨st'.pending.drop t ++ writeAll P (bufs.drop i) (0 + (st'.synced ++ st'.pending).length), ?_⟩
    simp only [List.append_assoc, List.length_append, Nat.zero_add]
    rw [← List.append_assoc (st'.pending.take t), List.take_append_drop]
  have htake : st'.synced ++ st'.pending.take t
      = (writeAll P (done ++ bufs) 0).take (st'.synced ++ st'.pending.take t).length :=
    List.prefix_iff_eq_take.mp hpre
  have hwhole : (writeAll P ((done ++ bufs).take (done.length + i')) 0).length
      ≤ (st'.synced ++ st'.pending.take t).length := by
    have : (done ++ bufs).take (done.length + i') = done ++ bufs.take i' := by
      rw [List.take_append]
      rw [List.take_of_length_le (by omega), Nat.add_sub_cancel_left]
    rw [this, ← hsy, List.length_append]; omega
  obtain ⟨j', h1, h2, h3⟩ := cut_delivers_exactly g (done ++ bufs) (done.length + i')
    (st'.synced ++ st'.pending.take t).length hsz hwhole
  refine ⟨j', ?_, h2, ?_⟩
  · have : done.length + i' ≤ (done ++ bufs).length := by rw [List.length_append]; omega
    omega
  · rw [htake]; exact h3

end Blue.LogCrash

#print axioms Blue.Log.cut_keeps_whole
#print axioms Blue.Log.cut_delivers_exactly
#print axioms Blue.LogCrash.crash_torn_prefix
