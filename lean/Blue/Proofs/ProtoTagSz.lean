import Blue.Proofs.ProtoSz
/-! `Tag::pack_sz` in closed form (property C15): the size classes of a tag, i.e. the field numbers
    at which the tag's varint grows a byte (2^4, 2^11, 2^18, 2^25).  A seeded change that bucketed
    the tag with a wrong bound lived exactly on the last of these boundaries. -/
namespace Blue.ProtoMsg
open Blue.Wire

theorem varintSz_classes (x : Nat) (hx : x < 2 ^ 32) :
    varintSz x = if x < 2 ^ 7 then 1 else if x < 2 ^ 14 then 2 else if x < 2 ^ 21 then 3
      else if x < 2 ^ 28 then 4 else 5 := by
  unfold varintSz
  simp only [varintSzAux]
  repeat' split
  all_goals omega

theorem wt_bits_lt (w : WT) : w.bits < 8 := by cases w <;> decide

/-- the size query of a tag with a valid field number, as a table of field-number ranges; it is
    also the number of bytes `Tag::pack` writes -/
theorem szTag_classes (t : Tag) (ht : validFieldNumber t.num = true) :
    szTag t = (if t.num < 2 ^ 4 then 1 else if t.num < 2 ^ 11 then 2 else if t.num < 2 ^ 18 then 3
      else if t.num < 2 ^ 25 then 4 else 5)
    ∧ szTag t = (encTag t).length := by
  refine ⟨?_, szTag_eq t ht⟩
  have hb := wt_bits_lt t.wt
  have hn : t.num ≤ 536870911 := by
    unfold validFieldNumber at ht
    simp only [Bool.and_eq_true, decide_eq_true_eq] at ht
    exact ht.1.2
  unfold szTag
  rw [varintSz_classes _ (by omega)]
  repeat' split
  all_goals omega

end Blue.ProtoMsg
