import Blue.Proofs.TupleKey1T
import Blue.Proofs.TupleDecode
import Blue.Proofs.TupleStringDecode
/-! **C16** field-numbered format: `TupleKeyParser` with the writer's element sequence gives the
    tuple back.  Every tag and every element (in either direction) is a run of bytes with the low
    bit set closed by one byte with the low bit clear (`Shape`), which is what `TupleKeyIterator`
    cuts at; `reverse_encoding` is an involution on bytes. -/
namespace Blue.TupleKey1
open Blue.TupleKey2 (blt)

/-- bytes with the low bit set, then one with the low bit clear -/
def Shape (e : List Nat) : Prop :=
  ∃ init last, e = init ++ [last] ∧ (∀ b ∈ init, b % 2 = 1) ∧ last % 2 = 0

theorem Shape.ne_nil {e : List Nat} (h : Shape e) : e ≠ [] := by
  obtain ⟨i, l, rfl, _, _⟩ := h; simp

theorem splitElem_odd {b : Nat} (h : b % 2 = 1) (r : List Nat) :
    splitElem (b :: r) = (b :: (splitElem r).1, (splitElem r).2) := by
  rw [splitElem, if_pos h]

theorem splitElem_even {b : Nat} (h : b % 2 = 0) (r : List Nat) : splitElem (b :: r) = ([b], r) := by
  rw [splitElem, if_neg (by omega)]

/-- the iterator cuts exactly after an element -/
theorem splitElem_shape {e : List Nat} (h : Shape e) (rest : List Nat) : splitElem (e ++ rest) = (e, rest) := by
  obtain ⟨init, last, rfl, hodd, heven⟩ := h
  induction init with
  | nil => simp only [List.nil_append, List.cons_append]; exact splitElem_even heven rest
  | cons b i ih =>
    have hb : b % 2 = 1 := hodd b (by simp)
    simp only [List.cons_append]
    rw [splitElem_odd hb]
    have := ih (fun c hc => hodd c (List.mem_cons_of_mem _ hc))
    simp only [List.append_assoc, List.cons_append, List.nil_append] at this ⊢
    rw [this]

theorem revByte_mod2 (b : Nat) : revByte b % 2 = b % 2 := by unfold revByte; omega

theorem revByte_revByte (b : Nat) (h : b < 256) : revByte (revByte b) = b := by unfold revByte; omega

theorem reverse_reverse (l : List Nat) (h : ∀ b ∈ l, b < 256) : reverse (reverse l) = l := by
  unfold reverse
  rw [List.map_map]
  conv => rhs; rw [← List.map_id l]
  apply List.map_congr_left
  intro b hb
  exact revByte_revByte b (h b hb)

theorem shape_reverse {e : List Nat} (h : Shape e) : Shape (reverse e) := by
  obtain ⟨init, last, rfl, hodd, heven⟩ := h
  refine ⟨reverse init, revByte last, ?_, ?_, ?_⟩
  · simp [reverse]
  · intro b hb
    simp only [reverse, List.mem_map] at hb
    obtain ⟨c, hc, rfl⟩ := hb
    rw [revByte_mod2]; exact hodd c hc
  · rw [revByte_mod2]; exact heven

theorem shape_encDir {e : List Nat} (h : Shape e) (d : Dir) : Shape (encDir d e) := by
  cases d
  · exact h
  · exact shape_reverse h

/-! ### shapes of the tag and of every element -/

theorem varint_shape : ∀ (fuel x : Nat), x < 128 ^ fuel → 0 < fuel → Shape ((varint fuel x).map rotl1)
  | 0, _, _, h => by omega
  | fuel + 1, x, hx, _ => by
    rw [varint]
    by_cases h : x < 128
    · rw [if_pos h]
      exact ⟨[], rotl1 x, rfl, by simp, by unfold rotl1; omega⟩
    · rw [if_neg h]
      have hf : 0 < fuel := by
        cases fuel with
        | zero => simp at hx; omega
        | succ n => omega
      have hx' : x / 128 < 128 ^ fuel := by
        rw [Nat.pow_succ] at hx
        exact Nat.div_lt_of_lt_mul (by rw [Nat.mul_comm]; exact hx)
      obtain ⟨i, l, he, hodd, heven⟩ := varint_shape fuel (x / 128) hx' hf
      refine ⟨rotl1 (x % 128 + 128) :: i, l, ?_, ?_, heven⟩
      · simp only [List.map_cons, List.cons_append, he]
      · intro b hb
        simp only [List.mem_cons] at hb
        rcases hb with rfl | hb
        · unfold rotl1; omega
        · exact hodd b hb

theorem discriminant_lt (ty : Ty) (d : Dir) : discriminant ty d < 16 := by
  cases ty <;> cases d <;> decide

theorem validField_lt {f : Nat} (h : validField f = true) : f < 536870912 := by
  unfold validField lastFieldNumber at h
  simp only [Bool.and_eq_true, decide_eq_true_eq] at h
  omega

theorem tag_shape {f : Nat} (hf : validField f = true) (ty : Ty) (d : Dir) : Shape (tag f ty d) := by
  unfold tag
  apply varint_shape
  · have := validField_lt hf
    have := discriminant_lt ty d
    simp only [Nat.reducePow]
    omega
  · omega

theorem encU32_shape (x : Nat) : Shape (encU32 x) :=
  ⟨[or1 (x / 2 ^ 24 % 256), or1 (x / 2 ^ 17 % 256), or1 (x / 2 ^ 10 % 256), or1 (x / 2 ^ 3 % 256)],
   x % 16 * 16, rfl,
   by intro b hb; simp only [List.mem_cons, List.not_mem_nil, or_false] at hb
      rcases hb with rfl | rfl | rfl | rfl <;> (unfold or1; omega),
   by omega⟩

theorem encU64_shape (x : Nat) : Shape (encU64 x) :=
  ⟨[or1 (x / 2 ^ 56 % 256), or1 (x / 2 ^ 49 % 256), or1 (x / 2 ^ 42 % 256), or1 (x / 2 ^ 35 % 256),
    or1 (x / 2 ^ 28 % 256), or1 (x / 2 ^ 21 % 256), or1 (x / 2 ^ 14 % 256), or1 (x / 2 ^ 7 % 256),
    or1 (x % 256)],
   x % 2 * 128, rfl,
   by intro b hb; simp only [List.mem_cons, List.not_mem_nil, or_false] at hb
      rcases hb with rfl | rfl | rfl | rfl | rfl | rfl | rfl | rfl | rfl <;> (unfold or1; omega),
   by omega⟩

theorem chunks_shape : ∀ (f : Nat) (bl : List Nat), bl ≠ [] → bl.length < f → Shape (chunks f bl)
  | 0, _, _, h => by omega
  | f + 1, bl, hne, hlen => by
    rw [chunks_succ]
    by_cases h7 : bl.length > 7
    · rw [if_pos h7]
      have hd : (bl.drop 7).length = bl.length - 7 := List.length_drop
      have hne' : bl.drop 7 ≠ [] := by
        intro h; rw [h] at hd; simp at hd; omega
      obtain ⟨i, l, he, hodd, heven⟩ := chunks_shape f (bl.drop 7) hne' (by omega)
      refine ⟨(2 * val7 (bl.take 7) 7 + 1) :: i, l, by rw [he]; rfl, ?_, heven⟩
      intro b hb
      simp only [List.mem_cons] at hb
      rcases hb with rfl | hb
      · omega
      · exact hodd b hb
    · rw [if_neg h7]
      have hpos : bl.length > 0 := List.length_pos_iff.mpr hne
      rw [if_pos hpos]
      exact ⟨[], 2 * val7 bl 7, rfl, by simp, by omega⟩

theorem encString_shape (s : List Nat) : Shape (encString s) := by
  by_cases hne : s = []
  · subst hne
    have h0 : encString [] = [0] := by decide
    rw [h0]; exact ⟨[], 0, rfl, by simp, rfl⟩
  · rw [encString_nonempty s hne]
    apply chunks_shape
    · intro h
      have := congrArg List.length h
      rw [bits_length] at this
      have := List.length_pos_iff.mpr hne
      simp at *; omega
    · rw [bits_length]; omega

theorem encElem_shape (v : Val) : Shape (encElem v) := by
  cases v with
  | unit => exact ⟨[], 0, rfl, by simp, rfl⟩
  | u32 n => exact encU32_shape n
  | u64 n => exact encU64_shape n
  | i32 z => exact encU32_shape _
  | i64 z => exact encU64_shape _
  | str s => exact encString_shape s

theorem encU32_lt (x : Nat) : ∀ b ∈ encU32 x, b < 256 := by
  intro b hb
  simp only [encU32, List.mem_cons, List.not_mem_nil, or_false] at hb
  rcases hb with rfl | rfl | rfl | rfl | rfl <;> (try unfold or1) <;> omega

theorem encU64_lt (x : Nat) : ∀ b ∈ encU64 x, b < 256 := by
  intro b hb
  simp only [encU64, List.mem_cons, List.not_mem_nil, or_false] at hb
  rcases hb with rfl | rfl | rfl | rfl | rfl | rfl | rfl | rfl | rfl | rfl <;> (try unfold or1) <;> omega

theorem encElem_lt (v : Val) : ∀ b ∈ encElem v, b < 256 := by
  cases v with
  | unit => intro b hb; simp only [encElem, List.mem_cons, List.not_mem_nil, or_false] at hb; omega
  | u32 n => exact encU32_lt n
  | u64 n => exact encU64_lt n
  | i32 z => exact encU32_lt _
  | i64 z => exact encU64_lt _
  | str s => exact encString_lt s

theorem encDir_encDir (d : Dir) (v : Val) : encDir d (encDir d (encElem v)) = encElem v := by
  cases d
  · rfl
  · exact reverse_reverse _ (encElem_lt v)

/-! ### the parser -/

/-- the conditions of `extend_with_key` on one element: a field number `FieldNumber::new`
    accepts, a value of its Rust type, a `String` that is UTF-8 -/
def ElemOk (e : Nat × Dir × Val) : Prop :=
  validField e.1 = true ∧ e.2.2.InRange ∧ ∀ s, e.2.2 = .str s → Blue.Utf8.valid s = true

theorem parseFrom_encElem (v : Val) (hr : v.InRange) (hu : ∀ s, v = .str s → Blue.Utf8.valid s = true) :
    parseFrom v.ty (encElem v) = .ok v := by
  cases v with
  | unit => rfl
  | u32 n => simp only [Val.ty, encElem, parseFrom, decU32_enc n hr]
  | u64 n => simp only [Val.ty, encElem, parseFrom, decU64_enc n hr]
  | i32 z => simp only [Val.ty, encElem, parseFrom, decI32_enc z hr.1 hr.2]
  | i64 z => simp only [Val.ty, encElem, parseFrom, decI64_enc z hr.1 hr.2]
  | str s =>
    simp only [Val.ty, encElem, parseFrom, decString_encString s hr]
    rw [if_pos (hu s rfl)]

theorem parseTag_tag {f : Nat} (hf : validField f = true) (ty : Ty) (d : Dir) (rest : List Nat) :
    parseTag (tag f ty d ++ rest) f ty d = .ok rest := by
  have hs := tag_shape hf ty d
  have hsplit := splitElem_shape hs rest
  unfold parseTag
  cases hc : tag f ty d ++ rest with
  | nil => exact absurd (List.append_eq_nil_iff.mp hc).1 hs.ne_nil
  | cons b r =>
    simp only
    rw [← hc, hsplit]
    simp

/-- **C16** one element decodes back and the parser stands exactly behind it -/
theorem parseWithKey_encField (e : Nat × Dir × Val) (h : ElemOk e) (rest : List Nat) :
    parseWithKey (encField e.1 e.2.1 e.2.2 ++ rest) e.1 e.2.2.ty e.2.1 = .ok (e.2.2, rest) := by
  obtain ⟨f, d, v⟩ := e
  obtain ⟨hf, hr, hu⟩ := h
  simp only at hf hr hu ⊢
  unfold parseWithKey encField
  rw [List.append_assoc, parseTag_tag hf]
  have hs : Shape (encDir d (encElem v)) := shape_encDir (encElem_shape v) d
  have hsplit := splitElem_shape hs rest
  cases hc : encDir d (encElem v) ++ rest with
  | nil => exact absurd (List.append_eq_nil_iff.mp hc).1 hs.ne_nil
  | cons b r =>
    simp only
    rw [← hc, hsplit]
    simp only
    rw [encDir_encDir, parseFrom_encElem v hr hu]

/-- the element sequence the writer used -/
def schemaOf (t : List (Nat × Dir × Val)) : List (Nat × Ty × Dir) := t.map fun e => (e.1, e.2.2.ty, e.2.1)

/-- **C16** decoding an encoding with the writer's type sequence returns the tuple (and leaves
    what follows the key untouched) -/
theorem parseRow_encTuple (t : List (Nat × Dir × Val)) (h : ∀ e ∈ t, ElemOk e) (rest : List Nat) :
    parseRow (schemaOf t) (encTuple t ++ rest) = (t.map (fun e => e.2.2), .ok rest) := by
  induction t with
  | nil => rfl
  | cons e t ih =>
    have he := h e (by simp)
    have := parseWithKey_encField e he (encTuple t ++ rest)
    obtain ⟨f, d, v⟩ := e
    simp only [schemaOf, List.map_cons, encTuple, parseRow, List.append_assoc] at this ⊢
    rw [this]
    simp only
    have ih' := ih (fun e he => h e (List.mem_cons_of_mem _ he))
    simp only [schemaOf] at ih'
    rw [ih']

end Blue.TupleKey1
