import Blue.Model.FileRefs
namespace Blue.FileRefs
variable {F : Type} [DecidableEq F]

/-- how many counted versions list `f` (with multiplicity) -/
def expected : List (Ver F) → F → Nat
  | [], _ => 0
  | v :: t, f => (if v.counted then v.files.count f else 0) + expected t f

theorem expected_append (xs ys : List (Ver F)) (f : F) : expected (xs ++ ys) f = expected xs f + expected ys f := by
  induction xs with
  | nil => simp [expected]
  | cons v t ih => simp only [List.cons_append, expected, ih]; omega

theorem expected_set (vs : List (Ver F)) (i : Nat) (v w : Ver F) (f : F) (h : vs[i]? = some v) :
    expected (vs.set i w) f + (if v.counted then v.files.count f else 0)
      = expected vs f + (if w.counted then w.files.count f else 0) := by
  induction vs generalizing i with
  | nil => simp at h
  | cons a t ih =>
    cases i with
    | zero => simp at h; subst h; simp only [List.set_cons_zero, expected]; omega
    | succ j =>
      simp at h
      have := ih j h
      simp only [List.set_cons_succ, expected]; omega

theorem setAt_eq (vs : List (Ver F)) (i : Nat) (g : Ver F → Ver F) (v : Ver F) (h : vs[i]? = some v) :
    setAt vs i g = vs.set i (g v) := by
  unfold setAt; rw [h]

/-- one decrement -/
def unrefOne (s : St F) (f : F) : St F :=
  let c := s.refs f - 1
  let refs := fun g => if g = f then c else s.refs g
  if c = 0 then { s with refs := refs, sst := s.sst.filter (· ≠ f), trash := f :: s.trash }
  else { s with refs := refs }

theorem unrefFiles_eq (s : St F) (fs : List F) : unrefFiles s fs = fs.foldl unrefOne s := rfl

theorem unrefOne_versions (s : St F) (f : F) : (unrefOne s f).versions = s.versions := by
  unfold unrefOne; simp only; split <;> rfl

theorem unrefOne_refs (s : St F) (f g : F) : (unrefOne s f).refs g = if g = f then s.refs f - 1 else s.refs g := by
  unfold unrefOne; simp only; split <;> rfl

/-- a file whose count is still positive is still in `sst/` -/
theorem unrefOne_safe (s : St F) (f : F) (h : ∀ g, s.refs g > 0 → g ∈ s.sst) :
    ∀ g, (unrefOne s f).refs g > 0 → g ∈ (unrefOne s f).sst := by
  intro g hg
  rw [unrefOne_refs] at hg
  unfold unrefOne
  simp only
  by_cases hgf : g = f
  · subst hgf
    simp only [if_true] at hg
    rw [if_neg (by omega)]
    exact h g (by omega)
  · simp only [hgf, if_false] at hg
    split
    · simp only [List.mem_filter, ne_eq, decide_not, Bool.not_eq_true', decide_eq_false_iff_not]
      exact ⟨h g hg, hgf⟩
    · exact h g hg

theorem unrefFiles_versions (fs : List F) : ∀ s : St F, (unrefFiles s fs).versions = s.versions := by
  induction fs with
  | nil => intro s; rfl
  | cons f t ih => intro s; rw [unrefFiles_eq, List.foldl_cons, ← unrefFiles_eq, ih, unrefOne_versions]

theorem unrefFiles_refs (fs : List F) : ∀ (s : St F) (g : F), (unrefFiles s fs).refs g = s.refs g - fs.count g := by
  induction fs with
  | nil => intro s g; simp [unrefFiles]
  | cons f t ih =>
    intro s g
    rw [unrefFiles_eq, List.foldl_cons, ← unrefFiles_eq, ih, unrefOne_refs, List.count_cons]
    by_cases hgf : g = f
    · subst hgf; simp; omega
    · have : (f == g) = false := by simp; exact fun h => hgf h.symm
      simp [hgf, this]

theorem unrefFiles_safe (fs : List F) : ∀ (s : St F), (∀ g, s.refs g > 0 → g ∈ s.sst) →
    ∀ g, (unrefFiles s fs).refs g > 0 → g ∈ (unrefFiles s fs).sst := by
  induction fs with
  | nil => intro s h; exact h
  | cons f t ih =>
    intro s h
    rw [unrefFiles_eq, List.foldl_cons, ← unrefFiles_eq]
    exact ih _ (unrefOne_safe s f h)

structure Inv (s : St F) : Prop where
  /-- the counter is exact -/
  refs_eq : ∀ f, s.refs f = expected s.versions f
  /-- a held version has been counted -/
  held_counted : ∀ v ∈ s.versions, v.holders ≥ 1 → v.counted = true
  /-- a file with a positive count is in `sst/` -/
  safe : ∀ f, s.refs f > 0 → f ∈ s.sst

/-- **C08** every file of every version somebody still holds is in `sst/` -/
theorem held_files_present {s : St F} (h : Inv s) (v : Ver F) (hv : v ∈ s.versions) (hh : v.holders ≥ 1)
    (f : F) (hf : f ∈ v.files) : f ∈ s.sst := by
  apply h.safe
  rw [h.refs_eq]
  have hc := h.held_counted v hv hh
  have hpos : 0 < v.files.count f := List.count_pos_iff.mpr hf
  -- `v` contributes to the expected count
  have : ∀ (vs : List (Ver F)), v ∈ vs → v.files.count f ≤ expected vs f := by
    intro vs
    induction vs with
    | nil => intro h; cases h
    | cons a t ih =>
      intro hm
      simp only [List.mem_cons] at hm
      simp only [expected]
      rcases hm with rfl | hm
      · rw [hc]; simp
      · have := ih hm; omega
  have := this s.versions hv
  omega

theorem expected_ge_of_counted (vs : List (Ver F)) (i : Nat) (v : Ver F) (f : F) (h : vs[i]? = some v)
    (hc : v.counted = true) : v.files.count f ≤ expected vs f := by
  induction vs generalizing i with
  | nil => simp at h
  | cons a t ih =>
    cases i with
    | zero => simp at h; subst h; simp only [expected, hc, if_true]; omega
    | succ j => simp at h; have := ih j h; simp only [expected]; omega

theorem mem_set_cases (vs : List (Ver F)) (i : Nat) (w x : Ver F) (h : x ∈ vs.set i w) : x = w ∨ x ∈ vs := by
  rcases List.mem_or_eq_of_mem_set h with h | h
  · exact Or.inr h
  · exact Or.inl h

/-- dropping the last holder of a counted version: un-count it and decrement its files -/
theorem inv_uncount {s : St F} (h : Inv s) (i : Nat) (v : Ver F) (hv : s.versions[i]? = some v)
    (hc : v.counted = true) :
    Inv (unrefFiles { s with versions := s.versions.set i { v with holders := 0, counted := false } } v.files) := by
  refine ⟨?_, ?_, ?_⟩
  · intro f
    rw [unrefFiles_refs, unrefFiles_versions]
    have hs := expected_set s.versions i v { v with holders := 0, counted := false } f hv
    simp only [hc, if_true, Bool.false_eq_true, if_false] at hs
    have := h.refs_eq f
    simp only at this ⊢
    omega
  · intro x hx hh
    rw [unrefFiles_versions] at hx
    rcases mem_set_cases _ _ _ _ hx with rfl | hx
    · simp at hh
    · exact h.held_counted x hx hh
  · exact unrefFiles_safe v.files _ h.safe

/-- changing only the holder count of a version -/
theorem inv_holders {s : St F} (h : Inv s) (i : Nat) (v : Ver F) (hv : s.versions[i]? = some v) (n : Nat)
    (hn : n ≥ 1 → v.counted = true) :
    Inv { s with versions := s.versions.set i { v with holders := n } } := by
  refine ⟨?_, ?_, h.safe⟩
  · intro f
    have hs := expected_set s.versions i v { v with holders := n } f hv
    have := h.refs_eq f
    simp only at hs this ⊢
    omega
  · intro x hx hh
    rcases mem_set_cases _ _ _ _ hx with rfl | hx
    · exact hn hh
    · exact h.held_counted x hx hh

/-- the current version is counted and held by the tree -/
def CurOk (s : St F) : Prop := ∀ v, s.versions[s.versions.length - 1]? = some v → v.counted = true ∧ v.holders ≥ 1

theorem inv_snapshot {s : St F} (h : Inv s) (hc : CurOk s) : Inv (step s .snapshot) := by
  simp only [step]
  cases hv : s.versions[s.versions.length - 1]? with
  | none => simp only [setAt, hv]; exact h
  | some v =>
    rw [setAt_eq _ _ _ v hv]
    exact inv_holders h _ v hv _ (fun _ => (hc v hv).1)

theorem inv_release {s : St F} (h : Inv s) (i : Nat) : Inv (step s (.release i)) := by
  simp only [step]
  cases hv : s.versions[i]? with
  | none => exact h
  | some v =>
    simp only
    split
    · split
      · rw [setAt_eq _ _ _ v hv]
        exact inv_holders h i v hv _ (fun _ => h.held_counted v (List.mem_of_getElem? hv) (by omega))
      · exact h
    · split
      · rename_i hlast
        rw [setAt_eq _ _ _ v hv]
        exact inv_uncount h i v hv hlast.2
      · split
        · rw [setAt_eq _ _ _ v hv]
          exact inv_holders h i v hv _ (fun _ => h.held_counted v (List.mem_of_getElem? hv) (by omega))
        · exact h

theorem inv_install {s : St F} (h : Inv s) (files : List F) : Inv (step s (.install files)) := by
  simp only [step]
  -- the state after `explicit_ref(new)` and the swap
  have h2 : Inv ({ s with refs := incAll s.refs files,
                          sst := s.sst ++ files.filter (fun f => !s.sst.contains f),
                          versions := s.versions ++ [⟨files, 1, true⟩] } : St F) := by
    refine ⟨?_, ?_, ?_⟩
    · intro f
      simp only [incAll, expected_append, expected, if_true]
      have := h.refs_eq f; omega
    · intro x hx hh
      simp only [List.mem_append, List.mem_cons, List.not_mem_nil, or_false] at hx
      rcases hx with hx | rfl
      · exact h.held_counted x hx hh
      · rfl
    · intro f hf
      simp only [incAll] at hf
      simp only [List.mem_append, List.mem_filter, Bool.not_eq_true', List.contains_eq_mem, decide_eq_false_iff_not]
      by_cases hin : f ∈ s.sst
      · exact Or.inl hin
      · right
        refine ⟨?_, hin⟩
        by_cases hr : s.refs f > 0
        · exact absurd (h.safe f hr) hin
        · have : 0 < files.count f := by omega
          exact List.count_pos_iff.mp this
  cases hv : s.versions[s.versions.length - 1]? with
  | none => exact h2
  | some old =>
    simp only
    have hlt : s.versions.length - 1 < s.versions.length := (List.getElem?_eq_some_iff.mp hv).1
    have hv2 : (s.versions ++ [⟨files, 1, true⟩])[s.versions.length - 1]? = some old := by
      rw [List.getElem?_append_left hlt]; exact hv
    split
    · rename_i hone
      rw [setAt_eq _ _ _ old hv2]
      have hc : old.counted = true := h.held_counted old (List.mem_of_getElem? hv) (by omega)
      exact inv_uncount h2 _ old hv2 hc
    · rw [setAt_eq _ _ _ old hv2]
      exact inv_holders h2 _ old hv2 _
        (fun hn => h.held_counted old (List.mem_of_getElem? hv) (by omega))

end Blue.FileRefs

#print axioms Blue.FileRefs.held_files_present
#print axioms Blue.FileRefs.inv_install
#print axioms Blue.FileRefs.inv_release
