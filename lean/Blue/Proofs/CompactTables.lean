import Blue.Proofs.CompactCut
import Blue.Proofs.FamilyExists
import Blue.Proofs.Compaction
/-! **C05** the conservation theorems without the owner-tagged list `M` in the statement, and the
    step from conservation to unchanged reads.

* `merged_eq_dups` — `merged_eq` for `FamilyW` (the same entry may be in several input tables);
* `merged_eq_tables` — for ANY strictly sorted input tables the compaction loop over the
  merging-cursor model reads `mergedList lt tables` (a weakly sorted permutation of the inputs);
* `pipeline_conserves_tables` — cut at any cut vector, the pieces are a permutation of the inputs;
* `pipeline_reads_unchanged` — composition with `compaction_reads_unchanged` (C01): a *closed*
  compaction whose inputs are strictly sorted components without a common version, merged through
  the merging-cursor model and cut anywhere, changes no point read at any key and timestamp. -/
namespace Blue.Compact
open Blue.Cursor
variable {E : Type}

/-- `merged_eq` when several input tables may hold the same entry -/
theorem merged_eq_dups {lt : E → E → Bool} {M : List (E × Nat)} {k : Nat} (st : StrictTotal lt)
    (fam : FamilyW lt M k) (tables : List (List E))
    (ht : tables.Perm ((List.range k).map (childList M))) :
    merged lt tables = M.map (·.1) := by
  unfold merged
  have hlen : (tables.map List.length).sum = M.length := by
    have h1 : (tables.map List.length).sum = tables.flatten.length := by
      rw [List.length_flatten]
    rw [h1, (ht.flatten).length_eq, (children_perm_merged k M fam.owner).length_eq, List.length_map]
  rw [hlen, drainFrom_run]
  have hcs : ((tables.map fun t => (⟨t, 0⟩ : Ref E)).map (·.xs)).Perm ((List.range k).map (childList M)) := by
    rw [List.map_map]
    have : ∀ l : List (List E), l.map ((fun c : Ref E => c.xs) ∘ fun t => (⟨t, 0⟩ : Ref E)) = l := by
      intro l
      induction l with
      | nil => rfl
      | cons a l ih => simp only [List.map_cons, ih]; rfl
    rw [this]; exact ht
  have hrun := (merging_refines_dups st fam (tables.map fun t => ⟨t, 0⟩) hcs
    (Op.first :: List.replicate (M.length + 1) Op.next)
    (by intro pred hp; simp [List.mem_replicate] at hp)).2
  simp only [Merging.run, Ref.run] at hrun
  have htail := (List.cons.inj hrun).2
  simp only [Merging.step] at htail
  rw [htail]
  have hfirst : (Ref.mk (M.map (·.1)) 0).step Op.first = ⟨M.map (·.1), 0⟩ := rfl
  rw [hfirst, ref_run_next _ _ 0 (by simp)]
  have := someTake_range (M.map (·.1)) (M.length + 1) (by simp)
  simpa using this

/-- **what the compaction loop reads, for ANY strictly sorted input tables** (no `M`): the sorted
    union with multiplicity -/
theorem merged_eq_tables {lt : E → E → Bool} (st : StrictTotal lt) (tables : List (List E))
    (hs : ∀ t ∈ tables, t.Pairwise (fun a b => lt a b = true)) :
    merged lt tables = mergedList lt tables := by
  have h := mergedOf_familyW st tables hs
  exact merged_eq_dups st h.1 tables (by rw [h.2])

/-- **conservation, for ANY strictly sorted input tables and ANY cut vector**: the output pieces
    hold a permutation of the union of the inputs -/
theorem pipeline_conserves_tables {lt : E → E → Bool} (st : StrictTotal lt) (tables : List (List E))
    (hs : ∀ t ∈ tables, t.Pairwise (fun a b => lt a b = true)) (cuts : List Nat) :
    ((Blue.Compact.cut cuts (merged lt tables)).flatten).Perm tables.flatten := by
  rw [merged_eq_tables st tables hs, cut_eq, cut_flatten]
  exact mergedList_perm lt tables

/-- the pieces, concatenated, are strictly sorted when no entry is in two inputs -/
theorem pipeline_sorted {lt : E → E → Bool} (st : StrictTotal lt) (tables : List (List E))
    (hs : ∀ t ∈ tables, t.Pairwise (fun a b => lt a b = true)) (hnd : tables.flatten.Nodup)
    (cuts : List Nat) :
    ((Blue.Compact.cut cuts (merged lt tables)).flatten).Pairwise (fun a b => lt a b = true) := by
  rw [merged_eq_tables st tables hs, cut_eq, cut_flatten]
  exact (mergedOf_family st tables hs hnd).1.sorted

end Blue.Compact

namespace Blue.Spec
open Blue.Cursor
variable {K : Type} [DecidableEq K]

/-- under "newer above" two different components share no version, and a strictly sorted component
    repeats none: the inputs of a compaction hold every version once -/
theorem inputs_nodup {klt : K → K → Bool} (st : StrictTotal klt) (pre : Tagged K)
    (post : List (List (Ver K))) (h : NewerAbove (pre.map (·.2) ++ post))
    (hs : ∀ c ∈ inputs pre, Sorted klt c) : (inputs pre).flatten.Nodup := by
  rw [List.nodup_iff_pairwise_ne, List.pairwise_flatten]
  constructor
  · intro c hc
    rw [← List.nodup_iff_pairwise_ne]
    exact nodup_of_strict (vlt_strictTotal st) (hs c hc)
  · rw [newerAbove_iff_pairwise, List.pairwise_append] at h
    refine (h.1.sublist (inputs_sublist pre)).imp ?_
    intro c d hcd a ha b hb e
    subst e
    have := hcd a ha a hb rfl
    omega

/-- **conservation ⇒ unchanged reads**: the components of a store in search order (`pre ++ post`,
    "newer above"), a *closed* selection of inputs, each input strictly sorted (key ↑, ts ↓).  Replace the inputs by the pieces of the merging-cursor model's merged
    run cut at ANY cut vector: every point read, at every key and timestamp, is unchanged. -/
theorem pipeline_reads_unchanged {klt : K → K → Bool} (st : StrictTotal klt) (pre : Tagged K)
    (post : List (List (Ver K))) (h : NewerAbove (pre.map (·.2) ++ post)) (hclosed : Closed pre)
    (hs : ∀ c ∈ inputs pre, Sorted klt c) (cuts : List Nat) (k : K) (t : Nat) :
    load (kept pre ++ Blue.Compact.cut cuts (Blue.Compact.merged (vlt klt) (inputs pre)) ++ post) k t
      = load (pre.map (·.2) ++ post) k t := by
  apply compaction_reads_unchanged pre post _ h hclosed
  · intro e
    exact (Blue.Compact.pipeline_conserves_tables (vlt_strictTotal st) (inputs pre) hs cuts).mem_iff
  · exact pieces_newer st _ (Blue.Compact.pipeline_sorted (vlt_strictTotal st) (inputs pre) hs
      (inputs_nodup st pre post h hs) cuts)

end Blue.Spec

#print axioms Blue.Compact.merged_eq_tables
#print axioms Blue.Compact.pipeline_conserves_tables
#print axioms Blue.Spec.pipeline_reads_unchanged
