import Blue.Proofs.MergingSeek
namespace Blue.Cursor
open Blue.Heap

variable {E : Type} {lt : E → E → Bool} {M : List (E × Nat)} {k : Nat}

theorem kv_gAt_succ_owner (q : Nat) (e : E) (o : Nat) (hq : M[q]? = some (e, o)) :
    (gAt M o (q+1)).kv = some e := by
  rw [kv_gAt, before_succ M o q e o hq]
  simp [childList_get_owner M o q e hq]

/-- a current entry of a child positioned by `gAt … p` lies among the first `p` merged entries -/
theorem gAt_kv_mem (j p : Nat) (e : E) (h : (gAt M j p).kv = some e) : (e, j) ∈ M.take p := by
  rw [kv_gAt] at h
  split at h
  · cases h
  · rename_i hb
    have hb' : 0 < ((M.take p).filter (fun x => x.2 == j)).length := by
      unfold before at hb; omega
    unfold childList at h
    unfold before at h
    conv at h => lhs; arg 1; rw [← List.take_append_drop p M, List.filter_append, List.map_append]
    rw [List.getElem?_append_left (by simp; omega)] at h
    have hm : e ∈ ((M.take p).filter (fun x => x.2 == j)).map (·.1) := List.mem_of_getElem? h
    rw [List.mem_map] at hm
    obtain ⟨⟨e', o⟩, hm, rfl⟩ := hm
    rw [List.mem_filter] at hm
    have : o = j := by simpa using hm.2
    subst this
    exact hm.1

theorem Family.not_lt_of_mem_take (st : StrictTotal lt) (fam : Family lt M k) (q : Nat) (e e' : E) (o o' : Nat)
    (hq : M[q]? = some (e, o)) (hm : (e', o') ∈ M.take (q+1)) : lt e e' = false := by
  have hqlt : q < M.length := by
    rcases List.getElem?_eq_some_iff.mp hq with ⟨h, _⟩; exact h
  have hMq : M[q] = (e, o) := by
    have := List.getElem?_eq_getElem hqlt; rw [this] at hq; exact Option.some.inj hq
  rw [List.take_add_one, List.getElem?_eq_getElem hqlt, hMq] at hm
  simp only [Option.toList_some, List.mem_append, List.mem_singleton] at hm
  rcases hm with h | h
  · have hs := fam.sorted
    rw [← List.take_append_drop q M, List.map_append] at hs
    have hs2 := (List.pairwise_append.mp hs).2.2
    have he' : e' ∈ (M.take q).map (·.1) := by
      rw [List.mem_map]; exact ⟨(e', o'), h, rfl⟩
    have he : e ∈ (M.drop q).map (·.1) := by
      rw [List.mem_map]; refine ⟨(e, o), ?_, rfl⟩
      rw [List.drop_eq_getElem_cons hqlt, hMq]; simp
    exact st.asymm _ _ (hs2 e' he' e he)
  · cases h; exact st.irrefl _

theorem Family.owner_unique_take (st : StrictTotal lt) (fam : Family lt M k) (q : Nat) (e : E) (o o' : Nat)
    (hq : M[q]? = some (e, o)) (hm : (e, o') ∈ M.take (q+1)) : o' = o := by
  have hqlt : q < M.length := by
    rcases List.getElem?_eq_some_iff.mp hq with ⟨h, _⟩; exact h
  have hMq : M[q] = (e, o) := by
    have := List.getElem?_eq_getElem hqlt; rw [this] at hq; exact Option.some.inj hq
  rw [List.take_add_one, List.getElem?_eq_getElem hqlt, hMq] at hm
  simp only [Option.toList_some, List.mem_append, List.mem_singleton] at hm
  rcases hm with h | h
  · exfalso
    have hs := fam.sorted
    rw [← List.take_append_drop q M, List.map_append] at hs
    have hs2 := (List.pairwise_append.mp hs).2.2
    have he' : e ∈ (M.take q).map (·.1) := by
      rw [List.mem_map]; exact ⟨(e, o'), h, rfl⟩
    have he : e ∈ (M.drop q).map (·.1) := by
      rw [List.mem_map]; refine ⟨(e, o), ?_, rfl⟩
      rw [List.drop_eq_getElem_cons hqlt, hMq]; simp
    have := hs2 e he' e he
    rw [st.irrefl] at this; cases this
  · cases h; rfl

theorem isLess_rev_some_false {a : E} {b : Option E} (h : isLess lt false (some a) b = false) :
    ∃ b', b = some b' ∧ lt b' a = false := by
  cases b with
  | none => simp [isLess] at h
  | some b' => exact ⟨b', rfl, by simpa [isLess] using h⟩

/-- Reverse: all children at their last entry before `q+1`, head is a comparator-minimum
    (i.e. a maximum of the entries).  Then the head child is the owner of `M[q]`, positioned on it. -/
theorem head_rev (st : StrictTotal lt) (fam : Family lt M k) (cs : List (Ref E)) (q : Nat)
    (hperm : AllG M k cs (q+1)) (hmin : HeadMin lt false cs)
    (e : E) (o : Nat) (hq : M[q]? = some (e, o)) :
    ∃ t, cs = gAt M o (q+1) :: t := by
  have ho : o < k := fam.owner (e, o) (List.mem_of_getElem? hq)
  have hmem : gAt M o (q+1) ∈ cs := by
    rw [hperm.mem_iff, List.mem_map]; exact ⟨o, by simpa using ho, rfl⟩
  cases cs with
  | nil => cases hmem
  | cons r t =>
    refine ⟨t, ?_⟩
    have h1 := hmin r (by simp) (gAt M o (q+1)) hmem
    unfold Merging.cmp at h1
    rw [kv_gAt_succ_owner q e o hq] at h1
    obtain ⟨e'', hr, hle⟩ := isLess_rev_some_false h1
    have hrm : r ∈ (List.range k).map (fun j => gAt M j (q+1)) := by
      rw [← hperm.mem_iff]; simp
    rw [List.mem_map] at hrm
    obtain ⟨j, _, rfl⟩ := hrm
    have hmd := gAt_kv_mem j (q+1) e'' hr
    have hge := fam.not_lt_of_mem_take st q e e'' o j hq hmd
    have : e'' = e := st.eq_of_not_lt _ _ hle hge
    subst this
    have := fam.owner_unique_take st q e'' o j hq hmd
    subst this
    rfl

theorem gAt_prev_owner (q : Nat) (e : E) (o : Nat) (hq : M[q]? = some (e, o)) :
    (gAt M o (q+1)).prev = gAt M o q := by
  unfold Ref.prev gAt
  simp only
  rw [before_succ M o q e o hq]
  simp

theorem gAt_succ_other (q : Nat) (e : E) (o j : Nat) (hq : M[q]? = some (e, o)) (hj : j ≠ o) :
    gAt M j (q+1) = gAt M j q := by
  unfold gAt
  rw [before_succ M j q e o hq]
  simp [Ne.symm hj]

/-- Reverse `prev` from a positioned state. -/
theorem prev_revA (st : StrictTotal lt) (fam : Family lt M k) (cs : List (Ref E)) (q : Nat)
    (hall : AllG M k cs (q+1)) (htail : HeapTail lt false cs) (hmin : HeadMin lt false cs)
    (e : E) (o : Nat) (hq : M[q]? = some (e, o)) :
    let cs1 := Merging.modifyHead Ref.prev cs
    let cs2 := percolateDown (Merging.cmp lt false) cs1 0 cs1.length
    AllG M k cs2 q ∧ HeapTail lt false cs2 ∧ HeadMin lt false cs2 := by
  intro cs1 cs2
  obtain ⟨t, rfl⟩ := head_rev st fam cs q hall hmin e o hq
  have ho : o < k := fam.owner (e, o) (List.mem_of_getElem? hq)
  have hcs1 : cs1 = gAt M o q :: t := by
    show Merging.modifyHead Ref.prev (gAt M o (q+1) :: t) = _
    simp [Merging.modifyHead, gAt_prev_owner q e o hq]
  have hall1 : AllG M k cs1 q := by
    rw [hcs1]
    exact perm_replace (fun j => gAt M j (q+1)) (fun j => gAt M j q) o ho t hall
      (fun j hj => (gAt_succ_other q e o j hq hj).symm)
  have htail1 : HeapTail lt false cs1 := heapTail_modifyHead false Ref.prev _ htail
  have sw := strictWeak_cmp st false
  have hspec := percolateDown_spec (Merging.cmp lt false) sw cs1.length cs1 0 (by omega) htail1
  refine ⟨(percolateDown_perm _ _ _ _).trans hall1, fun j hj => hspec.1 j (by omega), ?_⟩
  intro r hr x hx
  exact percolate_head_min (Merging.cmp lt false) sw cs1 htail1 r hr x
    ((percolateDown_perm _ _ _ _).mem_iff.mp hx)

/-- Observation in a reverse positioned state. -/
theorem kv_revA_succ (st : StrictTotal lt) (fam : Family lt M k) (cs : List (Ref E)) (q : Nat)
    (hall : AllG M k cs (q+1)) (hmin : HeadMin lt false cs) (e : E) (o : Nat) (hq : M[q]? = some (e, o)) :
    Merging.kv ⟨false, cs⟩ = some e := by
  obtain ⟨t, rfl⟩ := head_rev st fam cs q hall hmin e o hq
  simp [Merging.kv, kv_gAt_succ_owner q e o hq]

theorem kv_gAt_zero (j : Nat) : (gAt M j 0).kv = none := by
  simp [gAt, Ref.kv, before_zero]

end Blue.Cursor
