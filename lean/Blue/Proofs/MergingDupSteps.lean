import Blue.Proofs.MergingDupHead
/-! The steps of the merging cursor over children with duplicates: each step that moves the head
    child first re-owns (`reown_fwd` / `reown_rev`) and then follows the argument of the
    duplicate-free case. -/
namespace Blue.Cursor
open Blue.Heap

variable {E : Type} {lt : E → E → Bool} {M : List (E × Nat)} {k : Nat}

theorem allF_of_before {M M' : List (E × Nat)} (hs : Same M M') {p : Nat}
    (hb : ∀ i, before M' i p = before M i p) {cs : List (Ref E)} (hall : AllF M k cs p) : AllF M' k cs p := by
  have : (fun j => fAt M' j p) = (fun j => fAt M j p) := by
    funext j; unfold fAt; rw [hs.kids j, hb j]
  unfold AllF; rw [this]; exact hall

theorem allG_of_before {M M' : List (E × Nat)} (hs : Same M M') {p : Nat}
    (hb : ∀ i, before M' i p = before M i p) {cs : List (Ref E)} (hall : AllG M k cs p) : AllG M' k cs p := by
  have : (fun j => gAt M' j p) = (fun j => gAt M j p) := by
    funext j; unfold gAt; rw [hs.kids j, hb j]
  unfold AllG; rw [this]; exact hall

/-- forward `next` when the head child is the owner of the current merged entry -/
theorem next_fwd_owner (st : StrictTotal lt) (hown : ∀ x ∈ M, x.2 < k) (t : List (Ref E)) (p : Nat)
    (e : E) (o : Nat) (hp : M[p]? = some (e, o))
    (hall : AllF M k (fAt M o p :: t) p) (htail : HeapTail lt true (fAt M o p :: t)) :
    AllF M k (percolateDown (Merging.cmp lt true) (Merging.modifyHead Ref.next (fAt M o p :: t)) 0
        (Merging.modifyHead Ref.next (fAt M o p :: t)).length) (p+1)
    ∧ HeapTail lt true (percolateDown (Merging.cmp lt true) (Merging.modifyHead Ref.next (fAt M o p :: t)) 0
        (Merging.modifyHead Ref.next (fAt M o p :: t)).length)
    ∧ HeadMin lt true (percolateDown (Merging.cmp lt true) (Merging.modifyHead Ref.next (fAt M o p :: t)) 0
        (Merging.modifyHead Ref.next (fAt M o p :: t)).length) := by
  have ho : o < k := hown (e, o) (List.mem_of_getElem? hp)
  have hcs1 : Merging.modifyHead Ref.next (fAt M o p :: t) = fAt M o (p+1) :: t := by
    simp [Merging.modifyHead, fAt_next_owner p e o hp]
  have hall1 : AllF M k (Merging.modifyHead Ref.next (fAt M o p :: t)) (p+1) := by
    rw [hcs1]
    exact perm_replace (fun j => fAt M j p) (fun j => fAt M j (p+1)) o ho t hall
      (fun j hj => fAt_succ_other p e o j hp hj)
  have htail1 : HeapTail lt true (Merging.modifyHead Ref.next (fAt M o p :: t)) :=
    heapTail_modifyHead true Ref.next _ htail
  obtain ⟨hperm, htail', hmin'⟩ := percolate_state st true _ htail1
  exact ⟨hperm.trans hall1, htail', hmin'⟩

/-- Forward `next` from a positioned state (children with duplicates). -/
theorem next_fwdW (st : StrictTotal lt) (fam : FamilyW lt M k) (cs : List (Ref E)) (p : Nat)
    (hall : AllF M k cs p) (htail : HeapTail lt true cs) (hmin : HeadMin lt true cs)
    (e : E) (o : Nat) (hp : M[p]? = some (e, o)) :
    ∃ M', Same M M' ∧ FamilyW lt M' k
      ∧ AllF M' k (percolateDown (Merging.cmp lt true) (Merging.modifyHead Ref.next cs) 0
          (Merging.modifyHead Ref.next cs).length) (p+1)
      ∧ HeapTail lt true (percolateDown (Merging.cmp lt true) (Merging.modifyHead Ref.next cs) 0
          (Merging.modifyHead Ref.next cs).length)
      ∧ HeadMin lt true (percolateDown (Merging.cmp lt true) (Merging.modifyHead Ref.next cs) 0
          (Merging.modifyHead Ref.next cs).length) := by
  obtain ⟨M', o', t, hs, fam', hb, hp', rfl⟩ := reown_fwd st fam cs p hall hmin e o hp
  have hall' := allF_of_before hs hb hall
  exact ⟨M', hs, fam', next_fwd_owner st fam'.owner t p e o' hp' hall' htail⟩

/-- Observation in a forward positioned state. -/
theorem kv_fwdW (st : StrictTotal lt) (fam : FamilyW lt M k) (cs : List (Ref E)) (p : Nat)
    (hall : AllF M k cs p) (hmin : HeadMin lt true cs) :
    Merging.kv ⟨true, cs⟩ = (M.map (·.1))[p]? := by
  cases hp : M[p]? with
  | none =>
    have hlen : M.length ≤ p := by simpa [List.getElem?_eq_none_iff] using hp
    have : (M.map (·.1))[p]? = none := by simp [hlen]
    rw [this]
    cases cs with
    | nil => rfl
    | cons r t =>
      have hrm : r ∈ (List.range k).map (fun j => fAt M j p) := by
        rw [← hall.mem_iff]; simp
      rw [List.mem_map] at hrm
      obtain ⟨j, _, rfl⟩ := hrm
      simp [Merging.kv, kv_fAt_end j p hlen]
  | some x =>
    obtain ⟨e, o⟩ := x
    obtain ⟨M', o', t, hs, fam', hb, hp', rfl⟩ := reown_fwd st fam cs p hall hmin e o hp
    simp [Merging.kv, kv_fAt, childList_get_owner M' o' p e hp', hp]

/-- reverse `prev` when the head child is the owner of the current merged entry -/
theorem prev_rev_owner (st : StrictTotal lt) (hown : ∀ x ∈ M, x.2 < k) (t : List (Ref E)) (q : Nat)
    (e : E) (o : Nat) (hq : M[q]? = some (e, o))
    (hall : AllG M k (gAt M o (q+1) :: t) (q+1)) (htail : HeapTail lt false (gAt M o (q+1) :: t)) :
    AllG M k (percolateDown (Merging.cmp lt false) (Merging.modifyHead Ref.prev (gAt M o (q+1) :: t)) 0
        (Merging.modifyHead Ref.prev (gAt M o (q+1) :: t)).length) q
    ∧ HeapTail lt false (percolateDown (Merging.cmp lt false) (Merging.modifyHead Ref.prev (gAt M o (q+1) :: t)) 0
        (Merging.modifyHead Ref.prev (gAt M o (q+1) :: t)).length)
    ∧ HeadMin lt false (percolateDown (Merging.cmp lt false) (Merging.modifyHead Ref.prev (gAt M o (q+1) :: t)) 0
        (Merging.modifyHead Ref.prev (gAt M o (q+1) :: t)).length) := by
  have ho : o < k := hown (e, o) (List.mem_of_getElem? hq)
  have hcs1 : Merging.modifyHead Ref.prev (gAt M o (q+1) :: t) = gAt M o q :: t := by
    simp [Merging.modifyHead, gAt_prev_owner q e o hq]
  have hall1 : AllG M k (Merging.modifyHead Ref.prev (gAt M o (q+1) :: t)) q := by
    rw [hcs1]
    exact perm_replace (fun j => gAt M j (q+1)) (fun j => gAt M j q) o ho t hall
      (fun j hj => (gAt_succ_other q e o j hq hj).symm)
  have htail1 : HeapTail lt false (Merging.modifyHead Ref.prev (gAt M o (q+1) :: t)) :=
    heapTail_modifyHead false Ref.prev _ htail
  obtain ⟨hperm, htail', hmin'⟩ := percolate_state st false _ htail1
  exact ⟨hperm.trans hall1, htail', hmin'⟩

/-- Reverse `prev` from a positioned state (children with duplicates). -/
theorem prev_revW (st : StrictTotal lt) (fam : FamilyW lt M k) (cs : List (Ref E)) (q : Nat)
    (hall : AllG M k cs (q+1)) (htail : HeapTail lt false cs) (hmin : HeadMin lt false cs)
    (e : E) (o : Nat) (hq : M[q]? = some (e, o)) :
    ∃ M', Same M M' ∧ FamilyW lt M' k
      ∧ AllG M' k (percolateDown (Merging.cmp lt false) (Merging.modifyHead Ref.prev cs) 0
          (Merging.modifyHead Ref.prev cs).length) q
      ∧ HeapTail lt false (percolateDown (Merging.cmp lt false) (Merging.modifyHead Ref.prev cs) 0
          (Merging.modifyHead Ref.prev cs).length)
      ∧ HeadMin lt false (percolateDown (Merging.cmp lt false) (Merging.modifyHead Ref.prev cs) 0
          (Merging.modifyHead Ref.prev cs).length) := by
  obtain ⟨M', o', t, hs, fam', hb, hq', rfl⟩ := reown_rev st fam cs q hall hmin e o hq
  have hall' := allG_of_before hs hb hall
  exact ⟨M', hs, fam', prev_rev_owner st fam'.owner t q e o' hq' hall' htail⟩

/-- Observation in a reverse positioned state. -/
theorem kv_revW_succ (st : StrictTotal lt) (fam : FamilyW lt M k) (cs : List (Ref E)) (q : Nat)
    (hall : AllG M k cs (q+1)) (hmin : HeadMin lt false cs) (e : E) (o : Nat) (hq : M[q]? = some (e, o)) :
    Merging.kv ⟨false, cs⟩ = some e := by
  obtain ⟨M', o', t, hs, fam', hb, hq', rfl⟩ := reown_rev st fam cs q hall hmin e o hq
  simp [Merging.kv, kv_gAt_succ_owner q e o' hq']

/-- `seek` positions every child at its first entry at or after the merged list's first entry
    satisfying the predicate: equal entries satisfy the predicate together. -/
theorem seek_childW (st : StrictTotal lt) (fam : FamilyW lt M k) (pred : E → Bool) (hmono : Mono lt pred) (j : Nat) :
    (childList M j).findIdx pred = before M j ((M.map (·.1)).findIdx pred) := by
  let q := (M.map (·.1)).findIdx pred
  show (childList M j).findIdx pred = before M j q
  have hA : ∀ x ∈ M.take q, pred x.1 = false := by
    intro x hx
    rw [List.mem_take_iff_getElem] at hx
    obtain ⟨i, hi, rfl⟩ := hx
    have hiq : i < (M.map (·.1)).findIdx pred := by
      have : i < min q M.length := hi
      omega
    have := List.not_of_lt_findIdx hiq
    simpa using this
  have hB : ∀ x ∈ M.drop q, pred x.1 = true := by
    intro x hx
    by_cases hq : q < M.length
    · have hq' : (M.map (·.1)).findIdx pred < (M.map (·.1)).length := by
        rw [List.length_map]; exact hq
      have htrue : pred (M.map (·.1))[q] = true := List.findIdx_getElem (w := hq')
      have htrue' : pred (M[q]).1 = true := by simpa using htrue
      rw [List.drop_eq_getElem_cons hq] at hx
      rcases List.mem_cons.mp hx with h | h
      · subst h; exact htrue'
      · have hs := fam.sorted
        rw [← List.take_append_drop (q+1) M, List.map_append] at hs
        have hs2 := (List.pairwise_append.mp hs).2.2
        have he : (M[q]).1 ∈ (M.take (q+1)).map (·.1) := by
          rw [List.mem_map]; refine ⟨M[q], ?_, rfl⟩
          rw [List.mem_take_iff_getElem]; exact ⟨q, by omega, rfl⟩
        have he' : x.1 ∈ (M.drop (q+1)).map (·.1) := by
          rw [List.mem_map]; exact ⟨x, h, rfl⟩
        have hnl : lt x.1 (M[q]).1 = false := hs2 _ he _ he'
        by_cases heq : (M[q]).1 = x.1
        · rw [← heq]; exact htrue'
        · rcases st.total _ _ heq with h1 | h1
          · exact hmono _ _ h1 htrue'
          · rw [h1] at hnl; cases hnl
    · rw [List.drop_eq_nil_of_le (by omega)] at hx; cases hx
  unfold childList before
  conv => lhs; arg 2; rw [← List.take_append_drop q M, List.filter_append, List.map_append]
  rw [List.findIdx_append]
  have h1 : (((M.take q).filter (fun x => x.2 == j)).map (·.1)).findIdx pred
      = (((M.take q).filter (fun x => x.2 == j)).map (·.1)).length := by
    apply List.findIdx_eq_length_of_false
    intro x hx
    rw [List.mem_map] at hx
    obtain ⟨y, hy, rfl⟩ := hx
    exact hA y (List.mem_filter.mp hy).1
  have h2 : (((M.drop q).filter (fun x => x.2 == j)).map (·.1)).findIdx pred = 0 := by
    apply findIdx_all_true_head
    intro x hx
    rw [List.mem_map] at hx
    obtain ⟨y, hy, rfl⟩ := hx
    exact hB y (List.mem_filter.mp hy).1
  rw [h1, h2]
  simp

theorem seek_fAtW (st : StrictTotal lt) (fam : FamilyW lt M k) (pred : E → Bool) (hmono : Mono lt pred)
    (j : Nat) (c : Ref E) (hc : c.xs = childList M j) :
    c.seek pred = fAt M j ((M.map (·.1)).findIdx pred) := by
  unfold Ref.seek fAt
  rw [hc, seek_childW st fam pred hmono j]

end Blue.Cursor
