import Blue.Proofs.RrrSelect
/-! **C19, rrr**: the executable model of `scrunch::bit_vector::rrr::BitVector` (`Blue.Model.Rrr`: the
    six sealed bit arrays `construct_from_words` produces, and the queries reading them with
    `BitArray::load` exactly as `access_rank_at` / `select_helper` / the trait impl do) answers `access`,
    `rank`, `rank0`, `access_rank`, `select` and `select0` exactly as the plain bit array
    (`Blue.BitVec`, the reference semantics on `List Bool`), for every bit pattern and every argument,
    out-of-range arguments included (both sides `none`).

    Every theorem takes the word-level facts as a hypothesis `ws : WordSpec`
    (`Blue.Proofs.RrrWordSpec`; proved separately as `wordSpec`).

    Proof modules: `RrrBitArr` (seal padding), `RrrWidth` (`calc_p_r_width`), `RrrBuild` (loop
    invariant of `construct_from_words`, sample semantics), `RrrChunks` (counting by 63-bit chunks),
    `RrrLayout` (what every load returns), `RrrAccess` (access / rank / access_rank), `RrrRef`
    (reference `select` by chunks), `RrrSelect` (select / select0, no-underflow facts). -/
namespace Blue.Rrr
open Blue.BitArr

/-- `len` -/
theorem len_eq (bits : List Bool) : len (construct bits) = bits.length := len_construct bits

/-- `construct` never takes the error path -/
theorem construct_ok (bits : List Bool) :
    constructFromWords bits.length (wordsOf bits) = some (construct bits) := by
  have h := constructFromWords_isSome bits.length (wordsOf bits)
  unfold construct
  cases hc : constructFromWords bits.length (wordsOf bits) with
  | none => rw [hc] at h; cases h
  | some v => rfl

theorem access_eq (ws : WordSpec) (bits : List Bool) (x : Nat) :
    access (construct bits) x = Blue.BitVec.access bits x := access_construct ws bits x

theorem rank_eq (ws : WordSpec) (bits : List Bool) (x : Nat) :
    rank (construct bits) x = Blue.BitVec.rank bits x := rank_construct ws bits x

theorem rank0_eq (ws : WordSpec) (bits : List Bool) (x : Nat) :
    rank0 (construct bits) x = Blue.BitVec.rank0 bits x := rank0_construct ws bits x

theorem accessRank_eq (ws : WordSpec) (bits : List Bool) (x : Nat) :
    accessRank (construct bits) x
      = if x < bits.length then some (bits.getD x false, (bits.take x).count true) else none :=
  accessRank_construct ws bits x

theorem select_eq (ws : WordSpec) (bits : List Bool) (x : Nat) :
    select (construct bits) x = Blue.BitVec.select bits x := select_construct ws bits x

theorem vselect0_eq (ws : WordSpec) (bits : List Bool) (x : Nat) :
    vselect0 (construct bits) x = Blue.BitVec.select0 bits x := vselect0_construct ws bits x

/-- the arrays of the model are the `push_word` folds of the values the loop pushes, sealed -/
theorem construct_arrays (bits : List Bool) :
    (construct bits).p = sealBits ((finalSt bits).p.foldl (fun a v => pushWord a v (widthOf bits.length)) [])
    ∧ (construct bits).r = sealBits ((finalSt bits).r.foldl (fun a v => pushWord a v (widthOf bits.length)) [])
    ∧ (construct bits).c = sealBits ((finalSt bits).c.foldl (fun a v => pushWord a v 6) [])
    ∧ (construct bits).o = sealBits ((finalSt bits).o.foldl (fun a f => pushWord a f.1 f.2) [])
    ∧ (construct bits).s0 = sealBits ((finalSt bits).s0.foldl (fun a v => pushWord a v (widthOf bits.length)) [])
    ∧ (construct bits).s1 = sealBits ((finalSt bits).s1.foldl (fun a v => pushWord a v (widthOf bits.length)) []) := by
  rw [construct_eq]
  simp only [pack_eq_foldl, packF_eq_foldl, and_self]

/-! ### the model on boundary patterns (evaluated by the kernel): these are the places the proofs had to
    treat specially -/

-- plain cases
example : select (construct [true, false, true]) 2 = some 3 := by decide +kernel
example : vselect0 (construct [true, false, true]) 1 = some 2 := by decide +kernel
example : accessRank (construct (List.replicate 100 true ++ [false])) 100 = some (false, 100) := by decide +kernel
-- `select0` landing in the zero padding of the short last word: `idx > self.len()`
example : vselect0 (construct [true, false, true]) 2 = none := by decide +kernel
-- the empty vector
example : rank (construct []) 0 = some 0 := by decide +kernel
example : rank (construct []) 1 = none := by decide +kernel
example : select (construct []) 0 = some 0 := by decide +kernel
example : select (construct []) 1 = none := by decide +kernel
-- `rank(len)` at a multiple of 63 and of 504 goes through `index -= 1; add_one`
example : rank (construct (List.replicate 63 true)) 63 = some 63 := by decide +kernel
example : rank (construct (List.replicate 504 true)) 504 = some 504 := by decide +kernel
-- three words: `c` has 18 bits, its seal padding holds a phantom class 0 …
example : loadCO (construct (List.replicate 189 true)) 18 = some (0, 0) := by decide +kernel
-- … which `select0` walks into (63 clear bits) and rejects by `idx > self.len()`
example : vselect0 (construct (List.replicate 189 true)) 1 = none := by decide +kernel

end Blue.Rrr

#print axioms Blue.Rrr.len_eq
#print axioms Blue.Rrr.access_eq
#print axioms Blue.Rrr.rank_eq
#print axioms Blue.Rrr.rank0_eq
#print axioms Blue.Rrr.accessRank_eq
#print axioms Blue.Rrr.select_eq
#print axioms Blue.Rrr.vselect0_eq
#print axioms Blue.Rrr.select_rank_lt
#print axioms Blue.Rrr.select0_no_underflow
#print axioms Blue.Rrr.construct_arrays
