import Blue.Proofs.Books
/-! **C04** along histories: the chain of manifest transactions the store writes is accepted by the
    verifier's three checks (chain, balance, recomputed discard), and a ledger in which one recorded
    digest or one file's content was altered is rejected. -/
namespace Blue.Books

variable {G : Type} [DecidableEq G] (g : Grp G) {F : Type} [DecidableEq F] (s : F → G)

/-- what one manifest transaction records -/
structure Rec (G F : Type) where
  I : G
  O : G
  D : G
  rm : List F
  ad : List F

/-- the record `apply_manifest_*` writes -/
def storeRec (files rm ad : List F) : Rec G F :=
  ⟨total g s files, g.sub (total g s files) (computedDiscard g s rm ad), computedDiscard g s rm ad, rm, ad⟩

/-- the verifier: each transaction starts from the previous output, balances, and its discard is
    what the files named in it say -/
def verify (prev : G) : List (Rec G F) → Bool
  | [] => true
  | r :: rs => decide (r.I = prev) && decide (r.I = g.add r.O r.D)
      && decide (r.D = computedDiscard g s r.rm r.ad) && verify r.O rs

/-- a request the tree can make of a version with these files: the removed files are live, the added
    ones are distinct and not live — unless the request removes them too: a compaction that
    reproduces one of its inputs writes an edit that removes and adds the same digest
    (tree/mod.rs `compaction_finish`, "Sometimes compaction generates the same file as input and
    output") -/
def ValidReq (files : List F) (req : List F × List F) : Prop :=
  req.1.Nodup ∧ (∀ f ∈ req.1, f ∈ files) ∧ req.2.Nodup ∧ (∀ f ∈ req.2, f ∈ files → f ∈ req.1)

def ledger : List F → List (List F × List F) → List (Rec G F)
  | _, [] => []
  | files, req :: reqs => storeRec g s files req.1 req.2 :: ledger (applyTx files req.1 req.2) reqs

def finalFiles : List F → List (List F × List F) → List F
  | files, [] => files
  | files, req :: reqs => finalFiles (applyTx files req.1 req.2) reqs

def ValidReqs : List F → List (List F × List F) → Prop
  | _, [] => True
  | files, req :: reqs => ValidReq files req ∧ ValidReqs (applyTx files req.1 req.2) reqs

theorem applyTx_nodup {files rm ad : List F} (hnd : files.Nodup) (had : ad.Nodup)
    (hnew : ∀ f ∈ ad, f ∈ files → f ∈ rm) : (applyTx files rm ad).Nodup := by
  unfold applyTx
  rw [List.nodup_append]
  refine ⟨hnd.filter _, had, ?_⟩
  intro a ha b hb hab
  subst hab
  have := List.mem_filter.mp ha
  have h2 := hnew a hb this.1
  simp [h2] at this

/-- **C04** `verifier_accepts`: every chain of valid requests — ingests, compactions, garbage
    collections, in any order (a trivial move writes no edit), with `D` taken as Σ removed − Σ added
    (that the store's `discard_setsum`, computed from the dropped entries, is that:
    `Blue.VerifyOne.opDiscard_eq`) — passes the verifier's chain / balance / discard checks; that the
    last recorded output is the sum over the files of the final version is `last_output` -/
theorem verifier_accepts : ∀ (reqs : List (List F × List F)) (files : List F), files.Nodup →
    ValidReqs files reqs →
    verify g s (total g s files) (ledger g s files reqs) = true
  | [], _, _, _ => rfl
  | req :: reqs, files, hnd, hv => by
    obtain ⟨⟨h1, h2, h3, h4⟩, hrest⟩ := hv
    obtain ⟨hbal, hout⟩ := tx_balances g s files req.1 req.2 hnd h1 h2
    simp only [ledger, verify, storeRec, decide_true, Bool.true_and, Bool.and_eq_true, decide_eq_true_eq]
    refine ⟨⟨hbal, trivial⟩, ?_⟩
    rw [← hout]
    exact verifier_accepts reqs _ (applyTx_nodup hnd h3 h4) hrest

theorem add_right_cancel {a b d : G} (h : g.add a d = g.add b d) : a = b := by
  have := congrArg (fun x => g.add x (g.neg d)) h
  rwa [g.add_assoc, g.add_assoc, g.add_neg, g.add_zero, g.add_zero] at this

theorem add_left_cancel {a b d : G} (h : g.add d a = g.add d b) : a = b := by
  rw [g.add_comm d a, g.add_comm d b] at h
  exact add_right_cancel g h

theorem verify_append (prev : G) : ∀ (a : List (Rec G F)) (r : Rec G F) (b : List (Rec G F)),
    verify g s prev (a ++ r :: b) = true →
    ∃ p, (decide (r.I = p) && decide (r.I = g.add r.O r.D)
      && decide (r.D = computedDiscard g s r.rm r.ad) && verify g s r.O b) = true
  | [], r, b, h => ⟨prev, h⟩
  | x :: a, r, b, h => by
    simp only [List.cons_append, verify, Bool.and_eq_true] at h
    exact verify_append x.O a r b h.2

theorem verify_append_fail (prev : G) : ∀ (a : List (Rec G F)) (r : Rec G F) (b : List (Rec G F)),
    (r.I = g.add r.O r.D → False) → verify g s prev (a ++ r :: b) = false
  | [], r, b, h => by
    simp only [List.nil_append, verify]
    rw [decide_eq_false h]; simp
  | x :: a, r, b, h => by
    simp only [List.cons_append, verify]
    rw [verify_append_fail x.O a r b h]; simp

/-- **C04** rejection, recorded digests: in a ledger that verifies, changing the recorded output
    or the recorded discard of any one transaction makes the verifier reject -/
theorem tamper_output_rejected (prev : G) (a b : List (Rec G F)) (r : Rec G F) (o' : G)
    (hok : verify g s prev (a ++ r :: b) = true) (hne : o' ≠ r.O) :
    verify g s prev (a ++ { r with O := o' } :: b) = false := by
  obtain ⟨p, hp⟩ := verify_append g s prev a r b hok
  simp only [Bool.and_eq_true, decide_eq_true_eq] at hp
  apply verify_append_fail
  intro h
  simp only at h
  exact hne (add_right_cancel g (h.symm.trans hp.1.1.2))

theorem tamper_discard_rejected (prev : G) (a b : List (Rec G F)) (r : Rec G F) (d' : G)
    (hok : verify g s prev (a ++ r :: b) = true) (hne : d' ≠ r.D) :
    verify g s prev (a ++ { r with D := d' } :: b) = false := by
  obtain ⟨p, hp⟩ := verify_append g s prev a r b hok
  simp only [Bool.and_eq_true, decide_eq_true_eq] at hp
  apply verify_append_fail
  intro h
  simp only at h
  exact hne (add_left_cancel g (h.symm.trans hp.1.1.2))

/-- **C04** the last recorded output is the sum over the files of the final version -/
theorem last_output : ∀ (reqs : List (List F × List F)) (files : List F), files.Nodup →
    ValidReqs files reqs → reqs ≠ [] →
    ((ledger g s files reqs).getLast?.map (·.O)) = some (total g s (finalFiles files reqs))
  | [], _, _, _, h => absurd rfl h
  | [req], files, hnd, hv, _ => by
    obtain ⟨⟨h1, h2, _, _⟩, _⟩ := hv
    obtain ⟨_, hout⟩ := tx_balances g s files req.1 req.2 hnd h1 h2
    simp [ledger, finalFiles, storeRec, hout]
  | req :: r2 :: reqs, files, hnd, hv, _ => by
    obtain ⟨⟨_, _, h3, h4⟩, hrest⟩ := hv
    have ih := last_output (r2 :: reqs) _ (applyTx_nodup hnd h3 h4) hrest (by simp)
    simpa [ledger, finalFiles] using ih

/-- **C04** rejection, recorded input digest -/
theorem tamper_input_rejected (prev : G) (a b : List (Rec G F)) (r : Rec G F) (i' : G)
    (hv : verify g s prev (a ++ r :: b) = true) (hne : i' ≠ r.I) :
    verify g s prev (a ++ { r with I := i' } :: b) = false := by
  obtain ⟨p, hp⟩ := verify_append g s prev a r b hv
  simp only [Bool.and_eq_true, decide_eq_true_eq] at hp
  apply verify_append_fail
  intro h
  simp only at h
  exact hne (h.trans hp.1.1.2.symm)

theorem verify_fail_D (prev : G) : ∀ (a : List (Rec G F)) (r : Rec G F) (b : List (Rec G F)),
    decide (r.D = computedDiscard g s r.rm r.ad) = false → verify g s prev (a ++ r :: b) = false
  | [], r, b, h => by simp only [List.nil_append, verify]; rw [h]; simp
  | x :: a, r, b, h => by
    simp only [List.cons_append, verify]; rw [verify_fail_D x.O a r b h]; simp

/-- the sum over a duplicate-free list when one file's setsum changes -/
theorem total_change (s' : F → G) (f : F) (hs : ∀ x, x ≠ f → s' x = s x) :
    ∀ (l : List F), l.Nodup → f ∈ l → g.add (total g s' l) (s f) = g.add (total g s l) (s' f)
  | [], _, h => by cases h
  | x :: l, hnd, hin => by
    rw [List.nodup_cons] at hnd
    have hsame : ∀ (l : List F), f ∉ l → total g s' l = total g s l := by
      intro l
      induction l with
      | nil => intro _; rfl
      | cons y l ih =>
        intro hy
        simp only [List.mem_cons, not_or] at hy
        rw [total_cons, total_cons, ih hy.2, hs y (Ne.symm hy.1)]
    by_cases hx : x = f
    · subst hx
      rw [total_cons, total_cons, hsame l hnd.1]
      rw [g.add_comm (s' x), g.add_assoc, g.add_comm (s' x), g.add_comm (s x) (total g s l)]
      exact (g.add_assoc _ _ _).symm
    · have hin' : f ∈ l := by
        rcases List.mem_cons.mp hin with h | h
        · exact absurd h.symm hx
        · exact h
      have ih := total_change s' f hs l hnd.2 hin'
      rw [total_cons, total_cons, hs x hx, g.add_assoc, ih, ← g.add_assoc]

/-- **C04** rejection, file contents: if the content of one added file was altered so that its
    recomputed setsum differs (one entry dropped, duplicated or modified — that the setsum then
    differs is the hash assumption of §2), the verifier, recomputing from the files, rejects the
    transaction that added it -/
theorem tamper_file_rejected (prev : G) (a b : List (Rec G F)) (r : Rec G F) (s' : F → G) (f : F)
    (hok : verify g s prev (a ++ r :: b) = true)
    (hs : ∀ x, x ≠ f → s' x = s x) (hf : s' f ≠ s f)
    (had : r.ad.Nodup) (hin : f ∈ r.ad) (hrm : f ∉ r.rm) :
    decide (r.D = computedDiscard g s' r.rm r.ad) = false := by
  obtain ⟨p, hp⟩ := verify_append g s prev a r b hok
  simp only [Bool.and_eq_true, decide_eq_true_eq] at hp
  rw [decide_eq_false_iff_not]
  intro h
  have hD := hp.1.2
  rw [hD] at h
  unfold computedDiscard Grp.sub at h
  have hrmSame : total g s' r.rm = total g s r.rm := by
    have : ∀ (l : List F), f ∉ l → total g s' l = total g s l := by
      intro l
      induction l with
      | nil => intro _; rfl
      | cons y l ih =>
        intro hy
        simp only [List.mem_cons, not_or] at hy
        rw [total_cons, total_cons, ih hy.2, hs y (Ne.symm hy.1)]
    exact this _ hrm
  rw [hrmSame] at h
  have h1 := add_left_cancel g h
  -- −Σ ad = −Σ' ad, so Σ ad = Σ' ad
  have h2 : total g s r.ad = total g s' r.ad := by
    have e1 := g.add_neg (total g s r.ad)
    have e2 := g.add_neg (total g s' r.ad)
    rw [← h1] at e2
    -- Σ' + (−Σ) = 0 = Σ + (−Σ)
    exact (add_right_cancel g (e2.trans e1.symm)).symm
  have h3 := total_change g s s' f hs r.ad had hin
  rw [← h2] at h3
  exact hf (add_left_cancel g h3).symm

/-- the same for a file the transaction REMOVES (an input of a compaction or collection) -/
theorem tamper_removed_file_discard_fails (prev : G) (a b : List (Rec G F)) (r : Rec G F) (s' : F → G) (f : F)
    (hok : verify g s prev (a ++ r :: b) = true)
    (hs : ∀ x, x ≠ f → s' x = s x) (hf : s' f ≠ s f)
    (hrmnd : r.rm.Nodup) (hin : f ∈ r.rm) (had : f ∉ r.ad) :
    decide (r.D = computedDiscard g s' r.rm r.ad) = false := by
  obtain ⟨p, hp⟩ := verify_append g s prev a r b hok
  simp only [Bool.and_eq_true, decide_eq_true_eq] at hp
  rw [decide_eq_false_iff_not]
  intro h
  have hD := hp.1.2
  rw [hD] at h
  unfold computedDiscard Grp.sub at h
  have hadSame : total g s' r.ad = total g s r.ad := by
    have : ∀ (l : List F), f ∉ l → total g s' l = total g s l := by
      intro l
      induction l with
      | nil => intro _; rfl
      | cons y l ih =>
        intro hy
        simp only [List.mem_cons, not_or] at hy
        rw [total_cons, total_cons, ih hy.2, hs y (Ne.symm hy.1)]
    exact this _ had
  rw [hadSame] at h
  have h2 : total g s r.rm = total g s' r.rm := add_right_cancel g h
  have h3 := total_change g s s' f hs r.rm hrmnd hin
  rw [← h2] at h3
  exact hf (add_left_cancel g h3).symm

/-- **C04** rejection, file contents, in full: one altered setsum of a file a transaction adds (and
    does not remove) makes the verifier, recomputing from the files, reject the ledger -/
theorem tamper_added_file_rejected (prev : G) (a b : List (Rec G F)) (r : Rec G F) (s' : F → G) (f : F)
    (hok : verify g s prev (a ++ r :: b) = true)
    (hs : ∀ x, x ≠ f → s' x = s x) (hf : s' f ≠ s f)
    (had : r.ad.Nodup) (hin : f ∈ r.ad) (hrm : f ∉ r.rm) :
    verify g s' prev (a ++ r :: b) = false :=
  verify_fail_D g s' prev a r b (tamper_file_rejected g s prev a b r s' f hok hs hf had hin hrm)

/-- … or removes (and does not add) -/
theorem tamper_removed_file_rejected (prev : G) (a b : List (Rec G F)) (r : Rec G F) (s' : F → G) (f : F)
    (hok : verify g s prev (a ++ r :: b) = true)
    (hs : ∀ x, x ≠ f → s' x = s x) (hf : s' f ≠ s f)
    (hrmnd : r.rm.Nodup) (hin : f ∈ r.rm) (had : f ∉ r.ad) :
    verify g s' prev (a ++ r :: b) = false :=
  verify_fail_D g s' prev a r b (tamper_removed_file_discard_fails g s prev a b r s' f hok hs hf hrmnd hin had)

/-- non-vacuity on the integers: ingest files 1 and 2, compact them into file 3 discarding 1 unit -/
def intGrp : Grp Int := ⟨(· + ·), (- ·), 0, Int.add_comm, Int.add_assoc, Int.add_zero, Int.add_right_neg⟩

def exS : Nat → Int := fun f => if f = 1 then 5 else if f = 2 then 7 else 11
def exReqs : List (List Nat × List Nat) := [([], [1]), ([], [2]), ([1, 2], [3])]

example : verify intGrp exS 0 (ledger intGrp exS [] exReqs) = true
    ∧ ((ledger intGrp exS [] exReqs).map (·.D)) = [-5, -7, 1] := by decide

example : ValidReqs [] exReqs := by
  simp [ValidReqs, ValidReq, exReqs, applyTx]

/-- a compaction that reproduces one of its inputs: files 1 and 2 go in, file 2 (again) and file 3
    come out; the edit removes and adds the digest of file 2; the request is valid, the ledger
    verifies, and the last output is the sum over the final files `[2, 3]` -/
def exReadd : List (List Nat × List Nat) := [([], [1]), ([], [2]), ([1, 2], [2, 3])]

example : ValidReqs [] exReadd := by
  simp [ValidReqs, ValidReq, exReadd, applyTx]

example : verify intGrp exS 0 (ledger intGrp exS [] exReadd) = true
    ∧ finalFiles [] exReadd = [2, 3]
    ∧ ((ledger intGrp exS [] exReadd).getLast?.map (·.O)) = some (total intGrp exS [2, 3]) := by decide

end Blue.Books

#print axioms Blue.Books.verifier_accepts
#print axioms Blue.Books.tamper_output_rejected
#print axioms Blue.Books.tamper_file_rejected
#print axioms Blue.Books.last_output
#print axioms Blue.Books.tamper_input_rejected
#print axioms Blue.Books.tamper_added_file_rejected
#print axioms Blue.Books.tamper_removed_file_rejected
