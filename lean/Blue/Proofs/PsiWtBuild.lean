import Blue.Proofs.PsiWtDefs
import Blue.Proofs.Sampled
/-! `Blue.PsiWt.construct` on a `Good` input: it does not fail, and what it returns is
    `ofTable (kOf syms) table` for a table of rows that tiles the Burrows–Wheeler transform. -/
namespace Blue.PsiWt

/-! ### `inverse` -/

theorem inverseGo_nil (i : Nat) (acc : List Nat) : inverseGo [] i acc = some acc := rfl

theorem inverseGo_cons (v : Nat) (rest : List Nat) (i : Nat) (acc : List Nat) :
    inverseGo (v :: rest) i acc =
      if v < acc.length then inverseGo rest (i + 1) (acc.set v i) else none := rfl

theorem getD_set_self (acc : List Nat) (v x : Nat) (h : v < acc.length) :
    (acc.set v x).getD v 0 = x := by
  rw [List.getD_eq_getElem?_getD, List.getElem?_set]
  simp [h]

theorem getD_set_ne (acc : List Nat) (v w x : Nat) (h : v ≠ w) :
    (acc.set v x).getD w 0 = acc.getD w 0 := by
  rw [List.getD_eq_getElem?_getD, List.getD_eq_getElem?_getD, List.getElem?_set]
  simp [h]

theorem inverseGo_spec : ∀ (rest : List Nat) (i : Nat) (acc : List Nat),
    (∀ v ∈ rest, v < acc.length) → rest.Nodup →
    ∃ out, inverseGo rest i acc = some out ∧ out.length = acc.length ∧
      (∀ k, k < rest.length → out.getD (rest.getD k 0) 0 = i + k) ∧
      (∀ v, v ∉ rest → out.getD v 0 = acc.getD v 0)
  | [], i, acc, _, _ => ⟨acc, rfl, rfl, by intro k hk; simp at hk, fun _ _ => rfl⟩
  | v :: rest, i, acc, hlt, hnd => by
    have hv : v < acc.length := hlt v (by simp)
    rw [inverseGo_cons, if_pos hv]
    have hnd' := List.nodup_cons.mp hnd
    obtain ⟨out, ho, hl, hk, hn⟩ := inverseGo_spec rest (i + 1) (acc.set v i)
      (by intro w hw; rw [List.length_set]; exact hlt w (List.mem_cons_of_mem _ hw)) hnd'.2
    refine ⟨out, ho, by rw [hl, List.length_set], ?_, ?_⟩
    · intro k hk'
      cases k with
      | zero =>
        show out.getD v 0 = i + 0
        rw [hn v hnd'.1, getD_set_self acc v i hv]; rfl
      | succ k =>
        have h1 := hk k (by simpa using hk')
        show out.getD (rest.getD k 0) 0 = i + (k + 1)
        omega
    · intro w hw
      have hw' : ¬ (w = v ∨ w ∈ rest) := by simpa using hw
      rw [hn w (fun h => hw' (Or.inr h)), getD_set_ne acc v w i (fun h => hw' (Or.inl h.symm))]

/-- the facts about ψ that `Good.perm` gives -/
theorem Good.nodup {syms psi : List Nat} (h : Good syms psi) : psi.Nodup :=
  (List.Perm.nodup_iff h.perm).mpr List.nodup_range

theorem Good.mem_iff {syms psi : List Nat} (h : Good syms psi) (v : Nat) :
    v ∈ psi ↔ v < psi.length := by
  rw [List.Perm.mem_iff h.perm, List.mem_range]

theorem Good.psi_lt {syms psi : List Nat} (h : Good syms psi) (i : Nat) (hi : i < psi.length) :
    psi.getD i 0 < psi.length := by
  rw [← h.mem_iff, List.getD_eq_getElem?_getD, List.getElem?_eq_getElem hi]
  exact List.getElem_mem hi

theorem inverse_spec {syms psi : List Nat} (h : Good syms psi) :
    ∃ ipsi, inverse psi = some ipsi ∧ ipsi.length = psi.length ∧
      (∀ i, i < psi.length → ipsi.getD (psi.getD i 0) 0 = i) ∧
      (∀ v, v < psi.length → ipsi.getD v 0 < psi.length ∧ psi.getD (ipsi.getD v 0) 0 = v) ∧
      (∀ x ∈ ipsi, x < psi.length) := by
  obtain ⟨out, ho, hl, hk, _⟩ := inverseGo_spec psi 0 (List.replicate psi.length 0)
    (by intro v hv; rw [List.length_replicate]; exact (h.mem_iff v).mp hv) h.nodup
  rw [List.length_replicate] at hl
  have hk' : ∀ i, i < psi.length → out.getD (psi.getD i 0) 0 = i := by
    intro i hi; have := hk i hi; omega
  have hinv : ∀ v, v < psi.length → out.getD v 0 < psi.length ∧ psi.getD (out.getD v 0) 0 = v := by
    intro v hv
    obtain ⟨k, hk1, hk2⟩ := List.getElem_of_mem ((h.mem_iff v).mpr hv)
    have hg : psi.getD k 0 = v := by
      rw [List.getD_eq_getElem?_getD, List.getElem?_eq_getElem hk1, hk2]; rfl
    have := hk' k hk1
    rw [hg] at this
    rw [this]; exact ⟨hk1, hg⟩
  refine ⟨out, ho, hl, hk', hinv, ?_⟩
  intro x hx
  obtain ⟨v, hv1, hv2⟩ := List.getElem_of_mem hx
  have := (hinv v (hl ▸ hv1)).1
  rw [List.getD_eq_getElem?_getD, List.getElem?_eq_getElem hv1] at this
  rw [← hv2]; exact this

/-! ### `kOf` -/

theorem lt_kOf (syms : List Nat) : ∀ s ∈ syms, s < kOf syms := by
  intro s hs
  have := (Blue.Sampled.le_foldl_max syms 0).2 s hs
  unfold kOf; omega

theorem getD_lt_kOf (syms : List Nat) (i : Nat) : syms.getD i 0 < kOf syms := by
  rw [List.getD_eq_getElem?_getD]
  by_cases hi : i < syms.length
  · rw [List.getElem?_eq_getElem hi]
    exact lt_kOf syms _ (List.getElem_mem hi)
  · rw [List.getElem?_eq_none (by omega)]
    unfold kOf; simp

/-! ### lists indexed by the symbols -/
theorem set_range_map {α : Type} (f : Nat → α) (K a : Nat) (v : α) :
    ((List.range K).map f).set a v = (List.range K).map (fun σ => if σ = a then v else f σ) := by
  apply List.ext_getElem?
  intro j
  rw [List.getElem?_set, List.getElem?_map, List.getElem?_map, List.length_map, List.length_range]
  by_cases hj : j < K
  · rw [List.getElem?_range hj]
    by_cases ha : a = j
    · subst ha; simp [hj]
    · have : ¬ j = a := fun h => ha h.symm
      simp [ha, this]
  · rw [List.getElem?_eq_none (by rw [List.length_range]; omega)]
    by_cases ha : a = j
    · subst ha; simp [hj]
    · simp [ha]

theorem modify_range_map {α : Type} (g : Nat → α) (K a : Nat) (h : α → α) :
    ((List.range K).map g).modify a h = (List.range K).map (fun σ => if σ = a then h (g σ) else g σ) := by
  apply List.ext_getElem?
  intro j
  rw [List.getElem?_modify, List.getElem?_map, List.getElem?_map]
  by_cases hj : j < K
  · rw [List.getElem?_range hj]
    by_cases ha : a = j
    · subst ha; simp
    · have : ¬ j = a := fun h => ha h.symm
      simp [ha, this]
  · rw [List.getElem?_eq_none (by rw [List.length_range]; omega)]
    simp

theorem getD_range_map {α : Type} (f : Nat → α) (K a : Nat) (d : α) (h : a < K) :
    ((List.range K).map f).getD a d = f a := by
  rw [List.getD_eq_getElem?_getD, List.getElem?_map, List.getElem?_range h]; rfl

/-! ### `flush`, `push`, `newRow` -/

/-- the fold of `flush_context` -/
def flushStep (row : Nat) (cc : List Nat × List (List (Nat × Nat))) (symbol : Nat) :
    List Nat × List (List (Nat × Nat)) :=
  (cc.1.set symbol 0, cc.2.modify symbol (· ++ [(row, cc.1.getD symbol 0)]))

theorem flush_fold (K row : Nat) : ∀ (act : List Nat) (f : Nat → Nat) (g : Nat → List (Nat × Nat)),
    act.Nodup → (∀ σ ∈ act, σ < K) →
    act.foldl (flushStep row) ((List.range K).map f, (List.range K).map g) =
      ((List.range K).map (fun σ => if σ ∈ act then 0 else f σ),
       (List.range K).map (fun σ => g σ ++ if σ ∈ act then [(row, f σ)] else []))
  | [], f, g, _, _ => by simp
  | a :: act, f, g, hnd, hlt => by
    have hnd' := List.nodup_cons.mp hnd
    have ha : a < K := hlt a (by simp)
    rw [List.foldl_cons]
    have hstep : flushStep row ((List.range K).map f, (List.range K).map g) a =
        ((List.range K).map (fun σ => if σ = a then 0 else f σ),
         (List.range K).map (fun σ => if σ = a then g σ ++ [(row, f a)] else g σ)) := by
      unfold flushStep
      simp only []
      rw [set_range_map, modify_range_map, getD_range_map f K a 0 ha]
    rw [hstep, flush_fold K row act _ _ hnd'.2 (fun σ hσ => hlt σ (List.mem_cons_of_mem _ hσ))]
    congr 1
    · apply List.map_congr_left
      intro σ _
      by_cases h1 : σ = a
      · subst h1; simp
      · simp [h1]
    · apply List.map_congr_left
      intro σ _
      by_cases h1 : σ = a
      · subst h1; simp [hnd'.1]
      · simp [h1]

theorem rowCellsFrom_nil (σ j : Nat) : rowCellsFrom σ j [] = [] := rfl
theorem rowCellsFrom_cons (σ j : Nat) (c : Ctx) (t : List Ctx) :
    rowCellsFrom σ j (c :: t) =
      (if 0 < c.tree.count σ then [(j, c.tree.count σ)] else []) ++ rowCellsFrom σ (j + 1) t := rfl

theorem rowCellsFrom_append (σ : Nat) : ∀ (T1 T2 : List Ctx) (j : Nat),
    rowCellsFrom σ j (T1 ++ T2) = rowCellsFrom σ j T1 ++ rowCellsFrom σ (j + T1.length) T2
  | [], T2, j => by simp [rowCellsFrom_nil]
  | c :: T1, T2, j => by
    rw [List.cons_append, rowCellsFrom_cons, rowCellsFrom_cons, rowCellsFrom_append σ T1 T2 (j + 1),
      List.append_assoc, List.length_cons]
    congr 3; omega

theorem cellsSpec_snoc (K : Nat) (T : List Ctx) (c : Ctx) :
    cellsSpec K (T ++ [c]) = (List.range K).map (fun σ => rowCellsFrom σ 0 T ++
      (if 0 < c.tree.count σ then [(T.length, c.tree.count σ)] else [])) := by
  unfold cellsSpec
  apply List.map_congr_left
  intro σ _
  rw [rowCellsFrom_append, rowCellsFrom_cons, rowCellsFrom_nil, List.append_nil, Nat.zero_add]

theorem Rows_nil : Rows [] := ⟨by simp, by intro j h; simp at h⟩

theorem Rows_snoc {T : List Ctx} {c : Ctx} (hT : Rows T) (hne : c.tree ≠ [])
    (hs : c.start = ((T.map (·.tree)).flatten).length) : Rows (T ++ [c]) := by
  refine ⟨?_, ?_⟩
  · intro d hd
    rcases List.mem_append.mp hd with hd | hd
    · exact hT.1 d hd
    · rw [List.mem_singleton.mp hd]; exact hne
  · intro j hj
    by_cases hj' : j < T.length
    · rw [List.getElem_append_left hj', List.take_append_of_le_length (by omega)]
      exact hT.2 j hj'
    · have hj2 : j = T.length := by
        rw [List.length_append, List.length_singleton] at hj; omega
      subst hj2
      rw [List.getElem_concat_length rfl, List.take_left' rfl]
      exact hs

/-- the loop invariant: `D` = the symbols pushed so far -/
structure Inv (K : Nat) (D : List Nat) (st : St) : Prop where
  row : st.row = st.table.length
  cells : st.cells = cellsSpec K st.table
  counts : st.counts = (List.range K).map (fun σ => st.tree.count σ)
  nodup : st.active.Nodup
  active : ∀ σ, σ ∈ st.active ↔ 0 < st.tree.count σ
  lt : ∀ x ∈ st.tree, x < K
  flat : (st.table.map (·.tree)).flatten ++ st.tree = D
  start : st.start = ((st.table.map (·.tree)).flatten).length
  rows : Rows st.table

theorem flush_eq (st : St) : flush st =
    { st with counts := (st.active.foldl (flushStep st.row) (st.counts, st.cells)).1,
              cells := (st.active.foldl (flushStep st.row) (st.counts, st.cells)).2,
              active := [], tree := [], table := st.table ++ [⟨st.start, st.tree⟩] } := rfl

theorem flush_fold_inv {K : Nat} {D : List Nat} {st : St} (h : Inv K D st) :
    st.active.foldl (flushStep st.row) (st.counts, st.cells) =
      ((List.range K).map (fun _ => 0), cellsSpec K (st.table ++ [⟨st.start, st.tree⟩])) := by
  have hlt : ∀ σ ∈ st.active, σ < K := fun σ hσ =>
    h.lt σ (List.count_pos_iff.mp ((h.active σ).mp hσ))
  rw [h.counts, h.cells]
  unfold cellsSpec
  rw [flush_fold K st.row st.active _ _ h.nodup hlt]
  congr 1
  · apply List.map_congr_left
    intro σ _
    by_cases hσ : σ ∈ st.active
    · rw [if_pos hσ]
    · rw [if_neg hσ]
      have := (not_congr (h.active σ)).mp hσ
      omega
  · rw [← cellsSpec, cellsSpec_snoc]
    apply List.map_congr_left
    intro σ _
    rw [h.row]
    by_cases hσ : σ ∈ st.active
    · rw [if_pos hσ, if_pos ((h.active σ).mp hσ)]
    · rw [if_neg hσ, if_neg ((not_congr (h.active σ)).mp hσ)]

/-- closing a non-empty row -/
theorem flush_inv {K : Nat} {D : List Nat} {st : St} (h : Inv K D st) (hne : st.tree ≠ [])
    (ctx : Nat × Nat) :
    Inv K D { flush st with row := st.row + 1, ctx := ctx, start := D.length } := by
  rw [flush_eq, flush_fold_inv h]
  have hflat : ((st.table ++ [(⟨st.start, st.tree⟩ : Ctx)]).map (·.tree)).flatten = D := by
    rw [List.map_append, List.flatten_append]
    simp only [List.map_cons, List.map_nil, List.flatten_cons, List.flatten_nil, List.append_nil]
    exact h.flat
  refine ⟨?_, rfl, ?_, List.nodup_nil, ?_, ?_, ?_, ?_, Rows_snoc h.rows hne h.start⟩
  · show st.row + 1 = (st.table ++ [_]).length
    rw [List.length_append, List.length_singleton, h.row]
  · show (List.range K).map (fun _ => 0) = (List.range K).map (fun σ => ([] : List Nat).count σ)
    rfl
  · intro σ; show σ ∈ ([] : List Nat) ↔ 0 < ([] : List Nat).count σ
    simp
  · intro x hx; exact absurd hx (List.not_mem_nil)
  · show ((st.table ++ [(⟨st.start, st.tree⟩ : Ctx)]).map (·.tree)).flatten ++ [] = D
    rw [List.append_nil, hflat]
  · show D.length = (((st.table ++ [(⟨st.start, st.tree⟩ : Ctx)]).map (·.tree)).flatten).length
    rw [hflat]

theorem newRow_inv {K : Nat} {D : List Nat} {st : St} (h : Inv K D st) (i : Nat) (hi : i = D.length)
    (hne : 0 < i → st.tree ≠ []) (tmp : Nat × Nat) : Inv K D (newRow st i tmp) := by
  unfold newRow
  by_cases hc : st.ctx ≠ tmp
  · rw [if_pos hc]
    by_cases h0 : i > 0
    · simp only [if_pos h0]
      subst hi
      exact flush_inv h (hne h0) tmp
    · simp only [if_neg h0]
      have hD : D = [] := List.length_eq_zero_iff.mp (by omega)
      have hf : (st.table.map (·.tree)).flatten = [] := by
        have := h.flat; rw [hD] at this
        exact (List.append_eq_nil_iff.mp this).1
      refine ⟨h.row, h.cells, h.counts, h.nodup, h.active, h.lt, h.flat, ?_, h.rows⟩
      show i = _
      rw [hf]; simp; omega
  · rw [if_neg hc]; exact h

theorem push_inv {K : Nat} {D : List Nat} {st : St} (h : Inv K D st) (sym : Nat) (hs : sym < K) :
    Inv K (D ++ [sym]) (push st sym) := by
  have hc : st.counts.getD sym 0 = st.tree.count sym := by
    rw [h.counts, getD_range_map _ K sym 0 hs]
  refine ⟨h.row, h.cells, ?_, ?_, ?_, ?_, ?_, h.start, h.rows⟩
  · show st.counts.set sym (st.counts.getD sym 0 + 1) = _
    rw [hc, h.counts, set_range_map]
    apply List.map_congr_left
    intro σ _
    show _ = (st.tree ++ [sym]).count σ
    rw [List.count_append, List.count_singleton]
    by_cases h1 : σ = sym
    · subst h1; simp
    · have : ¬ sym = σ := fun h => h1 h.symm
      simp [h1, this]
  · show (if st.counts.getD sym 0 = 0 then st.active ++ [sym] else st.active).Nodup
    rw [hc]
    by_cases h0 : st.tree.count sym = 0
    · rw [if_pos h0]
      have hn : sym ∉ st.active := by rw [h.active]; omega
      rw [List.nodup_append]
      refine ⟨h.nodup, by simp, ?_⟩
      intro a ha b hb hab
      rw [List.mem_singleton.mp hb] at hab
      exact hn (hab ▸ ha)
    · rw [if_neg h0]; exact h.nodup
  · intro σ
    show σ ∈ (if st.counts.getD sym 0 = 0 then st.active ++ [sym] else st.active) ↔
      0 < (st.tree ++ [sym]).count σ
    rw [hc, List.count_append, List.count_singleton]
    by_cases h0 : st.tree.count sym = 0
    · rw [if_pos h0, List.mem_append, h.active, List.mem_singleton]
      by_cases h1 : σ = sym
      · subst h1; simp
      · have : ¬ sym = σ := fun h => h1 h.symm
        simp [h1, this]
    · rw [if_neg h0, h.active]
      by_cases h1 : σ = sym
      · subst h1; simp; exact List.count_pos_iff.mp (by omega)
      · have : ¬ sym = σ := fun h => h1 h.symm
        simp [this]
  · intro x hx
    rcases List.mem_append.mp hx with hx | hx
    · exact h.lt x hx
    · rw [List.mem_singleton.mp hx]; exact hs
  · show (st.table.map (·.tree)).flatten ++ (st.tree ++ [sym]) = D ++ [sym]
    rw [← List.append_assoc, h.flat]

theorem push_tree_ne (st : St) (sym : Nat) : (push st sym).tree ≠ [] := by
  show st.tree ++ [sym] ≠ []
  simp

/-! ### the loop -/

theorem replicate_eq_range_map {α : Type} (K : Nat) (x : α) :
    List.replicate K x = (List.range K).map (fun _ => x) := by
  apply List.ext_getElem?
  intro j
  rw [List.getElem?_replicate, List.getElem?_map]
  by_cases hj : j < K
  · rw [List.getElem?_range hj, if_pos hj]; rfl
  · rw [List.getElem?_eq_none (by rw [List.length_range]; omega), if_neg hj]; rfl

theorem initSt_inv (K : Nat) : Inv K [] (initSt K) := by
  refine ⟨rfl, ?_, ?_, List.nodup_nil, ?_, ?_, rfl, rfl, Rows_nil⟩
  · show List.replicate K [] = cellsSpec K []
    rw [replicate_eq_range_map]; rfl
  · show List.replicate K 0 = (List.range K).map (fun σ => ([] : List Nat).count σ)
    rw [replicate_eq_range_map]; rfl
  · intro σ; show σ ∈ ([] : List Nat) ↔ 0 < ([] : List Nat).count σ
    simp
  · intro x hx; exact absurd hx List.not_mem_nil

theorem loop_nil (syms psi : List Nat) (n i : Nat) (st : St) : loop syms psi n [] i st = some st := rfl

theorem loop_cons (syms psi : List Nat) (n ip : Nat) (rest : List Nat) (i : Nat) (st : St) :
    loop syms psi n (ip :: rest) i st =
      if i ≥ n then none else
      if psi.getD i 0 ≥ n then none else
      if ip ≥ n then none else
      loop syms psi n rest (i + 1)
        (push (newRow st i (syms.getD i 0, syms.getD (psi.getD i 0) 0)) (syms.getD ip 0)) := rfl

theorem bwt_nil (syms : List Nat) : bwt syms [] = [] := rfl
theorem bwt_cons (syms : List Nat) (ip : Nat) (rest : List Nat) :
    bwt syms (ip :: rest) = syms.getD ip 0 :: bwt syms rest := rfl

theorem loop_spec (syms psi : List Nat) (n K : Nat) (hpsi : ∀ i, i < n → psi.getD i 0 < n)
    (hK : ∀ x, syms.getD x 0 < K) :
    ∀ (rest D : List Nat) (i : Nat) (st : St), i = D.length → i + rest.length = n →
      (∀ x ∈ rest, x < n) → Inv K D st → (0 < i → st.tree ≠ []) →
      ∃ st', loop syms psi n rest i st = some st' ∧ Inv K (D ++ bwt syms rest) st' ∧
        (0 < n → st'.tree ≠ [])
  | [], D, i, st, _, hn, _, hinv, hne => by
    refine ⟨st, loop_nil .., ?_, ?_⟩
    · rw [bwt_nil, List.append_nil]; exact hinv
    · intro h0
      have : i = n := by rw [List.length_nil] at hn; omega
      exact hne (by omega)
  | ip :: rest, D, i, st, hi, hn, hlt, hinv, hne => by
    rw [List.length_cons] at hn
    have h1 : ¬ i ≥ n := by omega
    have h2 : ¬ psi.getD i 0 ≥ n := by have := hpsi i (by omega); omega
    have h3 : ¬ ip ≥ n := by have := hlt ip (by simp); omega
    rw [loop_cons, if_neg h1, if_neg h2, if_neg h3, bwt_cons, List.append_cons]
    exact loop_spec syms psi n K hpsi hK rest (D ++ [syms.getD ip 0]) (i + 1) _
      (by rw [List.length_append, List.length_singleton, hi]) (by omega)
      (fun x hx => hlt x (List.mem_cons_of_mem _ hx))
      (push_inv (newRow_inv hinv i hi hne _) _ (hK ip))
      (fun _ => push_tree_ne _ _)

/-! ### `construct` -/

/-- `construct_eq` together with the other direction of "`ipsi` inverts `psi`" -/
theorem construct_eq_full {syms psi : List Nat} (h : Good syms psi) :
    ∃ ipsi table, inverse psi = some ipsi ∧ ipsi.length = psi.length ∧
      (∀ i, i < psi.length → ipsi.getD (psi.getD i 0) 0 = i) ∧
      (∀ v, v < psi.length → ipsi.getD v 0 < psi.length ∧ psi.getD (ipsi.getD v 0) 0 = v) ∧
      construct syms psi = some (ofTable (kOf syms) table) ∧ Rows table ∧ table ≠ [] ∧
      (table.map (·.tree)).flatten = bwt syms ipsi := by
  obtain ⟨ipsi, hi, hl, h1, h2, h3⟩ := inverse_spec h
  obtain ⟨st, hloop, hinv, hne⟩ := loop_spec syms psi psi.length (kOf syms) h.psi_lt
    (getD_lt_kOf syms) ipsi [] 0 (initSt (kOf syms)) rfl (by rw [hl, Nat.zero_add]) h3
    (initSt_inv _) (fun h => absurd h (Nat.lt_irrefl 0))
  rw [List.nil_append] at hinv
  have hff := flush_fold_inv hinv
  refine ⟨ipsi, st.table ++ [⟨st.start, st.tree⟩], hi, hl, h1, h2, ?_,
    Rows_snoc hinv.rows (hne h.pos) hinv.start, by simp, ?_⟩
  · unfold construct
    have hn0 : ¬ psi.length = 0 := by have := h.pos; omega
    simp only [h.len, ne_eq, not_true_eq_false, if_false, hn0, hi, hloop]
    rw [flush_eq, hff]
    rfl
  · rw [List.map_append, List.flatten_append]
    simp only [List.map_cons, List.map_nil, List.flatten_cons, List.flatten_nil, List.append_nil]
    exact hinv.flat

theorem construct_eq {syms psi : List Nat} (h : Good syms psi) :
    ∃ ipsi table, inverse psi = some ipsi ∧ ipsi.length = psi.length ∧
      (∀ i, i < psi.length → ipsi.getD (psi.getD i 0) 0 = i) ∧
      construct syms psi = some (ofTable (kOf syms) table) ∧ Rows table ∧ table ≠ [] ∧
      (table.map (·.tree)).flatten = bwt syms ipsi := by
  obtain ⟨ipsi, table, a, b, c, _, d⟩ := construct_eq_full h
  exact ⟨ipsi, table, a, b, c, d⟩

end Blue.PsiWt
