import Blue.Model.BitVec
import Blue.Model.Csa
import Blue.Model.CsaDoc
import Blue.Model.BitArr
import Blue.Model.Sampled
import Blue.Model.Sigma
import Blue.Model.BvSparse
import Blue.Model.RrrCf
import Blue.Model.Rrr
import Blue.Model.Wavelet
import Blue.Model.PsiDoc
import Blue.Model.Huffman
import Blue.Driver.Util
/-! Driver verbs for property C19: instance `bv` (bit vectors on `List Bool`) and instance `doc`
    (the `Document` surface over the `Csa` model; the suffix-array order is computed naively here,
    by insertion sort with the model's `lexLt`). -/
namespace Blue.Driver.C19
open Blue.Driver

/-! ### parsing / rendering -/

def natList (s : String) : Option (List Nat) :=
  if s = "-" then some [] else allSome ((s.splitOn ",").map optNat)

def showNats (xs : List Nat) : String :=
  if xs.isEmpty then "-" else ",".intercalate (xs.map toString)

def showOptNat : Option Nat → String
  | none => "-"
  | some n => toString n

def showOptBool : Option Bool → String
  | none => "-"
  | some true => "1"
  | some false => "0"

def showOpts (xs : List String) : String :=
  if xs.isEmpty then "-" else ",".intercalate xs

/-- run lengths, starting with a (possibly empty) run of zeros -/
def unRle : List Nat → Bool → List Bool
  | [], _ => []
  | k :: t, b => List.replicate k b ++ unRle t (!b)

/-! ### bit vectors -/

/-- the six observations of one bit-vector implementation, given its operations -/
def bvRender (len : Nat) (acc : Nat → Option Bool) (rk rk0 sel sel0 : Nat → Option Nat)
    (pa ps ps0 : List Nat) : String :=
  "len=" ++ toString len
    ++ ";a=" ++ showOpts (pa.map fun x => showOptBool (acc x))
    ++ ";r=" ++ showOpts (pa.map fun x => showOptNat (rk x))
    ++ ";r0=" ++ showOpts (pa.map fun x => showOptNat (rk0 x))
    ++ ";s=" ++ showOpts (ps.map fun x => showOptNat (sel x))
    ++ ";s0=" ++ showOpts (ps0.map fun x => showOptNat (sel0 x))

/-- the reference semantics on `List Bool` (`ReferenceBitVector` and the trait defaults) -/
def bvAnswer (bits : List Bool) (pa ps ps0 : List Nat) : String :=
  open Blue.BitVec in
  bvRender bits.length (access bits) (rank bits) (rank0 bits) (select bits) (select0 bits) pa ps ps0

/-- the sparse bit vector: the model of `sparse::BitVector::from_indices(branch, len, set positions)`
    and of its own `access` / `rank` / `select` on the built tree -/
def bvSparse (branch : Option Nat) (bits : List Bool) (pa ps ps0 : List Nat) : String :=
  open Blue.BvSparse in
  match (match branch with | none => construct bits | some b => build b bits.length (indicesOf bits)) with
  | none => "construct:none"
  | some t => bvRender (len t) (access t) (rank t) (rank0 t) (select t) (select0 t) pa ps ps0

/-- cf_rrr: the model of `cf_rrr::BitVector::construct` and of its own queries on the encoded blocks
    (`rank0` is the trait default over its `rank`) -/
def bvCf (bits : List Bool) (pa ps ps0 : List Nat) : String :=
  open Blue.RrrCf in
  let v := construct bits
  bvRender (len v) (access v) (rank v) (fun x => (rank v x).map (fun r => x - r)) (select v) (select0 v) pa ps ps0

/-- rrr: the model of `rrr::BitVector::construct` and of its own queries on the six encoded arrays -/
def bvRrr (bits : List Bool) (pa ps ps0 : List Nat) : String :=
  open Blue.Rrr in
  let v := construct bits
  bvRender (len v) (access v) (rank v) (rank0 v) (select v) (vselect0 v) pa ps ps0

/-- which model answers for which implementation of the harness -/
def bvImpl (name : String) (bits : List Bool) (pa ps ps0 : List Nat) : Option String :=
  match name with
  | "ref" => some (bvAnswer bits pa ps ps0)
  | "rrr" => some (bvRrr bits pa ps ps0)
  | "cfrrr" => some (bvCf bits pa ps ps0)
  | "sparse" => some (bvSparse none bits pa ps ps0)
  | "sparse4" => some (bvSparse (some 4) bits pa ps ps0)
  | "sparse128" => some (bvSparse (some 128) bits pa ps ps0)
  | "sparse255" => some (bvSparse (some 255) bits pa ps ps0)
  | _ => none

def parsePairs (s : String) : Option (List (Nat × Nat)) :=
  if s = "-" then some [] else
  allSome ((s.splitOn ",").map fun p => match p.splitOn ":" with
    | [a, b] => match optNat a, optNat b with
      | some x, some y => some (x, y)
      | _, _ => none
    | _ => none)

/-- `bv ba <width:value,…> <index:width,…>`: `push_word` each field, `seal`, then the loads -/
def bvBa (pushes loads : List (Nat × Nat)) : String :=
  open Blue.BitArr in
  let a := sealBits (packFields (pushes.map fun p => (p.2, p.1)))
  "bytes=" ++ toString (a.length / 8) ++ ";ld=" ++ showOpts (loads.map fun q => showOptNat (load a q.1 q.2))

/-- `bv <len> <rle> <impl,impl,…> all` or `bv <len> <rle> <impls> at <p,p,…>` -/
def handleBv : List String → String
  | ["ba", pushes, loads] =>
    match parsePairs pushes, parsePairs loads with
    | some p, some q => bvBa p q
    | _, _ => "bad-op"
  | len :: rle :: impls :: mode =>
    match optNat len, natList rle with
    | some n, some runs =>
      let bits := unRle runs false
      if bits.length ≠ n then "bad-op" else
      let ones := bits.count true
      let q : Option (List Nat × List Nat × List Nat) :=
        match mode with
        | ["all"] => some (List.range (n + 2), List.range (ones + 2), List.range (n - ones + 2))
        | ["at", ps] => (natList ps).map fun p => (p, p, p)
        | _ => none
      match q with
      | none => "bad-op"
      | some (pa, ps, ps0) =>
        match allSome ((impls.splitOn ",").map fun i => (bvImpl i bits pa ps ps0).map (i ++ ":" ++ ·)) with
        | none => "bad-op"
        | some segs => " ".intercalate segs
    | _, _ => "bad-op"
  | _ => "bad-op"

/-! ### documents -/

def insertBy (lt : List Nat → List Nat → Bool) (x : List Nat) : List (List Nat) → List (List Nat)
  | [] => [x]
  | y :: ys => if lt x y then x :: y :: ys else y :: insertBy lt x ys

/-- the non-empty suffixes in suffix-array order, by the model's `lexLt` -/
def suffixArrayOrder (T : List Nat) : List (List Nat) :=
  ((List.range T.length).map fun k => T.drop k).foldr (insertBy Blue.Csa.lexLt) []

def parsePats (s : String) : Option (List (List Nat)) :=
  if s = "-" then some [] else
  allSome ((s.splitOn "/").map fun p => if p = "e" then some [] else natList p)

def unshift (xs : List Nat) : List Nat := xs.map (· - 1)

def showOptNatE : Option Nat → String
  | none => "err"
  | some n => toString n

def showOutNat : Blue.PsiWt.Outcome Nat → String
  | .ok n => toString n
  | .err => "err"
  | .panic => "!"

/-- the whole `Document` surface on code points, every component as `CompressedDocument` has it: the
    alphabet through the `Sigma` model (`construct`, `translate`, `sa_range_for`, `sa_index_to_t`), ψ
    through the wavelet-tree ψ model (`constrain` on closed ranges for backward search, `lookup` for
    the walks), the suffix array / its inverse through the sampled containers (stride `2^6`; the
    record boundaries) -/
def docFull (text rb : List Nat) (pats : List (List Nat)) : String :=
  open Blue.Csa Blue.CsaDoc Blue.Sampled in
  let n := text.length
  if !admissible n rb then "err" else
  match Blue.Sigma.construct text with
  | none => "sigma-panic"
  | some sg =>
  match Blue.Sigma.translate sg text with
  | none => "sigma-err"
  | some T =>
  let l := suffixArrayOrder T
  let bits := boundaryBits n rb
  let recs := records bits
  let syms := Blue.PsiWt.symsOf l
  let rf := Blue.Sigma.rangeForT sg
  match Blue.PsiWt.construct syms (Blue.PsiWt.psiOf T l), ssaConstruct (2 ^ Blue.Sampled.saSampling) (saList l), sisaConstruct l rb with
  | some w, some ssa, some sisa =>
    let sa := (List.range l.length).map fun i =>
      showOptNatE (ssaWalk (Blue.PsiWt.lookup syms w) ssa (Blue.PsiWt.len w + 1) i 0)
    let ps := (List.range n).map fun i => showOptNatE (Blue.PsiWt.lookup syms w (i + 1))
    let cnts := pats.map fun p => showOutNat (Blue.PsiDoc.count syms w rf p)
    let poss := pats.map fun p => match Blue.PsiDoc.search syms w rf ssa p with
      | .ok xs => showNats xs | .err => "err" | .panic => "!"
    let lks := (List.range (n + 2)).map fun o => match lookup bits o with
      | none => "err" | some r => toString r
    let offs := (List.range (recs + 1)).map fun r => match offsetOf bits r with
      | none => "err" | some o => toString o
    let rets := (List.range (recs + 1)).map fun r => match Blue.PsiDoc.retrieve sg syms w sisa bits r with
      | none => "err" | some xs => showNats xs
    "len=" ++ toString (Blue.PsiWt.len w - 1) ++ " recs=" ++ toString recs
      ++ " sa=" ++ showOpts sa ++ " psi=" ++ showOpts ps
      ++ " cnt=" ++ showOpts cnts ++ " pos=" ++ (if poss.isEmpty then "-" else "|".intercalate poss)
      ++ " lk=" ++ showOpts lks ++ " off=" ++ showOpts offs ++ " ret=" ++ "|".intercalate rets
  | _, _, _ => "construct-failed"

def showOutPair : Blue.PsiWt.Outcome (Nat × Nat) → String
  | .ok (a, b) => toString a ++ ":" ++ toString b
  | .err => "err"
  | .panic => "!"

/-- `doc wtpsi <text>`: the wavelet-tree ψ on its own: `lookup` at every rank and two beyond, and
    `constrain(column of σ, (a, b))` for every symbol σ ≥ 1 and every closed `(a, b)` with
    `a ≤ b ≤ n` -/
def docWtPsi (text : List Nat) : String :=
  open Blue.Csa in
  match Blue.Sigma.construct text with
  | none => "sigma-panic"
  | some sg =>
  match Blue.Sigma.translate sg text with
  | none => "sigma-err"
  | some T =>
  let l := suffixArrayOrder T
  let syms := Blue.PsiWt.symsOf l
  match Blue.PsiWt.construct syms (Blue.PsiWt.psiOf T l) with
  | none => "construct-failed"
  | some w =>
    let n := text.length
    let lk := (List.range (n + 3)).map fun i => showOutNat (Blue.PsiWt.lookupO syms w i)
    let cons := (List.range (Blue.Sigma.K sg - 1)).map fun j =>
      match Blue.Sigma.saRangeForSigma sg (j + 1) with
      | none => "err"
      | some r =>
        ",".intercalate ((List.range (n + 1)).flatMap fun a => (List.range (n + 1 - a)).map fun d =>
          showOutPair (Blue.PsiWt.constrain syms w r (a, a + d)))
    "len=" ++ toString (Blue.PsiWt.len w) ++ " lk=" ++ showOpts lk ++ " con=" ++ (if cons.isEmpty then "-" else "|".intercalate cons)

def showOptPair : Option (Nat × Nat) → String
  | none => "err"
  | some (a, b) => toString a ++ ":" ++ toString b

/-- `doc sigma <text> <probes>`: the alphabet on its own -/
def docSigma (text probes : List Nat) : String :=
  open Blue.Sigma in
  match construct text with
  | none => "panic"
  | some sg =>
    let n := text.length
    "K=" ++ toString (K sg)
      ++ " s2c=" ++ showOpts ((List.range (K sg + 1)).map fun i => showOptNat (sigmaToChar sg (i + 1)))
      ++ " c2s=" ++ showOpts (probes.map fun t => showOptNat (charToSigma sg t))
      ++ " rng=" ++ showOpts (probes.map fun t => showOptPair (saRangeFor sg t))
      ++ " i2s=" ++ showOpts ((List.range (n + 3)).map fun i => showOptNat (saIndexToSigma sg i))
      ++ " i2t=" ++ showOpts ((List.range (n + 3)).map fun i => showOptNat (saIndexToT sg i))
      ++ " bs=" ++ (match allSome (bucketStarts sg) with | none => "err" | some xs => showNats xs)
      ++ " bl=" ++ (match allSome (bucketLimits sg) with | none => "err" | some xs => showNats xs)
      ++ " tr=" ++ (match translate sg text with | none => "err" | some T => showNats T)

/-! ### the sampled containers on their own -/

/-- `doc ssa <sampling> <text>`: a sampled suffix array of stride `2^sampling` over the exact suffix
    array of the text, asked at every rank and two beyond -/
def docSsa (sampling : Nat) (text : List Nat) : String :=
  open Blue.Csa Blue.Sampled in
  let l := suffixArrayOrder (Blue.CsaDoc.withMarker text)
  match ssaConstruct (2 ^ sampling) (saList l) with
  | none => "construct-failed"
  | some ssa =>
    let tab := psiTable l
    "sa=" ++ showOpts ((List.range (l.length + 2)).map fun i => showOptNatE (ssaLookupT tab ssa i))

/-- `doc sisa <text> <positions>`: a sampled inverse suffix array over the given positions, asked at
    every text position and two beyond -/
def docSisa (text toSample : List Nat) : String :=
  open Blue.Csa Blue.Sampled in
  let l := suffixArrayOrder (Blue.CsaDoc.withMarker text)
  match sisaConstruct l toSample with
  | none => "err"
  | some si => "isa=" ++ showOpts ((List.range (l.length + 2)).map fun x => showOptNatE (sisaLookup si x))

/-- `doc sarr <off:val,…> all|<x,…>`: a `SampledArray`, asked at every offset up to two past the
    last, or at the listed ones -/
def docSarr (vals : List (Nat × Nat)) (probes : Option (List Nat)) : String :=
  open Blue.Sampled in
  match construct vals, vals.getLast? with
  | some s, some last =>
    let xs := probes.getD (List.range (last.1 + 3))
    "lk=" ++ showOpts (xs.map fun x => showOptNat (lookup s x))
  | _, _ => "panic"

/-- is `sa` the sorted permutation of the suffixes of `T` — the hypothesis of the theorems, checked
    on the concrete array with the model's order (adjacent pairs; `lexLt` is transitive) -/
def adjSorted (T : List Nat) : List Nat → Bool
  | a :: b :: t => Blue.Csa.lexLt (T.drop a) (T.drop b) && adjSorted T (b :: t)
  | _ => true

def isPerm (n : Nat) (sa : List Nat) : Bool :=
  sa.length == n &&
  (sa.foldl (fun (acc : Array Bool × Bool) x =>
      if x < n && !(acc.1.getD x true) then (acc.1.setIfInBounds x true, acc.2) else (acc.1, false))
    (Array.replicate n false, true)).2

def docSa (text sa : List Nat) : String :=
  let T := Blue.CsaDoc.withMarker text
  if !isPerm T.length sa then "not-a-permutation"
  else if !adjSorted T sa then "unsorted"
  else "sorted-permutation n=" ++ toString text.length

def parseTriples (s : String) : Option (List (Nat × Nat × Nat)) :=
  if s = "-" then some [] else
  allSome ((s.splitOn ",").map fun p => match p.splitOn ":" with
    | [a, b, c] => match optNat a, optNat b, optNat c with
      | some x, some y, some z => some (x, y, z)
      | _, _, _ => none
    | _ => none)

/-- `doc wt <sym:code:len,…> <text> <q,…>`: the prefix-code wavelet tree over the code book the real
    Huffman encoder produced (its prefix-freeness — the hypothesis of the theorems — is decided
    here), asked `access` everywhere and `rank_q` / `select_q` for the listed symbols everywhere -/
def docWt (cb : List (Nat × Nat × Nat)) (text qs : List Nat) : String :=
  open Blue.Wavelet in
  let pf := if prefixFreeB cb && inBookB cb text then "1" else "0"
  -- the code book of the request (ascending symbol) IS the one the model of
  -- `HuffmanEncoder::construct` (heap tie-breaking included) builds over this row
  let hb := if decide (Blue.Huffman.bookOfText text = cb) then "1" else "0"
  match construct cb text with
  | none => "pf=" ++ pf ++ " hb=" ++ hb ++ " err"
  | some w =>
    let xs := List.range (text.length + 2)
    "pf=" ++ pf ++ " hb=" ++ hb ++ " len=" ++ toString (len w)
      ++ " a=" ++ showOpts (xs.map fun x => showOptNat (access w x))
      ++ " r=" ++ (if qs.isEmpty then "-" else "|".intercalate (qs.map fun q => showOpts (xs.map fun x => showOptNat (rankQ w q x))))
      ++ " s=" ++ (if qs.isEmpty then "-" else "|".intercalate (qs.map fun q => showOpts (xs.map fun x => showOptNat (selectQ w q x))))

def insertNat (x : Nat) : List Nat → List Nat
  | [] => [x]
  | y :: ys => if x ≤ y then x :: y :: ys else y :: insertNat x ys

/-- the multiset of code lengths, ascending -/
def lensOf (cb : List (Nat × Nat × Nat)) : List Nat := (cb.map fun e => e.2.2).foldr insertNat []

def showEntry : Option (Nat × Nat × Nat) → String
  | some (s, c, l) => toString s ++ ":" ++ toString c ++ ":" ++ toString l
  | none => "-"

def firstDiff : List (Nat × Nat × Nat) → List (Nat × Nat × Nat) → String
  | a :: as, b :: bs => if a = b then firstDiff as bs else showEntry (some a) ++ "/" ++ showEntry (some b)
  | [], b :: _ => "-/" ++ showEntry (some b)
  | a :: _, [] => showEntry (some a) ++ "/-"
  | [], [] => "-"

/-- `doc huff <s:f,…> :: <sym:code:len,…>`: a `(symbol, frequency)` table in ascending symbol order
    and the code book the real `HuffmanEncoder::construct` built over a text with exactly those
    frequencies; `eq=1` iff `Blue.Huffman.huffmanHeap` builds the same book (otherwise both length
    multisets and the first entry that differs, model/real, for the replay) -/
def docHuff (freqs : List (Nat × Nat)) (cb : List (Nat × Nat × Nat)) : String :=
  let m := Blue.Huffman.huffmanHeap freqs
  if decide (m = cb) then "eq=1"
  else "eq=0 model-lens=" ++ showNats (lensOf m) ++ " real-lens=" ++ showNats (lensOf cb)
    ++ " first-diff=" ++ firstDiff m cb

def handleDoc : List String → String
  | ["huff", freqs, "::", cb] =>
    match parsePairs freqs, parseTriples cb with
    | some f, some c => docHuff f c
    | _, _ => "bad-op"
  | ["full", text, rb, pats] =>
    match natList text, natList rb, parsePats pats with
    | some t, some b, some p => docFull t b p
    | _, _, _ => "bad-op"
  | ["sa", text, sa] =>
    match natList text, natList sa with
    | some t, some s => docSa t s
    | _, _ => "bad-op"
  | ["wtpsi", text] =>
    match natList text with
    | some t => docWtPsi t
    | none => "bad-op"
  | ["sigma", text, probes] =>
    match natList text, natList probes with
    | some t, some p => docSigma t p
    | _, _ => "bad-op"
  | ["wt", cb, text, qs] =>
    match parseTriples cb, natList text, natList qs with
    | some c, some t, some q => docWt c t q
    | _, _, _ => "bad-op"
  | ["ssa", sampling, text] =>
    match optNat sampling, natList text with
    | some k, some t => docSsa k t
    | _, _ => "bad-op"
  | ["sisa", text, ps] =>
    match natList text, natList ps with
    | some t, some p => docSisa t p
    | _, _ => "bad-op"
  | ["sarr", vals, "all"] =>
    match parsePairs vals with
    | some v => docSarr v none
    | none => "bad-op"
  | ["sarr", vals, probes] =>
    match parsePairs vals, natList probes with
    | some v, some q => docSarr v (some q)
    | _, _ => "bad-op"
  | ["reject", text, rb] =>
    match natList text, natList rb with
    | some t, some b => if Blue.CsaDoc.admissible t.length b then "accepted" else "err"
    | _, _ => "bad-op"
  | "oracle-only" :: _ => "oracle-only"
  | _ => "bad-op"

end Blue.Driver.C19
