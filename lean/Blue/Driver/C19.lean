import Blue.Model.BitVec
import Blue.Model.Csa
import Blue.Model.CsaDoc
import Blue.Driver.Util
/-! Driver verbs for property C19: instance `bv` (bit vectors on `List Bool`) and instance `doc`
    (the `Document` surface over the `Csa` model; the suffix-array order is computed naively here,
    by insertion sort with the model's `lexLt`). -/
namespace Blue.Driver.C19
open Blue.Driver

/-! ### parsing / rendering -/

def natList (s : String) : Option (List Nat) :=
  if s = "-" then some [] else allSome ((s.splitOn ",").map optNat)

def showNats (xs : List Nat) : String :=
  if xs.isEmpty then "-" else ",".intercalate (xs.map toString)

def showOptNat : Option Nat → String
  | none => "-"
  | some n => toString n

def showOptBool : Option Bool → String
  | none => "-"
  | some true => "1"
  | some false => "0"

def showOpts (xs : List String) : String :=
  if xs.isEmpty then "-" else ",".intercalate xs

/-- run lengths, starting with a (possibly empty) run of zeros -/
def unRle : List Nat → Bool → List Bool
  | [], _ => []
  | k :: t, b => List.replicate k b ++ unRle t (!b)

/-! ### bit vectors -/

def bvAnswer (bits : List Bool) (pa ps ps0 : List Nat) : String :=
  open Blue.BitVec in
  "len=" ++ toString bits.length
    ++ ";a=" ++ showOpts (pa.map fun x => showOptBool (access bits x))
    ++ ";r=" ++ showOpts (pa.map fun x => showOptNat (rank bits x))
    ++ ";r0=" ++ showOpts (pa.map fun x => showOptNat (rank0 bits x))
    ++ ";s=" ++ showOpts (ps.map fun x => showOptNat (select bits x))
    ++ ";s0=" ++ showOpts (ps0.map fun x => showOptNat (select0 bits x))

/-- `bv <len> <rle> <impl,impl,…> all` or `bv <len> <rle> <impls> at <p,p,…>` -/
def handleBv : List String → String
  | len :: rle :: impls :: mode =>
    match optNat len, natList rle with
    | some n, some runs =>
      let bits := unRle runs false
      if bits.length ≠ n then "bad-op" else
      let ones := bits.count true
      let q : Option (List Nat × List Nat × List Nat) :=
        match mode with
        | ["all"] => some (List.range (n + 2), List.range (ones + 2), List.range (n - ones + 2))
        | ["at", ps] => (natList ps).map fun p => (p, p, p)
        | _ => none
      match q with
      | none => "bad-op"
      | some (pa, ps, ps0) =>
        let a := bvAnswer bits pa ps ps0
        " ".intercalate ((impls.splitOn ",").map fun i => i ++ ":" ++ a)
    | _, _ => "bad-op"
  | _ => "bad-op"

/-! ### documents -/

def insertBy (lt : List Nat → List Nat → Bool) (x : List Nat) : List (List Nat) → List (List Nat)
  | [] => [x]
  | y :: ys => if lt x y then x :: y :: ys else y :: insertBy lt x ys

/-- the non-empty suffixes in suffix-array order, by the model's `lexLt` -/
def suffixArrayOrder (T : List Nat) : List (List Nat) :=
  ((List.range T.length).map fun k => T.drop k).foldr (insertBy Blue.Csa.lexLt) []

def parsePats (s : String) : Option (List (List Nat)) :=
  if s = "-" then some [] else
  allSome ((s.splitOn "/").map fun p => if p = "e" then some [] else natList p)

def unshift (xs : List Nat) : List Nat := xs.map (· - 1)

def docFull (text rb : List Nat) (pats : List (List Nat)) : String :=
  open Blue.Csa Blue.CsaDoc in
  let n := text.length
  if !admissible n rb then "err" else
  let T := Blue.CsaDoc.withMarker text
  let l := suffixArrayOrder T
  let bits := boundaryBits n rb
  let recs := records bits
  let sa := (List.range l.length).map fun i => saOf l l.length i
  let ps := (List.range n).map fun i => psi l (i + 1)
  let cnts := pats.map fun p => toString (Blue.CsaDoc.count l (p.map (· + 1)))
  let poss := pats.map fun p => showNats (search l (p.map (· + 1)))
  let lks := (List.range (n + 2)).map fun o => match lookup bits o with
    | none => "err" | some r => toString r
  let offs := (List.range (recs + 1)).map fun r => match offsetOf bits r with
    | none => "err" | some o => toString o
  let rets := (List.range (recs + 1)).map fun r => match retrieve l bits r with
    | none => "err" | some xs => showNats (unshift xs)
  "len=" ++ toString (l.length - 1) ++ " recs=" ++ toString recs
    ++ " sa=" ++ showNats sa ++ " psi=" ++ showNats ps
    ++ " cnt=" ++ showOpts cnts ++ " pos=" ++ (if poss.isEmpty then "-" else "|".intercalate poss)
    ++ " lk=" ++ showOpts lks ++ " off=" ++ showOpts offs ++ " ret=" ++ "|".intercalate rets

/-- is `sa` the sorted permutation of the suffixes of `T` — the hypothesis of the theorems, checked
    on the concrete array with the model's order (adjacent pairs; `lexLt` is transitive) -/
def adjSorted (T : List Nat) : List Nat → Bool
  | a :: b :: t => Blue.Csa.lexLt (T.drop a) (T.drop b) && adjSorted T (b :: t)
  | _ => true

def isPerm (n : Nat) (sa : List Nat) : Bool :=
  sa.length == n &&
  (sa.foldl (fun (acc : Array Bool × Bool) x =>
      if x < n && !(acc.1.getD x true) then (acc.1.setIfInBounds x true, acc.2) else (acc.1, false))
    (Array.replicate n false, true)).2

def docSa (text sa : List Nat) : String :=
  let T := Blue.CsaDoc.withMarker text
  if !isPerm T.length sa then "not-a-permutation"
  else if !adjSorted T sa then "unsorted"
  else "sorted-permutation n=" ++ toString text.length

def handleDoc : List String → String
  | ["full", text, rb, pats] =>
    match natList text, natList rb, parsePats pats with
    | some t, some b, some p => docFull t b p
    | _, _, _ => "bad-op"
  | ["sa", text, sa] =>
    match natList text, natList sa with
    | some t, some s => docSa t s
    | _, _ => "bad-op"
  | ["reject", text, rb] =>
    match natList text, natList rb with
    | some t, some b => if Blue.CsaDoc.admissible t.length b then "accepted" else "err"
    | _, _ => "bad-op"
  | "oracle-only" :: _ => "oracle-only"
  | _ => "bad-op"

end Blue.Driver.C19
