import Blue.Model.Log
import Blue.Model.LogHeader
import Blue.Model.EntryCodec
import Blue.Model.Crc32c
import Blue.Model.FsyncCore
import Blue.Model.ConcLog
import Blue.Driver.Util
/-! Driver verbs for the log model (property C12), instance token `log`.

    The model is `Blue.Log` instantiated with the real parameters (`realParams`: `B = 2^20`,
    `H = 19`, the `Header` message codec of `Blue.Log.encHdr/decHdr`) and with CRC-32C computed
    here in Lean (`Blue.Crc32c.crc32c`), so the bytes `writeAll` produces are compared with the
    bytes of the real `LogBuilder` checksums included.

    Request grammar (one line, space separated):
      bytes   := <seed>.<len> | x<hex>   LCG bytes from `seed` (seed 0 = zeros), or literal bytes (`x-` = empty)
      entry   := p<bytes>,<ts>,<bytes> | d<bytes>,<ts>
      batch   := entry(+entry)*          one `WriteBatch`
      frame   := batch(|batch)*          batches merged into one append (the write core's merge)
      `w [rb=N] [wb=N] frame*`           write all frames, summarise the file, drain the reader
      `w … frame* sync round*`           the same, then replay the rounds of the fsync queue through
                                         `Blue.FsyncCore.rstep` (the fsync core with the system call
                                         split into issue and return, where the call can fail):
        round   := member(,member)*:outcome   one batch of the fsync queue, in the order they ran
        member  := <k>                   the member's append went into frame number k (1-based);
                                         0 = a `ConcurrentLogBuilder::fsync()` caller (watermark 0)
        outcome := n | o<L> | f<L>       no fdatasync was made for the batch / one was issued when
                                         the file was L bytes long and returned 0 / … and FAILED
      Offsets of the core model are file offsets: a member's watermark is the end of its frame
      (strictly monotone in the cumulative payload count the code compares).  The reply gets
      ` sync=` and, per round, `<n|o|f><T|F>@<durable>`: the outcome, what every member is
      answered, the largest length covered by a successfully returned fdatasync afterwards; a
      round where the model would (not) have issued the call the implementation did not (did)
      make ends the replay with `CALL-EXPECTED` / `NO-CALL-EXPECTED`.
      `r <hex>`                          drain the reader over arbitrary bytes
      `t frame* @ k range(,range)*`      write, then for every cut `n` in the ranges read `take n`,
                                         starting at the offset where append number `k` began
    The buffer sizes `rb=`/`wb=` are implementation knobs that must not matter: the model ignores
    them. -/
namespace Blue.Driver.C12
open Blue.Log Blue.EntryCodec Blue.Driver

def P : Params := realParams Blue.Crc32c.crc32c

/-! ### payload generation (the same LCG as the harness) -/

def genBytesAux : Nat → UInt64 → List Nat → List Nat
  | 0, _, acc => acc.reverse
  | n + 1, s, acc =>
    let s' := s * 6364136223846793005 + 1442695040888963407
    genBytesAux n s' ((s' >>> 56).toNat :: acc)

def genBytes (seed len : Nat) : List Nat :=
  if seed = 0 then List.replicate len 0 else genBytesAux len seed.toUInt64 []

def parseSpec (s : String) : Option (List Nat) :=
  if s.startsWith "x" then parseHex (s.drop 1).toString else
  match s.splitOn "." with
  | [a, b] =>
    match a.toNat?, b.toNat? with
    | some seed, some len => if len > 4194304 ∨ seed ≥ 18446744073709551616 then none else some (genBytes seed len)
    | _, _ => none
  | _ => none

def parseTs (s : String) : Option Nat :=
  match s.toNat? with
  | some t => if t < 18446744073709551616 then some t else none
  | none => none

def parseEntry (tok : String) : Option Entry :=
  match tok.toList with
  | 'p' :: r =>
    match (String.ofList r).splitOn "," with
    | [k, ts, v] =>
      match parseSpec k, parseTs ts, parseSpec v with
      | some k, some ts, some v => some (.put ⟨0, k, ts, v⟩)
      | _, _, _ => none
    | _ => none
  | 'd' :: r =>
    match (String.ofList r).splitOn "," with
    | [k, ts] =>
      match parseSpec k, parseTs ts with
      | some k, some ts => some (.del ⟨0, k, ts⟩)
      | _, _ => none
    | _ => none
  | _ => none

/-- one append: the payload (the members' `WriteBatch` buffers concatenated, as `merge` does)
    and the number of entries in it -/
structure Grp where
  buf : List Nat
  nent : Nat

def parseBatch (tok : String) : Option (List Entry) := allSome ((tok.splitOn "+").map parseEntry)

def parseGroup (tok : String) : Option Grp :=
  match allSome ((tok.splitOn "|").map parseBatch) with
  | none => none
  | some bs =>
    let es := bs.foldr (· ++ ·) []
    if es.isEmpty then none else some ⟨es.foldr (fun e acc => encEntry e ++ acc) [], es.length⟩

/-! ### rendering -/

def fnvInit : UInt64 := 0xcbf29ce484222325
def fnvStep (h : UInt64) (b : Nat) : UInt64 := (h ^^^ b.toUInt64) * 0x100000001b3
def fnv (bs : List Nat) : UInt64 := bs.foldl fnvStep fnvInit

def hex64 (h : UInt64) : String :=
  String.ofList ((List.range 16).map fun i => hexDigitC (h.toNat / 16 ^ (15 - i) % 16))

/-- FNV-1a of every 64 KiB chunk of the file -/
def chunkHashes (bs : List Nat) : List UInt64 :=
  let r := bs.foldl (fun (st : UInt64 × Nat × List UInt64) b =>
      let h := fnvStep st.1 b
      if st.2.1 + 1 = 65536 then (fnvInit, 0, h :: st.2.2) else (h, st.2.1 + 1, st.2.2)) (fnvInit, 0, [])
  (if r.2.1 = 0 then r.2.2 else r.1 :: r.2.2).reverse

/-- the 48 bytes before and after every block boundary inside the file, in full -/
def windows (file : List Nat) : String :=
  let nb := file.length / P.B
  if nb = 0 then "-"
  else ",".intercalate ((List.range nb).map fun k =>
    let b := (k + 1) * P.B
    toString b ++ ":" ++ hexOfBytes (slice file (b - 48) 96))

def summary (file : List Nat) : String :=
  "len=" ++ toString file.length ++ " fnv=" ++ hex64 (fnv file)
    ++ " chunks=" ++ ",".intercalate ((chunkHashes file).map hex64)
    ++ " win=" ++ windows file
    ++ " hex=" ++ (if file.length ≤ 600 then hexOfBytes file else "~")

def hashNat8 (h : UInt64) (x : Nat) : UInt64 :=
  (List.range 8).foldl (fun h i => fnvStep h (x / 256 ^ i % 256)) h

def hashEntry (h : UInt64) : Entry → UInt64
  | .put p =>
    let h := fnvStep h 1
    let h := p.keyFrag.foldl fnvStep (hashNat8 h p.keyFrag.length)
    let h := hashNat8 h p.timestamp
    p.value.foldl fnvStep (hashNat8 h p.value.length)
  | .del d =>
    let h := fnvStep h 2
    let h := d.keyFrag.foldl fnvStep (hashNat8 h d.keyFrag.length)
    hashNat8 h d.timestamp

def sharedOf : Entry → Nat
  | .put p => p.shared
  | .del d => d.shared

/-- `next_from_buffer` until the batch buffer is used up: entries delivered so far, their hash,
    and whether an error stopped the decoding -/
def decodeBuf : Nat → List Nat → Nat → UInt64 → Nat × UInt64 × Bool
  | 0, _, n, h => (n, h, true)
  | f + 1, bs, n, h =>
    match bs with
    | [] => (n, h, false)
    | _ =>
      match decEntry bs with
      | none => (n, h, true)
      | some (e, rest) => if sharedOf e ≠ 0 then (n, h, true) else decodeBuf f rest (n + 1) (hashEntry h e)

/-- deliver the entries of the batches the model reader returned; an empty batch buffer is
    `empty_batch()` in `next_from_buffer` -/
def deliver : List (List Nat) → Bool → Nat → UInt64 → Nat × UInt64 × Bool
  | [], e, n, h => (n, h, e)
  | b :: bs, e, n, h =>
    if b.isEmpty then (n, h, true)
    else
      let r := decodeBuf (b.length + 1) b n h
      if r.2.2 then r else deliver bs e r.1 r.2.1

def renderRead (r : Nat × UInt64 × Bool) : String :=
  "read=" ++ toString r.1 ++ ":" ++ hex64 r.2.1 ++ ":" ++ (if r.2.2 then "err" else "end")

def drain (file : List Nat) (fuel : Nat) : String :=
  let r := readSome P file fuel 0
  renderRead (deliver r.1 r.2 0 fnvInit)

/-! ### truncation -/

def eqBytes : List Nat → List Nat → Bool
  | [], [] => true
  | a :: as, b :: bs => if a = b then eqBytes as bs else false
  | _, _ => false

/-- `some k` when `got` is exactly the first `k` of `want` -/
def prefixLen : List (List Nat) → List (List Nat) → Nat → Option Nat
  | [], _, k => some k
  | _ :: _, [], _ => none
  | g :: gs, w :: ws, k => if eqBytes g w then prefixLen gs ws (k + 1) else none

/-- read `file.take n` starting at byte `start` (the offset at which append number `k` began):
    the batches delivered must be exactly the first few of the appends from `k` on -/
def cutResult (gs : List Grp) (file : List Nat) (start n : Nat) : String :=
  let r := readSome P (file.take n) (gs.length + 1) start
  match prefixLen r.1 (gs.map (·.buf)) 0 with
  | none => "BAD"
  | some k => toString (((gs.take k).map (·.nent)).sum) ++ (if r.2 then "x" else "e")

/-- evaluate `f` on every element, eight at a time as tasks (bounds the memory held by the
    truncated copies of a large file) -/
def parChunks (f : Nat → String) : Nat → List Nat → List String → List String
  | 0, _, acc => acc.reverse
  | _, [], acc => acc.reverse
  | fuel + 1, xs, acc =>
    let ts := (xs.take 8).map fun n => Task.spawn fun _ => f n
    parChunks f fuel (xs.drop 8) ((ts.map Task.get).reverse ++ acc)

def parseRange (s : String) : Option (Nat × Nat) :=
  match s.splitOn "-" with
  | [a] => a.toNat?.map fun x => (x, x)
  | [a, b] =>
    match a.toNat?, b.toNat? with
    | some x, some y => if x ≤ y ∧ y - x ≤ 100000 then some (x, y) else none
    | _, _ => none
  | _ => none

def rle : List String → Option (String × Nat) → List String → List String
  | [], none, acc => acc.reverse
  | [], some (s, c), acc => ((s ++ "*" ++ toString c) :: acc).reverse
  | x :: xs, none, acc => rle xs (some (x, 1)) acc
  | x :: xs, some (s, c), acc =>
    if x = s then rle xs (some (s, c + 1)) acc else rle xs (some (x, 1)) ((s ++ "*" ++ toString c) :: acc)

def splitAt (toks : List String) : List String × List String :=
  (toks.takeWhile (· ≠ "@"), (toks.dropWhile (· ≠ "@")).drop 1)

def isKnob (t : String) : Bool := t.startsWith "rb=" || t.startsWith "wb="
def knobOk (t : String) : Bool := ((t.drop 3).toString.toNat?).isSome

/-! ### the rounds of the fsync queue -/

/-- file offset at which each append ends -/
def frameEnds : List (List Nat) → Nat → List Nat
  | [], _ => []
  | b :: bs, pos =>
    let e := pos + (appendAt P 2 pos b).length
    e :: frameEnds bs e

inductive Outcome where
  | noCall
  | called (len : Nat) (ok : Bool)

structure RoundReq where
  members : List Nat
  outcome : Outcome

def parseOutcome (s : String) : Option Outcome :=
  match s.toList with
  | ['n'] => some .noCall
  | 'o' :: r => (String.ofList r).toNat?.map fun l => .called l true
  | 'f' :: r => (String.ofList r).toNat?.map fun l => .called l false
  | _ => none

def parseRound (tok : String) : Option RoundReq :=
  match tok.splitOn ":" with
  | [ms, o] =>
    match allSome ((ms.splitOn ",").map (·.toNat?)), parseOutcome o with
    | some ms, some o => if ms.isEmpty then none else some ⟨ms, o⟩
    | _, _ => none
  | _ => none

/-- the watermark of a member: 0 for an `fsync()` caller, the end of its frame otherwise -/
def watermark (ends : List Nat) (k : Nat) : Option Nat :=
  if k = 0 then some 0 else ends[k - 1]?

def renderRound (letter : String) (a : Blue.FsyncCore.Ans) (s : Blue.FsyncCore.RSt) : String :=
  letter ++ (if a.ok then "T" else "F") ++ "@" ++ toString s.durable

/-- replay: before a round every member's own write has returned (`append` enters the fsync queue
    after the write queue answered), and when a call is issued the file is as long as the probe
    saw it -/
def replayRounds (ends : List Nat) : List RoundReq → Blue.FsyncCore.RSt → List String → List String
  | [], _, acc => acc.reverse
  | r :: rs, s, acc =>
    match allSome (r.members.map (watermark ends)) with
    | none => ("bad-member" :: acc).reverse
    | some inputs =>
      let s := (Blue.FsyncCore.rstep s (.wrote (Blue.FsyncCore.acc inputs))).1
      let s := match r.outcome with
        | .called len _ => (Blue.FsyncCore.rstep s (.wrote len)).1
        | .noCall => s
      match Blue.FsyncCore.rstep s (.enter inputs), r.outcome with
      | (s', some a), .noCall => replayRounds ends rs s' (renderRound "n" a s' :: acc)
      | (_, some _), .called _ _ => ("NO-CALL-EXPECTED" :: acc).reverse
      | (_, none), .noCall => ("CALL-EXPECTED" :: acc).reverse
      | (s', none), .called _ ok =>
        match Blue.FsyncCore.rstep s' (.ret ok) with
        | (s'', some a) => replayRounds ends rs s'' (renderRound (if ok then "o" else "f") a s'' :: acc)
        | (_, none) => ("stuck" :: acc).reverse

def splitSync (toks : List String) : List String × Option (List String) :=
  if toks.contains "sync" then (toks.takeWhile (· ≠ "sync"), some ((toks.dropWhile (· ≠ "sync")).drop 1))
  else (toks, none)

def handle : List String → String
  | "w" :: rest =>
    let (rest, sync) := splitSync rest
    let knobs := rest.filter isKnob
    if !(knobs.all knobOk) then "bad-op"
    else
      match allSome ((rest.filter (!isKnob ·)).map parseGroup) with
      | none => "bad-op"
      | some gs =>
        let file := writeAll P (gs.map (·.buf)) 0
        let s := Task.spawn fun _ => summary file
        let d := Task.spawn fun _ => drain file (gs.length + 1)
        match sync with
        | none => s.get ++ " " ++ d.get
        | some rtoks =>
          match allSome (rtoks.map parseRound) with
          | none => "bad-op"
          | some rounds =>
            let ends := frameEnds (gs.map (·.buf)) 0
            let rr := replayRounds ends rounds Blue.FsyncCore.init []
            s.get ++ " " ++ d.get ++ " sync=" ++ ",".intercalate rr
  | ["r", h] =>
    match parseHex h with
    | none => "bad-op"
    | some bs => if bs.all (· < 256) then drain bs (bs.length + 1) else "bad-op"
  | "t" :: rest =>
    let (ftoks, rtoks) := splitAt rest
    match allSome (ftoks.map parseGroup), rtoks with
    | some gs, [ks, rs] =>
      match ks.toNat?, allSome ((rs.splitOn ",").map parseRange) with
      | some k, some ranges =>
        if k > gs.length then "bad-op"
        else
          let bufs := gs.map (·.buf)
          let file := writeAll P bufs 0
          let start := (writeAll P (bufs.take k) 0).length
          let cuts := ranges.flatMap fun (a, b) => (List.range (b - a + 1)).map (· + a)
          let tail := gs.drop k
          -- the cuts are independent evaluations of the same pure function: run them as tasks
          let results := parChunks (cutResult tail file start) (cuts.length + 1) cuts []
          "len=" ++ toString file.length ++ " fnv=" ++ hex64 (fnv file) ++ " start=" ++ toString start ++ " cuts="
            ++ ",".intercalate (rle results none [])
      | _, _ => "bad-op"
    | _, _ => "bad-op"
  | _ => "bad-op"

/-! ### the composed model `Blue.ConcLog` replayed as a whole (instance token `conclog`)

    `conclog lim=<N> :: ev*` with
      ev := L<batch> | W<n> | F<i> | E<n> | R<0|1>     `link buf | write n | flink i | fenter n | fret ok`
    (`batch` as above: the caller's `WriteBatch`, its buffer is the concatenation of the encoded
    entries).  The reply renders the final `St` of `Blue.ConcLog.run P lim evs`:
      `len= fnv=`   `crashA file`
      `ans=`        per caller (index = link order) `ok` / `err` / `-` (not answered) / `multi`
      `wr=`         per caller `<record>.<offset of its buffer inside the record's payload>`
      `written=`    `St.written`
      `synced=`     `file.synced.length` after every `fret`
      `core=`       `fs.synced` (the fsync core's field, a cumulative payload count)
      `seq=`        the conclusion of `conc_log_file_is_sequential` evaluated on the run
      `dur=`        the conclusion of `conc_log_ack_is_durable` for every acknowledged caller, with
                    `t` = 0, half and all of the pending bytes
      `ord=`        the same observations result when the `flink`s of every round are reversed -/

def parseConcEv (tok : String) : Option Blue.ConcLog.Ev :=
  match tok.toList with
  | 'L' :: r =>
    match parseBatch (String.ofList r) with
    | some es => if es.isEmpty then none else some (.link (es.foldr (fun e acc => encEntry e ++ acc) []))
    | none => none
  | 'W' :: r => (String.ofList r).toNat?.map .write
  | 'F' :: r => (String.ofList r).toNat?.map .flink
  | 'E' :: r => (String.ofList r).toNat?.map .fenter
  | ['R', '1'] => some (.fret true)
  | ['R', '0'] => some (.fret false)
  | _ => none

/-- `file.synced.length` after every `fret` of the run -/
def syncedAfterFrets (lim : Nat) (evs : List Blue.ConcLog.Ev) : List Nat :=
  (evs.foldl (fun (st : Blue.ConcLog.St × List Nat) e =>
    let s' := Blue.ConcLog.step P lim st.1 e
    match e with
    | .fret _ => (s', s'.file.synced.length :: st.2)
    | _ => (s', st.2)) (Blue.ConcLog.init, [])).2.reverse

def concAns (s : Blue.ConcLog.St) : List String :=
  (List.range s.bufs.length).map fun i =>
    match s.answers.filter (fun a => a.1 == i) with
    | [] => "-"
    | [(_, true)] => "ok"
    | [(_, false)] => "err"
    | _ => "multi"

/-- offsets of the buffers of one batch inside the merged record -/
def offsetsIn : List (List Nat) → Nat → List Nat
  | [], _ => []
  | b :: bs, o => o :: offsetsIn bs (o + b.length)

/-- per caller handed to the write core: the record (`WRet.round`) and the offset inside it -/
def concPlaces (s : Blue.ConcLog.St) : List String :=
  let offs := (s.groups.map fun g => offsetsIn g 0).flatten
  (List.range s.bufs.length).map fun i =>
    match s.wrets[i]?, offs[i]? with
    | some w, some o => toString w.round ++ "." ++ toString o
    | _, _ => "-"

def dash (xs : List String) : String := if xs.isEmpty then "-" else ",".intercalate xs

/-- conclusion of `conc_log_file_is_sequential` on the state -/
def concSeq (s : Blue.ConcLog.St) : Bool :=
  let file := Blue.LogCrash.crashA s.file
  let m := Blue.ConcLog.merged s
  file == writeAll P m 0
    && s.groups.flatten == s.bufs.take s.wrets.length
    && m.flatten == (s.bufs.take s.wrets.length).flatten
    && readAll P file (m.length + 1) 0 == some m

/-- conclusion of `conc_log_ack_is_durable` on the state, for every acknowledged caller and
    `t ∈ {0, |pending|/2, |pending|}` -/
def concDur (s : Blue.ConcLog.St) : Bool :=
  let m := Blue.ConcLog.merged s
  let ends := frameEnds m 0
  let ackd := (List.range s.bufs.length).filter (Blue.ConcLog.acked s)
  let perCaller := ackd.all fun i =>
    match s.wrets[i]?, s.bufs[i]? with
    | some w, some b =>
      match s.groups[w.round]?, ends[w.round]? with
      | some grp, some e => grp.contains b && e ≤ (Blue.LogCrash.crashB s.file).length
      | _, _ => false
    | _, _ => false
  let maxRound := ackd.foldl (fun a i => match s.wrets[i]? with | some w => max a (w.round + 1) | none => a) 0
  let cuts := [0, s.file.pending.length / 2, s.file.pending.length]
  perCaller && cuts.all fun t =>
    let r := readSome P (s.file.synced ++ s.file.pending.take t) (m.length + 1) 0
    match prefixLen r.1 m 0 with
    | some j => maxRound ≤ j && j ≤ m.length
    | none => false

/-- reverse every maximal run of consecutive `flink` events -/
def reverseFlinks : List Blue.ConcLog.Ev → List Blue.ConcLog.Ev → List Blue.ConcLog.Ev
  | [], acc => acc
  | .flink i :: rest, acc => reverseFlinks rest (.flink i :: acc)
  | e :: rest, acc => acc ++ e :: reverseFlinks rest []

def concObs (lim : Nat) (evs : List Blue.ConcLog.Ev) (s : Blue.ConcLog.St) : String :=
  let file := Blue.LogCrash.crashA s.file
  "len=" ++ toString file.length ++ " fnv=" ++ hex64 (fnv file)
    ++ " ans=" ++ dash (concAns s) ++ " wr=" ++ dash (concPlaces s)
    ++ " written=" ++ toString s.written
    ++ " synced=" ++ dash ((syncedAfterFrets lim evs).map toString)
    ++ " core=" ++ toString s.fs.synced

def handleConc : List String → String
  | limTok :: "::" :: evToks =>
    match (if limTok.startsWith "lim=" then (limTok.drop 4).toString.toNat? else none),
          allSome ((evToks.filter (· ≠ "")).map parseConcEv) with
    | some lim, some evs =>
      if lim > P.tableFull then "bad-op"
      else
        let s := Blue.ConcLog.run P lim evs
        let obs := concObs lim evs s
        let evs' := reverseFlinks evs []
        let t2 := Task.spawn fun _ => concObs lim evs' (Blue.ConcLog.run P lim evs')
        let tq := Task.spawn fun _ => concSeq s
        let td := Task.spawn fun _ => concDur s
        obs ++ " seq=" ++ (if tq.get then "1" else "0") ++ " dur=" ++ (if td.get then "1" else "0")
          ++ " ord=" ++ (if t2.get == obs then "1" else "0")
    | _, _ => "bad-op"
  | _ => "bad-op"

end Blue.Driver.C12
