import Blue.Model.Setsum
import Blue.Driver.Util
/-! Driver verbs for the setsum model (property C14). -/
namespace Blue.Driver.C14
open Blue.Setsum Blue.Driver

def hexState (s : State) : String := String.ofList (hexdigest s)

/-- the eight little-endian words of a 32-byte hash -/
def words (h : String) : Option (Vector Nat 8) := (parseHex h).bind fromDigestOld

def stateOf (d : String) : Option State := (parseHex d).bind fromDigest

/-- one op of a `prog` line; `none` = the implementation panics (arithmetic underflow) -/
def stepOp (s : State) (tok : String) : Option (Option State) :=
  match tok.toList with
  | 'i' :: h => (words (String.ofList h)).map fun w => some (insert s w)
  | 'r' :: h => (words (String.ofList h)).map fun w => remove s w
  | 'a' :: d => (stateOf (String.ofList d)).map fun t => some (add s t)
  | 's' :: d => (stateOf (String.ofList d)).map fun t => sub s t
  | _ => none

def runProg : Option State → List String → Option (Option State)
  | s, [] => some s
  | none, _ => some none
  | some s, t :: ts =>
    match stepOp s t with
    | none => none
    | some s' => runProg s' ts

def handle : List String → String
  | "items" :: hs =>
    match allSome (hs.map words) with
    | some ws => hexState (ofItems ws)
    | none => "bad-op"
  | "prog" :: d0 :: ops =>
    match stateOf d0 with
    | none => "bad-op"
    | some s =>
      match runProg (some s) ops with
      | none => "bad-op"
      | some none => "panic"
      | some (some s') => hexState s'
  | ["hex", h] =>
    match parseHex h with
    | none => "bad-op"
    | some bs =>
      match fromHexdigest (bs.map Char.ofNat) with
      | none => "none"
      | some s => hexState s
  | _ => "bad-op"

end Blue.Driver.C14
