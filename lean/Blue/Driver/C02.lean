import Blue.Model.StoreCrash
import Blue.Driver.Util
/-! Driver verb for the store crash model (instance `crash`, property C02):

    `crash ops <client>*` with clients `put`, `flush`, `reopen`, `compact:<in>;<in>…:<out>;<out>…`
    (a file name is its batch numbers joined by `.`) → the operation list `StoreCrash.opsOf` emits
    from the empty store, one token per operation kind.  This is the list theorem
    `StoreCrash.crash_recover` quantifies crash points over. -/
namespace Blue.Driver.C02
open Blue.Driver Blue.StoreCrash

def parseName (s : String) : Option Name := allSome ((s.splitOn ".").map String.toNat?)

def parseNames (s : String) : Option (List Name) :=
  if s = "" then some [] else allSome ((s.splitOn ";").map parseName)

def parseClient (t : String) : Option Client :=
  if t = "put" then some .put
  else if t = "flush" then some .flush
  else if t = "reopen" then some .reopen
  else match t.splitOn ":" with
    | ["compact", ins, outs] =>
      match parseNames ins, parseNames outs with
      | some i, some o => some (.compact (fun nm => i.contains nm) o)
      | _, _ => none
    | _ => none

def tok : Op → String
  | .logCreate _ => "logCreate"
  | .logAppend _ _ => "logAppend"
  | .logSync _ => "logSync"
  | .ack _ => "ack"
  | .tmpCreate _ _ => "tmpCreate"
  | .tmpSync _ => "tmpSync"
  | .link _ => "link"
  | .maniAppend _ => "maniAppend"
  | .maniSync => "maniSync"
  | .tmpUnlink _ => "tmpUnlink"
  | .logTrash _ => "logTrash"
  | .sstTrash _ => "sstTrash"

def handle : List String → String
  | "ops" :: cs =>
    match allSome (cs.map parseClient) with
    | some clients => " ".intercalate ((opsOf clients kv0).map tok)
    | none => "bad-op"
  | _ => "bad-op"

end Blue.Driver.C02
