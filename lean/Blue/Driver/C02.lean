import Blue.Model.StoreCrash
import Blue.Model.StoreFault
import Blue.Driver.Util
/-! Driver verbs for the store crash model (instance `crash`, property C02).  A history is a list of
    clients `put`, `flush`, `reopen`, `compact:<in>;<in>…:<out>;<out>…` (a file name is its batch
    numbers joined by `.`), always run from the empty store.

    * `crash ops <client>*` → the operation list `StoreCrash.opsOf` emits, one token per operation
      kind: the list theorem `crash_recover` quantifies crash points over;
    * `crash fault <i> <client>*` → system call number `i` of that list fails as an injected fault
      does (no effect of its own; `StoreFault.retried`): `<kind of the call> surfaced|absorbed
      acked=<acknowledgements the client got> post=<calls after the failed one> recA=<batches a
      reopen finds after the process exit> recB=<… after a power loss on top>`
      (`StoreFault.faultOps`, `faultAcked`, `surfaced`: the objects of theorem `fault_surfaces`);
    * `crash faultx <i> <client>*` → a call outside the model's alphabet fails between calls `i-1`
      and `i` (a write into a temporary, a mkdir, …): the block stops there;
    * `crash gcblock <in>;<in>… <out>;<out>…` → the operation list of a compaction of those inputs
      into those outputs, whatever the outputs hold (`StoreFault.compactOps`, the object of
      `any_compact_block`): a garbage-collecting compaction;
    * `crash recover <a|b> <n> <client>*` → the process dies before call `n` under persistence model
      a / b; what `KeyValueStore::open` does to that directory (`StoreFault.recoverOps`), and
      `rec=<batches it finds>`;
    * `crash recover2 <a|b> <n> <a|b> <m> <client>*` → … and the recovering process dies before its
      own call `m`; `rec=<batches the next reopen finds>` and what that reopen does. -/
namespace Blue.Driver.C02
open Blue.Driver Blue.StoreCrash Blue.StoreFault

def parseName (s : String) : Option Name := allSome ((s.splitOn ".").map String.toNat?)

def parseNames (s : String) : Option (List Name) :=
  if s = "" then some [] else allSome ((s.splitOn ";").map parseName)

def parseClient (t : String) : Option Client :=
  if t = "put" then some .put
  else if t = "flush" then some .flush
  else if t = "reopen" then some .reopen
  else match t.splitOn ":" with
    | ["compact", ins, outs] =>
      match parseNames ins, parseNames outs with
      | some i, some o => some (.compact (fun nm => i.contains nm) o)
      | _, _ => none
    | _ => none

def tok : Op → String
  | .logCreate _ => "logCreate"
  | .logAppend _ _ => "logAppend"
  | .logSync _ => "logSync"
  | .ack _ => "ack"
  | .tmpCreate _ _ => "tmpCreate"
  | .tmpSync _ => "tmpSync"
  | .link _ => "link"
  | .maniAppend _ => "maniAppend"
  | .maniSync => "maniSync"
  | .tmpUnlink _ => "tmpUnlink"
  | .logTrash _ => "logTrash"
  | .sstTrash _ => "sstTrash"

def toks (ops : List Op) : String :=
  if ops.isEmpty then "-" else ",".intercalate (ops.map tok)

def count (r : Option (List Nat)) : String :=
  match recCount r with
  | some k => toString k
  | none => "fail"

def parseModel (s : String) : Option Bool :=
  if s = "a" then some false else if s = "b" then some true else none

def clientsOf (cs : List String) : Option (List Client) := allSome (cs.map parseClient)

/-- a surfaced failure stops the run (`faultOps`); an absorbed one is skipped and the history goes
    on on the directory as it is (`opsOfA`, the object of `crash_recover_A`).  `opsOfA … none` is
    the fault-free list: checked here on every request (`model-inconsistent` otherwise). -/
def faultLine (clients : List Client) (i : Nat) : String :=
  let ops := opsOf clients kv0
  if opsOfA clients fs0 kv0 none ≠ ops then "model-inconsistent"
  else match ops[i]? with
  | none => "bad-op"
  | some op =>
    if !isCall op then "bad-op"
    else
      let after := if absorbed op then opsOfA clients fs0 kv0 (some i) else faultOps ops i (retried op)
      let dir := run fs0 after
      tok op ++ (if surfaced ops i then " surfaced" else " absorbed")
        ++ " acked=" ++ toString (if absorbed op then acked after else faultAcked ops i)
        ++ " post=" ++ toks (after.drop i)
        ++ " recA=" ++ count (recoverA dir) ++ " recB=" ++ count (recoverB dir)

def handle : List String → String
  | "ops" :: cs =>
    match clientsOf cs with
    | some clients => " ".intercalate ((opsOf clients kv0).map tok)
    | none => "bad-op"
  | "fault" :: i :: cs =>
    match i.toNat?, clientsOf cs with
    | some i, some clients => faultLine clients i
    | _, _ => "bad-op"
  | "faultx" :: i :: cs =>
    match i.toNat?, clientsOf cs with
    | some i, some clients =>
      let ops := opsOf clients kv0
      if i > ops.length then "bad-op"
      else
        let dir := run fs0 (ops.take i)
        "- surfaced acked=" ++ toString (acked (ops.take i)) ++ " post=- recA=" ++ count (recoverA dir)
          ++ " recB=" ++ count (recoverB dir)
    | _, _ => "bad-op"
  | ["gcblock", ins, outs] =>
    match parseNames (if ins = "-" then "" else ins), parseNames (if outs = "-" then "" else outs) with
    | some i, some o => " ".intercalate ((compactOps i o).map tok)
    | _, _ => "bad-op"
  | "recover" :: b :: n :: cs =>
    match parseModel b, n.toNat?, clientsOf cs with
    | some b, some n, some clients =>
      let img := image b (run fs0 ((opsOf clients kv0).take n))
      toks (recoverOps img) ++ " rec=" ++ count (recoverA img)
    | _, _, _ => "bad-op"
  | "recover2" :: b1 :: n :: b2 :: m :: cs =>
    match parseModel b1, n.toNat?, parseModel b2, m.toNat?, clientsOf cs with
    | some b1, some n, some b2, some m, some clients =>
      let img := image b1 (run fs0 ((opsOf clients kv0).take n))
      let img2 := image b2 (run img ((recoverOps img).take m))
      toks (recoverOps img2) ++ " rec=" ++ count (recoverA img2)
    | _, _, _, _, _ => "bad-op"
  | _ => "bad-op"

end Blue.Driver.C02
