/-! Line-protocol helpers for the model driver: tokens, hex byte strings, rendering.
    Import-free (core only) so that the driver links as a native executable. -/
namespace Blue.Driver

def hexVal (c : Char) : Option Nat :=
  if '0' ≤ c ∧ c ≤ '9' then some (c.toNat - '0'.toNat)
  else if 'a' ≤ c ∧ c ≤ 'f' then some (c.toNat - 'a'.toNat + 10)
  else none

def parseHexAux : List Char → List Nat → Option (List Nat)
  | [], acc => some acc.reverse
  | [_], _ => none
  | a :: b :: rest, acc =>
    match hexVal a, hexVal b with
    | some x, some y => parseHexAux rest ((16 * x + y) :: acc)
    | _, _ => none

/-- `-` is the empty byte string; otherwise lowercase hex -/
def parseHex (s : String) : Option (List Nat) :=
  if s = "-" then some [] else parseHexAux s.toList []

def hexDigitC (n : Nat) : Char :=
  if n < 10 then Char.ofNat ('0'.toNat + n) else Char.ofNat ('a'.toNat + (n - 10))

def hexOfBytes (bs : List Nat) : String :=
  if bs.isEmpty then "-" else String.ofList (bs.flatMap fun b => [hexDigitC (b / 16 % 16), hexDigitC (b % 16)])

def tokens (line : String) : List String :=
  (line.trimAscii.toString.splitOn " ").filter (· ≠ "")

def optNat (s : String) : Option Nat := s.toNat?

def allSome {α : Type} : List (Option α) → Option (List α)
  | [] => some []
  | none :: _ => none
  | some x :: t => (allSome t).map (x :: ·)

end Blue.Driver
