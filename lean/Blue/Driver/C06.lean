import Blue.Model.KvsConc
import Blue.Driver.Util
/-! Driver verb for property C06: `kvsw <completed 0|1> <seq_no> <mem_seq_no> <tok>…` — a run of
    the real `KeyValueStore` under client, flush and compaction threads, as recorded by the
    `lsmtk::verif` event hooks, replayed through `Blue.KvsConc.step`.  Every event must be enabled;
    the first one that is not is reported (`stuck@<index>:<token>`); an insert into a table the
    flush thread has already taken is reported as `insert-into-flushed-table@…`, a failed write
    that leaves the wait list out of its turn as `failed-write-left-out-of-turn@…`.  The hypothesis of
    `snapshot_tree_consistent` is checked on the trace: between a reader's `T` and its `S` no step
    that needs the store mutex may occur, and the snapshot must be clean — otherwise
    `stuck@<index>:tree-snapshot-outside-lock`.

    tokens  `B<seq>,<mem>,<k>=<v>;<k>!;…` write began (sequence number, memtable picked, batch)
            `L<seq>` log appended   `I<seq>,<idx>` entry inserted   `F<seq>` left the wait list
            `X<seq>` the write failed and left the wait list (nothing published)
            `R<new>,<old>` rotate mem→imm   `H<new>` flush thread passed the wait list
            `N<old>,<vid>` tree version `vid` with the flushed file installed   `C<old>` imm cleared
            `V<vid>` tree version `vid` installed by a compaction
            `T<rid>,<vid>` reader `rid` cloned the installed tree version, number `vid`
            `S<rid>,<ts>,<mem>,<imm 0|1>` reader took mem, imm and its timestamp
            `G<rid>,<key>` lookup of one key in snapshot `rid`       → `<rid>=<value|->`
            `Q<rid>,<lo>,<hi>` the part `lo..=hi` of a scan of snapshot `rid` → `<rid>=[k:v,…]`
    answer  `ok obs=<…>;<…> end=seq:<n>,ts:<n>,mem:<n>,imm:<0|1>,q:<n>,open:<n>` -/
namespace Blue.Driver.C06
open Blue.Driver Blue.KvsConc

def nats (s : String) : Option (List Nat) := allSome ((s.splitOn ",").map optNat)

def parseEntry (s : String) : Option (Nat × Option Nat) :=
  if s.endsWith "!" then
    (optNat (s.dropEnd 1).toString).map (fun k => (k, none))
  else
    match s.splitOn "=" with
    | [k, v] =>
      match optNat k, optNat v with
      | some k, some v => some (k, some v)
      | _, _ => none
    | _ => none

def parseBatch (s : String) : Option (List (Nat × Option Nat)) :=
  if s = "-" then some [] else allSome ((s.splitOn ";").map parseEntry)

inductive Tok where
  | ev (e : Ev)
  | get (rid key : Nat)
  | scan (rid lo hi : Nat)

def parseTok (t : String) : Option Tok :=
  match t.toList with
  | 'B' :: rest =>
    match (String.ofList rest).splitOn "," with
    | [a, b, c] =>
      match optNat a, optNat b, parseBatch c with
      | some seq, some tbl, some batch => some (.ev (.wBegin seq tbl batch))
      | _, _, _ => none
    | _ => none
  | 'L' :: rest => (optNat (String.ofList rest)).map (fun q => .ev (.wLog q))
  | 'I' :: rest =>
    match nats (String.ofList rest) with
    | some [q, i] => some (.ev (.wIns q i))
    | _ => none
  | 'F' :: rest => (optNat (String.ofList rest)).map (fun q => .ev (.wFin q))
  | 'X' :: rest => (optNat (String.ofList rest)).map (fun q => .ev (.wFail q))
  | 'R' :: rest =>
    match nats (String.ofList rest) with
    | some [n, o] => some (.ev (.fRotate n o))
    | _ => none
  | 'H' :: rest => (optNat (String.ofList rest)).map (fun q => .ev (.fHead q))
  | 'N' :: rest =>
    match nats (String.ofList rest) with
    | some [o, v] => some (.ev (.fInstall o v))
    | _ => none
  | 'V' :: rest => (optNat (String.ofList rest)).map (fun q => .ev (.tInstall q))
  | 'T' :: rest =>
    match nats (String.ofList rest) with
    | some [rid, v] => some (.ev (.rTree rid v))
    | _ => none
  | 'C' :: rest => (optNat (String.ofList rest)).map (fun q => .ev (.fClear q))
  | 'S' :: rest =>
    match nats (String.ofList rest) with
    | some [rid, ts, mem, imm] => if imm ≤ 1 then some (.ev (.rSnap rid ts mem (imm == 1))) else none
    | _ => none
  | 'G' :: rest =>
    match nats (String.ofList rest) with
    | some [rid, k] => some (.get rid k)
    | _ => none
  | 'Q' :: rest =>
    match nats (String.ofList rest) with
    | some [rid, lo, hi] => some (.scan rid lo hi)
    | _ => none
  | _ => none

def findSnap (s : St) (rid : Nat) : Option Snap := (s.readers.find? (fun r => r.1 = rid)).map (·.2)

def rVal : Option Nat → String
  | some v => toString v
  | none => "-"

def scanPart (s : St) (sn : Snap) (lo hi : Nat) : String :=
  let keys := (List.range (hi + 1 - lo)).map (· + lo)
  let shown := keys.filterMap (fun k => (value s sn k).map (fun v => s!"{k}:{v}"))
  "[" ++ ",".intercalate shown ++ "]"

def rEnd (s : St) : String :=
  let openW := (s.writers.filter (fun w => !w.finished)).length
  s!"seq:{s.seqNo},ts:{readTs s},mem:{s.memId},imm:{if s.imm.isSome then 1 else 0},q:{s.queue.length},open:{openW}"

def rObs (obs : List String) : String := if obs.isEmpty then "-" else ";".intercalate obs.reverse

def replay : St → Nat → List String → List String → String
  | s, _, [], obs => s!"ok obs={rObs obs} end={rEnd s}"
  | s, i, t :: ts, obs =>
    match parseTok t with
    | none => "bad-op"
    | some (.get rid k) =>
      match findSnap s rid with
      | none => s!"stuck@{i}:{t}"
      | some sn => replay s (i + 1) ts (s!"{rid}={rVal (value s sn k)}" :: obs)
    | some (.scan rid lo hi) =>
      match findSnap s rid with
      | none => s!"stuck@{i}:{t}"
      | some sn => replay s (i + 1) ts (s!"{rid}={scanPart s sn lo hi}" :: obs)
    | some (.ev e) =>
      let dup := match e with
        | .wIns q _ => dupInsert s q
        | _ => false
      let closed := match e with
        | .wIns q _ => !(insertsIntoOpenTable s q)
        | _ => false
      -- the repaired `write` sends a failed write through the common exit: it leaves as head
      let outOfTurn := match e with
        | .wFail q => !(failedLeavesAtHead s q)
        | _ => false
      -- a reader holds a tree version and has not yet taken mem / imm: in the code that is inside
      -- one critical section of the store mutex, so no other step that needs that mutex can follow
      let owner : Option Nat := match e with
        | .rSnap rid _ _ _ => some rid
        | .rTree rid _ => some rid
        | _ => none
      let needsMutex := match e with
        | .wBegin .. | .wFin _ | .wFail _ | .fRotate .. | .fHead _ | .fClear _ | .rSnap .. | .rTree .. => true
        | _ => false
      let outside := needsMutex && s.trees.any (fun p => some p.1 != owner)
      -- … and the snapshot it ends up with must be clean (no `imm := none` in between)
      let unclean := match e with
        | .rSnap rid _ _ _ => (s.trees.find? (fun p => p.1 = rid)).any (fun p => !p.2.2)
        | _ => false
      if outside || unclean then s!"stuck@{i}:tree-snapshot-outside-lock"
      else if dup then s!"panic-dup-insert@{i}:{t} obs={rObs obs}"
      else if closed then s!"insert-into-flushed-table@{i}:{t}"
      else if outOfTurn then s!"failed-write-left-out-of-turn@{i}:{t}"
      else
        match step s e with
        | none => s!"stuck@{i}:{t}"
        | some s' => replay s' (i + 1) ts obs

def handle : List String → String
  | c :: seq :: mem :: toks =>
    match optNat c, optNat seq, optNat mem with
    | some c, some seq, some mem => if c ≤ 1 then replay (init (c == 1) seq mem) 0 toks [] else "bad-op"
    | _, _, _ => "bad-op"
  | _ => "bad-op"

end Blue.Driver.C06
