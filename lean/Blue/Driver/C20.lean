import Blue.Model.Stall
import Blue.Model.Selector
import Blue.Model.KvsWake
import Blue.Driver.Util
/-! Driver verbs for the stall / wake-up protocol and the selector (instance `stall`, property C20).

    `stall run <stallFiles> <stallBytes> <ni> <nc> <l0> <l0b> :: <tok>*` — a recorded run of the real
    store (level 0 holding `l0` files / `l0b` bytes when the threads start) as a run of
    `Blue.Stall.step`.  Tokens (thread indices are positions in the two thread lists):
      `Ip<i>`                       ingester `i` found `should_stall_ingest` and parked on `stall`
      `Ia<i>:<l0>:<l0b>:<woken>`    ingester `i` installed its file; level 0 afterwards; sleepers
                                    on `compact` flagged by its `notify_all`
      `Sy<i>` / `Sn<i>:<ongoing>`   compactor `i` selected: something (goes in flight) / nothing
                                    (parks on `compact`), with the length of the `ongoing` list it
                                    saw, which must be the number of compactions in flight
      `A<i>`                        the compaction of compactor `i` failed and was released; the
                                    thread returned and a fresh one continues under the same index
      `F<i>:<l0>:<l0b>:<woken>`     compactor `i` applied its compaction; level 0 afterwards;
                                    sleepers on `stall` flagged by its `notify_all`
      `Wi<i>:<n>` / `Wc<i>:<n>`     ingester / compactor `i` returned from its wait; `n` = 1 when a
                                    notification had been issued for it, 0 for a spurious wake-up
    Every token must be enabled (the thread in the state the event needs), the model must take the
    same branch (park vs. install), level 0 must agree, the number of sleepers a notification
    flags must be the number of waiting threads of the model, `Blue.Stall.invB` must hold after
    every event as long as `selOK` has held.  Answer:
      `ok sel=<ok|violated> inv=<ok|broken> end=<wi>/<ni>,<wc>/<nc> l0=<n>` or `bad:<why>@<pos>`.

    `stall sel <levels> <mof> <mcb> <mcf> <mandF> <mandB> <stallF> <stallB> :: <file>*` with files
    `L<level>:<first hex>:<last hex>:<size>:<biggest ts>` in the order the version holds them —
    `should_stall_ingest`, `next_compaction().is_some()` (nothing in flight), the tree summary and
    `sel` / the D-15 trigger on it:
      `stall=<b> next=<b> l0=<n> l0b=<n> l1h=<n> l1hb=<n> full=<b> sel=<b> over=<b>`,
    or `sel-unsound` when `sel` holds and the selector model offers nothing, `hull-not-choosable`
    when `sel` holds and the hypothesis of `Blue.Selector.sel_sound_partial` does not.

    `stall wake :: <tok>*` — the wait list of `KeyValueStore::write` in a recorded run, as a run of
    `Blue.KvsWake.step` (threads are numbered in link order):
      `K`      a writer (or the flush thread) linked itself
      `A<i>`   thread `i` ran its last critical section: it left as head, or went to sleep
      `D<i>`   thread `i`, a write that failed, dropped its guard out of turn (the store as found)
      `S<i>`   thread `i` woke unprompted
    Every token must be enabled.  Answer: `ok head=<ok|asleep@pos> end=q:<n>,asleep:<n>` — `pos` the
    first token after which the head of the list was asleep — or `bad:not-enabled@<pos>`. -/
namespace Blue.Driver.C20
open Blue.Driver Blue.Stall

def b01 (b : Bool) : String := if b then "1" else "0"

def nats (s : String) : Option (List Nat) := allSome ((s.splitOn ":").map optNat)

def countWaiting (l : List TState) : Nat := (l.filter (· == .waiting)).length

structure Acc where
  s : St
  selViolated : Bool := false
  invBroken : Bool := false

/-- one token; `Except` carries the reason of a mismatch -/
def tok (a : Acc) (t : String) : Except String Acc :=
  let s := a.s
  let fin (s' : St) (ev : Ev) : Except String Acc :=
    let viol := a.selViolated || !selOK s ev
    .ok { s := s', selViolated := viol, invBroken := a.invBroken || (!viol && !invB s') }
  if t.startsWith "Ip" then
    match optNat (t.drop 2).toString with
    | some i =>
      if s.ingesters[i]? != some .running then .error "ingester-not-running"
      else
        let s' := step s (.ingest i 0)
        if s'.ingesters[i]? != some .waiting then .error "parked-but-model-not-stalled" else fin s' (.ingest i 0)
    | none => .error "syntax"
  else if t.startsWith "Ia" then
    match nats (t.drop 2).toString with
    | some [i, l0, l0b, woken] =>
      if s.ingesters[i]? != some .running then .error "ingester-not-running"
      else if l0b < s.l0b then .error "ingest-shrinks-level0"
      else if woken != countWaiting s.compactors then .error "notify-compact-count"
      else
        let ev := Ev.ingest i (l0b - s.l0b)
        let s' := step s ev
        if s'.ingesters[i]? != some .running then .error "installed-but-model-stalled"
        else if s'.l0 != l0 || s'.l0b != l0b then .error "level0-differs"
        else fin s' ev
    | _ => .error "syntax"
  else if t.startsWith "Sy" then
    match optNat (t.drop 2).toString with
    | some i =>
      if s.compactors[i]? != some .running then .error "compactor-not-running"
      else fin (step s (.select i true)) (.select i true)
    | none => .error "syntax"
  else if t.startsWith "Sn" then
    match nats (t.drop 2).toString with
    | some [i, n] =>
      if s.compactors[i]? != some .running then .error "compactor-not-running"
      else if n != ongoing s then .error "ongoing-differs-from-compactions-in-flight"
      else fin (step s (.select i false)) (.select i false)
    | _ => .error "syntax"
  else if t.startsWith "A" then
    match optNat (t.drop 1).toString with
    | some i =>
      if s.compactors[i]? != some .inflight then .error "compactor-not-in-flight"
      else fin (step s (.abort i)) (.abort i)
    | none => .error "syntax"
  else if t.startsWith "F" then
    match nats (t.drop 1).toString with
    | some [i, l0, l0b, woken] =>
      if s.compactors[i]? != some .inflight then .error "compactor-not-in-flight"
      else if l0 > s.l0 || l0b > s.l0b then .error "finish-grows-level0"
      else if woken != countWaiting s.ingesters then .error "notify-stall-count"
      else
        let ev := Ev.finish i (s.l0 - l0) (s.l0b - l0b)
        let s' := step s ev
        if s'.l0 != l0 || s'.l0b != l0b then .error "level0-differs" else fin s' ev
    | _ => .error "syntax"
  else if t.startsWith "Wi" then
    match nats (t.drop 2).toString with
    | some [i, n] =>
      if n = 1 then
        if s.ingesters[i]? != some .running then .error "woken-ingester-not-notified-in-model" else .ok a
      else if s.ingesters[i]? != some .waiting then .error "spurious-wake-of-thread-not-waiting"
      else fin (step s (.spurI i)) (.spurI i)
    | _ => .error "syntax"
  else if t.startsWith "Wc" then
    match nats (t.drop 2).toString with
    | some [i, n] =>
      if n = 1 then
        if s.compactors[i]? != some .running then .error "woken-compactor-not-notified-in-model" else .ok a
      else if s.compactors[i]? != some .waiting then .error "spurious-wake-of-thread-not-waiting"
      else fin (step s (.spurC i)) (.spurC i)
    | _ => .error "syntax"
  else .error "syntax"

def runToks : Acc → Nat → List String → Except String Acc
  | a, _, [] => .ok a
  | a, pos, t :: ts =>
    match tok a t with
    | .error e => .error s!"{e}@{pos}"
    | .ok a' => runToks a' (pos + 1) ts

def handleRun (stallF stallB ni nc l0 l0b : Nat) (toks : List String) : String :=
  let s0 : St := ⟨stallF, stallB, l0, l0b, List.replicate ni .running, List.replicate nc .running, false, true, 0, true⟩
  match runToks { s := s0 } 0 toks with
  | .error e => s!"bad:{e}"
  | .ok a =>
    let sel := if a.selViolated then "violated" else "ok"
    let inv := if a.invBroken then "broken" else "ok"
    s!"ok sel={sel} inv={inv} end={countWaiting a.s.ingesters}/{ni},{countWaiting a.s.compactors}/{nc} l0={a.s.l0}"

open Blue.Selector in
def parseFile (idx : Nat) (t : String) : Option (Nat × File) :=
  match t.splitOn ":" with
  | [lv, f, l, sz, ts] =>
    if !lv.startsWith "L" then none
    else
      match optNat (lv.drop 1).toString, parseHex f, parseHex l, optNat sz, optNat ts with
      | some lvl, some first, some last, some size, some bts => some (lvl, ⟨idx, first, last, size, bts⟩)
      | _, _, _, _, _ => none
  | _ => none

open Blue.Selector in
def parseFiles : Nat → List String → Option (List (Nat × File))
  | _, [] => some []
  | idx, t :: ts =>
    match parseFile idx t, parseFiles (idx + 1) ts with
    | some f, some fs => some (f :: fs)
    | _, _ => none

open Blue.Selector in
def handleSel (nlevels : Nat) (o : Opts) (files : List (Nat × File)) : String :=
  if files.any (fun p => p.1 ≥ nlevels) then "bad-op"
  else
    let t : Tree := (List.range nlevels).map fun l => (files.filter (fun p => p.1 == l)).map (·.2)
    let m := summary t
    let next := nextSome o t
    if sel o m && !next then "sel-unsound"
    else if sel o m && t.length ≥ 2 && !hullChoosable o t then "hull-not-choosable"
    else
      s!"stall={b01 (shouldStall o t)} next={b01 next} l0={m.l0} l0b={m.l0b} l1h={m.l1h} l1hb={m.l1hb} full={b01 m.full} sel={b01 (sel o m)} over={b01 (overLimit o m)}"

def wakeTok (t : String) : Option Blue.KvsWake.Ev :=
  if t = "K" then some .link
  else if t.startsWith "A" then (optNat (t.drop 1).toString).map .arrive
  else if t.startsWith "D" then (optNat (t.drop 1).toString).map .drop
  else if t.startsWith "S" then (optNat (t.drop 1).toString).map .spur
  else none

def runWake : Blue.KvsWake.St → Nat → Option Nat → List String → String
  | s, _, bad, [] =>
    let head := match bad with
      | none => "ok"
      | some p => s!"asleep@{p}"
    s!"ok head={head} end=q:{s.queue.length},asleep:{Blue.KvsWake.sleepers s}"
  | s, pos, bad, t :: ts =>
    match wakeTok t with
    | none => "bad-op"
    | some ev =>
      match Blue.KvsWake.step s ev with
      | none => s!"bad:not-enabled@{pos}"
      | some s' =>
        let bad' := match bad with
          | some p => some p
          | none => if Blue.KvsWake.headAsleep s' then some pos else none
        runWake s' (pos + 1) bad' ts

def handle : List String → String
  | "wake" :: "::" :: toks => runWake Blue.KvsWake.init 0 none toks
  | "run" :: a :: b :: c :: d :: e :: f :: "::" :: toks =>
    match allSome ([a, b, c, d, e, f].map optNat) with
    | some [stallF, stallB, ni, nc, l0, l0b] => handleRun stallF stallB ni nc l0 l0b toks
    | _ => "bad-op"
  | "sel" :: nl :: mof :: mcb :: mcf :: mf :: mb :: sf :: sb :: "::" :: files =>
    match allSome ([nl, mof, mcb, mcf, mf, mb, sf, sb].map optNat), parseFiles 0 files with
    | some [nl, mof, mcb, mcf, mf, mb, sf, sb], some fs => handleSel nl ⟨mof, mcb, mcf, mf, mb, sf, sb⟩ fs
    | _, _ => "bad-op"
  | _ => "bad-op"

end Blue.Driver.C20
