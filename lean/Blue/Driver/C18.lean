import Blue.Model.Lru
import Blue.Model.WaitList
import Blue.Model.WcqV
import Blue.Model.WcqWake
import Blue.Driver.Util
/-! Driver verbs for property C18: the LRU cache (`lru`), the wait list (`wl`) and the coalescing
    queue (`wcq`).

    * `lru <cap> <op>…` — ops `i<k>,<id>,<size>` insert, `n<k>,<id>,<size>` insert_no_evict,
      `l<k>` lookup, `r<k>` remove, `p` pop.  A value is `(id, size)`; its accounted size is `size`.
      One token per op: `<result>/<accounted size>/<contents most recent first>`.
    * `wl <n> <op>…` — ops `L` link, `L*<c>` c links, `U<i>` unlink guard `i`, `U<i>+L` unlink then link (a parked linker released by
      the unlink), `N` notify_head,
      `C<c>` c times (link, then unlink the oldest live guard).  One token per op:
      `<result>:<state>` where the state is what the guards of the real list can observe
      (head, tail, linked flags of the first 64 window positions).
    * `wcq <m> <ev>…` — a recorded run of `do_work` as model events `L`, `B<i>,<k>` (lead),
      `D<i>,<v>` (deliver), `O<i>` (observe), `F<i>` (finish).  Every event must be *enabled*
      (change the state) in `Blue.WcqV.step`; the answer is the final state's view: log, returned
      values, and the three theorem conclusions evaluated on it.
    * `wake <m> <tok>…` — a run of `do_work` as recorded by the `sync42::verif` hooks, as events of
      the wake-up model `Blue.WcqWake` (see `wakeStep`); no state on the way may be `stuck`. -/
namespace Blue.Driver.C18
open Blue.Driver

/-! ## LRU -/
section lru
open Blue.Lru

abbrev Val := Nat × Nat   -- (id, size)
def szV (v : Val) : Nat := v.2
abbrev C := Cache Nat Val

def natList (s : String) : Option (List Nat) := allSome ((s.splitOn ",").map optNat)

def rVal (v : Val) : String := s!"{v.1}.{v.2}"
def rEnt (e : Nat × Val) : String := s!"{e.1}.{rVal e.2}"
def rContents (c : C) : String :=
  if c.entries.isEmpty then "-" else ";".intercalate (c.entries.map rEnt)
def rState (c : C) : String := s!"{c.size}/{rContents c}"

/-- one op: (result rendering, next state) -/
def lruOp (c : C) (tok : String) : Option (String × C) :=
  match tok.toList with
  | 'i' :: rest =>
    match natList (String.ofList rest) with
    | some [k, id, s] => some ("-", insert szV c k (id, s))
    | _ => none
  | 'n' :: rest =>
    match natList (String.ofList rest) with
    | some [k, id, s] => some ("-", insertNoEvict szV c k (id, s))
    | _ => none
  | 'l' :: rest =>
    match optNat (String.ofList rest) with
    | some k =>
      let (r, c') := lookup c k
      some (match r with | some v => "h" ++ rVal v | none => "m", c')
    | none => none
  | 'r' :: rest =>
    match optNat (String.ofList rest) with
    | some k => some ("-", remove szV c k)
    | none => none
  | ['p'] =>
    let (r, c') := pop szV c
    some (match r with | some e => rEnt e | none => "e", c')
  | _ => none

def lruRun : C → List String → List String → Option (List String)
  | _, [], acc => some acc.reverse
  | c, t :: ts, acc =>
    match lruOp c t with
    | none => none
    | some (r, c') => lruRun c' ts (s!"{r}/{rState c'}" :: acc)

def handleLru : List String → String
  | cap :: ops =>
    match optNat cap with
    | none => "bad-op"
    | some cap =>
      match lruRun (new cap) ops [] with
      | none => "bad-op"
      | some out => if out.isEmpty then "-" else " ".intercalate out
  | _ => "bad-op"
end lru

/-! ## wait list -/
section wl
open Blue.WaitList

def bits (s : St) : String :=
  let w := min (s.tail - s.head) 64
  String.ofList ((List.range w).map fun j => if s.linked ((s.head + j) % s.n) then '1' else '0')

/-- what the live guards can observe; with no guard nothing is observable, but then the window
    must be empty -/
def rWl (s : St) : String :=
  if s.live.isEmpty then (if s.head = s.tail then "empty" else "empty-but-window")
  else s!"h{s.head}t{s.tail}w{bits s}"

def oldest : List Nat → Option Nat
  | [] => none
  | x :: xs => some (xs.foldl min x)

def linkMany : Nat → St → St
  | 0, s => s
  | c + 1, s => linkMany c (step s .link)

def cycle : Nat → St → St
  | 0, s => s
  | c + 1, s =>
    let s1 := step s .link
    match oldest s1.live with
    | some i => cycle c (step s1 (.unlink i))
    | none => cycle c s1

def wlOp (s : St) (tok : String) : Option (String × St) :=
  match tok.toList with
  | ['L'] =>
    match link s with
    | some (_, idx) => some (toString idx, step s .link)
    | none => some ("blocked", step s .link)
  | 'L' :: '*' :: rest =>
    match optNat (String.ofList rest) with
    | some c => some ("-", linkMany c s)
    | none => none
  | 'U' :: rest =>
    match (String.ofList rest).splitOn "+" with
    | [a] =>
      match optNat a with
      | some i => if i ∈ s.live then some ("-", step s (.unlink i)) else some ("x", step s (.unlink i))
      | none => none
    | [a, "L"] =>
      -- an unlink that frees a slot for a parked linker, and that linker's `link`, seen as one
      match optNat a with
      | some i =>
        if i ∈ s.live then
          let s1 := step s (.unlink i)
          match link s1 with
          | some (_, idx) => some (toString idx, step s1 .link)
          | none => some ("blocked", step s1 .link)
        else none
      | none => none
    | _ => none
  | ['N'] => some ("-", s)   -- `notify_head` touches no state
  | 'C' :: rest =>
    match optNat (String.ofList rest) with
    | some c => some ("-", cycle c s)
    | none => none
  | _ => none

def wlRun : St → List String → List String → Option (List String)
  | _, [], acc => some acc.reverse
  | s, t :: ts, acc =>
    match wlOp s t with
    | none => none
    | some (r, s') => wlRun s' ts (s!"{r}:{rWl s'}" :: acc)

def handleWl : List String → String
  | n :: ops =>
    match optNat n with
    | none => "bad-op"
    | some 0 => "bad-op"
    | some n =>
      match wlRun (init n) ops [] with
      | none => "bad-op"
      | some out => if out.isEmpty then "-" else " ".intercalate out
  | _ => "bad-op"
end wl

/-! ## coalescing queue -/
section wcq
open Blue.WcqV

def parseEv (tok : String) : Option Ev :=
  match tok.toList with
  | ['L'] => some .link
  | 'B' :: rest =>
    match natList (String.ofList rest) with
    | some [i, k] => some (.lead i k)
    | _ => none
  | 'D' :: rest =>
    match natList (String.ofList rest) with
    | some [i, v] => some (.deliver i v)
    | _ => none
  | 'O' :: rest => (optNat (String.ofList rest)).map .observe
  | 'F' :: rest => (optNat (String.ofList rest)).map .finish
  | _ => none

/-- replay; `Except` carries the first event that the model refuses -/
def replay : St → Nat → List (String × Ev) → Except String St
  | s, _, [] => .ok s
  | s, n, (tok, ev) :: rest =>
    let s' := step s ev
    if s'.panicked then .error s!"panic@{n}:{tok}"
    else if s' = s then .error s!"disabled@{n}:{tok}"
    else replay s' (n + 1) rest

def rRet : Option Nat → String
  | some o => toString o
  | none => "?"

/-- `own_result` on the final state: what each call returned is what the core produced for it -/
def ownOk (s : St) : Bool :=
  (List.range s.ents.length).all fun i =>
    match s.ents[i]? with
    | some e => (match e.ret with | some o => s.prod.lookup i == some o | none => true)
    | none => true

def handleWcq : List String → String
  | m :: evs =>
    match optNat m, allSome (evs.map fun t => (parseEv t).map fun e => (t, e)) with
    | some m, some evs =>
      match replay init 0 evs with
      | .error e => e
      | .ok s =>
        let log := if s.log = List.range m then "range" else ",".intercalate (s.log.map toString)
        let rets := if s.ents.isEmpty then "-" else ",".intercalate (s.ents.map fun e => rRet e.ret)
        let linked := (s.ents.filter (·.linked)).length
        s!"ok n={s.ents.length} log={log} rets={rets} dw={if s.doingWork then 1 else 0} linked={linked} own={if ownOk s then 1 else 0}"
    | _, _ => "bad-op"
  | _ => "bad-op"
end wcq

/-! ## coalescing queue: wake-up protocol (needs the `sync42::verif` event hooks) -/
section wake
open Blue.WcqWake

def nLinked (s : St) : Nat := (s.ents.filter (·.linked)).length

/-- one token of a `wake` line.  `K<i>,<k>,<o>`: caller `i` evaluates its wait condition under
    the queue's mutex with outcome `o` (`p` decides to park, `l` leaves with its output, `b`
    becomes leader of a batch of `k`); `P` the caller that decided to park parks; `H` a pending
    `notify_head` of a leader happens; `D` / `U` / `C` the leader delivers / unlinks / clears
    `doing_work`; `S<i>` a wake-up of `i` that no notification of the model explains; `W<i>`
    asserts that `i` is awake.  Every event must be enabled and have the stated outcome. -/
def wakeStep (s : St) (tok : String) : Except String St :=
  let enabled (s' : St) : Except String St := if s' = s then .error "disabled" else .ok s'
  match tok.toList with
  | ['L'] => .ok (step s .link)
  | ['P'] => enabled (step s .park)
  | ['H'] => enabled (step s .notifyHead)
  | ['D'] => enabled (step s .deliver)
  | ['U'] => enabled (step s .leaderUnlink)
  | ['C'] => enabled (step s .leaderClear)
  | 'S' :: rest =>
    match optNat (String.ofList rest) with
    | some i => enabled (step s (.spurious i))
    | none => .error "bad-op"
  | 'W' :: rest =>
    match optNat (String.ofList rest) with
    | some i =>
      match s.ents[i]? with
      | some e => if e.parked then .error "awake-but-parked-in-model" else .ok s
      | none => .error "no-such-caller"
    | none => .error "bad-op"
  | 'K' :: rest =>
    match (String.ofList rest).splitOn "," with
    | [a, b, o] =>
      match optNat a, optNat b with
      | some i, some k =>
        let s' := step s (.check i k)
        let good : Bool :=
          if o = "p" then decide (s.holder = none) && decide (s'.holder = some i)
          else if o = "l" then
            decide (s.holder = none) &&
              (match s.ents[i]?, s'.ents[i]? with
               | some e, some e' => e.linked && !e'.linked
               | _, _ => false)
          else if o = "b" then decide (s.lead = Lead.none) && decide (s'.lead = Lead.delivering i k 0)
          else false
        if good then .ok s' else .error "other-outcome"
      | _, _ => .error "bad-op"
    | _ => .error "bad-op"
  | _ => .error "bad-op"

def wakeRun : St → Nat → List String → String
  | s, _, [] =>
    s!"ok n={s.ents.length} linked={nLinked s} lead={if s.lead = Lead.none then 0 else 1} pending={s.pendingNotifyHead} holder={if s.holder = none then 0 else 1}"
  | s, n, t :: ts =>
    match wakeStep s t with
    | .error "bad-op" => "bad-op"
    | .error e => s!"{e}@{n}:{t}"
    | .ok s' => if stuck s' then s!"stuck@{n}:{t}" else wakeRun s' (n + 1) ts

def handleWake : List String → String
  | _m :: evs => wakeRun init 0 evs
  | _ => "bad-op"
end wake

def handle : List String → String
  | "wake" :: rest => handleWake rest
  | "lru" :: rest => handleLru rest
  | "wl" :: rest => handleWl rest
  | "wcq" :: rest => handleWcq rest
  | _ => "bad-op"

end Blue.Driver.C18
