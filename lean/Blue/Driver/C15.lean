import Blue.Model.Wire
import Blue.Model.Proto
import Blue.Model.ProtoMsg
import Blue.Model.ProtoSz
import Blue.Model.Varint
import Blue.Driver.Util
/-! Driver verbs for the wire level (`wire …`) and the schema interpreter (`proto …`), property C15.

    Schema tokens (prefix notation):
      msg     ::= `S` n field*n | `E` n variant*n val | `R` msg msg val
      field   ::= num card ty            card ::= `1` | `?` | `*`
      ty      ::= scalar-name | `M` msg
      variant ::= `U` num | `T` num ty | `N` num n field*n
    Value tokens: `i<int>` | `x<hex>` | `n` | `s` val | `l` k val*k | `m` k val*k | `v` idx val -/
namespace Blue.Driver.C15
open Blue.Wire Blue.ProtoMsg Blue.Driver

def errName : Err → String
  | .bufferTooShort => "buffer-too-short"
  | .varintOverflow => "varint-overflow"
  | .unsignedOverflow => "unsigned-overflow"
  | .signedOverflow => "signed-overflow"
  | .tagTooLarge => "tag-too-large"
  | .unknownDiscriminant => "unknown-discriminant"
  | .invalidFieldNumber => "invalid-field-number"
  | .unhandledWireType => "unhandled-wire-type"
  | .wrongLength => "wrong-length"
  | .stringEncoding => "string-encoding"

def scalarOfName : String → Option Scalar
  | "int32" => some .int32 | "int64" => some .int64 | "uint32" => some .uint32
  | "uint64" => some .uint64 | "sint32" => some .sint32 | "sint64" => some .sint64
  | "Bool" => some .bool | "fixed32" => some .fixed32 | "fixed64" => some .fixed64
  | "sfixed32" => some .sfixed32 | "sfixed64" => some .sfixed64 | "float" => some .float
  | "double" => some .double | "bytes" => some .bytes | "bytes16" => some (.bytesN 16)
  | "bytes32" => some (.bytesN 32) | "bytes64" => some (.bytesN 64) | "string" => some .string
  | _ => none

def cardOfName : String → Option Card
  | "1" => some .one | "?" => some .opt | "*" => some .rep | _ => none

/-! ### parsing (token list → thing, remaining tokens) -/

mutual
partial def parseVal : List String → Option (Val × List String)
  | "n" :: r => some (.none, r)
  | "s" :: r => (parseVal r).map fun (v, r') => (.some v, r')
  | "l" :: k :: r => (optNat k).bind fun k => (parseVals k r).map fun (vs, r') => (.list vs, r')
  | "m" :: k :: r => (optNat k).bind fun k => (parseVals k r).map fun (vs, r') => (.struct vs, r')
  | "v" :: i :: r => (optNat i).bind fun i => (parseVal r).map fun (v, r') => (.variant i v, r')
  | t :: r =>
    match t.toList with
    | 'i' :: d => (String.ofList d).toInt?.map fun i => (.int i, r)
    | 'x' :: h => (parseHex (String.ofList h)).map fun b => (.bytes b, r)
    | _ => none
  | [] => none
partial def parseVals : Nat → List String → Option (List Val × List String)
  | 0, r => some ([], r)
  | k+1, r => (parseVal r).bind fun (v, r') => (parseVals k r').map fun (vs, r'') => (v :: vs, r'')
end

mutual
partial def parseTy : List String → Option (Ty × List String)
  | "M" :: r => (parseMsg r).map fun (m, r') => (.msg m, r')
  | t :: r => (scalarOfName t).map fun s => (.scalar s, r)
  | [] => none
partial def parseField : List String → Option (Field × List String)
  | n :: c :: r =>
    (optNat n).bind fun n => (cardOfName c).bind fun c => (parseTy r).map fun (ty, r') => (.mk n c ty, r')
  | _ => none
partial def parseFields : Nat → List String → Option (List Field × List String)
  | 0, r => some ([], r)
  | k+1, r => (parseField r).bind fun (f, r') => (parseFields k r').map fun (fs, r'') => (f :: fs, r'')
partial def parseVariant : List String → Option (Variant × List String)
  | "U" :: n :: r => (optNat n).map fun n => (.unit n, r)
  | "T" :: n :: r => (optNat n).bind fun n => (parseTy r).map fun (ty, r') => (.tuple n ty, r')
  | "N" :: n :: k :: r =>
    (optNat n).bind fun n => (optNat k).bind fun k => (parseFields k r).map fun (fs, r') => (.named n fs, r')
  | _ => none
partial def parseVariants : Nat → List String → Option (List Variant × List String)
  | 0, r => some ([], r)
  | k+1, r => (parseVariant r).bind fun (v, r') => (parseVariants k r').map fun (vs, r'') => (v :: vs, r'')
partial def parseMsg : List String → Option (Msg × List String)
  | "S" :: k :: r => (optNat k).bind fun k => (parseFields k r).map fun (fs, r') => (.struct fs, r')
  | "E" :: k :: r =>
    (optNat k).bind fun k => (parseVariants k r).bind fun (vs, r') =>
      (parseVal r').map fun (d, r'') => (.enum vs d, r'')
  | "R" :: r =>
    (parseMsg r).bind fun (a, r') => (parseMsg r').bind fun (b, r'') =>
      (parseVal r'').map fun (d, r3) => (.result a b d, r3)
  | _ => none
end

/-! ### rendering -/

mutual
partial def showVal : Val → List String
  | .int i => ["i" ++ toString i]
  | .bytes b => ["x" ++ hexOfBytes b]
  | .none => ["n"]
  | .some v => "s" :: showVal v
  | .list vs => "l" :: toString vs.length :: showVals vs
  | .struct vs => "m" :: toString vs.length :: showVals vs
  | .variant i v => "v" :: toString i :: showVal v
partial def showVals : List Val → List String
  | [] => []
  | v :: vs => showVal v ++ showVals vs
end

def showResult : R (Val × List Nat) → String
  | .error e => "err " ++ errName e
  | .ok (v, rest) => "ok " ++ " ".intercalate (showVal v) ++ " rest=" ++ toString rest.length

def fuel : Nat := 40

/-! ### the flat interpreter of `Blue/Model/Proto.lean` run side by side on flat schemas -/

def flatTy : Scalar → Option Blue.Proto.FieldTy
  | .uint64 => some .uint64 | .bytes => some .bytes | .fixed32 => some .fixed32 | .fixed64 => some .fixed64
  | _ => none

def flatField : Field → Option Blue.Proto.Field
  | .mk n .one (.scalar s) => (flatTy s).map fun t => ⟨n, t⟩
  | _ => none

def flatSchema : Msg → Option (List Blue.Proto.Field)
  | .struct fs => allSome (fs.map flatField)
  | _ => none

def flatVal : Val → Option Blue.Proto.Val
  | .int i => if 0 ≤ i then some (.num i.toNat) else none
  | .bytes b => some (.bytes b)
  | _ => none

def unflatVal : Blue.Proto.Val → Val
  | .num n => .int n
  | .bytes b => .bytes b

def sameVals (a b : List String) : Bool := a == b

/-- `none` = not a flat schema / value, `some ok` = the two interpreters agree -/
def flatPackAgrees (m : Msg) (v : Val) (bytes : List Nat) : Option Bool :=
  match flatSchema m, v with
  | some S, .struct vs =>
    match allSome (vs.map flatVal) with
    | some fvs => if fvs.length = S.length then some (Blue.Proto.pack S fvs == bytes) else none
    | none => none
  | _, _ => none

def flatUnpackAgrees (m : Msg) (bs : List Nat) (r : R (Val × List Nat)) : Option Bool :=
  match flatSchema m with
  | none => none
  | some S =>
    match Blue.Proto.unpack S bs, r with
    | none, .error _ => some true
    | some fvs, .ok (.struct vs, []) => some (showVals (fvs.map unflatVal) == showVals vs)
    | _, _ => some false

/-! ### verbs -/

/-- run-length compression of a list of result strings -/
def rle : List String → List String
  | [] => []
  | x :: xs =>
    let rec go (cur : String) (n : Nat) : List String → List String
      | [] => [toString n ++ "*" ++ cur]
      | y :: ys => if y == cur then go cur (n + 1) ys else (toString n ++ "*" ++ cur) :: go y 1 ys
    go x 1 xs

def splitBar (toks : List String) : List String × List String :=
  (toks.takeWhile (· ≠ "|"), (toks.dropWhile (· ≠ "|")).drop 1)

def handleProto : List String → String
  | "pack" :: rest =>
    let (st, vt) := splitBar rest
    match parseMsg st, parseVal vt with
    | some (m, []), some (v, []) =>
      let bs := packMsg fuel m v
      -- the size is the model's `pack_sz` (`packSzMsg`: the sum the code adds up), NOT `bs.length`
      if flatPackAgrees m v bs == some false then "flat-model-mismatch"
      else hexOfBytes bs ++ " " ++ toString (packSzMsg fuel m v)
    | _, _ => "bad-op"
  | "unpack" :: rest =>
    let (st, ht) := splitBar rest
    match parseMsg st, ht with
    | some (m, []), [h] =>
      match parseHex h with
      | none => "bad-op"
      | some bs =>
        let r := unpackMsg fuel m bs
        if flatUnpackAgrees m bs r == some false then "flat-model-mismatch" else showResult r
    | _, _ => "bad-op"
  | "unpackx" :: rest =>
    let (st, ht) := splitBar rest
    match parseMsg st, ht with
    | some (m, []), [h] =>
      match parseHex h with
      | none => "bad-op"
      | some bs => " ".intercalate (rle ((List.range 256).map fun b => showResult (unpackMsg fuel m (bs ++ [b]))))
    | _, _ => "bad-op"
  | _ => "bad-op"

def showWt (wt : WT) : String := toString wt.bits

def showRes (n : Nat) : Blue.Varint.Res → String
  | .ok v rest => "ok " ++ toString v ++ " " ++ toString (n - rest.length)
  | .err b => "err varint-overflow bytes=" ++ toString b
  | .panic => "panic"

/-- the three decoders of the model side by side (the theorems of `Blue/Proofs/Varint.lean` say
    they agree; the driver also executes that): `decVarint`, `unpack_slow` on the whole buffer,
    the unrolled dispatch when it is in range -/
def pathsAgree (bs : List Nat) : Bool :=
  let d := decVarint bs
  let slow := Blue.Varint.unpackSlow (10, 10) bs
  let okSlow := slow == Blue.Varint.ofDec (min bs.length 10) d
  let okFast := bs.length < 10 || Blue.Varint.dispatch Blue.Varint.arms10 bs == Blue.Varint.ofDec bs.length d
  okSlow && okFast

def handleWire : List String → String
  | ["unpack", h] =>
    -- `<v64 as Unpackable>::unpack` as the code has it: slow decoder below ten bytes, unrolled
    -- dispatch from ten bytes on; the error carries its `bytes` field
    match parseHex h with
    | none => "bad-op"
    | some bs => if pathsAgree bs then showRes bs.length (Blue.Varint.unpack bs) else "model-paths-disagree"
  | ["ssz", s, v] =>
    match scalarOfName s, parseVal [v] with
    | some s, some (v, []) => hexOfBytes (encScalar s v) ++ " " ++ toString (szScalar s v)
    | _, _ => "bad-op"
  | ["enc", n] =>
    match optNat n with
    | some n =>
      -- `v64::pack` as written (`Blue.Varint.pack`) into a zeroed buffer of `pack_sz` bytes
      if n < U64 then
        match Blue.Varint.pack n (List.replicate (varintSz n) 0) with
        | none => "panic"
        | some bs => if bs == encVarint n then hexOfBytes bs ++ " " ++ toString (varintSz n) else "model-pack-disagrees"
      else "bad-op"
    | none => "bad-op"
  | ["dec", h] =>
    match parseHex h with
    | none => "bad-op"
    | some bs =>
      match decVarint bs with
      | none => "err varint-overflow"
      | some (v, rest) => "ok " ++ toString v ++ " " ++ toString (bs.length - rest.length)
  | ["zz", i] =>
    match i.toInt? with
    | some i => toString (zigzag i)
    | none => "bad-op"
  | ["unzz", n] =>
    match optNat n with
    | some n => toString (unzigzag n)
    | none => "bad-op"
  | ["tagenc", n, w] =>
    match optNat n, optNat w with
    | some n, some w =>
      if !validFieldNumber n then "err invalid-field-number"
      else match WT.ofBits w with
        | none => "err unhandled-wire-type"
        | some wt => hexOfBytes (encTag ⟨n, wt⟩) ++ " " ++ toString (szTag ⟨n, wt⟩)
    | _, _ => "bad-op"
  | ["tagdec", h] =>
    match parseHex h with
    | none => "bad-op"
    | some bs =>
      match decTagE bs with
      | .error e => "err " ++ errName e
      | .ok (t, rest) => "ok " ++ toString t.num ++ " " ++ showWt t.wt ++ " " ++ toString (bs.length - rest.length)
  | ["senc", s, v] =>
    match scalarOfName s, parseVal [v] with
    | some s, some (v, []) => hexOfBytes (encScalar s v)
    | _, _ => "bad-op"
  | ["sdec", s, h] =>
    match scalarOfName s, parseHex h with
    | some s, some bs => showResult (decScalar s bs)
    | _, _ => "bad-op"
  | ["fields", h] =>
    match parseHex h with
    | none => "bad-op"
    | some bs =>
      let r := fieldsE (bs.length + 1) bs
      let items := r.1.map fun (t, sl) => toString t.num ++ ":" ++ showWt t.wt ++ ":" ++ hexOfBytes sl
      let tail := match r.2 with | none => "end" | some e => "err " ++ errName e
      " ".intercalate (items ++ [tail])
  | _ => "bad-op"

end Blue.Driver.C15
