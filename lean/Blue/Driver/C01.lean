import Blue.Model.Kvs
import Blue.Model.NextCompaction
import Blue.Model.ApplyCompactionB
import Blue.Model.StoreHist
import Blue.Model.StoreHistGcB
import Blue.Proofs.SpecBounds
import Blue.Driver.Util
/-! Driver verbs for the store model (instance `kvs`): point reads, invariants I1 ∧ I2 and
    closedness of a chosen compaction, all evaluated on a dumped store state.

    state tokens:  `ts=<n> mem=<ents> imm=<ents|none> L<i>:<id>:<first>:<last>:<sts>:<bts>:<ents> …`
    ents: `-` or comma-separated `khex@ts=vhex` | `khex@ts!`;  keys are ranked in byte order.

    selector verbs (model `Blue.NextCompaction.nextCompaction`, the function):
    `select full|some <levels> <mof> <mcb> <mcf> <mandF> <mandB> :: L<i>:<id>:<first>:<last>:<size>:<bts> … ::
      G<lower>:<upper>:<first>:<last>:<size>:<id,id,…|-> …`  (after the second `::` the compactions in
    flight) answers `<lower> <upper> <first> <last> <id> … inv=ok|violated` (the chosen compaction, inputs
    in the order of `CompactionCore::inputs`, and the decidable tree invariant `invB` — the hypothesis
    of `nextCompaction_closed` — on the tree of the request) or `none inv=…`; with `some` only
    `some` / `none`.
    `f64tab` prints the two floating-point tables of the model, `scale <level> <score>` one value.

    tree-step verbs (models `applyCompaction` / `applyTrivialMove` / `ingest`, the functions):
    `apply|move <levels> <lower> <upper> <first> <last> <id,id,…|-> :: L<i>:<id>:<first>:<last>:<sts>:<bts>:<ents> … ::
      L<upper>:… …` (the tree before in the order the version holds the files, then the outputs; `move`
    takes exactly one output) and `ingest <levels> :: <tree before> :: L0:<the new file>` answer the
    successor tree `L0=<id,id,…|-> L1=… …`; `apply`/`move` append `chosen=1|0:<failing conjuncts>` and
    `outsok=1|0:<failing conjuncts>`: the Boolean forms of `Chosen t c` and `OutsOk t c outs`.
    A compaction into the last level carries a third section `:: gc <key@ts!,…|->` (the tombstones
    among its inputs) and the answer ends `newest=<0|1> sub=<0|1>`: `Blue.StoreHistGcB.newestKeptB`
    on the payload flags, the inputs' and the outputs' versions, and "every output version is an
    input version".

    history-model verb (model `Blue.StoreHist.apply`, the function):
    `hist write|reject <k[!],…> | rollover | flush :: <state before> :: <state after>` with a state
    `seq=<n> vis=<n> mem=<vers> imm=<vers|none> L0:<id>:<first>:<last>:<sts>:<bts>:<vers> …`
    (vers: `-` or comma-separated `khex@ts` | `khex@ts!`; level 0 in the order the version holds it)
    answers the model's successor of the state BEFORE: `seq= vis= mem= imm= l0=<ids in search order>`
    and, when the step added a file, ` file=<first>:<last>:<newest ts>:<vers>`.  The state after only
    names the new file (its id). -/
namespace Blue.Driver.C01
open Blue.Driver Blue.Kvs Blue.Spec

structure RawEnt where
  key : List Nat
  ts : Nat
  val : Option (List Nat)

structure RawFile where
  level : Nat
  id : String
  first : List Nat
  last : List Nat
  sts : Nat
  bts : Nat
  ents : List RawEnt

structure RawState where
  ts : Nat
  mem : List RawEnt
  imm : Option (List RawEnt)
  files : List RawFile

def parseEnt (s : String) : Option RawEnt :=
  match s.splitOn "@" with
  | [k, rest] =>
    if rest.endsWith "!" then
      match parseHex k, (rest.dropEnd 1).toString.toNat? with
      | some kb, some t => some ⟨kb, t, none⟩
      | _, _ => none
    else
      match rest.splitOn "=" with
      | [t, v] =>
        match parseHex k, t.toNat?, parseHex v with
        | some kb, some tn, some vb => some ⟨kb, tn, some vb⟩
        | _, _, _ => none
      | _ => none
  | _ => none

def parseEnts (s : String) : Option (List RawEnt) :=
  if s = "-" then some [] else allSome ((s.splitOn ",").map parseEnt)

def parseFile (s : String) : Option RawFile :=
  match s.splitOn ":" with
  | [l, id, f, la, sts, bts, es] =>
    if l.startsWith "L" then
      match (l.drop 1).toString.toNat?, parseHex f, parseHex la, sts.toNat?, bts.toNat?, parseEnts es with
      | some lv, some fb, some lb, some s1, some b1, some e => some ⟨lv, id, fb, lb, s1, b1, e⟩
      | _, _, _, _, _, _ => none
    else none
  | _ => none

def stripPrefix (p s : String) : Option String :=
  if s.startsWith p then some (s.drop p.length).toString else none

def parseState : List String → Option RawState
  | t :: m :: i :: files =>
    match (stripPrefix "ts=" t).bind String.toNat?, (stripPrefix "mem=" m).bind parseEnts, stripPrefix "imm=" i, allSome (files.map parseFile) with
    | some ts, some mem, some imms, some fs =>
      if imms = "none" then some ⟨ts, mem, none, fs⟩
      else (parseEnts imms).map fun im => ⟨ts, mem, some im, fs⟩
    | _, _, _, _ => none
  | _ => none

def bytesLt : List Nat → List Nat → Bool
  | [], [] => false
  | [], _ :: _ => true
  | _ :: _, [] => false
  | a :: as, b :: bs => a < b || (a == b && bytesLt as bs)

def insertKey (k : List Nat) : List (List Nat) → List (List Nat)
  | [] => [k]
  | x :: t => if k == x then x :: t else if bytesLt k x then k :: x :: t else x :: insertKey k t

def rank (keys : List (List Nat)) (k : List Nat) : Nat := (keys.takeWhile (fun x => bytesLt x k)).length

def allKeys (s : RawState) (extra : List (List Nat)) : List (List Nat) :=
  let ks := s.mem.map (·.key) ++ (s.imm.getD []).map (·.key)
    ++ s.files.flatMap (fun f => f.first :: f.last :: f.ents.map (·.key)) ++ extra
  ks.foldl (fun acc k => insertKey k acc) []

def vers (keys : List (List Nat)) (es : List RawEnt) : List (Ver Nat) := es.map fun e => (rank keys e.key, e.ts)

def maxLevel (s : RawState) : Nat := s.files.foldl (fun m f => max m f.level) 0

def toK (keys : List (List Nat)) (f : RawFile) : KFile := ⟨rank keys f.first, rank keys f.last, f.bts, vers keys f.ents⟩

def toKState (keys : List (List Nat)) (s : RawState) : KState :=
  { mem := vers keys s.mem
    imm := s.imm.map (vers keys)
    l0 := (s.files.filter (·.level == 0)).map (toK keys)
    levels := (List.range (maxLevel s)).map fun i => (s.files.filter (·.level == i + 1)).map (toK keys) }

def allEnts (s : RawState) : List RawEnt := s.mem ++ (s.imm.getD []) ++ s.files.flatMap (·.ents)

def renderHit (s : RawState) (keys : List (List Nat)) (v : Option (Ver Nat)) : String :=
  match v with
  | none => "?"
  | some (r, t) =>
    match (allEnts s).find? (fun e => rank keys e.key == r && e.ts == t) with
    | none => "model-error"
    | some e => match e.val with
      | none => "!"
      | some b => "=" ++ hexOfBytes b

def splitAtSep (toks : List String) : List String × List String :=
  (toks.takeWhile (· ≠ "::"), (toks.dropWhile (· ≠ "::")).drop 1)

/-- tagging for `closed`: every component down to level `upper` in search order -/
def tagged (keys : List (List Nat)) (s : RawState) (upper : Nat) (inputs : List String) : Tagged Nat :=
  let ks := toKState keys s
  let memT : Tagged Nat := (memComps ks).map fun c => (false, c)
  let l0raw := s.files.filter (·.level == 0)
  -- level 0 in search order, carrying ids: sort (bts, id, file) the same way as `l0Order`
  let l0sorted := (l0raw.mergeSort (fun a b => decide (a.bts ≤ b.bts))).reverse
  let l0T : Tagged Nat := l0sorted.map fun f => (inputs.contains f.id, vers keys f.ents)
  let deeper : Tagged Nat := (List.range upper).flatMap fun i =>
    (s.files.filter (·.level == i + 1)).map fun f => (inputs.contains f.id, vers keys f.ents)
  memT ++ l0T ++ deeper

/-- the versions of a state, each once, sorted by key ascending then timestamp descending -/
def insertVer (v : Ver Nat) : List (Ver Nat) → List (Ver Nat)
  | [] => [v]
  | x :: t => if v == x then x :: t else if vlt Nat.blt v x then v :: x :: t else x :: insertVer v t

def sortedVers (vs : List (Ver Nat)) : List (Ver Nat) := vs.foldl (fun acc v => insertVer v acc) []

def parseBound (keys : List (List Nat)) (s : String) : Option (Bound Nat) :=
  if s = "u" then some .unbounded
  else match s.toList with
    | 'i' :: h => (parseHex (String.ofList h)).map fun k => .included (rank keys k)
    | 'e' :: h => (parseHex (String.ofList h)).map fun k => .excluded (rank keys k)
    | _ => none

def boundKeys (s : String) : List (List Nat) :=
  match s.toList with
  | 'i' :: h => (parseHex (String.ofList h)).toList
  | 'e' :: h => (parseHex (String.ofList h)).toList
  | _ => []

def parseOp (keys : List (List Nat)) (s : String) : Option (Blue.Cursor.Op (Ver Nat)) :=
  match s.toList with
  | ['F'] => some .first
  | ['L'] => some .last
  | ['N'] => some .next
  | ['P'] => some .prev
  | 'S' :: h => (parseHex (String.ofList h)).map fun k => .seek (fun e => !Nat.blt e.1 (rank keys k))
  | _ => none

def opKeys (s : String) : List (List Nat) :=
  match s.toList with
  | 'S' :: h => (parseHex (String.ofList h)).toList
  | _ => []

def renderEntry (s : RawState) (keys : List (List Nat)) (v : Option (Ver Nat)) : String :=
  match v with
  | none => "none"
  | some (r, t) =>
    match (allEnts s).find? (fun e => rank keys e.key == r && e.ts == t) with
    | none => "model-error"
    | some e => hexOfBytes e.key ++ "@" ++ toString t ++ (match e.val with | none => "!" | some b => "=" ++ hexOfBytes b)

def isTomb (s : RawState) (keys : List (List Nat)) (v : Ver Nat) : Bool :=
  match (allEnts s).find? (fun e => rank keys e.key == v.1 && e.ts == v.2) with
  | some e => e.val.isNone
  | none => false


/-! ### the selector as a function -/

structure SelFile where
  level : Nat
  id : String
  first : List Nat
  last : List Nat
  size : Nat
  bts : Nat

structure SelCore where
  lower : Nat
  upper : Nat
  first : List Nat
  last : List Nat
  size : Nat
  inputs : List String

def parseSelFile (s : String) : Option SelFile :=
  match s.splitOn ":" with
  | [l, id, f, la, sz, bts] =>
    if l.startsWith "L" then
      match (l.drop 1).toString.toNat?, parseHex f, parseHex la, sz.toNat?, bts.toNat? with
      | some lv, some fb, some lb, some s1, some b1 => some ⟨lv, id, fb, lb, s1, b1⟩
      | _, _, _, _, _ => none
    else none
  | _ => none

def parseSelCore (s : String) : Option SelCore :=
  match s.splitOn ":" with
  | [l, u, f, la, sz, ins] =>
    if l.startsWith "G" then
      match (l.drop 1).toString.toNat?, u.toNat?, parseHex f, parseHex la, sz.toNat? with
      | some lo, some up, some fb, some lb, some s1 =>
        some ⟨lo, up, fb, lb, s1, if ins = "-" then [] else ins.splitOn ","⟩
      | _, _, _, _, _ => none
    else none
  | _ => none

def idIndex (ids : List String) (id : String) : Nat := (ids.takeWhile (· ≠ id)).length

def selectAnswer (full : Bool) (nlev : Nat) (o : Blue.NextCompaction.Opts) (files : List SelFile) (og : List SelCore) : String :=
  let keys := (files.flatMap (fun f => [f.first, f.last]) ++ og.flatMap (fun g => [g.first, g.last])).foldl
    (fun acc k => insertKey k acc) []
  let ids := files.map (·.id)
  let tree : Blue.NextCompaction.Tree := (List.range nlev).map fun i =>
    (files.filter (·.level == i)).map fun f => ⟨idIndex ids f.id, rank keys f.first, rank keys f.last, f.size, f.bts, []⟩
  let ogm : List Blue.NextCompaction.Core := og.map fun g =>
    ⟨g.lower, g.upper, rank keys g.first, rank keys g.last, g.inputs.map (idIndex ids), g.size⟩
  -- the hypothesis of `nextCompaction_closed`, evaluated on the tree of the request
  let inv := if Blue.NextCompaction.invB tree then " inv=ok" else " inv=violated"
  match Blue.NextCompaction.nextCompaction Blue.NextCompaction.ieee o tree ogm with
  | none => if full then "none" ++ inv else "none"
  | some c =>
    if full then
      " ".intercalate ([toString c.lower, toString c.upper, hexOfBytes (keys.getD c.first []), hexOfBytes (keys.getD c.last [])]
        ++ c.inputs.map (fun i => ids.getD i "?")) ++ inv
    else "some"

def parseInt (s : String) : Option Int :=
  if s.startsWith "-" then (s.drop 1).toString.toNat?.map (fun n => -(n : Int)) else s.toNat?.map (fun n => (n : Int))

def hex16 (n : Nat) : String := String.ofList ((List.range 16).map fun i => hexDigitC (n / 16 ^ (15 - i) % 16))

def handleSelect (toks : List String) : String :=
  match toks with
  | "f64tab" :: [] =>
    "curve " ++ " ".intercalate ((List.range 16).map fun l => toString (Blue.NextCompaction.ieee.curve l))
      ++ " factor " ++ " ".intercalate (Blue.NextCompaction.factorBits.map hex16)
  | ["scale", l, s] =>
    match l.toNat?, parseInt s with
    | some lv, some sc => toString (Blue.NextCompaction.ieee.scale lv sc)
    | _, _ => "bad-op"
  | "select" :: mode :: nlev :: mof :: mcb :: mcf :: mf :: mb :: "::" :: rest =>
    let (fs, gs) := splitAtSep rest
    match nlev.toNat?, mof.toNat?, mcb.toNat?, mcf.toNat?, mf.toNat?, mb.toNat?, allSome (fs.map parseSelFile), allSome (gs.map parseSelCore) with
    | some nl, some a, some b, some c, some d, some e, some files, some og =>
      if mode = "full" then selectAnswer true nl ⟨a, b, c, d, e⟩ files og
      else if mode = "some" then selectAnswer false nl ⟨a, b, c, d, e⟩ files og
      else "bad-op"
    | _, _, _, _, _, _, _, _ => "bad-op"
  | _ => "bad-op"

/-! ### the tree steps as functions -/

def renderTree (ids : List String) (t : Blue.NextCompaction.Tree) : String :=
  " ".intercalate ((List.range t.length).map fun i =>
    let l := t.getD i []
    "L" ++ toString i ++ "=" ++ (if l.isEmpty then "-" else ",".intercalate (l.map fun f => ids.getD f.id "?")))

def renderFlags (name : String) (fl : List (String × Bool)) : String :=
  if fl.all (·.2) then name ++ "=1"
  else name ++ "=0:" ++ ",".intercalate ((fl.filter (fun x => !x.2)).map (·.1))

def stepKeys (files outs : List RawFile) (extra : List (List Nat)) : List (List Nat) :=
  ((files ++ outs).flatMap (fun f => f.first :: f.last :: f.ents.map (·.key)) ++ extra).foldl (fun acc k => insertKey k acc) []

def toNF (keys : List (List Nat)) (ids : List String) (f : RawFile) : Blue.NextCompaction.File :=
  ⟨idIndex ids f.id, rank keys f.first, rank keys f.last, 0, f.bts, vers keys f.ents⟩

def toTree (keys : List (List Nat)) (ids : List String) (nlev : Nat) (files : List RawFile) : Blue.NextCompaction.Tree :=
  (List.range nlev).map fun i => (files.filter (·.level == i)).map (toNF keys ids)

def handleApply (move : Bool) (toks : List String) : String :=
  match toks with
  | nlev :: lower :: upper :: first :: last :: ins :: "::" :: rest =>
    let (fs, os0) := splitAtSep rest
    let (os, gcT) := splitAtSep os0
    -- `gc <tombstones of the inputs>`: only on a compaction into the last level
    let gcTombs : Option (Option (List RawEnt)) :=
      match gcT with
      | [] => some none
      | ["gc", ts] => (parseEnts ts).map some
      | _ => none
    match gcTombs with
    | none => "bad-op"
    | some gcTombs =>
    match nlev.toNat?, lower.toNat?, upper.toNat?, parseHex first, parseHex last, allSome (fs.map parseFile), allSome (os.map parseFile) with
    | some nl, some lo, some up, some fk, some lk, some files, some outs =>
      if files.any (fun f => f.level ≥ nl) || outs.any (fun f => f.level ≠ up) then "bad-op" else
      if gcTombs.isSome && (move || up + 1 ≠ nl) then "bad-op" else
      let keys := stepKeys files outs [fk, lk]
      let inputs := if ins = "-" then [] else ins.splitOn ","
      let ids := files.map (·.id) ++ outs.map (·.id) ++ inputs
      let t := toTree keys ids nl files
      let c : Blue.NextCompaction.Core := ⟨lo, up, rank keys fk, rank keys lk, inputs.map (idIndex ids), 0⟩
      let mouts := outs.map (toNF keys ids)
      let gcFlags :=
        match gcTombs with
        | none => ""
        | some tombs =>
          let tv := vers keys tombs
          let insV := (files.filter fun f => inputs.contains f.id).flatMap fun f => vers keys f.ents
          let outV := outs.flatMap fun f => vers keys f.ents
          let pay : Nat → Nat → Option Blue.StoreHist.Payload := fun k t =>
            if tv.contains (k, t) then some none
            else if insV.contains (k, t) || outV.contains (k, t) then some (some 0) else none
          " newest=" ++ (if Blue.StoreHistGcB.newestKeptB pay insV outV then "1" else "0")
            ++ " sub=" ++ (if Blue.StoreHistGcB.subB insV outV then "1" else "0")
      let flags := " " ++ renderFlags "chosen" (Blue.NextCompaction.chosenFlags t c)
        ++ " " ++ renderFlags "outsok" (Blue.NextCompaction.outsOkFlags t c mouts) ++ gcFlags
      if move then
        match mouts with
        | [f] => renderTree ids (Blue.NextCompaction.applyTrivialMove t c f) ++ flags
        | _ => "bad-op"
      else renderTree ids (Blue.NextCompaction.applyCompaction t c mouts) ++ flags
    | _, _, _, _, _, _, _ => "bad-op"
  | _ => "bad-op"

def handleIngest (toks : List String) : String :=
  match toks with
  | nlev :: "::" :: rest =>
    let (fs, os) := splitAtSep rest
    match nlev.toNat?, allSome (fs.map parseFile), allSome (os.map parseFile) with
    | some nl, some files, some [f] =>
      if files.any (fun f => f.level ≥ nl) || f.level ≠ 0 then "bad-op" else
      let keys := stepKeys files [f] []
      let ids := files.map (·.id) ++ [f.id]
      renderTree ids (Blue.NextCompaction.ingest (toTree keys ids nl files) (toNF keys ids f)) ++ " chosen=1 outsok=1"
    | _, _, _ => "bad-op"
  | _ => "bad-op"

/-! ### the history model's steps as functions -/

def parseHEnt (s : String) : Option RawEnt :=
  match s.splitOn "@" with
  | [k, rest] =>
    let tomb := rest.endsWith "!"
    let t := if tomb then (rest.dropEnd 1).toString else rest
    match parseHex k, t.toNat? with
    | some kb, some tn => some ⟨kb, tn, if tomb then none else some []⟩
    | _, _ => none
  | _ => none

def parseHEnts (s : String) : Option (List RawEnt) :=
  if s = "-" then some [] else allSome ((s.splitOn ",").map parseHEnt)

def parseHFile (s : String) : Option RawFile :=
  match s.splitOn ":" with
  | ["L0", id, f, la, sts, bts, es] =>
    match parseHex f, parseHex la, sts.toNat?, bts.toNat?, parseHEnts es with
    | some fb, some lb, some s1, some b1, some e => some ⟨0, id, fb, lb, s1, b1, e⟩
    | _, _, _, _, _ => none
  | _ => none

structure RawHist where
  seq : Nat
  vis : Nat
  mem : List RawEnt
  imm : Option (List RawEnt)
  files : List RawFile

def parseHState : List String → Option RawHist
  | sq :: vi :: m :: i :: files =>
    match (stripPrefix "seq=" sq).bind String.toNat?, (stripPrefix "vis=" vi).bind String.toNat?,
        (stripPrefix "mem=" m).bind parseHEnts, stripPrefix "imm=" i, allSome (files.map parseHFile) with
    | some seq, some vis, some mem, some imms, some fs =>
      if imms = "none" then some ⟨seq, vis, mem, none, fs⟩
      else (parseHEnts imms).map fun im => ⟨seq, vis, mem, some im, fs⟩
    | _, _, _, _, _ => none
  | _ => none

def histEnts (s : RawHist) : List RawEnt := s.mem ++ (s.imm.getD []) ++ s.files.flatMap (·.ents)

/-- `k[!],…`: the keys of a batch in batch order with their tombstone marks -/
def parseBatch (s : String) : Option (List (List Nat × Bool)) :=
  allSome ((s.splitOn ",").map fun k =>
    let tomb := k.endsWith "!"
    (parseHex (if tomb then (k.dropEnd 1).toString else k)).map fun kb => (kb, tomb))

/-- versions in cursor order: key ascending, timestamp descending (nothing is merged) -/
def insertVerAll (v : Ver Nat) : List (Ver Nat) → List (Ver Nat)
  | [] => [v]
  | x :: t => if vlt Nat.blt x v then x :: insertVerAll v t else v :: x :: t

def cursorOrder (vs : List (Ver Nat)) : List (Ver Nat) := vs.foldr insertVerAll []

def renderHVers (keys : List (List Nat)) (pay : Nat → Nat → Option Blue.StoreHist.Payload) (vs : List (Ver Nat)) : String :=
  if vs.isEmpty then "-" else
  ",".intercalate (vs.map fun v => hexOfBytes (keys.getD v.1 []) ++ "@" ++ toString v.2 ++
    (match pay v.1 v.2 with
     | some none => "!"
     | some (some _) => ""
     | none => "?"))

def kfileEq (a b : KFile) : Bool := a.first == b.first && a.last == b.last && a.bts == b.bts && a.vers == b.vers

def handleHist (toks : List String) : String :=
  let (opT, r1) := splitAtSep toks
  let (bT, aT) := splitAtSep r1
  match parseHState bT, parseHState aT with
  | some b, some a =>
    let batch : Option (List (List Nat × Bool)) :=
      match opT with
      | [_, ks] => parseBatch ks
      | _ => some []
    match batch with
    | none => "bad-op"
    | some bt =>
    let keys := (((histEnts b ++ histEnts a).map (·.key)) ++ (b.files ++ a.files).flatMap (fun f => [f.first, f.last])
      ++ bt.map (·.1)).foldl (fun acc k => insertKey k acc) []
    let ents := histEnts b
    let pay : Nat → Nat → Option Blue.StoreHist.Payload := fun k t =>
      match ents.find? (fun e => rank keys e.key == k && e.ts == t) with
      | some e => some (if e.val.isNone then none else some 0)
      | none => none
    let h : Blue.StoreHist.HState :=
      { st := { mem := vers keys b.mem, imm := b.imm.map (vers keys), l0 := b.files.map (toK keys), levels := [] }
        seq := b.seq, vis := b.vis, pay := pay }
    let op : Option Blue.StoreHist.Op :=
      match opT with
      | ["write", _] | ["reject", _] => some (.write (bt.map fun e => (rank keys e.1, if e.2 then none else some 0)))
      | ["rollover"] => some .rollover
      | ["flush"] => some .flush
      | _ => none
    match op with
    | none => "bad-op"
    | some op =>
      let h' := Blue.StoreHist.apply h op
      -- ids: the files of the state before, and the file of the state after that is new
      let newIds := (a.files.filter fun f => !(b.files.any fun g => g.id == f.id))
      let named : List (KFile × String) := (b.files ++ newIds).map fun f => (toK keys f, f.id)
      let idOf (f : KFile) : String := match named.find? (fun x => kfileEq x.1 f) with
        | some x => x.2
        | none => "?"
      let order := (l0Order h'.st.l0).map idOf
      let file :=
        if h'.st.l0.length > h.st.l0.length then
          match h'.st.l0 with
          | f :: _ => " file=" ++ hexOfBytes (keys.getD f.first []) ++ ":" ++ hexOfBytes (keys.getD f.last []) ++ ":"
              ++ toString f.bts ++ ":" ++ renderHVers keys h'.pay f.vers
          | [] => ""
        else ""
      "seq=" ++ toString h'.seq ++ " vis=" ++ toString h'.vis
        ++ " mem=" ++ renderHVers keys h'.pay (cursorOrder h'.st.mem)
        ++ " imm=" ++ (match h'.st.imm with
            | none => "none"
            | some i => renderHVers keys h'.pay (cursorOrder i))
        ++ " l0=" ++ (if order.isEmpty then "-" else ",".intercalate order) ++ file
  | _, _ => "bad-op"

def handle (toks : List String) : String :=
  match toks with
  | "hist" :: rest => handleHist rest
  | "apply" :: rest => handleApply false rest
  | "move" :: rest => handleApply true rest
  | "ingest" :: rest => handleIngest rest
  | "select" :: _ | "f64tab" :: _ | "scale" :: _ => handleSelect toks
  | "load" :: rest =>
    let (st, qs) := splitAtSep rest
    match parseState st, allSome (qs.map parseHex) with
    | some s, some qkeys =>
      let keys := allKeys s qkeys
      let ks := toKState keys s
      " ".intercalate (qkeys.map fun q => renderHit s keys (kvsLoad ks (rank keys q) s.ts))
    | _, _ => "bad-op"
  | "scan" :: rest =>
    -- kvs scan <state> :: <lo> <hi> :: <ops>
    let (st, r1) := splitAtSep rest
    let (bs, ops) := splitAtSep r1
    match parseState st, bs with
    | some s, [lo, hi] =>
      let keys := allKeys s (boundKeys lo ++ boundKeys hi ++ ops.flatMap opKeys)
      match parseBound keys lo, parseBound keys hi, allSome (ops.map (parseOp keys)) with
      | some sb, some eb, some prog =>
        let M := sortedVers (vers keys (allEnts s))
        let shown := (M.filter (isLive M s.ts (isTomb s keys))).filter (inRange Nat.blt sb eb)
        " ".intercalate ((Blue.Cursor.Ref.run ⟨shown, 0⟩ prog).map (renderEntry s keys))
      | _, _, _ => "bad-op"
    | _, _ => "bad-op"
  | "inv" :: rest =>
    match parseState rest with
    | some s =>
      let keys := allKeys s []
      let ks := toKState keys s
      if invB ks then "ok"
      else if !(newerAboveB (allComps ks)) then "I2-newer-above-violated"
      else "I1-level-order-violated"
    | none => "bad-op"
  | "closed" :: upper :: rest =>
    let (st, ins) := splitAtSep rest
    match parseState st, upper.toNat? with
    | some s, some u =>
      let keys := allKeys s []
      if closedB (tagged keys s u ins) then "closed" else "open"
    | _, _ => "bad-op"
  | _ => "bad-op"

end Blue.Driver.C01
