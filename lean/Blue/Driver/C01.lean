import Blue.Model.Kvs
import Blue.Proofs.SpecBounds
import Blue.Driver.Util
/-! Driver verbs for the store model (instance `kvs`): point reads, invariants I1 ∧ I2 and
    closedness of a chosen compaction, all evaluated on a dumped store state.

    state tokens:  `ts=<n> mem=<ents> imm=<ents|none> L<i>:<id>:<first>:<last>:<sts>:<bts>:<ents> …`
    ents: `-` or comma-separated `khex@ts=vhex` | `khex@ts!`;  keys are ranked in byte order. -/
namespace Blue.Driver.C01
open Blue.Driver Blue.Kvs Blue.Spec

structure RawEnt where
  key : List Nat
  ts : Nat
  val : Option (List Nat)

structure RawFile where
  level : Nat
  id : String
  first : List Nat
  last : List Nat
  sts : Nat
  bts : Nat
  ents : List RawEnt

structure RawState where
  ts : Nat
  mem : List RawEnt
  imm : Option (List RawEnt)
  files : List RawFile

def parseEnt (s : String) : Option RawEnt :=
  match s.splitOn "@" with
  | [k, rest] =>
    if rest.endsWith "!" then
      match parseHex k, (rest.dropEnd 1).toString.toNat? with
      | some kb, some t => some ⟨kb, t, none⟩
      | _, _ => none
    else
      match rest.splitOn "=" with
      | [t, v] =>
        match parseHex k, t.toNat?, parseHex v with
        | some kb, some tn, some vb => some ⟨kb, tn, some vb⟩
        | _, _, _ => none
      | _ => none
  | _ => none

def parseEnts (s : String) : Option (List RawEnt) :=
  if s = "-" then some [] else allSome ((s.splitOn ",").map parseEnt)

def parseFile (s : String) : Option RawFile :=
  match s.splitOn ":" with
  | [l, id, f, la, sts, bts, es] =>
    if l.startsWith "L" then
      match (l.drop 1).toString.toNat?, parseHex f, parseHex la, sts.toNat?, bts.toNat?, parseEnts es with
      | some lv, some fb, some lb, some s1, some b1, some e => some ⟨lv, id, fb, lb, s1, b1, e⟩
      | _, _, _, _, _, _ => none
    else none
  | _ => none

def stripPrefix (p s : String) : Option String :=
  if s.startsWith p then some (s.drop p.length).toString else none

def parseState : List String → Option RawState
  | t :: m :: i :: files =>
    match (stripPrefix "ts=" t).bind String.toNat?, (stripPrefix "mem=" m).bind parseEnts, stripPrefix "imm=" i, allSome (files.map parseFile) with
    | some ts, some mem, some imms, some fs =>
      if imms = "none" then some ⟨ts, mem, none, fs⟩
      else (parseEnts imms).map fun im => ⟨ts, mem, some im, fs⟩
    | _, _, _, _ => none
  | _ => none

def bytesLt : List Nat → List Nat → Bool
  | [], [] => false
  | [], _ :: _ => true
  | _ :: _, [] => false
  | a :: as, b :: bs => a < b || (a == b && bytesLt as bs)

def insertKey (k : List Nat) : List (List Nat) → List (List Nat)
  | [] => [k]
  | x :: t => if k == x then x :: t else if bytesLt k x then k :: x :: t else x :: insertKey k t

def rank (keys : List (List Nat)) (k : List Nat) : Nat := (keys.takeWhile (fun x => bytesLt x k)).length

def allKeys (s : RawState) (extra : List (List Nat)) : List (List Nat) :=
  let ks := s.mem.map (·.key) ++ (s.imm.getD []).map (·.key)
    ++ s.files.flatMap (fun f => f.first :: f.last :: f.ents.map (·.key)) ++ extra
  ks.foldl (fun acc k => insertKey k acc) []

def vers (keys : List (List Nat)) (es : List RawEnt) : List (Ver Nat) := es.map fun e => (rank keys e.key, e.ts)

def maxLevel (s : RawState) : Nat := s.files.foldl (fun m f => max m f.level) 0

def toK (keys : List (List Nat)) (f : RawFile) : KFile := ⟨rank keys f.first, rank keys f.last, f.bts, vers keys f.ents⟩

def toKState (keys : List (List Nat)) (s : RawState) : KState :=
  { mem := vers keys s.mem
    imm := s.imm.map (vers keys)
    l0 := (s.files.filter (·.level == 0)).map (toK keys)
    levels := (List.range (maxLevel s)).map fun i => (s.files.filter (·.level == i + 1)).map (toK keys) }

def allEnts (s : RawState) : List RawEnt := s.mem ++ (s.imm.getD []) ++ s.files.flatMap (·.ents)

def renderHit (s : RawState) (keys : List (List Nat)) (v : Option (Ver Nat)) : String :=
  match v with
  | none => "?"
  | some (r, t) =>
    match (allEnts s).find? (fun e => rank keys e.key == r && e.ts == t) with
    | none => "model-error"
    | some e => match e.val with
      | none => "!"
      | some b => "=" ++ hexOfBytes b

def splitAtSep (toks : List String) : List String × List String :=
  (toks.takeWhile (· ≠ "::"), (toks.dropWhile (· ≠ "::")).drop 1)

/-- tagging for `closed`: every component down to level `upper` in search order -/
def tagged (keys : List (List Nat)) (s : RawState) (upper : Nat) (inputs : List String) : Tagged Nat :=
  let ks := toKState keys s
  let memT : Tagged Nat := (memComps ks).map fun c => (false, c)
  let l0raw := s.files.filter (·.level == 0)
  -- level 0 in search order, carrying ids: sort (bts, id, file) the same way as `l0Order`
  let l0sorted := (l0raw.mergeSort (fun a b => decide (a.bts ≤ b.bts))).reverse
  let l0T : Tagged Nat := l0sorted.map fun f => (inputs.contains f.id, vers keys f.ents)
  let deeper : Tagged Nat := (List.range upper).flatMap fun i =>
    (s.files.filter (·.level == i + 1)).map fun f => (inputs.contains f.id, vers keys f.ents)
  memT ++ l0T ++ deeper

/-- the versions of a state, each once, sorted by key ascending then timestamp descending -/
def insertVer (v : Ver Nat) : List (Ver Nat) → List (Ver Nat)
  | [] => [v]
  | x :: t => if v == x then x :: t else if vlt Nat.blt v x then v :: x :: t else x :: insertVer v t

def sortedVers (vs : List (Ver Nat)) : List (Ver Nat) := vs.foldl (fun acc v => insertVer v acc) []

def parseBound (keys : List (List Nat)) (s : String) : Option (Bound Nat) :=
  if s = "u" then some .unbounded
  else match s.toList with
    | 'i' :: h => (parseHex (String.ofList h)).map fun k => .included (rank keys k)
    | 'e' :: h => (parseHex (String.ofList h)).map fun k => .excluded (rank keys k)
    | _ => none

def boundKeys (s : String) : List (List Nat) :=
  match s.toList with
  | 'i' :: h => (parseHex (String.ofList h)).toList
  | 'e' :: h => (parseHex (String.ofList h)).toList
  | _ => []

def parseOp (keys : List (List Nat)) (s : String) : Option (Blue.Cursor.Op (Ver Nat)) :=
  match s.toList with
  | ['F'] => some .first
  | ['L'] => some .last
  | ['N'] => some .next
  | ['P'] => some .prev
  | 'S' :: h => (parseHex (String.ofList h)).map fun k => .seek (fun e => !Nat.blt e.1 (rank keys k))
  | _ => none

def opKeys (s : String) : List (List Nat) :=
  match s.toList with
  | 'S' :: h => (parseHex (String.ofList h)).toList
  | _ => []

def renderEntry (s : RawState) (keys : List (List Nat)) (v : Option (Ver Nat)) : String :=
  match v with
  | none => "none"
  | some (r, t) =>
    match (allEnts s).find? (fun e => rank keys e.key == r && e.ts == t) with
    | none => "model-error"
    | some e => hexOfBytes e.key ++ "@" ++ toString t ++ (match e.val with | none => "!" | some b => "=" ++ hexOfBytes b)

def isTomb (s : RawState) (keys : List (List Nat)) (v : Ver Nat) : Bool :=
  match (allEnts s).find? (fun e => rank keys e.key == v.1 && e.ts == v.2) with
  | some e => e.val.isNone
  | none => false

def handle (toks : List String) : String :=
  match toks with
  | "load" :: rest =>
    let (st, qs) := splitAtSep rest
    match parseState st, allSome (qs.map parseHex) with
    | some s, some qkeys =>
      let keys := allKeys s qkeys
      let ks := toKState keys s
      " ".intercalate (qkeys.map fun q => renderHit s keys (kvsLoad ks (rank keys q) s.ts))
    | _, _ => "bad-op"
  | "scan" :: rest =>
    -- kvs scan <state> :: <lo> <hi> :: <ops>
    let (st, r1) := splitAtSep rest
    let (bs, ops) := splitAtSep r1
    match parseState st, bs with
    | some s, [lo, hi] =>
      let keys := allKeys s (boundKeys lo ++ boundKeys hi ++ ops.flatMap opKeys)
      match parseBound keys lo, parseBound keys hi, allSome (ops.map (parseOp keys)) with
      | some sb, some eb, some prog =>
        let M := sortedVers (vers keys (allEnts s))
        let shown := (M.filter (isLive M s.ts (isTomb s keys))).filter (inRange Nat.blt sb eb)
        " ".intercalate ((Blue.Cursor.Ref.run ⟨shown, 0⟩ prog).map (renderEntry s keys))
      | _, _, _ => "bad-op"
    | _, _ => "bad-op"
  | "inv" :: rest =>
    match parseState rest with
    | some s =>
      let keys := allKeys s []
      let ks := toKState keys s
      if invB ks then "ok"
      else if !(newerAboveB (allComps ks)) then "I2-newer-above-violated"
      else "I1-level-order-violated"
    | none => "bad-op"
  | "closed" :: upper :: rest =>
    let (st, ins) := splitAtSep rest
    match parseState st, upper.toNat? with
    | some s, some u =>
      let keys := allKeys s []
      if closedB (tagged keys s u ins) then "closed" else "open"
    | _, _ => "bad-op"
  | _ => "bad-op"

end Blue.Driver.C01
