import Blue.Model.ManiDir
import Blue.Model.ManiLock
import Blue.Driver.Util
/-! Driver verbs for the manifest model (property C13), instance token `mani`.

    history  ::= <ratio> <event>*            (always starts with `Manifest::open` of an empty directory)
    event    ::= `e:`<call>{`,`<call>}  |  `o` (drop + open)  |  `R` (`rollover()`)  |  `t` (first only:
                 a stale MANIFEST.tmp holding the edit `+stale`)
    call     ::= `a`<hex> | `r`<hex> | `i`<hex of the key's UTF-8>`:`<hex>

    * `step <history>`            what is observable after the last event
    * `cuts <ranges> <hex>`       `Manifest::open` on every listed prefix of a MANIFEST
    * `crash <n> <w|c> <history>` reopen after the first `n` system calls, persistence models a and b
    * `ops <history>`             the mutating system calls, in order
    * `lock <ratio> <event>* / <event>* / <event>*`   two processes: the first runs the first list
      of events, a second process calls `Manifest::open` and waits for the lock, the first runs the
      second list and drops its handle, the second gets the lock (`Blue.ManiLock.waiterOpen`, read
      under the lock), runs the third list and exits: what a reopen then shows, `Manifest::verify` -/
namespace Blue.Driver.C13
open Blue.Mani Blue.ManiCrash Blue.Driver

def crc : List Nat → Nat := Blue.Crc32c.crc32c

def fnv (bs : List Nat) : UInt64 :=
  bs.foldl (fun h b => (h ^^^ b.toUInt64) * 0x100000001b3) 0xcbf29ce484222325

def hex16 (h : UInt64) : String :=
  String.ofList ((List.range 16).map fun i => hexDigitC ((h.toNat / 16 ^ (15 - i)) % 16))

def hexB (bs : List Nat) : String := hexOfBytes bs

def renderState (s : State) : String :=
  "s[" ++ ",".intercalate (s.strs.map hexB) ++ "]i[" ++
    ",".intercalate (s.info.map fun kv => hexB [kv.1] ++ "=" ++ hexB kv.2) ++ "]"

/-- one API call on the edit being built: the edit afterwards and `ok`/`err` -/
def applyCall (e : Edit) (tok : String) : Option (Edit × String) :=
  match tok.toList with
  | 'a' :: h => (parseHex (String.ofList h)).map fun s =>
      match e.addStr s with | some e' => (e', "ok") | none => (e, "err")
  | 'r' :: h => (parseHex (String.ofList h)).map fun s =>
      match e.rmStr s with | some e' => (e', "ok") | none => (e, "err")
  | 'i' :: rest =>
    match (String.ofList rest).splitOn ":" with
    | [k, v] =>
      match parseHex k, parseHex v with
      | some kb, some vb =>
        match kb with
        | [k1] => some (match e.setInfo k1 vb with | some e' => (e', "ok") | none => (e, "err"))
        | _ => some (e, "err")        -- a key of several UTF-8 bytes is not ASCII
      | _, _ => none
    | _ => none
  | _ => none

def buildEdit : List String → Edit → List String → Option (Edit × List String)
  | [], e, acc => some (e, acc.reverse)
  | c :: cs, e, acc =>
    match applyCall e c with
    | none => none
    | some (e', r) => buildEdit cs e' (r :: acc)

/-- an event token; for an edit also the API results -/
def parseEvent (tok : String) : Option (Event × List String) :=
  if tok = "o" then some (.reopen, [])
  else if tok = "R" then some (.rollover, [])
  else match tok.toList with
    | 'e' :: ':' :: rest =>
      let calls := ((String.ofList rest).splitOn ",").filter (· ≠ "")
      (buildEdit calls Edit.empty []).map fun (e, rs) => (.edit e, rs)
    | _ => none

structure Hist where
  ratio : Nat
  stale : Bool
  events : List Event
  lastApi : List String

def staleEdit : Edit := ⟨[], [[115, 116, 97, 108, 101]], []⟩

def parseHist : List String → Option Hist
  | r :: toks =>
    match r.toNat? with
    | none => none
    | some ratio =>
      let (stale, toks) := match toks with
        | "t" :: rest => (true, rest)
        | _ => (false, toks)
      match allSome (toks.map parseEvent) with
      | none => none
      | some evs => some ⟨ratio, stale, evs.map (·.1), (evs.getLast?.map (·.2)).getD []⟩
  | [] => none

def fs0 (h : Hist) : Fs Edit :=
  if h.stale then { emptyFs with tmp := some ⟨[staleEdit], []⟩ } else emptyFs

def editsOfEvents : List Event → List Edit
  | [] => []
  | .edit e :: t => e :: editsOfEvents t
  | _ :: t => editsOfEvents t

def fileTag (bs : List Nat) : String := toString bs.length ++ ":" ++ hex16 (fnv bs)

def renderBackups : List (List Edit) → Nat → List String
  | [], _ => []
  | b :: t, i => (toString i ++ ":" ++ fileTag (fileBytes crc b)) :: renderBackups t (i + 1)

def renderOpen (bytes : Option (List Nat)) : String :=
  match bytes with
  | none => renderState ⟨[], []⟩
  | some bs => match openBytes crc bs with
    | none => "err:corruption"
    | some st => renderState st

def stepVerb (h : Hist) : String :=
  match schedule crc h.ratio h.events [] [] with
  | none => "bad-op"
  | some clients =>
    let ops := opsOf maniAlgebra clients []
    let fs := run (fs0 h) ops
    let sofar := editsOfEvents h.events
    let mani := fs.mani.durable ++ fs.mani.pending
    let exists_ := !sofar.isEmpty
    let bytes := fileBytes crc mani
    let api := if h.lastApi.isEmpty then "-" else ",".intercalate h.lastApi
    let tmp := match fs.tmp with
      | none => "absent"
      | some f => fileTag (fileBytes crc (f.durable ++ f.pending))
    "api=" ++ api ++ " mem=" ++ renderState (replay maniAlgebra sofar) ++
    " M=" ++ (if exists_ then hexB bytes else "absent") ++
    " B[" ++ ",".intercalate (renderBackups fs.backups 1) ++ "]" ++
    " L=" ++ (match fs.backups.getLast? with
      | none => "none"
      | some b => hexB (fileBytes crc b)) ++
    " tmp=" ++ tmp ++
    " open=" ++ renderOpen (if exists_ then some bytes else none) ++
    " verify=" ++ toString (chainErrs (if exists_ then fragments fs else fs.backups))

/-! cuts -/

def parseRange (s : String) : Option (Nat × Nat) :=
  match s.splitOn "-" with
  | [a, b] => match a.toNat?, b.toNat? with
    | some x, some y => if x ≤ y then some (x, y) else none
    | _, _ => none
  | _ => none

def cutResult (bytes : List Nat) (m : Nat) : Option State := openBytes crc (bytes.take m)

/-- index of `st` in `seen`, appending it when new -/
def indexOf (st : State) : List State → Nat → Option Nat
  | [], _ => none
  | s :: t, i => if s = st then some i else indexOf st t (i + 1)

structure CutAcc where
  seen : List State := []
  segs : List (Nat × Nat × String) := []   -- newest first

def pushCut (acc : CutAcc) (m : Nat) (tok : String) : CutAcc :=
  match acc.segs with
  | (a, b, t) :: rest => if t = tok ∧ b + 1 = m then { acc with segs := (a, m, t) :: rest }
                         else { acc with segs := (m, m, tok) :: acc.segs }
  | [] => { acc with segs := [(m, m, tok)] }

def oneCut (bytes : List Nat) (acc : CutAcc) (m : Nat) : CutAcc :=
  match cutResult bytes m with
  | none => pushCut acc m "E"
  | some st =>
    match indexOf st acc.seen 0 with
    | some i => pushCut acc m ("#" ++ toString i)
    | none => pushCut { acc with seen := acc.seen ++ [st] } m ("#" ++ toString acc.seen.length)

def cutsLoop (bytes : List Nat) : Nat → Nat → CutAcc → CutAcc
  | 0, _, acc => acc
  | n + 1, m, acc => cutsLoop bytes n (m + 1) (oneCut bytes acc m)

def cuts (ranges : List (Nat × Nat)) (bytes : List Nat) : String :=
  let acc := ranges.foldl (fun acc (a, b) => cutsLoop bytes (b + 1 - a) a acc) {}
  let segs := acc.segs.reverse.map fun (a, b, t) => toString a ++ "-" ++ toString b ++ ":" ++ t
  let sts := (List.range acc.seen.length).zip acc.seen |>.map fun (i, s) => "#" ++ toString i ++ "=" ++ renderState s
  " ".intercalate segs ++ " |" ++ String.join (sts.map (" " ++ ·))

/-! crash points -/

def opName : Op Edit → String
  | .append _ => "append"
  | .sync => "sync"
  | .ack => "ack"
  | .linkBackup => "link"
  | .tmpClear => "tmpclear"
  | .tmpWrite _ => "tmpwrite"
  | .tmpSync => "tmpsync"
  | .rename => "rename"

def verifyAfterReopen (crashed : Fs Edit) (exists_ : Bool) : Nat :=
  if exists_ then chainErrs (fragments (run crashed (reopenOps maniAlgebra crashed)))
  else chainErrs crashed.backups

def crash (h : Hist) (n : Nat) (variant : String) : String :=
  match schedule crc h.ratio h.events [] [] with
  | none => "bad-op"
  | some clients =>
    let ops := opsOf maniAlgebra clients []
    if n > ops.length then "bad-op" else
    let done := ops.take n
    let fs := run (fs0 h) done
    let last := match done.getLast? with
      | none => "start"
      | some o => opName o
    let exists_ := appended done ≥ 1
    "last=" ++ last ++ (if variant = "c" then "+create" else "") ++
    " acked=" ++ toString (acked done) ++ " appended=" ++ toString (appended done) ++
    " A=" ++ renderState (recoverA maniAlgebra fs) ++ " B=" ++ renderState (recoverB maniAlgebra fs) ++
    " VA=" ++ toString (verifyAfterReopen (crashA fs) exists_) ++
    " VB=" ++ toString (verifyAfterReopen (crashB fs) exists_)

/-- the mutating system calls of a run (`ack` is the return to the caller; the temporary is only
    unlinked when it exists) -/
def traceOf : Fs Edit → List (Op Edit) → List String
  | _, [] => []
  | fs, o :: t =>
    let here := match o with
      | .ack => []
      | .tmpClear => if fs.tmp.isSome then ["unlink"] else []
      | o => [opName o]
    here ++ traceOf (Blue.ManiCrash.step fs o) t

def opsVerb (h : Hist) : String :=
  match schedule crc h.ratio h.events [] [] with
  | none => "bad-op"
  | some clients =>
    let t := traceOf (fs0 h) (opsOf maniAlgebra clients [])
    if t.isEmpty then "-" else " ".intercalate t

/-! two processes -/

def splitSlash : List String → List String → List (List String)
  | [], cur => [cur.reverse]
  | "/" :: t, cur => cur.reverse :: splitSlash t []
  | x :: t, cur => splitSlash t (x :: cur)

def lockVerb (ratio : Nat) (pre dur bev : List Event) : String :=
  match schedule crc ratio pre [] [], schedule crc ratio (pre ++ dur) [] [] with
  | some cp, some ca =>
    let opsP := opsOf maniAlgebra cp []
    let opsA := opsOf maniAlgebra ca []
    let during := opsA.drop opsP.length
    let r := Blue.ManiLock.waiterOpen maniAlgebra false (run emptyFs opsP) during
    let sofar := editsOfEvents (pre ++ dur)
    match schedule crc ratio bev (r.1.mani.durable ++ r.1.mani.pending) sofar with
    | none => "bad-op"
    | some cb =>
      let fs := run r.1 (opsOf maniAlgebra cb sofar)
      let exists_ := !(sofar ++ editsOfEvents bev).isEmpty
      "open=" ++ renderOpen (if exists_ then some (fileBytes crc (fs.mani.durable ++ fs.mani.pending)) else none) ++
      " verify=" ++ toString (chainErrs (if exists_ then fragments fs else fs.backups))
  | _, _ => "bad-op"

def handle : List String → String
  | "lock" :: r :: rest =>
    match r.toNat?, splitSlash rest [] with
    | some ratio, [a, b, c] =>
      match allSome (a.map parseEvent), allSome (b.map parseEvent), allSome (c.map parseEvent) with
      | some pa, some pb, some pc => lockVerb ratio (pa.map (·.1)) (pb.map (·.1)) (pc.map (·.1))
      | _, _, _ => "bad-op"
    | _, _ => "bad-op"
  | "step" :: rest => match parseHist rest with
    | some h => stepVerb h
    | none => "bad-op"
  | ["cuts", ranges, hx] =>
    match allSome ((ranges.splitOn ",").map parseRange), parseHex hx with
    | some rs, some bs => cuts rs bs
    | _, _ => "bad-op"
  | "crash" :: n :: v :: rest =>
    match n.toNat?, parseHist rest with
    | some n, some h => if v = "w" ∨ v = "c" then crash h n v else "bad-op"
    | _, _ => "bad-op"
  | "ops" :: rest => match parseHist rest with
    | some h => opsVerb h
    | none => "bad-op"
  | _ => "bad-op"

end Blue.Driver.C13
