import Blue.Proofs.SetsumGrp
import Blue.Driver.Util
/-! Driver verbs for the ledger model (instance `ledger`, property C04): the verifier's pass over
    a manifest fragment, computed in the canonical-setsum group the theorems are about.

    `ledger verify <prev-digest> <rec>*` with `rec = I,O,D,rm1+rm2+…|-,ad1+…|-`   (hex digests)
    `ledger total <digest>*`  → hex digest of the sum -/
namespace Blue.Driver.C04
open Blue.Driver Blue.Setsum Blue.Books

def cstate (h : String) : Option CState := (parseHex h).bind ofDigest

def cstates (s : String) : Option (List CState) :=
  if s = "-" then some [] else allSome ((s.splitOn "+").map cstate)

def hexC (c : CState) : String := String.ofList (hexdigest c.1)

def parseRec (s : String) : Option (Rec CState CState) :=
  match s.splitOn "," with
  | [i, o, d, rm, ad] =>
    match cstate i, cstate o, cstate d, cstates rm, cstates ad with
    | some i, some o, some d, some rm, some ad => some ⟨i, o, d, rm, ad⟩
    | _, _, _, _, _ => none
  | _ => none

/-- which of the verifier's three checks fails first (for a readable disagreement) -/
def firstFailure (prev : CState) : List (Rec CState CState) → Nat → String
  | [], _ => "accept"
  | r :: rs, n =>
    if r.I ≠ prev then "reject chain"
    else if r.I ≠ setsumGrp.add r.O r.D then "reject balance"
    else if r.D ≠ computedDiscard setsumGrp id r.rm r.ad then "reject discard"
    else firstFailure r.O rs (n + 1)

def handle : List String → String
  | "verify" :: prev :: recs =>
    match cstate prev, allSome (recs.map parseRec) with
    | some p, some rs =>
      -- the verdict is `Blue.Books.verify` (the function the theorems are about); the position
      -- of the first failing check is only added for readability
      if verify setsumGrp id p rs then "accept"
      else
        let why := firstFailure p rs 0
        if why = "accept" then "model-error" else why
    | _, _ => "bad-op"
  | "total" :: ds =>
    match allSome (ds.map cstate) with
    | some cs => hexC (total setsumGrp id cs)
    | none => "bad-op"
  | _ => "bad-op"

end Blue.Driver.C04
