import Blue.Proofs.SetsumGrp
import Blue.Proofs.RecoverLedger
import Blue.Model.VerifyOne
import Blue.Driver.C08
import Blue.Driver.Util
/-! Driver verbs for the ledger model (instance `ledger`, property C04): the verifier's pass over
    a manifest fragment, computed in the canonical-setsum group the theorems are about.

    `ledger verify <prev-digest> <rec>*` with `rec = I,O,D,rm1+rm2+…|-,ad1+…|-`   (hex digests)
    `ledger total <digest>*`  → hex digest of the sum
    `ledger recover <O> <listed1+…|-> <log-sst-digest>*|-`  → the records `KeyValueStore::recover`
      writes for these logs (ascending), the manifest listing `listed` and recording output `O`
      (`Blue.Books.recoverRecs`): `rec*` as above, `-` for none -/
namespace Blue.Driver.C04
open Blue.Driver Blue.Setsum Blue.Books

/-- `Setsum::from_hexdigest` (C14's `fromHexdigest`: 64 characters, each pair read by
    `u8::from_str_radix(_, 16)`, which takes `+x` and upper-case digits too) -/
def cstate (h : String) : Option CState :=
  if h.length = 64 then (parsePairs h.toList).bind ofDigest else none

def cstates (s : String) : Option (List CState) :=
  if s = "-" then some [] else allSome ((s.splitOn "+").map cstate)

def hexC (c : CState) : String := String.ofList (hexdigest c.1)

def parseRec (s : String) : Option (Rec CState CState) :=
  match s.splitOn "," with
  | [i, o, d, rm, ad] =>
    match cstate i, cstate o, cstate d, cstates rm, cstates ad with
    | some i, some o, some d, some rm, some ad => some ⟨i, o, d, rm, ad⟩
    | _, _, _, _, _ => none
  | _ => none

def renderStates (l : List CState) : String := if l.isEmpty then "-" else "+".intercalate (l.map hexC)

def renderRec (r : Rec CState CState) : String :=
  s!"{hexC r.I},{hexC r.O},{hexC r.D},{renderStates r.rm},{renderStates r.ad}"

/-- which of the verifier's three checks fails first (for a readable disagreement) -/
def firstFailure (prev : CState) : List (Rec CState CState) → Nat → String
  | [], _ => "accept"
  | r :: rs, n =>
    if r.I ≠ prev then "reject chain"
    else if r.I ≠ setsumGrp.add r.O r.D then "reject balance"
    else if r.D ≠ computedDiscard setsumGrp id r.rm r.ad then "reject discard"
    else firstFailure r.O rs (n + 1)

def handle : List String → String
  | "verify" :: prev :: recs =>
    match cstate prev, allSome (recs.map parseRec) with
    | some p, some rs =>
      -- the verdict is `Blue.Books.verify` (the function the theorems are about); the position
      -- of the first failing check is only added for readability
      if verify setsumGrp id p rs then "accept"
      else
        let why := firstFailure p rs 0
        if why = "accept" then "model-error" else why
    | _, _ => "bad-op"
  | "recover" :: o :: listed :: logs =>
    match cstate o, cstates listed, (if logs = ["-"] then some [] else allSome (logs.map cstate)) with
    | some o, some ls, some lg =>
      let recs := recoverRecs setsumGrp id ls o lg
      if recs.isEmpty then "-" else " ".intercalate (recs.map renderRec)
    | _, _, _ => "bad-op"
  | "total" :: ds =>
    match allSome (ds.map cstate) with
    | some cs => hexC (total setsumGrp id cs)
    | none => "bad-op"
  | _ => "bad-op"

/-! ## `vone`: `Blue.Verifier.pass` with the real checks (`Blue.VerifyOne.contentChecker`)

    `vone pass gc=<n> tail=<0|1> <directory> files=<file>{|<file>}`
    * `<directory>` as for `vfy pass` (Blue.Driver.C08), digests in full (64 hex digits), `vO` a digest;
    * `gc=<n>`: the store's policy `versions = n`; `tail=1`: the code under test compares the inputs
      left after the last output with the collector (a variant tried in a scratch copy, not in /repo);
    * `<file>` ::= `<digest>:<entry>{,<entry>}`, `<entry>` ::= `<key hex>@<ts>=<value hex>#<item digest>`
      or `<key hex>@<ts>!#<item digest>` (a tombstone): what `get_cursor(digest)` shows, each entry
      with the setsum the real `sst::Setsum` gives it alone (the model's `h`).
    Answer: `st=<ok|backoff:x|corrupt:<check>|panic> trash-=… frags-=… vM=… vO=<digest> vstrs=…`. -/
namespace Vone
open Blue.Mani Blue.Verifier Blue.VerifyOne Blue.Compact Blue.Driver.C08 Blue.Driver.C08.Vfy

def ops : Ops CState := ⟨setsumGrp.add, setsumGrp.neg, setsumGrp.zero⟩

/-- `Setsum::from_hexdigest` on a manifest string -/
def parseName (n : Name) : Option CState :=
  if n.length = 64 then (parsePairs (n.map Char.ofNat)).bind ofDigest else none

def parseEntryTok (tok : String) : Option (Entry × CState) :=
  match tok.splitOn "#" with
  | [body, dg] =>
    match cstate dg, body.splitOn "@" with
    | some c, [k, rest] =>
      match parseHex k with
      | none => none
      | some kb =>
        if rest.endsWith "!" then
          ((rest.dropEnd 1).toString.toNat?).map fun t => (⟨kb, t, none⟩, c)
        else
          match rest.splitOn "=" with
          | [ts, v] =>
            match ts.toNat?, parseHex v with
            | some t, some vb => some (⟨kb, t, some vb⟩, c)
            | _, _ => none
          | _ => none
    | _, _ => none
  | _ => none

def parseFile (tok : String) : Option (CState × List (Entry × CState)) :=
  match tok.splitOn ":" with
  | [dg, es] =>
    match cstate dg, allSome ((es.splitOn ",").map parseEntryTok) with
    | some c, some l => some (c, l)
    | _, _ => none
  | _ => none

def parseFiles (s : String) : Option (List (CState × List (Entry × CState))) :=
  if s = "-" then some [] else allSome ((s.splitOn "|").map parseFile)

def mkEnv (gcn : Nat) (tail : Bool) (files : List (CState × List (Entry × CState))) : Env CState :=
  let table := files.flatMap (·.2)
  { ops := ops
    parse := parseName
    h := fun e => ((table.find? (fun p => p.1 == e)).map (·.2)).getD setsumGrp.zero
    fs := fun s => (files.find? (fun p => p.1 == s)).map (fun p => p.2.map (·.1))
    policy := .versions gcn
    tailChecked := tail }

def parseDirC (toks : List String) : Option (Dir CState) :=
  match field "sst" toks, field "trash" toks, field "vM" toks, field "vO" toks, field "vstrs" toks,
        field "frags" toks, field "live" toks with
  | some sst, some trash, some vm, some vo, some vstrs, some frags, some live =>
    match parseFrags frags, parseEdits live, (if vm = "-" then some none else vm.toNat?.map some), cstate vo with
    | some fr, some lv, some m, some o =>
      some { sst := nameList sst, trash := nameList trash, frags := fr, live := lv,
             vstrs := (nameList vstrs).foldl (fun acc x => insertStr x acc) [], vM := m, vO := o, done := [] }
    | _, _, _, _ => none
  | _, _, _, _, _, _, _ => none

def renderFail : Fail → String
  | .missing k => "missing-" ++ String.singleton (Char.ofNat k)
  | .badDigest => "bad-digest"
  | .chain => "chain"
  | .balance => "balance"
  | .notFound => "notfound"
  | .contents => "contents"
  | .badL => "bad-L"
  | .discard => "discard"
  | .gcLogic => "gc-logic"
  | .gcDataLoss => "gc-data-loss"
  | .gcConstruction => "gc-construction"
  | .gcDiscard => "gc-discard"
  | .output => "output"

/-- for a pass that ended in `corrupt`: which check of which entry (for a readable disagreement; the
    status itself is `Blue.Verifier.pass`'s) -/
def why (env : Env CState) (d d' : Dir CState) : String :=
  let pending := (entries d).filter fun f => match d'.vM with
    | some m => decide (m < f.1)
    | none => true
  match pending with
  | [] => (match d'.vM with
    | some m => if (entries d).any (fun f => decide (f.1 < m)) then "out-of-order" else "unknown"
    | none => "unknown")
  | (n, es) :: _ =>
    match completeActs d' n with
    | none => "out-of-order"
    | some _ =>
      match verifyFragment env d'.vO es with
      | .error f => renderFail f
      | .ok _ =>
        if !readable d' es then "notfound"
        else if (plan false (laterRm d' n) es).isNone then "bad-L" else "unknown"

def renderStatusC (env : Env CState) (d d' : Dir CState) : Status → String
  | .ok => "ok"
  | .backoff x => "backoff:" ++ str x
  | .corrupt => "corrupt:" ++ why env d d'
  | .panic => "panic"

def renderVC (d : Dir CState) : String :=
  s!"vM={match d.vM with | some m => toString m | none => "-"} vO={hexC d.vO} vstrs={renderNames d.vstrs}"

def handle : List String → String
  | "pass" :: toks =>
    match parseDirC toks, (field "gc" toks).bind (·.toNat?), field "tail" toks, (field "files" toks).bind parseFiles with
    | some d, some gcn, some tl, some files =>
      if tl ≠ "0" ∧ tl ≠ "1" then "bad-op" else
      let env := mkEnv gcn (tl = "1") files
      let r := pass (contentChecker env) d
      let d' := run d r.1
      let goneT := d.trash.filter (fun x => !d'.trash.contains x)
      let goneF := (d.frags.map (·.1)).filter (fun n => !(d'.frags.map (·.1)).contains n)
      s!"st={renderStatusC env d d' r.2} trash-={renderNames goneT} frags-={renderNums goneF} {renderVC d'}"
    | _, _, _, _ => "bad-op"
  | _ => "bad-op"

end Vone

end Blue.Driver.C04
