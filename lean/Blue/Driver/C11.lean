import Blue.Model.Cursor
import Blue.Model.Bounds
import Blue.Model.Concat
import Blue.Model.Pruning
import Blue.Model.Lazy
import Blue.Model.AsIs
import Blue.Model.MergingC
import Blue.Model.PruningC
import Blue.Model.BoundsC
import Blue.Driver.Util
/-! Driver verbs for the cursor combinators (property C11).

    `cur merge T <tables> X <ops>`
    `cur concat <next:new|old> <seek:new|old> T <tables> X <ops>`
    `cur bounds <prev:new|old> <lo> <hi> T <table> X <ops>`      bound = `u` | `i<hex>` | `e<hex>`
    `cur prune <timestamp> T <table> X <ops>`
    `cur lazy T <table> X <ops>`
    `cur stack <timestamp> <lo> <hi> T <tables> X <ops>`         the scan stack Bounds(Pruning(Merging[tables]))

    A table is a run of entry tokens `keyhex@ts=valuehex` / `keyhex@ts=tombstone`, optionally led by
    `p<k>` (the child cursor's position before it is handed to the combinator), and closed by `/`.
    Ops: `F` seek_to_first, `L` seek_to_last, `N` next, `P` prev, `S<keyhex>` seek.
    The answer is the observation `key_value()` after construction and after each call.
    The `old` variants are the operations as the code had them before the repairs of D-2, D-18,
    D-19 (`Blue/Model/AsIs.lean`); the harness asks for them only when it detects the unrepaired
    behaviour on the three minimal inputs. -/
namespace Blue.Driver.C11
open Blue.Cursor Blue.Driver

structure Ent where
  key : List Nat
  ts : Nat
  val : Option (List Nat)
deriving DecidableEq

/-- byte strings compare lexicographically (`<[u8] as Ord>`) -/
def bytesLt : List Nat → List Nat → Bool
  | [], [] => false
  | [], _ :: _ => true
  | _ :: _, [] => false
  | a :: as, b :: bs => if a < b then true else if b < a then false else bytesLt as bs

def bytesLe (a b : List Nat) : Bool := !bytesLt b a

/-- `KeyRef::cmp`: key ascending, then timestamp descending -/
def entLt (a b : Ent) : Bool := bytesLt a.key b.key || (a.key == b.key && decide (b.ts < a.ts))

def render : Option Ent → String
  | none => "none"
  | some e => hexOfBytes e.key ++ "@" ++ toString e.ts ++ "=" ++
      (match e.val with | none => "tombstone" | some v => hexOfBytes v)

def parseEnt (tok : String) : Option Ent :=
  match tok.splitOn "@" with
  | [k, rest] =>
    match rest.splitOn "=" with
    | [t, v] =>
      match parseHex k, t.toNat? with
      | some key, some ts =>
        if v = "tombstone" then some ⟨key, ts, none⟩
        else (parseHex v).map fun vv => ⟨key, ts, some vv⟩
      | _, _ => none
    | _ => none
  | _ => none

/-- tables are terminated by `/` -/
def tablesOf : List String → List String → List (List String) → Option (List (List String))
  | [], [], acc => some acc.reverse
  | [], _ :: _, _ => none
  | t :: rest, cur, acc =>
    if t = "/" then tablesOf rest [] (cur.reverse :: acc) else tablesOf rest (t :: cur) acc

def parseTable (toks : List String) : Option (Ref Ent) :=
  match toks with
  | [] => some ⟨[], 0⟩
  | t :: rest =>
    match t.toList with
    | 'p' :: ds =>
      match (String.ofList ds).toNat?, allSome (rest.map parseEnt) with
      | some p, some xs => some ⟨xs, p⟩
      | _, _ => none
    | _ => (allSome (toks.map parseEnt)).map fun xs => ⟨xs, 0⟩

def seekPred (k : List Nat) : Ent → Bool := fun e => bytesLe k e.key

def parseOp (tok : String) : Option (Op Ent) :=
  match tok.toList with
  | ['F'] => some .first
  | ['L'] => some .last
  | ['N'] => some .next
  | ['P'] => some .prev
  | 'S' :: h => (parseHex (String.ofList h)).map fun k => .seek (seekPred k)
  | _ => none

/-- `T <tables> X <ops>` -/
def parseBody (toks : List String) : Option (List (Ref Ent) × List (Op Ent)) :=
  match toks with
  | "T" :: rest =>
    let tabs := rest.takeWhile (· ≠ "X")
    match rest.dropWhile (· ≠ "X") with
    | "X" :: ops =>
      match tablesOf tabs [] [], allSome (ops.map parseOp) with
      | some ts, some os =>
        match allSome (ts.map parseTable) with
        | some cs => some (cs, os)
        | none => none
      | _, _ => none
    | _ => none
  | _ => none

/-- the observation after each call; `none` from `step` is the one error exit of the combinators
    (`logic_error_prev_not_positioned`), after which the program is abandoned -/
def runObs {σ : Type} (step : σ → Op Ent → Option σ) (kv : σ → Option Ent) : σ → List (Op Ent) → List String
  | _, [] => []
  | s, op :: ops =>
    match step s op with
    | none => ["err:logic-error-prev-not-positioned"]
    | some s' => render (kv s') :: runObs step kv s' ops

def answer {σ : Type} (step : σ → Op Ent → Option σ) (kv : σ → Option Ent) (s0 : σ) (ops : List (Op Ent)) : String :=
  " ".intercalate (render (kv s0) :: runObs step kv s0 ops)

def isOld (v : String) : Option Bool := if v = "old" then some true else if v = "new" then some false else none

inductive Bd where
  | unb
  | inc (k : List Nat)
  | exc (k : List Nat)

def parseBd (tok : String) : Option Bd :=
  match tok.toList with
  | ['u'] => some .unb
  | 'i' :: h => (parseHex (String.ofList h)).map .inc
  | 'e' :: h => (parseHex (String.ofList h)).map .exc
  | _ => none

/-- the key tests of `BoundsCursor` for a pair of `Bound<Vec<u8>>` -/
def mkCfg (lo hi : Bd) : BoundsCfg Ent where
  startUnbounded := match lo with | .unb => true | _ => false
  endUnbounded := match hi with | .unb => true | _ => false
  endIncluded := match hi with | .inc _ => true | _ => false
  geStart := fun e => match lo with | .unb => true | .inc k => bytesLe k e.key | .exc k => bytesLe k e.key
  geEnd := fun e => match hi with | .unb => true | .inc k => bytesLe k e.key | .exc k => bytesLe k e.key
  eqEnd := fun e => match hi with | .unb => false | .inc k => e.key == k | .exc k => e.key == k
  belowStart := fun e => match lo with | .unb => false | .inc k => bytesLt e.key k | .exc k => bytesLe e.key k
  aboveEnd := fun e => match hi with | .unb => false | .inc k => bytesLt k e.key | .exc k => bytesLe k e.key

def tombOf (e : Ent) : Bool := e.val.isNone

def concatStep (oldNext oldSeek : Bool) (m : Concat Ent) : Op Ent → Concat Ent
  | .next => if oldNext then Concat.nextOld tombOf m else m.next
  | .seek p => if oldSeek then Concat.seekOld p m else m.seek p
  | op => m.step op

def boundsStep (oldPrev : Bool) (cfg : BoundsCfg Ent) (n : Nat) (b : Bounds Ent) : Op Ent → Bounds Ent
  | .first => b.seekToFirst cfg
  | .last => b.seekToLast cfg n
  | .next => b.next cfg n
  | .prev => if oldPrev then Bounds.prevOld cfg b else b.prev cfg n
  | .seek p => b.seek cfg n p

def pruneCfg (t : Nat) : PruneCfg Ent (List Nat) where
  key := fun e => e.key
  tsOk := fun e => decide (e.ts ≤ t)
  tomb := tombOf

def pruneStep (cfg : PruneCfg Ent (List Nat)) (n : Nat) (p : Pruning Ent (List Nat)) : Op Ent → Option (Pruning Ent (List Nat))
  | .first => some p.seekToFirst
  | .last => some p.seekToLast
  | .next => some (p.next cfg n)
  | .prev => p.prev cfg n
  | .seek pr => some (p.seek cfg n pr)

def handle : List String → String
  | "merge" :: body =>
    match parseBody body with
    | some (cs, ops) => answer (fun m op => some (Merging.step entLt m op)) Merging.kv (Merging.new entLt cs) ops
    | none => "bad-op"
  | "concat" :: nv :: sv :: body =>
    match isOld nv, isOld sv, parseBody body with
    | some on, some os, some (cs, ops) =>
      if cs.isEmpty then "bad-op"
      else answer (fun m op => some (concatStep on os m op)) Concat.kv (Concat.new cs) ops
    | _, _, _ => "bad-op"
  | "bounds" :: pv :: lo :: hi :: body =>
    match isOld pv, parseBd lo, parseBd hi, parseBody body with
    | some op, some l, some h, some ([c], ops) =>
      let cfg := mkCfg l h
      let n := c.xs.length + 2
      answer (fun b o => some (boundsStep op cfg n b o)) Bounds.kv (Bounds.new cfg c) ops
    | _, _, _, _ => "bad-op"
  | "prune" :: t :: body =>
    match t.toNat?, parseBody body with
    | some ts, some ([c], ops) =>
      let cfg := pruneCfg ts
      answer (pruneStep cfg (c.xs.length + 2)) Pruning.kv (Pruning.new c) ops
    | _, _ => "bad-op"
  | "stack" :: t :: lo :: hi :: body =>
    -- the term of `scan_spec` / `scan_spec_dups` over reference children; the fuel is far above the
    -- bound the theorems ask for (entries + 2)
    match t.toNat?, parseBd lo, parseBd hi, parseBody body with
    | some ts, some l, some h, some (cs, ops) =>
      let n := 4 * (cs.map (·.xs.length)).foldl (· + ·) 0 + 8
      let MC := MergingC.cur (RefCur Ent) entLt
      let PC := PruningC.cur MC (pruneCfg ts) n
      let BC := BoundsC.cur PC (mkCfg l h) n
      let s0 : BC.σ := BoundsC.new PC (mkCfg l h) (PruningC.new MC (MergingC.new (RefCur Ent) entLt cs))
      answer (fun s op => let s' := BC.step s op; if BC.ok s' then some s' else none) BC.kv s0 ops
    | _, _, _, _ => "bad-op"
  | "lazy" :: body =>
    match parseBody body with
    | some ([c], ops) => answer (fun l op => some (Lazy.step l op)) Lazy.kv (⟨c.xs, .first⟩ : Lazy Ent) ops
    | _ => "bad-op"
  | _ => "bad-op"

end Blue.Driver.C11
