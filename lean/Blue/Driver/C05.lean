import Blue.Model.Gc
import Blue.Model.GcParse
import Blue.Model.Compact
import Blue.Driver.Util
/-! Driver verbs for property C05 (cursor level): instance `gc` (policy parser, garbage
    collector) and instance `split` (merge of the input tables cut at the observed places). -/
namespace Blue.Driver.C05
open Blue.Driver Blue.Gc

/-! ### gc -/

mutual
def renderPolicy : Policy → String
  | .versions n => "v" ++ toString n
  | .expires m => "t" ++ toString m
  | .any ps => "any(" ++ renderPolicies ps ++ ")"
  | .all ps => "all(" ++ renderPolicies ps ++ ")"
def renderPolicies : List Policy → String
  | [] => ""
  | [p] => renderPolicy p
  | p :: q :: ps => renderPolicy p ++ "," ++ renderPolicies (q :: ps)
end

def renderErr (input : List Nat) (e : Parse.PErr) : String :=
  e.errs.foldl (fun acc x =>
    match x.2 with
    | none => acc
    | some ctx =>
      let lc := Parse.lineCol input x.1
      acc ++ " " ++ ctx.replace " " "_" ++ ":" ++ toString lc.1 ++ ":" ++ toString lc.2) "err"

def parseEnt (tok : String) : Option (Ent (List Nat)) :=
  match tok.splitOn ":" with
  | [k, ts, kind] =>
    match parseHex k, ts.toNat?, kind with
    | some kb, some t, "v" => some ⟨kb, t, false⟩
    | some kb, some t, "t" => some ⟨kb, t, true⟩
    | _, _, _ => none
  | _ => none

def renderKept (out : List (List Nat × Nat)) : String :=
  out.foldl (fun acc x => acc ++ " " ++ hexOfBytes x.1 ++ ":" ++ toString x.2) "kept"

def handleGc : List String → String
  | ["parse", ph] =>
    match parseHex ph with
    | none => "bad-op"
    | some bs =>
      match Parse.parsePolicy bs with
      | .ok p => "ok " ++ renderPolicy p
      | .error e => renderErr bs e
  | "run" :: ph :: now :: ents =>
    match parseHex ph, now.toNat?, allSome (ents.map parseEnt) with
    | some bs, some now, some es =>
      match Parse.parsePolicy bs with
      | .ok p => renderKept (gcP p now (some []) es)     -- the determiner's `key` starts as `vec![]`
      | .error _ => "err-policy"
    | _, _, _ => "bad-op"
  | _ => "bad-op"

/-! ### split -/
open Blue.Compact

def parseEntry (tok : String) : Option Entry :=
  match tok.splitOn ":" with
  | [k, ts, v] =>
    match parseHex k, ts.toNat? with
    | some kb, some t =>
      if v = "~" then some ⟨kb, t, none⟩
      else (parseHex v).map fun vb => ⟨kb, t, some vb⟩
    | _, _ => none
  | _ => none

def parseTable (tok : String) : Option (List Entry) :=
  if tok = "." then some [] else allSome ((tok.splitOn ",").map parseEntry)

def renderEntry (e : Entry) : String :=
  hexOfBytes e.key ++ ":" ++ toString e.ts ++ ":" ++
    (match e.val with | none => "~" | some v => hexOfBytes v)

def renderTable (t : List Entry) : String :=
  if t.isEmpty then "." else ",".intercalate (t.map renderEntry)

def parseCuts (tok : String) : Option (List Nat) :=
  if tok = "-" then some [] else allSome ((tok.splitOn ",").map String.toNat?)

def handleSplit : List String → String
  | "cut" :: cuts :: tables =>
    match parseCuts cuts, allSome (tables.map parseTable) with
    | some cs, some ts =>
      let pieces := cut cs (merged entryLt ts)
      let files := pieces.dropLast
      let rest := pieces.getLast?.getD []
      let s := files.foldl (fun acc f => acc ++ " " ++ renderTable f) "files"
      if rest.isEmpty then s else s ++ " leftover " ++ renderTable rest
    | _, _ => "bad-op"
  | _ => "bad-op"

end Blue.Driver.C05
