import Blue.Model.BlockSeal
import Blue.Model.SstBuild
import Blue.Model.SstFile
import Blue.Model.Setsum
import Blue.Model.Sbbf
import Blue.Driver.Util
/-! Driver verbs for blocks and tables (property C10).

    Byte strings: `-` (empty) or parts joined by `+`, a part being lowercase hex or `hh*n`
    (byte `hh` repeated `n` times).  Entries: `P,key,ts,value[,sha3]` / `D,key,ts[,sha3]`.
    Cursor ops: `F L N P`, `S,key`, `G,key,ts` (point lookup).
    Bloom filter (`bloom …`): hash words (what `Filter::defer_insert(item)` returned) in decimal,
    comma separated, `-` for none. -/
namespace Blue.Driver.C10
open Blue.Driver Blue.Block Blue.BlockCursor Blue.Sst Blue.Cursor Blue.SstOpen

/-! ### parsing -/
def parsePart (s : String) : Option (List Nat) :=
  match s.splitOn "*" with
  | [h] => parseHex h
  | [h, n] =>
    match parseHex h, n.toNat? with
    | some [b], some k => some (List.replicate k b)
    | _, _ => none
  | _ => none

def parseBytes (s : String) : Option (List Nat) :=
  if s = "-" then some []
  else (allSome ((s.splitOn "+").map parsePart)).map List.flatten

structure Attempt where
  kv : KV
  hash : String

def parseEntry (tok : String) : Option Attempt :=
  match tok.splitOn "," with
  | "P" :: k :: t :: v :: rest =>
    match parseBytes k, t.toNat?, parseBytes v with
    | some k, some t, some v => some ⟨⟨k, t, some v⟩, rest.headD ""⟩
    | _, _, _ => none
  | "D" :: k :: t :: rest =>
    match parseBytes k, t.toNat? with
    | some k, some t => some ⟨⟨k, t, none⟩, rest.headD ""⟩
    | _, _ => none
  | _ => none

inductive POp where
  | cur (op : KOp)
  | get (k : List Nat) (ts : Nat)

def parseOp (tok : String) : Option POp :=
  match tok.splitOn "," with
  | ["F"] => some (.cur .first)
  | ["L"] => some (.cur .last)
  | ["N"] => some (.cur .next)
  | ["P"] => some (.cur .prev)
  | ["S", k] => (parseBytes k).map fun k => .cur (.seek k)
  | ["G", k, t] =>
    match parseBytes k, t.toNat? with
    | some k, some t => some (.get k t)
    | _, _ => none
  | _ => none

/-! ### rendering -/
def runLen (b : Nat) : List Nat → Nat
  | [] => 0
  | x :: xs => if x = b then runLen b xs + 1 else 0

def hex2 (b : Nat) : String := String.ofList [hexDigitC (b / 16 % 16), hexDigitC (b % 16)]

def flushLit (lit : List Nat) (parts : List String) : List String :=
  if lit.isEmpty then parts else hexOfBytes lit.reverse :: parts

/-- the compact rendering of byte strings: runs of at least 12 equal bytes as `hh*n` -/
def tokAux : Nat → List Nat → List Nat → List String → List String
  | 0, _, lit, parts => (flushLit lit parts).reverse
  | _, [], lit, parts => (flushLit lit parts).reverse
  | f+1, b :: rest, lit, parts =>
    let n := 1 + runLen b rest
    if n ≥ 12 then tokAux f (rest.drop (n - 1)) [] (s!"{hex2 b}*{n}" :: flushLit lit parts)
    else tokAux f (rest.drop (n - 1)) (List.replicate n b ++ lit) parts

def tokOfBytes (bs : List Nat) : String :=
  if bs.isEmpty then "-" else "+".intercalate (tokAux (bs.length + 1) bs [] [])

/-- FNV-1a, 32 bit (products stay below 2^57: no big-number arithmetic) -/
def fnv (bs : List Nat) : Nat :=
  bs.foldl (fun h b => ((h ^^^ b) * 16777619) % 4294967296) 2166136261

/-- long byte strings in observations are shown by length and FNV-1a-32 -/
def showBytes (bs : List Nat) : String :=
  if bs.length > 48 then s!"#{bs.length}:{fnv bs}" else hexOfBytes bs

def showKV : Option KV → String
  | none => "."
  | some e =>
    match e.val with
    | some v => s!"{showBytes e.key}@{e.ts}={showBytes v}"
    | none => s!"{showBytes e.key}@{e.ts}!"

def showLoaded : Loaded → String
  | .absent => "absent"
  | .tombstone => "tomb"
  | .value v => s!"v{showBytes v}"

def showPutErr : Option PutErr → Char
  | none => '.'
  | some .keyTooLarge => 'K'
  | some .valueTooLarge => 'V'
  | some .tableFull => 'T'
  | some .sortOrder => 'S'

def showBuildErr : Option BuildErr → Char
  | none => '.'
  | some (.put e) => showPutErr (some e)
  | some .logic => 'L'
  | some .assert => '!'

/-! ### blocks -/
def runBlock (blk : DBlock KV) : BCur KV → List POp → List String
  | _, [] => []
  | c, .cur op :: ops => let c' := bstep c op; showKV (kv c') :: runBlock blk c' ops
  | c, .get k t :: ops => showLoaded (bload blk k t) :: runBlock blk c ops

def handleBlock (bri pri : Nat) (atts : List Attempt) (ops : List POp) : String :=
  let o : Opts := ⟨bri, pri⟩
  let r := CBuilder.putAll o CBuilder.init (atts.map (·.kv))
  let bytes := r.2.b.seal
  let head := s!"r={String.ofList (r.1.map showPutErr)} b={tokOfBytes bytes}"
  match Blk.new bytes with
  | .tooSmall => head ++ " new:block-too-small"
  | .underflow => head ++ " new:underflow"
  | .ok b =>
    match b.toDBlock with
    | none => head ++ " undecodable"
    | some d => " ".intercalate (head :: runBlock d ⟨d, .first⟩ ops)

/-- `Block::new` on arbitrary bytes (D-23) -/
def handleNew (bytes : List Nat) : String :=
  match Blk.new bytes with
  | .tooSmall => "err:block-too-small"
  | .underflow => "err:block-too-small"
  | .ok _ => "ok"

/-! ### tables -/
def words (h : String) : Option (Vector Nat 8) := (parseHex h).bind Blue.Setsum.fromDigestOld

def kvEq (a b : KV) : Bool := a.key == b.key && a.ts == b.ts && a.val == b.val

/-- the setsum of the accepted entries, from the SHA3 words the harness attached to the attempts -/
def setsumOf (atts : List Attempt) (accepted : List KV) : Option (List Nat) :=
  let hs := accepted.map fun e => (atts.find? fun a => kvEq a.kv e).bind fun a => words a.hash
  (allSome hs).map fun ws => Blue.Setsum.digest (Blue.Setsum.ofItems ws)

def runTable (t : Table) : SstCur KV → List POp → List String
  | _, [] => []
  | c, .cur op :: ops => let c' := sstep c op; showKV c'.kv :: runTable t c' ops
  | c, .get k ts :: ops => showLoaded (t.load k ts) :: runTable t c ops

def hexList (l : List (List Nat)) : String :=
  if l.isEmpty then "none" else ",".intercalate (l.map tokOfBytes)

def sealOne (o : SstOpts) (atts : List Attempt) (s : SB) (filter : List Nat) : Except String SstFile :=
  if filter.length ≠ filterLen s.count o.bloomBits then .error "bad-filter-len"
  else
    match setsumOf atts s.accepted with
    | none => .error "bad-hash"
    | some sum =>
      match s.seal o filter sum with
      | .error (.put e) => .error s!"seal-err:{showPutErr (some e)}"
      | .error .logic => .error "seal-err:L"
      | .error .assert => .error "seal-panic"
      | .ok f => .ok f

/-! The table is read back from the *file image* the builder model wrote (`SstFile.bytes`) by the
    model of `Sst::new` / `Sst::load_block` (`Blue.SstOpen.openSst`: trailer, final block, sanity
    checks, index block, every index entry's `BlockMetadata`, filter block; data blocks lazily
    through their `(start, limit, crc32c)`), with the builder's own CRC32C — the instance
    `sst_file_roundtrip_crc32c` speaks about.  The older path (`SstFile.open`: blocks taken through
    the final block *structure*) is run alongside; a difference between the two is answered
    `model-split` (it would contradict the theorem). -/

/-- one lazily evaluated, remembered load per index entry (the loader is a pure function of the
    file and the index entry, so the cursor cannot tell) -/
def mkCache (t : Opened) : Array (Thunk (Except Err (List KV))) :=
  (Array.range t.entries.length).map fun i => Thunk.mk fun _ => t.loadIdx crc32c i

def memoGet (cache : Array (Thunk (Except Err (List KV)))) (t : Opened) (i : Nat) : Except Err (List KV) :=
  match cache[i]? with
  | some th => th.get
  | none => t.loadIdx crc32c i

def showErr (e : Err) : String := "E:" ++ e.code

/-- `Opened.step` / `Opened.load` with the remembered loader -/
def runOpened (t : Opened) (ld : Nat → Except Err (List KV)) : LCur → List POp → List String
  | _, [] => []
  | c, .cur op :: ops =>
    let n := t.entries.length
    let r : Except Err LCur := match op with
      | .first => .ok t.toFirst
      | .last => .ok t.toLast
      | .next => nextG n ld (n + 2) c
      | .prev => prevG ld (n + 2) c
      | .seek k => seekG n ld (t.seekIndex k) k
    match r with
    | .ok c' => showKV c'.kv :: runOpened t ld c' ops
    | .error e => showErr e :: runOpened t ld c ops
  | c, .get k ts :: ops =>
    (match loadG t.entries.length ld t.fuel (t.seekIndex k) k ts with
      | .ok r => showLoaded r
      | .error e => showErr e) :: runOpened t ld c ops

def metaOpened (t : Opened) (ld : Nat → Except Err (List KV)) : String :=
  match endsG t.entries.length ld with
  | .ok ends => tokOfBytes (encMetadata (t.metaOf ends))
  | .error e => showErr e

def handleSst (o : SstOpts) (filter : List Nat) (atts : List Attempt) (ops : List POp) : String :=
  let r := SB.putAll o SB.init (atts.map (·.kv))
  let head := s!"r={String.ofList (r.1.map showBuildErr)}"
  match sealOne o atts r.2 filter with
  | .error m => head ++ " " ++ m
  | .ok f =>
    let head := s!"{head} B={hexList f.blocks} I={tokOfBytes f.index} Z={tokOfBytes f.final}"
    match openSst crc32c f.bytes with
    | .error e => head ++ " unopenable:" ++ e.code
    | .ok t =>
      let ld := memoGet (mkCache t) t
      let fromImage := s!"M={metaOpened t ld}" :: runOpened t ld t.toFirst ops
      let fromStruct := match f.open with
        | none => ["unopenable"]
        | some tt => s!"M={tokOfBytes (encMetadata tt.metadata)}" :: runTable tt tt.cursor ops
      if fromImage == fromStruct then " ".intercalate (head :: fromImage)
      else " ".intercalate (head :: "model-split" :: fromImage)

def sealMany (o : SstOpts) (atts : List Attempt) : List SB → List (List Nat) → Except String (List SstFile)
  | [], [] => .ok []
  | s :: ss, f :: fs =>
    match sealOne o atts s f, sealMany o atts ss fs with
    | .ok x, .ok xs => .ok (x :: xs)
    | .error m, _ => .error m
    | _, .error m => .error m
  | _, _ => .error "bad-filter-count"

def handleMulti (o : SstOpts) (filters : List (List Nat)) (atts : List Attempt) : String :=
  let r := MB.putAll o MB.init (atts.map (·.kv))
  let head := s!"r={String.ofList (r.1.map showBuildErr)} n={r.2.files.length}"
  match sealMany o atts r.2.files filters with
  | .error m => head ++ " " ++ m
  | .ok fs =>
    let ms := fs.map fun f => match openSst crc32c f.bytes with
      | .error e => showErr e
      | .ok t => metaOpened t (memoGet (mkCache t) t)
    let ms' := fs.map fun f => match f.open with
      | none => "unopenable"
      | some t => tokOfBytes (encMetadata t.metadata)
    if ms == ms' then s!"{head} M={if ms.isEmpty then "none" else ",".intercalate ms}"
    else s!"{head} model-split M={if ms.isEmpty then "none" else ",".intercalate ms}"

/-! ### the bloom filter (sst/src/sbbf.rs) -/
namespace Bloom
open Blue.Sbbf

def parseNats (s : String) : Option (List Nat) :=
  if s = "-" then some [] else allSome ((s.splitOn ",").map String.toNat?)

/-- the code's insert, word after word (`none` = the assertion of `do_hashing` fired) -/
def insertAll : Filter → List Nat → Option Filter
  | f, [] => some f
  | f, x :: xs => match f.deferredInsert? x with
    | none => none
    | some g => insertAll g xs

def bit : Option Bool → Char
  | some true => '1'
  | some false => '0'
  | none => '!'

def checks (f : Filter) (qs : List Nat) : String :=
  if qs.isEmpty then "-" else String.ofList (qs.map fun q => bit (f.check? q))

/-- the serialised filter cut or extended (with `a5`) to `len` bytes -/
def resize (bytes : List Nat) (len : Nat) : List Nat :=
  if len ≤ bytes.length then bytes.take len else bytes ++ List.replicate (len - bytes.length) 0xa5

def showParse (r : Except Sbbf.Err Filter) : String :=
  match r with
  | .error e => "err:" ++ e.code
  | .ok g => s!"ok{g.approximateSize / 32}/{showBytes g.toBytes}"

/-- `Filter::new(size)`, inserts, `to_bytes`, `check`s, `try_from` of the bytes and of resized copies -/
def handleFilter (size : Nat) (ins qs lens : List Nat) : String :=
  match insertAll (Filter.new size) ins with
  | none => "panic"
  | some f =>
    let bytes := f.toBytes
    let head := s!"n={f.approximateSize / 32} b={showBytes bytes} c={checks f qs}"
    let back := match Filter.tryFrom bytes with
      | .error e => s!"rt=err:{e.code}"
      | .ok g => s!"rt={if g == f then "eq" else "ne"} c2={checks g qs}"
    let ts := if lens.isEmpty then "-" else ",".intercalate (lens.map fun l => showParse (Filter.tryFrom (resize bytes l)))
    s!"{head} {back} T={ts}"

/-- `Filter::try_from` on bytes no filter wrote, then `check`s -/
def handleParse (bytes qs : List Nat) : String :=
  match Filter.tryFrom bytes with
  | .error e => "err:" ++ e.code
  | .ok g => s!"ok{g.approximateSize / 32}/{showBytes g.toBytes} c={checks g qs}"

def handle : List String → String
  | ["new", size] => match size.toNat? with
    | some size => if size < U32 then s!"n={newBlocks size}" else "bad-op"
    | none => "bad-op"
  | ["filter", size, ins, qs, lens] =>
    match size.toNat?, parseNats ins, parseNats qs, parseNats lens with
    | some size, some ins, some qs, some lens =>
      if size < U32 ∧ (ins ++ qs).all (· < U64) then handleFilter size ins qs lens else "bad-op"
    | _, _, _, _ => "bad-op"
  | ["parse", bytes, qs] =>
    match parseBytes bytes, parseNats qs with
    | some bytes, some qs => if qs.all (· < U64) then handleParse bytes qs else "bad-op"
    | _, _ => "bad-op"
  | _ => "bad-op"

end Bloom

/-! ### decisions -/
def handleCheck : List String → String
  | ["key", n] => match n.toNat? with
    | some n => if n > MAX_KEY_LEN then "key-too-large" else "ok"
    | none => "bad-op"
  | ["value", n] => match n.toNat? with
    | some n => if n > MAX_VALUE_LEN then "value-too-large" else "ok"
    | none => "bad-op"
  | ["table", n] => match n.toNat? with
    | some n => if n ≥ TABLE_FULL_SIZE then "table-full" else "ok"
    | none => "bad-op"
  | _ => "bad-op"

def handleDivide : List String → String
  | [kl, tl, kr, tr] =>
    match parseBytes kl, tl.toNat?, parseBytes kr, tr.toNat? with
    | some kl, some tl, some kr, some tr =>
      if keyRefLt kl tl kr tr then
        let d := divideKeys kl tl kr tr
        s!"{hexOfBytes d.1}@{d.2}"
      else "panic"
    | _, _, _, _ => "bad-op"
  | _ => "bad-op"

def takeEntries (n : Nat) (toks : List String) : Option (List Attempt × List POp) :=
  if toks.length < n then none
  else
    match allSome ((toks.take n).map parseEntry), allSome ((toks.drop n).map parseOp) with
    | some es, some ops => some (es, ops)
    | _, _ => none

def handle : List String → String
  | "block" :: "build" :: bri :: pri :: n :: rest =>
    match bri.toNat?, pri.toNat?, n.toNat? with
    | some bri, some pri, some n =>
      if bri = 0 ∨ pri = 0 then "bad-op"   -- interval 0 is outside the property (and never ends)
      else match takeEntries n rest with
        | some (es, ops) => handleBlock bri pri es ops
        | none => "bad-op"
    | _, _, _ => "bad-op"
  | ["block", "new", bytes] =>
    match parseBytes bytes with
    | some bs => handleNew bs
    | none => "bad-op"
  | "block" :: "check" :: rest => handleCheck rest
  | "sst" :: "build" :: bri :: pri :: tbs :: bloom :: filter :: n :: rest =>
    match bri.toNat?, pri.toNat?, tbs.toNat?, bloom.toNat?, parseBytes filter, n.toNat? with
    | some bri, some pri, some tbs, some bloom, some filter, some n =>
      if bri = 0 ∨ pri = 0 then "bad-op"
      else match takeEntries n rest with
        | some (es, ops) => handleSst ⟨⟨bri, pri⟩, tbs, bloom, 0⟩ filter es ops
        | none => "bad-op"
    | _, _, _, _, _, _ => "bad-op"
  | "sst" :: "multi" :: bri :: pri :: tbs :: bloom :: tfs :: filters :: n :: rest =>
    match bri.toNat?, pri.toNat?, tbs.toNat?, bloom.toNat?, tfs.toNat?, n.toNat? with
    | some bri, some pri, some tbs, some bloom, some tfs, some n =>
      let fl := if filters = "none" then some [] else allSome ((filters.splitOn ",").map parseBytes)
      if bri = 0 ∨ pri = 0 then "bad-op"
      else match fl, takeEntries n rest with
        | some fl, some (es, []) => handleMulti ⟨⟨bri, pri⟩, tbs, bloom, tfs⟩ fl es
        | _, _ => "bad-op"
    | _, _, _, _, _, _ => "bad-op"
  | "sst" :: "divide" :: rest => handleDivide rest
  | "bloom" :: rest => Bloom.handle rest
  | _ => "bad-op"

end Blue.Driver.C10
