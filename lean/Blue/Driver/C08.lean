import Blue.Model.FileRefs
import Blue.Driver.Util
/-! Driver verb for the version-reference / trash model (instance `refs`, properties C08, C07):

    `refs run <v0 files> :: <event>*`  with files `a+b+c` (or `-`), events `I:<files>` (install a
    version), `S` (take a snapshot of the current version), `R:<i>` (drop a reference to version `i`).
    Output after each event: `sst=<sorted names> trash=<sorted names>` (what the model says is in
    `sst/`, and what it has moved to `trash/` so far). -/
namespace Blue.Driver.C08
open Blue.Driver Blue.FileRefs

def names (s : String) : List String := if s = "-" then [] else s.splitOn "+"

def insertSorted (x : String) : List String → List String
  | [] => [x]
  | y :: t => if x == y then y :: t else if x < y then x :: y :: t else y :: insertSorted x t

def sorted (l : List String) : String :=
  let s := l.foldl (fun acc x => insertSorted x acc) []
  if s.isEmpty then "-" else "+".intercalate s

def render (s : St String) : String := s!"sst={sorted s.sst} trash={sorted s.trash}"

def parseEv (t : String) : Option (Ev String) :=
  if t = "S" then some .snapshot
  else if t.startsWith "I:" then some (.install (names (t.drop 2).toString))
  else if t.startsWith "R:" then ((t.drop 2).toString.toNat?).map .release
  else none

def init (files : List String) : St String :=
  { versions := [⟨files, 1, true⟩], refs := fun f => files.count f, sst := files, trash := [] }

def runEvents : St String → List (Ev String) → List String
  | _, [] => []
  | s, e :: es => let s' := step s e; render s' :: runEvents s' es

def handle : List String → String
  | "run" :: v0 :: "::" :: evs =>
    match allSome (evs.map parseEv) with
    | some es => " | ".intercalate (runEvents (init (names v0)) es)
    | none => "bad-op"
  | _ => "bad-op"

end Blue.Driver.C08
