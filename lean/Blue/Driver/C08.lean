import Blue.Model.FileRefs
import Blue.Model.Verifier
import Blue.Model.Orphans
import Blue.Model.FileLink
import Blue.Driver.Util
/-! Driver verb for the version-reference / trash model (instance `refs`, properties C08, C07):

    `refs run <v0 files> :: <event>*`  with files `a+b+c` (or `-`), events `I:<files>` (install a
    version), `S` (take a snapshot of the current version), `R:<i>` (drop a reference to version `i`).
    Output after each event: `sst=<sorted names> trash=<sorted names>` (what the model says is in
    `sst/`, and what it has moved to `trash/` so far). -/
namespace Blue.Driver.C08
open Blue.Driver Blue.FileRefs

def names (s : String) : List String := if s = "-" then [] else s.splitOn "+"

def insertSorted (x : String) : List String → List String
  | [] => [x]
  | y :: t => if x == y then y :: t else if x < y then x :: y :: t else y :: insertSorted x t

def sorted (l : List String) : String :=
  let s := l.foldl (fun acc x => insertSorted x acc) []
  if s.isEmpty then "-" else "+".intercalate s

def render (s : St String) : String := s!"sst={sorted s.sst} trash={sorted s.trash}"

def parseEv (t : String) : Option (Ev String) :=
  if t = "S" then some .snapshot
  else if t.startsWith "I:" then some (.install (names (t.drop 2).toString))
  else if t.startsWith "R:" then ((t.drop 2).toString.toNat?).map .release
  else none

def init (files : List String) : St String :=
  { versions := [⟨files, 1, true⟩], refs := fun f => files.count f, sst := files, trash := [] }

def runEvents : St String → List (Ev String) → List String
  | _, [] => []
  | s, e :: es => let s' := step s e; render s' :: runEvents s' es

def handle : List String → String
  | "run" :: v0 :: "::" :: evs =>
    match allSome (evs.map parseEv) with
    | some es => " | ".intercalate (runEvents (init (names v0)) es)
    | none => "bad-op"
  | _ => "bad-op"


/-! Verbs for the verifier model (`Blue.Verifier`, instance `vfy`) and the orphan clean-up model
    (`Blue.Orphans`, instance `orph`).

    directory ::= `sst=`<names> `trash=`<names> `vM=`<n|-> `vO=`<token> `vstrs=`<names> [`plan=old`]
                  `frags=`<n>`:`<edits>{`|`<n>`:`<edits>} `live=`<edits>
    names     ::= `-` | name{`+`name}           edits ::= `-` | edit{`;`edit}
    edit      ::= `.` | item{`,`item}           item  ::= `-`name | `+`name | <key char><value>

    * `vfy pass <directory>`      status of one `LsmVerifier::verify` and what it changed
    * `vfy trace <directory>`     the durable actions of the pass, in order
    * `vfy prefixes <directory>`  the directory after every prefix of those actions (the crash states)
    * `orph sst=… trash=… frags=<edits>{|<edits>}`   what `cleanup_orphans` renames to `trash/` -/
namespace Vfy
open Blue.Mani Blue.Verifier

def ascii (s : String) : List Nat := s.toList.map Char.toNat
def str (l : List Nat) : String := String.ofList (l.map Char.ofNat)
def nameList (s : String) : List (List Nat) := (names s).map ascii
def renderNames (l : List (List Nat)) : String := sorted (l.map str)

def parseItem (e : Edit) (t : String) : Option Edit :=
  match t.toList with
  | '-' :: r => if r.isEmpty then none else some { e with rm := e.rm ++ [r.map Char.toNat] }
  | '+' :: r => if r.isEmpty then none else some { e with add := e.add ++ [r.map Char.toNat] }
  | k :: r => some { e with info := e.info ++ [(k.toNat, r.map Char.toNat)] }
  | [] => none

def parseItems : List String → Edit → Option Edit
  | [], e => some e
  | t :: ts, e => match parseItem e t with
    | some e' => parseItems ts e'
    | none => none

def parseEdit (s : String) : Option Edit :=
  if s = "." then some Edit.empty else parseItems (s.splitOn ",") Edit.empty

def parseEdits (s : String) : Option (List Edit) :=
  if s = "-" then some [] else allSome ((s.splitOn ";").map parseEdit)

def parseFrag (s : String) : Option (Nat × List Edit) :=
  match s.splitOn ":" with
  | [n, es] => match n.toNat?, parseEdits es with
    | some n, some es => some (n, es)
    | _, _ => none
  | _ => none

def parseFrags (s : String) : Option (List (Nat × List Edit)) :=
  if s = "-" then some [] else allSome ((s.splitOn "|").map parseFrag)

def field (key : String) : List String → Option String
  | [] => none
  | t :: ts => if t.startsWith (key ++ "=") then some (t.drop (key.length + 1)).toString else field key ts

def parseDir (toks : List String) : Option (Dir Name) :=
  match field "sst" toks, field "trash" toks, field "vM" toks, field "vO" toks, field "vstrs" toks,
        field "frags" toks, field "live" toks with
  | some sst, some trash, some vm, some vo, some vstrs, some frags, some live =>
    match parseFrags frags, parseEdits live, (if vm = "-" then some none else vm.toNat?.map some) with
    | some fr, some lv, some m =>
      some { sst := nameList sst, trash := nameList trash, frags := fr, live := lv,
             vstrs := (nameList vstrs).foldl (fun acc x => insertStr x acc) [], vM := m, vO := ascii vo, done := [] }
    | _, _, _ => none
  | _, _, _, _, _, _, _ => none

def renderStatus : Status → String
  | .ok => "ok"
  | .backoff x => "backoff:" ++ str x
  | .corrupt => "corrupt"
  | .panic => "panic"

def renderNums (l : List Nat) : String := if l.isEmpty then "-" else "+".intercalate (l.map toString)

def renderV (d : Dir Name) : String :=
  s!"vM={match d.vM with | some m => toString m | none => "-"} vO={str d.vO} vstrs={renderNames d.vstrs}"

def renderAct : Act Name → String
  | .unlinkFrag n => s!"F{n}"
  | .unlinkTrash x => "T" ++ str x
  | .clear => "C"
  | .intent n _ names _ => s!"I{n}:{renderNames names}"

def renderState (d : Dir Name) : String :=
  s!"sst={renderNames d.sst} trash={renderNames d.trash} frags={renderNums (d.frags.map (·.1))} {renderV d}"

def prefixStates (d : Dir Name) : List (Act Name) → List String
  | [] => [renderState d]
  | a :: as => renderState d :: prefixStates (d.apply a) as

/-- consecutive equal states are one crash state (the edit that clears an empty log changes nothing) -/
def dedupAdj : List String → List String
  | a :: b :: t => if a = b then dedupAdj (b :: t) else a :: dedupAdj (b :: t)
  | l => l

/-- `plan=old` asks for the plan of the code before the repair of D-28 (the harness asks for the
    one the code under test shows on the directed history) -/
def checkerOf (toks : List String) : Checker Name :=
  if field "plan" toks = some "old" then chainCheckerAsWas else chainChecker

def handleVfy : List String → String
  | "pass" :: toks =>
    match parseDir toks with
    | none => "bad-op"
    | some d =>
      let r := pass (checkerOf toks) d
      let d' := run d r.1
      let goneT := d.trash.filter (fun x => !d'.trash.contains x)
      let goneF := (d.frags.map (·.1)).filter (fun n => !(d'.frags.map (·.1)).contains n)
      let sstSame := if d'.sst = d.sst then "same" else "changed"
      s!"st={renderStatus r.2} sst={sstSame} trash-={renderNames goneT} frags-={renderNums goneF} {renderV d'}"
  | "trace" :: toks =>
    match parseDir toks with
    | none => "bad-op"
    | some d =>
      let r := pass (checkerOf toks) d
      s!"st={renderStatus r.2} acts={if r.1.isEmpty then "-" else ",".intercalate (r.1.map renderAct)}"
  | "prefixes" :: toks =>
    match parseDir toks with
    | none => "bad-op"
    | some d => " | ".intercalate (dedupAdj (prefixStates d (pass (checkerOf toks) d).1))
  | _ => "bad-op"

def parseFragList (s : String) : Option (List (List Edit)) :=
  if s = "-" then some [] else allSome ((s.splitOn "|").map parseEdits)

def handleOrph (toks : List String) : String :=
  match field "sst" toks, field "trash" toks, field "frags" toks with
  | some sst, some trash, some frags =>
    match parseFragList frags with
    | some fr => s!"moved={renderNames (Blue.Orphans.moved (nameList sst) (nameList trash) fr)} listed={renderNames (Blue.Orphans.listed fr)}"
    | none => "bad-op"
  | _, _, _ => "bad-op"

end Vfy

/-! `flink <asis|pin> refs=<name>:<n>{,<name>:<n>} sst=<names> trash=<names> :: <event>*` with events
    `L:<x>` (link an output), `R:<x>` (a version being installed takes its reference), `U:<x>` (a
    holder lets go): `sst/` and `trash/` afterwards (`Blue.FileLink`). -/
namespace Flink
open Blue.FileLink

def parseRefs (s : String) : Option (List (String × Nat)) :=
  if s = "-" then some [] else
  allSome ((s.splitOn ",").map fun t => match t.splitOn ":" with
    | [n, k] => k.toNat?.map fun k => (n, k)
    | _ => none)

def parseEv (t : String) : Option (Blue.FileLink.Ev String) :=
  if t.startsWith "L:" then some (.link (t.drop 2).toString)
  else if t.startsWith "R:" then some (.ref (t.drop 2).toString)
  else if t.startsWith "U:" then some (.unref (t.drop 2).toString)
  else none

def handle : List String → String
  | proto :: r :: sst :: trash :: "::" :: evs =>
    let pin? := if proto = "pin" then some true else if proto = "asis" then some false else none
    match pin?, Vfy.field "refs" [r], Vfy.field "sst" [sst], Vfy.field "trash" [trash], allSome (evs.map parseEv) with
    | some pin, some r, some sst, some trash, some es =>
      match parseRefs r with
      | some rs =>
        let s0 : Blue.FileLink.St String := { refs := fun x => ((rs.find? (·.1 == x)).map (·.2)).getD 0, sst := names sst, trash := names trash }
        let s := Blue.FileLink.run pin s0 es
        s!"sst={sorted s.sst} trash={sorted s.trash}"
      | none => "bad-op"
    | _, _, _, _, _ => "bad-op"
  | _ => "bad-op"

end Flink

end Blue.Driver.C08
