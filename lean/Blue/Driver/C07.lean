import Blue.Model.Snap
import Blue.Driver.C01
import Blue.Driver.Util
/-! Driver verb for the held-cursor model (instance `snap`, property C07):

    `snap run <state dumped when the scan was opened> :: <lo> <hi> :: <script>`

    state and bounds as for `kvs scan`; script tokens: `F` `L` `N` `P` `S<hex>` (calls on the held
    cursor), `w:<ents>` (entries a later write inserted into the captured memtable), `e:<label>`
    (anything else the store did meanwhile).  Output: the entry shown after each call.

    `snap open <state, ts = last assigned sequence number> :: <numbers in flight|-> :: <lo> <hi> :: <script>`

    the same for a scan opened while writes are in flight: the model computes the read timestamp
    (`Blue.Snap.readTs`) from the numbers of the writes that have not left the wait list. -/
namespace Blue.Driver.C07
open Blue.Driver Blue.Driver.C01 Blue.Spec Blue.Snap

inductive RawTok where
  | op (s : String)
  | write (es : List RawEnt)
  | other

def parseTok (t : String) : Option RawTok :=
  if t.startsWith "w:" then (parseEnts (t.drop 2).toString).map .write
  else if t.startsWith "e:" then (if t.length > 2 then some .other else none)
  else match t.toList with
    | ['F'] | ['L'] | ['N'] | ['P'] => some (.op t)
    | 'S' :: _ => some (.op t)
    | _ => none

def tokKeys : RawTok → List (List Nat)
  | .op s => opKeys s
  | .write es => es.map (·.key)
  | .other => []

def toTok (keys : List (List Nat)) : RawTok → Option (Tok Nat)
  | .op s => (parseOp keys s).map .op
  | .write es => some (.write (vers keys es))
  | .other => some .other

def parseInflight (s : String) : Option (List Nat) :=
  if s = "-" then some [] else allSome ((s.splitOn ",").map String.toNat?)

def handle (toks : List String) : String :=
  match toks with
  | "open" :: rest =>
    -- snap open <state, ts = last assigned number> :: <numbers in flight> :: <lo> <hi> :: <script>
    let (st, r1) := splitAtSep rest
    let (inf, r2) := splitAtSep r1
    let (bs, script) := splitAtSep r2
    match parseState st, inf, bs, allSome (script.map parseTok) with
    | some s, [infs], [lo, hi], some raw =>
      let keys := allKeys s (boundKeys lo ++ boundKeys hi ++ raw.flatMap tokKeys)
      match parseInflight infs, parseBound keys lo, parseBound keys hi, allSome (raw.map (toTok keys)) with
      | some inflight, some sb, some eb, some prog =>
        let written : List RawEnt := raw.flatMap fun t => match t with | .write es => es | _ => []
        let sAll : RawState := { s with mem := s.mem ++ written }
        let h : Held Nat := openAt s.ts inflight (vers keys s.mem)
          (vers keys ((s.imm.getD []) ++ s.files.flatMap (·.ents)))
        let out := run Nat.blt (isTomb sAll keys) sb eb h prog
        if out.isEmpty then "-" else " ".intercalate (out.map (renderEntry sAll keys))
      | _, _, _, _ => "bad-op"
    | _, _, _, _ => "bad-op"
  | "run" :: rest =>
    let (st, r1) := splitAtSep rest
    let (bs, script) := splitAtSep r1
    match parseState st, bs, allSome (script.map parseTok) with
    | some s, [lo, hi], some raw =>
      let keys := allKeys s (boundKeys lo ++ boundKeys hi ++ raw.flatMap tokKeys)
      match parseBound keys lo, parseBound keys hi, allSome (raw.map (toTok keys)) with
      | some sb, some eb, some prog =>
        -- every entry the request mentions, for payloads and tombstones
        let written : List RawEnt := raw.flatMap fun t => match t with | .write es => es | _ => []
        let sAll : RawState := { s with mem := s.mem ++ written }
        let h : Held Nat :=
          { ts := s.ts, mem := vers keys s.mem
            rest := vers keys ((s.imm.getD []) ++ s.files.flatMap (·.ents)), pos := 0 }
        let out := run Nat.blt (isTomb sAll keys) sb eb h prog
        if out.isEmpty then "-" else " ".intercalate (out.map (renderEntry sAll keys))
      | _, _, _ => "bad-op"
    | _, _, _ => "bad-op"
  | _ => "bad-op"

end Blue.Driver.C07
