import Blue.Model.SstOpen
import Blue.Model.Damage
import Blue.Model.Crc32c
import Blue.Model.DamageClass
import Blue.Driver.Util
/-! Driver verbs for damaged files (property C09), instance token `dmg`.

      `dmg file <kind> <id> <hex> <probes|->`   set the pristine file of the line group; answer
                                                `file <kind> <len> <what is read from it, in full>`
      `dmg d <id> <damage>`                     the current file with the damage applied (hashed answer)
      `dmg one <kind> <hex> <probes|-> <f|h> <damage|->`   self-contained form

    The answer for a damaged file starts with `cls=<class>`: the region of the pristine file the
    damage lies in, which is the hypothesis class of the theorem of `Blue.Props.C09` that speaks about
    the case (`Blue.DamageClass.classOf`, from the model's own reading of the pristine bytes).

    kind   ::= sst | log | mani
    probes ::= <hex key>@<timestamp>{,…}        the `Sst::load` calls
    damage ::= op{+op};  op ::= f<off>.<bit> | o<off>.<hex byte> | t<len> | a<hex>

    The line group is the only state the driver keeps (`step`); `dmg d` without a matching
    `dmg file` is `bad-op`. -/
namespace Blue.Driver.C09
open Blue.Driver Blue.Damage Blue.SstOpen Blue.Block

def crc : List Nat → Nat := Blue.Crc32c.crc32c

/-! ### rendering (the same text as harness/src/c09.rs) -/

def fnvInit : UInt64 := 0xcbf29ce484222325
def fnvStep (h : UInt64) (b : Nat) : UInt64 := (h ^^^ b.toUInt64) * 0x100000001b3
def fnvStr (h : UInt64) (s : String) : UInt64 := s.foldl (fun h c => fnvStep h c.toNat) h

def hex64 (h : UInt64) : String :=
  String.ofList ((List.range 16).map fun i => hexDigitC (h.toNat / 16 ^ (15 - i) % 16))

/-- FNV-1a of the items joined by commas -/
def hashItems : List String → UInt64 → Bool → UInt64
  | [], h, _ => h
  | s :: t, h, first => hashItems t (fnvStr (if first then h else fnvStep h 44) s) false

def sect (items : List String) (endTok : String) (full : Bool) : String :=
  if full then "[" ++ ",".intercalate items ++ "]:" ++ endTok
  else toString items.length ++ ":" ++ hex64 (hashItems items fnvInit true) ++ ":" ++ endTok

def entStr (e : KV) : String :=
  match e.val with
  | some v => hexOfBytes e.key ++ "@" ++ toString e.ts ++ "=" ++ hexOfBytes v
  | none => hexOfBytes e.key ++ "@" ++ toString e.ts ++ "!"

/-! hashing an entry's text without building it -/
def hexNib (n : Nat) : Nat := if n < 10 then 48 + n else 87 + n
def fnvHexBytes (h : UInt64) : List Nat → UInt64
  | [] => fnvStep h 45
  | bs => bs.foldl (fun h b => fnvStep (fnvStep h (hexNib (b / 16 % 16))) (hexNib (b % 16))) h
/-- `fnvStr h (entStr e)` -/
def fnvEnt (h : UInt64) (e : KV) : UInt64 :=
  let h := fnvStr (fnvStep (fnvHexBytes h e.key) 64) (toString e.ts)
  match e.val with
  | some v => fnvHexBytes (fnvStep h 61) v
  | none => fnvStep h 33

def hashEnts : List KV → UInt64 → Bool → UInt64
  | [], h, _ => h
  | e :: t, h, first => hashEnts t (fnvEnt (if first then h else fnvStep h 44) e) false

/-- `sect (es.map entStr) endTok full` -/
def sectEnts (es : List KV) (endTok : String) (full : Bool) : String :=
  if full then sect (es.map entStr) endTok true
  else toString es.length ++ ":" ++ hex64 (hashEnts es fnvInit true) ++ ":" ++ endTok

def endTok (e : Option Err) : String :=
  match e with
  | none => "end"
  | some x => "E:" ++ x.code

def loadTok : Except Err Loaded → String
  | .error e => "E:" ++ e.code
  | .ok .absent => "N"
  | .ok .tombstone => "T"
  | .ok (.value v) => "v" ++ hexOfBytes v

def metaStr (m : Blue.Sst.Metadata) : String :=
  hexOfBytes m.setsum ++ "/" ++ hexOfBytes m.firstKey ++ "/" ++ hexOfBytes m.lastKey ++ "/" ++ toString m.smallest
    ++ "/" ++ toString m.biggest ++ "/" ++ toString m.fileSize

/-- one lazily evaluated, remembered load per index entry -/
def mkCache (t : Opened) : Array (Thunk (Except Err (List KV))) :=
  (Array.range t.entries.length).map fun i => Thunk.mk fun _ => t.loadIdx crc i

/-- `t.loadIdx crc` with every block loaded at most once per request (the loader is a pure
    function of the file and the index entry, so the cursor cannot tell) -/
def memoGet (cache : Array (Thunk (Except Err (List KV)))) (t : Opened) (i : Nat) : Except Err (List KV) :=
  match cache[i]? with
  | some th => th.get
  | none => t.loadIdx crc i

def renderSst (bytes : List Nat) (probes : List (List Nat × Nat)) (full : Bool) : String :=
  match openSst crc bytes with
  | .error e => "open=E:" ++ e.code
  | .ok t =>
    let n := t.entries.length
    let cache := mkCache t
    let ld := memoGet cache t
    let f := walkFwdG n ld t.fuel t.toFirst []
    let b := walkBwdG n ld t.fuel t.toLast []
    let ls := probes.map fun p => loadTok (loadG n ld t.fuel (t.seekIndex p.1) p.1 p.2)
    "open=ok fwd=" ++ sectEnts f.1 (endTok f.2) full
      ++ " bwd=" ++ sectEnts b.1 (endTok b.2) full
      ++ " loads=" ++ sect ls "end" full
      ++ " meta=" ++ (match endsG n ld with
        | .ok ends => metaStr (t.metaOf ends)
        | .error e => "E:" ++ e.code)

def P : Blue.Log.Params := Blue.Log.realParams crc

def renderLog (bytes : List Nat) (full : Bool) : String :=
  let d := drain P bytes
  let builder := match replayOf d with
    | .readerError => if replayPropagatesErrors then "E" else "panic"
    | .empty => "none"
    | .builderError => "E"
    | .sealed es => sectEnts es "end" full
  let setsum := if !d.2 then "ok" else if replayPropagatesErrors then "E" else "panic"
  "drain=" ++ sectEnts d.1 (if d.2 then "E" else "end") full ++ " builder=" ++ builder ++ " setsum=" ++ setsum

def editStr (e : Blue.Mani.Edit) : String :=
  "e(r:" ++ ".".intercalate (e.rm.map hexOfBytes) ++ ";a:" ++ ".".intercalate (e.add.map hexOfBytes) ++ ";i:"
    ++ ".".intercalate (e.info.map fun kv => hexOfBytes [kv.1] ++ "=" ++ hexOfBytes kv.2) ++ ")"

def itemStr : Item → String
  | .edit e => editStr e
  | .corrupt | .notAscii => "E:corruption"
  | .ioError => "E:io-error"
  | .disallowed => "E:string-disallowed"

def stateStr (s : Blue.Mani.State) : String :=
  "s[" ++ ",".intercalate (s.strs.map hexOfBytes) ++ "]i[" ++
    ",".intercalate (s.info.map fun kv => hexOfBytes [kv.1] ++ "=" ++ hexOfBytes kv.2) ++ "]"

def renderMani (bytes : List Nat) (full : Bool) : String :=
  let its := items crc bytes
  let op := match openState crc bytes with
    | .error i => itemStr i
    | .ok s => if full then stateStr s else hex64 (fnvStr fnvInit (stateStr s))
  "iter=" ++ sect (its.map itemStr) "end" full ++ " open=" ++ op

def render (kind : String) (bytes : List Nat) (probes : List (List Nat × Nat)) (full : Bool) : Option String :=
  if kind = "sst" then some (renderSst bytes probes full)
  else if kind = "log" then some (renderLog bytes full)
  else if kind = "mani" then some (renderMani bytes full)
  else none

/-! ### parsing -/

def parseProbe (s : String) : Option (List Nat × Nat) :=
  match s.splitOn "@" with
  | [k, t] =>
    match parseHex k, t.toNat? with
    | some kb, some ts => some (kb, ts)
    | _, _ => none
  | _ => none

def parseProbes (s : String) : Option (List (List Nat × Nat)) :=
  if s = "-" then some [] else allSome ((s.splitOn ",").map parseProbe)

def parseDmg (s : String) : Option Dmg :=
  match s.toList with
  | 'f' :: r =>
    match (String.ofList r).splitOn "." with
    | [a, b] =>
      match a.toNat?, b.toNat? with
      | some off, some bit => if bit < 8 then some (.flip off bit) else none
      | _, _ => none
    | _ => none
  | 'o' :: r =>
    match (String.ofList r).splitOn "." with
    | [a, b] =>
      match a.toNat?, parseHex b with
      | some off, some [v] => some (.over off v)
      | _, _ => none
    | _ => none
  | 't' :: r => (String.ofList r).toNat?.map .trunc
  | 'a' :: r => (parseHex (String.ofList r)).map .app
  | _ => none

def parseSeq (s : String) : Option (List Dmg) :=
  if s = "-" then some [] else allSome ((s.splitOn "+").map parseDmg)

/-! ### the line group -/

structure Ctx where
  id : String
  kind : String
  bytes : List Nat
  probes : List (List Nat × Nat)
  /-- the regions of the pristine file (computed once per line group) -/
  layout : Option Blue.DamageClass.Layout

def clsTok (l : Option Blue.DamageClass.Layout) (ds : List Dmg) : String :=
  match l with
  | some l => "cls=" ++ Blue.DamageClass.classOf l ds ++ " "
  | none => "cls=? "

/-- one `dmg …` request: the line group afterwards, and the answer -/
def step (st : Option Ctx) : List String → Option Ctx × String
  | ["file", kind, id, hx, pr] =>
    match parseHex hx, parseProbes pr with
    | some bs, some ps =>
      match render kind bs ps true with
      | some r => (some ⟨id, kind, bs, ps, Blue.DamageClass.layoutOf crc kind bs⟩,
                   "file " ++ kind ++ " " ++ toString bs.length ++ " " ++ r)
      | none => (st, "bad-op")
    | _, _ => (st, "bad-op")
  | ["d", id, dm] =>
    match st, parseSeq dm with
    | some c, some ds =>
      if c.id = id then
        (st, ((render c.kind (applyAll c.bytes ds) c.probes false).map (clsTok c.layout ds ++ ·)).getD "bad-op")
      else (st, "bad-op")
    | _, _ => (st, "bad-op")
  | ["one", kind, hx, pr, mode, dm] =>
    match parseHex hx, parseProbes pr, parseSeq dm with
    | some bs, some ps, some ds =>
      if mode = "f" ∨ mode = "h" then
        (st, ((render kind (applyAll bs ds) ps (mode = "f")).map
                (clsTok (Blue.DamageClass.layoutOf crc kind bs) ds ++ ·)).getD "bad-op")
      else (st, "bad-op")
    | _, _, _ => (st, "bad-op")
  | _ => (st, "bad-op")

end Blue.Driver.C09
