import Blue.Model.TupleKey1T
import Blue.Model.TupleKey2T
import Blue.Driver.Util
/-! Driver verbs for the tuple-key models (property C16): instances `tk1` (field-numbered,
    crate `tuple_key`) and `tk2` (compact, crate `tuple_key2`).

    tk1 element token  `<field>:<type><dir>=<value>`   type ∈ unit pad dunit u32 u64 i32 i64 str, dir ∈ + -
        schema token   `<field>:<type><dir>`
        (`pad` is the `TupleKey::extend` / `TupleKeyParser::parse_next` pair: a unit that is
         always written Forward and parsed with the direction given; `dunit` is what
         derive(TypedTupleKey) does for a `()` field: `extend_with_key(f, (), dir)` / `parse_next`)
    tk2 element token  `<type>=<value>`   type ∈ unit u8 u16 u32 u64 i8 i16 i32 i64 bytes str
    values: `u` (unit), decimal integers, lowercase hex (`-` = empty) for strings/bytes. -/
namespace Blue.Driver.C16
open Blue.Driver

def cmpBytes (a b : List Nat) : String :=
  if Blue.TupleKey2.blt a b then "lt" else if Blue.TupleKey2.blt b a then "gt" else "eq"

def parseInt (s : String) : Option Int :=
  match s.toList with
  | '-' :: r => (String.ofList r).toNat?.map fun n => -(n : Int)
  | _ => s.toNat?.map fun n => (n : Int)

def splitAt (c : Char) (s : String) : Option (String × String) :=
  match s.splitOn (String.singleton c) with
  | a :: b :: rest => some (a, String.intercalate (String.singleton c) (b :: rest))
  | _ => none

/-- split a token list at the separator `/` -/
def splitSlash : List String → List (List String)
  | [] => [[]]
  | t :: ts =>
    match splitSlash ts with
    | [] => [[t]]
    | g :: gs => if t = "/" then [] :: g :: gs else (t :: g) :: gs

namespace K1
open Blue.TupleKey1

/-- driver-level element type: the model's `Ty` or the `extend`/`parse_next` pair -/
inductive DTy | ty (t : Ty) | pad | dunit

def parseTy : String → Option DTy
  | "unit" => some (.ty .unit)
  | "pad" => some .pad
  | "dunit" => some .dunit
  | "u32" => some (.ty .u32)
  | "u64" => some (.ty .u64)
  | "i32" => some (.ty .i32)
  | "i64" => some (.ty .i64)
  | "str" => some (.ty .str)
  | _ => none

def tyName : Ty → String
  | .unit => "unit" | .u32 => "u32" | .u64 => "u64" | .i32 => "i32" | .i64 => "i64" | .str => "str"

def dirName : Dir → String
  | .fwd => "+" | .rev => "-"

/-- `<field>:<type><dir>` -/
def parseSchemaTok (s : String) : Option (Nat × DTy × Dir) := do
  let (f, td) ← splitAt ':' s
  let f ← f.toNat?
  let cs := td.toList
  let d ← match cs.getLast? with
    | some '+' => some Dir.fwd
    | some '-' => some Dir.rev
    | _ => none
  let t ← parseTy (String.ofList cs.dropLast)
  if validField f then some (f, t, d) else none

def parseVal (t : DTy) (s : String) : Option Val :=
  match t with
  | .pad | .dunit => if s = "u" then some .unit else none
  | .ty .unit => if s = "u" then some .unit else none
  | .ty .u32 => s.toNat?.bind fun n => if n < 4294967296 then some (.u32 n) else none
  | .ty .u64 => s.toNat?.bind fun n => if n < 18446744073709551616 then some (.u64 n) else none
  | .ty .i32 => (parseInt s).bind fun z => if -2147483648 ≤ z ∧ z < 2147483648 then some (.i32 z) else none
  | .ty .i64 => (parseInt s).bind fun z =>
      if -9223372036854775808 ≤ z ∧ z < 9223372036854775808 then some (.i64 z) else none
  | .ty .str => (parseHex s).bind fun bs => if Blue.Utf8.valid bs then some (.str bs) else none

/-- `<field>:<type><dir>=<value>` -/
def parseElemTok (s : String) : Option ((Nat × DTy × Dir) × Val) := do
  let (sch, v) ← splitAt '=' s
  let sc ← parseSchemaTok sch
  let v ← parseVal sc.2.1 v
  some (sc, v)

def renderVal : Val → String
  | .unit => "u"
  | .u32 n => toString n
  | .u64 n => toString n
  | .i32 z => toString z
  | .i64 z => toString z
  | .str s => hexOfBytes s

def errName : Err → String
  | .noMore => "no-more"
  | .tagMismatch => "tag-mismatch"
  | .missingValue => "missing-value"
  | .unitWidth => "unit-width"
  | .width5 => "width5"
  | .width10 => "width10"
  | .utf8 => "utf8"
  | .unitStructWidth => "unit-struct-width"
  | .badTag => "bad-tag"

/-- what `extend` / `extend_with_key` write for one element -/
def modelElem (e : (Nat × DTy × Dir) × Val) : Nat × Dir × Val :=
  match e.1.2.1 with
  | .pad => (e.1.1, .fwd, .unit)
  | .dunit => (e.1.1, e.1.2.2, .unit)
  | .ty _ => (e.1.1, e.1.2.2, e.2)

def encode (es : List ((Nat × DTy × Dir) × Val)) : List Nat := encTuple (es.map modelElem)

def allTy : List (Nat × DTy × Dir) → Option (List (Nat × Ty × Dir))
  | [] => some []
  | (f, .ty t, d) :: r => (allTy r).map ((f, t, d) :: ·)
  | (_, .pad, _) :: _ => none
  | (_, .dunit, _) :: _ => none

/-- typed decode, one parser call per schema entry -/
def decodeLoop : List (Nat × DTy × Dir) → List Nat → List Val × Except Err (List Nat)
  | [], buf => ([], .ok buf)
  | (f, .pad, d) :: sch, buf | (f, .dunit, d) :: sch, buf =>
    match parseNext buf f d with
    | .error e => ([], .error e)
    | .ok rest => match decodeLoop sch rest with
      | (vs, r) => (.unit :: vs, r)
  | (f, .ty t, d) :: sch, buf =>
    match parseWithKey buf f t d with
    | .error e => ([], .error e)
    | .ok (v, rest) => match decodeLoop sch rest with
      | (vs, r) => (v :: vs, r)

def decode (sch : List (Nat × DTy × Dir)) (buf : List Nat) : List Val × Except Err (List Nat) :=
  match allTy sch with
  | some s => parseRow s buf      -- the function the round-trip theorem is about
  | none => decodeLoop sch buf

def renderDecode (r : List Val × Except Err (List Nat)) : String :=
  let vs := r.1.map renderVal
  let tail := match r.2 with
    | .ok [] => "end"
    | .ok (_ :: _) => "more"
    | .error e => "err:" ++ errName e
  String.intercalate " " (vs ++ [tail])

def renderScan (r : List (Nat × Dir × Val) × Option Err) : String :=
  let vs := r.1.map fun (f, d, v) => toString f ++ ":" ++ tyName v.ty ++ dirName d ++ "=" ++ renderVal v
  let tail := match r.2 with
    | none => "end"
    | some e => "err:" ++ errName e
  String.intercalate " " (vs ++ [tail])

def handle : List String → String
  | "enc" :: toks =>
    match allSome (toks.map parseElemTok) with
    | none => "bad-op"
    | some es =>
      let bytes := encode es
      hexOfBytes bytes ++ " " ++ renderDecode (decode (es.map (·.1)) bytes)
  | "pair" :: toks =>
    match splitSlash toks with
    | [ta, tb, [te]] =>
      match allSome (ta.map parseElemTok), parseElemTok te with
      | some ea, some ee =>
        if tb.length ≠ ea.length then "bad-op" else
        match allSome ((ea.zip tb).map fun (e, s) => (parseVal e.1.2.1 s).map fun v => (e.1, v)) with
        | none => "bad-op"
        | some eb =>
          let a := encode ea
          let b := encode eb
          let ae := encode (ea ++ [ee])
          String.intercalate " " [hexOfBytes a, hexOfBytes b, hexOfBytes ae, cmpBytes a b, cmpBytes ae b,
            if contTieB a b || contTieB b a then "tie=1" else "tie=0"]
      | _, _ => "bad-op"
    | _ => "bad-op"
  | "dec" :: toks =>
    match toks.getLast? with
    | none => "bad-op"
    | some h =>
      match allSome (toks.dropLast.map parseSchemaTok), parseHex h with
      | some sch, some buf => renderDecode (decode sch buf)
      | _, _ => "bad-op"
  | ["scan", h] =>
    match parseHex h with
    | some buf => renderScan (scan (buf.length + 1) buf)
    | none => "bad-op"
  | _ => "bad-op"

end K1

namespace K2
open Blue.TupleKey2

def parseTy : String → Option Ty
  | "unit" => some .unit
  | "u8" => some .u8 | "u16" => some .u16 | "u32" => some .u32 | "u64" => some .u64
  | "i8" => some .i8 | "i16" => some .i16 | "i32" => some .i32 | "i64" => some .i64
  | "bytes" => some .bytes
  | "str" => some .str
  | _ => none

def tyName : Ty → String
  | .unit => "unit" | .u8 => "u8" | .u16 => "u16" | .u32 => "u32" | .u64 => "u64"
  | .i8 => "i8" | .i16 => "i16" | .i32 => "i32" | .i64 => "i64" | .bytes => "bytes" | .str => "str"

def natMax : Ty → Nat
  | .u8 => 256 | .u16 => 65536 | .u32 => 4294967296 | _ => 18446744073709551616

def parseVal (t : Ty) (s : String) : Option Val :=
  match t with
  | .unit => if s = "u" then some .unit else none
  | .u8 | .u16 | .u32 | .u64 => s.toNat?.bind fun n => if n < natMax t then some (.nat n) else none
  | .i8 | .i16 | .i32 | .i64 => (parseInt s).bind fun z =>
      if intFits t z ∧ -9223372036854775808 ≤ z ∧ z < 9223372036854775808 then some (.int z) else none
  | .bytes => (parseHex s).map .bytes
  | .str => (parseHex s).bind fun bs => if Blue.Utf8.valid bs then some (.bytes bs) else none

def parseElemTok (s : String) : Option (Ty × Val) := do
  let (t, v) ← splitAt '=' s
  let t ← parseTy t
  let v ← parseVal t v
  some (t, v)

def renderVal : Val → String
  | .unit => "u"
  | .nat n => toString n
  | .int z => toString z
  | .bytes s => hexOfBytes s

def hex2 (b : Nat) : String := String.ofList [hexDigitC (b / 16 % 16), hexDigitC (b % 16)]

def errName : Err → String
  | .unexpectedEnd => "unexpected-end"
  | .invalidIntegerTag t => "invalid-integer-tag:" ++ hex2 t
  | .invalidUnitTag t => "invalid-unit-tag:" ++ hex2 t
  | .nonCanonical => "non-canonical"
  | .outOfRange t => "out-of-range:" ++ tyName t
  | .invalidEscape b => "invalid-escape:" ++ hex2 b
  | .unterminated => "unterminated"
  | .invalidUtf8 => "invalid-utf8"
  | .trailing n => "trailing:" ++ toString n

def renderDecode (r : List Val × Option Err) : String :=
  let vs := r.1.map renderVal
  let tail := match r.2 with
    | none => "end"
    | some e => "err:" ++ errName e
  String.intercalate " " (vs ++ [tail])

def handle : List String → String
  | "enc" :: toks =>
    match allSome (toks.map parseElemTok) with
    | none => "bad-op"
    | some es =>
      match encRow es with
      | none => "bad-op"
      | some bytes => hexOfBytes bytes ++ " " ++ renderDecode (parseRow (es.map (·.1)) bytes)
  | "pair" :: toks =>
    match splitSlash toks with
    | [ta, tb, [te]] =>
      match allSome (ta.map parseElemTok), parseElemTok te with
      | some ea, some ee =>
        if tb.length ≠ ea.length then "bad-op" else
        match allSome ((ea.zip tb).map fun (e, s) => (parseVal e.1 s).map fun v => (e.1, v)) with
        | none => "bad-op"
        | some eb =>
          match encRow ea, encRow eb, encRow (ea ++ [ee]) with
          | some a, some b, some ae =>
            String.intercalate " " [hexOfBytes a, hexOfBytes b, hexOfBytes ae, cmpBytes a b, cmpBytes ae b]
          | _, _, _ => "bad-op"
      | _, _ => "bad-op"
    | _ => "bad-op"
  | "dec" :: toks =>
    match toks.getLast? with
    | none => "bad-op"
    | some h =>
      match allSome (toks.dropLast.map parseTy), parseHex h with
      | some sch, some buf => renderDecode (parseRow sch buf)
      | _, _ => "bad-op"
  | _ => "bad-op"

end K2

end Blue.Driver.C16
