import Blue.Model.SkipList
import Blue.Model.SkipML
import Blue.Model.ListFree
import Blue.Model.ListFreeIter
import Blue.Model.SkipLife
import Blue.Driver.Util
/-! Driver verbs for property C17: the lock-free skiplist (`skip`) and the prepend-only list
    (`list`).

    * `skip seq <H> <op>…` — one thread, one iterator, `MAX_HEIGHT = H`.  Ops `i<k>,<h>` insert key
      `k` with tower height `h`, `c<k>` contains, `s<k>` seek, `n` next, `p` prev, `f`
      seek_to_first, `l` seek_to_last, `d` dump.  One token per op: `-` for an insert (`panic` when
      the key is there already: the code's assertion), `T`/`F` for contains, the key the iterator
      is on (`-` when not valid) for a move, the keys of every level for a dump.
    * `skip run <H> <T> <ev>…` — a recorded run of `T` threads as events `<t>:<e>`: calls
      `I<k>,<h>` `Qs<k>` `Qc<k>` `Qn` `Qp` `Qf` `Ql`, the atomic accesses with what they saw
      `L<n>,<lvl>=<r>` load, `S<n>,<lvl>=<v>` store, `C<p>,<lvl>,<old>,<new>=<0|1>` CAS,
      `A<n>,<h>` allocation, and `E` the operation returned.  Nodes are numbered in allocation
      order, the head is 0, `-` is the null pointer.  Every access must be exactly the one the
      model's thread performs next, with exactly the outcome the model computes in that state
      (`Blue.SkipML.access`); an insert must begin with a key that is neither linked nor being
      inserted (`insertOk`), so that the run is one of `Blue.SkipML.Reach`; after every successful CAS the chain invariant's conclusions are
      evaluated (`chainsOk`); and the level-0 part of the run is replayed in lockstep on the
      proved level-0 model `Blue.SkipList` (each insert entering level 0 must satisfy `CallOk`).
      The answer is the result of every reader operation, in order of return, and the final
      chains.
    * `skip life <op>…` — who keeps the nodes alive: `i` insert, `t` make an iterator, `c<j>` clone
      iterator `j`, `L` drop the list, `D<j>` drop iterator `j`, `u<j>` dereference through iterator
      `j`.  One token per op: the number of nodes not yet released.
    * `list seq <op>…` — `p<d>` prepend, `a` full iteration.
    * `list run <T> <ev>…` — `P<d>` `Qi` calls; `A<n>` `H=<r>` `S<n>=<v>` `C<old>,<new>=<0|1>`
      accesses of a prepend, `H=<r>` `L<n>=<r>` loads of an iteration, `E` returned. -/
namespace Blue.Driver.C17
open Blue.Driver

def optPtr (s : String) : Option (Option Nat) := if s = "-" then some none else (optNat s).map some
def natList (s : String) : Option (List Nat) := allSome ((s.splitOn ",").map optNat)
def ptrList (s : String) : Option (List (Option Nat)) := allSome ((s.splitOn ",").map optPtr)
def rPtr : Option Nat → String
  | none => "-"
  | some n => toString n
def joinOr (sep : String) (xs : List String) : String := if xs.isEmpty then "-" else sep.intercalate xs

/-! ## skiplist -/
section skip
open Blue.SkipML

def rPos (s : St) (i : Nat) : String :=
  let t := th s i
  if valid t then toString (mkey s.heap (t.pos.getD 0)) else "-"

def rLevels (s : St) : String :=
  let ls := (List.range s.H).map fun l => (chain s l).map (mkey s.heap)
  let ls := (ls.reverse.dropWhile List.isEmpty).reverse
  joinOr "/" (ls.map fun l => ",".intercalate (l.map toString))

def seqFuel (s : St) : Nat := 4 * (s.heap.length + s.H + 4) * (s.H + 2)

/-- one sequential op on thread 0: (result rendering, next state) -/
def seqOp (s : St) (tok : String) : Option (String × St) :=
  let fin (s' : St) : St := runToIdle (seqFuel s) s' 0
  let move (s' : St) : Option (String × St) :=
    let s2 := fin s'
    if (th s2 0).pc = .idle then some (rPos s2 0, s2) else none
  match tok.toList with
  | 'i' :: rest =>
    match natList (String.ofList rest) with
    | some [k, h] =>
      if 0 < h ∧ h ≤ s.H then
        let s2 := fin (callInsert s 0 k h)
        if (th s2 0).pc = .panicked then some ("panic", setPc s2 0 .idle)
        else if (th s2 0).pc = .idle then some ("-", s2) else none
      else none
    | _ => none
  | 'c' :: rest =>
    match optNat (String.ofList rest) with
    | some k =>
      let s2 := fin (callContains s 0 k)
      if (th s2 0).pc = .idle then some (if (th s2 0).found then "T" else "F", s2) else none
    | none => none
  | 's' :: rest =>
    match optNat (String.ofList rest) with
    | some k => move (callSeek s 0 k)
    | none => none
  | ['n'] => move (callNext s 0)
  | ['p'] => move (callPrev s 0)
  | ['f'] => move (callFirst s 0)
  | ['l'] => move (callLast s 0)
  | ['d'] => some ("lv=" ++ rLevels s, s)
  | _ => none

def seqRun : St → List String → List String → Option (List String × St)
  | s, [], acc => some (acc.reverse, s)
  | s, t :: ts, acc =>
    match seqOp s t with
    | none => none
    | some (r, s') => seqRun s' ts (r :: acc)

def handleSkipSeq : List String → String
  | h :: ops =>
    match optNat h with
    | some (H + 1) =>
      match seqRun (init (H + 1) 1) ops [] with
      | none => "bad-op"
      | some (out, s) => joinOr " " out ++ s!" chk={if chainsOk s then 1 else 0}"
    | _ => "bad-op"
  | _ => "bad-op"

/-! ### recorded runs -/

/-- the proved level-0 model, replayed in lockstep -/
abbrev L0 := Blue.SkipList.St

def l0PcKey (heap : List Blue.SkipList.Node) : Blue.SkipList.PC → Option Nat
  | .idle => none
  | .find k _ _ => some k
  | .alloc k _ _ => some k
  | .setNext nd _ _ => some (Blue.SkipList.keyOf heap nd)
  | .cas nd _ _ => some (Blue.SkipList.keyOf heap nd)

/-- `Blue.SkipList.CallOk`, decided (`ids` = the level-0 chain; threads `0..T-1`) -/
def l0CallOk (l : L0) (ids : List Nat) (T i k prev : Nat) : Bool :=
  decide (l.pcs i = .idle) && !l.inserted.contains k &&
  (List.range T).all (fun j => l0PcKey l.heap (l.pcs j) != some k) &&
  (prev == 0 || (ids.contains prev && decide (Blue.SkipList.keyOf l.heap prev < k)))

structure RunSt where
  s : St
  l0 : Option L0
  T : Nat
  /-- per thread: 0 no operation in progress, 1 insert, 2 iterator move, 3 contains -/
  kind : List Nat
  out : List String

def rAcc : Option Acc → String
  | none => "none"
  | some (.load n l r) => s!"L{n},{l}={rPtr r}"
  | some (.store n l v) => s!"S{n},{l}={rPtr v}"
  | some (.cas p l o n ok) => s!"C{p},{l},{rPtr o},{n}={if ok then 1 else 0}"
  | some (.alloc n h) => s!"A{n},{h}"

def parseAcc (body : String) : Option Acc :=
  match body.toList with
  | 'L' :: rest =>
    match (String.ofList rest).splitOn "=" with
    | [a, r] =>
      match natList a, optPtr r with
      | some [n, l], some r => some (.load n l r)
      | _, _ => none
    | _ => none
  | 'S' :: rest =>
    match (String.ofList rest).splitOn "=" with
    | [a, r] =>
      match natList a, optPtr r with
      | some [n, l], some r => some (.store n l r)
      | _, _ => none
    | _ => none
  | 'C' :: rest =>
    match (String.ofList rest).splitOn "=" with
    | [a, r] =>
      match ptrList a, optNat r with
      | some [some p, some l, o, some n], some ok => if ok ≤ 1 then some (.cas p l o n (ok == 1)) else none
      | _, _ => none
    | _ => none
  | 'A' :: rest =>
    match natList (String.ofList rest) with
    | some [n, h] => some (.alloc n h)
    | _ => none
  | _ => none

/-- does this step of the full model have a counterpart in the level-0 model? -/
def l0Relevant : PC → Bool
  | .search _ _ _ 0 _ _ => true
  | .alloc _ _ _ _ => true
  | .setNext _ _ 0 _ _ _ => true
  | .cas _ _ 0 _ _ _ => true
  | .adv _ _ 0 _ _ _ => true
  | _ => false

/-- an insert whose search has just come down to level 0 begins in the level-0 model -/
def l0Enter (r : RunSt) (i : Nat) (l : L0) : Except String L0 :=
  match (th r.s i).pc with
  | .search k _ x 0 _ _ =>
    if l0CallOk l (chain r.s 0) r.T i k x then .ok (Blue.SkipList.call l i k x) else .error "callok"
  | _ => .ok l

def l0Agrees (s : St) (l : L0) : Bool :=
  l.inserted == s.inserted &&
  Blue.SkipList.walk l.heap l.heap.length (Blue.SkipList.nextOf l.heap 0) == (chain s 0).map (mkey s.heap)

def setKind (r : RunSt) (i k : Nat) : RunSt := { r with kind := r.kind.set i k }

/-- one event of thread `i` -/
def runEv (r : RunSt) (i : Nat) (body : String) : Except String RunSt :=
  let s := r.s
  let idle : Bool := (th s i).pc = .idle && r.kind.getD i 0 == 0
  let begun (s' : St) (k : Nat) : Except String RunSt := .ok (setKind { r with s := s' } i k)
  match body.toList with
  | 'I' :: rest =>
    match natList (String.ofList rest) with
    | some [k, h] =>
      if !idle then .error "busy"
      else if !(0 < h ∧ h ≤ s.H) then .error "bad-op"
      else if !insertOk s k then .error "insertok"
      else
        let r1 := setKind { r with s := callInsert s i k h } i 1
        match r.l0 with
        | some l => (l0Enter r1 i l).map fun l' => { r1 with l0 := some l' }
        | none => .ok r1
    | _ => .error "bad-op"
  | 'Q' :: 's' :: rest =>
    match optNat (String.ofList rest) with
    | some k => if idle then begun (callSeek s i k) 2 else .error "busy"
    | none => .error "bad-op"
  | 'Q' :: 'c' :: rest =>
    match optNat (String.ofList rest) with
    | some k => if idle then begun (callContains s i k) 3 else .error "busy"
    | none => .error "bad-op"
  | ['Q', 'n'] => if idle then begun (callNext s i) 2 else .error "busy"
  | ['Q', 'p'] => if idle then begun (callPrev s i) 2 else .error "busy"
  | ['Q', 'f'] => if idle then begun (callFirst s i) 2 else .error "busy"
  | ['Q', 'l'] => if idle then begun (callLast s i) 2 else .error "busy"
  | ['E'] =>
    if (th s i).pc != .idle then .error "notidle"
    else
      match r.kind.getD i 0 with
      | 1 => .ok (setKind r i 0)
      | 2 => .ok (setKind { r with out := s!"{i}:{rPos s i}" :: r.out } i 0)
      | 3 => .ok (setKind { r with out := s!"{i}:{if (th s i).found then "T" else "F"}" :: r.out } i 0)
      | _ => .error "notbegun"
  | _ =>
    match parseAcc body with
    | none => .error "bad-op"
    | some acc =>
      if access s i != some acc then .error s!"disabled,want={rAcc (access s i)}"
      else
        let pc := (th s i).pc
        let s' := step s i
        if (th s' i).pc = .panicked then .error "panic"
        else
          let linked : Bool := match acc with
            | .cas _ _ _ _ true => true
            | _ => false
          if linked && !chainsOk s' then .error "inv"
          else
            let r1 := { r with s := s' }
            match r.l0 with
            | none => .ok r1
            | some l =>
              let l1 := if l0Relevant pc then Blue.SkipList.step l i else l
              -- the search has just come down to level 0: the insert begins in the level-0 model
              let entered : Bool := match pc, (th s' i).pc with
                | .search _ _ _ (_ + 1) _ _, .search _ _ _ 0 _ _ => true
                | _, _ => false
              match (if entered then l0Enter r1 i l1 else .ok l1) with
              | .error e => .error e
              | .ok l2 =>
                if linked && !l0Agrees s' l2 then .error "l0" else .ok { r1 with l0 := some l2 }

def splitEv (tok : String) : Option (Nat × String) :=
  match tok.splitOn ":" with
  | [a, b] => (optNat a).map fun i => (i, b)
  | _ => none

def runAll : RunSt → Nat → List String → Except String RunSt
  | r, _, [] => .ok r
  | r, n, tok :: rest =>
    match splitEv tok with
    | none => .error "bad-op"
    | some (i, body) =>
      if i ≥ r.T then .error "bad-op"
      else
        match runEv r i body with
        | .error "bad-op" => .error "bad-op"
        | .error e => .error s!"{e}@{n}:{tok}"
        | .ok r' => runAll r' (n + 1) rest

/-- runs longer than this are not replayed on the level-0 model (its thread table is a closure) -/
def l0Limit : Nat := 4000

def handleSkipRun : List String → String
  | h :: t :: evs =>
    match optNat h, optNat t with
    | some (H + 1), some T =>
      let track := evs.length ≤ l0Limit
      let r0 : RunSt := ⟨init (H + 1) T, if track then some Blue.SkipList.init else none, T, List.replicate T 0, []⟩
      match runAll r0 0 evs with
      | .error e => e
      | .ok r =>
        let l0 := match r.l0 with
          | some l => if l0Agrees r.s l then "1" else "0"
          | none => "skip"
        s!"ok r={joinOr "," r.out.reverse} lv={rLevels r.s} ins={r.s.inserted.length} ret={r.s.returned.length} chk={if chainsOk r.s then 1 else 0} l0={l0}"
    | _, _ => "bad-op"
  | _ => "bad-op"
end skip

/-! ## node lifetime -/
section life
open Blue.SkipLife

def parseLife (tok : String) : Option Op :=
  match tok.toList with
  | ['i'] => some .insert
  | ['t'] => some .iter
  | ['L'] => some .dropList
  | 'c' :: rest => (optNat (String.ofList rest)).map .cloneIter
  | 'D' :: rest => (optNat (String.ofList rest)).map .dropIter
  | 'u' :: rest => (optNat (String.ofList rest)).map .use
  | _ => none

def lifeRun : St → List String → List String → Option (List String)
  | _, [], acc => some acc.reverse
  | s, t :: ts, acc =>
    match (parseLife t).bind (step s) with
    | none => none
    | some s' => lifeRun s' ts (toString (live s') :: acc)

def handleLife (ops : List String) : String :=
  match lifeRun {} ops [] with
  | none => "bad-op"
  | some out => joinOr " " out
end life

/-! ## prepend-only list -/
section list
open Blue.ListFree

abbrev LS := Blue.ListFree.St Nat

def rData (ds : List Nat) : String := joinOr "." (ds.map toString)

def runPrepend : Nat → LS → LS
  | 0, s => s
  | f + 1, s => if isIdle s 0 then s else runPrepend f (step s 0)

def listSeq : LS → List String → List String → Option (List String)
  | _, [], acc => some acc.reverse
  | s, t :: ts, acc =>
    match t.toList with
    | 'p' :: rest =>
      match optNat (String.ofList rest) with
      | some d =>
        let s' := runPrepend 8 (call s 0 d)
        if isIdle s' 0 then listSeq s' ts ("-" :: acc) else none
      | none => none
    | ['a'] => listSeq s ts (("a=" ++ rData (contents s)) :: acc)
    | _ => none

def handleListSeq (ops : List String) : String :=
  match listSeq init ops [] with
  | none => "bad-op"
  | some out => joinOr " " out

structure LRun where
  s : LS
  T : Nat
  /-- per thread: 0 nothing in progress, 1 prepend, 2 iteration before its load of the head,
      3 iteration under way -/
  kind : List Nat
  /-- per thread: the iterator's pointer and what it has yielded (newest first) -/
  cur : List (Option Nat × List Nat)
  out : List String

def parseLAcc (body : String) : Option Acc :=
  match body.toList with
  | 'A' :: rest => (optNat (String.ofList rest)).map .alloc
  | 'H' :: '=' :: rest => (optPtr (String.ofList rest)).map .loadHead
  | 'S' :: rest =>
    match (String.ofList rest).splitOn "=" with
    | [a, v] =>
      match optNat a, optPtr v with
      | some n, some v => some (.store n v)
      | _, _ => none
    | _ => none
  | 'C' :: rest =>
    match (String.ofList rest).splitOn "=" with
    | [a, ok] =>
      match ptrList a, optNat ok with
      | some [o, some n], some ok => if ok ≤ 1 then some (.cas o n (ok == 1)) else none
      | _, _ => none
    | _ => none
  | _ => none

def rLAcc : Option Acc → String
  | none => "none"
  | some (.alloc n) => s!"A{n}"
  | some (.loadHead r) => s!"H={rPtr r}"
  | some (.store n v) => s!"S{n}={rPtr v}"
  | some (.cas o n ok) => s!"C{rPtr o},{n}={if ok then 1 else 0}"

/-- the invariant's conclusion, evaluated: the chain from the head is the pushed data -/
def listOk (s : LS) : Bool := contents s == s.pushed

def lrunEv (r : LRun) (i : Nat) (body : String) : Except String LRun :=
  let k := r.kind.getD i 0
  let s := r.s
  match body.toList with
  | 'P' :: rest =>
    match optNat (String.ofList rest) with
    | some d =>
      if k != 0 || !isIdle s i then .error "busy"
      else .ok { r with s := call s i d, kind := r.kind.set i 1 }
    | none => .error "bad-op"
  | ['Q', 'i'] =>
    if k != 0 then .error "busy" else .ok { r with kind := r.kind.set i 2, cur := r.cur.set i (none, []) }
  | ['E'] =>
    match k with
    | 1 => if isIdle s i then .ok { r with kind := r.kind.set i 0 } else .error "notidle"
    | 3 =>
      let (p, ys) := r.cur.getD i (none, [])
      if p.isSome then .error "notidle"
      else .ok { r with kind := r.kind.set i 0, out := s!"{i}:{rData ys.reverse}" :: r.out }
    | _ => .error "notbegun"
  | 'L' :: rest =>
    -- `next()` of an iteration: the data of the node, then the load of its `next`
    match (String.ofList rest).splitOn "=" with
    | [a, v] =>
      match optNat a, optPtr v with
      | some n, some v =>
        let (p, ys) := r.cur.getD i (none, [])
        if k != 3 || p != some n then .error s!"disabled,want=L{rPtr p}"
        else
          match iterNext s.heap p with
          | some (d, nx) =>
            if nx != v then .error s!"disabled,want=L{n}={rPtr nx}"
            else .ok { r with cur := r.cur.set i (nx, d :: ys) }
          | none => .error "disabled,want=none"
      | _, _ => .error "bad-op"
    | _ => .error "bad-op"
  | _ =>
    match parseLAcc body with
    | none => .error "bad-op"
    | some acc =>
      if k == 2 then
        -- `iter()`: the load of the head
        if acc != .loadHead s.head then .error s!"disabled,want=H={rPtr s.head}"
        else .ok { r with kind := r.kind.set i 3, cur := r.cur.set i (s.head, []) }
      else if k != 1 || access s i != some acc then .error s!"disabled,want={rLAcc (access s i)}"
      else
        let s' := step s i
        let linked : Bool := match acc with
          | .cas _ _ true => true
          | _ => false
        if linked && !listOk s' then .error "inv" else .ok { r with s := s' }

def lrunAll : LRun → Nat → List String → Except String LRun
  | r, _, [] => .ok r
  | r, n, tok :: rest =>
    match splitEv tok with
    | none => .error "bad-op"
    | some (i, body) =>
      if i ≥ r.T then .error "bad-op"
      else
        match lrunEv r i body with
        | .error "bad-op" => .error "bad-op"
        | .error e => .error s!"{e}@{n}:{tok}"
        | .ok r' => lrunAll r' (n + 1) rest

def handleListRun : List String → String
  | t :: evs =>
    match optNat t with
    | some T =>
      match lrunAll ⟨init, T, List.replicate T 0, List.replicate T (none, []), []⟩ 0 evs with
      | .error e => e
      | .ok r =>
        s!"ok r={joinOr "," r.out.reverse} chain={rData (contents r.s)} pushed={r.s.pushed.length} chk={if listOk r.s then 1 else 0}"
    | none => "bad-op"
  | _ => "bad-op"
end list

def handle : List String → String
  | "skip" :: "seq" :: rest => handleSkipSeq rest
  | "skip" :: "run" :: rest => handleSkipRun rest
  | "skip" :: "life" :: rest => handleLife rest
  | "list" :: "seq" :: rest => handleListSeq rest
  | "list" :: "run" :: rest => handleListRun rest
  | _ => "bad-op"

end Blue.Driver.C17
