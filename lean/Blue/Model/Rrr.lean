import Blue.Model.BitArr
import Blue.Model.RrrWord
/-! `scrunch::bit_vector::rrr::BitVector`: the RRR bit vector on its ENCODED representation.

    `construct` follows `construct_from_words` (WORD = 8, SELECT = 64): it produces the six sealed
    bit arrays `p`, `c`, `o`, `r`, `s0`, `s1` of the `BitVectorStub`; the queries (`access`, `rank`,
    `access_rank`, `select`, `select0`, and the trait default `rank0`) follow `access_rank_at`,
    `select_helper` and the trait impl step by step, reading those arrays with `BitArray::load`
    (`Blue.BitArr.load`) only.

    What is abstracted / not modelled:
    * `usize` / `u64` are `Nat`: no overflow.  (`calc_p_r_width` returns `None` when
      `next_power_of_two` wraps to 0; here it never does.  `.try_into().ok()?` from `u64` to `usize`
      never fails on a 64-bit target.  `push_word` asserts `width < 64` and that the value fits; the
      proofs show every stored value fits its field (`p_vals_fit`, `r_vals_fit`, `sample_vals_fit`,
      `WordSpec.encode_fits`); `width < 64` holds as long as `bits < 2^62` (not stated as a theorem).
      A parsed vector with `word = 0` or `select = 0` would divide by zero in the code; here `x / 0 = 0`;
      built vectors have `word = 8`, `select = 64`.)
    * `usize` subtraction that would panic on underflow with overflow checks on is `Nat` subtraction
      here: `x - rank` in `select_helper` and `idx*word*63 - r[idx]` in `select0`'s `load_rank`.
      `Blue.Proofs.Rrr` proves that neither underflows on a built vector
      (`select_rank_lt`, `select0_no_underflow`; inside the loop `rank + add_rank(c) < x` holds whenever
      it continues).
    * the builders: each `BitArrayBuilder` only ever receives `push_word`s, and the six builders are
      independent, so the loop of `construct_from_words` is modelled as collecting, per builder, the list of
      values it pushes (`Build`), and the arrays are those pushes concatenated and sealed (`pack`,
      `packF` = the `push_word` folds, see `Blue.BitArr.foldl_pushWord`).
    * the `while` / `loop` loops take fuel; running out of fuel is `none` in the queries (the proofs show
      the fuel given is always enough, so it is never the reason for a `none`).
    * serialisation of the stub (`prototk`) is not modelled: a `Vec` is the parsed `BitVector`. -/
namespace Blue.Rrr
open Blue.BitArr

/-- the parsed `BitVector` (= the fields of `BitVectorStub`); the six arrays are lists of bits, a whole
    number of bytes each -/
structure Vec where
  word : Nat
  select : Nat
  bits : Nat
  p : List Bool
  c : List Bool
  o : List Bool
  r : List Bool
  s0 : List Bool
  s1 : List Bool

/-! ### `calc_p_r_width` -/

/-- `usize::next_power_of_two` (doubling from `p`) -/
def npotAux : Nat → Nat → Nat → Nat
  | 0, p, _ => p
  | f + 1, p, n => if n ≤ p then p else npotAux f (2 * p) n

def nextPowerOfTwo (n : Nat) : Nat := npotAux n 1 n

/-- `usize::ilog2` (of a positive number) -/
def ilog2Aux : Nat → Nat → Nat
  | 0, _ => 0
  | f + 1, n => if n < 2 then 0 else ilog2Aux f (n / 2) + 1

def ilog2 (n : Nat) : Nat := ilog2Aux n n

/-- `BitVector::calc_p_r_width` -/
def calcWidth (bits : Nat) : Option Nat :=
  let n := nextPowerOfTwo (bits + 1)
  if n > 0 then some (max (ilog2 n + 1) 8) else none

/-! ### `construct_from_words` -/

/-- the loop state of `construct_from_words`: per builder the values pushed so far (in push order), and
    the counters -/
structure Build where
  idx : Nat            -- `enumerate()`
  p : List Nat         -- `build_p`: `width`-bit fields
  r : List Nat         -- `build_r`: `width`-bit fields
  c : List Nat         -- `build_c`: 6-bit fields
  o : List (Nat × Nat) -- `build_o`: (value, width) fields
  s0 : List Nat        -- `build_s0`: `width`-bit fields
  s1 : List Nat        -- `build_s1`: `width`-bit fields
  oLen : Nat
  rank : Nat
  rank0 : Nat
  ns0 : Nat            -- `next_select0`
  ns1 : Nat            -- `next_select1`

def buildInit : Build := ⟨0, [], [], [], [], [], [], 0, 0, 0, 0, 0⟩

/-- `while rank >= next_select { build_s.push_word(idx / WORD, width); next_select += SELECT; }` -/
def sampleLoop (rank blk : Nat) : Nat → List Nat → Nat → List Nat × Nat
  | 0, s, next => (s, next)
  | f + 1, s, next => if rank ≥ next then sampleLoop rank blk f (s ++ [blk]) (next + 64) else (s, next)

/-- one iteration of `for (idx, word) in words.into_iter().enumerate()` -/
def buildStep (st : Build) (word : Nat) : Build :=
  let blockStart : Bool := st.idx % 8 == 0
  let p := if blockStart then st.p ++ [st.oLen] else st.p
  let r := if blockStart then st.r ++ [st.rank] else st.r
  let oc := encode word
  let c := oc.2
  let lc := lTab.getD c 0      -- `L[c]` (the code asserts `c <= 63`)
  let o := if lc > 0 then st.o ++ [(oc.1, lc)] else st.o
  let oLen := if lc > 0 then st.oLen + lc else st.oLen
  let rank := st.rank + c
  let rank0 := st.rank0 + (63 - c)
  let s0 := sampleLoop rank0 (st.idx / 8) (rank0 + 1) st.s0 st.ns0
  let s1 := sampleLoop rank (st.idx / 8) (rank + 1) st.s1 st.ns1
  { idx := st.idx + 1, p := p, r := r, c := st.c ++ [c], o := o, s0 := s0.1, s1 := s1.1,
    oLen := oLen, rank := rank, rank0 := rank0, ns0 := s0.2, ns1 := s1.2 }

/-- `for v in vals { b.push_word(v, w) }` on an empty builder -/
def pack (vals : List Nat) (w : Nat) : List Bool := vals.flatMap (fun v => toBits v w)

/-- `for (v, w) in fs { b.push_word(v, w) }` on an empty builder -/
def packF (fs : List (Nat × Nat)) : List Bool := fs.flatMap (fun f => toBits f.1 f.2)

/-- `BitVector::construct_from_words(bits, words)`; `none` = `Err(IntoUsize)` -/
def constructFromWords (bits : Nat) (words : List Nat) : Option Vec :=
  match calcWidth bits with
  | none => none
  | some width =>
    let st := words.foldl buildStep buildInit
    some { word := 8, select := 64, bits := bits,
           p := sealBits (pack st.p width), c := sealBits (pack st.c 6), o := sealBits (packF st.o),
           r := sealBits (pack st.r width), s0 := sealBits (pack st.s0 width), s1 := sealBits (pack st.s1 width) }

def emptyVec : Vec := ⟨8, 64, 0, [], [], [], [], [], []⟩

/-- `BitVector::construct(bits)` (the error case cannot happen: `constructFromWords_isSome`) -/
def construct (bits : List Bool) : Vec :=
  (constructFromWords bits.length (wordsOf bits)).getD emptyVec

/-! ### queries -/

def len (v : Vec) : Nat := v.bits

/-- `load_c_o_bits` -/
def loadCO (v : Vec) (cOff : Nat) : Option (Nat × Nat) :=
  match load v.c cOff 6 with
  | none => none
  | some c =>
    match lGet c with
    | none => none
    | some ob => some (c, ob)

/-- `load_o` -/
def loadO (v : Vec) (c oOff oBits : Nat) : Option Nat :=
  match load v.o oOff oBits with
  | none => none
  | some o => decode o c

/-- `while index >= 63 { … }` of `access` / `rank` / `access_rank_at` on `(index, c_offset, o_offset, rank)` -/
def walk (v : Vec) : Nat → Nat → Nat → Nat → Nat → Option (Nat × Nat × Nat × Nat)
  | 0, index, cOff, oOff, rank => if index ≥ 63 then none else some (index, cOff, oOff, rank)
  | f + 1, index, cOff, oOff, rank =>
    if index ≥ 63 then
      match loadCO v cOff with
      | none => none
      | some co => walk v f (index - 63) (cOff + 6) (oOff + co.2) (rank + co.1)
    else some (index, cOff, oOff, rank)

/-- the common part of `access`, `rank` and `access_rank_at` after the range check: jump through `p`
    (and `r` when `withRank`; `access` does not read `r`), walk to the word, decode it.  Returns
    (index within the word, the word, the rank before the word). -/
def locate (v : Vec) (withRank : Bool) (index : Nat) : Option (Nat × Nat × Nat) :=
  match calcWidth v.bits with
  | none => none
  | some width =>
    let stride := v.word * 63
    let pOff := index / stride
    match load v.p (pOff * width) width with
    | none => none
    | some oOff =>
      let cOff := pOff * 6 * v.word
      match (if withRank then load v.r (pOff * width) width else some 0) with
      | none => none
      | some rank =>
        match walk v (index / 63 + 1) (index - pOff * stride) cOff oOff rank with
        | none => none
        | some (i, cOff, oOff, rank) =>
          match loadCO v cOff with
          | none => none
          | some co =>
            match loadO v co.1 oOff co.2 with
            | none => none
            | some w => some (i, w, rank)

/-- `access_rank_at` = `access_rank` -/
def accessRank (v : Vec) (x : Nat) : Option (Bool × Nat) :=
  if x ≥ len v then none
  else
    match locate v true x with
    | none => none
    | some (i, w, rank) => some (bitAt w i, rank + lowPop w i)

/-- `access` -/
def access (v : Vec) (x : Nat) : Option Bool :=
  if x ≥ len v then none
  else
    match locate v false x with
    | none => none
    | some (i, w, _) => some (bitAt w i)

/-- `rank` -/
def rank (v : Vec) (x : Nat) : Option Nat :=
  if x > len v then none
  else if x = len v ∧ x = 0 then some 0
  else
    let addOne : Bool := x == len v
    let index := if addOne then x - 1 else x
    match locate v true index with
    | none => none
    | some (i, w, rank) => some (rank + lowPop w i + (if addOne && bitAt w i then 1 else 0))

/-- the trait's default `rank0` -/
def rank0 (v : Vec) (x : Nat) : Option Nat :=
  match rank v x with
  | none => none
  | some r => some (x - r)

/-- the `loop` of `select_helper` on `(c_offset, o_offset, rank, idx)` -/
def selLoop (v : Vec) (x : Nat) (addRank : Nat → Nat) (wordSelect : Nat → Nat → Option Nat) :
    Nat → Nat → Nat → Nat → Nat → Option Nat
  | 0, _, _, _, _ => none
  | f + 1, cOff, oOff, rank, idx =>
    match loadCO v cOff with
    | none => none
    | some co =>
      if rank + addRank co.1 ≥ x then
        match loadO v co.1 oOff co.2 with
        | none => none
        | some w =>
          match wordSelect w (x - rank) with
          | none => none
          | some k => if idx + k > len v then none else some (idx + k)
      else selLoop v x addRank wordSelect f (cOff + 6) (oOff + co.2) (rank + addRank co.1) (idx + 63)

/-- `select_helper` (the loop ends at the latest when `c` is exhausted, so `|c| + 2` iterations are enough) -/
def selectHelper (v : Vec) (x : Nat) (structure_ : List Bool) (loadRank : Nat → Nat) (addRank : Nat → Nat)
    (wordSelect : Nat → Nat → Option Nat) : Option Nat :=
  if x = 0 then some 0
  else if x > len v then none
  else
    match calcWidth v.bits with
    | none => none
    | some width =>
      match load structure_ ((x / v.select) * width) width with
      | none => none
      | some augment =>
        match load v.p (augment * width) width with
        | none => none
        | some oOff =>
          selLoop v x addRank wordSelect (v.c.length + 2) (augment * 6 * v.word) oOff (loadRank augment)
            (augment * v.word * 63)

/-- `select` -/
def select (v : Vec) (x : Nat) : Option Nat :=
  match calcWidth v.bits with
  | none => none
  | some width =>
    selectHelper v x v.s1 (fun idx => (load v.r (idx * width) width).getD (2 ^ 64 - 1)) (fun c => c) select1

/-- `BitVector::select0` (named `vselect0` because `Blue.Rrr.select0` is the word-level `u63::select0`);
    `idx * word * 63 - r[idx]` is a `u64` subtraction in the code -/
def vselect0 (v : Vec) (x : Nat) : Option Nat :=
  match calcWidth v.bits with
  | none => none
  | some width =>
    selectHelper v x v.s0 (fun idx => idx * v.word * 63 - (load v.r (idx * width) width).getD 0)
      (fun c => 63 - c) Blue.Rrr.select0

end Blue.Rrr
