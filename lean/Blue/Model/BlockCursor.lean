import Blue.Model.Cursor
/-! `BlockCursor` (sst/src/block.rs) over a decoded block: the entries in order and, for each restart
    point, the index of the entry it points at.  (Offsets ↔ indices is the decode layer.) -/
namespace Blue.BlockCursor
open Blue.Cursor

structure DBlock (E : Type) where
  entries : List E
  restarts : List Nat

inductive Pos where
  | first
  | last
  | at (ridx i : Nat)
deriving DecidableEq, Repr

structure BCur (E : Type) where
  blk : DBlock E
  pos : Pos

variable {E : Type}

def kv (c : BCur E) : Option E :=
  match c.pos with
  | .at _ i => c.blk.entries[i]?
  | _ => none

/-- `seek_restart(ridx)` -/
def seekRestart (c : BCur E) (ridx : Nat) : BCur E :=
  match c.blk.restarts[ridx]? with
  | some i => if i < c.blk.entries.length then { c with pos := .at ridx i } else { c with pos := .last }
  | none => c

def next (c : BCur E) : BCur E :=
  match c.pos with
  | .first => seekRestart c 0
  | .last => c
  | .at r i =>
    if i + 1 ≥ c.blk.entries.length then { c with pos := .last }
    else
      match c.blk.restarts[r + 1]? with
      | some j => if j ≤ i + 1 then seekRestart c (r + 1) else { c with pos := .at r (i + 1) }
      | none => { c with pos := .at r (i + 1) }

/-- `while self.next_offset() < target_next_offset { self.next() }` (in entry indices) -/
def scanTo (target : Nat) : Nat → BCur E → BCur E
  | 0, c => c
  | f+1, c =>
    match c.pos with
    | .at _ i => if i + 1 < target then scanTo target f (next c) else c
    | _ => c

def prev (c : BCur E) : BCur E :=
  let n := c.blk.entries.length
  let num := c.blk.restarts.length
  match c.pos with
  | .first => c
  | _ =>
    let target := match c.pos with | .at _ i => i | _ => n
    if target = 0 then { c with pos := .first }
    else
      let curR := match c.pos with | .at r _ => r | _ => num
      let r' := if curR ≥ num ∨ target ≤ (c.blk.restarts[curR]?).getD 0 then curR - 1 else curR
      scanTo target n (seekRestart c r')

/-- the binary search over restart points: `pred` is "key at or after the target" -/
def searchRestarts (c : BCur E) (pred : E → Bool) : Nat → Nat → Nat → Nat
  | 0, left, _ => left
  | f+1, left, right =>
    if left < right then
      let mid := left + (right - left + 1) / 2
      match (c.blk.restarts[mid]?).bind (fun i => c.blk.entries[i]?) with
      | some e => if pred e then searchRestarts c pred f left (mid - 1) else searchRestarts c pred f mid right
      | none => left
    else left

/-- `while key < target { next }` -/
def scanWhile (pred : E → Bool) : Nat → BCur E → BCur E
  | 0, c => c
  | f+1, c =>
    match kv c with
    | some e => if pred e then c else scanWhile pred f (next c)
    | none => c

def seek (pred : E → Bool) (c : BCur E) : BCur E :=
  let num := c.blk.restarts.length
  let left := searchRestarts c pred num 0 (num - 1)
  scanWhile pred (c.blk.entries.length + 1) (seekRestart c left)

def seekToFirst (c : BCur E) : BCur E := { c with pos := .first }
def seekToLast (c : BCur E) : BCur E := { c with pos := .last }

end Blue.BlockCursor
