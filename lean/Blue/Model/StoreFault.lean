import Blue.Model.StoreCrash
/-! `StoreCrash` continued past the first crash: what is on disk after the process died (`image`),
    what `KeyValueStore::open` does to such a directory (`recoverOps`: `recover` / `recover_one` per
    log in ascending order, `cleanup_orphans`, `start_new_log`), incarnations of the store one after
    the other (`Epoch`, `runEpochs`), and system calls that FAIL.

    Faults, as the code treats them (lsmtk/src/kvs/mod.rs, lsmtk/src/tree/mod.rs, sst/src/log.rs,
    mani/src/lib.rs): every file-system call of `write`, `_memtable_thread`, `_ingest`,
    `compaction_finish`, `apply_manifest_*`, `recover_one` is followed by `?` — the operation block
    stops at the failed call and the client gets the error; nothing is rolled back.  The only
    exceptions are the renames into trash/ of `explicit_unref` and `cleanup_orphans`
    (`let _ = rename(..)`): their failure is absorbed and the block goes on.  `KeyValueStore::poison`
    is a no-op (`// TODO(rescrv): Actually poison here`): the store does not refuse later
    operations, the CLIENT of this model does — after an error it drops the store and opens it
    again.  Dropping the store flushes the log's `BufWriter`: the bytes of a failed log append are
    written again, without a sync and without an acknowledgement (`retry`). -/
namespace Blue.StoreFault
open Blue.StoreCrash

/-! ### crash images -/

/-- a file after the process died: model (b) keeps what was synced, model (a) everything; whatever
    survived is on disk from then on -/
def settle (b : Bool) (f : File) : File := if b then ⟨f.durable, f.durable⟩ else ⟨f.data, f.data⟩

/-- the directory a new process finds: persistence model (a) `b = false`, (b) `b = true` -/
def image (b : Bool) (fs : Fs) : Fs :=
  { tmp := fs.tmp.map (fun e => (e.1, settle b e.2))
    sst := fs.sst.map (fun e => (e.1, settle b e.2))
    maniDurable := if b then fs.maniDurable else fs.maniDurable ++ fs.maniPending
    maniPending := []
    logs := fs.logs.map (fun l => (l.1, settle b l.2)) }

/-! ### `KeyValueStore::open` on any directory -/

/-- `recover_one` on log `n` holding the batches `d`: an empty log only goes to the trash; otherwise
    the log is turned into an SST under tmp/ and synced, linked into sst/ unless a file of that
    content is already there, added to the manifest unless the manifest already lists it, the
    temporary is removed and the log goes to the trash -/
def recOne (fs : Fs) (n : Nat) (d : List Nat) : List Op :=
  if d = [] then [.logTrash n]
  else [.tmpCreate d d, .tmpSync d]
    ++ (if (find fs.sst d).isSome then [] else [.link d])
    ++ (if d ∈ live (fs.maniDurable ++ fs.maniPending) then [] else [.maniAppend ⟨[d], []⟩, .maniSync])
    ++ [.tmpUnlink d, .logTrash n]

/-- `recover`: the logs in the order of the directory listing (ascending numbers), each on the
    state the previous one left -/
def recLogs : List (Nat × File) → Fs → List Op
  | [], _ => []
  | l :: ls, fs => recOne fs l.1 l.2.data ++ recLogs ls (run fs (recOne fs l.1 l.2.data))

/-- names some manifest transaction removed -/
def removed (txs : List Tx) : List Name := txs.flatMap (·.rms)

/-- `cleanup_orphans`: files a transaction removed, that the manifest does not list now, and that
    are still in sst/ -/
def orphans (fs : Fs) : List Name :=
  (removed (fs.maniDurable ++ fs.maniPending)).eraseDups.filter
    (fun x => decide (x ∉ live (fs.maniDurable ++ fs.maniPending)) && (find fs.sst x).isSome)

/-- the number of the log `open` starts: above every log there is -/
def nextLog (fs : Fs) : Nat := (fs.logs.map (·.1)).foldl max 0 + 1

def recoverOps (fs : Fs) : List Op :=
  recLogs fs.logs fs
    ++ (orphans (run fs (recLogs fs.logs fs))).map Op.sstTrash
    ++ [.logCreate (nextLog fs)]

/-- the client state of the incarnation that `open` returns -/
def kvAfter (fs : Fs) : Kv :=
  let L := live ((run fs (recoverOps fs)).maniDurable)
  ⟨nextLog fs, [], L.flatten.length, L⟩

/-! ### incarnations -/

/-- one incarnation: `open` on what is there, the client's history, and the point in the
    incarnation's system-call sequence where it ends — by a crash under persistence model `b`, or
    (the same directory) by a failed call there, after which the client drops the store -/
structure Epoch where
  h : List Client
  n : Nat
  b : Bool

def epochOps (fs : Fs) (e : Epoch) : List Op :=
  (recoverOps fs ++ opsOf e.h (kvAfter fs)).take e.n

def runEpochs : Fs → List Epoch → Fs
  | fs, [] => fs
  | fs, e :: es => runEpochs (image e.b (run fs (epochOps fs e))) es

/-- acknowledgements the client received over all incarnations -/
def ackedEpochs : Fs → List Epoch → Nat
  | _, [] => 0
  | fs, e :: es => acked (epochOps fs e) + ackedEpochs (image e.b (run fs (epochOps fs e))) es

/-- log appends over all incarnations -/
def appendedEpochs : Fs → List Epoch → Nat
  | _, [] => 0
  | fs, e :: es => appended (epochOps fs e) + appendedEpochs (image e.b (run fs (epochOps fs e))) es

/-! ### failing system calls -/

/-- the operations that are system calls (an acknowledgement is the return of `write`) -/
def isCall : Op → Bool
  | .ack _ => false
  | _ => true

/-- failures the code absorbs: `let _ = rename(sst_path, trash_path)` -/
def absorbed : Op → Bool
  | .sstTrash _ => true
  | _ => false

/-- an injected failure (`strace -e inject`, the call is not executed) has no effect of its own;
    a failed log append takes effect nevertheless when the client drops the store: the log's
    `BufWriter` still holds the bytes and writes them again — without a sync, without an
    acknowledgement -/
def retried : Op → Bool
  | .logAppend _ _ => true
  | _ => false

/-- the system calls that took effect when call number `i` of `ops` fails: a surfaced failure ends
    the block (and the incarnation: the client drops the store); an absorbed one is skipped.
    `effect`: the failed call took effect nevertheless (the retried log append; a sync, link,
    rename or unlink that returned EIO — POSIX promises nothing about those; a torn partial effect
    of a write is C12 / C13). -/
def faultOps (ops : List Op) (i : Nat) (effect : Bool) : List Op :=
  match ops[i]? with
  | none => ops
  | some op =>
    if absorbed op then ops.take i ++ (if effect then [op] else []) ++ ops.drop (i + 1)
    else ops.take i ++ (if effect then [op] else [])

/-- the block of client `c` on the directory `fs`: a reopen does what `open` does to the directory
    it finds — on the directory a fault-free history leaves that is `block kv .reopen`; after an
    absorbed failure it also moves the left-over files to the trash (`cleanup_orphans`) -/
def blockF (fs : Fs) (kv : Kv) : Client → List Op
  | .reopen => recoverOps fs
  | c => block kv c

def afterF (fs : Fs) (kv : Kv) : Client → Kv
  | .reopen => kvAfter fs
  | c => after kv c

/-- the history with call number `skip` failing where that is a call whose failure the code
    absorbs: the call has no effect, the run goes on, on the directory as it is then -/
def opsOfA : List Client → Fs → Kv → Option Nat → List Op
  | [], _, _, _ => []
  | c :: cs, fs, kv, none =>
    blockF fs kv c ++ opsOfA cs (run fs (blockF fs kv c)) (afterF fs kv c) none
  | c :: cs, fs, kv, some i =>
    if i < (blockF fs kv c).length then
      let b' := if ((blockF fs kv c)[i]?.map absorbed).getD false then (blockF fs kv c).eraseIdx i
        else blockF fs kv c
      b' ++ opsOfA cs (run fs b') (afterF fs kv c) none
    else blockF fs kv c
      ++ opsOfA cs (run fs (blockF fs kv c)) (afterF fs kv c) (some (i - (blockF fs kv c).length))

/-- acknowledgements the client received in a run with a fault at call `i` -/
def faultAcked (ops : List Op) (i : Nat) : Nat :=
  match ops[i]? with
  | none => acked ops
  | some op => if absorbed op then acked ops else acked (ops.take i)

/-- is the failure reported to the client -/
def surfaced (ops : List Op) (i : Nat) : Bool :=
  match ops[i]? with
  | none => false
  | some op => !absorbed op

/-- the system calls of a compaction of the files `ins` into the files `outs`, whatever the outputs
    hold (`compaction_finish`: write and sync every output, link them, unlink the scratch copies,
    one manifest transaction, inputs to the trash) — a garbage-collecting compaction into the last
    level has outputs that hold only a part of the inputs' entries -/
def compactOps (ins outs : List Name) : List Op :=
  (outs.flatMap (fun o => [Op.tmpCreate o o, Op.tmpSync o]) ++ outs.map Op.link ++ outs.map Op.tmpUnlink)
    ++ [Op.maniAppend ⟨outs, ins⟩, Op.maniSync]
    ++ ins.map Op.sstTrash

/-- number of batches a reopen finds (`none`: the reopen fails) -/
def recCount (r : Option (List Nat)) : Option Nat := r.map List.length

end Blue.StoreFault
