import Blue.Model.Bounds
import Blue.Model.Concat
/-! The three cursor operations **as the code has them today** (before the repairs of D-2, D-18,
    D-19), next to the repaired ones in `Bounds.lean` / `Concat.lean`. -/
namespace Blue.Cursor

namespace Bounds
variable {E : Type} (cfg : BoundsCfg E)

/-- `BoundsCursor::prev` as written: one step back, start bound re-checked, end bound not -/
def prevOld (b : Bounds E) : Bounds E :=
  let b1 : Bounds E := if b.st ≠ .beforeStart then ⟨b.c.prev, .positioned⟩ else b
  checkStart cfg b1

end Bounds

namespace Concat
variable {E : Type}

def activeKv (m : Concat E) : Option E := m.kv

/-- `ConcatenatingCursor::next` as written: a child is left when `value()` is `None`, which is
    also the case on a tombstone -/
def nextLoopOld (tomb : E → Bool) : Nat → Concat E → Concat E
  | 0, m => m
  | f+1, m =>
    let m1 : Concat E := ⟨modifyAt m.cs m.position Ref.next, m.position⟩
    let valueIsNone := match m1.kv with | some e => tomb e | none => true
    if valueIsNone && m1.position + 1 < m1.cs.length then
      let m2 := m1.reposition (m1.position + 1)
      nextLoopOld tomb f ⟨modifyAt m2.cs m2.position Ref.first, m2.position⟩
    else m1

def nextOld (tomb : E → Bool) (m : Concat E) : Concat E := nextLoopOld tomb (m.cs.length + 1) m

/-- the probe of `seek` as written: `seek_to_last(); prev()` on `mid`, walking down over empty
    children, returning the child index reached and its last entry -/
def probeOld (cs : List (Ref E)) (left : Nat) : Nat → Nat × Option E
  | mid =>
    match cs[mid]? with
    | none => (mid, none)
    | some c =>
      match c.xs.getLast? with
      | some e => (mid, some e)
      | none => if left < mid then probeOld cs left (mid - 1) else (mid, none)
termination_by mid => mid
decreasing_by omega

/-- `ConcatenatingCursor::seek`'s loop as written: `if mid == left { break }` before comparing -/
def searchLoopOld (cs : List (Ref E)) (pred : E → Bool) : Nat → Nat → Nat → Nat
  | 0, left, _ => left
  | f+1, left, right =>
    if left < right then
      let r := probeOld cs left ((left + right) / 2)
      if r.1 = left then left
      else match r.2 with
        | some e => if pred e then searchLoopOld cs pred f left r.1 else searchLoopOld cs pred f (r.1 + 1) right
        | none => left
    else left

def seekOld (pred : E → Bool) (m : Concat E) : Concat E :=
  let target := searchLoopOld m.cs pred (m.cs.length + 1) 0 (m.cs.length - 1)
  let m := m.reposition target
  ⟨modifyAt m.cs m.position (Ref.seek pred), m.position⟩

end Concat
end Blue.Cursor
