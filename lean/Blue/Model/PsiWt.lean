import Blue.Model.BitVec
import Blue.Model.Sampled
import Blue.Model.WaveletRef
import Blue.Model.Csa
/-! `scrunch::psi::wavelet_tree::WaveletTreePsi`: ψ stored as a table of *rows* (maximal runs of
    equal 2-symbol context over the ψ values `0..n`, each with a wavelet tree over the first symbols
    of the ranks whose ψ falls into the row) plus the two arrays `y_key` / `y_value` that send a
    suffix-array rank to its *cell* (symbol × row) and the cell to its row.

    Conventions.  `psi : List Nat` is ψ (`psi[i]` = rank of the suffix one symbol shorter than the
    suffix of rank `i`), `n = psi.length`; `syms : List Nat` is `Sigma::sa_index_to_sigma` as a list
    (`syms[i]` = dense first symbol of rank `i`, `None` for `i ≥ n`), which is also what
    `SaToSigma::build` expands `Sigma::bucket_limits` into.  `K = max syms + 1` is `Sigma::K()`.

    What is abstracted:
    * every row's `WaveletTree` is its list of symbols with the trait's reference semantics
      (`Blue.WaveletRef.rankQ / selectQ`).  The code asks a row's tree only about the symbol of a
      cell of that row (`lookup`: the symbol of `idx` in the row of `idx`'s cell; `lower_bound` /
      `upper_bound`: `column` = the symbol of the chosen cell, on the chosen cell's row), and a cell
      `(σ, row)` exists only when `σ` occurs in the row, so the real tree's "symbol not in the code
      book → `None`" never comes into play (`Blue.PsiWt.lookup_symbol_occurs`,
      `Blue.PsiWt.bound_symbol_occurs`);
    * `y_key` is the decoded bit array `presentBits sum ykeys` with the reference `rank` / `select`
      (the code stores it as a `sparse::BitVector` with branch 128; `from_indices` succeeds and
      answers like the plain array when the positions are strictly increasing and below `sum`,
      `Blue.SparseUses.sparse_presentBits`; `construct` produces such positions,
      `Blue.PsiWt.construct_ykeys`);
    * `Sigma` is the list `syms` (its `bucket_limits` consistency errors are the single test
      `syms.length = psi.length`); `WT::construct` of a row's tree does not fail; the protobuf
      framing (`construct` is construct-then-`unpack`); `usize` / `u32` width.
    Arithmetic that can underflow (`x - 1`) is the debug-build behaviour: a panic. -/
namespace Blue.PsiWt
open Blue.BitVec

/-- what a call returns: `Ok`, some `Err(_)`, or a panic (`assert!`, index out of bounds, underflow) -/
inductive Outcome (α : Type) where
  | ok (a : α)
  | err
  | panic
  deriving Repr, DecidableEq

namespace Outcome
@[inline] def bind {α β : Type} (o : Outcome α) (f : α → Outcome β) : Outcome β :=
  match o with
  | ok a => f a
  | err => err
  | .panic => .panic

instance : Monad Outcome where
  pure := ok
  bind := bind

/-- `opt.ok_or(Error::…)?` -/
@[inline] def orErr {α : Type} : Option α → Outcome α
  | some a => ok a
  | none => err

/-- `v[i]` -/
@[inline] def orPanic {α : Type} : Option α → Outcome α
  | some a => ok a
  | none => .panic

def toOption {α : Type} : Outcome α → Option α
  | ok a => some a
  | _ => none
end Outcome
open Outcome

/-- `Context { start, tree }` (the `ctx` field is dead) -/
structure Ctx where
  start : Nat
  tree : List Nat
  deriving Repr, DecidableEq

/-- `WaveletTreePsi { table, y_key, y_value }` -/
structure WtPsi where
  table : List Ctx
  ykey : List Bool
  yvalue : List Nat
  deriving Repr, DecidableEq

/-! ### construction -/

/-- `Sigma::K()` -/
def kOf (syms : List Nat) : Nat := syms.foldl max 0 + 1

/-- `ipsi[value] = idx` for every `(idx, value)` of `psi`; `none` is the index panic -/
def inverseGo : List Nat → Nat → List Nat → Option (List Nat)
  | [], _, acc => some acc
  | v :: rest, i, acc => if v < acc.length then inverseGo rest (i + 1) (acc.set v i) else none

def inverse (psi : List Nat) : Option (List Nat) := inverseGo psi 0 (List.replicate psi.length 0)

/-- the locals of `construct_streaming_mapped` (`ContextState` plus `ctx`, `start`, `row`) and the
    contexts written so far -/
structure St where
  ctx : Nat × Nat
  start : Nat
  row : Nat
  tree : List Nat
  counts : List Nat
  active : List Nat
  cells : List (List (Nat × Nat))
  table : List Ctx
  deriving Repr

/-- `flush_context`: one cell `(row, count)` per active symbol, counts back to zero, the context
    written out -/
def flush (st : St) : St :=
  let cc := st.active.foldl
    (fun (cc : List Nat × List (List (Nat × Nat))) symbol =>
      (cc.1.set symbol 0, cc.2.modify symbol (· ++ [(st.row, cc.1.getD symbol 0)])))
    (st.counts, st.cells)
  { st with counts := cc.1, cells := cc.2, active := [], tree := [],
            table := st.table ++ [⟨st.start, st.tree⟩] }

/-- the tail of the loop body: `tree.push(symbol)`, first occurrence → `active`, `counts[symbol] += 1` -/
def push (st : St) (symbol : Nat) : St :=
  { st with tree := st.tree ++ [symbol],
            active := if st.counts.getD symbol 0 = 0 then st.active ++ [symbol] else st.active,
            counts := st.counts.set symbol (st.counts.getD symbol 0 + 1) }

/-- the head of the loop body: a new context closes the row (not before `i = 0`) -/
def newRow (st : St) (i : Nat) (tmp : Nat × Nat) : St :=
  if st.ctx ≠ tmp then
    let st := if i > 0 then { flush st with row := st.row + 1 } else st
    { st with ctx := tmp, start := i }
  else st

/-- the loop of `construct_streaming_mapped` over `ipsi`, `i` = the enumeration index; `none` = an
    `Err` exit -/
def loop (syms psi : List Nat) (n : Nat) : List Nat → Nat → St → Option St
  | [], _, st => some st
  | ip :: rest, i, st =>
    if i ≥ n then none else
    let p := psi.getD i 0
    if p ≥ n then none else
    let st := newRow st i (syms.getD i 0, syms.getD p 0)
    if ip ≥ n then none else
    loop syms psi n rest (i + 1) (push st (syms.getD ip 0))

/-- the two nested loops that turn `cells_by_sigma` (flattened, symbol-major) into `y_key`'s
    positions and `y_value`; `sum` is the running total -/
def yArrays : Nat → List (Nat × Nat) → List Nat × List Nat
  | sum, [] => ([sum - 1], [])
  | sum, (row, cnt) :: rest =>
    let r := yArrays (sum + cnt) rest
    ((if sum > 0 then (sum - 1) :: r.1 else r.1), row :: r.2)

def initSt (k : Nat) : St :=
  ⟨(0, 0), 0, 0, [], List.replicate k 0, [], List.replicate k [], []⟩

/-- `WaveletTreePsi::construct` then `unpack`.  `none`: `Err(InvalidSigma)` (the expansion of the
    bucket limits does not have `psi.len()` entries, a ψ value out of range), the index panic while
    inverting a ψ with a value `≥ n`, and `n = 0` (`sum - 1` underflows; there is always the end
    marker) -/
def construct (syms psi : List Nat) : Option WtPsi :=
  let n := psi.length
  if syms.length ≠ n then none else
  if n = 0 then none else
  match inverse psi with
  | none => none
  | some ipsi =>
    match loop syms psi n ipsi 0 (initSt (kOf syms)) with
    | none => none
    | some st =>
      let st := flush st
      let flat := st.cells.flatten
      let y := yArrays 0 flat
      some ⟨st.table, Blue.Sampled.presentBits ((flat.map (·.2)).sum) y.1, y.2⟩

/-! ### queries -/

/-- `Psi::len` -/
def len (w : WtPsi) : Nat :=
  match w.table.getLast? with
  | none => 0
  | some last => last.start + last.tree.length

/-- `Context::lookup(sigma, idx)`; `none` = `Err(BadIndex)` -/
def ctxLookup (c : Ctx) (sigma idx : Nat) : Option Nat :=
  if idx ≥ c.tree.length then none else
  match Blue.WaveletRef.selectQ c.tree sigma (idx + 1) with
  | none => none
  | some s => some (c.start + (s - 1))

/-- `Psi::lookup(sigma, idx)` -/
def lookupO (syms : List Nat) (w : WtPsi) (idx : Nat) : Outcome Nat := do
  let yRank ← orErr (rank w.ykey idx)
  let y ← orPanic w.yvalue[yRank]?
  let startOfCell ← orErr (select w.ykey yRank)
  let sigma ← orErr syms[idx]?
  let c ← orPanic w.table[y]?
  if idx < startOfCell then .panic else
  orErr (ctxLookup c sigma (idx - startOfCell))

/-- `lookup` with `Err` and panic merged -/
def lookup (syms : List Nat) (w : WtPsi) (idx : Nat) : Option Nat := (lookupO syms w idx).toOption

/-- `self.table[self.y_value[cell]]` -/
def cellCtx (w : WtPsi) (cell : Nat) : Outcome Ctx := do
  let y ← orPanic w.yvalue[cell]?
  orPanic w.table[y]?

/-- `partition_by` with a closure that can panic -/
def partitionByO (pred : Nat → Outcome Bool) : Nat → Nat → Nat → Outcome Nat
  | 0, l, _ => ok l
  | f + 1, l, r =>
    if l < r then
      let mid := l + (r - l) / 2
      match pred mid with
      | .ok true => partitionByO pred f (mid + 1) r
      | .ok false => partitionByO pred f l mid
      | .err => .err
      | .panic => .panic
    else ok l

/-- the cell search of `lower_bound` / `upper_bound`: `partition_by` over the cells of the range for
    the first whose row starts at or after `point` (`last_cell` is never probed), then one step back
    when that row starts after `point` -/
def searchCell (w : WtPsi) (point firstCell lastCell : Nat) : Outcome Nat := do
  let cell ← partitionByO (fun cell => do let c ← cellCtx w cell; ok (decide (c.start < point)))
    (lastCell - firstCell + 1) firstCell lastCell
  if cell > firstCell then do
    let c ← cellCtx w cell
    ok (if c.start > point then cell - 1 else cell)
  else ok cell

/-- what `lower_bound` and `upper_bound` share: the asserts, the early exits, the cell search.
    `inl v` = return `Ok(v)` at once; `inr (row, start_of_cell, end_of_cell, column)` otherwise -/
def boundCell (syms : List Nat) (w : WtPsi) (point : Nat) (into : Nat × Nat) :
    Outcome (Nat ⊕ (Ctx × Nat × Nat × Nat)) := do
  if w.table.isEmpty then .panic else
  if ¬ into.1 ≤ into.2 then .panic else
  if ¬ into.2 ≤ len w then .panic else
  if into.1 > into.2 then ok (.inl into.1) else
  if into.1 = 0 then err else
  let firstCell ← orErr (rank w.ykey into.1)
  let lastCell ← orErr (rank w.ykey into.2)
  let cell ← searchCell w point firstCell lastCell
  let startOfCell ← orErr (select w.ykey cell)
  let next ← orErr (select w.ykey (cell + 1))
  if next = 0 then .panic else
  let endOfCell := next - 1
  let column ← orErr syms[startOfCell]?
  let c ← cellCtx w cell
  ok (.inr (c, startOfCell, endOfCell, column))

/-- `lower_bound(point, into)` -/
def lowerBound (syms : List Nat) (w : WtPsi) (point : Nat) (into : Nat × Nat) : Outcome Nat := do
  match ← boundCell syms w point into with
  | .inl v => ok v
  | .inr (c, startOfCell, endOfCell, column) =>
    if point ≥ c.start then
      -- `unwrap_or(end_of_cell - start_of_cell + 1)` evaluates its argument first
      if endOfCell < startOfCell then .panic else
      ok ((Blue.WaveletRef.rankQ c.tree column (point - c.start)).getD (endOfCell - startOfCell + 1) + startOfCell)
    else ok startOfCell

/-- `upper_bound(point, into)` -/
def upperBound (syms : List Nat) (w : WtPsi) (point : Nat) (into : Nat × Nat) : Outcome Nat := do
  match ← boundCell syms w point into with
  | .inl v => ok v
  | .inr (c, startOfCell, endOfCell, column) =>
    if point ≥ c.start then
      match Blue.WaveletRef.rankQ c.tree column (point - c.start) with
      | some r =>
        if (ctxLookup c column r).getD (point + 1) > point then
          (if r + startOfCell = 0 then .panic else ok (r + startOfCell - 1))
        else ok (r + startOfCell)
      | none => ok endOfCell
    else if startOfCell = 0 then .panic else ok (startOfCell - 1)

/-- `Psi::constrain(range, into)`, both closed -/
def constrain (syms : List Nat) (w : WtPsi) (range into : Nat × Nat) : Outcome (Nat × Nat) := do
  if range.1 > range.2 then ok range else
  if into.1 > into.2 then (if range.1 = 0 then .panic else ok (range.1, range.1 - 1)) else
  if w.table.isEmpty then ok (1, 0) else
  if into.1 > into.2 then ok into else
  let lower ← lowerBound syms w into.1 range
  let upper ← upperBound syms w into.2 range
  ok (lower, upper)

/-! ### the reference (`ReferencePsi`) -/

/-- how many entries of `psi[r0 ..= r1]` are below `a`: where `binary_search_by` lands in that
    strictly increasing slice (the same shape as `Blue.Csa.countLt`) -/
def countLt (psi : List Nat) (r0 r1 a : Nat) : Nat :=
  ((List.range (r1 + 1 - r0)).filter (fun d => decide (psi.getD (r0 + d) 0 < a))).length

/-- `ReferencePsi::constrain(range, into)`, both closed -/
def refConstrain (psi : List Nat) (range into : Nat × Nat) : Nat × Nat :=
  (range.1 + countLt psi range.1 range.2 into.1, range.1 + countLt psi range.1 range.2 (into.2 + 1) - 1)

/-! ### what `PsiDocument::construct` hands to `WaveletTreePsi::construct` -/

/-- the first symbol of every rank (`Sigma::sa_index_to_sigma`) -/
def symsOf (l : List (List Nat)) : List Nat := l.map (fun s => s.headD 0)

/-- ψ as `psi::compute` builds it: the rank of the suffix one symbol shorter; the end marker's own
    suffix wraps around to the whole text -/
def psiOf (T : List Nat) (l : List (List Nat)) : List Nat :=
  (List.range l.length).map (fun i => if (Blue.Csa.str l i).length ≤ 1 then l.idxOf T else Blue.Csa.psi l i)

end Blue.PsiWt
