import Blue.Model.Stall
import Blue.Model.NextCompaction
import Blue.Model.ApplyCompaction
/-! The stall / wake-up protocol (`Blue.Stall`) and the selector (`Blue.NextCompaction`) as ONE
    transition system.  The state carries the real tree (`Blue.NextCompaction.Tree`: per level the
    files the version holds), and per compaction thread what `Blue.Stall` has (running / in flight /
    asleep on `compact`) TOGETHER WITH the compaction it has in flight, so the `ongoing` list the
    selector sees (`og`) is part of the state.

    lsmtk/src/tree/mod.rs, one event per critical section under the `compaction` mutex:
    * `compaction_thread` (the `'inner` loop): `next_compaction()` on the current version and the
      `ongoing` list; `Some(c)`: leave the loop with `c` (`emit_compaction` has pushed it onto
      `ongoing`); `None`: `compact.wait`.  Here: `select i` — the answer is COMPUTED by
      `nextCompaction cfg.num cfg.opts s.tree (og s)`, it is not a field of the event;
    * `apply_manifest_compaction` / `apply_moving_compaction`: `Version::apply_compaction` on the
      current version, `install_version`, `stall.notify_all()` (and not `compact`).  Here:
      `finish i outs` — `applyCompaction s.tree c outs` with `c` the compaction thread `i` holds;
      the outputs are the event's (the merge is C01's concern, not the protocol's);
    * `apply_manifest_ingest`: `while should_stall_ingest() { stall.wait }`, then `Version::ingest`,
      `install_version`, `compact.notify_all()`.  Here: `ingest i f` — the stall test is
      `stalledT` on level 0 of the tree (file count and `Level::size`, the saturating sum, against
      the two thresholds with `>=`);
    * the error path of `compaction_thread` (`release_compaction`, return; a fresh thread takes the
      place): `abort i`; `Condvar::wait` returning unprompted: `spurI` / `spurC`.

    `quiet` is the ghost of `Blue.Stall` (the selector has said "nothing" on the present tree with
    nothing in flight); it is carried so that `proj` is a function. -/
namespace Blue.StallTree
open Blue.NextCompaction

/-- a compaction thread: `Blue.Stall.TState` with the compaction in flight -/
inductive CState where
  | running
  | inflight (c : Core)
  | waiting
deriving DecidableEq

structure Cfg where
  num : Num
  opts : Opts
  /-- `l0_write_stall_threshold_files` -/
  stallAt : Nat
  /-- `l0_write_stall_threshold_bytes` -/
  stallBytes : Nat

structure St where
  tree : Tree
  ingesters : List Stall.TState
  compactors : List CState
  quiet : Bool := false

/-- what `Blue.Stall` sees of a compaction thread -/
def ctl : CState → Stall.TState
  | .running => .running
  | .inflight _ => .inflight
  | .waiting => .waiting

def core? : CState → Option Core
  | .inflight c => some c
  | _ => none

/-- the `ongoing` list: the compactions in flight (`may_choose_compaction` reads it through a sum
    and an `any`: the order is immaterial) -/
def og (s : St) : List Core := s.compactors.filterMap core?

/-- `should_stall_ingest()` on the tree -/
def stalledT (cfg : Cfg) (t : Tree) : Bool :=
  decide ((level t 0).length ≥ cfg.stallAt) || decide (levelSize (level t 0) ≥ cfg.stallBytes)

/-- `compact.notify_all()` -/
def wakeC (l : List CState) : List CState := l.map (fun t => if t = .waiting then .running else t)

inductive Ev where
  /-- ingester `i` runs its critical section with the file `f` -/
  | ingest (i : Nat) (f : File)
  /-- compaction thread `i` runs the selection critical section -/
  | select (i : Nat)
  /-- compaction thread `i` installs its compaction with the outputs `outs` -/
  | finish (i : Nat) (outs : List File)
  | abort (i : Nat)
  | spurI (i : Nat)
  | spurC (i : Nat)

def step (cfg : Cfg) (s : St) : Ev → St
  | .ingest i f =>
    match s.ingesters[i]? with
    | some .running =>
      if stalledT cfg s.tree then { s with ingesters := s.ingesters.set i .waiting }
      else { s with tree := ingest s.tree f, quiet := false, compactors := wakeC s.compactors }
    | _ => s
  | .select i =>
    match s.compactors[i]? with
    | some .running =>
      match nextCompaction cfg.num cfg.opts s.tree (og s) with
      | some c => { s with compactors := s.compactors.set i (.inflight c) }
      | none => { s with compactors := s.compactors.set i .waiting, quiet := s.quiet || (og s).isEmpty }
    | _ => s
  | .finish i outs =>
    match s.compactors[i]? with
    | some (.inflight c) =>
      { s with tree := applyCompaction s.tree c outs, quiet := false,
               ingesters := Stall.wakeAll s.ingesters, compactors := s.compactors.set i .running }
    | _ => s
  | .abort i =>
    match s.compactors[i]? with
    | some (.inflight _) => { s with compactors := s.compactors.set i .running }
    | _ => s
  | .spurI i =>
    match s.ingesters[i]? with
    | some .waiting => { s with ingesters := s.ingesters.set i .running }
    | _ => s
  | .spurC i =>
    match s.compactors[i]? with
    | some .waiting => { s with compactors := s.compactors.set i .running }
    | _ => s

def run (cfg : Cfg) (s : St) (evs : List Ev) : St := evs.foldl (step cfg) s

/-! ## the projection to `Blue.Stall` -/

def l0Len (s : St) : Nat := (level s.tree 0).length
def l0Bytes (s : St) : Nat := levelSize (level s.tree 0)

/-- the `Blue.Stall` state a `StallTree` state shows: level 0 of the tree as file count and bytes -/
def proj (cfg : Cfg) (s : St) : Stall.St :=
  { stallAt := cfg.stallAt, stallBytes := cfg.stallBytes, l0 := l0Len s, l0b := l0Bytes s,
    ingesters := s.ingesters, compactors := s.compactors.map ctl, quiet := s.quiet }

/-- the `Blue.Stall` event a `StallTree` event shows in state `s`: the selector's answer and what a
    compaction takes out of level 0 are read off the state and its successor -/
def projEv (cfg : Cfg) (s : St) : Ev → Stall.Ev
  | .ingest i f => .ingest i (l0Bytes (step cfg s (.ingest i f)) - l0Bytes s)
  | .select i => .select i (nextCompaction cfg.num cfg.opts s.tree (og s)).isSome
  | .finish i outs =>
    .finish i (l0Len s - l0Len (step cfg s (.finish i outs))) (l0Bytes s - l0Bytes (step cfg s (.finish i outs)))
  | .abort i => .abort i
  | .spurI i => .spurI i
  | .spurC i => .spurC i

def projRun (cfg : Cfg) : St → List Ev → List Stall.Ev
  | _, [] => []
  | s, ev :: r => projEv cfg s ev :: projRun cfg (step cfg s ev) r

/-! ## `Sel` as a property of the tree state -/

/-- the model's `Sel` on the tree and the compactions in flight: while ingest is stalled and
    nothing is in flight, `next_compaction()` is `Some` -/
def selT (cfg : Cfg) (t : Tree) (g : List Core) : Bool :=
  !(stalledT cfg t && g.isEmpty) || (nextCompaction cfg.num cfg.opts t g).isSome

/-- `P` at every state of the run (the last one included) -/
def along (cfg : Cfg) (P : St → Bool) : St → List Ev → Bool
  | s, [] => P s
  | s, ev :: r => P s && along cfg P (step cfg s ev) r

def selSt (cfg : Cfg) (s : St) : Bool := selT cfg s.tree (og s)

/-! ## release of a stalled ingest: the measure -/

/-- the compaction takes a file out of level 0 of `t` when installed -/
def relieves (t : Tree) (c : Core) : Bool :=
  c.lower == 0 && (level t 0).any (fun f => c.inputs.contains f.id)

/-- while ingest is stalled, every compaction in flight takes a file out of level 0 -/
def relSt (cfg : Cfg) (s : St) : Bool := !stalledT cfg s.tree || (og s).all (relieves s.tree)

def weight : CState → Nat
  | .running => 2
  | .inflight _ => 1
  | .waiting => 0

/-- `release_measure`: twice the files of level 0, two per compaction thread about to select, one
    per compaction in flight -/
def measure (s : St) : Nat := 2 * l0Len s + (s.compactors.map weight).sum

/-- an effective step of a compaction thread: a selection by a thread that is running, an install
    by a thread that has a compaction in flight -/
def compStep (s : St) : Ev → Bool
  | .select i => s.compactors[i]? == some .running
  | .finish i _ => match s.compactors[i]? with | some (.inflight _) => true | _ => false
  | _ => false

def compSteps (cfg : Cfg) : St → List Ev → Nat
  | _, [] => 0
  | s, ev :: r => (if compStep s ev then 1 else 0) + compSteps cfg (step cfg s ev) r

/-- what no bound can absorb: a compaction that fails (its thread starts over) and a compaction
    thread woken with nothing to do -/
def disturbance : Ev → Nat
  | .abort _ => 1
  | .spurC _ => 1
  | _ => 0

def disturbances (evs : List Ev) : Nat := (evs.map disturbance).sum

/-- ingest is not stalled and no ingester is asleep on `stall` -/
def released (cfg : Cfg) (s : St) : Bool :=
  !stalledT cfg s.tree && s.ingesters.all (· != .waiting)

/-- some state of the run is `released` -/
def everReleased (cfg : Cfg) : St → List Ev → Bool
  | s, [] => released cfg s
  | s, ev :: r => released cfg s || everReleased cfg (step cfg s ev) r

/-- what the proofs need of the state: the tree has a level 0 (`levels[0]` does not panic) and no
    compaction in flight has level 0 as its output level -/
def wfB (s : St) : Bool := !s.tree.isEmpty && (og s).all (fun c => decide (c.lower < c.upper))

/-! ## release of a stalled ingest, any compaction: the potential of the tree -/

/-- the versions a level holds -/
def vcLevel (l : List File) : Nat := (l.map (fun f => f.vers.length)).sum

/-- the versions the tree holds -/
def vtot (t : Tree) : Nat := (t.map vcLevel).sum

/-- the sum over `k` of the versions held by levels `0 ..= k` (`acc`: the versions above) -/
def potFrom (acc : Nat) : Tree → Nat
  | [] => 0
  | l :: r => (acc + vcLevel l) + potFrom (acc + vcLevel l) r

/-- the potential of the tree: every version counts once for every level it can still sink
    through, itself included (`Σ_i (len - i) * versions of level i`).  `Version::ingest` raises it;
    a compaction whose outputs carry no version its inputs did not carry, and which takes a
    version out of a level above its output level, lowers it -/
def pot (t : Tree) : Nat := potFrom 0 t

def movesDownFrom (c : Core) : Nat → Tree → Bool
  | _, [] => false
  | k, l :: r =>
    (decide (c.lower ≤ k ∧ k < c.upper) && l.any (fun f => c.inputs.contains f.id && !f.vers.isEmpty))
      || movesDownFrom c (k + 1) r

/-- the compaction has an input that holds a version in a level above its output level -/
def movesDown (t : Tree) (c : Core) : Bool := movesDownFrom c 0 t

/-- while ingest is stalled, every compaction in flight has such an input in the present tree -/
def downSt (cfg : Cfg) (s : St) : Bool := !stalledT cfg s.tree || (og s).all (movesDown s.tree)

/-- installing `c` with `outs` adds no version to the tree (the outputs carry what the files
    removed carried, or less) -/
def noNewVers (t : Tree) (c : Core) (outs : List File) : Bool :=
  decide (vtot (applyCompaction t c outs) ≤ vtot t)

/-- `noNewVers` of the install an event performs -/
def outsOK (s : St) : Ev → Bool
  | .finish i outs =>
    match s.compactors[i]? with
    | some (.inflight c) => noNewVers s.tree c outs
    | _ => true
  | _ => true

/-- `P` at every step of the run -/
def alongEv (cfg : Cfg) (P : St → Ev → Bool) : St → List Ev → Bool
  | _, [] => true
  | s, ev :: r => P s ev && alongEv cfg P (step cfg s ev) r

/-- `release_measure`, any compaction: twice the potential of the tree, two per compaction thread
    about to select, one per compaction in flight -/
def measureG (s : St) : Nat := 2 * pot s.tree + (s.compactors.map weight).sum

end Blue.StallTree
