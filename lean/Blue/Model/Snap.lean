import Blue.Proofs.SpecBounds
/-! A held scan cursor (`KeyValueStore::range_scan`, lsmtk/src/kvs/mod.rs), at the level of what it
    captured.  Under the state lock the scan takes `Arc`s to the memtable and to the immutable
    memtable, a reference to the current version, and the timestamp.  The captured memtable is
    still the store's *mutable* memtable: later writes are inserted into it (until it is rotated)
    and the cursor's skiplist iterator walks over them.  The captured *immutable* memtable can
    still grow too: a writer that picked it before the rotation keeps inserting into it until the
    flush thread has passed the wait list (`Blue.KvsConc`: `wIns` after `fRotate`, before `fHead`)
    — token `writeImm`.  The files of the captured version never change.  The cursor stack (`Bounds(Pruning(Merging[…]))`) is taken by
    its specification (`scan_spec`, C03): at every call it shows the reference cursor over the
    versions of the captured components that are live at the captured timestamp and in range. -/
namespace Blue.Snap
open Blue.Spec Blue.Cursor

variable {K : Type} [DecidableEq K]

def insertV (klt : K → K → Bool) (v : Ver K) : List (Ver K) → List (Ver K)
  | [] => [v]
  | x :: t => if v = x then x :: t else if vlt klt v x then v :: x :: t else x :: insertV klt v t

/-- the versions of a store state, each once, key ascending then timestamp descending -/
def sortV (klt : K → K → Bool) (vs : List (Ver K)) : List (Ver K) :=
  vs.foldl (fun acc v => insertV klt v acc) []

/-- what a scan captured, and where its cursor stands -/
structure Held (K : Type) where
  /-- the read timestamp the scan captured (as found: the last sequence number assigned when the
      scan was opened; repaired: `visible_seq_no`) -/
  ts : Nat
  /-- entries of the captured memtable object, as of now -/
  mem : List (Ver K)
  /-- entries of the captured immutable memtable (as of now) and of the files of the captured
      version -/
  rest : List (Ver K)
  /-- position of the reference cursor (0 = before the first, n+1 = after the last) -/
  pos : Nat

inductive Tok (K : Type) where
  /-- a call on the held cursor -/
  | op (o : Op (Ver K))
  /-- a write that inserted these entries into the captured memtable after the scan was opened -/
  | write (es : List (Ver K))
  /-- a write that had picked the captured IMMUTABLE memtable before it was rotated away and
      inserted these entries into it after the scan was opened (possible until the flush thread
      has passed the wait list) -/
  | writeImm (es : List (Ver K))
  /-- anything else the store does meanwhile: a write into a newer memtable, rollover, flush,
      version install (compaction, trivial move, garbage collection), trash clean-up -/
  | other

/-- what the cursor shows, as a list: live at the captured timestamp, in range -/
def view (klt : K → K → Bool) (tomb : Ver K → Bool) (sb eb : Bound K) (h : Held K) : List (Ver K) :=
  let M := sortV klt (h.mem ++ h.rest)
  (M.filter (isLive M h.ts tomb)).filter (inRange klt sb eb)

def step (klt : K → K → Bool) (tomb : Ver K → Bool) (sb eb : Bound K) (h : Held K) :
    Tok K → Held K × Option (Option (Ver K))
  | .op o =>
    let r := (Ref.mk (view klt tomb sb eb h) h.pos).step o
    ({ h with pos := r.pos }, some r.kv)
  | .write es => ({ h with mem := h.mem ++ es }, none)
  | .writeImm es => ({ h with rest := h.rest ++ es }, none)
  | .other => (h, none)

/-- the entry shown after each call of the script -/
def run (klt : K → K → Bool) (tomb : Ver K → Bool) (sb eb : Bound K) : Held K → List (Tok K) → List (Option (Ver K))
  | _, [] => []
  | h, t :: ts =>
    match step klt tomb sb eb h t with
    | (h', some o) => o :: run klt tomb sb eb h' ts
    | (h', none) => run klt tomb sb eb h' ts

/-- the read timestamp of this model's overlapping scan: the number just below the oldest write
    still in flight (writes leave the wait list in sequence order); with none in flight the last
    assigned number.  The store's `visible_seq_no` (number of the last write that has left the
    wait list) is NOT always this number — a memtable rotation consumes a sequence number that no
    write carries — but selects the same entries (`Blue.KvsConc.view_visible_eq_view_readTs`). -/
def readTs (assigned : Nat) : List Nat → Nat
  | [] => assigned
  | s :: rest => let t := readTs assigned rest; if s ≤ t then s - 1 else t

/-- a scan opened when `assigned` is the last sequence number handed out and the writes `inflight`
    have not left the wait list -/
def openAt (assigned : Nat) (inflight : List Nat) (mem rest : List (Ver K)) : Held K :=
  ⟨readTs assigned inflight, mem, rest, 0⟩

/-- the calls of a script -/
def opsOf : List (Tok K) → List (Op (Ver K))
  | [] => []
  | .op o :: ts => o :: opsOf ts
  | _ :: ts => opsOf ts

end Blue.Snap
