import Blue.Model.BooksCrash
import Blue.Model.ManiDir
import Blue.Model.Verifier
/-! **C04 through the manifest's bytes** (C04 ∘ C13): the manifest `Edit` that carries a booked
    transaction, and its inverse.

    tree/mod.rs `apply_manifest_ingest` (l.1695-1697) / `apply_manifest_compaction` (l.1735-1737)
    put three info fields into the edit, each the `hexdigest()` of a setsum: `I` (byte 73) the
    tree's setsum, `O` (79) the output, `D` (68) the discard; the files are named by the hexdigest
    of their setsum (`edit.add(&setsum.hexdigest())` l.1334/1596, `edit.rm(&input.hexdigest())`
    l.1556).  So every string of a booked edit is a rendered digest: a record is a `Rec G G` (files
    stand as their digests, `digestRec`), and the rendering `render : G → bytes` with its reader
    `parse` (`Setsum::hexdigest` / `Setsum::from_hexdigest`) is the parameter `Codec`.

    `mani::Edit` holds a `BTreeSet` per action and a `BTreeMap` of info: the writer emits the
    removals, then the additions, each in `String` order, then the info lines by key — `D`, `I`,
    `O`.  `bookedEdit` takes the record's `rm` / `ad` lists as the order written (the verifier's
    checks do not depend on that order: `verify_perm`).  An ingest's `L` field (the log number,
    tree/mod.rs l.1336) is not part of the books and is left out. -/
namespace Blue.BooksBytes
open Blue.Books Blue.Mani

deriving instance DecidableEq for Blue.Books.Rec

/-- `Setsum::hexdigest` and `Setsum::from_hexdigest`, as functions on bytes -/
structure Codec (G : Type) where
  render : G → List Nat
  parse : List Nat → Option G

variable {G : Type}

/-- a record with its files named by their digests, as the manifest names them -/
def digestRec {F : Type} (s : F → G) (r : Rec G F) : Rec G G := ⟨r.I, r.O, r.D, r.rm.map s, r.ad.map s⟩

/-- the edit `apply_manifest_*` hands to `Manifest::apply` for a booked transaction -/
def bookedEdit (c : Codec G) (r : Rec G G) : Edit :=
  ⟨r.rm.map c.render, r.ad.map c.render, [(68, c.render r.D), (73, c.render r.I), (79, c.render r.O)]⟩

/-- `Setsum::from_hexdigest` over `edit.added()` / `edit.rmed()` -/
def parseAll (c : Codec G) : List (List Nat) → Option (List G)
  | [] => some []
  | x :: t => match c.parse x, parseAll c t with
    | some a, some l => some (a :: l)
    | _, _ => none

/-- `setsum_from_info(k, edit.get_info(k))` -/
def infoG (c : Codec G) (e : Edit) (k : Nat) : Option G := (Blue.Verifier.getInfo e k).bind c.parse

/-- the record the verifier reads out of an edit (`verify_one`: `I`, `O`, `D`, the removed and the
    added digests); `none`: a field is missing or a digest does not parse -/
def recOfEdit (c : Codec G) (e : Edit) : Option (Rec G G) :=
  match infoG c e 73, infoG c e 79, infoG c e 68, parseAll c e.rm, parseAll c e.add with
  | some I, some O, some D, some rm, some ad => some ⟨I, O, D, rm, ad⟩
  | _, _, _, _, _ => none

def recsOfEdits (c : Codec G) : List Edit → Option (List (Rec G G))
  | [] => some []
  | e :: t => match recOfEdit c e, recsOfEdits c t with
    | some r, some l => some (r :: l)
    | _, _ => none

variable (g : Grp G) (h : Nat → G)

/-- the records of the booked manifest of `Blue.BooksCrash`, files named by their digests -/
def maniRecs (txs : List Blue.StoreCrash.Tx) : List (Rec G G) :=
  (Blue.BooksCrash.booked g h [] txs).map (digestRec (Blue.BooksCrash.digest g h))

/-- … and the edits `Manifest::apply` was called with -/
def maniEdits (c : Codec G) (txs : List Blue.StoreCrash.Tx) : List Edit :=
  (maniRecs g h txs).map (bookedEdit c)

/-! ### a fragment, as `verify_one` reads it -/

/-- `LsmVerifier::verify_one` on the digests of a fragment (verifier.rs l.157-262): the first record
    is checked for one thing, `O = acc` ("The first entry is known to not balance as it carries over
    the inputs and discard from the last transaction of the previous fragment"), and leaves the
    accumulator alone; every later one is chained, balanced and its discard recomputed
    (`Books.verify`) -/
def verifyFrag [DecidableEq G] {F : Type} [DecidableEq F] (s : F → G) (acc : G) : List (Rec G F) → Bool
  | [] => true
  | r :: rs => decide (r.O = acc) && verify g s acc rs

/-- the last record's three digests (`mani.info('I' | 'O' | 'D')` once the records are applied:
    a later value replaces an earlier one); before any record, `LsmTree::open` has written zeros
    (tree/mod.rs l.1196-1201) -/
def lastIOD {F : Type} (z : G) : List (Rec G F) → G × G × G
  | [] => (z, z, z)
  | [r] => (r.I, r.O, r.D)
  | _ :: r :: rs => lastIOD z (r :: rs)

/-- the roll-up `Manifest::rollover` writes (`to_edit`): no removal, every live string added, the
    info map as it stands — the LAST transaction's `I`, `O` and `D` -/
def rollRec {F : Type} (z : G) (recs : List (Rec G F)) (files : List F) : Rec G F :=
  ⟨(lastIOD z recs).1, (lastIOD z recs).2.1, (lastIOD z recs).2.2, [], files⟩

/-! ### the toy digests of the examples: ℤ mod 7, rendered as one ASCII digit -/

def c7 : Codec (Fin 7) :=
  ⟨fun x => [48 + x.val], fun bs => match bs with
    | [b] => if hb : 48 ≤ b ∧ b < 55 then some ⟨b - 48, by omega⟩ else none
    | _ => none⟩

end Blue.BooksBytes
