/-! Does `Version::next_compaction` (lsmtk/src/tree/mod.rs) offer a compaction?  Executable model of
    the selector on the metadata of a tree (per level the files' key ranges, sizes and newest
    timestamps) with nothing in flight (`ongoing` empty), as far as the *existence* of an answer is
    concerned: `find_trivial_move`, `compute_bounds`, `find_best_compaction` with its early returns
    on `max_compaction_bytes` / `max_compaction_files` / `max_open_files`, `expand_compaction`,
    `may_choose_compaction`, the mandatory-compaction rule, the level curve, and the final
    `best_score >= 0` test.  Scores are integers (the code saturates at the ends of `i64`, which
    file sizes do not reach).  Levels 1.. are sorted by key with disjoint ranges, so
    `partition_point` is the length of the prefix on which its predicate holds.

    `sel` is the characterisation of the protocol's `Sel` on a summary of the tree: the level-0
    hull compaction is offered. -/
namespace Blue.Selector

abbrev Key := List Nat

/-- byte-string order (`[u8]: Ord`) -/
def keyLt : Key → Key → Bool
  | _, [] => false
  | [], _ :: _ => true
  | a :: as, b :: bs => a < b || (a == b && keyLt as bs)

def keyLe (a b : Key) : Bool := !keyLt b a

structure File where
  id : Nat
  first : Key
  last : Key
  size : Nat
  /-- biggest timestamp -/
  bts : Nat
deriving Repr

structure Opts where
  maxOpenFiles : Nat
  maxCompactionBytes : Nat
  maxCompactionFiles : Nat
  mandFiles : Nat
  mandBytes : Nat
  stallFiles : Nat
  stallBytes : Nat
deriving Repr, DecidableEq

abbrev Tree := List (List File)

def level (t : Tree) (i : Nat) : List File := t.getD i []

def levelSize (l : List File) : Nat := (l.map (·.size)).sum

/-- `should_stall_ingest` -/
def shouldStall (o : Opts) (t : Tree) : Bool :=
  decide ((level t 0).length ≥ o.stallFiles) || decide (levelSize (level t 0) ≥ o.stallBytes)

/-- every level holds a file -/
def full (t : Tree) : Bool := t.all (fun l => !l.isEmpty)

/-- `should_perform_mandatory_compaction` -/
def mandatoryFlag (o : Opts) (t : Tree) : Bool :=
  decide ((level t 0).length ≥ o.mandFiles) || decide (levelSize (level t 0) ≥ o.mandBytes) || full t

/-- `Level::lower_bound`: `partition_point(|x| key > x.last_key)` -/
def lowerBound (l : List File) (key : Key) : Nat := (l.takeWhile (fun x => keyLt x.last key)).length

/-- `Level::upper_bound`: `partition_point(|x| key >= x.first_key)` -/
def upperBound (l : List File) (key : Key) : Nat := (l.takeWhile (fun x => keyLe x.first key)).length

structure Slice where
  lo : Nat
  hi : Nat
  first : Key
  last : Key
deriving Repr

def minKey : List Key → Key
  | [] => []
  | k :: ks => ks.foldl (fun m x => if keyLt x m then x else m) k

def maxKey : List Key → Key
  | [] => []
  | k :: ks => ks.foldl (fun m x => if keyLt m x then x else m) k

/-- the `while !fixed_point` loop of `compute_bounds` for one level -/
def fixBounds (lvl : List File) : Nat → Key → Key → Nat → Nat → Slice
  | 0, first, last, lo, hi => ⟨lo, hi, first, last⟩
  | fuel + 1, first, last, lo, hi =>
    let grewLo := decide (lo < lvl.length) && keyLt ((lvl.getD lo ⟨0, [], [], 0, 0⟩).first) first
    let first' := if grewLo then (lvl.getD lo ⟨0, [], [], 0, 0⟩).first else first
    let grewHi := decide (hi > lo) && keyLt last ((lvl.getD (hi - 1) ⟨0, [], [], 0, 0⟩).last)
    let last' := if grewHi then (lvl.getD (hi - 1) ⟨0, [], [], 0, 0⟩).last else last
    let lo' := lowerBound lvl first'
    let hi' := upperBound lvl last'
    if !grewLo && !grewHi && lo' == lo && hi' == hi then ⟨lo', hi', first', last'⟩
    else fixBounds lvl fuel first' last' lo' hi'

def boundsLoop (lower : Nat) : Nat → List (List File) → Key → Key → List Slice
  | _, [], _, _ => []
  | idx, lvl :: rest, first, last =>
    if idx < lower then ⟨0, 0, [], []⟩ :: boundsLoop lower (idx + 1) rest first last
    else if idx = 0 then ⟨0, lvl.length, first, last⟩ :: boundsLoop lower 1 rest first last
    else
      let s := fixBounds lvl (2 * lvl.length + 4) first last (lowerBound lvl first) (upperBound lvl last)
      s :: boundsLoop lower (idx + 1) rest s.first s.last

/-- `compute_bounds(lower_level, first_key, last_key)` -/
def computeBounds (t : Tree) (lower : Nat) (first last : Key) : List Slice :=
  boundsLoop lower 0 t first last

/-- `may_choose_compaction` for different levels with nothing in flight -/
def mayChoose (o : Opts) (inputs : Nat) : Bool := !decide (inputs ≥ o.maxOpenFiles)

/-- `find_trivial_move_for_one_sst` -/
def trivialOne (o : Opts) (t : Tree) (lower : Nat) (f : File) : Bool :=
  if lower > 0 && lowerBound (level t lower) f.first + 1 != upperBound (level t lower) f.last then false
  else if decide (lower + 1 < t.length)
      && lowerBound (level t (lower + 1)) f.first == upperBound (level t (lower + 1)) f.last then mayChoose o 1
  else false

/-- the first file with the smallest `biggest_timestamp` (`Iterator::min_by`) -/
def oldest : List File → Option File
  | [] => none
  | f :: fs => some (fs.foldl (fun m x => if x.bts < m.bts then x else m) f)

/-- `find_trivial_move(level)` -/
def trivialMove (o : Opts) (t : Tree) (lower : Nat) : Bool :=
  if lower = 0 then
    match oldest (level t 0) with
    | none => false
    | some f => trivialOne o t 0 f
  else (level t lower).any (trivialOne o t lower)

/-- one level of `expand_compaction`: `none` is the early `return` -/
def expandLevel (o : Opts) (first last : Key) (inputs : List Nat) : List File → List File → Option (List File)
  | [], toAdd => some toAdd
  | f :: rest, toAdd =>
    let n := inputs.length + toAdd.length
    if n > o.maxCompactionFiles || n > o.maxOpenFiles then none
    else if inputs.contains f.id then expandLevel o first last inputs rest toAdd
    else if keyLe first f.first && keyLe f.last last then expandLevel o first last inputs rest (toAdd ++ [f])
    else if keyLe f.first last && keyLe first f.last then none
    else expandLevel o first last inputs rest toAdd

/-- `expand_compaction` over the levels given (upper level first): the inputs afterwards -/
def expandLoop (o : Opts) (t : Tree) : List Nat → Key → Key → List Nat → List Nat
  | [], _, _, inputs => inputs
  | lvl :: rest, first, last, inputs =>
    match expandLevel o first last inputs (level t lvl) [] with
    | none => inputs
    | some [] => expandLoop o t rest first last inputs
    | some (a :: as) =>
      expandLoop o t rest (minKey ((a :: as).map (·.first))) (maxKey ((a :: as).map (·.last)))
        (inputs ++ (a :: as).map (·.id))

def expandCount (o : Opts) (t : Tree) (lower upper : Nat) (first last : Key) (inputs : List Nat) : Nat :=
  (expandLoop o t ((List.range (upper + 1 - lower)).map (fun k => upper - k)) first last inputs).length

/-- `overlap[lower..upper].fold(0, |l, r| l + l + r)` -/
def accOf (xs : List Int) : Int := xs.foldl (fun l r => l + l + r) 0

def intSum (xs : List Int) : Int := xs.foldl (· + ·) 0

/-- `score > best_score`, `none` being `i64::MIN` -/
def better (score : Int) : Option Int → Bool
  | none => true
  | some b => decide (score > b)

/-- the loop of `find_best_compaction` from `upper` on: bytes of the levels passed so far, inputs
    so far, whether a candidate exists, its score -/
def bestLoop (o : Opts) (t : Tree) (lower : Nat) (bounds : List Slice) :
    Nat → Nat → List Int → List Nat → Bool → Option Int → Bool × Option Int
  | 0, _, _, _, cand, best => (cand, best)
  | fuel + 1, upper, prev, inputs, cand, best =>
    if upper ≥ t.length then (cand, best)
    else
      let b := bounds.getD upper ⟨0, 0, [], []⟩
      let files := ((level t upper).drop b.lo).take (b.hi - b.lo)
      let ov : Int := ((files.map (·.size)).sum : Nat)
      let inputs' := inputs ++ files.map (·.id)
      let score := accOf prev - ov
      let csize := intSum prev + ov
      if decide (csize > (o.maxCompactionBytes : Int)) && lower != 0 then (cand, best)
      else if inputs'.length > o.maxCompactionFiles || inputs'.length > o.maxOpenFiles then (cand, best)
      else
        let take := decide (lower < upper) && better score best
            && mayChoose o (expandCount o t lower upper b.first b.last inputs')
        let cand' := cand || take
        let best' := if take then some score else best
        if b.lo == b.hi then (cand', best')
        else bestLoop o t lower bounds fuel (upper + 1) (prev ++ [ov]) inputs' cand' best'

/-- `find_best_compaction(lower_level, bounds)`: is there a candidate, and its score -/
def findBest (o : Opts) (t : Tree) (lower : Nat) (bounds : List Slice) : Bool × Option Int :=
  bestLoop o t lower bounds (t.length + 1) lower [] [] false none

def nonneg : Option Int → Bool
  | none => false
  | some s => decide (s ≥ 0)

/-- `level_curve` -/
def levelCurve (lvl : Nat) : Nat := if lvl ≤ 2 then 1 else if lvl ≤ 10 then 2 else 3

/-- the level-0 candidate of `next_compaction`: `find_best_compaction` over the hull of level 0 -/
def l0Best (o : Opts) (t : Tree) : Bool × Option Int :=
  if (level t 0).isEmpty then (false, none)
  else
    findBest o t 0 (computeBounds t 0 (minKey ((level t 0).map (·.first))) (maxKey ((level t 0).map (·.last))))

/-- some file of a level below level 0 starts a compaction with a score of at least zero -/
def deeperAny (o : Opts) (t : Tree) : Bool :=
  (List.range (t.length - 2)).any fun k =>
    let lower := k + 1
    if decide (levelSize (level t lower) / levelCurve lower > levelSize (level t (lower - 1))) && !mandatoryFlag o t then false
    else (level t lower).any fun f =>
      let r := findBest o t lower (computeBounds t lower f.first f.last)
      r.1 && nonneg r.2

def trivialAny (o : Opts) (t : Tree) : Bool :=
  (List.range (t.length - 1)).any (trivialMove o t)

/-- `next_compaction().is_some()` with nothing in flight -/
def nextSome (o : Opts) (t : Tree) : Bool :=
  trivialAny o t
    || ((l0Best o t).1 && (mandatoryFlag o t || nonneg (l0Best o t).2))
    || deeperAny o t

/-- what `sel` looks at -/
structure Summary where
  /-- files / bytes in level 0 -/
  l0 : Nat
  l0b : Nat
  /-- files / bytes of level 1 under the hull of level 0 (as widened by `compute_bounds`) -/
  l1h : Nat
  l1hb : Nat
  /-- every level holds a file -/
  full : Bool
deriving Repr, DecidableEq

def l1Slice (t : Tree) : Slice :=
  (computeBounds t 0 (minKey ((level t 0).map (·.first))) (maxKey ((level t 0).map (·.last)))).getD 1 ⟨0, 0, [], []⟩

def summary (t : Tree) : Summary :=
  let b := l1Slice t
  let files := ((level t 1).drop b.lo).take (b.hi - b.lo)
  ⟨(level t 0).length, levelSize (level t 0), files.length, levelSize files, full t⟩

/-- the files of level 1 under the hull of level 0 -/
def hullFiles (t : Tree) : List File :=
  ((level t 1).drop (l1Slice t).lo).take ((l1Slice t).hi - (l1Slice t).lo)

/-- `expand_compaction` leaves the level-0 hull compaction choosable: with the files it adds the
    compaction stays under `max_open_files` (on a tree whose levels are sorted it adds none) -/
def hullChoosable (o : Opts) (t : Tree) : Bool :=
  mayChoose o (expandCount o t 0 1 (l1Slice t).first (l1Slice t).last
    (([] ++ (level t 0).map (·.id)) ++ (hullFiles t).map (·.id)))

/-- the model's `Sel` on the tree summary: the level-0 hull compaction (level 0 with the level-1
    files under it) is offered — it respects both file limits and is either mandatory or has a
    score of at least zero -/
def sel (o : Opts) (m : Summary) : Bool :=
  decide (0 < m.l0) && decide (m.l0 + m.l1h ≤ o.maxCompactionFiles) && decide (m.l0 + m.l1h < o.maxOpenFiles)
    && (decide (o.mandFiles ≤ m.l0) || decide (o.mandBytes ≤ m.l0b) || m.full || decide (m.l1hb ≤ m.l0b))

/-- the trigger of D-15 on (options, stalled tree): the level-0 hull compaction exceeds a file limit -/
def overLimit (o : Opts) (m : Summary) : Bool :=
  decide (m.l0 + m.l1h > o.maxCompactionFiles) || decide (m.l0 + m.l1h ≥ o.maxOpenFiles)

end Blue.Selector
