/-! `sync42::WorkCoalescingQueue::do_work` as a transition system, one step per critical section.
    A caller is identified with the index its `link` returned; its input is that index.  The core's
    answers are arbitrary values carried by the `deliver` events and recorded in the ghost table
    `prod`.  `log` is what the core has been given, in order. -/
namespace Blue.WcqV

inductive WS where
  | inp
  | stolen
  | outp (o : Nat)
deriving DecidableEq, Repr

structure Ent where
  st : WS
  linked : Bool
  /-- `some (k, j)`: this caller leads a batch of `k` and has delivered `j` outputs -/
  lead : Option (Nat × Nat)
  /-- what `do_work` returned -/
  ret : Option Nat
deriving DecidableEq, Repr

structure St where
  ents : List Ent
  doingWork : Bool
  log : List Nat
  panicked : Bool
  /-- ghost: what the core produced, newest first: (caller index, output) -/
  prod : List (Nat × Nat)
deriving DecidableEq, Repr

/-- the wait list's head: the smallest linked index (`WaitList.head_is_oldest`) -/
def headIdx : List Ent → Nat
  | [] => 0
  | e :: es => if e.linked then 0 else headIdx es + 1

inductive Ev where
  /-- a new caller links itself -/
  | link
  /-- caller `i` finds its output and leaves (any position, any time after delivery) -/
  | observe (i : Nat)
  /-- caller `i`, at the head and with nobody working, takes itself and the next `k-1` callers -/
  | lead (i k : Nat)
  /-- the leader `i` hands the next member of its batch the output `v` the core produced for it -/
  | deliver (i v : Nat)
  /-- the leader `i` leaves -/
  | finish (i : Nat)
deriving DecidableEq, Repr

def setSt (l : List Ent) (i : Nat) (f : Ent → Ent) : List Ent :=
  match l[i]? with
  | some e => l.set i (f e)
  | none => l

/-- mark entries `i … i+k-1` stolen -/
def steal (l : List Ent) (i : Nat) : Nat → List Ent
  | 0 => l
  | k + 1 => steal (setSt l i (fun e => { e with st := .stolen })) (i + 1) k

def step (s : St) : Ev → St
  | .link => { s with ents := s.ents ++ [⟨.inp, true, none, none⟩] }
  | .observe i =>
    match s.ents[i]? with
    | some ⟨.outp o, true, none, _⟩ => { s with ents := s.ents.set i ⟨.outp o, false, none, some o⟩ }
    | _ => s
  | .lead i k =>
    match s.ents[i]? with
    | some ⟨.inp, true, none, none⟩ =>
      if s.doingWork = false ∧ headIdx s.ents = i ∧ 1 ≤ k ∧ i + k ≤ s.ents.length then
        if (s.ents.drop i).all (fun e => e.st == .inp) then
          { s with doingWork := true,
                   ents := setSt (steal s.ents i k) i (fun e => { e with lead := some (k, 0) }),
                   log := s.log ++ (List.range k).map (· + i) }
        else { s with panicked := true }   -- "head should never witness stolen or output"
      else s
    | _ => s
  | .deliver i v =>
    match s.ents[i]? with
    | some ⟨st, l, some (k, j), r⟩ =>
      if j < k then
        let es := setSt s.ents (i + j) (fun e => { e with st := .outp v })
        { s with ents := setSt es i (fun e => { e with lead := some (k, j + 1) }), prod := (i + j, v) :: s.prod }
      else s
    | _ => s
  | .finish i =>
    match s.ents[i]? with
    | some ⟨st, l, some (k, j), r⟩ =>
      if j = k then
        match st with
        | .outp o => { s with ents := s.ents.set i ⟨.outp o, false, none, some o⟩, doingWork := false }
        | _ => { s with panicked := true }   -- "Thread gave everyone except itself an output."
      else s
    | _ => s

def init : St := ⟨[], false, [], false, []⟩

end Blue.WcqV
