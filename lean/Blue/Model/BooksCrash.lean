import Blue.Model.StoreFault
import Blue.Proofs.RecoverLedger
/-! **C04 at the crash points of C02**: the protocol model `Blue.StoreCrash` with the manifest
    BOOKED — every manifest transaction carries the three digests the code writes
    (tree/mod.rs `apply_manifest_ingest` / `apply_manifest_compaction`, kvs/mod.rs `recover_one`):
    `I` = the tree's setsum (`compute_setsum`: the sum over the files' names), `D` = Σ removed − Σ added,
    `O = I − D`.  A file is named by its content (a list of batch numbers), its digest is the group
    sum of its batches under an item hash `h` into any commutative group (`Blue.Books.Grp`). -/
namespace Blue.BooksCrash
open Blue.Books Blue.StoreCrash Blue.StoreFault

variable {G : Type} (g : Grp G) (h : Nat → G)

/-- the digest of a file: the group sum over its batches -/
def digest (nm : Name) : G := total g h nm

/-- the booked manifest: the records the transactions `txs` were written with, the tree holding
    `files` before the first (`storeRec`: `I` = Σ files, `D` = Σ removed − Σ added, `O = I − D`) -/
def booked : List Name → List Tx → List (Rec G Name)
  | _, [] => []
  | files, tx :: txs => storeRec g (digest g h) files tx.rms tx.adds :: booked (StoreCrash.applyTx files tx) txs

/-- the manifest's `O` (`mani.info('O')`, zero setsum when there is none) -/
def maniO (txs : List Tx) : G := lastO (g.zero) (booked g h [] txs)

/-- the digest recomputed from the bytes of the file named `nm` in `sst/`, as persistence model
    `view` shows them (`none`: no such file) -/
def fileDigest (view : File → List Nat) (fs : Fs) (nm : Name) : Option G :=
  (find fs.sst nm).map (fun f => total g h (view f))

/-- sum over the files a manifest lists, each digest recomputed from the file in `sst/`
    (`list_ssts_from_manifest` + `Version::compute_setsum`); `none`: a listed file is missing -/
def treeSetsum (view : File → List Nat) (fs : Fs) : List Name → Option G
  | [] => some g.zero
  | nm :: t => match fileDigest g h view fs nm, treeSetsum view fs t with
    | some d, some acc => some (g.add d acc)
    | _, _ => none

/-- `Tree::from_manifest`: the setsum of the tree built from the listed files is the manifest's `O` -/
def fromManifestOk [DecidableEq G] (view : File → List Nat) (txs : List Tx) (fs : Fs) : Bool :=
  decide (treeSetsum g h view fs (live txs) = some (maniO g h txs))

/-- the manifest transaction an operation appends -/
def txOf : Op → Option Tx
  | .maniAppend tx => some tx
  | _ => none

/-- the manifest transactions an operation list appends, in order -/
def appendedTxs (ops : List Op) : List Tx := ops.filterMap txOf

/-- all transactions of the manifest file, synced or not -/
def maniAll (fs : Fs) : List Tx := fs.maniDurable ++ fs.maniPending

/-- the manifest as persistence model `b` shows it: (b) `true` the synced part, (a) `false` all -/
def maniOf (b : Bool) (fs : Fs) : List Tx := if b then fs.maniDurable else maniAll fs

/-- the non-empty logs' contents, in directory order: the SSTs `recover` builds -/
def logNames (fs : Fs) : List Name := (fs.logs.map (fun l => l.2.data)).filter (fun d => d ≠ [])

/-- the small group of the examples: integers modulo 7 -/
def z7 : Grp (Fin 7) :=
  ⟨(· + ·), (fun a => 0 - a), 0, by decide, by decide, by decide, by decide⟩

/-- item hash of the examples -/
def h7 (b : Nat) : Fin 7 := Fin.ofNat 7 (3 * b + 1)

end Blue.BooksCrash
