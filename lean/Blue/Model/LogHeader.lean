import Blue.Model.Log
import Blue.Model.Wire
/-! The log's `Header` message (sst/src/log.rs) as the derive macro packs and unpacks it, and the
    parameters of the real log. -/
namespace Blue.Log
open Blue.Wire

def le32 (c : Nat) : List Nat := [c % 256, c / 256 % 256, c / 65536 % 256, c / 16777216 % 256]

def fromLe32 : List Nat → Nat
  | [a, b, c, d] => a + 256 * b + 65536 * c + 16777216 * d
  | _ => 0

def encHdr (h : Hdr) : List Nat :=
  encTag ⟨10, .varint⟩ ++ encVarint h.size ++
  encTag ⟨11, .varint⟩ ++ encVarint h.disc ++
  encTag ⟨12, .thirtyTwo⟩ ++ le32 h.crc

def mergeHdr (acc : Option Hdr) (fld : Tag × List Nat) : Option Hdr :=
  match acc with
  | none => none
  | some h =>
    match fld.1.num, fld.1.wt with
    | 10, .varint => (decVarint fld.2).map (fun r => { h with size := r.1 })
    | 11, .varint => (decVarint fld.2).bind (fun r => if r.1 > U32MAX then none else some { h with disc := r.1 })
    | 12, .thirtyTwo => if fld.2.length < 4 then none else some { h with crc := fromLe32 (fld.2.take 4) }
    | _, _ => some h

def decHdr (bs : List Nat) : Option Hdr :=
  let r := fields (bs.length + 1) bs
  match r.1.foldl mergeHdr (some ⟨0, 0, 0⟩) with
  | none => none
  | some h => if r.2 then none else some h

/-- `BLOCK_SIZE = 1 << 20`, `HEADER_MAX_SIZE = 19`, `TABLE_FULL_SIZE = 2^30 − 2^26` -/
def realParams (crc : List Nat → Nat) : Params where
  B := 1048576
  H := 19
  tableFull := 1006632960
  encH := encHdr
  decH := decHdr
  crc := crc

end Blue.Log
