import Blue.Model.Verifier
import Blue.Model.Compact
import Blue.Model.Gc
/-! What `LsmVerifier::verify_one` (lsmtk/src/verifier.rs) checks, edit by edit, over the CONTENTS
    of the files: the setsum checks that `Blue.Verifier.Checker` leaves open.

    * setsums are the elements of a type `G` with the three operations the verifier uses (`Ops`:
      `+`, unary `-`, `Setsum::default()`); the theorems assume they form a commutative group, the
      driver computes in the canonical setsum values;
    * `parse` is `Setsum::from_hexdigest`, `h` the setsum of ONE entry (`sst::Setsum::insert` on an
      empty setsum), `fs` what `get_cursor(setsum)` opens (`trash/<digest>.sst`, else
      `sst/<digest>.sst`) read through its cursor from first to last;
    * a file is the list of its entries (`Blue.Compact.Entry`: key, timestamp, value | tombstone);
    * `verify_gc`'s three `MergingCursor`s show the sorted union of their tables (key ascending,
      timestamp descending: `KeyRef: Ord`), here a stable insertion sort (`mergeTables`; that the
      real cursor shows exactly this for strictly sorted tables without common entries is C03's
      `merging_refines`); the collector is `Blue.Gc.gcP` (C05) at `now = 0`.

    Every check is in the order the code makes it, and a failure says which one failed (`Fail`).
    `contentChecker` is the instance of `Blue.Verifier.Checker` with which `Blue.Verifier.pass` runs
    the real checks. -/
namespace Blue.VerifyOne
open Blue.Mani (Edit)
open Blue.Verifier (Name getInfo parseU64 Checker)
open Blue.Compact (Entry bytesLt)

/-- `setsum::Setsum`'s `+`, `Setsum::default() - x` and `Setsum::default()` -/
structure Ops (G : Type) where
  add : G → G → G
  neg : G → G
  zero : G

variable {G : Type}

/-- `a - b` (`invert_state` then `add_state`) -/
def Ops.sub (o : Ops G) (a b : G) : G := o.add a (o.neg b)

/-- `KeyRef`: key and timestamp -/
abbrev KeyRef := List Nat × Nat

def kr (e : Entry) : KeyRef := (e.key, e.ts)

/-- `KeyRef: Ord`, strictly less: key ascending, then timestamp descending -/
def krLt (a b : KeyRef) : Bool := bytesLt a.1 b.1 || (a.1 == b.1 && decide (b.2 < a.2))

def entLt (a b : Entry) : Bool := krLt (kr a) (kr b)

abbrev File := List Entry

inductive Fail where
  /-- "manifest edit missing 'k'" -/
  | missing (k : Nat)
  /-- a digest that `Setsum::from_hexdigest` refuses -/
  | badDigest
  /-- "manifest does not continue with accumulated setsum" -/
  | chain
  /-- "manifest does not balance inputs == outputs + discard" -/
  | balance
  /-- `get_cursor`: the file is neither in `trash/` nor in `sst/` (an I/O error, not a backoff) -/
  | notFound
  /-- "sst contents do not match the setsum that names it" -/
  | contents
  /-- "manifest has bad L field" -/
  | badL
  /-- "manifest has bad discard" (D ≠ Σ removed − Σ added) -/
  | discard
  /-- "gc key less than input" -/
  | gcLogic
  /-- "data loss" -/
  | gcDataLoss
  /-- "data construction" -/
  | gcConstruction
  /-- "garbage collection has bad discard" -/
  | gcDiscard
  /-- "manifest has bad output setsum" -/
  | output
deriving DecidableEq, Repr

structure Env (G : Type) where
  ops : Ops G
  /-- `Setsum::from_hexdigest` -/
  parse : Name → Option G
  /-- the setsum of one entry -/
  h : Entry → G
  /-- `get_cursor(setsum)` drained -/
  fs : G → Option File
  /-- `options.gc_policy` -/
  policy : Blue.Gc.Policy
  /-- `false`: the code as it is — once the outputs of a garbage collection are exhausted the rest of
      the inputs goes to the computed discard unexamined; `true`: the rest is compared with the
      collector too (a variant tried in a scratch copy, not in /repo) -/
  tailChecked : Bool := false

/-- `sst::Setsum::insert` over a cursor walk, from `Setsum::default()` -/
def setsumOf (o : Ops G) (h : Entry → G) (f : File) : G := f.foldl (fun a e => o.add a (h e)) o.zero

variable [DecidableEq G]

/-- `verify_contents(setsum)` -/
def verifyContents (env : Env G) (s : G) : Except Fail Unit :=
  match env.fs s with
  | none => .error .notFound
  | some f => if setsumOf env.ops env.h f = s then .ok () else .error .contents

/-! ### `verify_gc` -/

/-- stable insertion by `KeyRef` order -/
def insertBy (x : Entry) : List Entry → List Entry
  | [] => [x]
  | y :: t => if entLt y x then y :: insertBy x t else x :: y :: t

/-- what a `MergingCursor` over the tables shows from `seek_to_first(); next()` on -/
def mergeTables (tables : List File) : List Entry := tables.flatten.foldr insertBy []

def toEnt (e : Entry) : Blue.Gc.Ent (List Nat) := ⟨e.key, e.ts, e.val.isNone⟩

/-- `get_cursor` for each digest, in order -/
def readAll (env : Env G) : List G → Except Fail (List File)
  | [] => .ok []
  | s :: t =>
    match env.fs s with
    | none => .error .notFound
    | some f =>
      match readAll env t with
      | .ok fs => .ok (f :: fs)
      | .error e => .error e

/-- the loop that runs once the outputs are exhausted: every remaining input goes to the discard;
    `tail`: not before it was compared with the collector's next key -/
def gcTail (o : Ops G) (h : Entry → G) (tail : Bool) : List Entry → List KeyRef → G → Except Fail G
  | [], _, acc => .ok acc
  | i :: is, gc, acc =>
    if tail then
      match gc with
      | g :: _ =>
        if krLt g (kr i) then .error .gcLogic
        else if g = kr i then .error .gcDataLoss
        else gcTail o h tail is gc (o.add acc (h i))
      | [] => gcTail o h tail is gc (o.add acc (h i))
    else gcTail o h tail is gc (o.add acc (h i))

/-- the two loops of `verify_gc` over the merged inputs, the merged outputs and what the collector
    retains (`gc`: the keys `gc.next()` will return, `gc_next` first): the computed discard -/
def gcWalk (o : Ops G) (h : Entry → G) (tail : Bool) : List Entry → List Entry → List KeyRef → G → Except Fail G
  | [], [], _, acc => .ok acc
  | [], _ :: _, _, _ => .error .gcConstruction
  | i :: is, [], gc, acc => gcTail o h tail (i :: is) gc acc
  | i :: is, out :: os, gc, acc =>
    let must := match gc with
      | g :: _ => decide (g = kr i)
      | [] => false
    let less := match gc with
      | g :: _ => krLt g (kr i)
      | [] => false
    if less then .error .gcLogic
    else if krLt (kr i) (kr out) then
      if must then .error .gcDataLoss else gcWalk o h tail is (out :: os) gc (o.add acc (h i))
    else if krLt (kr out) (kr i) then .error .gcConstruction
    else gcWalk o h tail is os (if must then gc.drop 1 else gc) acc

/-- what `options.gc_policy.collector(cursor, 0)` retains of the merged inputs -/
def retained (policy : Blue.Gc.Policy) (input : List Entry) : List KeyRef :=
  Blue.Gc.gcP policy 0 (some []) (input.map toEnt)

/-- `verify_gc(edit, discard)` with the digests of the edit already parsed -/
def verifyGc (env : Env G) (rms adds : List G) (discard : G) : Except Fail Unit :=
  match readAll env rms with
  | .error e => .error e
  | .ok ins =>
    match readAll env adds with
    | .error e => .error e
    | .ok outs =>
      match gcWalk env.ops env.h env.tailChecked (mergeTables ins) (mergeTables outs)
          (retained env.policy (mergeTables ins)) env.ops.zero with
      | .error e => .error e
      | .ok d => if d = discard then .ok () else .error .gcDiscard

/-! ### `verify_one` -/

/-- `setsum_from_info(k, edit.get_info(k))` -/
def info (env : Env G) (e : Edit) (k : Nat) : Except Fail G :=
  match getInfo e k with
  | none => .error (.missing k)
  | some v =>
    match env.parse v with
    | none => .error .badDigest
    | some s => .ok s

/-- one of the two loops over `edit.added()` / `edit.rmed()`: parse the digest, and (in an edit other
    than the first) recompute the file's setsum from its contents; the parsed digests in order -/
def scan (env : Env G) (first : Bool) : List Name → Except Fail (List G)
  | [] => .ok []
  | x :: t =>
    match env.parse x with
    | none => .error .badDigest
    | some s =>
      match (if first then .ok () else verifyContents env s) with
      | .error e => .error e
      | .ok _ =>
        match scan env first t with
        | .ok ss => .ok (s :: ss)
        | .error e => .error e

/-- `computed_discard`: from `Setsum::default()`, minus every added digest, plus every removed one -/
def computed (o : Ops G) (adds rms : List G) : G :=
  rms.foldl (fun c s => o.add c s) (adds.foldl (fun c s => o.sub c s) o.zero)

/-- the `L` field of an edit other than the first parses as a `u64` -/
def logOk (e : Edit) : Bool :=
  match getInfo e 76 with
  | none => true
  | some v => (parseU64 v).isSome

/-- what an edit other than the first is checked for once its files were read -/
def finishEdit (env : Env G) (e : Edit) (acc D : G) (adds rms : List G) : Except Fail G :=
  if !logOk e then .error .badL
  else if D ≠ computed env.ops adds rms then .error .discard
  else
    match (if D ≠ env.ops.zero ∧ rms ≠ [] then verifyGc env rms adds D else .ok ()) with
    | .error f => .error f
    | .ok _ => .ok (env.ops.sub acc (computed env.ops adds rms))

/-- the body of the loop of `verify_one` for one edit: the new accumulator and the edit's `O` -/
def verifyEdit (env : Env G) (first : Bool) (acc : G) (e : Edit) : Except Fail (G × G) :=
  match info env e 73 with
  | .error f => .error f
  | .ok I =>
    match info env e 79 with
    | .error f => .error f
    | .ok O =>
      match info env e 68 with
      | .error f => .error f
      | .ok D =>
        if first && decide (O ≠ acc) then .error .chain
        else if !first && decide (I ≠ acc) then .error .chain
        else if !first && decide (I ≠ env.ops.add O D) then .error .balance
        else
          match scan env first e.add with
          | .error f => .error f
          | .ok adds =>
            match scan env first e.rm with
            | .error f => .error f
            | .ok rms =>
              if first then .ok (acc, O)
              else
                match finishEdit env e acc D adds rms with
                | .error f => .error f
                | .ok acc' => .ok (acc', O)

/-- the loop of `verify_one`: accumulator and `last_outputs` -/
def verifyEdits (env : Env G) : Bool → G → Option G → List Edit → Except Fail (G × Option G)
  | _, acc, last, [] => .ok (acc, last)
  | first, acc, _, e :: t =>
    match verifyEdit env first acc e with
    | .error f => .error f
    | .ok r => verifyEdits env false r.1 (some r.2) t

/-- `verify_one(entry, …, acc)` on the edits the entry holds: the accumulated setsum it returns -/
def verifyFragment (env : Env G) (acc : G) (es : List Edit) : Except Fail G :=
  match verifyEdits env true acc none es with
  | .error f => .error f
  | .ok r => if r.2 = some r.1 then .ok r.1 else .error .output

/-- the verifier's real checks as the parameter of `Blue.Verifier.pass` -/
def contentChecker (env : Env G) : Checker G :=
  ⟨fun acc es => (verifyFragment env acc es).toOption, false⟩

end Blue.VerifyOne
