import Blue.Model.TupleKey2
/-! Field-numbered tuple keys (tuple_key/src/{lib,iter7,ordered}.rs): seven data bits per byte,
    low bit = "more bytes follow". -/
namespace Blue.TupleKey1

/-- `b | 1` on a byte -/
def or1 (b : Nat) : Nat := b / 2 * 2 + 1

/-- `impl Element for u32` -/
def encU32 (x : Nat) : List Nat :=
  [or1 (x / 2 ^ 24 % 256), or1 (x / 2 ^ 17 % 256), or1 (x / 2 ^ 10 % 256), or1 (x / 2 ^ 3 % 256),
   x % 16 * 16]

/-- `impl Element for u64` -/
def encU64 (x : Nat) : List Nat :=
  [or1 (x / 2 ^ 56 % 256), or1 (x / 2 ^ 49 % 256), or1 (x / 2 ^ 42 % 256), or1 (x / 2 ^ 35 % 256),
   or1 (x / 2 ^ 28 % 256), or1 (x / 2 ^ 21 % 256), or1 (x / 2 ^ 14 % 256), or1 (x / 2 ^ 7 % 256),
   or1 (x % 256), x % 2 * 128]

/-- `ordered::encode_i32` / `encode_i64`: shift by half the range -/
def offsetI32 (x : Int) : Nat := (x + 2147483648).toNat
def offsetI64 (x : Int) : Nat := (x + 9223372036854775808).toNat

def encI32 (x : Int) : List Nat := encU32 (offsetI32 x)
def encI64 (x : Int) : List Nat := encU64 (offsetI64 x)

/-- `impl Element for u32 :: parse_from`; the shifted parts occupy disjoint bit ranges, so the
    code's `|=` is a sum for every five bytes -/
def decU32 : List Nat → Option Nat
  | [b0, b1, b2, b3, b4] =>
    some ((b0 / 2 * 2) * 16777216 + (b1 / 2 * 2) * 131072 + (b2 / 2 * 2) * 1024 + (b3 / 2 * 2) * 8 + b4 / 16 % 16)
  | _ => none

/-- `impl Element for u64 :: parse_from` -/
def decU64 : List Nat → Option Nat
  | [b0, b1, b2, b3, b4, b5, b6, b7, b8, b9] =>
    some ((b0 / 2 * 2) * 72057594037927936 + (b1 / 2 * 2) * 562949953421312 + (b2 / 2 * 2) * 4398046511104
      + (b3 / 2 * 2) * 34359738368 + (b4 / 2 * 2) * 268435456 + (b5 / 2 * 2) * 2097152 + (b6 / 2 * 2) * 16384
      + (b7 / 2 * 2) * 128 + b8 / 2 * 2 + b9 / 128 % 2)
  | _ => none

def decI32 (bs : List Nat) : Option Int := (decU32 bs).map (fun n => (n : Int) - 2147483648)
def decI64 (bs : List Nat) : Option Int := (decU64 bs).map (fun n => (n : Int) - 9223372036854775808)

/-- `reverse_encoding`: invert the seven data bits, keep the low bit -/
def revByte (b : Nat) : Nat := (255 - b) / 2 * 2 + b % 2
def reverse (bs : List Nat) : List Nat := bs.map revByte

/-- the bits of a byte string, most significant first -/
def byteBits (b : Nat) : List Nat :=
  [b / 128 % 2, b / 64 % 2, b / 32 % 2, b / 16 % 2, b / 8 % 2, b / 4 % 2, b / 2 % 2, b % 2]
def bits (s : List Nat) : List Nat := s.flatMap byteBits

/-- value of up to seven bits, left-aligned in seven bits -/
def val7 : List Nat → Nat → Nat
  | [], _ => 0
  | _, 0 => 0
  | b :: bs, w+1 => b * 2 ^ w + val7 bs w

/-- `Iterate7BitChunks`: full chunks while more than seven bits remain, then the padded rest -/
def chunks : Nat → List Nat → List Nat
  | 0, _ => []
  | f+1, bl =>
    if bl.length > 7 then (2 * val7 (bl.take 7) 7 + 1) :: chunks f (bl.drop 7)
    else if bl.length > 0 then [2 * val7 bl 7]
    else []

/-- `impl Element for String` (on the UTF-8 bytes) -/
def encString (s : List Nat) : List Nat :=
  match chunks (s.length * 8 + 1) (bits s) with
  | [] => [0]
  | l => l

/-! the string element's decoder (`Combine7BitChunks` + `parse_from`); moved here from
    `Proofs/TupleStringDecode.lean` so that the driver runs the function the theorems are about -/

def bits7 (d : Nat) : List Nat := [d / 64 % 2, d / 32 % 2, d / 16 % 2, d / 8 % 2, d / 4 % 2, d / 2 % 2, d % 2]

/-- the data bits of the chunks, concatenated -/
def decBits (chunks : List Nat) : List Nat := chunks.flatMap (fun b => bits7 (b / 2))

def byteOf (l : List Nat) : Nat := l.foldl (fun acc b => acc * 2 + b) 0

/-- whole bytes out of a bit string; a tail of fewer than eight bits is dropped -/
def group8 : Nat → List Nat → List Nat
  | 0, _ => []
  | f + 1, l => if 8 ≤ l.length then byteOf (l.take 8) :: group8 f (l.drop 8) else []

/-- `impl Element for String :: parse_from` (before the UTF-8 check) -/
def decString (enc : List Nat) : List Nat :=
  if enc.length = 1 then [] else group8 ((decBits enc).length + 1) (decBits enc)

end Blue.TupleKey1
