/-! `FlushCrash` generalised: manifest transactions with additions and removals, and the compaction
    protocol (write and sync every output under `tmp/`, link them into `sst/`, append one manifest
    transaction `+outputs −inputs`, sync it, move the inputs to the trash, unlink the temporaries).
    A batch is its sequence number; an SST is named by its content. -/
namespace Blue.StoreCrash

abbrev Name := List Nat

structure File where
  data : List Nat
  durable : List Nat
deriving DecidableEq, Repr

structure Tx where
  adds : List Name
  rms : List Name
deriving DecidableEq, Repr

structure Fs where
  tmp : List (Name × File)
  sst : List (Name × File)
  maniDurable : List Tx
  maniPending : List Tx
  logs : List (Nat × File)
deriving Repr

inductive Op where
  | logCreate (n : Nat)
  | logAppend (n : Nat) (b : Nat)
  | logSync (n : Nat)
  | ack (b : Nat)
  | tmpCreate (name : Name) (data : List Nat)
  | tmpSync (name : Name)
  | link (name : Name)
  | maniAppend (tx : Tx)
  | maniSync
  | tmpUnlink (name : Name)
  | logTrash (n : Nat)
  | sstTrash (name : Name)
deriving Repr, DecidableEq

def find : List (Name × File) → Name → Option File
  | [], _ => none
  | (k, f) :: t, nm => if k = nm then some f else find t nm

def step (fs : Fs) : Op → Fs
  | .logCreate n => { fs with logs := fs.logs ++ [(n, ⟨[], []⟩)] }
  | .logAppend n b => { fs with logs := fs.logs.map (fun l => if l.1 = n then (l.1, { l.2 with data := l.2.data ++ [b] }) else l) }
  | .logSync n => { fs with logs := fs.logs.map (fun l => if l.1 = n then (l.1, { l.2 with durable := l.2.data }) else l) }
  | .ack _ => fs
  | .tmpCreate name d => { fs with tmp := (name, ⟨d, []⟩) :: fs.tmp }
  | .tmpSync name => { fs with tmp := fs.tmp.map (fun e => if e.1 = name then (e.1, { e.2 with durable := e.2.data }) else e) }
  | .link name => match find fs.tmp name with
    | some f => { fs with sst := (name, f) :: fs.sst }
    | none => fs
  | .maniAppend tx => { fs with maniPending := fs.maniPending ++ [tx] }
  | .maniSync => { fs with maniDurable := fs.maniDurable ++ fs.maniPending, maniPending := [] }
  | .tmpUnlink name => { fs with tmp := fs.tmp.filter (fun e => e.1 ≠ name) }
  | .logTrash n => { fs with logs := fs.logs.filter (fun l => l.1 ≠ n) }
  | .sstTrash name => { fs with sst := fs.sst.filter (fun e => e.1 ≠ name) }

def run (fs : Fs) (ops : List Op) : Fs := ops.foldl step fs

def applyTx (l : List Name) (tx : Tx) : List Name :=
  l.filter (fun x => decide (x ∉ tx.rms)) ++ tx.adds

/-- the SSTs a manifest names: replay of its transactions -/
def live (txs : List Tx) : List Name := txs.foldl applyTx []

def logPart (mani : List Name) (ds : List (List Nat)) : List Nat :=
  (ds.filter (fun d => decide (d ∉ mani))).flatten

/-- `KeyValueStore::open` on a crash image -/
def recover (view : File → List Nat) (txs : List Tx) (fs : Fs) : Option (List Nat) :=
  if ∀ nm ∈ live txs, (find fs.sst nm).map view = some nm then
    some ((live txs).flatten ++ logPart (live txs) (fs.logs.map (fun l => view l.2)))
  else none

def recoverB (fs : Fs) : Option (List Nat) := recover (·.durable) fs.maniDurable fs
def recoverA (fs : Fs) : Option (List Nat) := recover (·.data) (fs.maniDurable ++ fs.maniPending) fs

/-- the sequential client: current log, its content (= the memtable), next sequence number, and the
    SSTs the tree holds -/
structure Kv where
  cur : Nat
  content : List Nat
  next : Nat
  files : List Name
deriving Repr

inductive Client where
  | put
  | flush
  /-- compact the files selected by `p` into `outs` (any number of files, any cut points, any order
      of the entries) -/
  | compact (p : Name → Bool) (outs : List Name)
  /-- clean shutdown and reopen: `KeyValueStore::open` turns the log it finds into an SST
      (`recover_one`), moves it to the trash and starts a new log -/
  | reopen

/-- a compaction request is well formed: the outputs hold exactly the inputs' batches and are
    new names -/
def validCompact (kv : Kv) (p : Name → Bool) (outs : List Name) : Prop :=
  outs.flatten.Perm (kv.files.filter p).flatten ∧ ∀ o ∈ outs, o ∉ kv.files

instance (kv : Kv) (p : Name → Bool) (outs : List Name) : Decidable (validCompact kv p outs) := by
  unfold validCompact; exact inferInstance

def block (kv : Kv) : Client → List Op
  | .put => [.logAppend kv.cur kv.next, .logSync kv.cur, .ack kv.next]
  | .flush =>
    if kv.content = [] then []
    else [.logCreate (kv.cur + 1), .tmpCreate kv.content kv.content, .tmpSync kv.content, .link kv.content]
      ++ [.maniAppend ⟨[kv.content], []⟩, .maniSync]
      ++ [.tmpUnlink kv.content, .logTrash kv.cur]
  | .compact p outs =>
    if validCompact kv p outs then
      (outs.flatMap (fun o => [.tmpCreate o o, .tmpSync o]) ++ outs.map .link ++ outs.map .tmpUnlink)
        ++ [.maniAppend ⟨outs, kv.files.filter p⟩, .maniSync]
        ++ (kv.files.filter p).map .sstTrash
    else []
  | .reopen =>
    if kv.content = [] then [.logTrash kv.cur, .logCreate (kv.cur + 1)]
    else ([.tmpCreate kv.content kv.content, .tmpSync kv.content, .link kv.content]
      ++ [.maniAppend ⟨[kv.content], []⟩, .maniSync]
      ++ [.tmpUnlink kv.content]) ++ [.logTrash kv.cur, .logCreate (kv.cur + 1)]

def after (kv : Kv) : Client → Kv
  | .put => { kv with content := kv.content ++ [kv.next], next := kv.next + 1 }
  | .flush => if kv.content = [] then kv
    else { kv with cur := kv.cur + 1, content := [], files := applyTx kv.files ⟨[kv.content], []⟩ }
  | .compact p outs =>
    if validCompact kv p outs then { kv with files := applyTx kv.files ⟨outs, kv.files.filter p⟩ } else kv
  | .reopen => if kv.content = [] then { kv with cur := kv.cur + 1 }
    else { kv with cur := kv.cur + 1, content := [], files := applyTx kv.files ⟨[kv.content], []⟩ }

def opsOf : List Client → Kv → List Op
  | [], _ => []
  | c :: cs, kv => block kv c ++ opsOf cs (after kv c)

def acked (ops : List Op) : Nat := (ops.filter (fun o => match o with | .ack _ => true | _ => false)).length
def appended (ops : List Op) : Nat := (ops.filter (fun o => match o with | .logAppend _ _ => true | _ => false)).length

def fs0 : Fs := ⟨[], [], [], [], [(0, ⟨[], []⟩)]⟩
def kv0 : Kv := ⟨0, [], 0, []⟩

end Blue.StoreCrash
