import Blue.Model.BitArr
import Blue.Model.RrrWord
import Blue.Model.BitVecCf
/-! `scrunch::bit_vector::cf_rrr::BitVector` (the cache-friendly RRR bit vector) on its ENCODED
    representation: `construct` writes the four sealed bit arrays `p` (block pointers), `b` (the
    blocks: cumulative rank, 23 six-bit classes, the `L[c]`-bit offsets), `s0` / `s1` (select
    samples), and `access_rank` / `access` / `rank` / `select_helper` / `select` / `select0` read them
    back through `BitArray::load`, the `FixedWidthIterator` and `decode`, statement by statement.

    What is abstracted / not modelled
    * `usize` / `u64` overflow: all arithmetic is on `Nat` (`calc_width`'s `next_power_of_two`
      never returns 0 here; `try_into()` never fails).
    * the protobuf framing of the stub (`BitVectorStub`): a `Vec` is the parsed `BitVector`.
    * `construct`'s loop variable `idx` is represented by the words that remain (`words[idx..]`);
      `amt` is the length of `rest.take 23`.  The pushes of one block are appended to the builder in
      one go (`blockStep`); `Blue.RrrCf.blockStep_build_eq_pushes` (Proofs/RrrCfLayout) shows this is
      the same as the successive `push_word`s.
    * panics: `assert!(rank <= x)` and the `usize` subtraction `idx * sample - r` of `select0` are
      the outcome `Res.panic` of `selectRes`; `select` / `select0` map it to `none`, and
      `selectRes_construct` (Proofs/RrrCf) proves it never arises on a constructed vector.
      `assert!(index < stride)` of `access_rank` and the division by `stride` assume
      `words_per_block > 0` (23 on every constructed vector; `x / 0 = 0` on `Nat`).  `L[c]` indexes with a
      6-bit value, which is always inside the 64-entry table (`lOf` returns 0 outside).
      The asserts of `construct` itself (`next_select1 >= rank`, `c <= 63`, `push_word`'s
      `word < 2^bits`) are not outcomes of the model; the proofs show the stored values fit.
    * `for idx in 0..usize::MAX` takes fuel `p.length + 1` (every iteration loads a `p_width`-bit
      field further on in `p`, so it ends earlier by a failed load when `p_width > 0`); running out
      of fuel is the `None` after the loop. -/
namespace Blue.RrrCf
open Blue.BitArr Blue.Rrr

/-- the parsed `BitVector` -/
structure Vec where
  bits : Nat
  wordsPerBlock : Nat
  selectSample : Nat
  pWidth : Nat
  rWidth : Nat
  p : List Bool
  b : List Bool
  s0 : List Bool
  s1 : List Bool

/-- `L[c]` -/
def lOf (c : Nat) : Nat := lTab.getD c 0

/-! ### calc_width -/

/-- `usize::next_power_of_two`: double from 1 until not below `m` -/
def npotAux : Nat → Nat → Nat → Nat
  | 0, p, _ => p
  | f + 1, p, m => if p ≥ m then p else npotAux f (2 * p) m

def nextPow2 (m : Nat) : Nat := npotAux m 1 m

/-- `usize::ilog2` -/
def ilog2Aux : Nat → Nat → Nat
  | 0, _ => 0
  | f + 1, n => if n ≥ 2 then ilog2Aux f (n / 2) + 1 else 0

def ilog2 (n : Nat) : Nat := ilog2Aux n n

/-- `calc_width(bits)` (always `Some`: no overflow on `Nat`) -/
def calcWidth (n : Nat) : Nat := max (ilog2 (nextPow2 (n + 1)) + 1) 8

/-! ### construct -/

def wpbC : Nat := Blue.BitVec.cfWordsPerBlock
def sampleC : Nat := wpbC * 63

structure CState where
  rank : Nat
  rank0 : Nat
  build : List Bool
  s0 : List Bool
  s1 : List Bool
  ps : List Nat
  next0 : Nat
  next1 : Nat

/-- `while r >= next { build_s.push_word(blk, r_width); next += PARAM_SELECT_SAMPLE }` -/
def sampleLoop (w blk r : Nat) : Nat → List Bool → Nat → List Bool × Nat
  | 0, s, nx => (s, nx)
  | f + 1, s, nx => if r ≥ nx then sampleLoop w blk r f (pushWord s blk w) (nx + sampleC) else (s, nx)

/-- the fields (value, width) one iteration of the `while idx < words.len()` loop pushes to `build` -/
def blockFields (rw rank : Nat) (blk : List Nat) : List (Nat × Nat) :=
  let oc := blk.map encode
  (rank, rw) :: (oc.map (fun e => (e.2, 6)) ++ List.replicate (wpbC - blk.length) (0, 6)
    ++ (oc.filter (fun e => decide (lOf e.2 > 0))).map (fun e => (e.1, lOf e.2)))

/-- one iteration of the `while idx < words.len()` loop on the block `blk = words[idx..idx+amt]` -/
def blockStep (rw : Nat) (blk : List Nat) (st : CState) : CState :=
  let ps := st.ps ++ [st.build.length]
  let oc := blk.map encode
  let rank := oc.foldl (fun r e => r + e.2) st.rank
  let rank0 := oc.foldl (fun r e => r + (63 - e.2)) st.rank0
  let build := st.build ++ (blockFields rw st.rank blk).flatMap (fun f => toBits f.1 f.2)
  let s0 := sampleLoop rw (ps.length - 1) rank0 (rank0 + 1) st.s0 st.next0
  let s1 := sampleLoop rw (ps.length - 1) rank (rank + 1) st.s1 st.next1
  { rank := rank, rank0 := rank0, build := build, s0 := s0.1, s1 := s1.1, ps := ps,
    next0 := s0.2, next1 := s1.2 }

/-- `while idx < words.len() { … idx += amt }` on `rest = words[idx..]` -/
def cLoop (rw : Nat) : Nat → List Nat → CState → CState
  | 0, _, st => st
  | f + 1, rest, st =>
    if rest.isEmpty then st else cLoop rw f (rest.drop wpbC) (blockStep rw (rest.take wpbC) st)

def cInit : CState :=
  { rank := 0, rank0 := 0, build := [], s0 := [], s1 := [], ps := [], next0 := 0, next1 := 0 }

/-- `BitVector::construct` followed by `parse` -/
def construct (bits : List Bool) : Vec :=
  let rw := calcWidth bits.length
  let words := wordsOf bits
  let st := cLoop rw words.length words cInit
  let ps := if st.ps.isEmpty then [0] else st.ps
  let pw := calcWidth (ps.getLast?.getD 0 + 1)
  let p := ps.foldl (fun a v => pushWord a v pw) []
  { bits := bits.length, wordsPerBlock := wpbC, selectSample := sampleC, pWidth := pw, rWidth := rw,
    p := sealBits p, b := sealBits st.build, s0 := sealBits st.s0, s1 := sealBits st.s1 }

/-! ### queries -/

def len (v : Vec) : Nat := v.bits

/-- `while index >= 63 { c = iter_c.next()?; o_rel += L[c]; index -= 63; rank += c }` -/
def arLoop (b : List Bool) : Nat → FwIter → Nat → Nat → Nat → Option (FwIter × Nat × Nat × Nat)
  | 0, _, _, _, _ => none
  | f + 1, it, index, oRel, rank =>
    if index ≥ 63 then
      match fwNext b it with
      | none => none
      | some (c, it') => arLoop b f it' (index - 63) (oRel + lOf c) (rank + c)
    else some (it, index, oRel, rank)

/-- `access_rank` from "The offset into P" on (the part reached when `index < len`) -/
def accessRankBody (v : Vec) (index : Nat) : Option (Bool × Nat) :=
  let stride := v.wordsPerBlock * 63
  let pOffset := index / stride
  match load v.p (pOffset * v.pWidth) v.pWidth with
  | none => none
  | some bOffset =>
    let index := index - pOffset * stride
    match load v.b bOffset v.rWidth with
    | none => none
    | some rank =>
      let it := fwNew (bOffset + v.rWidth) (v.wordsPerBlock * 6) 6
      match arLoop v.b (index / 63 + 1) it index 0 rank with
      | none => none
      | some (it, index, oRel, rank) =>
        match fwNext v.b it with
        | none => none
        | some (c, _) =>
          match load v.b (bOffset + v.rWidth + v.wordsPerBlock * 6 + oRel) (lOf c) with
          | none => none
          | some o =>
            match decode o c with
            | none => none
            | some w => some (bitAt w index, rank + lowPop w index)

/-- `access_rank`.  The recursive call in the `index == len` branch is on `len - 1 < len`, which
    passes the three guards and runs the body. -/
def accessRank (v : Vec) (index : Nat) : Option (Bool × Nat) :=
  if index > len v then none
  else if index = 0 ∧ len v = 0 then some (false, 0)
  else if index = len v then
    match accessRankBody v (index - 1) with
    | none => none
    | some (a, r) => some (false, r + (if a then 1 else 0))
  else accessRankBody v index

def access (v : Vec) (index : Nat) : Option Bool :=
  if index < len v then (accessRank v index).map (·.1) else none

def rank (v : Vec) (index : Nat) : Option Nat := (accessRank v index).map (·.2)

/-- outcome of `select_helper`: a panic (`assert!(rank <= x)`, or the `usize` underflow of
    `idx * sample - r` with overflow checks on), or the returned option -/
inductive Res where
  | panic : Res
  | ok : Option Nat → Res
deriving DecidableEq, Repr

/-- outcome of the inner `for c in iter_c`: `return`ed from the function, or fell out of the loop -/
inductive Inner where
  | ret : Option Nat → Inner
  | done : Bool → Inner

/-- `add_rank` -/
def addRank (zero : Bool) (c : Nat) : Nat := if zero then 63 - c else c

/-- `word_select` -/
def wordSelect (zero : Bool) (w x : Nat) : Option Nat := if zero then select0 w x else select1 w x

/-- the body of `if rank + r >= x { … }` -/
def selFound (v : Vec) (zero : Bool) (x base oRel rank index c : Nat) : Option Nat :=
  match load v.b (base + oRel) (lOf c) with
  | none => none
  | some o =>
    match decode o c with
    | none => none
    | some w =>
      match wordSelect zero w (x - rank) with
      | none => none
      | some q => if index + q ≤ len v then some (index + q) else none

/-- `for c in iter_c { … }`; `base = index_of_block + r_width + words_per_block * 6` -/
def selInner (v : Vec) (zero : Bool) (x base : Nat) : Nat → FwIter → Nat → Nat → Nat → Bool → Inner
  | 0, _, _, _, _, itered => Inner.done itered
  | f + 1, it, oRel, rank, index, itered =>
    match fwNext v.b it with
    | none => Inner.done itered
    | some (c, it') =>
      let r := addRank zero c
      if rank + r ≥ x then Inner.ret (selFound v zero x base oRel rank index c)
      else selInner v zero x base f it' (oRel + lOf c) (rank + r) (index + 63) true

/-- `load_rank(index_into_p + idx, index_of_block)`: `none` = the load failed, `some none` = the
    subtraction underflowed -/
def loadRank (v : Vec) (zero : Bool) (blk ptr : Nat) : Option (Option Nat) :=
  match load v.b ptr v.rWidth with
  | none => none
  | some r =>
    if zero then (if r ≤ blk * v.selectSample then some (some (blk * v.selectSample - r)) else some none)
    else some (some r)

/-- `for idx in 0..usize::MAX { … }`, `blk = index_into_p + idx` -/
def selOuter (v : Vec) (zero : Bool) (x : Nat) : Nat → Nat → Res
  | 0, _ => Res.ok none
  | f + 1, blk =>
    match load v.p (blk * v.pWidth) v.pWidth with
    | none => Res.ok none
    | some indexOfBlock =>
      match loadRank v zero blk indexOfBlock with
      | none => Res.ok none
      | some none => Res.panic
      | some (some rank) =>
        if rank > x then Res.panic
        else
          let index := blk * v.wordsPerBlock * 63
          let it := fwNew (indexOfBlock + v.rWidth) (v.wordsPerBlock * 6) 6
          match selInner v zero x (indexOfBlock + v.rWidth + v.wordsPerBlock * 6)
              (v.wordsPerBlock + 1) it 0 rank index false with
          | Inner.ret r => Res.ok r
          | Inner.done itered => if itered then selOuter v zero x f (blk + 1) else Res.ok none

/-- `select_helper(x, structure, …)` with `structure = s0` (`zero`) or `s1` -/
def selectRes (v : Vec) (zero : Bool) (x : Nat) : Res :=
  if x = 0 then Res.ok (some 0)
  else
    let stride := v.wordsPerBlock * 63
    match load (if zero then v.s0 else v.s1) ((x / stride) * v.rWidth) v.rWidth with
    | none => Res.ok none
    | some indexIntoP => selOuter v zero x (v.p.length + 1) indexIntoP

def Res.toOption : Res → Option Nat
  | Res.panic => none
  | Res.ok r => r

def select (v : Vec) (x : Nat) : Option Nat := (selectRes v false x).toOption
def select0 (v : Vec) (x : Nat) : Option Nat := (selectRes v true x).toOption

end Blue.RrrCf
