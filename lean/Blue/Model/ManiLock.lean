import Blue.Model.ManiCrash
/-! Two processes on one manifest directory: the lock file (utilz/src/lockfile.rs, `Manifest::open`
    in mani/src/lib.rs).  `Manifest::open` takes LOCKFILE first — by default it WAITS for it
    (`Lockfile::wait`, `fcntl(F_SETLKW)`; the crate's own `mani-append` / `mani-rollover` tools do) —
    and only then reads MANIFEST, numbers the next backup and rolls over what it has read.

    The process that holds the lock goes on while the other waits: it applies edits (each `apply`
    returns), rolls over, and finally drops its handle.  `waiterOpen` is the second process's
    `open` in that situation; its parameter says where `read_mani(MANIFEST)` stands relative to
    the lock acquisition. -/
namespace Blue.ManiLock
open Blue.ManiCrash

variable {St E : Type}

/-- `read_mani(MANIFEST)` on this directory -/
def readMani (A : Algebra St E) (fs : Fs E) : St := replay A (fs.mani.durable ++ fs.mani.pending)

/-- the rollover at the end of `Manifest::open`, of the state `st` the opener holds: finish an
    interrupted rollover, or link the backup first -/
def openRollover (A : Algebra St E) (fs : Fs E) (st : St) : List (Op E) :=
  (if fs.linked then [] else [Op.linkBackup]) ++ [.tmpClear, .tmpWrite (A.rollup st), .tmpSync, .rename]

/-- `Manifest::open` of a second process on the directory `fs` whose lock the first process holds;
    the first process issues the calls `during` and lets go.  `readFirst = false`: the code —
    LOCKFILE, then `read_mani`; `readFirst = true`: `read_mani` moved above the lock acquisition.
    The directory after the open (no rollover when there is no MANIFEST) and the state of the
    handle it returns. -/
def waiterOpen (A : Algebra St E) (readFirst : Bool) (fs : Fs E) (during : List (Op E)) : Fs E × St :=
  let fs1 := run fs during
  let st := if readFirst then readMani A fs else readMani A fs1
  if (fs1.mani.durable ++ fs1.mani.pending).isEmpty then (fs1, st)
  else (run fs1 (openRollover A fs1 st), st)

end Blue.ManiLock
